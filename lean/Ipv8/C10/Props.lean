/-
  C10 — property theorems: "each outstanding request is resolved exactly once".
  Every `theorem` in this file is an obligation of the check; helper lemmas live in Lemmas.lean.

  All statements are about the model of Model.lean (`step`/`run`), for EVERY history `evs : List Ev` starting in the
  empty request cache `init` — any number of cache objects, any delays, any interleaving of constructor / add / pop /
  get / passthrough enter+exit / timer expiry / clear / shutdown / external future completion, where between the start
  of an on_timeout (`fireBegin`) and its end (`fireEnd`/`fireAbort`) any sequence of synchronous events may occur
  (so every possible on_timeout body is covered, including pops and adds issued from inside it).
  `trace` is the list of replies; `.added c` = add returned the cache, `.claimed c` = pop returned it,
  `.timedOut c` = its on_timeout was invoked.  Events that are not enabled are answered `.refused` and change nothing.

  What the model assumes about asyncio is in the enabledness rules R1–R4 (Model.lean header).  Re-registration of a
  cache object from inside its own on_timeout is part of the model (after the two repairs in requestcache.py).
-/
import Ipv8.C10.Lemmas
import Ipv8.C10.Source
import Ipv8.C10.AsyncTask
import Ipv8.C10.TaskMgr

namespace Ipv8.C10

/-- Reachable states keep `_identifiers` and the timeout tasks in sync (no identifier without a live timer, no live
    timer without its identifier), shutdown leaves nothing behind, and no live timer is past its deadline. -/
theorem table_and_timers_in_sync (evs : List Ev) : Inv (final init evs) := reach_inv evs

/-- AT MOST ONCE.  For every history and every cache object: (number of times it was claimed) + (number of times its
    timeout fired) ≤ (number of times it was successfully registered) — in every prefix too, since `evs` is arbitrary.
    Hence a registration is never both claimed and timed out, never claimed twice, never timed out twice. -/
theorem at_most_once (evs : List Ev) (c : Nat) :
    (trace init evs).count (.claimed c) + (trace init evs).count (.timedOut c)
      ≤ (trace init evs).count (.added c) := by
  have h := run_count init evs c inv_init
  have h0 : outN init c = 0 := by simp [outN, init]
  omega

/-- A request that is not outstanding (never registered, claimed, timed out, cleared, shut down) is neither claimed
    nor timed out by ANY continuation in which it is not registered again. -/
theorem resolved_is_final (evs1 evs2 : List Ev) (c : Nat)
    (hno : ¬ outstanding (final init evs1) c)
    (hnoadd : Reply.added c ∉ trace (final init evs1) evs2) :
    Reply.claimed c ∉ trace (final init evs1) evs2 ∧ Reply.timedOut c ∉ trace (final init evs1) evs2 := by
  have h := run_count (final init evs1) evs2 c (reach_inv evs1)
  rw [outN_zero_of_not hno, List.count_eq_zero_of_not_mem hnoadd] at h
  constructor
  · intro hm; have := List.count_pos_iff.mpr hm; omega
  · intro hm; have := List.count_pos_iff.mpr hm; omega

/-- CLAIMED ⇒ ITS TIMEOUT NEVER FIRES.  After `pop` returned cache c, no continuation (without a new registration of
    c) contains a timeout of c or a second claim of c. -/
theorem no_timeout_after_pop (evs1 evs2 : List Ev) (p n c : Nat)
    (hpop : (step (final init evs1) (.pop p n)).2 = .claimed c)
    (hnoadd : Reply.added c ∉ trace (step (final init evs1) (.pop p n)).1 evs2) :
    Reply.timedOut c ∉ trace (step (final init evs1) (.pop p n)).1 evs2
      ∧ Reply.claimed c ∉ trace (step (final init evs1) (.pop p n)).1 evs2 := by
  have hfin : (step (final init evs1) (.pop p n)).1 = final init (evs1 ++ [.pop p n]) := by
    simp [final_append, final_cons, final_nil]
  have hno : ¬ outstanding (final init (evs1 ++ [.pop p n])) c := by
    rw [← hfin]
    simp only [step, cancelPending] at hpop ⊢
    split at hpop
    · cases hpop
    · rename_i c0 hl
      injection hpop with hc; subst hc
      have hc := (reach_inv evs1).idsOk _ _ hl
      have hid : ((final init evs1).caches c0).pfx = p ∧ ((final init evs1).caches c0).num = n := by
        have := hc.2.1; simp only [Cache.ident, Prod.mk.injEq] at this; exact this
      simp only [outstanding]
      repeat' split
      all_goals simp [upd, Cache.ident, lookup_erase, hid.1, hid.2]
  rw [hfin] at hnoadd ⊢
  exact (resolved_is_final _ evs2 c hno hnoadd).symm

/-- TIMED OUT ⇒ A LATER RESPONSE FINDS NOTHING.  Once on_timeout of c has been invoked, its identifier is gone
    (an immediate pop raises KeyError — also from inside on_timeout), and no continuation (without a new registration
    of c) claims c or times it out again. -/
theorem pop_after_timeout_keyerror (evs1 evs2 : List Ev) (c : Nat)
    (hfire : (step (final init evs1) (.fireBegin c)).2 = .timedOut c)
    (hnoadd : Reply.added c ∉ trace (step (final init evs1) (.fireBegin c)).1 evs2) :
    let s1 := (step (final init evs1) (.fireBegin c)).1
    (step s1 (.pop (s1.caches c).pfx (s1.caches c).num)).2 = .keyError
      ∧ Reply.claimed c ∉ trace s1 evs2 ∧ Reply.timedOut c ∉ trace s1 evs2 := by
  intro s1
  have hfin : s1 = final init (evs1 ++ [.fireBegin c]) := by
    simp [s1, final_append, final_cons, final_nil]
  have hacc := fireBegin_accepted hfire
  have hshape : (s1.caches c).task = none ∧ lookup (s1.caches c).ident s1.ids = none := by
    have : s1 = _ := hacc.2.2.2.2
    rw [this]
    simp [lookup_erase, upd, Cache.ident]
  have hno : ¬ outstanding (final init (evs1 ++ [.fireBegin c])) c := by
    rw [← hfin]; simp [outstanding, hshape.2]
  refine ⟨?_, ?_⟩
  · have := hshape.2
    simp only [Cache.ident] at this
    simp [step, this]
  · have := resolved_is_final (evs1 ++ [.fireBegin c]) evs2 c hno (by rw [← hfin]; exact hnoadd)
    rw [← hfin] at this
    exact this

/-- outstanding (= registered in the table under its own identity) ⇔ a timer is waiting for it — in every reachable
    state: there is no registered request without a timer and no timer without its registered request -/
theorem outstanding_iff_timer_waiting (evs : List Ev) (c : Nat) :
    outstanding (final init evs) c ↔ ((final init evs).caches c).task.isSome = true := by
  have h := reach_inv evs
  exact ⟨fun ho => (h.idsOk _ _ ho).2.2, fun ht => h.taskOk c ht⟩

/-- UNIQUE IDENTITY.  While a request is registered under (p, n): constructing another cache for (p, n) raises
    (`NumberCache.__init__` guard); adding ANY cache object with that identity is not answered `added` and leaves the
    table as it is (and the whole state, unless the cache is shut down — then the refused cache's futures are
    cancelled); and two outstanding requests never share an identity. -/
theorem unique_identity (evs : List Ev) (p n c : Nat)
    (hout : lookup (p, n) (final init evs).ids = some c) :
    (∀ d cls ks, step (final init evs) (.mk p n d cls ks) = (final init evs, .inUse))
    ∧ (∀ c', ((final init evs).caches c').ident = (p, n) →
          (step (final init evs) (.add c')).2 ≠ .added c'
          ∧ (step (final init evs) (.add c')).1.ids = (final init evs).ids
          ∧ ((final init evs).shutdown = false → (step (final init evs) (.add c')).1 = final init evs))
    ∧ (∀ c', outstanding (final init evs) c' → ((final init evs).caches c').ident = (p, n) → c' = c) := by
  refine ⟨?_, ?_, ?_⟩
  · intro d cls ks
    simp [step, mkCache, hout]
  · intro c' hid
    refine ⟨?_, ?_, ?_⟩
    all_goals
      simp only [step]
      repeat' split
      all_goals simp_all
  · intro c' ho hid
    have ho' : lookup ((final init evs).caches c').ident (final init evs).ids = some c' := ho
    rw [hid, hout] at ho'
    exact (Option.some.inj ho').symm

/-- A FREE IDENTITY CAN BE REGISTERED.  In every reachable state that is not shut down: adding a constructed cache with
    a legal delay whose identity is free, and which is not the cache whose own on_timeout is executing, IS answered
    `added` (it cannot be refused as duplicate, and `register_task` cannot raise).  In particular right after a claim
    the identity is free again: the response handler may register a follow-up request under the same (prefix, number). -/
theorem free_identity_is_registrable (evs : List Ev) (c' : Nat) :
    let s := final init evs
    (c' < s.n → Gen.minDelayExclusiveMs < (s.caches c').delay → s.shutdown = false →
        lookup (s.caches c').ident s.ids = none → s.running ≠ some c' → (step s (.add c')).2 = .added c')
    ∧ (∀ p n c, (step s (.pop p n)).2 = .claimed c → lookup (p, n) (step s (.pop p n)).1.ids = none) := by
  intro s
  have h := reach_inv evs
  refine ⟨?_, ?_⟩
  · intro hc hd hs hl hr
    have hn : ¬ s.n ≤ c' := by omega
    have hd' : ¬ (s.caches c').delay ≤ Gen.minDelayExclusiveMs := by omega
    have ht : (s.caches c').task = none := by
      cases ht : (s.caches c').task with
      | none => rfl
      | some dl =>
        have hsome : (s.caches c').task.isSome = true := by rw [ht]; rfl
        have := h.taskOk c' hsome
        rw [hl] at this; cases this
    have hnt : nameTaken s c' = false := by
      simp only [nameTaken, ht, Option.isSome_none, Bool.false_or, Bool.and_eq_false_imp, beq_iff_eq]
      intro hrun; exact absurd hrun hr
    simp [step, hn, hd', hs, hl, hnt]
  · intro p n c hp
    simp only [step] at hp ⊢
    split at hp
    · cases hp
    · simp [cancelPending_ids, lookup_erase]

/-- RE-REGISTRATION FROM INSIDE on_timeout.  (a) An `add` that raises ("Task already exists": the cache's own timeout
    task is still registered) or is refused as duplicate changes nothing — in particular it leaves no identifier
    behind.  (b) The end of `_on_timeout` touches neither the table nor any timer: a request registered during
    on_timeout (the timed-out cache itself after a `clear`, or any other) keeps its timer and stays outstanding. -/
theorem reregistration_inside_on_timeout (s : St) (c : Nat) :
    ((step s (.add c)).2 = .raised ∨ (step s (.add c)).2 = .dup → (step s (.add c)).1 = s)
    ∧ ((step s .fireEnd).1.ids = s.ids ∧ ∀ c', ((step s .fireEnd).1.caches c').task = (s.caches c').task)
    ∧ ((step s .fireAbort).1.ids = s.ids ∧ ∀ c', ((step s .fireAbort).1.caches c').task = (s.caches c').task) := by
  refine ⟨?_, ?_, ?_⟩
  · intro h
    simp only [step, cancelPending] at h ⊢
    repeat' split at h
    all_goals first
      | (rcases h with h | h <;> cases h; done)
      | (repeat' split) <;> simp_all
  · simp only [step]
    split
    · exact ⟨rfl, fun _ => rfl⟩
    · refine ⟨rfl, fun c' => ?_⟩
      simp only [upd_apply, Cache.completeFuts]
      split <;> simp_all
  · simp only [step]
    split
    · exact ⟨rfl, fun _ => rfl⟩
    · refine ⟨rfl, fun c' => ?_⟩
      simp only [upd_apply, Cache.completeFuts]
      split <;> simp_all

/-- FUTURES COMPLETED ON TIMEOUT.  When `_on_timeout` of c is over — whether `on_timeout()` returned (`fireEnd`) or
    raised (`fireAbort`; the completion loop sits in a `finally`) — every managed future of c that is still pending
    gets its on_timeout value (exception if it is an Exception instance, result otherwise); none is left pending.
    Holds in every state, for every on_timeout body. -/
theorem futures_completed_on_timeout (s : St) (c : Nat) (hr : s.running = some c) (e : Ev)
    (he : e = .fireEnd ∨ e = .fireAbort) :
    ((step s e).2 = .fired c ∨ (step s e).2 = .aborted c)
      ∧ ((step s e).1.caches c).futs = (s.caches c).futs.map Fut.complete
      ∧ (∀ f ∈ ((step s e).1.caches c).futs, f.st ≠ .pending)
      ∧ (∀ f, f.st = .pending → (Fut.complete f).st = if f.isExc then .exception else .result) := by
  rcases he with rfl | rfl
  all_goals
    refine ⟨by simp [step, hr], by simp [step, hr, Cache.completeFuts], ?_, ?_⟩
    · intro f hf
      simp only [step, hr, upd_same, Cache.completeFuts, List.mem_map] at hf
      obtain ⟨g, _, rfl⟩ := hf
      exact complete_not_pending g
    · intro f hf; simp [Fut.complete, hf]

/-- SHUTDOWN IS FINAL.  After an accepted shutdown — `RequestCache.shutdown()` or the inherited
    `shutdown_task_manager()` called on the request cache (`e`), whatever happened before: the managed futures of
    every request that was still registered are cancelled (none pending); the table is empty and stays empty, so nothing
    is outstanding ever again; in every continuation no timeout fires, nothing is registered, nothing is claimed; and
    every `add` of a constructed cache with a legal delay is dropped with its futures cancelled. -/
theorem shutdown_final (evs1 : List Ev) (e : Ev) (he : e = .shutdown ∨ e = .tmShutdown)
    (hacc : (step (final init evs1) e).2 = .done) :
    let s1 := (step (final init evs1) e).1
    (∀ c, outstanding (final init evs1) c → ∀ f ∈ (s1.caches c).futs, f.st ≠ .pending)
    ∧ (∀ evs2, (final s1 evs2).ids = [] ∧ ∀ c, ¬ outstanding (final s1 evs2) c)
    ∧ (∀ evs2 c, Reply.timedOut c ∉ trace s1 evs2 ∧ Reply.added c ∉ trace s1 evs2 ∧ Reply.claimed c ∉ trace s1 evs2)
    ∧ (∀ evs2 c, c < (final s1 evs2).n → Gen.minDelayExclusiveMs < ((final s1 evs2).caches c).delay →
          (step (final s1 evs2) (.add c)).2 = .droppedShutdown
          ∧ ∀ f ∈ ((step (final s1 evs2) (.add c)).1.caches c).futs, f.st ≠ .pending) := by
  intro s1
  have hrun : (final init evs1).running = none := by
    cases hr : (final init evs1).running with
    | none => rfl
    | some r => rcases he with rfl | rfl <;> simp [step, hr] at hacc
  have hfin : s1 = final init (evs1 ++ [e]) := by
    simp [s1, final_append, final_cons, final_nil]
  have h1 : Inv s1 := by rw [hfin]; exact reach_inv _
  have hsd : s1.shutdown = true := by
    rcases he with rfl | rfl
    · simp [s1, step, hrun]
    · simp only [s1, step, hrun, Option.isSome_none, Bool.false_eq_true, if_false]
      split <;> simp_all
  have hids : s1.ids = [] := by
    rcases he with rfl | rfl
    · simp [s1, step, hrun]
    · simp only [s1, step, hrun, Option.isSome_none, Bool.false_eq_true, if_false]
      split <;> rfl
  have hempty : ∀ evs2, (final s1 evs2).ids = [] := fun evs2 => run_empty_after_shutdown s1 evs2 hsd hids
  refine ⟨?_, ?_, ?_, ?_⟩
  · intro c ho f hf
    have hv := lookup_hasVal (show lookup _ _ = some c from ho)
    rcases he with rfl | rfl
    · simp only [s1, step, hrun, Option.isSome_none, Bool.false_eq_true, if_false, hv, if_true,
        Cache.cancelFuts, List.mem_map] at hf
      obtain ⟨g, _, rfl⟩ := hf
      exact cancel_not_pending g
    · simp only [s1, step, hrun, Option.isSome_none, Bool.false_eq_true, if_false] at hf
      split at hf <;>
        (simp only [hv, if_true, Cache.cancelFuts, List.mem_map] at hf
         obtain ⟨g, _, rfl⟩ := hf
         exact cancel_not_pending g)
  · intro evs2
    refine ⟨hempty evs2, fun c ho => ?_⟩
    have ho' : lookup _ (final s1 evs2).ids = some c := ho
    rw [hempty evs2] at ho'
    simp at ho'
  · intro evs2 c
    have h2 := run_after_shutdown s1 evs2 h1 hsd c
    refine ⟨h2.1, h2.2, ?_⟩
    have hno : ¬ outstanding (final init (evs1 ++ [e])) c := by
      rw [← hfin]; intro ho
      have ho' : lookup _ s1.ids = some c := ho
      rw [hids] at ho'; simp at ho'
    have := resolved_is_final (evs1 ++ [e]) evs2 c hno (by rw [← hfin]; exact h2.2)
    rw [← hfin] at this
    exact this.1
  · intro evs2 c hc hd
    have hs2 := run_shutdown_mono s1 evs2 hsd
    have hd' : ¬ ((final s1 evs2).caches c).delay ≤ Gen.minDelayExclusiveMs := by omega
    have hc' : ¬ (final s1 evs2).n ≤ c := by omega
    refine ⟨by simp [step, hc', hd', hs2], ?_⟩
    intro f hf
    simp [step, hc', hd', hs2, Cache.cancelFuts] at hf
    obtain ⟨g, _, rfl⟩ := hf
    exact cancel_not_pending g

/-- A managed future that is done (completed by a timeout, cancelled by shutdown, resolved by its consumer) keeps that
    state under every later event: "completed on timeout" and "cancelled on shutdown" are permanent. -/
theorem future_done_is_permanent (s : St) (evs : List Ev) (c i : Nat) (f : Fut) (hc : c < s.n)
    (hf : (s.caches c).futs[i]? = some f) (hd : f.st ≠ .pending) :
    ((final s evs).caches c).futs[i]? = some f := by
  induction evs generalizing s with
  | nil => exact hf
  | cons e es ih =>
    have hn : c < (step s e).1.n := by
      have : s.n ≤ (step s e).1.n := by
        cases e <;> simp only [step, mkCache, cancelPending] <;> repeat' split
        all_goals simp_all
      omega
    exact ih _ hn (fut_done_stable' s e c i f hc hf hd)

/-- … and that is permanent: along every history, once the timeout of c has been handled (normally or by an
    exception), each managed future c had at that moment is done and keeps exactly that state for ever (so nobody
    awaiting it can hang, and a later shutdown has nothing left to cancel). -/
theorem timed_out_futures_stay_done (evs1 evs2 : List Ev) (c i : Nat) (f : Fut) (e : Ev)
    (he : e = .fireEnd ∨ e = .fireAbort)
    (hr : (final init evs1).running = some c)
    (hf : ((final init (evs1 ++ [e])).caches c).futs[i]? = some f) :
    f.st ≠ .pending ∧ ((final init (evs1 ++ [e] ++ evs2)).caches c).futs[i]? = some f := by
  have hstep : final init (evs1 ++ [e]) = (step (final init evs1) e).1 := by
    simp [final_append, final_cons, final_nil]
  have hdone : f.st ≠ .pending := by
    have h3 := (futures_completed_on_timeout (final init evs1) c hr e he).2.2.1
    rw [hstep] at hf
    exact h3 f (List.mem_of_getElem? hf)
  refine ⟨hdone, ?_⟩
  have hc : c < (final init (evs1 ++ [e])).n := by
    have := (reach_inv evs1).runOk c hr
    rw [hstep]
    rcases he with rfl | rfl <;> simp [step, hr] <;> exact this
  rw [final_append]
  exact future_done_is_permanent _ evs2 c i f hc hf hdone

/-- CLEAR drops every outstanding request: afterwards nothing is outstanding, so (by `resolved_is_final`) none of the
    dropped registrations is claimed or timed out later. -/
theorem clear_drops_everything (evs1 evs2 : List Ev) (c : Nat)
    (hnoadd : Reply.added c ∉ trace (final init (evs1 ++ [.clear])) evs2) :
    ¬ outstanding (final init (evs1 ++ [.clear])) c
    ∧ Reply.claimed c ∉ trace (final init (evs1 ++ [.clear])) evs2
    ∧ Reply.timedOut c ∉ trace (final init (evs1 ++ [.clear])) evs2 := by
  have hno : ¬ outstanding (final init (evs1 ++ [.clear])) c := by
    simp [final_append, final_cons, final_nil, step, outstanding]
  exact ⟨hno, resolved_is_final _ evs2 c hno hnoadd⟩

/-- NO REQUEST OUTLIVES ITS DEADLINE (progress, under rule R3), and a timeout fires exactly at the deadline that
    `add` computed: registration time + `timeout_delay`, or + the passthrough override when it applies. -/
theorem timeout_exactly_at_deadline (evs : List Ev) (c : Nat) :
    (∀ dl, outstanding (final init evs) c → ((final init evs).caches c).task = some dl → (final init evs).now ≤ dl)
    ∧ ((step (final init evs) (.fireBegin c)).2 = .timedOut c →
          ((final init evs).caches c).task = some (final init evs).now)
    ∧ ((step (final init evs) (.add c)).2 = .added c →
          ((step (final init evs) (.add c)).1.caches c).task
            = some ((final init evs).now + effDelay (final init evs) ((final init evs).caches c))) := by
  have h := reach_inv evs
  refine ⟨fun dl _ ht => h.timeOk c dl ht, ?_, ?_⟩
  · intro hf
    obtain ⟨_, hr, _, ⟨dl, ht, hle⟩, _⟩ := fireBegin_accepted hf
    have := h.timeOk c dl ht
    rw [ht]; congr 1; omega
  · intro ha
    exact (add_accepted ha).2.2.2.2.2

/-- the passthrough rule of `add`, spelled out -/
theorem passthrough_rule (s : St) (ch : Cache) :
    (s.override = none → effDelay s ch = ch.delay)
    ∧ (∀ t, s.override = some t → s.filters = none → effDelay s ch = t)
    ∧ (∀ t fs, s.override = some t → s.filters = some fs →
          effDelay s ch = if fs.any (fun f => isSub ch.cls f) then t else ch.delay) := by
  refine ⟨?_, ?_, ?_⟩ <;> intros <;> simp_all [effDelay]

/-- `RandomNumberCache.find_unclaimed_identifier`: the number it settles on is one of the first `findTries` draws
    and is not in use under that prefix. -/
theorem find_unclaimed_sound (s : St) (p : Nat) (cands : List Nat) (d : Option Nat) (cls : Nat) (ks : List Bool)
    (c x : Nat) (h : (step s (.mkRandom p cands d cls ks)).2 = .okMk c x) :
    x ∈ cands.take Gen.findTries ∧ lookup (p, x) s.ids = none := by
  simp only [step, cancelPending] at h
  split at h
  · cases h
  · rename_i y hy
    have hm := List.mem_of_find?_eq_some hy
    have hp := List.find?_some hy
    simp only [mkCache] at h
    split at h
    · cases h
    · injection h with _ hx; subst hx
      exact ⟨hm, by simpa using hp⟩

/-- EXACTLY ONCE.  Take any reachable state (after an arbitrary history `evs1`, which may contain clear/shutdown) and
    any continuation `evs2` in which `clear`/`shutdown` never hit request c *while it is outstanding* (they may occur
    at any other time).  Then over `evs2`:
        claims of c + timeouts of c + [c outstanding at the end] = registrations of c + [c outstanding at the start].
    So every registration that is not dropped by clear/shutdown and is no longer outstanding was resolved by exactly
    one claim or exactly one timeout — never both, never neither; one that is still outstanding has a waiting timer
    (`outstanding_iff_timer_waiting`) that is not past its deadline (`timeout_exactly_at_deadline`). -/
theorem exactly_once (evs1 evs2 : List Ev) (c : Nat)
    (hnodrop : NoDropWhileOutstanding (final init evs1) c evs2) :
    (trace (final init evs1) evs2).count (.claimed c) + (trace (final init evs1) evs2).count (.timedOut c)
        + (if outstanding (final init (evs1 ++ evs2)) c then 1 else 0)
      = (trace (final init evs1) evs2).count (.added c)
        + (if outstanding (final init evs1) c then 1 else 0) := by
  have h := run_count_eq' (final init evs1) evs2 c (reach_inv evs1) hnodrop
  rw [← final_append] at h
  simpa only [outN, outstanding] using h

/-- PROGRESS.  The two things the environment can always do for a due request, in every reachable state:
    (a) if no on_timeout is executing and c's timer is due (`deadline ≤ now`), the timeout of c is enabled — `fireBegin c`
        is answered `timedOut c`; (b) an executing on_timeout can always end (`fireEnd` → `fired`, `fireAbort` →
        `aborted`); (c) when time is refused to advance to `t` (rule R3), there IS a waiting timer with deadline < t, and
        each such timer is enabled once on_timeout is not executing and time has reached its deadline.  Together with
        `timeout_exactly_at_deadline`: an outstanding request is never stuck — the only thing assumed (R3) is that the
        loop does run a due timer before letting time pass. -/
theorem timeout_enabled_when_due (evs : List Ev) (c : Nat) :
    let s := final init evs
    (∀ dl, s.running = none → (s.caches c).task = some dl → dl ≤ s.now → (step s (.fireBegin c)).2 = .timedOut c)
    ∧ (s.running = some c → (step s .fireEnd).2 = .fired c ∧ (step s .fireAbort).2 = .aborted c)
    ∧ (∀ t l, (step s (.tick t)).2 = .overdue l → l ≠ [] →
          ∀ c' ∈ l, ∃ dl, (s.caches c').task = some dl ∧ dl < t) := by
  intro s
  have h := reach_inv evs
  refine ⟨?_, ?_, ?_⟩
  · intro dl hr ht hle
    have hn : ¬ s.n ≤ c := by
      intro hge
      have := h.fresh_none c hge
      rw [this] at ht; cases ht
    have hd : ¬ s.now < dl := by omega
    simp [step, hr, hn, ht, hd]
  · intro hr; simp [step, hr]
  · intro t l hl hne c' hc'
    have hmem : c' ∈ overdueList s t := by
      by_cases hrun : s.running.isSome = true
      · simp [step, hrun] at hl
      by_cases hlt : t < s.now
      · simp [step, hrun, hlt] at hl
      cases hov : overdueList s t with
      | nil => simp [step, hrun, hlt, hov] at hl; exact absurd hl hne
      | cons a r => simp [step, hrun, hlt, hov] at hl; rw [hl]; exact hc'
    simp only [overdueList, List.mem_filter, List.mem_range] at hmem
    cases ht : (s.caches c').task with
    | none => simp [ht] at hmem
    | some dl => exact ⟨dl, rfl, by simpa [ht] using hmem.2⟩

/-- THE PROPERTY, in one statement (a conjunction of the theorems above, for reading convenience).  For every
    history and every cache object c:
    (1) claims + timeouts never exceed registrations, with equality up to "still outstanding" when clear/shutdown never
        hit c while it was outstanding;
    (2) c is outstanding exactly while a timer is waiting for it, and no other object with that identity is outstanding;
    (3) a waiting timer has not passed its deadline (its timeout is due exactly at the deadline);
    (4) once shut down (either way) nothing is outstanding and no timer is left. -/
theorem each_request_resolved_exactly_once (evs : List Ev) (c : Nat) :
    let s := final init evs
    let tr := trace init evs
    (tr.count (.claimed c) + tr.count (.timedOut c) ≤ tr.count (.added c))
    ∧ (NoDropWhileOutstanding init c evs →
         tr.count (.claimed c) + tr.count (.timedOut c) + (if outstanding s c then 1 else 0) = tr.count (.added c))
    ∧ (outstanding s c ↔ (s.caches c).task.isSome = true)
    ∧ (∀ c', outstanding s c → outstanding s c' → (s.caches c').ident = (s.caches c).ident → c' = c)
    ∧ (∀ dl, (s.caches c).task = some dl → s.now ≤ dl)
    ∧ (s.shutdown = true → ¬ outstanding s c ∧ (s.caches c).task = none) := by
  intro s tr
  have h := reach_inv evs
  have hex : NoDropWhileOutstanding init c evs →
      tr.count (.claimed c) + tr.count (.timedOut c) + (if outstanding s c then 1 else 0) = tr.count (.added c) := by
    intro hnd
    have := exactly_once [] evs c hnd
    simp only [List.nil_append, final_nil] at this
    have h0 : outstanding init c = False := by simp [outstanding, init]
    simp only [h0, if_false, Nat.add_zero] at this
    exact this
  refine ⟨at_most_once evs c, hex, outstanding_iff_timer_waiting evs c, ?_, ?_, ?_⟩
  · intro c' ho ho' hid
    have h1 : lookup (s.caches c).ident s.ids = some c := ho
    have h2 : lookup (s.caches c').ident s.ids = some c' := ho'
    rw [hid, h1] at h2
    exact (Option.some.inj h2).symm
  · intro dl ht; exact h.timeOk c dl ht
  · intro hs
    refine ⟨fun ho => ?_, (h.sdOk hs).2.1 c⟩
    have ho' : lookup _ s.ids = some c := ho
    rw [(h.sdOk hs).1] at ho'; simp at ho'

/-! ### rules R1/R2 at the level of asyncio.Task (AsyncTask.lean: a transcription of Task.cancel / __step / the sleep
    future of delay_runner).  For every sequence of loop steps, timer callbacks, body ends and cancel() calls on one
    timeout task: -/

/-- `_on_timeout` is entered at most once per timeout task; a delayed task enters it only after its timer ran. -/
theorem task_body_at_most_once (d : Bool) (es : List AsyncTask.Ev) :
    (AsyncTask.run { delayed := d } es).bodyRuns ≤ 1 :=
  (AsyncTask.good_run _ es (AsyncTask.good_init d)).once

/-- R1: if `cancel()` is called before `_on_timeout` was entered — while the task is created, asleep, or already
    woken with its wake-up still queued (pop and expiry in the same loop iteration) — `_on_timeout` is never entered,
    whatever the loop does afterwards. -/
theorem cancel_before_body_wins (d : Bool) (es1 es2 : List AsyncTask.Ev)
    (hnot : (AsyncTask.run { delayed := d } es1).bodyRuns = 0)
    (hlive : AsyncTask.isDone (AsyncTask.run { delayed := d } es1) = false) :
    (AsyncTask.run { delayed := d } (es1 ++ [.cancel] ++ es2)).bodyRuns = 0 := by
  have happ : ∀ (t : AsyncTask.T) (a b : List AsyncTask.Ev), AsyncTask.run t (a ++ b) = AsyncTask.run (AsyncTask.run t a) b := by
    intro t a b
    induction a generalizing t with
    | nil => rfl
    | cons e es ih => simp [AsyncTask.run, ih]
  have hg := AsyncTask.good_run _ (es1 ++ [.cancel] ++ es2) (AsyncTask.good_init d)
  have hseen : (AsyncTask.run { delayed := d } (es1 ++ [.cancel] ++ es2)).cancelSeen = true := by
    rw [List.append_assoc, happ, happ]
    generalize AsyncTask.run { delayed := d } es1 = t at hnot hlive
    have h1 : (AsyncTask.run t [.cancel]).cancelSeen = true := by
      simp only [AsyncTask.run, AsyncTask.step, hlive]
      cases t.phase <;> simp [hnot]
    exact AsyncTask.cancelSeen_run _ es2 h1
  exact (hg.cancelWins hseen).1

/-! ### TaskManager level (TaskMgr.lean): several Tasks per cache object, `_pending_tasks`, the done-callback window.
    This is what `Model.lean` abbreviates by `Cache.task : Option _`.  `Gen.doneCbGuarded` is read from
    taskmanager.py on every run; with the unguarded callback of the original code these theorems are false
    (witness below), so reverting /repo c10513c breaks them. -/

/-- every Task that can still enter `_on_timeout` is the one registered under its cache object — for every history
    of register / cancel_pending_task / loop steps / done callbacks, any number of Tasks per cache -/
theorem tm_live_task_is_registered (es : List TaskMgr.Ev) (i : Nat)
    (hl : TaskMgr.live (TaskMgr.run Gen.doneCbGuarded TaskMgr.init es) i) :
    (TaskMgr.run Gen.doneCbGuarded TaskMgr.init es).pending
      ((TaskMgr.run Gen.doneCbGuarded TaskMgr.init es).tasks i).owner = some i :=
  (TaskMgr.run_inv TaskMgr.init es TaskMgr.inv_init).liveReg i hl

/-- hence at most one live timeout Task per cache object (what `Option` in the model says) -/
theorem tm_one_live_task_per_cache (es : List TaskMgr.Ev) (i j : Nat)
    (hi : TaskMgr.live (TaskMgr.run Gen.doneCbGuarded TaskMgr.init es) i)
    (hj : TaskMgr.live (TaskMgr.run Gen.doneCbGuarded TaskMgr.init es) j)
    (ho : ((TaskMgr.run Gen.doneCbGuarded TaskMgr.init es).tasks i).owner
        = ((TaskMgr.run Gen.doneCbGuarded TaskMgr.init es).tasks j).owner) : i = j := by
  have h1 := tm_live_task_is_registered es i hi
  have h2 := tm_live_task_is_registered es j hj
  rw [ho, h2] at h1
  exact (Option.some.inj h1).symm

/-- `cancel_pending_task(cache)` is effective: after it, until the cache is registered again, NO Task ever registered
    under that cache enters `_on_timeout` — whatever the loop does, including done callbacks of older Tasks running
    late (the pop / clear / shutdown → "its timeout never fires" step of the property, at Task granularity). -/
theorem tm_cancel_is_effective (es1 es2 : List TaskMgr.Ev) (c : Nat)
    (hnoreg : ∀ e ∈ es2, TaskMgr.isRegister c e = false) :
    let m1 := TaskMgr.step Gen.doneCbGuarded (TaskMgr.run Gen.doneCbGuarded TaskMgr.init es1) (.cancelName c)
    let m2 := TaskMgr.run Gen.doneCbGuarded m1 es2
    (∀ i, i < m1.n → (m1.tasks i).owner = c → (m2.tasks i).t.bodyRuns = (m1.tasks i).t.bodyRuns)
    ∧ (∀ i, m1.n ≤ i → i < m2.n → (m2.tasks i).owner ≠ c) := by
  intro m1 m2
  have h0 := TaskMgr.run_inv TaskMgr.init es1 TaskMgr.inv_init
  have h1 : TaskMgr.Inv m1 := TaskMgr.step_inv _ _ h0
  have hq : TaskMgr.Quiet m1 c := TaskMgr.quiet_after_cancel _ c h0
  -- generalise over the state after the cancel
  suffices H : ∀ (m : TaskMgr.TM), TaskMgr.Inv m → TaskMgr.Quiet m c → ∀ es, (∀ e ∈ es, TaskMgr.isRegister c e = false) →
      (∀ i, i < m.n → (m.tasks i).owner = c →
          ((TaskMgr.run true m es).tasks i).t.bodyRuns = (m.tasks i).t.bodyRuns ∧ ((TaskMgr.run true m es).tasks i).owner = c)
      ∧ m.n ≤ (TaskMgr.run true m es).n
      ∧ (∀ i, m.n ≤ i → i < (TaskMgr.run true m es).n → ((TaskMgr.run true m es).tasks i).owner ≠ c) by
    have := H m1 h1 hq es2 hnoreg
    exact ⟨fun i hi ho => (this.1 i hi ho).1, this.2.2⟩
  intro m hm hqm es
  induction es generalizing m with
  | nil => intro _; exact ⟨fun i _ ho => ⟨rfl, ho⟩, Nat.le_refl _, fun i h1 h2 => by simp [TaskMgr.run] at h2; omega⟩
  | cons e es ih =>
    intro hno
    have hs := TaskMgr.quiet_step m c e hm hqm (hno e (by simp))
    have hrec := ih (TaskMgr.step true m e) (TaskMgr.step_inv m e hm) hs.1 (fun e' he' => hno e' (by simp [he']))
    refine ⟨?_, by have := hs.2.2.2.1; have := hrec.2.1; simp only [TaskMgr.run]; omega, ?_⟩
    · intro i hi ho
      have ho' : ((TaskMgr.step true m e).tasks i).owner = c := by rw [hs.2.2.1 i hi]; exact ho
      have := hrec.1 i (by have := hs.2.2.2.1; omega) ho'
      simp only [TaskMgr.run]
      exact ⟨by rw [this.1, hs.2.1 i hi ho], this.2⟩
    · intro i h1 h2
      simp only [TaskMgr.run] at h2 ⊢
      by_cases hlt : i < (TaskMgr.step true m e).n
      · have hne := hs.2.2.2.2 i h1 hlt
        intro hc
        have hkeep : ∀ es' (m' : TaskMgr.TM), TaskMgr.Inv m' → i < m'.n →
            ((TaskMgr.run true m' es').tasks i).owner = (m'.tasks i).owner := by
          intro es'
          induction es' with
          | nil => intro m' _ _; rfl
          | cons e' es' ih' =>
            intro m' hm' hi'
            simp only [TaskMgr.run]
            rw [ih' _ (TaskMgr.step_inv m' e' hm') (by have := TaskMgr.step_n_mono true m' e'; omega)]
            exact TaskMgr.step_owner true m' e' i hi'
        rw [hkeep es _ (TaskMgr.step_inv m e hm) hlt] at hc
        exact hne hc
      · exact hrec.2.2 i (by omega) h2

/-- the original callback (`_pending_tasks.pop(name)` unconditionally): cancel; register again; the OLD Task's done
    callback removes the NEW Task's entry; the next cancel does nothing; the new Task enters `_on_timeout` although its
    name was cancelled — the defect repaired by /repo c10513c, as a run of this model -/
example :
    let m := TaskMgr.run false TaskMgr.init
      [.register 0 true, .cancelName 0, .register 0 true, .loop 0 .step, .doneCb 0,
       .cancelName 0, .loop 1 .step, .loop 1 .timer, .loop 1 .step]
    (m.tasks 1).t.bodyRuns = 1 ∧ m.pending 0 = none := by decide
/-- … and with the guarded callback the same history ends with the new Task cancelled, body never entered -/
example :
    let m := TaskMgr.run true TaskMgr.init
      [.register 0 true, .cancelName 0, .register 0 true, .loop 0 .step, .doneCb 0,
       .cancelName 0, .loop 1 .step, .loop 1 .timer, .loop 1 .step]
    (m.tasks 1).t.bodyRuns = 0 ∧ (m.tasks 1).t.phase = .cancelled := by decide

/-! ### the model's `step` IS what the source says (statement sequences regenerated from requestcache.py)

  `Gen.addOps`, `Gen.popOps`, `Gen.onTimeoutOps`, `Gen.clearOps`, `Gen.shutdownOps` are produced by tools/gen_rc.py
  from the current source; `Source.lean` gives each primitive its meaning.  The six theorems below say that executing
  those lists is the same function as the hand-written `step` used by every theorem above — so all of them hold for
  the statement order the source has today, and an edit that drops / adds / reorders an effectful statement of these
  methods (not: a change of exception flow, which the translator either refuses — `suppress` — or cannot see) (identifier removed after on_timeout, pop without cancel, identifier stored before register_task, trailing
  cancel in `_on_timeout`, shutdown without cancelling futures …) makes one of them fail to compile. -/

theorem add_follows_source (s : St) (c : Nat) : addViaSource s c = step s (.add c) := by
  unfold addViaSource
  by_cases hn : s.n ≤ c
  · simp [step, hn]
  by_cases hd : (s.caches c).delay ≤ Gen.minDelayExclusiveMs
  · simp [step, hn, hd, Gen.addOps, runPrims, result, prim]
  cases hs : s.shutdown with
  | true => simp [step, hn, hd, hs, Gen.addOps, runPrims, result, prim]
  | false =>
    cases hl : lookup (s.caches c).ident s.ids with
    | some x => simp [step, hn, hd, hs, hl, Gen.addOps, runPrims, result, prim]
    | none =>
      by_cases hb : nameTaken s c = true
      · simp [step, hn, hd, hs, hl, hb, Gen.addOps, runPrims, result, prim]
      · simp [step, hn, hd, hs, hl, hb, Gen.addOps, runPrims, result, prim]

theorem pop_follows_source (s : St) (p n : Nat) : popViaSource s p n = step s (.pop p n) := by
  simp only [popViaSource, step, Gen.popOps, runPrims, List.foldl, result, prim]
  repeat' split
  all_goals simp_all

theorem clear_follows_source (s : St) : clearViaSource s = step s .clear := by
  simp [clearViaSource, step, Gen.clearOps, runPrims, result, prim]

theorem shutdown_follows_source (s : St) : shutdownViaSource s = step s .shutdown := by
  unfold shutdownViaSource
  cases hr : s.running with
  | some r => simp [step, hr]
  | none =>
    simp only [step, hr, Gen.shutdownOps, runPrims, List.foldl, result, prim, Option.isSome_none,
      Bool.false_eq_true, if_false, Option.getD_some]
    congr 2

theorem get_follows_source (s : St) (p n : Nat) : getViaSource s p n = step s (.get p n) := by
  simp [getViaSource, step, Gen.getOps, runPrims, result, prim]

/-- the constructor guard (`NumberCache.__init__` via `has`) -/
theorem mk_follows_source (s : St) (p n : Nat) (d : Option Nat) (cls : Nat) (ks : List Bool) :
    mkViaSource s p n d cls ks = step s (.mk p n d cls ks) := by
  simp only [mkViaSource, step, mkCache, Gen.ctorOps, runPrims, List.foldl, prim, runPrimsHas, Gen.hasOps]
  cases hl : lookup (p, n) s.ids <;> simp [hl]

theorem tmShutdown_follows_source (s : St) : tmShutdownViaSource s = step s .tmShutdown := by
  unfold tmShutdownViaSource
  cases hr : s.running with
  | some r => simp [step, hr]
  | none =>
    cases hs : s.shutdown with
    | true => simp [step, hr, hs, Gen.tmShutdownOps, runPrims, result, prim]
    | false => simp [step, hr, hs, Gen.tmShutdownOps, runPrims, result, prim]

theorem fireBegin_follows_source (s : St) (c : Nat) : fireBeginViaSource s c = step s (.fireBegin c) := by
  unfold fireBeginViaSource
  cases hr : s.running with
  | some r => simp [step, hr]
  | none =>
    by_cases hn : s.n ≤ c
    · simp [step, hr, hn]
    cases ht : (s.caches c).task with
    | none => simp [step, hr, hn, ht]
    | some dl =>
      by_cases hd : s.now < dl
      · simp [step, hr, hn, ht, hd]
      · simp [step, hr, hn, ht, hd, beforeCall, Gen.onTimeoutOps, runPrims, prim]

theorem fireEnd_follows_source (s : St) : fireEndViaSource s = step s .fireEnd := by
  unfold fireEndViaSource
  cases hr : s.running with
  | none => simp [step, hr]
  | some c => simp [step, hr, afterCall, Gen.onTimeoutOps, runPrims, prim]
theorem fireAbort_follows_source (s : St) : fireAbortViaSource s = step s .fireAbort := by
  unfold fireAbortViaSource
  cases hr : s.running with
  | none => simp [step, hr]
  | some c => simp [step, hr, Gen.onTimeoutAbortOps, runPrims, prim]

/-- THE SOURCE-INTERPRETED MACHINE IS THE MODEL.  `stepSrc` executes `mk` (constructor guard), `add`, `pop`, `get`,
    `_on_timeout` (start, normal end, raising end), `clear`, `shutdown`, `shutdown_task_manager` from the op lists that
    tools/gen_rc.py regenerates from requestcache.py on every run; it is the same function as `step`, hence every theorem
    of this file holds for histories run through the regenerated lists. -/
theorem stepSrc_eq_step (s : St) (e : Ev) : stepSrc s e = step s e := by
  cases e <;> simp only [stepSrc, mk_follows_source, add_follows_source, pop_follows_source, get_follows_source,
    fireBegin_follows_source, fireEnd_follows_source, fireAbort_follows_source, clear_follows_source,
    shutdown_follows_source, tmShutdown_follows_source]

theorem runSrc_eq_run (s : St) (evs : List Ev) : runSrc s evs = run s evs := by
  induction evs generalizing s with
  | nil => rfl
  | cons e es ih => simp only [runSrc, run, stepSrc_eq_step, ih]

/-- AT MOST ONCE / NO TIMEOUT AFTER A CLAIM, stated directly over the machine that executes the regenerated lists: if
    the source loses the statement that makes them true (pop no longer cancels, `_on_timeout` keeps the identifier, the
    guard of the constructor or of `add` disappears, …) the regenerated list changes and this theorem no longer
    type-checks through `runSrc_eq_run`. -/
theorem at_most_once_over_source (evs : List Ev) (c : Nat) :
    (runSrc init evs).2.count (.claimed c) + (runSrc init evs).2.count (.timedOut c)
      ≤ (runSrc init evs).2.count (.added c) := by
  rw [runSrc_eq_run]; exact at_most_once evs c

theorem unique_identity_over_source (evs : List Ev) (p n c : Nat)
    (hout : lookup (p, n) (runSrc init evs).1.ids = some c) :
    (∀ d cls ks, stepSrc (runSrc init evs).1 (.mk p n d cls ks) = ((runSrc init evs).1, .inUse))
    ∧ (∀ c', ((runSrc init evs).1.caches c').ident = (p, n) →
          (stepSrc (runSrc init evs).1 (.add c')).2 ≠ .added c') := by
  rw [runSrc_eq_run] at hout ⊢
  have h := unique_identity evs p n c hout
  refine ⟨fun d cls ks => ?_, fun c' hid => ?_⟩
  · rw [stepSrc_eq_step]; exact h.1 d cls ks
  · rw [stepSrc_eq_step]; exact (h.2.1 c' hid).1

/-! ### non-vacuity: concrete histories exercising the hypotheses -/

/-- two caches with the same identity (0,1): the second constructor raises, the first is claimed, a late fire is
    refused, the identity can then be reused, the new request times out at its deadline and a late pop finds nothing -/
example : trace init [.mk 0 1 (some 1000) 0 [false, true], .add 0, .mk 0 1 (some 500) 0 [], .tick 500, .pop 0 1,
                      .tick 1000, .fireBegin 0, .mk 0 1 (some 500) 0 [], .add 1, .add 0, .tick 1500, .fireBegin 1,
                      .pop 0 1, .fireEnd, .pop 0 1]
    = [.okMk 0 1, .added 0, .inUse, .overdue [], .claimed 0, .overdue [], .refused, .okMk 1 1, .added 1, .dup,
       .overdue [], .timedOut 1, .keyError, .fired 1, .keyError] := by decide

/-- hypotheses of `no_timeout_after_pop` / `pop_after_timeout_keyerror` / `unique_identity` are satisfiable -/
example : (step (final init [.mk 0 1 (some 1000) 0 [], .add 0]) (.pop 0 1)).2 = .claimed 0 := by decide
example : (step (final init [.mk 0 1 (some 1000) 0 [], .add 0, .tick 1000]) (.fireBegin 0)).2 = .timedOut 0 := by decide
example : lookup (0, 1) (final init [.mk 0 1 (some 1000) 0 [], .add 0]).ids = some 0 := by decide
example : outstanding (final init [.mk 0 1 (some 1000) 0 [], .add 0]) 0 := by
  constructor <;> decide
/-- time cannot pass a live deadline (R3): the tick is answered with the overdue timer and refused -/
example : trace init [.mk 0 1 (some 1000) 0 [], .add 0, .tick 1500] = [.okMk 0 1, .added 0, .overdue [0]] := by decide
/-- shutdown with an outstanding request whose future is pending: accepted, future cancelled, later add dropped -/
example : (step (final init [.mk 0 1 (some 1000) 0 [true], .add 0]) .shutdown).2 = .done := by decide
example : ((final init [.mk 0 1 (some 1000) 0 [true], .add 0, .shutdown]).caches 0).futs
    = [{ isExc := true, st := .cancelled }] := by decide
example : trace init [.mk 0 1 (some 1000) 0 [true], .shutdown, .add 0, .tick 5000, .fireBegin 0]
    = [.okMk 0 1, .done, .droppedShutdown, .overdue [], .refused] := by decide
/-- futures on timeout: exception-valued and result-valued futures, one completed externally before -/
example : ((final init [.mk 0 1 (some 250) 0 [true, false, false], .add 0, .futSet 0 2, .tick 250, .fireBegin 0,
                        .fireEnd]).caches 0).futs.map (·.st) = [.exception, .result, .extSet] := by decide
/-- Task level: pop in the same loop iteration as the expiry (timer ran, wake-up queued, then cancel): no body -/
example : (AsyncTask.run { delayed := true } [.step, .timer, .cancel, .step]).bodyRuns = 0
    ∧ (AsyncTask.run { delayed := true } [.step, .timer, .cancel, .step]).phase = .cancelled := by decide
example : (AsyncTask.run { delayed := true } [.step, .timer, .step, .cancel, .bodyEnd]).bodyRuns = 1 := by decide
example : (AsyncTask.run { delayed := false } [.cancel, .step, .step]).bodyRuns = 0 := by decide
/-- on_timeout raises: the futures are completed all the same; a later shutdown finds nothing pending -/
example : ((final init [.mk 0 1 (some 250) 0 [false, true], .add 0, .tick 250, .fireBegin 0, .fireAbort,
                        .shutdown]).caches 0).futs.map (·.st) = [.result, .exception] := by decide
/-- exactly_once across a clear: the clear at the start does not spoil the count for the request registered after it -/
example : NoDropWhileOutstanding (final init [.mk 0 1 (some 250) 0 [], .add 0, .clear]) 1
    [.mk 0 1 (some 250) 0 [], .clear, .add 1, .pop 0 1] := by
  refine ⟨by decide, by decide, by decide, by decide, trivial⟩
/-- teardown glue: `shutdown_task_manager()` on the cache IS a shutdown: futures cancelled, requests gone, no late
    timeout, a following `shutdown()` is accepted and finds nothing left -/
example : trace init [.mk 0 1 (some 250) 0 [false], .mk 0 2 (some 250) 0 [true], .add 0, .add 1, .tmShutdown,
                      .tick 500, .fireBegin 0, .pop 0 1, .get 0 2, .shutdown, .add 0]
    = [.okMk 0 1, .okMk 1 2, .added 0, .added 1, .done, .overdue [], .refused, .keyError, .got none, .done,
       .droppedShutdown] := by decide
example : ((final init [.mk 0 2 (some 250) 0 [true], .add 0, .tmShutdown]).caches 0).futs.map (·.st)
    = [.cancelled] := by decide
/-- the source-interpreted machine on a concrete history (same replies as `trace`) -/
example : (runSrc init [.mk 0 1 (some 250) 0 [], .add 0, .mk 0 1 none 0 [], .get 0 1, .pop 0 1, .tick 250,
                        .fireBegin 0]).2
    = [.okMk 0 1, .added 0, .inUse, .got (some 0), .claimed 0, .overdue [], .refused] := by decide
/-- clear drops an outstanding request: its timer never fires, a late pop finds nothing -/
example : trace init [.mk 0 1 (some 1000) 0 [false], .add 0, .clear, .tick 1000, .fireBegin 0, .pop 0 1]
    = [.okMk 0 1, .added 0, .done, .overdue [], .refused, .keyError] := by decide
/-- re-registration from inside the own on_timeout: refused with no trace while the timeout task is registered;
    after a clear it succeeds, survives the end of on_timeout and times out at its new deadline -/
example : trace init [.mk 0 1 (some 250) 0 [], .add 0, .tick 250, .fireBegin 0, .add 0, .get 0 1, .clear, .add 0,
                      .fireEnd, .get 0 1, .tick 500, .fireBegin 0, .fireEnd, .get 0 1]
    = [.okMk 0 1, .added 0, .overdue [], .timedOut 0, .raised, .got none, .done, .added 0,
       .fired 0, .got (some 0), .overdue [], .timedOut 0, .fired 0, .got none] := by decide
/-- passthrough with a class filter: class 1 (subclass of 0) gets the override 0 ms, class 3 keeps its delay -/
example : trace init [.enter 0 (some [0]), .mk 0 1 (some 1000) 1 [], .mk 0 2 (some 1000) 3 [], .add 0, .add 1, .exit,
                      .fireBegin 0, .fireBegin 1]
    = [.done, .okMk 0 1, .okMk 1 2, .added 0, .added 1, .done, .timedOut 0, .refused] := by decide
/-- find_unclaimed_identifier skips numbers in use -/
example : (step (final init [.mk 0 5 none 0 [], .add 0]) (.mkRandom 0 [5, 5, 7, 9] none 4 [])).2 = .okMk 1 7 := by
  decide

end Ipv8.C10
