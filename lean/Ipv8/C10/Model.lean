/-
  C10 — executable model of ipv8/requestcache.py (RequestCache / NumberCache / RandomNumberCache) on top of
  ipv8/taskmanager.py (register_task / cancel_pending_task / delay_runner), under a virtual clock.
  Core Lean only (the driver links against this file).

  State mirrored:
    * `ids`      = RequestCache._identifiers      (assoc list, key = (prefix, number) — `_create_identifier` is
                   injective on (str, int), checked by the translator — value = cache object)
    * `caches c` = the NumberCache object number c (objects are numbered in construction order) with its managed
                   futures, and `task` = the live entry `_pending_tasks[cache]` (deadline of the timeout task in ms)
    * `shutdown`, `override`/`filters` (`_timeout_override`, `_timeout_filters`)
    * `runReg`   = the executing timeout task is still the entry `_pending_tasks[running cache]` (false after `clear`);
                   the `task` field of a cache only holds a timer that has NOT started its `_on_timeout`
    * `running`  = the cache whose `_on_timeout` is executing right now (on_timeout bodies are NOT part of the model:
                   between `fireBegin` and `fireEnd` ANY sequence of the synchronous events may occur, so theorems
                   quantify over every possible on_timeout body)
    * `now`      = virtual time in ms

  asyncio is encoded as enabledness rules (validated against CPython by the harness, exhaustively for small scopes):
    R1  a timeout task runs `_on_timeout` only if it is still registered and not cancelled  (`fireBegin` needs `task = some dl`)
    R2  … and only once its deadline has been reached                                        (`dl ≤ now`)
    R3  time does not advance past the deadline of a live timer                             (`tick` refused if overdue)
    R4  synchronous code is not interleaved with timers                                     (`running` blocks tick/fire/shutdown)
  Re-registering the cache whose own on_timeout is executing IS modelled: while the running timeout task is still
  registered under the cache (`runReg`), `add` raises "Task already exists" and changes nothing; after a `clear`
  inside on_timeout the name is free and `add` registers a new timer that survives the end of `_on_timeout`.
-/
import Ipv8.C10.GenRC

namespace Ipv8.C10

inductive FutSt
  | pending | result | exception | extSet | cancelled
  deriving DecidableEq, Repr, Inhabited

structure Fut where
  isExc : Bool
  st : FutSt
  deriving DecidableEq, Repr, Inhabited

structure Cache where
  pfx : Nat := 0
  num : Nat := 0
  delay : Nat := 0
  cls : Nat := 0
  futs : List Fut := []
  task : Option Nat := none
  deriving Repr, Inhabited

abbrev Ident := Nat × Nat

structure St where
  now : Nat := 0
  n : Nat := 0
  caches : Nat → Cache := fun _ => {}
  ids : List (Ident × Nat) := []
  shutdown : Bool := false
  override : Option Nat := none
  filters : Option (List Nat) := none
  running : Option Nat := none
  runReg : Bool := false

def init : St := {}

inductive Ev
  | tick (t : Nat)
  | mk (p n : Nat) (delay : Option Nat) (cls : Nat) (kinds : List Bool)
  | mkRandom (p : Nat) (cands : List Nat) (delay : Option Nat) (cls : Nat) (kinds : List Bool)
  | add (c : Nat)
  | pop (p n : Nat)
  | get (p n : Nat)
  | enter (timeout : Nat) (filters : Option (List Nat))
  | exit
  | fireBegin (c : Nat)
  | fireEnd
  | fireAbort
  | clear
  | shutdown
  | tmShutdown
  | futSet (c i : Nat)
  | futCancel (c i : Nat)
  | regFut (c : Nat) (isExc : Bool)
  deriving Repr

inductive Reply
  | okMk (c num : Nat)        -- constructor succeeded: object c with number num
  | inUse                     -- NumberCache.__init__ raised RuntimeError (identity in use)
  | raised                    -- RuntimeError from find_unclaimed_identifier / register_task
  | assertFail                -- AssertionError in add (delay not > 0)
  | added (c : Nat)           -- add returned the cache
  | dup                       -- add returned None: duplicate identifier
  | droppedShutdown           -- add returned None: shut down (futures cancelled)
  | claimed (c : Nat)         -- pop returned cache c
  | keyError                  -- pop raised KeyError
  | got (r : Option Nat)
  | timedOut (c : Nat)        -- `_on_timeout(c)` started: cache.on_timeout() is being called
  | fired (c : Nat)           -- `_on_timeout(c)` returned normally
  | aborted (c : Nat)         -- on_timeout raised
  | overdue (l : List Nat)    -- tick: live timers whose deadline is before the new time ([] = accepted)
  | done
  | refused                   -- event not enabled in this state (no state change)
  deriving DecidableEq, Repr

/-! ### dictionary helpers -/

def lookup (k : Ident) : List (Ident × Nat) → Option Nat
  | [] => none
  | (k', v) :: r => if k' = k then some v else lookup k r

def erase (k : Ident) : List (Ident × Nat) → List (Ident × Nat)
  | [] => []
  | (k', v) :: r => if k' = k then erase k r else (k', v) :: erase k r

def hasVal (c : Nat) (l : List (Ident × Nat)) : Bool := l.any (fun e => e.2 == c)

def upd (f : Nat → Cache) (c : Nat) (v : Cache) : Nat → Cache := fun i => if i = c then v else f i

def Cache.ident (ch : Cache) : Ident := (ch.pfx, ch.num)

/-! ### futures -/

def Fut.cancel (f : Fut) : Fut := if f.st = .pending then { f with st := .cancelled } else f
def Fut.extSet (f : Fut) : Fut := if f.st = .pending then { f with st := .extSet } else f
/-- `_on_timeout`: `if not future.done(): set_exception(v) if isinstance(v, Exception) else set_result(v)` -/
def Fut.complete (f : Fut) : Fut :=
  if f.st = .pending then { f with st := if f.isExc then .exception else .result } else f

def Cache.cancelFuts (ch : Cache) : Cache := { ch with futs := ch.futs.map Fut.cancel }
def Cache.completeFuts (ch : Cache) : Cache := { ch with futs := ch.futs.map Fut.complete }

def modNth (f : Fut → Fut) : Nat → List Fut → List Fut
  | _, [] => []
  | 0, a :: r => f a :: r
  | i + 1, a :: r => a :: modNth f i r

/-! ### class filters of `passthrough` (the harness uses this fixed hierarchy)
  0 = A(NumberCache), 1 = B(A), 2 = C(B), 3 = D(NumberCache), 4 = R(RandomNumberCache), 5 = NumberCache itself -/
def isSub (a b : Nat) : Bool :=
  a == b || b == 5 || (a == 1 && b == 0) || (a == 2 && (b == 1 || b == 0))

/-- the delay `add` hands to `register_task` -/
def effDelay (s : St) (ch : Cache) : Nat :=
  match s.override with
  | none => ch.delay
  | some t =>
    match s.filters with
    | none => t
    | some fs => if fs.any (fun f => isSub ch.cls f) then t else ch.delay

/-- live timers whose deadline lies strictly before `t` -/
def overdueList (s : St) (t : Nat) : List Nat :=
  (List.range s.n).filter (fun c => match (s.caches c).task with | some dl => decide (dl < t) | none => false)

def mkCache (s : St) (p num : Nat) (delay : Option Nat) (cls : Nat) (kinds : List Bool) : St × Reply :=
  match lookup (p, num) s.ids with
  | some _ => (s, .inUse)
  | none =>
    let ch : Cache := { pfx := p, num := num, delay := delay.getD Gen.defaultDelayMs, cls := cls,
                        futs := kinds.map (fun k => { isExc := k, st := .pending }), task := none }
    ({ s with caches := upd s.caches s.n ch, n := s.n + 1 }, .okMk s.n num)

/-- `TaskManager.cancel_pending_task(cache)`: the entry registered under the cache object is either a waiting timer
    (`task`) or the executing timeout task (`runReg`); it is cancelled and the name forgotten -/
def cancelPending (s : St) (c : Nat) : St :=
  let s' := { s with caches := upd s.caches c { s.caches c with task := none } }   -- no waiting timer afterwards
  if (s.caches c).task.isSome then s'
  else if s.running == some c && s.runReg then { s' with runReg := false }
  else s'

/-- `register_task(cache, self._on_timeout, cache, delay=…)`: is a live task already registered under the cache? -/
def nameTaken (s : St) (c : Nat) : Bool := (s.caches c).task.isSome || (s.running == some c && s.runReg)

/-- one event; `refused` replies leave the state unchanged -/
def step (s : St) : Ev → St × Reply
  | .tick t =>
    if s.running.isSome then (s, .refused)
    else if t < s.now then (s, .refused)
    else match overdueList s t with
      | [] => ({ s with now := t }, .overdue [])
      | l => (s, .overdue l)
  | .mk p num delay cls kinds => mkCache s p num delay cls kinds
  | .mkRandom p cands delay cls kinds =>
    match (cands.take Gen.findTries).find? (fun x => (lookup (p, x) s.ids).isNone) with
    | none => (s, .raised)
    | some x => mkCache s p x delay cls kinds
  | .add c =>
    if s.n ≤ c then (s, .refused)
    else
      let ch := s.caches c
      if ch.delay ≤ Gen.minDelayExclusiveMs then (s, .assertFail)
      else if s.shutdown then ({ s with caches := upd s.caches c ch.cancelFuts }, .droppedShutdown)
      else match lookup ch.ident s.ids with
        | some _ => (s, .dup)
        | none =>
          if nameTaken s c then
            -- `register_task` raises "Task already exists" (a live task is registered under this cache object, e.g.
            -- its own running timeout); the identifier is only stored after `register_task`, so nothing changes
            (s, .raised)
          else
            ({ s with ids := (ch.ident, c) :: s.ids,
                      caches := upd s.caches c { ch with task := some (s.now + effDelay s ch) } }, .added c)
  | .pop p num =>
    match lookup (p, num) s.ids with
    | none => (s, .keyError)
    | some c => (cancelPending { s with ids := erase (p, num) s.ids } c, .claimed c)
  | .get p num => (s, .got (lookup (p, num) s.ids))
  | .enter t fs => ({ s with override := some t, filters := fs }, .done)
  | .exit => ({ s with override := none, filters := none }, .done)
  | .fireBegin c =>
    if s.running.isSome then (s, .refused)
    else if s.n ≤ c then (s, .refused)
    else match (s.caches c).task with
      | none => (s, .refused)
      | some dl =>
        if s.now < dl then (s, .refused)
        else ({ s with ids := erase (s.caches c).ident s.ids, running := some c, runReg := true,
                       caches := upd s.caches c { s.caches c with task := none } }, .timedOut c)
  | .fireEnd =>
    match s.running with
    | none => (s, .refused)
    | some c =>
      -- the finished task unregisters itself only if the name still maps to it: a timer registered during
      -- on_timeout (after `clear`) stays
      ({ s with caches := upd s.caches c (s.caches c).completeFuts, running := none, runReg := false }, .fired c)
  | .fireAbort =>
    match s.running with
    | none => (s, .refused)
    | some c =>
      -- on_timeout raised: the `finally` around the call still completes the managed futures
      ({ s with caches := upd s.caches c (s.caches c).completeFuts, running := none, runReg := false }, .aborted c)
  | .clear =>
    ({ s with ids := [], caches := fun i => { s.caches i with task := none }, runReg := false }, .done)
  | .shutdown =>
    if s.running.isSome then (s, .refused)
    else
      ({ s with shutdown := true, ids := [], runReg := false,
                caches := fun i =>
                  let ch := s.caches i
                  if hasVal i s.ids then { ch.cancelFuts with task := none } else { ch with task := none } }, .done)
  | .tmShutdown =>
    -- `RequestCache.shutdown_task_manager()` (the override of the inherited method): cancel the managed futures of the
    -- registered caches, forget them, then `TaskManager.shutdown_task_manager()` (returns early when already shut down)
    if s.running.isSome then (s, .refused)
    else
      let s1 := { s with ids := [],
                         caches := fun i => if hasVal i s.ids then (s.caches i).cancelFuts else s.caches i }
      if s.shutdown then (s1, .done)
      else ({ s1 with shutdown := true, runReg := false, caches := fun i => { s1.caches i with task := none } }, .done)
  | .futSet c i =>
    if s.n ≤ c then (s, .refused)
    else ({ s with caches := upd s.caches c { s.caches c with futs := modNth Fut.extSet i (s.caches c).futs } }, .done)
  | .futCancel c i =>
    if s.n ≤ c then (s, .refused)
    else ({ s with caches := upd s.caches c { s.caches c with futs := modNth Fut.cancel i (s.caches c).futs } }, .done)
  | .regFut c k =>
    if s.n ≤ c then (s, .refused)
    else ({ s with caches := upd s.caches c
                      { s.caches c with futs := (s.caches c).futs ++ [{ isExc := k, st := .pending }] } }, .done)

/-- run a history; replies in event order -/
def run (s : St) : List Ev → St × List Reply
  | [] => (s, [])
  | e :: es =>
    let r := step s e
    let rest := run r.1 es
    (rest.1, r.2 :: rest.2)

def final (s : St) (evs : List Ev) : St := (run s evs).1
def trace (s : St) (evs : List Ev) : List Reply := (run s evs).2

/-- cache object c is outstanding: the identifier table holds it under its own identity (its on_timeout has not
    started and it was not claimed / dropped).  Until a shutdown this is the same as "has a waiting timer"
    (`Inv`); after `shutdown_task_manager()` the timers are gone while the requests are still claimable. -/
def outstanding (s : St) (c : Nat) : Prop := lookup (s.caches c).ident s.ids = some c

instance (s : St) (c : Nat) : Decidable (outstanding s c) := by unfold outstanding; infer_instance

/-- `is_pending_task_active(cache)`: a waiting timer, or the executing timeout task while it is still registered -/
def active (s : St) (c : Nat) : Bool := nameTaken s c

end Ipv8.C10
