/-
  C10 — a transcription of the part of asyncio.Task / TaskManager.delay_runner that rules R1 and R2 of Model.lean
  summarise: one timeout task `delay_runner(delay, _on_timeout, cache)` (or, for delay 0, the bare coroutine), its sleep
  future, `Task.cancel()` and the loop's `__step`/`__wakeup`.  Core Lean only.

  CPython 3.12 (`Lib/asyncio/tasks.py`, mirrored by `_asynciomodule.c`):
    cancel():  done → False.  `_fut_waiter` not None and `_fut_waiter.cancel()` succeeds → True (the task is woken with
               CancelledError).  Otherwise `_must_cancel = True` (a waiter that is already done cannot be cancelled; a
               task that has not run yet has no waiter; a running task has none either).
    __step():  if `_must_cancel`: throw CancelledError into the coroutine (a coroutine that has not started, or that is
               suspended in `await sleep`, ends without running the code after the await).
               On StopIteration: if `_must_cancel`: the task ends cancelled, else finished.
-/
namespace Ipv8.C10.AsyncTask

inductive Phase
  | created        -- ensure_future(...) done, first __step queued with call_soon
  | sleeping       -- suspended in `await sleep(delay)`, timer handle in the loop's heap
  | woken          -- the sleep future has its result, `__wakeup` is queued but has not run
  | running        -- `_on_timeout` is executing (synchronously, inside one __step)
  | finished
  | cancelled
  deriving DecidableEq, Repr

structure T where
  delayed : Bool            -- delay > 0: runs through delay_runner (sleep first); delay = 0: the body is the first step
  phase : Phase := .created
  mustCancel : Bool := false       -- Task._must_cancel
  waiterCancelled : Bool := false  -- the sleep future was cancelled by Task.cancel (CancelledError is delivered on wake-up)
  bodyRuns : Nat := 0              -- how often `_on_timeout` was entered
  cancelSeen : Bool := false       -- ghost: cancel() was called while the body had not been entered
  deriving Repr

inductive Ev
  | step      -- the loop runs the queued __step / __wakeup of this task
  | timer     -- the loop runs the sleep's timer handle (skipped if that handle was cancelled)
  | bodyEnd   -- `_on_timeout` returns
  | bodyRaise -- `_on_timeout` raises: the Task gets the exception, `_must_cancel` or not
  | bodyCancelled -- `_on_timeout` leaves with CancelledError (e.g. it read a cancelled future): `__step` treats that like
                  -- a delivered cancellation, the Task ends cancelled
  | cancel    -- Task.cancel() — from pop / clear / shutdown via cancel_pending_task
  deriving DecidableEq, Repr

def isDone (t : T) : Bool := t.phase == .finished || t.phase == .cancelled

def step (t : T) : Ev → T
  | .step =>
    match t.phase with
    | .created =>
      if t.mustCancel then { t with phase := .cancelled, mustCancel := false }
      else if t.delayed then { t with phase := .sleeping }
      else { t with phase := .running, bodyRuns := t.bodyRuns + 1 }
    | .woken =>
      if t.mustCancel || t.waiterCancelled then { t with phase := .cancelled, mustCancel := false }
      else { t with phase := .running, bodyRuns := t.bodyRuns + 1 }
    | _ => t                                   -- nothing queued for this task
  | .timer =>
    match t.phase with
    | .sleeping => { t with phase := .woken }  -- future.set_result → done callbacks → call_soon(__wakeup)
    | _ => t
  | .bodyEnd =>
    match t.phase with
    | .running => if t.mustCancel then { t with phase := .cancelled, mustCancel := false } else { t with phase := .finished }
    | _ => t
  | .bodyRaise =>
    match t.phase with
    | .running => { t with phase := .finished, mustCancel := false }
    | _ => t
  | .bodyCancelled =>
    match t.phase with
    | .running => { t with phase := .cancelled, mustCancel := false }
    | _ => t
  | .cancel =>
    if isDone t then t
    else
      let seen := t.cancelSeen || (t.bodyRuns == 0)
      match t.phase with
      | .sleeping => { t with phase := .woken, waiterCancelled := true, cancelSeen := seen }  -- `_fut_waiter.cancel()` succeeded
      | _ => { t with mustCancel := true, cancelSeen := seen }            -- created / woken (waiter done) / running

def run (t : T) : List Ev → T
  | [] => t
  | e :: es => run (step t e) es

/-- what the rules R1/R2 need, as an invariant of every run from a fresh task -/
structure Good (t : T) : Prop where
  once : t.bodyRuns ≤ 1
  ranPhase : t.bodyRuns = 1 → t.phase = .running ∨ t.phase = .finished ∨ t.phase = .cancelled
  notRan : t.bodyRuns = 0 → t.phase ≠ .running ∧ t.phase ≠ .finished
  cancelWins : t.cancelSeen = true → t.bodyRuns = 0 ∧
    (t.phase = .cancelled ∨ t.mustCancel = true ∨ (t.phase = .woken ∧ t.waiterCancelled = true))
  waiter : t.waiterCancelled = true → t.phase = .woken ∨ t.phase = .cancelled

theorem good_init (d : Bool) : Good { delayed := d } := by
  constructor <;> simp

theorem good_step (t : T) (e : Ev) (h : Good t) : Good (step t e) := by
  obtain ⟨h1, h2, h3, h4, h5⟩ := h
  obtain ⟨d, ph, mc, wc, br, cs⟩ := t
  cases e <;> cases ph <;> cases mc <;> cases wc <;> cases d <;>
    simp only [step, isDone] <;> constructor <;> simp_all <;> omega

theorem cancelSeen_mono (t : T) (e : Ev) (h : t.cancelSeen = true) : (step t e).cancelSeen = true := by
  obtain ⟨d, ph, mc, wc, br, cs⟩ := t
  cases e <;> cases ph <;> cases mc <;> cases wc <;> cases d <;> simp_all [step, isDone]

theorem cancelSeen_run (t : T) (es : List Ev) (h : t.cancelSeen = true) : (run t es).cancelSeen = true := by
  induction es generalizing t with
  | nil => exact h
  | cons e es ih => exact ih _ (cancelSeen_mono t e h)

theorem good_run (t : T) (es : List Ev) (h : Good t) : Good (run t es) := by
  induction es generalizing t with
  | nil => exact h
  | cons e es ih => exact ih _ (good_step t e h)

end Ipv8.C10.AsyncTask
