/-
  C10 — helper lemmas: dictionary facts, the invariant tying `_identifiers` to the timeout tasks, its preservation by
  every event, and the counting lemma behind "resolved at most once".
-/
import Ipv8.C10.Model
set_option linter.unusedSimpArgs false

namespace Ipv8.C10

/-! ### dictionary -/

@[simp] theorem lookup_nil (k : Ident) : lookup k [] = none := rfl

theorem lookup_cons (k k' : Ident) (v : Nat) (l : List (Ident × Nat)) :
    lookup k ((k', v) :: l) = if k' = k then some v else lookup k l := rfl

theorem lookup_erase (k k' : Ident) (l : List (Ident × Nat)) :
    lookup k' (erase k l) = if k' = k then none else lookup k' l := by
  induction l with
  | nil => simp [erase]
  | cons e r ih =>
    obtain ⟨k2, v⟩ := e
    by_cases h : k2 = k
    · subst h
      simp only [erase, if_true, ih, lookup_cons]
      by_cases h2 : k' = k2
      · simp [h2]
      · have : ¬ k2 = k' := fun e => h2 e.symm
        simp [h2, this]
    · simp only [erase, h, if_false, lookup_cons, ih]
      by_cases h2 : k2 = k'
      · subst h2; simp [h]
      · simp [h2]

@[simp] theorem upd_same (f : Nat → Cache) (c : Nat) (v : Cache) : upd f c v c = v := by simp [upd]
theorem upd_other (f : Nat → Cache) (c i : Nat) (v : Cache) (h : i ≠ c) : upd f c v i = f i := by simp [upd, h]
theorem upd_apply (f : Nat → Cache) (c i : Nat) (v : Cache) : upd f c v i = if i = c then v else f i := rfl

theorem cancelPending_caches (s : St) (c : Nat) :
    (cancelPending s c).caches = upd s.caches c { s.caches c with task := none } := by
  unfold cancelPending; repeat' split
  all_goals rfl
theorem cancelPending_ids (s : St) (c : Nat) : (cancelPending s c).ids = s.ids := by
  unfold cancelPending; repeat' split
  all_goals rfl
theorem cancelPending_n (s : St) (c : Nat) : (cancelPending s c).n = s.n := by
  unfold cancelPending; repeat' split
  all_goals rfl
theorem cancelPending_shutdown (s : St) (c : Nat) : (cancelPending s c).shutdown = s.shutdown := by
  unfold cancelPending; repeat' split
  all_goals rfl
theorem cancelPending_running (s : St) (c : Nat) : (cancelPending s c).running = s.running := by
  unfold cancelPending; repeat' split
  all_goals rfl
theorem cancelPending_now (s : St) (c : Nat) : (cancelPending s c).now = s.now := by
  unfold cancelPending; repeat' split
  all_goals rfl

/-! ### the invariant -/

structure Inv (s : St) : Prop where
  idsOk : ∀ k c, lookup k s.ids = some c →
    c < s.n ∧ (s.caches c).ident = k ∧ (s.caches c).task.isSome = true
  taskOk : ∀ c, (s.caches c).task.isSome = true → lookup (s.caches c).ident s.ids = some c
  runOk : ∀ c, s.running = some c → c < s.n
  sdOk : s.shutdown = true → s.ids = [] ∧ (∀ c, (s.caches c).task = none) ∧ s.running = none
  timeOk : ∀ c dl, (s.caches c).task = some dl → s.now ≤ dl

theorem inv_init : Inv init := by
  constructor <;> simp [init]

/-- objects that were never constructed have no task -/
theorem Inv.fresh_none {s : St} (h : Inv s) (c : Nat) (hc : s.n ≤ c) : (s.caches c).task = none := by
  cases ht : (s.caches c).task with
  | none => rfl
  | some dl =>
    exfalso
    have hs : (s.caches c).task.isSome = true := by simp [ht]
    have := (h.idsOk _ _ (h.taskOk c hs)).1; omega

/-! ### every event preserves the invariant -/

theorem inv_mkCache (s : St) (p num : Nat) (d : Option Nat) (cls : Nat) (ks : List Bool) (h : Inv s) :
    Inv (mkCache s p num d cls ks).1 := by
  unfold mkCache
  cases hl : lookup (p, num) s.ids with
  | some c => simpa using h
  | none =>
    have hf := h.fresh_none
    obtain ⟨h1, h2, h3, h4, h5⟩ := h
    constructor <;> simp only [upd_apply] <;> grind

theorem overdue_nil {s : St} {t : Nat} (h : overdueList s t = []) (c : Nat) (hc : c < s.n) (dl : Nat)
    (ht : (s.caches c).task = some dl) : t ≤ dl := by
  unfold overdueList at h
  rw [List.filter_eq_nil_iff] at h
  have := h c (List.mem_range.mpr hc)
  simp [ht] at this
  exact this

theorem step_inv (s : St) (e : Ev) (h : Inv s) : Inv (step s e).1 := by
  have hf := h.fresh_none
  cases e with
  | tick t =>
    simp only [step]
    split
    · exact h
    split
    · exact h
    split
    · rename_i ho
      have hov := fun c hc dl ht => overdue_nil (s := s) (t := t) ho c hc dl ht
      obtain ⟨h1, h2, h3, h4, h5⟩ := h
      constructor <;> try assumption
      intro c dl ht
      by_cases hc : c < s.n
      · exact hov c hc dl ht
      · have := hf c (by omega); simp_all
    · exact h
  | mk p num d cls ks => exact inv_mkCache s p num d cls ks h
  | mkRandom p cands d cls ks =>
    simp only [step]
    split
    · exact h
    · exact inv_mkCache s p _ d cls ks h
  | add c =>
    simp only [step]
    obtain ⟨h1, h2, h3, h4, h5⟩ := h
    split
    · constructor <;> assumption
    split
    · constructor <;> assumption
    split
    · constructor <;> simp only [upd_apply, Cache.cancelFuts, Cache.ident] at * <;> grind
    split
    · constructor <;> assumption
    split
    · constructor <;> assumption
    · rename_i hnt
      have htn : (s.caches c).task = none := by
        cases ht : (s.caches c).task with
        | none => rfl
        | some x => simp [nameTaken, ht] at hnt
      constructor <;> simp only [upd_apply, lookup_cons, Cache.ident] at * <;> grind
  | pop p num =>
    simp only [step]
    cases hl : lookup (p, num) s.ids with
    | none => simpa using h
    | some c =>
      have hc := h.idsOk _ _ hl
      obtain ⟨h1, h2, h3, h4, h5⟩ := h
      constructor <;> simp only [cancelPending_caches, cancelPending_ids, cancelPending_n, cancelPending_shutdown,
        cancelPending_running, cancelPending_now, lookup_erase, upd_apply] <;> grind
  | get p num => exact h
  | enter t fs =>
    obtain ⟨h1, h2, h3, h4, h5⟩ := h
    constructor <;> simp only [step] <;> assumption
  | exit =>
    obtain ⟨h1, h2, h3, h4, h5⟩ := h
    constructor <;> simp only [step] <;> assumption
  | fireBegin c =>
    simp only [step]
    cases hrun : s.running with
    | some r => simpa using h
    | none =>
    simp only [Option.isSome_none, Bool.false_eq_true, if_false]
    split
    · exact h
    split
    · exact h
    split
    · exact h
    · obtain ⟨h1, h2, h3, h4, h5⟩ := h
      constructor <;> simp only [lookup_erase, upd_apply, Cache.ident] at * <;> grind
  | fireEnd =>
    simp only [step]
    split
    · exact h
    · obtain ⟨h1, h2, h3, h4, h5⟩ := h
      constructor <;> simp only [upd_apply, Cache.completeFuts, Cache.ident] at * <;> grind
  | fireAbort =>
    simp only [step]
    split
    · exact h
    · obtain ⟨h1, h2, h3, h4, h5⟩ := h
      constructor <;> simp only [upd_apply, Cache.completeFuts, Cache.ident] at * <;> grind
  | clear =>
    obtain ⟨h1, h2, h3, h4, h5⟩ := h
    constructor <;> simp only [step, lookup_nil] <;> grind
  | shutdown =>
    simp only [step]
    cases hrun : s.running with
    | some r => simpa using h
    | none =>
      simp only [Option.isSome_none, Bool.false_eq_true, if_false]
      obtain ⟨h1, h2, h3, h4, h5⟩ := h
      constructor <;> simp only [lookup_nil] <;> grind
  | futSet c i =>
    simp only [step]
    split
    · exact h
    · obtain ⟨h1, h2, h3, h4, h5⟩ := h
      constructor <;> simp only [upd_apply, Cache.ident] at * <;> grind
  | futCancel c i =>
    simp only [step]
    split
    · exact h
    · obtain ⟨h1, h2, h3, h4, h5⟩ := h
      constructor <;> simp only [upd_apply, Cache.ident] at * <;> grind
  | regFut c k =>
    simp only [step]
    split
    · exact h
    · obtain ⟨h1, h2, h3, h4, h5⟩ := h
      constructor <;> simp only [upd_apply, Cache.ident] at * <;> grind
  | tmShutdown =>
    simp only [step]
    cases hrun : s.running with
    | some r => simpa using h
    | none =>
      simp only [Option.isSome_none, Bool.false_eq_true, if_false]
      obtain ⟨h1, h2, h3, h4, h5⟩ := h
      split
      · rename_i hs
        have := h4 hs
        constructor <;> simp only [lookup_nil, Cache.ident, Cache.cancelFuts] at * <;> grind
      · constructor <;> simp only [lookup_nil, Cache.ident, Cache.cancelFuts] at * <;> grind

/-! ### counting resolutions -/

/-- 1 if the table holds cache c under its own identity -/
def outN (s : St) (c : Nat) : Nat := if lookup (s.caches c).ident s.ids = some c then 1 else 0
def resN (r : Reply) (c : Nat) : Nat := if r = .claimed c ∨ r = .timedOut c then 1 else 0
def addN (r : Reply) (c : Nat) : Nat := if r = .added c then 1 else 0

def isDrop : Ev → Bool
  | .clear => true
  | .shutdown => true
  | .tmShutdown => true
  | _ => false

macro "count_simp" : tactic =>
  `(tactic| simp only [resN, addN, outN, upd_apply, lookup_cons, lookup_erase, lookup_nil, Cache.ident,
      Cache.cancelFuts, Cache.completeFuts, cancelPending_caches, cancelPending_ids] at *)

theorem mk_count_eq (s : St) (p num : Nat) (d : Option Nat) (cls : Nat) (ks : List Bool) (c : Nat) (h : Inv s) :
    resN (mkCache s p num d cls ks).2 c + outN (mkCache s p num d cls ks).1 c
      = addN (mkCache s p num d cls ks).2 c + outN s c := by
  obtain ⟨h1, h2, h3, h4, h5⟩ := h
  unfold mkCache
  split
  · simp [resN, addN]
  · count_simp; grind

/-- every event except clear/shutdown keeps `resolutions + registered = registrations + registered-before` exact -/
theorem step_count_eq (s : St) (e : Ev) (c : Nat) (h : Inv s) (hd : isDrop e = false) :
    resN (step s e).2 c + outN (step s e).1 c = addN (step s e).2 c + outN s c := by
  cases e with
  | tick t =>
    simp only [step]
    split
    · simp [resN, addN]
    split
    · simp [resN, addN]
    split <;> simp [resN, addN, outN]
  | mk p num d cls ks => exact mk_count_eq s p num d cls ks c h
  | mkRandom p cands d cls ks =>
    simp only [step]
    split
    · simp [resN, addN]
    · exact mk_count_eq s p _ d cls ks c h
  | add c0 =>
    obtain ⟨h1, h2, h3, h4, h5⟩ := h
    simp only [step]
    repeat' split
    all_goals count_simp <;> grind
  | pop p num =>
    obtain ⟨h1, h2, h3, h4, h5⟩ := h
    simp only [step]
    split
    · simp [resN, addN]
    · count_simp; grind
  | get p num => simp [step, resN, addN]
  | enter t fs => simp only [step, resN, addN, outN]; grind
  | exit => simp only [step, resN, addN, outN]; grind
  | fireBegin c0 =>
    obtain ⟨h1, h2, h3, h4, h5⟩ := h
    simp only [step]
    repeat' split
    all_goals count_simp <;> grind
  | fireEnd =>
    simp only [step]
    split
    · simp [resN, addN]
    · count_simp; grind
  | fireAbort =>
    simp only [step]
    split
    · simp [resN, addN]
    · count_simp; grind
  | clear => simp [isDrop] at hd
  | shutdown => simp [isDrop] at hd
  | tmShutdown => simp [isDrop] at hd
  | futSet c0 i =>
    simp only [step]
    split
    · simp [resN, addN]
    · count_simp; grind
  | futCancel c0 i =>
    simp only [step]
    split
    · simp [resN, addN]
    · count_simp; grind
  | regFut c0 k =>
    simp only [step]
    split
    · simp [resN, addN]
    · count_simp; grind

/-- clear/shutdown only ever remove registrations -/
theorem step_count_drop (s : St) (e : Ev) (c : Nat) (hd : isDrop e = true) :
    resN (step s e).2 c = 0 ∧ addN (step s e).2 c = 0 ∧ outN (step s e).1 c ≤ outN s c := by
  cases e <;> simp [isDrop] at hd
  · simp [step, resN, addN, outN]
  · simp only [step]
    split
    · simp [resN, addN]
    · simp [resN, addN, outN]
  · simp only [step]
    split
    · simp [resN, addN]
    · split <;> simp [resN, addN, outN]

theorem step_count (s : St) (e : Ev) (c : Nat) (h : Inv s) :
    resN (step s e).2 c + outN (step s e).1 c ≤ addN (step s e).2 c + outN s c := by
  cases hde : isDrop e with
  | false => exact Nat.le_of_eq (step_count_eq s e c h hde)
  | true => have := step_count_drop s e c hde; omega

/-! ### histories -/

theorem run_nil (s : St) : run s [] = (s, []) := rfl
theorem final_nil (s : St) : final s [] = s := rfl
theorem trace_nil (s : St) : trace s [] = [] := rfl
theorem final_cons (s : St) (e : Ev) (es : List Ev) : final s (e :: es) = final (step s e).1 es := rfl
theorem trace_cons (s : St) (e : Ev) (es : List Ev) : trace s (e :: es) = (step s e).2 :: trace (step s e).1 es := rfl

theorem final_append (s : St) (a b : List Ev) : final s (a ++ b) = final (final s a) b := by
  induction a generalizing s with
  | nil => rfl
  | cons e es ih => simp [final_cons, ih]

theorem trace_append (s : St) (a b : List Ev) : trace s (a ++ b) = trace s a ++ trace (final s a) b := by
  induction a generalizing s with
  | nil => rfl
  | cons e es ih => simp [final_cons, trace_cons, ih]

theorem run_inv (s : St) (evs : List Ev) (h : Inv s) : Inv (final s evs) := by
  induction evs generalizing s with
  | nil => exact h
  | cons e es ih => exact ih _ (step_inv s e h)

theorem reach_inv (evs : List Ev) : Inv (final init evs) := run_inv _ _ inv_init

theorem resN_eq (r : Reply) (c : Nat) :
    resN r c = (if r == .claimed c then 1 else 0) + (if r == .timedOut c then 1 else 0) := by
  unfold resN
  by_cases h1 : r = .claimed c
  · subst h1; simp
  · by_cases h2 : r = .timedOut c
    · subst h2; simp
    · simp [h1, h2]

theorem addN_eq (r : Reply) (c : Nat) : addN r c = (if r == .added c then 1 else 0) := by
  unfold addN; by_cases h : r = .added c <;> simp [h]

/-- the counting invariant: resolutions so far + (1 if still outstanding) never exceed registrations + (1 if it was
    outstanding at the start) -/
theorem run_count (s : St) (evs : List Ev) (c : Nat) (h : Inv s) :
    (trace s evs).count (.claimed c) + (trace s evs).count (.timedOut c) + outN (final s evs) c
      ≤ (trace s evs).count (.added c) + outN s c := by
  induction evs generalizing s with
  | nil => simp [trace_nil, final_nil]
  | cons e es ih =>
    have h1 := step_count s e c h
    have h2 := ih _ (step_inv s e h)
    rw [resN_eq, addN_eq] at h1
    simp only [trace_cons, final_cons, List.count_cons]
    omega

theorem outN_zero_of_not {s : St} {c : Nat} (h : ¬ outstanding s c) : outN s c = 0 := by
  unfold outN outstanding at *; simp [h]

theorem lookup_hasVal {k : Ident} {c : Nat} {l : List (Ident × Nat)} (h : lookup k l = some c) : hasVal c l = true := by
  induction l with
  | nil => simp at h
  | cons e r ih =>
    obtain ⟨k2, v⟩ := e
    rw [lookup_cons] at h
    unfold hasVal
    simp only [List.any_cons]
    split at h
    · simp_all
    · have := ih h; unfold hasVal at this; simp [this]

/-- the shutdown flag is never reset -/
theorem step_shutdown_mono (s : St) (e : Ev) (h : s.shutdown = true) : (step s e).1.shutdown = true := by
  cases e <;> simp only [step, mkCache, cancelPending] <;> repeat' split
  all_goals simp_all

theorem run_shutdown_mono (s : St) (evs : List Ev) (h : s.shutdown = true) : (final s evs).shutdown = true := by
  induction evs generalizing s with
  | nil => exact h
  | cons e es ih => exact ih _ (step_shutdown_mono s e h)

/-- in a shut-down state (with the invariant) no event is answered by `timedOut` or `added` -/
theorem step_after_shutdown (s : St) (e : Ev) (h : Inv s) (hs : s.shutdown = true) (c : Nat) :
    (step s e).2 ≠ .timedOut c ∧ (step s e).2 ≠ .added c := by
  obtain ⟨hi, ht, hr⟩ := h.sdOk hs
  cases e <;> simp only [step, mkCache, cancelPending] <;> repeat' split
  all_goals simp_all

theorem run_after_shutdown (s : St) (evs : List Ev) (h : Inv s) (hs : s.shutdown = true) (c : Nat) :
    Reply.timedOut c ∉ trace s evs ∧ Reply.added c ∉ trace s evs := by
  induction evs generalizing s with
  | nil => simp [trace_nil]
  | cons e es ih =>
    have h1 := step_after_shutdown s e h hs c
    have h2 := ih _ (step_inv s e h) (step_shutdown_mono s e hs)
    simp only [trace_cons, List.mem_cons, not_or]
    exact ⟨⟨fun e => h1.1 e.symm, h2.1⟩, ⟨fun e => h1.2 e.symm, h2.2⟩⟩

/-- once `RequestCache.shutdown` has emptied the table it stays empty (nothing can be registered any more) -/
theorem step_empty_after_shutdown (s : St) (e : Ev) (hs : s.shutdown = true) (hi : s.ids = []) :
    (step s e).1.ids = [] := by
  cases e <;> simp only [step, mkCache, cancelPending] <;> repeat' split
  all_goals simp_all [erase]

theorem run_empty_after_shutdown (s : St) (evs : List Ev) (hs : s.shutdown = true) (hi : s.ids = []) :
    (final s evs).ids = [] := by
  induction evs generalizing s with
  | nil => exact hi
  | cons e es ih => exact ih _ (step_shutdown_mono s e hs) (step_empty_after_shutdown s e hs hi)

theorem complete_not_pending (f : Fut) : (Fut.complete f).st ≠ .pending := by
  unfold Fut.complete; split <;> simp_all; split <;> simp
theorem cancel_not_pending (f : Fut) : (Fut.cancel f).st ≠ .pending := by
  unfold Fut.cancel; split <;> simp_all

/-! ### what an accepted event looks like -/

theorem fireBegin_accepted {s : St} {c c' : Nat} (h : (step s (.fireBegin c)).2 = .timedOut c') :
    c' = c ∧ s.running = none ∧ c < s.n ∧ (∃ dl, (s.caches c).task = some dl ∧ dl ≤ s.now) ∧
    (step s (.fireBegin c)).1 = { s with ids := erase (s.caches c).ident s.ids, running := some c, runReg := true,
                                         caches := upd s.caches c { s.caches c with task := none } } := by
  cases hrun : s.running with
  | some r => simp [step, hrun] at h
  | none =>
    by_cases hn : s.n ≤ c
    · simp [step, hrun, hn] at h
    · cases ht : (s.caches c).task with
      | none => simp [step, hrun, hn, ht] at h
      | some dl =>
        by_cases hd : s.now < dl
        · simp [step, hrun, hn, ht, hd] at h
        · simp only [step, hrun, hn, ht, hd, Option.isSome_none, Bool.false_eq_true, if_false] at h ⊢
          injection h with h
          refine ⟨h.symm, ?_, by omega, ⟨dl, ?_, by omega⟩, ?_⟩ <;> simp

theorem add_accepted {s : St} {c c' : Nat} (h : (step s (.add c)).2 = .added c') :
    c' = c ∧ c < s.n ∧ s.shutdown = false ∧ lookup (s.caches c).ident s.ids = none ∧
    (s.caches c).task = none ∧
    ((step s (.add c)).1.caches c).task = some (s.now + effDelay s (s.caches c)) := by
  by_cases hn : s.n ≤ c
  · simp [step, hn] at h
  by_cases hd : (s.caches c).delay ≤ Gen.minDelayExclusiveMs
  · simp [step, hn, hd] at h
  cases hs : s.shutdown with
  | true => simp [step, hn, hd, hs] at h
  | false =>
    cases hl : lookup (s.caches c).ident s.ids with
    | some x => simp [step, hn, hd, hs, hl] at h
    | none =>
      by_cases hb : ((s.caches c).task.isSome || (s.running == some c && s.runReg)) = true
      · simp [step, nameTaken, hn, hd, hs, hl, hb] at h
      · have ht : (s.caches c).task = none := by
          cases ht : (s.caches c).task with
          | none => rfl
          | some x => simp [ht] at hb
        simp only [step, nameTaken, hn, hd, hs, hl, hb, if_false, Bool.false_eq_true] at h ⊢
        injection h with h
        refine ⟨h.symm, by omega, ?_, ?_, ht, ?_⟩ <;> simp

/-! ### exact counting when nothing is dropped -/

theorem run_count_eq (s : St) (evs : List Ev) (c : Nat) (h : Inv s) (hd : ∀ e ∈ evs, isDrop e = false) :
    (trace s evs).count (.claimed c) + (trace s evs).count (.timedOut c) + outN (final s evs) c
      = (trace s evs).count (.added c) + outN s c := by
  induction evs generalizing s with
  | nil => simp [trace_nil, final_nil]
  | cons e es ih =>
    have h1 := step_count_eq s e c h (hd e (by simp))
    have h2 := ih _ (step_inv s e h) (fun e' he' => hd e' (by simp [he']))
    rw [resN_eq, addN_eq] at h1
    simp only [trace_cons, final_cons, List.count_cons]
    omega

/-- `clear`/`shutdown` never hit request c while it is outstanding, along the run from s -/
def NoDropWhileOutstanding (s : St) (c : Nat) : List Ev → Prop
  | [] => True
  | e :: es => (isDrop e = true → ¬ outstanding s c) ∧ NoDropWhileOutstanding (step s e).1 c es

theorem step_count_eq' (s : St) (e : Ev) (c : Nat) (h : Inv s) (hd : isDrop e = true → ¬ outstanding s c) :
    resN (step s e).2 c + outN (step s e).1 c = addN (step s e).2 c + outN s c := by
  cases hde : isDrop e with
  | false => exact step_count_eq s e c h hde
  | true =>
    have h0 : outN s c = 0 := outN_zero_of_not (hd hde)
    have := step_count_drop s e c hde
    omega

theorem run_count_eq' (s : St) (evs : List Ev) (c : Nat) (h : Inv s) (hd : NoDropWhileOutstanding s c evs) :
    (trace s evs).count (.claimed c) + (trace s evs).count (.timedOut c) + outN (final s evs) c
      = (trace s evs).count (.added c) + outN s c := by
  induction evs generalizing s with
  | nil => simp [trace_nil, final_nil]
  | cons e es ih =>
    have h1 := step_count_eq' s e c h hd.1
    have h2 := ih _ (step_inv s e h) hd.2
    rw [resN_eq, addN_eq] at h1
    simp only [trace_cons, final_cons, List.count_cons]
    omega

/-! ### futures are monotone -/

theorem modNth_getElem? (g : Fut → Fut) (i j : Nat) (l : List Fut) :
    (modNth g i l)[j]? = if j = i then l[j]?.map g else l[j]? := by
  induction l generalizing i j with
  | nil => simp [modNth]
  | cons a r ih =>
    cases i with
    | zero => cases j <;> simp [modNth]
    | succ i => cases j <;> simp [modNth, ih]

theorem extSet_of_done (f : Fut) (h : f.st ≠ .pending) : Fut.extSet f = f := by simp [Fut.extSet, h]
theorem cancel_of_done (f : Fut) (h : f.st ≠ .pending) : Fut.cancel f = f := by simp [Fut.cancel, h]
theorem complete_of_done (f : Fut) (h : f.st ≠ .pending) : Fut.complete f = f := by simp [Fut.complete, h]

/-- a managed future that is done keeps its state under every event -/
theorem fut_done_stable' (s : St) (e : Ev) (c i : Nat) (f : Fut) (hc : c < s.n)
    (hf : (s.caches c).futs[i]? = some f) (hd : f.st ≠ .pending) :
    ((step s e).1.caches c).futs[i]? = some f := by
  have e1 := extSet_of_done f hd
  have e2 := cancel_of_done f hd
  have e3 := complete_of_done f hd
  have hlt : i < (s.caches c).futs.length := by
    rcases Nat.lt_or_ge i (s.caches c).futs.length with h | h
    · exact h
    · rw [List.getElem?_eq_none h] at hf; cases hf
  cases e <;> simp only [step, mkCache, cancelPending] <;> repeat' split
  all_goals first
    | exact hf
    | (simp only [upd_apply, Cache.cancelFuts, Cache.completeFuts]
       repeat' split
       all_goals simp_all [modNth_getElem?, List.getElem?_map, List.getElem?_append_left]
       all_goals (try (intro hi; subst hi; exact ⟨f, by simp_all, by assumption⟩)))

end Ipv8.C10
