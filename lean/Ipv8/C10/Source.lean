/-
  C10 — the bodies of RequestCache.add / pop / _on_timeout / clear / shutdown as the translator reads them from the
  source (`Gen.addOps … Gen.shutdownOps`, regenerated on every run), interpreted primitive by primitive.
  Props.lean proves that running the GENERATED lists gives exactly the hand-written `step` of Model.lean, so the
  property theorems are re-proved against the statement order the source has now: dropping, adding or reordering an
  effectful statement of these methods breaks a `…_follows_source` theorem.
  Core Lean only.
-/
import Ipv8.C10.Model

namespace Ipv8.C10
open Gen (Prim)

/-- local context of one method call: state, the cache object the method works on, the identifier key, and the value
    returned / exception raised so far (`some _` = the method has left) -/
structure Ctx where
  s : St
  c : Nat
  key : Ident
  out : Option Reply := none

/-- `has(prefix, number)` as the source writes it (used by the constructor guard) -/
def runPrimsHas (x : Ctx) : Ctx :=
  match Gen.hasOps with
  | [.tableContains] => { x with out := some (.got ((lookup x.key x.s.ids).map fun _ => 0)) }
  | _ => x

def prim (x : Ctx) : Prim → Ctx
  | .assertDelay =>
    if (x.s.caches x.c).delay ≤ Gen.minDelayExclusiveMs then { x with out := some .assertFail } else x
  | .shutdownGate =>
    if x.s.shutdown then
      { x with s := { x.s with caches := upd x.s.caches x.c (x.s.caches x.c).cancelFuts }, out := some .droppedShutdown }
    else x
  | .dupGuard =>
    match lookup x.key x.s.ids with
    | some _ => { x with out := some .dup }
    | none => x
  | .registerTask =>
    if nameTaken x.s x.c then { x with out := some .raised }
    else
      let ch := x.s.caches x.c
      { x with s := { x.s with caches := upd x.s.caches x.c { ch with task := some (x.s.now + effDelay x.s ch) } } }
  | .storeIdent => { x with s := { x.s with ids := (x.key, x.c) :: x.s.ids } }
  | .resolveWaiter => x                       -- wait_for futures are not part of the model
  | .returnAdded => { x with out := some (.added x.c) }
  | .popIdent =>
    match lookup x.key x.s.ids with
    | none => { x with out := some .keyError }
    | some c => { x with s := { x.s with ids := erase x.key x.s.ids }, c := c }
  | .cancelTask => { x with s := cancelPending x.s x.c }
  | .returnClaimed => { x with out := some (.claimed x.c) }
  | .removeIdent => { x with s := { x.s with ids := erase x.key x.s.ids } }
  | .callOnTimeout => x                       -- the split point between fireBegin and fireEnd
  | .completeFutures => { x with s := { x.s with caches := upd x.s.caches x.c (x.s.caches x.c).completeFuts } }
  | .cancelAllTasks =>
    { x with s := { x.s with caches := fun i => { x.s.caches i with task := none }, runReg := false } }
  | .clearIdents => { x with s := { x.s with ids := [] } }
  | .returnTasks => { x with out := some .done }
  | .setShutdown => { x with s := { x.s with shutdown := true } }
  | .cancelRegisteredFutures =>
    { x with s := { x.s with caches := fun i => if hasVal i x.s.ids then (x.s.caches i).cancelFuts else x.s.caches i } }
  | .awaitTasks => { x with out := some .done }
  | .tableContains => { x with out := some (.got ((lookup x.key x.s.ids).map fun _ => 0)) }   -- only its truth value is used
  | .tableLookup => { x with out := some (.got (lookup x.key x.s.ids)) }
  | .raiseIfHas =>                           -- `if request_cache.has(prefix, number): raise RuntimeError`
    match (runPrimsHas x).out with
    | some (.got (some _)) => { x with out := some .inUse }
    | _ => x
  | .superShutdown =>                         -- TaskManager.shutdown_task_manager: early return when already shut down
    if x.s.shutdown then { x with out := some .done }
    else { x with s := { x.s with shutdown := true, runReg := false,
                                  caches := fun i => { x.s.caches i with task := none } }, out := some .done }

/-- run a method body: primitives in source order until the method returns or raises -/
def runPrims (ops : List Prim) (x : Ctx) : Ctx :=
  ops.foldl (fun x op => if x.out.isSome then x else prim x op) x

def result (x : Ctx) : St × Reply := (x.s, x.out.getD .done)

def beforeCall (ops : List Prim) : List Prim := ops.takeWhile (· != .callOnTimeout)
def afterCall (ops : List Prim) : List Prim := (ops.dropWhile (· != .callOnTimeout)).drop 1

/-- `RequestCache.add(cache)` as written in the source -/
def addViaSource (s : St) (c : Nat) : St × Reply :=
  if s.n ≤ c then (s, .refused)
  else result (runPrims Gen.addOps { s := s, c := c, key := (s.caches c).ident })

/-- `RequestCache.pop(prefix, number)` as written in the source -/
def popViaSource (s : St) (p num : Nat) : St × Reply :=
  result (runPrims Gen.popOps { s := s, c := 0, key := (p, num) })

/-- the timeout task of c starts executing `_on_timeout(c)`: everything up to the call of `cache.on_timeout()` -/
def fireBeginViaSource (s : St) (c : Nat) : St × Reply :=
  if s.running.isSome then (s, .refused)
  else if s.n ≤ c then (s, .refused)
  else match (s.caches c).task with
    | none => (s, .refused)
    | some dl =>
      if s.now < dl then (s, .refused)
      else
        let s0 := { s with running := some c, runReg := true, caches := upd s.caches c { s.caches c with task := none } }
        ((runPrims (beforeCall Gen.onTimeoutOps) { s := s0, c := c, key := (s.caches c).ident }).s, .timedOut c)

/-- `cache.on_timeout()` has returned: the rest of `_on_timeout`, then the task finishes -/
def fireEndViaSource (s : St) : St × Reply :=
  match s.running with
  | none => (s, .refused)
  | some c =>
    let x := runPrims (afterCall Gen.onTimeoutOps) { s := s, c := c, key := (s.caches c).ident }
    ({ x.s with running := none, runReg := false }, .fired c)

/-- `cache.on_timeout()` has raised: only the `finally` blocks around the call run, then the task finishes -/
def fireAbortViaSource (s : St) : St × Reply :=
  match s.running with
  | none => (s, .refused)
  | some c =>
    let x := runPrims Gen.onTimeoutAbortOps { s := s, c := c, key := (s.caches c).ident }
    ({ x.s with running := none, runReg := false }, .aborted c)

/-- `RequestCache.get(prefix, number)` as written in the source -/
def getViaSource (s : St) (p num : Nat) : St × Reply :=
  result (runPrims Gen.getOps { s := s, c := 0, key := (p, num) })

/-- `NumberCache(request_cache, prefix, number)`: the guard of the source, then the object is created -/
def mkViaSource (s : St) (p num : Nat) (delay : Option Nat) (cls : Nat) (kinds : List Bool) : St × Reply :=
  match (runPrims Gen.ctorOps { s := s, c := s.n, key := (p, num) }).out with
  | some r => (s, r)
  | none =>
    let ch : Cache := { pfx := p, num := num, delay := delay.getD Gen.defaultDelayMs, cls := cls,
                        futs := kinds.map (fun k => { isExc := k, st := .pending }), task := none }
    ({ s with caches := upd s.caches s.n ch, n := s.n + 1 }, .okMk s.n num)

def clearViaSource (s : St) : St × Reply :=
  result (runPrims Gen.clearOps { s := s, c := 0, key := (0, 0) })

def tmShutdownViaSource (s : St) : St × Reply :=
  if s.running.isSome then (s, .refused)
  else result (runPrims Gen.tmShutdownOps { s := s, c := 0, key := (0, 0) })

def shutdownViaSource (s : St) : St × Reply :=
  if s.running.isSome then (s, .refused)
  else result (runPrims Gen.shutdownOps { s := s, c := 0, key := (0, 0) })

/-- the request-cache machine with every translated method executed from the GENERATED op lists -/
def stepSrc (s : St) : Ev → St × Reply
  | .mk p n d cls ks => mkViaSource s p n d cls ks
  | .add c => addViaSource s c
  | .pop p n => popViaSource s p n
  | .get p n => getViaSource s p n
  | .fireBegin c => fireBeginViaSource s c
  | .fireEnd => fireEndViaSource s
  | .fireAbort => fireAbortViaSource s
  | .clear => clearViaSource s
  | .shutdown => shutdownViaSource s
  | .tmShutdown => tmShutdownViaSource s
  | e => step s e

def runSrc (s : St) : List Ev → St × List Reply
  | [] => (s, [])
  | e :: es =>
    let r := stepSrc s e
    let rest := runSrc r.1 es
    (rest.1, r.2 :: rest.2)

end Ipv8.C10
