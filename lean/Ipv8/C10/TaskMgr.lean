/-
  C10 — TaskManager level: SEVERAL asyncio Tasks per cache object, the name table `_pending_tasks`, and the window between
  a Task finishing and its `done_cb` running.  This is the layer that `Model.lean` summarises by `Cache.task : Option _`
  ("at most one live timeout task per cache object, and it is the one registered under the cache"); here that summary is
  a theorem, and it depends on how `register_task.done_cb` is written (`guarded`, regenerated from taskmanager.py as
  `Gen.doneCbGuarded`): the unguarded callback of the original code breaks it (witness in Props.lean).
  Each Task follows `AsyncTask.step`.  Core Lean only.
-/
import Ipv8.C10.AsyncTask

namespace Ipv8.C10.TaskMgr
open AsyncTask (T Phase)

structure TTask where
  owner : Nat := 0                 -- the name it was registered under (= the cache object)
  t : T := { delayed := true }
  cbPending : Bool := false        -- done, its done callback has not run yet

structure TM where
  n : Nat := 0                     -- number of Task objects created so far
  tasks : Nat → TTask := fun _ => {}
  pending : Nat → Option Nat := fun _ => none     -- `_pending_tasks[name]`

inductive Ev
  | register (c : Nat) (delayed : Bool)      -- register_task(cache, …): RuntimeError while the name holds a task that is not done
  | cancelName (c : Nat)                     -- cancel_pending_task(cache)
  | loop (i : Nat) (e : AsyncTask.Ev)        -- the event loop advances Task i (step / timer / bodyEnd; `cancel` is ignored here)
  | doneCb (i : Nat)                         -- the event loop runs the done callback of the finished Task i
  deriving Repr

def updT (f : Nat → TTask) (i : Nat) (v : TTask) : Nat → TTask := fun j => if j = i then v else f j
def updP (f : Nat → Option Nat) (c : Nat) (v : Option Nat) : Nat → Option Nat := fun j => if j = c then v else f j

/-- can this Task still enter `_on_timeout`? -/
def live (m : TM) (i : Nat) : Prop :=
  i < m.n ∧ AsyncTask.isDone (m.tasks i).t = false ∧ (m.tasks i).t.bodyRuns = 0 ∧ (m.tasks i).t.cancelSeen = false

/-- `is_pending_task_active(name)` -/
def nameBusy (m : TM) (c : Nat) : Bool :=
  match m.pending c with
  | some i => !AsyncTask.isDone (m.tasks i).t
  | none => false

def step (guarded : Bool) (m : TM) : Ev → TM
  | .register c d =>
    if nameBusy m c then m
    else { m with n := m.n + 1, tasks := updT m.tasks m.n { owner := c, t := { delayed := d } },
                  pending := updP m.pending c (some m.n) }
  | .cancelName c =>
    match m.pending c with
    | none => m
    | some i =>
      if AsyncTask.isDone (m.tasks i).t then m
      else { m with tasks := updT m.tasks i { m.tasks i with t := AsyncTask.step (m.tasks i).t .cancel },
                    pending := updP m.pending c none }
  | .loop i e =>
    if m.n ≤ i then m
    else if e = .cancel then m
    else
      let t' := AsyncTask.step (m.tasks i).t e
      let becameDone := AsyncTask.isDone t' && !AsyncTask.isDone (m.tasks i).t
      { m with tasks := updT m.tasks i { m.tasks i with t := t', cbPending := (m.tasks i).cbPending || becameDone } }
  | .doneCb i =>
    if m.n ≤ i then m
    else if !(m.tasks i).cbPending then m
    else
      let m' := { m with tasks := updT m.tasks i { m.tasks i with cbPending := false } }
      if guarded then
        (if m.pending (m.tasks i).owner = some i then { m' with pending := updP m.pending (m.tasks i).owner none } else m')
      else { m' with pending := updP m.pending (m.tasks i).owner none }

def run (guarded : Bool) (m : TM) : List Ev → TM
  | [] => m
  | e :: es => run guarded (step guarded m e) es

def init : TM := {}

/-- the invariant behind `Cache.task : Option _` -/
structure Inv (m : TM) : Prop where
  liveReg : ∀ i, live m i → m.pending (m.tasks i).owner = some i
  pendOk : ∀ c i, m.pending c = some i → i < m.n ∧ (m.tasks i).owner = c
  good : ∀ i, AsyncTask.Good (m.tasks i).t
  cbDone : ∀ i, (m.tasks i).cbPending = true → AsyncTask.isDone (m.tasks i).t = true

theorem inv_init : Inv init := by
  constructor
  · intro i h; simp [live, init] at h
  · intro c i h; simp [init] at h
  · intro i; exact AsyncTask.good_init true
  · intro i h; simp [init] at h

/-- liveness of a Task never comes back -/
theorem not_live_step (t : T) (e : AsyncTask.Ev)
    (h : ¬ (AsyncTask.isDone t = false ∧ t.bodyRuns = 0 ∧ t.cancelSeen = false)) :
    ¬ (AsyncTask.isDone (AsyncTask.step t e) = false ∧ (AsyncTask.step t e).bodyRuns = 0
        ∧ (AsyncTask.step t e).cancelSeen = false) := by
  obtain ⟨d, ph, mc, wc, br, cs⟩ := t
  cases e <;> cases ph <;> cases mc <;> cases wc <;> cases d <;> cases cs <;>
    simp_all [AsyncTask.step, AsyncTask.isDone] <;> omega

/-- a Task that is not live does not enter the body any more (needs the Task invariant `Good`) -/
theorem not_live_no_body (t : T) (e : AsyncTask.Ev) (hg : AsyncTask.Good t)
    (h : ¬ (AsyncTask.isDone t = false ∧ t.bodyRuns = 0 ∧ t.cancelSeen = false)) :
    (AsyncTask.step t e).bodyRuns = t.bodyRuns := by
  obtain ⟨h1, h2, h3, h4, h5⟩ := hg
  obtain ⟨d, ph, mc, wc, br, cs⟩ := t
  cases e <;> cases ph <;> cases mc <;> cases wc <;> cases d <;> cases cs <;>
    simp_all [AsyncTask.step, AsyncTask.isDone] <;> omega

theorem isDone_step (t : T) (e : AsyncTask.Ev) (h : AsyncTask.isDone t = true) :
    AsyncTask.isDone (AsyncTask.step t e) = true := by
  obtain ⟨d, ph, mc, wc, br, cs⟩ := t
  cases e <;> cases ph <;> cases mc <;> cases wc <;> cases d <;> simp_all [AsyncTask.step, AsyncTask.isDone]

theorem cancel_kills (t : T) : ¬ (AsyncTask.isDone (AsyncTask.step t .cancel) = false
    ∧ (AsyncTask.step t .cancel).bodyRuns = 0 ∧ (AsyncTask.step t .cancel).cancelSeen = false) := by
  obtain ⟨d, ph, mc, wc, br, cs⟩ := t
  cases ph <;> cases mc <;> cases wc <;> cases d <;> cases cs <;>
    simp_all [AsyncTask.step, AsyncTask.isDone]

/-! ### the invariant is preserved (guarded done callback) -/

def liveT (t : AsyncTask.T) : Prop := AsyncTask.isDone t = false ∧ t.bodyRuns = 0 ∧ t.cancelSeen = false

theorem live_iff (m : TM) (i : Nat) : live m i ↔ (i < m.n ∧ liveT (m.tasks i).t) := by
  unfold live liveT; constructor <;> intro h <;> exact h

theorem liveT_init (d : Bool) : liveT { delayed := d } := by simp [liveT, AsyncTask.isDone]
theorem liveT_step (t : AsyncTask.T) (e : AsyncTask.Ev) (h : liveT (AsyncTask.step t e)) : liveT t := by
  apply Classical.byContradiction
  intro hn
  exact not_live_step t e hn h
theorem liveT_cancel (t : AsyncTask.T) : ¬ liveT (AsyncTask.step t .cancel) := cancel_kills t

/-- the invariant in a form that does not mention the record `m` (easier to transport) -/
structure Inv' (n : Nat) (tasks : Nat → TTask) (pending : Nat → Option Nat) : Prop where
  liveReg : ∀ i, i < n → liveT (tasks i).t → pending (tasks i).owner = some i
  pendOk : ∀ c i, pending c = some i → i < n ∧ (tasks i).owner = c
  good : ∀ i, AsyncTask.Good (tasks i).t
  cbDone : ∀ i, (tasks i).cbPending = true → AsyncTask.isDone (tasks i).t = true

theorem inv_iff (m : TM) : Inv m ↔ Inv' m.n m.tasks m.pending := by
  constructor
  · intro ⟨a, b, c, d⟩; exact ⟨fun i hi hl => a i ((live_iff m i).mpr ⟨hi, hl⟩), b, c, d⟩
  · intro ⟨a, b, c, d⟩; exact ⟨fun i hl => a i ((live_iff m i).mp hl).1 ((live_iff m i).mp hl).2, b, c, d⟩

theorem inv_register (m : TM) (c : Nat) (d : Bool) (h : Inv' m.n m.tasks m.pending) (hb : nameBusy m c = false) :
    Inv' (m.n + 1) (updT m.tasks m.n { owner := c, t := { delayed := d } }) (updP m.pending c (some m.n)) := by
  obtain ⟨h1, h2, h3, h4⟩ := h
  refine ⟨?_, ?_, ?_, ?_⟩
  · intro i hi hl
    by_cases hin : i = m.n
    · subst hin; simp [updT, updP]
    · have hlt : i < m.n := by omega
      simp only [updT, hin, if_false] at hl ⊢
      have hp := h1 i hlt hl
      by_cases hc : (m.tasks i).owner = c
      · exfalso
        rw [hc] at hp
        simp [nameBusy, hp, hl.1] at hb
      · simp [updP, hc, hp]
  · intro c' i hp
    by_cases hc : c' = c
    · subst hc; simp [updP] at hp; subst hp; simp [updT]
    · simp only [updP, hc, if_false] at hp
      have := h2 c' i hp
      have hne : i ≠ m.n := by omega
      simp only [updT, hne, if_false]
      exact ⟨by omega, this.2⟩
  · intro i; simp only [updT]; split
    · exact AsyncTask.good_init d
    · exact h3 i
  · intro i; simp only [updT]; split
    · simp
    · exact h4 i

theorem inv_cancel (m : TM) (c i : Nat) (h : Inv' m.n m.tasks m.pending) (hp : m.pending c = some i) :
    Inv' m.n (updT m.tasks i { m.tasks i with t := AsyncTask.step (m.tasks i).t .cancel }) (updP m.pending c none) := by
  obtain ⟨h1, h2, h3, h4⟩ := h
  have hpi := h2 c i hp
  refine ⟨?_, ?_, ?_, ?_⟩
  · intro j hj hl
    by_cases hji : j = i
    · subst hji; simp only [updT, if_true] at hl; exact absurd hl (liveT_cancel _)
    · simp only [updT, hji, if_false] at hl ⊢
      have hpj := h1 j hj hl
      by_cases hc : (m.tasks j).owner = c
      · rw [hc, hp] at hpj; exact absurd (Option.some.inj hpj).symm hji
      · simp [updP, hc, hpj]
  · intro c' j hpj
    by_cases hc : c' = c
    · simp [updP, hc] at hpj
    · simp only [updP, hc, if_false] at hpj
      have := h2 c' j hpj
      refine ⟨this.1, ?_⟩
      simp only [updT]; split
      · rename_i hji; subst hji; exact this.2
      · exact this.2
  · intro j; simp only [updT]; split
    · exact AsyncTask.good_step (m.tasks i).t .cancel (h3 i)
    · exact h3 j
  · intro j; simp only [updT]; split
    · intro hcb; exact isDone_step _ _ (h4 i hcb)
    · exact h4 j

theorem inv_loop (m : TM) (i : Nat) (e : AsyncTask.Ev) (v : TTask) (h : Inv' m.n m.tasks m.pending)
    (hv1 : v.owner = (m.tasks i).owner) (hv2 : v.t = AsyncTask.step (m.tasks i).t e)
    (hv3 : v.cbPending = true → (m.tasks i).cbPending = true ∨ AsyncTask.isDone v.t = true) :
    Inv' m.n (updT m.tasks i v) m.pending := by
  obtain ⟨h1, h2, h3, h4⟩ := h
  refine ⟨?_, ?_, ?_, ?_⟩
  · intro j hj hl
    by_cases hji : j = i
    · subst hji; simp only [updT, if_true] at hl ⊢; rw [hv2] at hl; rw [hv1]; exact h1 j hj (liveT_step _ e hl)
    · simp only [updT, hji, if_false] at hl ⊢; exact h1 j hj hl
  · intro c j hp
    have := h2 c j hp
    refine ⟨this.1, ?_⟩
    simp only [updT]; split
    · rename_i hji; subst hji; rw [hv1]; exact this.2
    · exact this.2
  · intro j; simp only [updT]; split
    · rw [hv2]; exact AsyncTask.good_step (m.tasks i).t e (h3 i)
    · exact h3 j
  · intro j; simp only [updT]; split
    · intro hcb
      rcases hv3 hcb with hcb | hcb
      · rw [hv2]; exact isDone_step _ _ (h4 i hcb)
      · exact hcb
    · exact h4 j

theorem inv_doneCb_guarded (m : TM) (i : Nat) (h : Inv' m.n m.tasks m.pending) (hcb : (m.tasks i).cbPending = true) :
    Inv' m.n (updT m.tasks i { m.tasks i with cbPending := false })
      (if m.pending (m.tasks i).owner = some i then updP m.pending (m.tasks i).owner none else m.pending) := by
  obtain ⟨h1, h2, h3, h4⟩ := h
  have hdone := h4 i hcb
  have hT : ∀ j, ((updT m.tasks i { m.tasks i with cbPending := false }) j).t = (m.tasks j).t
      ∧ ((updT m.tasks i { m.tasks i with cbPending := false }) j).owner = (m.tasks j).owner := by
    intro j; simp only [updT]; split
    · rename_i hji; subst hji; exact ⟨rfl, rfl⟩
    · exact ⟨rfl, rfl⟩
  refine ⟨?_, ?_, ?_, ?_⟩
  · intro j hj hl
    rw [(hT j).1] at hl
    rw [(hT j).2]
    have hpj := h1 j hj hl
    have hji : j ≠ i := by
      intro e; subst e; simp [liveT, hdone] at hl
    split
    · rename_i hpi
      by_cases hc : (m.tasks j).owner = (m.tasks i).owner
      · rw [hc, hpi] at hpj; exact absurd (Option.some.inj hpj).symm hji
      · simp [updP, hc, hpj]
    · exact hpj
  · intro c j hp
    rw [(hT j).2]
    split at hp
    · by_cases hc : c = (m.tasks i).owner
      · simp [updP, hc] at hp
      · simp only [updP, hc, if_false] at hp; exact h2 c j hp
    · exact h2 c j hp
  · intro j; rw [(hT j).1]; exact h3 j
  · intro j; rw [(hT j).1]; simp only [updT]; split
    · simp
    · exact h4 j

theorem step_inv (m : TM) (e : Ev) (h : Inv m) : Inv (step true m e) := by
  rw [inv_iff] at h ⊢
  cases e with
  | register c d =>
    simp only [step]
    cases hb : nameBusy m c with
    | true => simpa using h
    | false => simpa using inv_register m c d h hb
  | cancelName c =>
    simp only [step]
    cases hp : m.pending c with
    | none => simpa using h
    | some i =>
      simp only []
      split
      · exact h
      · exact inv_cancel m c i h hp
  | loop i e =>
    simp only [step]
    split
    · exact h
    split
    · exact h
    · refine inv_loop m i e _ h rfl rfl ?_
      intro hcb
      simp only [Bool.or_eq_true, Bool.and_eq_true] at hcb
      rcases hcb with hcb | hcb
      · exact Or.inl hcb
      · exact Or.inr hcb.1
  | doneCb i =>
    simp only [step]
    split
    · exact h
    split
    · exact h
    · rename_i hcb
      have hcb' : (m.tasks i).cbPending = true := by simpa using hcb
      have := inv_doneCb_guarded m i h hcb'
      simp only [if_true]
      split
      · rename_i hpi; simpa [hpi] using this
      · rename_i hpi; simpa [hpi] using this

theorem run_inv (m : TM) (es : List Ev) (h : Inv m) : Inv (run true m es) := by
  induction es generalizing m with
  | nil => exact h
  | cons e es ih => exact ih _ (step_inv m e h)

theorem run_append (g : Bool) (m : TM) (a b : List Ev) : run g m (a ++ b) = run g (run g m a) b := by
  induction a generalizing m with
  | nil => rfl
  | cons e es ih => simp [run, ih]

theorem step_n_mono (g : Bool) (m : TM) (e : Ev) : m.n ≤ (step g m e).n := by
  cases e <;> simp only [step] <;> repeat' split
  all_goals first | exact Nat.le_refl _ | (dsimp only; omega)

theorem step_owner (g : Bool) (m : TM) (e : Ev) (i : Nat) (hi : i < m.n) :
    ((step g m e).tasks i).owner = (m.tasks i).owner := by
  cases e <;> simp only [step] <;> repeat' split
  all_goals first
    | rfl
    | (simp only [updT]; split <;> first | rfl | (rename_i h; subst h; first | rfl | omega))

/-! ### cancelling a name is effective until the name is registered again -/

def isRegister (c : Nat) : Ev → Bool
  | .register c' _ => c' == c
  | _ => false

/-- no Task registered under c can still enter the body -/
def Quiet (m : TM) (c : Nat) : Prop := ∀ i, i < m.n → (m.tasks i).owner = c → ¬ liveT (m.tasks i).t

theorem quiet_after_cancel (m : TM) (c : Nat) (h : Inv m) : Quiet (step true m (.cancelName c)) c := by
  have h' := (inv_iff _).mp (step_inv m (.cancelName c) h)
  intro i hi ho hl
  have hp := h'.liveReg i hi hl
  rw [ho] at hp
  -- after cancelName c the name is free, or still holds a finished task
  simp only [step] at hp hi hl ho
  cases hpc : m.pending c with
  | none => simp [hpc] at hp
  | some j =>
    simp only [hpc] at hp hi hl ho
    split at hp
    · rename_i hd
      rw [hpc] at hp
      have : i = j := (Option.some.inj hp).symm
      subst this
      simp only [hd, if_true] at hl
      simp [liveT, hd] at hl
    · simp [updP] at hp

theorem quiet_step (m : TM) (c : Nat) (e : Ev) (h : Inv m) (hq : Quiet m c) (hne : isRegister c e = false) :
    Quiet (step true m e) c
    ∧ (∀ i, i < m.n → (m.tasks i).owner = c → ((step true m e).tasks i).t.bodyRuns = (m.tasks i).t.bodyRuns)
    ∧ (∀ i, i < m.n → ((step true m e).tasks i).owner = (m.tasks i).owner)
    ∧ m.n ≤ (step true m e).n
    ∧ (∀ i, m.n ≤ i → i < (step true m e).n → ((step true m e).tasks i).owner ≠ c) := by
  have hg := ((inv_iff _).mp h).good
  cases e with
  | register c' d =>
    have hcc : c' ≠ c := by intro e; subst e; simp [isRegister] at hne
    simp only [step]
    cases hb : nameBusy m c' with
    | true => rw [if_pos rfl]; exact ⟨hq, fun _ _ _ => rfl, fun _ _ => rfl, Nat.le_refl _, fun i h1 h2 => by (try dsimp only at h2); omega⟩
    | false =>
      rw [if_neg (by simp)]
      refine ⟨?_, ?_, ?_, by (dsimp only; omega), ?_⟩
      · intro i hi ho hl
        dsimp only at hi ho hl
        by_cases hin : i = m.n
        · subst hin; simp [updT] at ho; exact hcc ho
        · simp only [updT, hin, if_false] at ho hl; exact hq i (by omega) ho hl
      · intro i hi _; have : i ≠ m.n := by omega
        simp [updT, this]
      · intro i hi; have : i ≠ m.n := by omega
        simp [updT, this]
      · intro i h1 h2; dsimp only at h2; have : i = m.n := by omega
        subst this; simp [updT]; exact hcc
  | cancelName c' =>
    simp only [step]
    cases hp : m.pending c' with
    | none => exact ⟨hq, fun _ _ _ => rfl, fun _ _ => rfl, Nat.le_refl _, fun i h1 h2 => by (try dsimp only at h2); omega⟩
    | some j =>
      simp only []
      split
      · exact ⟨hq, fun _ _ _ => rfl, fun _ _ => rfl, Nat.le_refl _, fun i h1 h2 => by (try dsimp only at h2); omega⟩
      · refine ⟨?_, ?_, ?_, Nat.le_refl _, fun i h1 h2 => by (try dsimp only at h2); omega⟩
        · intro i hi ho hl
          by_cases hij : i = j
          · subst hij; simp only [updT, if_true] at hl; exact liveT_cancel _ hl
          · simp only [updT, hij, if_false] at ho hl; exact hq i hi ho hl
        · intro i hi ho
          by_cases hij : i = j
          · subst hij; simp only [updT, if_true]
            exact not_live_no_body _ _ (hg i) (hq i hi ho)
          · simp [updT, hij]
        · intro i hi
          by_cases hij : i = j
          · subst hij; simp [updT]
          · simp [updT, hij]
  | loop j e =>
    simp only [step]
    split
    · exact ⟨hq, fun _ _ _ => rfl, fun _ _ => rfl, Nat.le_refl _, fun i h1 h2 => by (try dsimp only at h2); omega⟩
    split
    · exact ⟨hq, fun _ _ _ => rfl, fun _ _ => rfl, Nat.le_refl _, fun i h1 h2 => by (try dsimp only at h2); omega⟩
    · refine ⟨?_, ?_, ?_, Nat.le_refl _, fun i h1 h2 => by (try dsimp only at h2); omega⟩
      · intro i hi ho hl
        by_cases hij : i = j
        · subst hij; simp only [updT, if_true] at ho hl; exact hq i hi ho (liveT_step _ e hl)
        · simp only [updT, hij, if_false] at ho hl; exact hq i hi ho hl
      · intro i hi ho
        by_cases hij : i = j
        · subst hij; simp only [updT, if_true]
          exact not_live_no_body _ _ (hg i) (hq i hi ho)
        · simp [updT, hij]
      · intro i hi
        by_cases hij : i = j
        · subst hij; simp [updT]
        · simp [updT, hij]
  | doneCb j =>
    simp only [step]
    split
    · exact ⟨hq, fun _ _ _ => rfl, fun _ _ => rfl, Nat.le_refl _, fun i h1 h2 => by (try dsimp only at h2); omega⟩
    split
    · exact ⟨hq, fun _ _ _ => rfl, fun _ _ => rfl, Nat.le_refl _, fun i h1 h2 => by (try dsimp only at h2); omega⟩
    · have hT : ∀ i, ((updT m.tasks j { m.tasks j with cbPending := false }) i).t = (m.tasks i).t
          ∧ ((updT m.tasks j { m.tasks j with cbPending := false }) i).owner = (m.tasks i).owner := by
        intro i; simp only [updT]; split
        · rename_i hij; subst hij; exact ⟨rfl, rfl⟩
        · exact ⟨rfl, rfl⟩
      simp only [if_true]
      split <;>
        exact ⟨fun i hi ho hl => hq i hi ((hT i).2 ▸ ho) ((hT i).1 ▸ hl), fun i _ _ => by rw [(hT i).1],
               fun i _ => (hT i).2, Nat.le_refl _, fun i h1 h2 => by (try dsimp only at h2); omega⟩

end Ipv8.C10.TaskMgr
