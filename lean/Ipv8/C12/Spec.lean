/-
  C12 — the cache-free reference graph ("what the set of verified peers, their addresses and advertised services
  imply"): the same mutators as `Network`, but deciding everything from the membership set itself — no
  `verified_by_public_key_bin` index, no reverse_* caches — and the answer each query has to give, stated as
  membership conditions (relational where the API says "one of these peers").  Core Lean only.
-/
import Ipv8.C12.Model

namespace Ipv8.C12

def Op.isLoad : Op → Bool
  | .load _ => true
  | _ => false

/-- the Peer object an operation presents for verification (add_verified_peer directly, discover_address through its
    trailing add_verified_peer) -/
def Op.verifies : Op → Option Peer
  | .add p => some p
  | .disc p _ _ _ => some p
  | _ => none

namespace Graph

/-- in-place `addresses.update` on the stored peer of key `k` -/
def updateStored (g : Graph) (k : Key) (new : List (Nat × Addr)) : Graph :=
  { g with verified := g.verified.map
            (fun q => if q.key = k then { q with addrs := updateAddrs q.addrs new } else q) }

def addVerified (g : Graph) (p : Peer) : Graph :=
  if p.key ∈ g.blMid then g
  else if p.key ∈ g.keys then g.updateStored p.key p.addrs
  else if p.addrList.any (fun a => g.knownAddr a) then { g with verified := g.verified ++ [p] }
  else if p.addrList.all (fun a => !decide (a ∈ g.blAddr)) then
    { g with allAddr := addMissing g.allAddr p.addrList, verified := g.verified ++ [p] }
  else g

def discoverAddress (g : Graph) (p : Peer) (a : Addr) (svc : Option Svc) (newStyle : Bool) : Graph :=
  if a ∈ g.blAddr then g.addVerified p
  else
    let reassign : Bool := needsIntro g.allAddr (fun k => decide (k ∈ g.keys)) a
    let g1 : Graph := if reassign then { g with allAddr := aset a ⟨some p.key, svc, newStyle⟩ g.allAddr } else g
    g1.addVerified p

def discoverServices (g : Graph) (p : Peer) (svcs : List Svc) : Graph :=
  { g with services := aset p.key (unionSvcs (g.servicesOf p.key) svcs) g.services }

def removePeer (g : Graph) (p : Peer) : Graph :=
  { g with allAddr := g.allAddr.filter (fun e => !p.hasAddr e.1),
           verified := g.verified.filter (fun q => !decide (q.key = p.key)),
           services := adel p.key g.services }

def removeByAddress (g : Graph) (a : Addr) : Graph :=
  let gone : List Key := (g.verified.filter (fun q => q.hasAddr a)).map (·.key)
  { g with allAddr := adel a g.allAddr,
           verified := g.verified.filter (fun q => !q.hasAddr a),
           services := g.services.filter (fun e => !decide (e.1 ∈ gone)) }

def loadSnapshot (g : Graph) (d : Bytes) : Graph :=
  { g with allAddr := loadAddrs g.allAddr (decodeAll d.length d) }

/-- one history step on the reference graph: queries do nothing -/
def step (g : Graph) : Op → Graph
  | .add p => g.addVerified p
  | .disc p a svc ns => g.discoverAddress p a svc ns
  | .svcs p l => g.discoverServices p l
  | .rmPeer p => g.removePeer p
  | .rmAddr a => g.removeByAddress a
  | .blAddr a => { g with blAddr := g.blAddr ++ [a] }
  | .blMid k => { g with blMid := g.blMid ++ [k] }
  | .load d => g.loadSnapshot d
  | .setAddr k slot a => g.updateStored k [(slot, a)]
  | _ => g

def run (g : Graph) (ops : List Op) : Graph := ops.foldl step g

/-! ### what each lookup has to answer -/

/-- lookup by public key: the verified peer with that key, if there is one -/
def AnsKey (g : Graph) (k : Key) (r : Option Peer) : Prop :=
  match r with
  | some p => p ∈ g.verified ∧ p.key = k
  | none => ∀ p ∈ g.verified, p.key ≠ k

/-- lookup by address: one of the verified peers using the address; nobody only if there is none -/
def AnsAddr (g : Graph) (a : Addr) (r : Option Peer) : Prop :=
  match r with
  | some p => p ∈ g.verified ∧ a ∈ p.addrList
  | none => ∀ p ∈ g.verified, a ∉ p.addrList

/-- peers per service: exactly the verified peers that advertised it, each once -/
def AnsService (g : Graph) (sv : Svc) (r : List Peer) : Prop :=
  r.Nodup ∧ ∀ p, p ∈ r ↔ p ∈ g.verified ∧ sv ∈ g.servicesOf p.key

/-- walkable addresses: known addresses not used by a verified peer (of the service); with a service also: reached
    through that service or introduced by a peer advertising it, and not new-style when old-style is requested -/
def AnsWalk (g : Graph) (svc : Option Svc) (oldStyle : Bool) (r : List Addr) : Prop :=
  r.Nodup ∧
  match truthy svc with
  | none => ∀ a, a ∈ r ↔ a ∈ akeys g.allAddr ∧ ∀ p ∈ g.verified, a ∉ p.addrList
  | some sv => ∀ a, a ∈ r ↔
      (∀ p ∈ g.verified, sv ∈ g.servicesOf p.key → a ∉ p.addrList) ∧
      ∃ w, (a, w) ∈ g.allAddr ∧ ¬(oldStyle = true ∧ w.newStyle = true) ∧
        ((∃ k, w.intro = some k ∧ sv ∈ g.servicesOf k) ∨ w.svc = some sv)

/-- introductions: exactly the known addresses whose introducer is that key -/
def AnsIntro (g : Graph) (k : Key) (r : List Addr) : Prop :=
  r.Nodup ∧ ∀ a, a ∈ r ↔ ∃ w, (a, w) ∈ g.allAddr ∧ w.intro = some k

end Graph
end Ipv8.C12
