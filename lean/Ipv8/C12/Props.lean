/-
  C12 — property theorems: the peer graph's lookups always agree with its membership.
  Every `theorem` in this file is an obligation of the check; helper lemmas live in Lemmas.lean.

  Setting.  `Net` (Model.lean) mirrors `Network` with its index `verified_by_public_key_bin` and the three LRU caches;
  `Graph` (the first field of `Net`) is what is authoritative: `_all_addresses`, `verified_peers`, `services_per_peer`
  and the blacklists.  `Graph.step` (Spec.lean) is the same API on a graph WITHOUT index and caches, and
  `Graph.AnsKey/AnsAddr/AnsService/AnsWalk/AnsIntro` say what each lookup has to return, as membership conditions on
  the graph.  Histories are arbitrary lists of `Op` (mutators and queries interleaved, any cache caps): no bound on
  length, number of peers, addresses or services.
-/
import Ipv8.C12.Lemmas

namespace Ipv8.C12

/-- CacheCoherent holds after every history: unique keys, index = membership, cached lists complete. -/
theorem cache_coherent (a b c : Nat) (ops : List Op) : Coherent (run (init a b c) ops) :=
  coherent_run_of (coherent_init a b c) ops

/-- Refinement: after any history (queries with their cache side effects interleaved, any eviction pattern) the
    authoritative state is the one the cache-free reference graph reaches on the same history, where queries are
    no-ops. -/
theorem refines (a b c : Nat) (ops : List Op) : (run (init a b c) ops).g = Graph.run {} ops :=
  run_g (coherent_init a b c) ops

/-- Asking never changes the graph: any sequence of queries leaves verified peers, addresses, services untouched
    (from ANY state, coherent or not). -/
theorem queries_pure (s : Net) (qs : List Op) (hq : ∀ op ∈ qs, op.isQuery = true) : (run s qs).g = s.g :=
  run_queries_g s qs hq

/-- Every way of asking gives what the membership implies: after any history, each lookup of the cached
    implementation returns an answer that is correct for the reference graph of that history.  Together with
    `refines`/`queries_pure` (further queries do not move the reference graph) asking again gives a correct answer
    for the same graph. -/
theorem lookups_agree (a b c : Nat) (ops : List Op) :
    let s := run (init a b c) ops
    let g := Graph.run {} ops
    (∀ k, g.AnsKey k (s.getByKey k)) ∧
    (∀ x hint, g.AnsAddr x (s.getByAddr x hint).1) ∧
    (∀ sv, g.AnsService sv (s.peersForService sv).1) ∧
    (∀ svc old, g.AnsWalk svc old (s.walkable svc old).1) ∧
    (∀ k, g.AnsIntro k (s.introsFrom k).1) := by
  intro s g
  have hc : Coherent s := cache_coherent a b c ops
  have hg : s.g = g := refines a b c ops
  rw [← hg]
  exact ⟨fun k => getByKey_ok hc k, fun x hint => getByAddr_ok hc x hint, fun sv => peersForService_ok hc sv,
    fun svc old => walkable_ok hc svc old, fun k => introsFrom_ok hc k⟩

/-- A peer removed with remove_peer is returned by no lookup — directly afterwards and after any further queries
    (warm caches included). -/
theorem removed_is_gone (a b c : Nat) (ops : List Op) (p : Peer) (qs : List Op)
    (hq : ∀ op ∈ qs, op.isQuery = true) :
    let s := run (init a b c) (ops ++ [Op.rmPeer p] ++ qs)
    s.getByKey p.key = none ∧
    (∀ x hint q, (s.getByAddr x hint).1 = some q → q.key ≠ p.key) ∧
    (∀ sv, ∀ q ∈ (s.peersForService sv).1, q.key ≠ p.key) := by
  intro s
  have hc : Coherent s := cache_coherent a b c _
  apply no_lookup_returns hc
  have h1 : s.g = (run (init a b c) (ops ++ [Op.rmPeer p])).g := by
    show (run _ (ops ++ [Op.rmPeer p] ++ qs)).g = _
    rw [run_append _ (ops ++ [Op.rmPeer p]) qs]; exact run_queries_g _ qs hq
  rw [h1, run_append]
  exact mem_keys_removePeer _ p

/-- remove_by_address removes every verified peer that used the address, from every lookup. -/
theorem removed_by_address_is_gone (a b c : Nat) (ops : List Op) (x : Addr) (qs : List Op)
    (hq : ∀ op ∈ qs, op.isQuery = true) (p : Peer)
    (hp : p ∈ (run (init a b c) ops).g.verified) (hx : x ∈ p.addrList) :
    let s := run (init a b c) (ops ++ [Op.rmAddr x] ++ qs)
    s.getByKey p.key = none ∧
    (∀ y hint q, (s.getByAddr y hint).1 = some q → q.key ≠ p.key) ∧
    (∀ sv, ∀ q ∈ (s.peersForService sv).1, q.key ≠ p.key) := by
  intro s
  have hc : Coherent s := cache_coherent a b c _
  apply no_lookup_returns hc
  have h1 : s.g = (run (init a b c) (ops ++ [Op.rmAddr x])).g := by
    show (run _ (ops ++ [Op.rmAddr x] ++ qs)).g = _
    rw [run_append _ (ops ++ [Op.rmAddr x]) qs]; exact run_queries_g _ qs hq
  rw [h1, run_append]
  show p.key ∉ (step (run (init a b c) ops) (Op.rmAddr x)).g.keys
  rw [step_g (cache_coherent a b c ops)]
  exact mem_keys_removeByAddress _ x p hp hx (cache_coherent a b c ops).keysNodup

/-- … and can be added again: after the removal (and any queries), add_verified_peer with the same key makes the
    lookup by key return exactly the new peer, provided neither its mid nor its addresses are blacklisted. -/
theorem removed_can_be_added_again (a b c : Nat) (ops : List Op) (p p' : Peer) (qs : List Op)
    (hq : ∀ op ∈ qs, op.isQuery = true) (hkey : p'.key = p.key) :
    let s := run (init a b c) (ops ++ [Op.rmPeer p] ++ qs)
    p'.key ∉ s.g.blMid → (∀ x ∈ p'.addrList, x ∉ s.g.blAddr) →
    (step s (Op.add p')).getByKey p.key = some p' := by
  intro s hm hb
  have hc : Coherent s := cache_coherent a b c _
  have hgone : p'.key ∉ s.g.keys := by
    have h1 : s.g = (run (init a b c) (ops ++ [Op.rmPeer p])).g := by
      show (run _ (ops ++ [Op.rmPeer p] ++ qs)).g = _
      rw [run_append _ (ops ++ [Op.rmPeer p]) qs]; exact run_queries_g _ qs hq
    rw [h1, run_append, hkey]
    exact mem_keys_removePeer _ p
  have hc' : Coherent (step s (Op.add p')) := coherent_step hc _
  have hmem : p' ∈ (step s (Op.add p')).g.verified := by
    rw [step_g hc]; exact addVerified_mem p' hm hgone hb
  rw [← hkey]
  exact getByKey_of_mem hc' hmem

/-- The same after remove_by_address (the path on which the unchanged tree left the key index behind, so that the peer
    could never be added again): any verified peer that used the address can be re-added under its key. -/
theorem removed_by_address_can_be_added_again (a b c : Nat) (ops : List Op) (x : Addr) (p p' : Peer) (qs : List Op)
    (hq : ∀ op ∈ qs, op.isQuery = true) (hkey : p'.key = p.key)
    (hp : p ∈ (run (init a b c) ops).g.verified) (hx : x ∈ p.addrList) :
    let s := run (init a b c) (ops ++ [Op.rmAddr x] ++ qs)
    p'.key ∉ s.g.blMid → (∀ y ∈ p'.addrList, y ∉ s.g.blAddr) →
    (step s (Op.add p')).getByKey p.key = some p' := by
  intro s hm hb
  have hc : Coherent s := cache_coherent a b c _
  have hgone : p'.key ∉ s.g.keys := by
    have h1 : s.g = (run (init a b c) (ops ++ [Op.rmAddr x])).g := by
      show (run _ (ops ++ [Op.rmAddr x] ++ qs)).g = _
      rw [run_append _ (ops ++ [Op.rmAddr x]) qs]; exact run_queries_g _ qs hq
    rw [h1, run_append, hkey]
    show p.key ∉ (step (run (init a b c) ops) (Op.rmAddr x)).g.keys
    rw [step_g (cache_coherent a b c ops)]
    exact mem_keys_removeByAddress _ x p hp hx (cache_coherent a b c ops).keysNodup
  have hc' : Coherent (step s (Op.add p')) := coherent_step hc _
  have hmem : p' ∈ (step s (Op.add p')).g.verified := by
    rw [step_g hc]; exact addVerified_mem p' hm hgone hb
  rw [← hkey]
  exact getByKey_of_mem hc' hmem

/-- Blacklisted identities never become verified: from any reachable state in which the mid is blacklisted and not
    (yet) verified, no continuation makes it verified or lets the by-key lookup return it. -/
theorem blacklisted_never_verified (a b c : Nat) (pre post : List Op) (k : Key) :
    let s := run (init a b c) pre
    k ∈ s.g.blMid → k ∉ s.g.keys →
    k ∉ (run s post).g.keys ∧ (run s post).getByKey k = none := by
  intro s hb hk
  have hc : Coherent s := cache_coherent a b c pre
  have hc' : Coherent (run s post) := coherent_run_of hc post
  have : k ∉ (run s post).g.keys := by
    rw [run_g hc post]; exact run_blacklisted s.g post k hb hk
  exact ⟨this, (no_lookup_returns hc' this).1⟩

/-- A blacklisted address that is not known yet never becomes known — hence is never walkable — through
    discover_address / add_verified_peer or any other operation except load_snapshot (which by design loads whatever
    the snapshot holds). -/
theorem blacklisted_address_never_walkable (a b c : Nat) (pre post : List Op) (x : Addr) :
    let s := run (init a b c) pre
    x ∈ s.g.blAddr → x ∉ akeys s.g.allAddr → (∀ op ∈ post, op.isLoad = false) →
    x ∉ akeys (run s post).g.allAddr ∧ ∀ svc old, x ∉ ((run s post).walkable svc old).1 := by
  intro s hb hk hl
  have hc : Coherent s := cache_coherent a b c pre
  have hc' : Coherent (run s post) := coherent_run_of hc post
  have hx : x ∉ akeys (run s post).g.allAddr := by
    rw [run_g hc post]; exact run_blAddr s.g post x hl hb hk
  refine ⟨hx, fun svc old hmem => hx ?_⟩
  have hw := (walkable_ok hc' svc old).2
  cases htr : truthy svc with
  | none =>
    rw [htr] at hw
    exact ((hw x).1 hmem).1
  | some sv =>
    rw [htr] at hw
    obtain ⟨_, w, hw', _⟩ := (hw x).1 hmem
    exact mem_akeys_iff.2 ⟨w, hw'⟩

/-- a fresh Network whose blacklists have already been filled (bootstrap addresses, own mid) -/
def fresh (bl : List Addr) (bm : List Key) (a b c : Nat) : Net :=
  { init a b c with g := { blAddr := bl, blMid := bm } }

/-- Snapshot round trip: loading `snapshot()` of any graph into a fresh Network — whatever blacklists that Network
    already carries — makes exactly the snapshot's addresses walkable, and these are exactly the preferred addresses
    (Peer.INTERFACE_ORDER, generated) of ALL verified peers other than 0.0.0.0:0, whether or not such an address is
    registered in `_all_addresses` — for well-formed address values (`WFAddr`: what Address.pack encodes without loss).
    Judgement recorded here: "exactly those addresses" is what the code does *because* load_snapshot ignores the address
    blacklist; a blacklist filter in load_snapshot would falsify this statement for a snapshot holding a blacklisted
    address. -/
theorem snapshot_roundtrip (g : Graph) (hwf : ∀ x ∈ g.snapshotAddrs, WFAddr x) (bl : List Addr) (bm : List Key)
    (a b c : Nat) (x : Addr) :
    (x ∈ (((fresh bl bm a b c).loadSnapshot g.snapshot).walkable none false).1 ↔ x ∈ g.snapshotAddrs) ∧
    (x ∈ g.snapshotAddrs ↔ ∃ p ∈ g.verified, p.preferred = some x ∧ x ≠ zeroAddr) := by
  refine ⟨?_, mem_snapshotAddrs g x⟩
  have hd : decodeAll g.snapshot.length g.snapshot = g.snapshotAddrs :=
    decodeAll_encode g.snapshotAddrs hwf _ (Nat.le_refl _)
  have h1 : x ∈ (((fresh bl bm a b c).loadSnapshot g.snapshot).walkable none false).1 ↔
      x ∈ akeys (loadAddrs [] g.snapshotAddrs) := by
    simp [Net.walkable, truthy, Net.loadSnapshot, hd, fresh, init]
  rw [h1, mem_akeys_loadAddrs]
  simp [akeys]

/-- "The introducer offers the service" is decided from the services the introducer ADVERTISED, whether or not the
    introducer is (still, or ever was) a verified peer: after any history, an address whose introducer `k` advertised `sv`
    is walkable for `sv` as soon as no verified peer of that service uses it and the old-style restriction does not exclude
    it — there is no hypothesis `k ∈ keys`.  (An address handed out by a bootstrap server or by a blacklisted identity
    stays reachable for the services that identity announced.) -/
theorem introducer_services_count (a b c : Nat) (ops : List Op) (x : Addr) (w : WAddr) (k : Key) (sv : Svc) (old : Bool) :
    let s := run (init a b c) ops
    sv ≠ 0 → (x, w) ∈ s.g.allAddr → w.intro = some k → sv ∈ s.g.servicesOf k →
    ¬(old = true ∧ w.newStyle = true) → (∀ p ∈ s.g.verified, sv ∈ s.g.servicesOf p.key → x ∉ p.addrList) →
    x ∈ (s.walkable (some sv) old).1 := by
  intro s hsv hmem hintro hserv hold hfree
  have hw := (walkable_ok (cache_coherent a b c ops) (some sv) old).2
  rw [truthy_some hsv] at hw
  exact (hw x).2 ⟨hfree, w, hmem, hold, Or.inl ⟨k, hintro, hserv⟩⟩

/-- The other side of the snapshot clause, stated so that the reading chosen above is explicit: for every (non-empty)
    service id the addresses a snapshot load brought in are NOT returned by `get_walkable_addresses(service_id)` — whatever
    bytes were loaded.  load_snapshot stores `WalkableAddress(b"", None, False)`, i.e. no introducer and no service, and
    the per-service filter keeps only addresses with a matching service or introducer.  `Community.get_walkable_addresses`
    (the production caller) passes its community id, so a community never walks to a loaded address.  The property text
    ("makes exactly those addresses walkable") is read for the service-less query, `snapshot_roundtrip`; under the
    per-service reading the clause is false for the code and this theorem is its refutation. -/
theorem snapshot_not_walkable_for_any_service (d : Bytes) (bl : List Addr) (bm : List Key) (a b c : Nat) (sv : Svc)
    (hsv : sv ≠ 0) (old : Bool) :
    (((fresh bl bm a b c).loadSnapshot d).walkable (some sv) old).1 = [] := by
  unfold Net.walkable
  rw [truthy_some hsv]
  simp only
  rw [List.filter_eq_nil_iff]
  intro x _
  have : ∀ w, aget x ((fresh bl bm a b c).loadSnapshot d).g.allAddr = some w → w = ⟨none, none, false⟩ := by
    intro w hw
    rcases loadAddrs_entries [] _ x w (aget_some_mem hw) with h | h
    · cases h
    · exact h
  unfold Graph.walkFilter
  cases hx : aget x ((fresh bl bm a b c).loadSnapshot d).g.allAddr with
  | none => simp
  | some w =>
    rw [this w hx]
    simp

/-- The docstring of `verified_peers` says "Peer.address must be in _all_addresses".  The code does not maintain that:
    after an address update of a known key (or after remove_peer of another identity on the same address) a verified
    peer's address is NOT a known address.  Proved with a reachable witness; the lookups, removals and the snapshot above
    are proved without assuming it. -/
theorem verified_address_need_not_be_known :
    ∃ ops : List Op, ∃ p ∈ (run (init 1 1 1) ops).g.verified, ∃ x,
      p.preferred = some x ∧ x ∉ akeys (run (init 1 1 1) ops).g.allAddr :=
  ⟨[.add { key := 0, addrs := [(0, ⟨4, [10, 0, 0, 1], 4001⟩)] }, .add { key := 0, addrs := [(0, ⟨4, [10, 0, 0, 2], 4002⟩)] }],
   { key := 0, addrs := [(0, ⟨4, [10, 0, 0, 2], 4002⟩)] }, by decide, ⟨4, [10, 0, 0, 2], 4002⟩, by decide⟩

/-- What does hold: at the moment add_verified_peer makes a key verified, at least one of the addresses the peer came
    with is a known address. -/
theorem newly_verified_has_known_address (a b c : Nat) (ops : List Op) (p : Peer) :
    let s := run (init a b c) ops
    let s' := step s (Op.add p)
    p.key ∉ s.g.keys → p.key ∈ s'.g.keys → p.addrList ≠ [] → ∃ x ∈ p.addrList, x ∈ akeys s'.g.allAddr := by
  intro s s' h1 h2 h3
  have hc : Coherent s := cache_coherent a b c ops
  have hg : s'.g = s.g.addVerified p := step_g hc (Op.add p)
  rw [hg] at h2 ⊢
  exact addVerified_known_address s.g p h1 h2 h3

/-
  FULL STATEMENT (address blacklist, strong reading): "an identity that presents itself from a blacklisted address never
  becomes verified".  It is FALSE for the code (and the model mirrors the code) — see `address_blacklist_is_best_effort`
  below: the `blacklist` is only consulted (a) by discover_address for the introduced address and (b) by
  add_verified_peer when none of the peer's addresses is known yet.  What is proved is the part that holds:
-/
/-- PARTIAL.  From any reachable state in which `x` is blacklisted and not a known address: a key that is only ever
    presented (add_verified_peer / discover_address) with the single address `x` never becomes verified, as long as no
    load_snapshot happens.  Missing w.r.t. the full statement: peers presenting several addresses, addresses that were
    known before they were blacklisted, load_snapshot, address updates of already verified keys. -/
theorem address_blacklisted_identity_never_verified_partial (a b c : Nat) (pre post : List Op) (x : Addr) (k : Key) :
    let s := run (init a b c) pre
    x ∈ s.g.blAddr → x ∉ akeys s.g.allAddr → k ∉ s.g.keys →
    (∀ op ∈ post, op.isLoad = false) →
    (∀ op ∈ post, ∀ p, op.verifies = some p → p.key = k → p.addrList ≠ [] ∧ ∀ y ∈ p.addrList, y = x) →
    k ∉ (run s post).g.keys ∧ (run s post).getByKey k = none := by
  intro s hb hk hkey hl hp
  have hc : Coherent s := cache_coherent a b c pre
  have hc' : Coherent (run s post) := coherent_run_of hc post
  have : k ∉ (run s post).g.keys := by
    rw [run_g hc post]; exact run_only_blacklisted s.g post x k hl hb hk hkey hp
  exact ⟨this, (no_lookup_returns hc' this).1⟩

/-- The three caches never exceed their caps, whatever the history. -/
theorem lru_bounded (a b c : Nat) (ops : List Op) : Bounded (run (init a b c) ops) :=
  bounded_run ⟨Nat.zero_le _, Nat.zero_le _, Nat.zero_le _⟩ ops

/-! ### non-vacuity: concrete, non-trivial instances -/

def a1 : Addr := ⟨4, [10, 0, 0, 1], 4001⟩
def a2 : Addr := ⟨4, [10, 0, 0, 2], 4002⟩
def a3 : Addr := ⟨4, [10, 0, 0, 3], 4003⟩
def p0 : Peer := { key := 0, addrs := [(0, a1)] }
def p0' : Peer := { key := 0, addrs := [(0, a2)] }
def p1 : Peer := { key := 1, addrs := [(0, a2)] }

/-- NEGATION of the strong reading of the address blacklist, three reachable witnesses: a peer on a blacklisted address
    becomes verified (1) when the address came in through load_snapshot, (2) when it presents a second, known address,
    (3) when the address was known before it was blacklisted. -/
theorem address_blacklist_is_best_effort :
    (5 ∈ (run (init 2 2 2) [.blAddr a3, .load (encodeAddr a3), .add { key := 5, addrs := [(0, a3)] }]).g.keys) ∧
    (5 ∈ (run (init 2 2 2) [.blAddr a3, .add p1, .add { key := 5, addrs := [(0, a2), (1, a3)] }]).g.keys) ∧
    (5 ∈ (run (init 2 2 2) [.disc p1 a3 none false, .blAddr a3, .add { key := 5, addrs := [(0, a3)] }]).g.keys) := by decide

/-- hypotheses of `address_blacklisted_identity_never_verified_partial` hold in a reachable state, and the identity is
    indeed refused there while another one is accepted -/
example : let s := run (init 2 2 2) [.blAddr a3, .add p1, .add { key := 5, addrs := [(0, a3)] }]
    a3 ∈ s.g.blAddr ∧ a3 ∉ akeys s.g.allAddr ∧ 5 ∉ s.g.keys ∧ 1 ∈ s.g.keys := by decide

/-- `snapshot_roundtrip` with a blacklist that contains a snapshot address: it is walkable after the load -/
example : (((fresh [a1] [] 2 2 2).loadSnapshot (run (init 2 2 2) [.add p0]).g.snapshot).walkable none false).1 = [a1] := by
  decide

/-- object identity matters: after remove + re-add under another address the address cache still points at the OLD object
    (whose content still has the old address), and the lookup does not return it -/
example : let s := run (init 2 2 2) [.add p0, .qAddr a1 none, .rmPeer p0, .add p0']
    s.deref 0 0 = some p0 ∧ aget a1 s.ipCache = some (0, 0) ∧ aget 0 s.byKey = some 1 ∧ (s.getByAddr a1 none).1 = none := by
  decide

/-- in-place update of the stored Peer (lazy_wrapper's `peer.add_address(source_address)`): the cached old address stops
    resolving, the new one resolves, the snapshot follows -/
example : let s := run (init 2 2 2) [.add p0, .qAddr a1 none, .setAddr 0 0 a2]
    (s.getByAddr a1 none).1 = none ∧ ((s.getByAddr a2 none).1.map (·.key)) = some 0 ∧ s.g.snapshotAddrs = [a2] := by decide

/-- no duplicates: the same introducer introduces the same address again after having been removed -/
example : ((run (init 2 2 2) [.disc p0 a3 (some 1) false, .qIntro 0, .rmPeer p0, .disc p0 a3 (some 1) false]).introsFrom 0).1
    = [a3] := by decide

/-- a peer constructed with an address of a class outside INTERFACE_ORDER (slot 4 = DomainAddress) keeps it as preferred
    address; built with add_address only it has none -/
example : (run (init 2 2 2) [.add { key := 0, addrs := [(4, a1)], ctor := some a1 }]).g.snapshotAddrs = [a1] ∧
    (run (init 2 2 2) [.add { key := 0, addrs := [(4, a1)] }]).g.snapshotAddrs = [] := by decide

/-- the empty service id means "no service" -/
example : ((run (init 2 2 2) [.add p0, .disc p0 a3 (some 0) false]).walkable (some 0) false).1 = [a3] := by decide

/-- a host name in valid multi-byte UTF-8 is accepted by the decoder, an overlong form is not -/
example : utf8Valid [0x6e, 0xc3, 0xb6, 0x64] = true ∧ utf8Valid [0xc0, 0xaf] = false ∧ utf8Valid [0xed, 0xa0, 0x80] = false := by
  decide

/-- the stale-cache shape (query, removal, query) on tiny caches: the lookup by address is `none` after the removal -/
example : ((run (init 1 1 1) [.add p0, .qAddr a1 none, .rmPeer p0]).getByAddr a1 none).1 = none := by decide

/-- … while before the removal the cached lookup did return the peer -/
example : ((run (init 1 1 1) [.add p0, .qAddr a1 none]).getByAddr a1 none).1 = some p0 := by decide

/-- address update: the old address no longer resolves, the new one does -/
example : ((run (init 1 1 1) [.add p0, .qAddr a1 none, .add p0']).getByAddr a1 none).1 = none ∧
    (((run (init 1 1 1) [.add p0, .qAddr a1 none, .add p0']).getByAddr a2 none).1.map (·.key)) = some 0 := by decide

/-- hypotheses of `removed_can_be_added_again` are satisfiable, and the conclusion is not vacuous -/
example : (step (run (init 2 2 2) ([.add p0, .qKey 0] ++ [.rmPeer p0] ++ [.qAddr a1 none])) (.add p0')).getByKey 0
    = some p0' := by decide

/-- hypotheses of `removed_by_address_is_gone` / `removed_by_address_can_be_added_again` are satisfiable (a verified peer
    uses the address), the removal really removes, and the re-add really succeeds -/
example : p0 ∈ (run (init 2 2 2) [.add p0, .qKey 0]).g.verified ∧ a1 ∈ p0.addrList ∧
    (run (init 2 2 2) ([.add p0, .qKey 0] ++ [.rmAddr a1] ++ [.qAddr a1 none])).getByKey 0 = none ∧
    (step (run (init 2 2 2) ([.add p0, .qKey 0] ++ [.rmAddr a1] ++ [.qAddr a1 none])) (.add p0')).getByKey 0 = some p0' := by
  decide

/-- `introducer_services_count` at work: an identity that was never verified (here: its mid is blacklisted) still lends its
    advertised services to the addresses it introduced, so `get_walkable_addresses(service)` is non-empty although no peer
    is verified at all (judged the intended meaning, design.d/C12.md) -/
example : let s := run (init 2 2 2) [.blMid 0, .svcs p0 [7], .disc p0 a3 none false]
    s.g.verified = [] ∧ (s.walkable (some 7) false).1 = [a3] := by decide

/-- hypotheses of `blacklisted_never_verified` hold in a reachable state; other peers still get verified there -/
example : let s := run (init 2 2 2) [.blMid 0, .add p1]
    0 ∈ s.g.blMid ∧ 0 ∉ s.g.keys ∧ 1 ∈ s.g.keys := by decide

/-- hypotheses of `blacklisted_address_never_walkable` hold in a reachable state, and discover_address is then a no-op
    for that address while the introducing peer is still verified -/
example : let s := run (init 2 2 2) [.blAddr a3, .disc p0 a3 (some 7) false]
    a3 ∈ s.g.blAddr ∧ a3 ∉ akeys s.g.allAddr ∧ 0 ∈ s.g.keys := by decide

/-- eviction happens in the model: with cap 1 the second cached address pushes the first one out -/
example : (run (init 1 1 1) [.add p0, .add p1, .qAddr a1 none, .qAddr a2 none]).ipCache = [(a2, (1, 1))] := by decide

/-- a service cache that was filled before the peer was verified is dropped when the peer becomes verified -/
example : ((run (init 2 2 2) [.svcs p0 [7], .qSvc 7, .add p0]).peersForService 7).1 = [p0] := by decide

/-- snapshot: well-formed addresses exist and the snapshot of a non-empty graph is non-empty -/
example : WFAddr a1 := Or.inl ⟨rfl, rfl, by decide⟩
example : (run (init 2 2 2) [.add p0, .add p1]).g.snapshotAddrs = [a1, a2] := by decide

end Ipv8.C12
