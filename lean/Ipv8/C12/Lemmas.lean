/-
  C12 — helper lemmas: association lists, the coherence invariant and its preservation by every step,
  answer correctness of each query under the invariant, codec round trip.
-/
import Ipv8.C12.Spec
import Mathlib.Data.List.Nodup

namespace Ipv8.C12

/-! ### association lists -/
section alist
variable {α β : Type} [DecidableEq α]

@[simp] theorem aget_nil (k : α) : aget k ([] : List (α × β)) = none := rfl

theorem aget_cons (k k' : α) (v : β) (t : List (α × β)) :
    aget k ((k', v) :: t) = if k' = k then some v else aget k t := rfl

theorem aget_some_mem {k : α} {v : β} {l : List (α × β)} (h : aget k l = some v) : (k, v) ∈ l := by
  induction l with
  | nil => simp at h
  | cons e t ih =>
    obtain ⟨k', v'⟩ := e
    rw [aget_cons] at h
    split at h
    · simp_all
    · exact List.mem_cons_of_mem _ (ih h)

theorem aget_isSome_iff {k : α} {l : List (α × β)} : (aget k l).isSome = true ↔ k ∈ akeys l := by
  induction l with
  | nil => simp [akeys]
  | cons e t ih =>
    obtain ⟨k', v'⟩ := e
    rw [aget_cons]
    by_cases h : k' = k
    · simp [h, akeys]
    · simp only [h, if_false, ih, akeys, List.map_cons, List.mem_cons]
      constructor
      · intro h'; exact Or.inr h'
      · rintro (h' | h')
        · exact absurd h'.symm h
        · exact h'

theorem aget_none_iff {k : α} {l : List (α × β)} : aget k l = none ↔ k ∉ akeys l := by
  rw [← aget_isSome_iff]; cases aget k l <;> simp

theorem mem_aget_of_nodup {k : α} {v : β} {l : List (α × β)} (hn : (akeys l).Nodup) (h : (k, v) ∈ l) :
    aget k l = some v := by
  induction l with
  | nil => simp at h
  | cons e t ih =>
    obtain ⟨k', v'⟩ := e
    simp only [akeys, List.map_cons, List.nodup_cons] at hn
    rw [aget_cons]
    rcases List.mem_cons.1 h with h | h
    · simp only [Prod.mk.injEq] at h; simp [h.1, h.2]
    · have : k' ≠ k := by
        rintro rfl
        exact hn.1 (List.mem_map.2 ⟨(k', v), h, rfl⟩)
      simp only [this, if_false]
      exact ih hn.2 h

theorem aget_aset_self (k : α) (v : β) (l : List (α × β)) : aget k (aset k v l) = some v := by
  induction l with
  | nil => simp [aset, aget_cons]
  | cons e t ih =>
    obtain ⟨k', v'⟩ := e
    by_cases h : k' = k <;> simp [aset, aget_cons, h, ih]

theorem aget_aset_ne {k k' : α} (h : k' ≠ k) (v : β) (l : List (α × β)) : aget k' (aset k v l) = aget k' l := by
  induction l with
  | nil => simp [aset, aget_cons, h.symm]
  | cons e t ih =>
    obtain ⟨k'', v''⟩ := e
    by_cases h2 : k'' = k
    · subst h2; simp [aset, aget_cons, h.symm]
    · by_cases h3 : k'' = k'
      · subst h3; simp [aset, aget_cons, h2]
      · simp [aset, aget_cons, h2, h3, ih]

theorem mem_aset {e : α × β} {k : α} {v : β} {l : List (α × β)} (h : e ∈ aset k v l) : e ∈ l ∨ e = (k, v) := by
  induction l with
  | nil => simp [aset] at h; exact Or.inr h
  | cons x t ih =>
    obtain ⟨k', v'⟩ := x
    by_cases hk : k' = k
    · simp only [aset, hk, if_true, List.mem_cons] at h
      rcases h with h | h
      · exact Or.inr h
      · exact Or.inl (List.mem_cons_of_mem _ h)
    · simp only [aset, hk, if_false, List.mem_cons] at h
      rcases h with h | h
      · exact Or.inl (h ▸ List.mem_cons_self ..)
      · rcases ih h with h | h
        · exact Or.inl (List.mem_cons_of_mem _ h)
        · exact Or.inr h

theorem akeys_aset (k : α) (v : β) (l : List (α × β)) :
    akeys (aset k v l) = if k ∈ akeys l then akeys l else akeys l ++ [k] := by
  induction l with
  | nil => simp [aset, akeys]
  | cons x t ih =>
    obtain ⟨k', v'⟩ := x
    by_cases hk : k' = k
    · simp [aset, hk, akeys]
    · have hk' : ¬ k = k' := fun h => hk h.symm
      simp only [aset, hk, if_false, akeys, List.map_cons, List.mem_cons, hk', false_or] at ih ⊢
      rw [ih]; split <;> simp_all

theorem mem_akeys_aset {k k' : α} {v : β} {l : List (α × β)} :
    k' ∈ akeys (aset k v l) ↔ k' ∈ akeys l ∨ k' = k := by
  rw [akeys_aset]; split
  · constructor
    · exact Or.inl
    · rintro (h | rfl) <;> assumption
  · simp

theorem nodup_akeys_aset {k : α} {v : β} {l : List (α × β)} (h : (akeys l).Nodup) : (akeys (aset k v l)).Nodup := by
  rw [akeys_aset]; split
  · exact h
  · rename_i hk
    exact List.Nodup.append h (by simp) (by simpa using hk)

omit [DecidableEq α] in
theorem nodup_akeys_filter {l : List (α × β)} (p : α × β → Bool) (h : (akeys l).Nodup) :
    (akeys (l.filter p)).Nodup :=
  List.Nodup.sublist (List.Sublist.map _ List.filter_sublist) h

theorem aget_filter_key (P : α → Bool) (k : α) (l : List (α × β)) :
    aget k (l.filter (fun e => P e.1)) = if P k then aget k l else none := by
  induction l with
  | nil => simp
  | cons x t ih =>
    obtain ⟨k', v'⟩ := x
    by_cases hp : P k' = true
    · simp only [List.filter_cons, hp, if_true, aget_cons]
      by_cases hk : k' = k
      · subst hk; simp [hp]
      · simp [hk, ih]
    · have hp' : P k' = false := by simpa using hp
      simp only [List.filter_cons, hp', aget_cons]
      by_cases hk : k' = k
      · subst hk; simp [hp', ih]
      · simp [hk, ih]

omit [DecidableEq α] in
theorem mem_lruPut {e : α × β} {l : List (α × β)} {k : α} {v : β} {cap : Nat} (h : e ∈ lruPut l k v cap) :
    e ∈ l ∨ e = (k, v) := by
  unfold lruPut at h
  simp only at h
  split at h
  · have := List.mem_of_mem_tail h
    simpa using this
  · simpa using h

omit [DecidableEq α] in
theorem length_lruPut {l : List (α × β)} {k : α} {v : β} {cap : Nat} (h : l.length ≤ cap) :
    (lruPut l k v cap).length ≤ cap := by
  unfold lruPut
  simp only
  split
  · simp; omega
  · rename_i h'; simp at h' ⊢; omega

theorem length_adel_le (k : α) (l : List (α × β)) : (adel k l).length ≤ l.length :=
  List.length_filter_le _ _

end alist

/-! ### the generated guards (Gen.lean, regenerated from network.py on every run) say what the proofs need

    Each lemma is checked against the CURRENT source: if a guard of network.py changes so that it no longer implies the
    fact used below (e.g. the identity test disappears from get_verified_by_address, or add_verified_peer stops looking
    at blacklist_mids), the lemma — and with it every property theorem — no longer compiles. -/

theorem ipEntryStale_false {x y : Bool} (h : Gen.ipEntryStale true x y = false) : x = true ∧ y = true := by
  cases x <;> cases y <;> simp [Gen.ipEntryStale] at h ⊢

theorem svcHitKeep_iff (x y : Bool) : Gen.svcHitKeep x y = true ↔ x = true ∧ y = true := by
  cases x <;> cases y <;> simp [Gen.svcHitKeep]

theorem introHitKeep_some (y : Bool) : Gen.introHitKeep true y = y := by cases y <;> rfl
theorem introHitKeep_none : Gen.introHitKeep false false = false := rfl

theorem rmaKeep_eq (x : Bool) : Gen.rmaKeep x = !x := by cases x <;> rfl

theorem snapshotKeep_eq (z : Bool) : Gen.snapshotKeep true z = !z := by cases z <;> rfl

theorem walkSkip_eq (a b : Bool) : Gen.walkSkip a b = (a && b) := by cases a <;> cases b <;> rfl

theorem addBranch_eq (a b c d : Bool) :
    Gen.addBranch a b c d = if a then 0 else if b then 1 else if c then 2 else if d then 3 else 4 := by
  cases a <;> cases b <;> cases c <;> cases d <;> rfl

/-- the generated guard chain selects the branches of the reference form -/
theorem addVerified_eq (s : Net) (p : Peer) : s.addVerified p = s.addVerifiedRef p := by
  unfold Net.addVerified Net.addVerifiedRef
  rw [addBranch_eq]
  by_cases h1 : p.key ∈ s.g.blMid
  · simp [h1]
  · cases h2 : s.known p.key
    · cases h3 : p.addrList.any (fun a => s.g.knownAddr a)
      · cases h4 : p.addrList.all (fun a => !decide (a ∈ s.g.blAddr)) <;> simp [h1]
      · simp [h1]
    · simp [h1]

/-- reference form of `removeByAddress` (keep condition written out) -/
def Net.removeByAddressRef (s : Net) (a : Addr) : Net :=
  let gone : List Key := (s.g.verified.filter (fun q => q.hasAddr a)).map (·.key)
  { s with g := { s.g with allAddr := adel a s.g.allAddr,
                           verified := s.g.verified.filter (fun q => !q.hasAddr a),
                           services := s.g.services.filter (fun e => !decide (e.1 ∈ gone)) },
           byKey := s.byKey.filter (fun e => !decide (e.1 ∈ gone)),
           vgen := s.vgen.filter (fun e => !decide (e.1 ∈ gone)),
           graveyard := s.bury (s.g.verified.filter (fun q => q.hasAddr a)) }

/-- needs: remove_by_address pops the address, replaces the set AND pops the index for the removed peers -/
theorem removeByAddress_eq (s : Net) (a : Addr) : s.removeByAddress a = s.removeByAddressRef a := by
  unfold Net.removeByAddress Net.removeByAddressRef
  simp only [rmaKeep_eq, Bool.not_not, Gen.rmaPopsAddress, Gen.rmaReplacesSet, Gen.rmaPopsIndex, if_true]

/-- reference forms of `removePeer` / `verifyNew` (all effects present) -/
def Net.removePeerRef (s : Net) (p : Peer) : Net :=
  { s with g := { s.g with allAddr := s.g.allAddr.filter (fun e => !p.hasAddr e.1),
                           verified := s.g.verified.filter (fun q => !decide (q.key = p.key)),
                           services := adel p.key s.g.services },
           byKey := adel p.key s.byKey,
           vgen := adel p.key s.vgen,
           graveyard := s.bury (s.g.verified.filter (fun q => decide (q.key = p.key))) }

/-- needs: remove_peer pops the addresses, the set entry, the index entry and the services -/
theorem removePeer_eq (s : Net) (p : Peer) : s.removePeer p = s.removePeerRef p := by
  unfold Net.removePeer Net.removePeerRef
  simp only [Gen.rmpPopsAddresses, Gen.rmpRemovesFromSet, Gen.rmpPopsIndex, Gen.rmpPopsServices, if_true]

def Net.verifyNewRef (s : Net) (p : Peer) : Net :=
  { s with g := { s.g with verified := s.g.verified ++ [p] },
           byKey := aset p.key s.nextGen s.byKey,
           vgen := aset p.key s.nextGen s.vgen,
           nextGen := s.nextGen + 1,
           svcCache := s.svcCache.filter (fun e => !s.g.hasService p.key e.1) }

/-- needs: both verifying branches store the peer in the index, and the service-cache invalidation is there -/
theorem verifyNew_eq (s : Net) (p : Peer) : s.verifyNew p = s.verifyNewRef p := by
  unfold Net.verifyNew Net.verifyNewRef
  simp only [Gen.addSetsIndex, Gen.addInvalidatesServiceCache, if_true]

/-! ### the coherence invariant -/

/-- CacheCoherent: the index agrees with the membership set, dict keys are unique, and every cached list is
    *complete* (it may contain outdated entries — the queries filter those on read — but never lacks a current one) -/
structure Coherent (s : Net) : Prop where
  keysNodup : s.g.keys.Nodup
  addrNodup : (akeys s.g.allAddr).Nodup
  byKeyIff : ∀ k, s.known k = true ↔ k ∈ s.g.keys
  svcComplete : ∀ e ∈ s.svcCache, ∀ p ∈ s.g.verified, e.1 ∈ s.g.servicesOf p.key → p.key ∈ e.2
  introComplete : ∀ e ∈ s.introCache, ∀ a w, (a, w) ∈ s.g.allAddr → w.intro = some e.1 → a ∈ e.2
  /-- the index and the set hold the same OBJECT for every key -/
  idxSame : ∀ k, aget k s.byKey = aget k s.vgen
  /-- cached lists hold no entry twice -/
  introNodup : ∀ e ∈ s.introCache, e.2.Nodup
  svcNodup : ∀ e ∈ s.svcCache, e.2.Nodup

theorem coherent_init (a b c : Nat) : Coherent (init a b c) :=
  ⟨by simp [init, Graph.keys], by simp [init, akeys], by simp [init, Net.known, Graph.keys],
   by simp [init], by simp [init], by simp [init], by simp [init], by simp [init]⟩

theorem mem_keys {g : Graph} {k : Key} : k ∈ g.keys ↔ ∃ p ∈ g.verified, p.key = k := by
  simp [Graph.keys]

theorem same_of_key {g : Graph} (hn : g.keys.Nodup) {p q : Peer} (hp : p ∈ g.verified) (hq : q ∈ g.verified)
    (h : p.key = q.key) : p = q :=
  List.inj_on_of_nodup_map hn hp hq h

theorem find_some {g : Graph} {k : Key} {p : Peer} (h : g.find k = some p) : p ∈ g.verified ∧ p.key = k := by
  unfold Graph.find at h
  exact ⟨List.mem_of_find?_eq_some h, by simpa using List.find?_some h⟩

theorem find_of_mem {g : Graph} (hn : g.keys.Nodup) {p : Peer} (hp : p ∈ g.verified) : g.find p.key = some p := by
  unfold Graph.find
  cases h : g.verified.find? (fun q => decide (q.key = p.key)) with
  | none =>
    have := List.find?_eq_none.1 h p hp
    simp at this
  | some q =>
    have hq := List.mem_of_find?_eq_some h
    have hk : q.key = p.key := by simpa using List.find?_some h
    rw [same_of_key hn hq hp hk]

/-- changing only `_all_addresses`, to a dict whose new entries have no introducer -/
theorem coherent_allAddr {s : Net} (h : Coherent s) (all' : List (Addr × WAddr)) (hn : (akeys all').Nodup)
    (hsub : ∀ a w, (a, w) ∈ all' → (a, w) ∈ s.g.allAddr ∨ w.intro = none) :
    Coherent { s with g := { s.g with allAddr := all' } } := by
  refine ⟨h.keysNodup, hn, h.byKeyIff, h.svcComplete, ?_, h.idxSame, h.introNodup, h.svcNodup⟩
  intro e he a w haw hw
  rcases hsub a w haw with h1 | h1
  · exact h.introComplete e he a w h1 hw
  · rw [h1] at hw; cases hw

theorem addMissing_nodup (all : List (Addr × WAddr)) (l : List Addr) (h : (akeys all).Nodup) :
    (akeys (addMissing all l)).Nodup := by
  induction l generalizing all with
  | nil => exact h
  | cons a t ih =>
    simp only [addMissing]
    split
    · exact ih _ h
    · exact ih _ (nodup_akeys_aset h)

theorem addMissing_mem (all : List (Addr × WAddr)) (l : List Addr) (a : Addr) (w : WAddr)
    (h : (a, w) ∈ addMissing all l) : (a, w) ∈ all ∨ w.intro = none := by
  induction l generalizing all with
  | nil => exact Or.inl h
  | cons x t ih =>
    simp only [addMissing] at h
    split at h
    · exact ih _ h
    · rcases ih _ h with h1 | h1
      · rcases mem_aset h1 with h2 | h2
        · exact Or.inl h2
        · right; simp only [Prod.mk.injEq] at h2; rw [h2.2]
      · exact Or.inr h1

theorem loadAddrs_nodup (all : List (Addr × WAddr)) (l : List Addr) (h : (akeys all).Nodup) :
    (akeys (loadAddrs all l)).Nodup := by
  induction l generalizing all with
  | nil => exact h
  | cons a t ih => exact ih _ (nodup_akeys_aset h)

theorem loadAddrs_mem (all : List (Addr × WAddr)) (l : List Addr) (a : Addr) (w : WAddr)
    (h : (a, w) ∈ loadAddrs all l) : (a, w) ∈ all ∨ w.intro = none := by
  induction l generalizing all with
  | nil => exact Or.inl h
  | cons x t ih =>
    rcases ih _ h with h1 | h1
    · rcases mem_aset h1 with h2 | h2
      · exact Or.inl h2
      · right; simp only [Prod.mk.injEq] at h2; rw [h2.2]
    · exact Or.inr h1

theorem known_iff_akeys (s : Net) (k : Key) : s.known k = true ↔ k ∈ akeys s.byKey := by
  unfold Net.known; exact aget_isSome_iff

theorem coherent_verifyNew {s : Net} (h : Coherent s) (p : Peer) (hk : p.key ∉ s.g.keys) :
    Coherent (s.verifyNew p) := by
  rw [verifyNew_eq]
  refine ⟨?_, h.addrNodup, ?_, ?_, h.introComplete, ?_, h.introNodup, ?_⟩
  rotate_left 3
  · intro k
    show aget k (aset p.key s.nextGen s.byKey) = aget k (aset p.key s.nextGen s.vgen)
    by_cases hkk : k = p.key
    · subst hkk; rw [aget_aset_self, aget_aset_self]
    · rw [aget_aset_ne hkk, aget_aset_ne hkk]; exact h.idxSame k
  · intro e he
    exact h.svcNodup e (List.mem_filter.1 he).1
  · show (List.map (·.key) (s.g.verified ++ [p])).Nodup
    rw [List.map_append]
    exact List.Nodup.append h.keysNodup (by simp) (by simpa [Graph.keys] using hk)
  · intro k
    rw [known_iff_akeys]
    show k ∈ akeys (aset p.key s.nextGen s.byKey) ↔ k ∈ List.map (·.key) (s.g.verified ++ [p])
    rw [mem_akeys_aset, ← known_iff_akeys, h.byKeyIff k]
    simp [Graph.keys]
  · intro e he q hq hs
    simp only [Net.verifyNewRef, List.mem_filter, Graph.hasService, Bool.not_eq_true', decide_eq_false_iff_not] at he
    have hq' : q ∈ s.g.verified ∨ q = p := by simpa [Net.verifyNewRef] using hq
    rcases hq' with hq' | rfl
    · exact h.svcComplete e he.1 q hq' hs
    · exact absurd hs he.2

theorem updateAddrs_key (p : Peer) (q : Peer) :
    (if q.key = p.key then { q with addrs := updateAddrs q.addrs p.addrs } else q).key = q.key := by
  split <;> rfl

theorem map_update_keys (l : List Peer) (k : Key) (new : List (Nat × Addr)) :
    List.map (·.key) (l.map (fun q => if q.key = k then { q with addrs := updateAddrs q.addrs new } else q))
      = List.map (·.key) l := by
  rw [List.map_map]; apply List.map_congr_left; intro q _
  show (if q.key = k then { q with addrs := updateAddrs q.addrs new } else q).key = q.key
  split <;> rfl

theorem coherent_updateStored {s : Net} (h : Coherent s) (k : Key) (new : List (Nat × Addr)) :
    Coherent (s.updateStored k new) := by
  unfold Net.updateStored
  split
  · exact h
  · split
    · -- the index object is the set's object: its record changes, keys do not
      have hkeys := map_update_keys s.g.verified k new
      refine ⟨?_, h.addrNodup, ?_, ?_, h.introComplete, h.idxSame, h.introNodup, h.svcNodup⟩
      · show (List.map _ _).Nodup; rw [hkeys]; exact h.keysNodup
      · intro k'; show _ ↔ k' ∈ List.map _ _; rw [hkeys]; exact h.byKeyIff k'
      · intro e he q hq hs
        obtain ⟨q0, hq0, rfl⟩ := List.mem_map.1 hq
        have hk0 : (if q0.key = k then { q0 with addrs := updateAddrs q0.addrs new } else q0).key = q0.key := by
          split <;> rfl
        rw [hk0] at hs ⊢
        exact h.svcComplete e he q0 hq0 hs
    · exact ⟨h.keysNodup, h.addrNodup, h.byKeyIff, h.svcComplete, h.introComplete, h.idxSame, h.introNodup, h.svcNodup⟩

theorem coherent_addVerified {s : Net} (h : Coherent s) (p : Peer) : Coherent (s.addVerified p) := by
  rw [addVerified_eq]
  unfold Net.addVerifiedRef
  split
  · exact h
  split
  · exact coherent_updateStored h _ _
  split
  · split
    · exact h
    · rename_i hk; exact coherent_verifyNew h p hk
  split
  · have h1 := coherent_allAddr h (addMissing s.g.allAddr p.addrList) (addMissing_nodup _ _ h.addrNodup)
      (addMissing_mem _ _)
    split
    · exact h1
    · rename_i hk; exact coherent_verifyNew h1 p hk
  · exact h

theorem coherent_introduce {s : Net} (h : Coherent s) (k : Key) (a : Addr) (svc : Option Svc) (ns : Bool) :
    Coherent (s.introduce k a svc ns) := by
  refine ⟨h.keysNodup, nodup_akeys_aset h.addrNodup, h.byKeyIff, h.svcComplete, ?_, h.idxSame, ?_, h.svcNodup⟩
  · intro e' he' a' w' haw hw
    obtain ⟨e, he, rfl⟩ := List.mem_map.1 he'
    rcases mem_aset haw with h1 | h1
    · have hw' : w'.intro = some e.1 := by split at hw <;> exact hw
      have := h.introComplete e he a' w' h1 hw'
      split
      · show a' ∈ (if a ∈ e.2 then e.2 else e.2 ++ [a])
        split
        · exact this
        · exact List.mem_append_left _ this
      · exact this
    · simp only [Prod.mk.injEq] at h1
      obtain ⟨rfl, rfl⟩ := h1
      split
      · show a' ∈ (if a' ∈ e.2 then e.2 else e.2 ++ [a'])
        split
        · assumption
        · simp
      · rename_i hne
        split at hw
        · contradiction
        · simp only [Option.some.injEq] at hw; exact absurd hw.symm hne
  · intro e' he'
    obtain ⟨e, he, rfl⟩ := List.mem_map.1 he'
    have hn := h.introNodup e he
    split
    · show (if a ∈ e.2 then e.2 else e.2 ++ [a]).Nodup
      split
      · exact hn
      · rename_i hna
        exact List.Nodup.append hn (by simp) (by simpa using hna)
    · exact hn

theorem coherent_discoverAddress {s : Net} (h : Coherent s) (p : Peer) (a : Addr) (svc : Option Svc) (ns : Bool) :
    Coherent (s.discoverAddress p a svc ns) := by
  unfold Net.discoverAddress
  split
  · exact coherent_addVerified h p
  · apply coherent_addVerified
    refine (?_ : ∀ b : Bool, Coherent (if b = true then s.introduce p.key a svc ns else s)) _
    intro b
    cases b
    · exact h
    · exact coherent_introduce h _ _ _ _

theorem mem_unionSvcs (old new : List Svc) (sv : Svc) : sv ∈ unionSvcs old new ↔ sv ∈ old ∨ sv ∈ new := by
  unfold unionSvcs
  induction new generalizing old with
  | nil => simp
  | cons x t ih =>
    simp only [List.foldl_cons, ih, List.mem_cons]
    split
    · constructor
      · rintro (h | h)
        · exact Or.inl h
        · exact Or.inr (Or.inr h)
      · rintro (h | h | h)
        · exact Or.inl h
        · subst h; left; assumption
        · exact Or.inr h
    · simp only [List.mem_append, List.mem_singleton]
      tauto

theorem touch_fold (k : Key) (svcs : List Svc) (c : List (Svc × List Key)) (e' : Svc × List Key)
    (h : e' ∈ svcs.foldl (touchSvc k) c) :
    ∃ e ∈ c, e'.1 = e.1 ∧ (∀ x ∈ e.2, x ∈ e'.2) ∧ (e.1 ∈ svcs → k ∈ e'.2) := by
  induction svcs generalizing c with
  | nil => exact ⟨e', h, rfl, fun _ hx => hx, by simp⟩
  | cons sv t ih =>
    obtain ⟨e1, he1, h1, h2, h3⟩ := ih _ h
    obtain ⟨e, he, rfl⟩ := List.mem_map.1 he1
    refine ⟨e, he, ?_, ?_, ?_⟩
    · rw [h1]; split <;> rfl
    · intro x hx
      apply h2
      split
      · by_cases hxk : x = k
        · simp [hxk]
        · exact List.mem_append_left _ ((List.mem_erase_of_ne hxk).2 hx)
      · exact hx
    · intro hmem
      rcases List.mem_cons.1 hmem with hmem | hmem
      · apply h2; simp [hmem]
      · apply h3; split <;> exact hmem

theorem touch_fold_nodup (k : Key) (svcs : List Svc) (c : List (Svc × List Key)) (hc : ∀ e ∈ c, e.2.Nodup) :
    ∀ e' ∈ svcs.foldl (touchSvc k) c, e'.2.Nodup := by
  induction svcs generalizing c with
  | nil => exact hc
  | cons sv t ih =>
    apply ih
    intro e' he'
    obtain ⟨e, he, rfl⟩ := List.mem_map.1 he'
    have hn := hc e he
    split
    · show (e.2.erase k ++ [k]).Nodup
      refine List.Nodup.append (hn.erase k) (by simp) ?_
      intro x hx hx'
      rw [List.mem_singleton] at hx'
      subst hx'
      exact ((hn.mem_erase_iff).1 hx).1 rfl
    · exact hn

theorem servicesOf_aset (g : Graph) (k k' : Key) (l : List Svc) :
    ({ g with services := aset k l g.services } : Graph).servicesOf k' = if k' = k then l else g.servicesOf k' := by
  unfold Graph.servicesOf
  by_cases h : k' = k
  · subst h; simp [aget_aset_self]
  · simp [h, aget_aset_ne h]

theorem coherent_discoverServices {s : Net} (h : Coherent s) (p : Peer) (svcs : List Svc) :
    Coherent (s.discoverServices p svcs) := by
  refine ⟨h.keysNodup, h.addrNodup, h.byKeyIff, ?_, h.introComplete, h.idxSame, h.introNodup,
    touch_fold_nodup p.key svcs s.svcCache h.svcNodup⟩
  intro e' he' q hq hs
  obtain ⟨e, he, h1, h2, h3⟩ := touch_fold p.key svcs s.svcCache e' he'
  have hs' : e'.1 ∈ (if q.key = p.key then unionSvcs (s.g.servicesOf p.key) svcs else s.g.servicesOf q.key) := by
    rw [← servicesOf_aset]; exact hs
  have hq' : q ∈ s.g.verified := hq
  split at hs'
  · rename_i hk
    rcases (mem_unionSvcs _ _ _).1 hs' with h4 | h4
    · apply h2; apply h.svcComplete e he q hq'; rw [hk, ← h1]; exact h4
    · rw [hk]; apply h3; rw [← h1]; exact h4
  · apply h2; apply h.svcComplete e he q hq'; rw [← h1]; exact hs'

theorem servicesOf_filter_subset (g g' : Graph) (P : Key → Bool) (k : Key) (sv : Svc)
    (hg : g'.services = g.services.filter (fun e => P e.1)) (h : sv ∈ g'.servicesOf k) : sv ∈ g.servicesOf k := by
  unfold Graph.servicesOf at h ⊢
  rw [hg, aget_filter_key] at h
  split at h
  · exact h
  · simp at h

theorem coherent_removePeer {s : Net} (h : Coherent s) (p : Peer) : Coherent (s.removePeer p) := by
  rw [removePeer_eq]
  refine ⟨?_, nodup_akeys_filter _ h.addrNodup, ?_, ?_, ?_, ?_, h.introNodup, h.svcNodup⟩
  rotate_left 4
  · intro k
    show aget k (adel p.key s.byKey) = aget k (adel p.key s.vgen)
    unfold adel
    rw [aget_filter_key (fun k' => !decide (k' = p.key)), aget_filter_key (fun k' => !decide (k' = p.key)), h.idxSame]
  · exact List.Nodup.sublist (List.Sublist.map _ List.filter_sublist) h.keysNodup
  · intro k
    have h1 : (s.removePeerRef p).known k = if (!decide (k = p.key)) = true then s.known k else false := by
      unfold Net.known Net.removePeerRef adel
      simp only
      rw [aget_filter_key (fun k' => !decide (k' = p.key))]
      split <;> simp
    rw [h1]
    have h2 : k ∈ (s.removePeerRef p).g.keys ↔ k ∈ s.g.keys ∧ k ≠ p.key := by
      simp only [Net.removePeerRef, Graph.keys, List.mem_map, List.mem_filter, Bool.not_eq_true',
        decide_eq_false_iff_not]
      constructor
      · rintro ⟨q, ⟨hq, hne⟩, rfl⟩; exact ⟨⟨q, hq, rfl⟩, hne⟩
      · rintro ⟨⟨q, hq, rfl⟩, hne⟩; exact ⟨q, ⟨hq, hne⟩, rfl⟩
    rw [h2, ← h.byKeyIff k]
    by_cases hk : k = p.key <;> simp [hk]
  · intro e he q hq hs
    have hq' : q ∈ s.g.verified := (List.mem_filter.1 hq).1
    apply h.svcComplete e he q hq'
    exact servicesOf_filter_subset s.g _ (fun k' => !decide (k' = p.key)) q.key e.1 rfl hs
  · intro e he a w haw hw
    exact h.introComplete e he a w (List.mem_filter.1 haw).1 hw

theorem coherent_removeByAddress {s : Net} (h : Coherent s) (a : Addr) : Coherent (s.removeByAddress a) := by
  rw [removeByAddress_eq]
  refine ⟨?_, nodup_akeys_filter _ h.addrNodup, ?_, ?_, ?_, ?_, h.introNodup, h.svcNodup⟩
  rotate_left 4
  · intro k
    show aget k (s.byKey.filter _) = aget k (s.vgen.filter _)
    rw [aget_filter_key (fun k' => !decide (k' ∈ (s.g.verified.filter (fun q : Peer => q.hasAddr a)).map (fun x : Peer => x.key))),
      aget_filter_key (fun k' => !decide (k' ∈ (s.g.verified.filter (fun q : Peer => q.hasAddr a)).map (fun x : Peer => x.key))),
      h.idxSame]
  · exact List.Nodup.sublist (List.Sublist.map _ List.filter_sublist) h.keysNodup
  · intro k
    let gone : List Key := (s.g.verified.filter (fun q => q.hasAddr a)).map (·.key)
    have h1 : (s.removeByAddressRef a).known k = if (!decide (k ∈ gone)) = true then s.known k else false := by
      unfold Net.known Net.removeByAddressRef
      simp only
      rw [aget_filter_key (fun k' => !decide (k' ∈ gone))]
      split <;> simp
    rw [h1]
    have h2 : k ∈ (s.removeByAddressRef a).g.keys ↔ k ∈ s.g.keys ∧ k ∉ gone := by
      simp only [Net.removeByAddressRef, Graph.keys, List.mem_map, List.mem_filter, Bool.not_eq_true', gone]
      constructor
      · rintro ⟨q, ⟨hq, hne⟩, rfl⟩
        refine ⟨⟨q, hq, rfl⟩, ?_⟩
        rintro ⟨q', ⟨hq', hhas⟩, hk⟩
        rw [same_of_key h.keysNodup hq' hq hk] at hhas
        rw [hhas] at hne; cases hne
      · rintro ⟨⟨q, hq, rfl⟩, hne⟩
        refine ⟨q, ⟨hq, ?_⟩, rfl⟩
        cases hh : q.hasAddr a
        · rfl
        · exact absurd ⟨q, ⟨hq, hh⟩, rfl⟩ hne
    rw [h2, ← h.byKeyIff k]
    by_cases hk : k ∈ gone <;> simp [hk]
  · intro e he q hq hs
    have hq' : q ∈ s.g.verified := (List.mem_filter.1 hq).1
    apply h.svcComplete e he q hq'
    exact servicesOf_filter_subset s.g _
      (fun k' => !decide (k' ∈ (s.g.verified.filter (fun q : Peer => q.hasAddr a)).map (fun x : Peer => x.key)))
      q.key e.1 rfl hs
  · intro e he a' w haw hw
    exact h.introComplete e he a' w (List.mem_filter.1 haw).1 hw

theorem coherent_loadSnapshot {s : Net} (h : Coherent s) (d : Bytes) : Coherent (s.loadSnapshot d) :=
  coherent_allAddr h _ (loadAddrs_nodup _ _ h.addrNodup) (loadAddrs_mem _ _)

/-! ### queries: they only touch caches, keep the invariant, and answer what the graph implies -/

theorem getByAddr_state (s : Net) (a : Addr) (hint : Option Key) :
    ∃ c, (s.getByAddr a hint).2 = { s with ipCache := c } := by
  unfold Net.getByAddr
  simp only
  split
  · exact ⟨_, rfl⟩
  · exact ⟨_, rfl⟩

theorem coherent_getByAddr {s : Net} (h : Coherent s) (a : Addr) (hint : Option Key) :
    Coherent (s.getByAddr a hint).2 := by
  obtain ⟨c, hc⟩ := getByAddr_state s a hint
  rw [hc]
  exact ⟨h.keysNodup, h.addrNodup, h.byKeyIff, h.svcComplete, h.introComplete, h.idxSame, h.introNodup, h.svcNodup⟩

theorem deref_live {s : Net} (h : Coherent s) {k : Key} {gen : Nat} {obj : Peer}
    (hi : aget k s.byKey = some gen) (hd : s.deref k gen = some obj) : obj ∈ s.g.verified ∧ obj.key = k := by
  unfold Net.deref at hd
  rw [← h.idxSame k, hi] at hd
  simp only [if_true] at hd
  exact find_some hd

theorem chooseByAddr_some {s : Net} (h : Coherent s) {a : Addr} {hint : Option Key} {p : Peer}
    (hc : s.chooseByAddr a hint = some p) : p ∈ s.g.verified ∧ p.hasAddr a = true := by
  unfold Net.chooseByAddr at hc
  simp only at hc
  split at hc
  · rename_i q hq
    cases hc
    split at hq
    · exact List.mem_filter.1 (List.mem_of_find?_eq_some hq)
    · cases hq
  · split at hc
    · rename_i q hq
      cases hc
      -- the cached object: only trusted when the index still holds this very object and it still has the address
      split at hq
      · rename_i k gen hcache
        split at hq
        · rename_i obj hobj
          split at hq
          · cases hq
          · rename_i hstale
            cases hq
            have hcond := ipEntryStale_false (Bool.eq_false_iff.2 hstale)
            simp only [decide_eq_true_eq] at hcond
            exact ⟨(deref_live h hcond.1 hobj).1, by simpa [Peer.hasAddr] using hcond.2⟩
        · cases hq
      · cases hq
    · exact List.mem_filter.1 (List.mem_of_mem_head? hc)

theorem chooseByAddr_none {s : Net} {a : Addr} {hint : Option Key} (h : s.chooseByAddr a hint = none) :
    s.g.verified.filter (fun p => p.hasAddr a) = [] := by
  unfold Net.chooseByAddr at h
  simp only at h
  split at h
  · cases h
  · split at h
    · cases h
    · exact List.head?_eq_none_iff.1 h

theorem getByAddr_ok {s : Net} (h : Coherent s) (a : Addr) (hint : Option Key) :
    s.g.AnsAddr a (s.getByAddr a hint).1 := by
  unfold Net.getByAddr
  simp only
  split
  · rename_i p hp
    have := chooseByAddr_some h hp
    exact ⟨this.1, by simpa [Peer.hasAddr] using this.2⟩
  · rename_i hp
    have := chooseByAddr_none hp
    intro p hp' hmem
    have : p ∈ s.g.verified.filter (fun p => p.hasAddr a) :=
      List.mem_filter.2 ⟨hp', by simpa [Peer.hasAddr] using hmem⟩
    simp_all

theorem getByKey_ok {s : Net} (h : Coherent s) (k : Key) : s.g.AnsKey k (s.getByKey k) := by
  unfold Net.getByKey
  split
  · rename_i gen hi
    cases hd : s.deref k gen with
    | some p => exact deref_live h hi hd
    | none =>
      intro p hp hk
      unfold Net.deref at hd
      rw [← h.idxSame k, hi] at hd
      simp only [if_true] at hd
      unfold Graph.find at hd
      have := List.find?_eq_none.1 hd p hp
      simp [hk] at this
  · rename_i hk
    intro p hp hpk
    have : s.known k = true := (h.byKeyIff k).2 (mem_keys.2 ⟨p, hp, hpk⟩)
    unfold Net.known at this
    rw [hk] at this
    cases this

theorem peersForService_state (s : Net) (sv : Svc) :
    (s.peersForService sv).2 =
      { s with svcCache := lruPut (adel sv s.svcCache) sv ((s.peersForService sv).1.map (·.key)) s.svcCap } := rfl

theorem nodup_verified {g : Graph} (hn : g.keys.Nodup) : g.verified.Nodup := List.Nodup.of_map _ hn

theorem peersForService_ok {s : Net} (h : Coherent s) (sv : Svc) : s.g.AnsService sv (s.peersForService sv).1 := by
  unfold Net.peersForService
  simp only
  split
  · refine ⟨(nodup_verified h.keysNodup).filter _, fun p => ?_⟩
    simp [Graph.hasService]
  · rename_i l hl
    refine ⟨?_, fun p => ?_⟩
    · refine List.Nodup.filterMap ?_ ((h.svcNodup _ (aget_some_mem hl)).filter _)
      intro k k' p hk hk'
      rw [(find_some (Option.mem_def.1 hk)).2.symm, (find_some (Option.mem_def.1 hk')).2]
    · simp only [List.mem_filterMap, List.mem_filter, svcHitKeep_iff, decide_eq_true_eq, Graph.hasService]
      constructor
      · rintro ⟨k, ⟨_, _, hsv⟩, hf⟩
        obtain ⟨hp, rfl⟩ := find_some hf
        exact ⟨hp, hsv⟩
      · rintro ⟨hp, hsv⟩
        exact ⟨p.key, ⟨h.svcComplete _ (aget_some_mem hl) p hp hsv, mem_keys.2 ⟨p, hp, rfl⟩, hsv⟩,
          find_of_mem h.keysNodup hp⟩

theorem coherent_peersForService {s : Net} (h : Coherent s) (sv : Svc) : Coherent (s.peersForService sv).2 := by
  have hok := peersForService_ok h sv
  rw [peersForService_state]
  refine ⟨h.keysNodup, h.addrNodup, h.byKeyIff, ?_, h.introComplete, h.idxSame, h.introNodup, ?_⟩
  · intro e he q hq hs
    rcases mem_lruPut he with h1 | h1
    · exact h.svcComplete e (List.mem_filter.1 h1).1 q hq hs
    · subst h1
      exact List.mem_map.2 ⟨q, (hok.2 q).2 ⟨hq, hs⟩, rfl⟩
  · intro e he
    rcases mem_lruPut he with h1 | h1
    · exact h.svcNodup e (List.mem_filter.1 h1).1
    · subst h1
      refine List.Nodup.map_on ?_ hok.1
      intro x hx y hy hxy
      exact same_of_key h.keysNodup ((hok.2 x).1 hx).1 ((hok.2 y).1 hy).1 hxy

theorem walkable_state (s : Net) (svc : Option Svc) (o : Bool) :
    (s.walkable svc o).2 = match truthy svc with | none => s | some sv => (s.peersForService sv).2 := by
  unfold Net.walkable
  cases truthy svc with
  | none => rfl
  | some sv => rfl

theorem walkable_g (s : Net) (svc : Option Svc) (o : Bool) : (s.walkable svc o).2.g = s.g := by
  rw [walkable_state]
  cases truthy svc with
  | none => rfl
  | some sv => rfl

theorem coherent_walkable {s : Net} (h : Coherent s) (svc : Option Svc) (o : Bool) : Coherent (s.walkable svc o).2 := by
  rw [walkable_state]
  split
  · exact h
  · exact coherent_peersForService h _

theorem mem_akeys_iff {α β : Type} {l : List (α × β)} {k : α} : k ∈ akeys l ↔ ∃ v, (k, v) ∈ l := by
  simp [akeys]

theorem walkable_ok {s : Net} (h : Coherent s) (svc : Option Svc) (o : Bool) : s.g.AnsWalk svc o (s.walkable svc o).1 := by
  unfold Graph.AnsWalk Net.walkable
  split
  · rename_i htr
    simp only [htr]
    refine ⟨h.addrNodup.filter _, fun a => ?_⟩
    simp only [List.mem_filter, List.mem_flatMap, Bool.not_eq_true', decide_eq_false_iff_not, not_exists,
      not_and]
  · rename_i sv htr
    simp only [htr]
    refine ⟨(h.addrNodup.filter _).filter _, fun a => ?_⟩
    have hps := (peersForService_ok h sv).2
    simp only [List.mem_filter, List.mem_flatMap, Bool.not_eq_true', decide_eq_false_iff_not, not_exists,
      not_and]
    constructor
    · rintro ⟨⟨hk, hnot⟩, hf⟩
      refine ⟨fun p hp hsv => hnot p ((hps p).2 ⟨hp, hsv⟩), ?_⟩
      unfold Graph.walkFilter at hf
      simp only [walkSkip_eq] at hf
      split at hf
      · cases hf
      · rename_i w hw
        refine ⟨w, aget_some_mem hw, ?_, ?_⟩
        · intro h1 h2; simp [h1, h2] at hf
        · split at hf
          · cases hf
          · simp only [Bool.or_eq_true, decide_eq_true_eq] at hf
            rcases hf with hf | hf
            · left
              split at hf
              · rename_i k hk'; exact ⟨k, hk', by simpa [Graph.hasService] using hf⟩
              · cases hf
            · exact Or.inr hf
    · rintro ⟨hnot, w, hw, hstyle, hsvc⟩
      refine ⟨⟨mem_akeys_iff.2 ⟨w, hw⟩, fun p hp => hnot p ((hps p).1 hp).1 ((hps p).1 hp).2⟩, ?_⟩
      unfold Graph.walkFilter
      rw [mem_aget_of_nodup h.addrNodup hw]
      simp only [walkSkip_eq]
      split
      · rename_i hc; simp only [Bool.and_eq_true] at hc; exact absurd hc.2 (hstyle hc.1)
      · simp only [Bool.or_eq_true, decide_eq_true_eq]
        rcases hsvc with ⟨k, hk, hs⟩ | hs
        · left; rw [hk]; simpa [Graph.hasService] using hs
        · exact Or.inr hs

theorem introsFrom_ok {s : Net} (h : Coherent s) (k : Key) : s.g.AnsIntro k (s.introsFrom k).1 := by
  unfold Net.introsFrom
  split
  · rename_i l hl
    refine ⟨(h.introNodup _ (aget_some_mem hl)).filter _, fun a => ?_⟩
    simp only [List.mem_filter, Graph.introducedBy, introHitKeep_some, introHitKeep_none]
    constructor
    · rintro ⟨_, hv⟩
      split at hv
      · rename_i w hw; exact ⟨w, aget_some_mem hw, by simpa using hv⟩
      · cases hv
    · rintro ⟨w, hw, hi⟩
      refine ⟨h.introComplete _ (aget_some_mem hl) a w hw hi, ?_⟩
      rw [mem_aget_of_nodup h.addrNodup hw]; simpa using hi
  · refine ⟨nodup_akeys_filter _ h.addrNodup, fun a => ?_⟩
    simp only [akeys, List.mem_map, List.mem_filter, decide_eq_true_eq]
    constructor
    · rintro ⟨⟨a', w⟩, ⟨hm, hi⟩, rfl⟩; exact ⟨w, hm, hi⟩
    · rintro ⟨w, hm, hi⟩; exact ⟨(a, w), ⟨hm, hi⟩, rfl⟩

theorem coherent_introsFrom {s : Net} (h : Coherent s) (k : Key) : Coherent (s.introsFrom k).2 := by
  have hok := introsFrom_ok h k
  unfold Net.introsFrom at hok ⊢
  split
  · rename_i l hl
    simp only [hl] at hok
    refine ⟨h.keysNodup, h.addrNodup, h.byKeyIff, h.svcComplete, ?_, h.idxSame, ?_, h.svcNodup⟩
    · intro e he a w haw hw
      rcases mem_aset he with h1 | h1
      · exact h.introComplete e h1 a w haw hw
      · subst h1; exact (hok.2 a).2 ⟨w, haw, hw⟩
    · intro e he
      rcases mem_aset he with h1 | h1
      · exact h.introNodup e h1
      · subst h1; exact hok.1
  · rename_i hl
    simp only [hl] at hok
    refine ⟨h.keysNodup, h.addrNodup, h.byKeyIff, h.svcComplete, ?_, h.idxSame, ?_, h.svcNodup⟩
    · intro e he a w haw hw
      rcases mem_lruPut he with h1 | h1
      · exact h.introComplete e h1 a w haw hw
      · subst h1; exact (hok.2 a).2 ⟨w, haw, hw⟩
    · intro e he
      rcases mem_lruPut he with h1 | h1
      · exact h.introNodup e h1
      · subst h1; exact hok.1

theorem coherent_step {s : Net} (h : Coherent s) (op : Op) : Coherent (step s op) := by
  cases op with
  | add p => exact coherent_addVerified h p
  | disc p a svc ns => exact coherent_discoverAddress h p a svc ns
  | svcs p l => exact coherent_discoverServices h p l
  | rmPeer p => exact coherent_removePeer h p
  | rmAddr a => exact coherent_removeByAddress h a
  | blAddr a => exact ⟨h.keysNodup, h.addrNodup, h.byKeyIff, h.svcComplete, h.introComplete, h.idxSame, h.introNodup, h.svcNodup⟩
  | blMid k => exact ⟨h.keysNodup, h.addrNodup, h.byKeyIff, h.svcComplete, h.introComplete, h.idxSame, h.introNodup, h.svcNodup⟩
  | load d => exact coherent_loadSnapshot h d
  | setAddr k slot a => exact coherent_updateStored h k _
  | qAddr a hint => exact coherent_getByAddr h a hint
  | qKey k => exact h
  | qSvc sv => exact coherent_peersForService h sv
  | qWalk svc o => exact coherent_walkable h svc o
  | qIntro k => exact coherent_introsFrom h k

theorem coherent_run_of {s : Net} (h : Coherent s) (ops : List Op) : Coherent (run s ops) := by
  induction ops generalizing s with
  | nil => exact h
  | cons op t ih => exact ih (coherent_step h op)

/-! ### refinement: the graph part of every step is the step of the cache-free reference graph -/

theorem known_eq {s : Net} (hk : ∀ k, s.known k = true ↔ k ∈ s.g.keys) (k : Key) :
    s.known k = decide (k ∈ s.g.keys) := by
  rw [Bool.eq_iff_iff]; simpa using hk k

theorem map_update_noop (l : List Peer) (k : Key) (new : List (Nat × Addr)) (hk : k ∉ l.map (·.key)) :
    l.map (fun q => if q.key = k then { q with addrs := updateAddrs q.addrs new } else q) = l := by
  conv_rhs => rw [← List.map_id l]
  apply List.map_congr_left
  intro q hq
  have : q.key ≠ k := fun e => hk (List.mem_map.2 ⟨q, hq, e⟩)
  simp [this]

/-- the in-place update reaches the set's record: needs the index to hold the set's object -/
theorem updateStored_g {s : Net} (h : Coherent s) (k : Key) (new : List (Nat × Addr)) :
    (s.updateStored k new).g = s.g.updateStored k new := by
  unfold Net.updateStored Graph.updateStored
  split
  · rename_i hi
    have hk : k ∉ s.g.keys := by
      intro hk
      have := (h.byKeyIff k).2 hk
      unfold Net.known at this; rw [hi] at this; cases this
    show s.g = _
    rw [map_update_noop _ _ _ hk]
  · rename_i gen hi
    have : aget k s.vgen = some gen := by rw [← h.idxSame k]; exact hi
    simp only [this, if_true]

theorem addVerified_g {s : Net} (h : Coherent s) (p : Peer) :
    (s.addVerified p).g = s.g.addVerified p := by
  have hk := h.byKeyIff
  rw [addVerified_eq]
  unfold Net.addVerifiedRef Graph.addVerified
  rw [known_eq hk]
  by_cases h1 : p.key ∈ s.g.blMid
  · simp [h1]
  · by_cases h2 : p.key ∈ s.g.keys
    · simp only [h1, h2, if_false, if_true, decide_true]
      exact updateStored_g h _ _
    · simp only [h1, h2, if_false, decide_false, Bool.false_eq_true]
      split
      · rfl
      · split <;> rfl

theorem discoverAddress_g {s : Net} (h : Coherent s) (p : Peer) (a : Addr)
    (svc : Option Svc) (ns : Bool) : (s.discoverAddress p a svc ns).g = s.g.discoverAddress p a svc ns := by
  have hk := h.byKeyIff
  unfold Net.discoverAddress Graph.discoverAddress
  by_cases hbl : a ∈ s.g.blAddr
  · simp only [hbl, if_true]; exact addVerified_g h p
  · simp only [hbl, if_false]
    have hb : needsIntro s.g.allAddr s.known a = needsIntro s.g.allAddr (fun k => decide (k ∈ s.g.keys)) a := by
      congr 1; funext k; exact known_eq hk k
    rw [hb]
    generalize needsIntro s.g.allAddr (fun k => decide (k ∈ s.g.keys)) a = b
    cases b
    · exact addVerified_g h p
    · exact addVerified_g (coherent_introduce h p.key a svc ns) p

theorem step_g {s : Net} (h : Coherent s) (op : Op) : (step s op).g = s.g.step op := by
  cases op with
  | add p => exact addVerified_g h p
  | disc p a svc ns => exact discoverAddress_g h p a svc ns
  | setAddr k slot a => exact updateStored_g h k _
  | rmAddr a =>
    show (s.removeByAddress a).g = _
    rw [removeByAddress_eq]; rfl
  | rmPeer p =>
    show (s.removePeer p).g = _
    rw [removePeer_eq]; rfl
  | qAddr a hint =>
    obtain ⟨c, hc⟩ := getByAddr_state s a hint
    show (s.getByAddr a hint).2.g = s.g
    rw [hc]
  | qWalk svc o => exact walkable_g s svc o
  | qIntro k =>
    show (s.introsFrom k).2.g = s.g
    unfold Net.introsFrom; split <;> rfl
  | _ => rfl

theorem run_g {s : Net} (h : Coherent s) (ops : List Op) : (run s ops).g = s.g.run ops := by
  induction ops generalizing s with
  | nil => rfl
  | cons op t ih =>
    show (run (step s op) t).g = Graph.run (s.g.step op) t
    rw [ih (coherent_step h op), step_g h op]

/-- a query never changes the graph (no invariant needed) -/
theorem query_g (s : Net) (op : Op) (hq : op.isQuery = true) : (step s op).g = s.g := by
  cases op with
  | qAddr a hint =>
    obtain ⟨c, hc⟩ := getByAddr_state s a hint
    show (s.getByAddr a hint).2.g = s.g
    rw [hc]
  | qKey k => rfl
  | qSvc sv => rfl
  | qWalk svc o => exact walkable_g s svc o
  | qIntro k =>
    show (s.introsFrom k).2.g = s.g
    unfold Net.introsFrom; split <;> rfl
  | _ => simp [Op.isQuery] at hq

/-! ### removal, blacklists -/

theorem mem_keys_removePeer (g : Graph) (p : Peer) : p.key ∉ (g.removePeer p).keys := by
  simp [Graph.removePeer, Graph.keys]

theorem mem_keys_removeByAddress (g : Graph) (a : Addr) (q : Peer) (hq : q ∈ g.verified) (ha : a ∈ q.addrList)
    (hn : g.keys.Nodup) : q.key ∉ (g.removeByAddress a).keys := by
  simp only [Graph.removeByAddress, Graph.keys, List.mem_map, List.mem_filter, Bool.not_eq_true', not_exists, not_and,
    and_imp]
  intro q' hq' hno hk
  rw [same_of_key hn hq' hq hk] at hno
  simp [Peer.hasAddr, ha] at hno

theorem addVerified_mem {g : Graph} (p : Peer) (h1 : p.key ∉ g.blMid) (h2 : p.key ∉ g.keys)
    (h3 : ∀ a ∈ p.addrList, a ∉ g.blAddr) : p ∈ (g.addVerified p).verified := by
  unfold Graph.addVerified
  simp only [h1, h2, if_false]
  split
  · simp
  · have : (p.addrList.all fun a => !decide (a ∈ g.blAddr)) = true := by
      simp only [List.all_eq_true, Bool.not_eq_true', decide_eq_false_iff_not]; exact h3
    simp [this]

theorem addVerified_blMid (g : Graph) (p : Peer) : (g.addVerified p).blMid = g.blMid := by
  unfold Graph.addVerified
  split; · rfl
  split; · rfl
  split; · rfl
  split <;> rfl

theorem updateStored_keys (g : Graph) (k : Key) (new : List (Nat × Addr)) : (g.updateStored k new).keys = g.keys :=
  map_update_keys g.verified k new

theorem addVerified_keys (g : Graph) (p : Peer) (k : Key) (h : k ∈ (g.addVerified p).keys) :
    k ∈ g.keys ∨ (k = p.key ∧ p.key ∉ g.blMid) := by
  unfold Graph.addVerified at h
  split at h; · exact Or.inl h
  rename_i hbl
  split at h
  · left
    rw [updateStored_keys] at h; exact h
  split at h
  · simp only [Graph.keys, List.map_append, List.mem_append, List.map_cons, List.map_nil, List.mem_singleton] at h
    rcases h with h | h
    · exact Or.inl h
    · exact Or.inr ⟨h, hbl⟩
  split at h
  · simp only [Graph.keys, List.map_append, List.mem_append, List.map_cons, List.map_nil, List.mem_singleton] at h
    rcases h with h | h
    · exact Or.inl h
    · exact Or.inr ⟨h, hbl⟩
  · exact Or.inl h

theorem step_blacklisted (g : Graph) (op : Op) (k : Key) (hb : k ∈ g.blMid) (hk : k ∉ g.keys) :
    k ∈ (g.step op).blMid ∧ k ∉ (g.step op).keys := by
  cases op with
  | add p =>
    refine ⟨by rw [Graph.step, addVerified_blMid]; exact hb, fun h => ?_⟩
    rcases addVerified_keys g p k h with h' | ⟨rfl, h'⟩
    · exact hk h'
    · exact h' hb
  | disc p a svc ns =>
    simp only [Graph.step, Graph.discoverAddress]
    split
    · refine ⟨by rw [addVerified_blMid]; exact hb, fun h => ?_⟩
      rcases addVerified_keys g p k h with h' | ⟨rfl, h'⟩
      · exact hk h'
      · exact h' hb
    · refine ⟨by rw [addVerified_blMid]; split <;> exact hb, fun h => ?_⟩
      rcases addVerified_keys _ p k h with h' | ⟨rfl, h'⟩
      · apply hk; split at h' <;> exact h'
      · apply h'; split <;> exact hb
  | svcs p l => exact ⟨hb, hk⟩
  | rmPeer p =>
    refine ⟨hb, fun h => hk ?_⟩
    simp only [Graph.step, Graph.removePeer, Graph.keys, List.mem_map, List.mem_filter] at h ⊢
    obtain ⟨q, ⟨hq, _⟩, rfl⟩ := h; exact ⟨q, hq, rfl⟩
  | rmAddr a =>
    refine ⟨hb, fun h => hk ?_⟩
    simp only [Graph.step, Graph.removeByAddress, Graph.keys, List.mem_map, List.mem_filter] at h ⊢
    obtain ⟨q, ⟨hq, _⟩, rfl⟩ := h; exact ⟨q, hq, rfl⟩
  | blAddr a => exact ⟨hb, hk⟩
  | blMid k' => exact ⟨by simp [Graph.step, hb], hk⟩
  | setAddr k' slot a => exact ⟨hb, by rw [Graph.step, updateStored_keys]; exact hk⟩
  | load d => exact ⟨hb, hk⟩
  | qAddr a hint => exact ⟨hb, hk⟩
  | qKey k => exact ⟨hb, hk⟩
  | qSvc sv => exact ⟨hb, hk⟩
  | qWalk svc o => exact ⟨hb, hk⟩
  | qIntro k => exact ⟨hb, hk⟩

theorem run_blacklisted (g : Graph) (ops : List Op) (k : Key) (hb : k ∈ g.blMid) (hk : k ∉ g.keys) :
    k ∉ (g.run ops).keys := by
  induction ops generalizing g with
  | nil => exact hk
  | cons op t ih =>
    have := step_blacklisted g op k hb hk
    exact ih (g.step op) this.1 this.2

/-! ### cache bounds -/

structure Bounded (s : Net) : Prop where
  ip : s.ipCache.length ≤ s.ipCap
  intro : s.introCache.length ≤ s.introCap
  svc : s.svcCache.length ≤ s.svcCap

theorem length_aset_of_aget {α β : Type} [DecidableEq α] {k : α} {v v' : β} {l : List (α × β)}
    (h : aget k l = some v') : (aset k v l).length = l.length := by
  induction l with
  | nil => simp at h
  | cons e t ih =>
    obtain ⟨k', v''⟩ := e
    rw [aget_cons] at h
    by_cases hk : k' = k
    · simp [aset, hk]
    · simp only [hk, if_false] at h
      simp [aset, hk, ih h]

theorem length_touch_fold (k : Key) (svcs : List Svc) (c : List (Svc × List Key)) :
    (svcs.foldl (touchSvc k) c).length = c.length := by
  induction svcs generalizing c with
  | nil => rfl
  | cons sv t ih => rw [List.foldl_cons, ih]; simp [touchSvc]

theorem bounded_verifyNew {s : Net} (h : Bounded s) (p : Peer) : Bounded (s.verifyNew p) := by
  rw [verifyNew_eq]
  exact ⟨h.ip, h.intro, Nat.le_trans (List.length_filter_le _ _) h.svc⟩

theorem bounded_updateStored {s : Net} (h : Bounded s) (k : Key) (new : List (Nat × Addr)) :
    Bounded (s.updateStored k new) := by
  unfold Net.updateStored
  split
  · exact h
  · split <;> exact ⟨h.ip, h.intro, h.svc⟩

theorem bounded_addVerified {s : Net} (h : Bounded s) (p : Peer) : Bounded (s.addVerified p) := by
  rw [addVerified_eq]
  unfold Net.addVerifiedRef
  split; · exact h
  split; · exact bounded_updateStored h _ _
  split
  · split
    · exact h
    · exact bounded_verifyNew h p
  split
  · split
    · exact ⟨h.ip, h.intro, h.svc⟩
    · exact bounded_verifyNew (s := { s with g := { s.g with allAddr := addMissing s.g.allAddr p.addrList } })
        ⟨h.ip, h.intro, h.svc⟩ p
  · exact h

theorem bounded_step {s : Net} (h : Bounded s) (op : Op) : Bounded (step s op) := by
  cases op with
  | add p => exact bounded_addVerified h p
  | disc p a svc ns =>
    show Bounded (s.discoverAddress p a svc ns)
    unfold Net.discoverAddress
    split
    · exact bounded_addVerified h p
    · apply bounded_addVerified
      split
      · exact ⟨h.ip, by simpa [Net.introduce] using h.intro, h.svc⟩
      · exact h
  | svcs p l =>
    refine ⟨h.ip, h.intro, ?_⟩
    show (List.foldl (touchSvc p.key) s.svcCache l).length ≤ s.svcCap
    rw [length_touch_fold]; exact h.svc
  | rmPeer p =>
    show Bounded (s.removePeer p)
    rw [removePeer_eq]; exact ⟨h.ip, h.intro, h.svc⟩
  | rmAddr a =>
    show Bounded (s.removeByAddress a)
    rw [removeByAddress_eq]; exact ⟨h.ip, h.intro, h.svc⟩
  | blAddr a => exact ⟨h.ip, h.intro, h.svc⟩
  | blMid k => exact ⟨h.ip, h.intro, h.svc⟩
  | load d => exact ⟨h.ip, h.intro, h.svc⟩
  | setAddr k slot a => exact bounded_updateStored h k _
  | qAddr a hint =>
    show Bounded (s.getByAddr a hint).2
    have hd : (adel a s.ipCache).length ≤ s.ipCap := Nat.le_trans (length_adel_le _ _) h.ip
    unfold Net.getByAddr
    simp only
    split
    · exact ⟨length_lruPut hd, h.intro, h.svc⟩
    · exact ⟨hd, h.intro, h.svc⟩
  | qKey k => exact h
  | qSvc sv =>
    exact ⟨h.ip, h.intro, length_lruPut (Nat.le_trans (length_adel_le _ _) h.svc)⟩
  | qWalk svc o =>
    show Bounded (s.walkable svc o).2
    rw [walkable_state]
    cases truthy svc with
    | none => exact h
    | some sv => exact ⟨h.ip, h.intro, length_lruPut (Nat.le_trans (length_adel_le _ _) h.svc)⟩
  | qIntro k =>
    show Bounded (s.introsFrom k).2
    unfold Net.introsFrom
    split
    · rename_i l hl
      refine ⟨h.ip, ?_, h.svc⟩
      show (aset k (l.filter (s.g.introducedBy k)) s.introCache).length ≤ s.introCap
      rw [length_aset_of_aget hl]; exact h.intro
    · exact ⟨h.ip, length_lruPut h.intro, h.svc⟩

theorem bounded_run {s : Net} (h : Bounded s) (ops : List Op) : Bounded (run s ops) := by
  induction ops generalizing s with
  | nil => exact h
  | cons op t ih => exact ih (bounded_step h op)

/-! ### snapshot codec -/

theorem beDec_beEnc2 (n : Nat) (h : n < 65536) : beDec (beEnc 2 n) = n := by
  simp [beEnc, beDec]
  omega

theorem length_beEnc (w n : Nat) : (beEnc w n).length = w := by
  induction w generalizing n with
  | zero => rfl
  | succ w ih => simp [beEnc, ih]

theorem fit_eq {n : Nat} {b : Bytes} (h : b.length = n) : fit n b = b := by
  unfold fit; exact List.take_left' h

/-- well-formed address values: what `Address.pack` accepts without loss -/
def WFAddr (a : Addr) : Prop :=
  (a.kind = 4 ∧ a.host.length = Gen.v4HostLen ∧ a.port < 65536) ∨
  (a.kind = 6 ∧ a.host.length = Gen.v6HostLen ∧ a.port < 65536) ∨
  (a.kind = 0 ∧ a.host.length < 65536 ∧ utf8Valid a.host = true ∧ a.port < 65536)

theorem decode_encode (a : Addr) (rest : Bytes) (h : WFAddr a) :
    decodeAddr (encodeAddr a ++ rest) = some (a, (encodeAddr a).length) := by
  obtain ⟨kind, host, port⟩ := a
  rcases h with ⟨hk, hl, hp⟩ | ⟨hk, hl, hp⟩ | ⟨hk, hl, hasc, hp⟩
  · simp only at hk hl hp; subst hk
    have e1 : (host ++ (beEnc 2 port ++ rest)).take 4 = host := List.take_left' hl
    have e2 : (host ++ (beEnc 2 port ++ rest)).drop 4 = beEnc 2 port ++ rest := List.drop_left' hl
    have e3 : (beEnc 2 port ++ rest).take 2 = beEnc 2 port := List.take_left' (length_beEnc 2 port)
    have hl' : host.length = 4 := hl
    have hf : fit 4 host = host := fit_eq hl'
    simp [encodeAddr, decodeAddr, Gen.typeV4, Gen.v4HostLen, Gen.v4PortLen, Gen.v4HostLenUnpack, Gen.v4PortLenUnpack,
      Gen.v4Advance, hf, e1, e2, e3, beDec_beEnc2 port hp, length_beEnc, hl']
    omega
  · simp only at hk hl hp; subst hk
    have hl' : host.length = 16 := hl
    have e1 : (host ++ (beEnc 2 port ++ rest)).take 16 = host := List.take_left' hl
    have e2 : (host ++ (beEnc 2 port ++ rest)).drop 16 = beEnc 2 port ++ rest := List.drop_left' hl
    have e3 : (beEnc 2 port ++ rest).take 2 = beEnc 2 port := List.take_left' (length_beEnc 2 port)
    have hf : fit 16 host = host := fit_eq hl'
    simp [encodeAddr, decodeAddr, Gen.typeV4, Gen.typeV6, Gen.v6HostLen, Gen.v6PortLen, Gen.v6HostLenUnpack,
      Gen.v6PortLenUnpack, Gen.v6Advance, hf, e1, e2, e3, beDec_beEnc2 port hp, length_beEnc, hl']
    omega
  · simp only at hk hl hasc hp; subst hk
    have e0 : (beEnc 2 host.length ++ (host ++ (beEnc 2 port ++ rest))).take 2 = beEnc 2 host.length :=
      List.take_left' (length_beEnc 2 _)
    have e0' : (beEnc 2 host.length ++ (host ++ (beEnc 2 port ++ rest))).drop 2 = host ++ (beEnc 2 port ++ rest) :=
      List.drop_left' (length_beEnc 2 _)
    have e1 : (host ++ (beEnc 2 port ++ rest)).take host.length = host := List.take_left' rfl
    have e2 : (beEnc 2 host.length ++ (host ++ (beEnc 2 port ++ rest))).drop (2 + host.length)
        = beEnc 2 port ++ rest := by
      rw [← List.drop_drop, e0']; exact List.drop_left' rfl
    have e3 : (beEnc 2 port ++ rest).take 2 = beEnc 2 port := List.take_left' (length_beEnc 2 port)
    simp [encodeAddr, decodeAddr, Gen.typeV4, Gen.typeV6, Gen.typeDomain, Gen.domLenLen, Gen.domPortLen,
      Gen.domLenLenUnpack, Gen.domPortLenUnpack, Gen.domAdvance, e0, e0', e1, e2, e3, beDec_beEnc2 _ hp,
      beDec_beEnc2 _ hl, length_beEnc, hasc]
    constructor <;> omega

theorem encodeAddr_length_pos (a : Addr) : 0 < (encodeAddr a).length := by
  unfold encodeAddr; split
  · simp
  · split <;> simp

theorem decodeAll_encode (l : List Addr) (h : ∀ a ∈ l, WFAddr a) (fuel : Nat)
    (hf : (l.map encodeAddr).flatten.length ≤ fuel) : decodeAll fuel (l.map encodeAddr).flatten = l := by
  induction l generalizing fuel with
  | nil => cases fuel <;> simp [decodeAll]
  | cons a t ih =>
    have hpos := encodeAddr_length_pos a
    simp only [List.map_cons, List.flatten_cons, List.length_append] at hf ⊢
    cases fuel with
    | zero => omega
    | succ f =>
      have hne : (encodeAddr a ++ (t.map encodeAddr).flatten).isEmpty = false := by
        cases hx : encodeAddr a with
        | nil => rw [hx] at hpos; simp at hpos
        | cons x xs => rfl
      simp only [decodeAll, hne, decode_encode a _ (h a (List.mem_cons_self ..)), List.drop_left']
      rw [ih (fun b hb => h b (List.mem_cons_of_mem _ hb)) f (by omega)]
      simp

theorem mem_akeys_loadAddrs (all : List (Addr × WAddr)) (l : List Addr) (a : Addr) :
    a ∈ akeys (loadAddrs all l) ↔ a ∈ akeys all ∨ a ∈ l := by
  induction l generalizing all with
  | nil => simp [loadAddrs]
  | cons x t ih =>
    simp only [loadAddrs, ih, mem_akeys_aset, List.mem_cons]
    tauto

theorem mem_snapshotAddrs (g : Graph) (a : Addr) :
    a ∈ g.snapshotAddrs ↔ ∃ p ∈ g.verified, p.preferred = some a ∧ a ≠ zeroAddr := by
  unfold Graph.snapshotAddrs
  simp only [List.mem_filterMap, snapshotKeep_eq]
  constructor
  · rintro ⟨p, hp, h⟩
    cases hpref : p.preferred with
    | none => simp [hpref] at h
    | some a' =>
      simp only [hpref] at h
      by_cases hz : a' = zeroAddr
      · simp [hz] at h
      · simp only [hz, decide_false, Bool.not_false, if_true, Option.some.injEq] at h
        subst h; exact ⟨p, hp, hpref, hz⟩
  · rintro ⟨p, hp, h1, h2⟩
    exact ⟨p, hp, by simp [h1, h2]⟩

/-! ### consequences used by the property theorems -/

theorem run_append (s : Net) (xs ys : List Op) : run s (xs ++ ys) = run (run s xs) ys := by
  simp [run, List.foldl_append]

theorem run_queries_g (s : Net) (qs : List Op) (hq : ∀ op ∈ qs, op.isQuery = true) : (run s qs).g = s.g := by
  induction qs generalizing s with
  | nil => rfl
  | cons op t ih =>
    show (run (step s op) t).g = s.g
    rw [ih _ (fun o ho => hq o (List.mem_cons_of_mem _ ho)), query_g s op (hq op (List.mem_cons_self ..))]

/-- a key that is not in the membership set is returned by no lookup -/
theorem no_lookup_returns {s : Net} (h : Coherent s) {k : Key} (hk : k ∉ s.g.keys) :
    s.getByKey k = none ∧
    (∀ a hint q, (s.getByAddr a hint).1 = some q → q.key ≠ k) ∧
    (∀ sv, ∀ q ∈ (s.peersForService sv).1, q.key ≠ k) := by
  refine ⟨?_, ?_, ?_⟩
  · have := getByKey_ok h k
    cases hr : s.getByKey k with
    | none => rfl
    | some q =>
      rw [hr] at this
      exact absurd (mem_keys.2 ⟨q, this.1, this.2⟩) hk
  · intro a hint q hq hqk
    have := getByAddr_ok h a hint
    rw [hq] at this
    exact hk (mem_keys.2 ⟨q, this.1, hqk⟩)
  · intro sv q hq hqk
    exact hk (mem_keys.2 ⟨q, ((peersForService_ok h sv).2 q).1 hq |>.1, hqk⟩)

theorem getByKey_of_mem {s : Net} (h : Coherent s) {p : Peer} (hp : p ∈ s.g.verified) : s.getByKey p.key = some p := by
  have := getByKey_ok h p.key
  cases hr : s.getByKey p.key with
  | none => rw [hr] at this; exact absurd rfl (this p hp)
  | some q =>
    rw [hr] at this
    rw [same_of_key h.keysNodup this.1 hp this.2]

/-! ### address blacklist -/

theorem addMissing_akeys (all : List (Addr × WAddr)) (l : List Addr) (a : Addr) :
    a ∈ akeys (addMissing all l) ↔ a ∈ akeys all ∨ a ∈ l := by
  induction l generalizing all with
  | nil => simp [addMissing]
  | cons x t ih =>
    simp only [addMissing, ih, List.mem_cons]
    split
    · rename_i hx
      have : x ∈ akeys all := aget_isSome_iff.1 hx
      constructor
      · rintro (h | h)
        · exact Or.inl h
        · exact Or.inr (Or.inr h)
      · rintro (h | rfl | h)
        · exact Or.inl h
        · exact Or.inl this
        · exact Or.inr h
    · rw [mem_akeys_aset]; tauto

theorem addVerified_blAddr (g : Graph) (p : Peer) : (g.addVerified p).blAddr = g.blAddr := by
  unfold Graph.addVerified
  split; · rfl
  split; · rfl
  split; · rfl
  split <;> rfl

theorem addVerified_unknown (g : Graph) (p : Peer) (a : Addr) (hb : a ∈ g.blAddr) (hk : a ∉ akeys g.allAddr) :
    a ∉ akeys (g.addVerified p).allAddr := by
  unfold Graph.addVerified
  split; · exact hk
  split; · exact hk
  split; · exact hk
  split
  · rename_i hall
    simp only [List.all_eq_true, Bool.not_eq_true', decide_eq_false_iff_not] at hall
    show a ∉ akeys (addMissing g.allAddr p.addrList)
    rw [addMissing_akeys]
    rintro (h | h)
    · exact hk h
    · exact hall a h hb
  · exact hk

theorem step_blAddr (g : Graph) (op : Op) (a : Addr) (hl : op.isLoad = false) (hb : a ∈ g.blAddr)
    (hk : a ∉ akeys g.allAddr) : a ∈ (g.step op).blAddr ∧ a ∉ akeys (g.step op).allAddr := by
  cases op with
  | add p => exact ⟨by rw [Graph.step, addVerified_blAddr]; exact hb, addVerified_unknown g p a hb hk⟩
  | disc p x svc ns =>
    simp only [Graph.step, Graph.discoverAddress]
    split
    · exact ⟨by rw [addVerified_blAddr]; exact hb, addVerified_unknown g p a hb hk⟩
    · rename_i hx
      split
      · refine ⟨by rw [addVerified_blAddr]; exact hb, addVerified_unknown _ p a hb ?_⟩
        show a ∉ akeys (aset x _ g.allAddr)
        rw [mem_akeys_aset]
        rintro (h | h)
        · exact hk h
        · exact hx (h ▸ hb)
      · exact ⟨by rw [addVerified_blAddr]; exact hb, addVerified_unknown g p a hb hk⟩
  | svcs p l => exact ⟨hb, hk⟩
  | rmPeer p =>
    refine ⟨hb, fun h => hk ?_⟩
    simp only [Graph.step, Graph.removePeer, akeys, List.mem_map, List.mem_filter] at h ⊢
    obtain ⟨e, ⟨he, _⟩, rfl⟩ := h; exact ⟨e, he, rfl⟩
  | rmAddr x =>
    refine ⟨hb, fun h => hk ?_⟩
    simp only [Graph.step, Graph.removeByAddress, adel, akeys, List.mem_map, List.mem_filter] at h ⊢
    obtain ⟨e, ⟨he, _⟩, rfl⟩ := h; exact ⟨e, he, rfl⟩
  | blAddr x => exact ⟨by simp [Graph.step, hb], hk⟩
  | blMid k' => exact ⟨hb, hk⟩
  | setAddr k' slot a' => exact ⟨hb, hk⟩
  | load d => simp [Op.isLoad] at hl
  | qAddr x hint => exact ⟨hb, hk⟩
  | qKey k => exact ⟨hb, hk⟩
  | qSvc sv => exact ⟨hb, hk⟩
  | qWalk svc o => exact ⟨hb, hk⟩
  | qIntro k => exact ⟨hb, hk⟩

theorem run_blAddr (g : Graph) (ops : List Op) (a : Addr) (hl : ∀ op ∈ ops, op.isLoad = false) (hb : a ∈ g.blAddr)
    (hk : a ∉ akeys g.allAddr) : a ∉ akeys (g.run ops).allAddr := by
  induction ops generalizing g with
  | nil => exact hk
  | cons op t ih =>
    have := step_blAddr g op a (hl op (List.mem_cons_self ..)) hb hk
    exact ih (g.step op) (fun o ho => hl o (List.mem_cons_of_mem _ ho)) this.1 this.2



/-- a peer that shows up with nothing but a blacklisted, unknown address is ignored by add_verified_peer -/
theorem addVerified_only_blacklisted (g : Graph) (p : Peer) (x : Addr) (hb : x ∈ g.blAddr) (hk : x ∉ akeys g.allAddr)
    (hne : p.addrList ≠ []) (hall : ∀ y ∈ p.addrList, y = x) (hkey : p.key ∉ g.keys) : g.addVerified p = g := by
  unfold Graph.addVerified
  by_cases hm : p.key ∈ g.blMid
  · rw [if_pos hm]
  rw [if_neg hm, if_neg hkey]
  have h1 : (p.addrList.any fun a => g.knownAddr a) = false := by
    rw [Bool.eq_false_iff]
    intro h
    obtain ⟨y, hy, hy'⟩ := List.any_eq_true.1 h
    rw [hall y hy] at hy'
    exact hk (aget_isSome_iff.1 hy')
  have h2 : (p.addrList.all fun a => !decide (a ∈ g.blAddr)) = false := by
    rw [Bool.eq_false_iff]
    intro h
    obtain ⟨y, hy⟩ := List.exists_mem_of_ne_nil _ hne
    have := List.all_eq_true.1 h y hy
    rw [hall y hy] at this
    simp [hb] at this
  simp [h1, h2]

theorem step_only_blacklisted (g : Graph) (op : Op) (x : Addr) (k : Key) (hl : op.isLoad = false)
    (hb : x ∈ g.blAddr) (hk : x ∉ akeys g.allAddr) (hkey : k ∉ g.keys)
    (hp : ∀ p, op.verifies = some p → p.key = k → p.addrList ≠ [] ∧ ∀ y ∈ p.addrList, y = x) :
    k ∉ (g.step op).keys := by
  cases op with
  | add p =>
    by_cases hpk : p.key = k
    · obtain ⟨hne, hall⟩ := hp p rfl hpk
      rw [Graph.step, addVerified_only_blacklisted g p x hb hk hne hall (hpk ▸ hkey)]; exact hkey
    · intro h
      rcases addVerified_keys g p k h with h' | ⟨h', _⟩
      · exact hkey h'
      · exact hpk h'.symm
  | disc p y svc ns =>
    have key : ∀ g1 : Graph, g1.keys = g.keys → g1.blAddr = g.blAddr → x ∉ akeys g1.allAddr →
        k ∉ (g1.addVerified p).keys := by
      intro g1 e1 e2 e3
      by_cases hpk : p.key = k
      · obtain ⟨hne, hall⟩ := hp p rfl hpk
        rw [addVerified_only_blacklisted g1 p x (e2 ▸ hb) e3 hne hall (by rw [e1, hpk]; exact hkey), e1]; exact hkey
      · intro h
        rcases addVerified_keys g1 p k h with h' | ⟨h', _⟩
        · exact hkey (e1 ▸ h')
        · exact hpk h'.symm
    simp only [Graph.step, Graph.discoverAddress]
    split
    · exact key g rfl rfl hk
    · rename_i hy
      split
      · refine key { g with allAddr := aset y ⟨some p.key, svc, ns⟩ g.allAddr } rfl rfl ?_
        show x ∉ akeys (aset y _ g.allAddr)
        rw [mem_akeys_aset]
        rintro (h | h)
        · exact hk h
        · exact hy (h ▸ hb)
      · exact key g rfl rfl hk
  | svcs p l => exact hkey
  | rmPeer p =>
    intro h; apply hkey
    simp only [Graph.step, Graph.removePeer, Graph.keys, List.mem_map, List.mem_filter] at h ⊢
    obtain ⟨q, ⟨hq, _⟩, rfl⟩ := h; exact ⟨q, hq, rfl⟩
  | rmAddr a =>
    intro h; apply hkey
    simp only [Graph.step, Graph.removeByAddress, Graph.keys, List.mem_map, List.mem_filter] at h ⊢
    obtain ⟨q, ⟨hq, _⟩, rfl⟩ := h; exact ⟨q, hq, rfl⟩
  | blAddr a => exact hkey
  | blMid k' => exact hkey
  | setAddr k' slot a => rw [Graph.step, updateStored_keys]; exact hkey
  | load d => simp [Op.isLoad] at hl
  | qAddr a hint => exact hkey
  | qKey k' => exact hkey
  | qSvc sv => exact hkey
  | qWalk svc o => exact hkey
  | qIntro k' => exact hkey

theorem run_only_blacklisted (g : Graph) (ops : List Op) (x : Addr) (k : Key)
    (hl : ∀ op ∈ ops, op.isLoad = false) (hb : x ∈ g.blAddr) (hk : x ∉ akeys g.allAddr) (hkey : k ∉ g.keys)
    (hp : ∀ op ∈ ops, ∀ p, op.verifies = some p → p.key = k → p.addrList ≠ [] ∧ ∀ y ∈ p.addrList, y = x) :
    k ∉ (g.run ops).keys := by
  induction ops generalizing g with
  | nil => exact hkey
  | cons op t ih =>
    have h1 := step_blAddr g op x (hl op (List.mem_cons_self ..)) hb hk
    have h2 := step_only_blacklisted g op x k (hl op (List.mem_cons_self ..)) hb hk hkey (hp op (List.mem_cons_self ..))
    exact ih (g.step op) (fun o ho => hl o (List.mem_cons_of_mem _ ho)) h1.1 h1.2 h2
      (fun o ho => hp o (List.mem_cons_of_mem _ ho))

/-- when add_verified_peer makes a key verified, at least one of the addresses it came with is a known address -/
theorem addVerified_known_address (g : Graph) (p : Peer) (hk : p.key ∉ g.keys) (hk' : p.key ∈ (g.addVerified p).keys)
    (hne : p.addrList ≠ []) : ∃ x ∈ p.addrList, x ∈ akeys (g.addVerified p).allAddr := by
  unfold Graph.addVerified at hk' ⊢
  by_cases hm : p.key ∈ g.blMid
  · rw [if_pos hm] at hk'; exact absurd hk' hk
  rw [if_neg hm, if_neg hk] at hk' ⊢
  by_cases hany : (p.addrList.any fun a => g.knownAddr a) = true
  · rw [if_pos hany]
    obtain ⟨y, hy, hy'⟩ := List.any_eq_true.1 hany
    exact ⟨y, hy, aget_isSome_iff.1 hy'⟩
  · rw [if_neg hany] at hk' ⊢
    by_cases hall : (p.addrList.all fun a => !decide (a ∈ g.blAddr)) = true
    · rw [if_pos hall]
      obtain ⟨y, hy⟩ := List.exists_mem_of_ne_nil _ hne
      exact ⟨y, hy, (addMissing_akeys _ _ _).2 (Or.inr hy)⟩
    · rw [if_neg hall] at hk'; exact absurd hk' hk


/-- every entry load_snapshot writes is `WalkableAddress(b"", None, False)` -/
theorem loadAddrs_entries (all : List (Addr × WAddr)) (l : List Addr) (a : Addr) (w : WAddr)
    (h : (a, w) ∈ loadAddrs all l) : (a, w) ∈ all ∨ w = ⟨none, none, false⟩ := by
  induction l generalizing all with
  | nil => exact Or.inl h
  | cons x t ih =>
    rcases ih _ h with h1 | h1
    · rcases mem_aset h1 with h2 | h2
      · exact Or.inl h2
      · right; simp only [Prod.mk.injEq] at h2; exact h2.2
    · exact Or.inr h1

theorem truthy_some {sv : Svc} (h : sv ≠ 0) : truthy (some sv) = some sv := by
  cases sv with
  | zero => exact absurd rfl h
  | succ n => rfl

end Ipv8.C12
