/-
  C12 — executable model of ipv8/peerdiscovery/network.py (`Network`) and the parts of ipv8/peer.py it uses.
  Core Lean only (the driver links against this file).

  What is mirrored (function by function, quirks included):
    add_verified_peer, discover_address, discover_services, remove_peer, remove_by_address, load_snapshot,
    get_verified_by_address, get_verified_by_public_key_bin, get_peers_for_service, get_walkable_addresses,
    get_introductions_from, get_services_for_peer, is_new_style, snapshot — including the side effects of the
    queries on the three OrderedDict caches (reverse_ip_lookup / reverse_intro_lookup / reverse_service_lookup)
    and their size caps.

  Representation
    * dicts / OrderedDicts are association lists in insertion order (`aget`/`aset`/`adel`); `aset` on an existing key
      keeps its position (Python semantics), `lruPut` appends and pops the oldest entry when the cap is exceeded;
    * a `Peer` is its key plus the `addresses` dict (slot = address class: 0 UDPv4Address, 1 UDPv6Address, 2 tuple);
      the graph holds one record per key.  Python object identity is modelled only where the code tests it
      (`is` in get_verified_by_address): the index maps a key to the *generation number* of the stored object (a fresh
      number each time a key becomes verified), and reverse_ip_lookup remembers (key, generation);
    * `_all_addresses`, `verified_peers`, `services_per_peer` and the two blacklists form the `Graph`; the index
      `verified_by_public_key_bin` and the caches sit beside it in `Net`.
-/
import Ipv8.C12.Gen

namespace Ipv8.C12

abbrev Key := Nat
abbrev Svc := Nat
abbrev Bytes := List UInt8

/-- an address value `(host text, port)`; `kind` says which text form the host has (4 IPv4, 6 IPv6, 0 host name)
    and `host` holds the packed bytes (inet_pton / UTF-8) -/
structure Addr where
  kind : Nat
  host : Bytes
  port : Nat
deriving DecidableEq, Repr

structure Peer where
  key : Key
  addrs : List (Nat × Addr)
deriving DecidableEq, Repr

/-- `WalkableAddress(introduced_by, services, new_style)`; `intro = none` is `b""` -/
structure WAddr where
  intro : Option Key
  svc : Option Svc
  newStyle : Bool
deriving DecidableEq, Repr

/-! ### association lists -/
section alist
variable {α β : Type} [DecidableEq α]

def aget (k : α) : List (α × β) → Option β
  | [] => none
  | (k', v) :: t => if k' = k then some v else aget k t

/-- `d[k] = v`: replace in place, or append -/
def aset (k : α) (v : β) : List (α × β) → List (α × β)
  | [] => [(k, v)]
  | (k', v') :: t => if k' = k then (k, v) :: t else (k', v') :: aset k v t

/-- `d.pop(k, None)` -/
def adel (k : α) (l : List (α × β)) : List (α × β) := l.filter (fun e => !decide (e.1 = k))

def akeys (l : List (α × β)) : List α := l.map (·.1)

/-- `d[k] = v` for a key that is not present, then `if len(d) > cap: d.popitem(False)` -/
def lruPut (l : List (α × β)) (k : α) (v : β) (cap : Nat) : List (α × β) :=
  let l' := l ++ [(k, v)]
  if l'.length > cap then l'.tail else l'

end alist

/-! ### peers -/
def Peer.addrList (p : Peer) : List Addr := p.addrs.map (·.2)

def Peer.hasAddr (p : Peer) (a : Addr) : Bool := decide (a ∈ p.addrList)

/-- `known.addresses.update(peer.addresses)` -/
def updateAddrs (old new : List (Nat × Addr)) : List (Nat × Addr) :=
  new.foldl (fun acc sa => aset sa.1 sa.2 acc) old

/-- `Peer.address`: first slot of INTERFACE_ORDER that is present -/
def preferredIn (order : List Nat) (addrs : List (Nat × Addr)) : Option Addr :=
  match order with
  | [] => none
  | s :: rest => match aget s addrs with
    | some a => some a
    | none => preferredIn rest addrs

def Peer.preferred (p : Peer) : Option Addr := preferredIn Gen.interfaceOrder p.addrs

/-! ### the graph proper -/
structure Graph where
  allAddr : List (Addr × WAddr) := []
  verified : List Peer := []
  services : List (Key × List Svc) := []
  blAddr : List Addr := []
  blMid : List Key := []
deriving Repr

namespace Graph
def keys (g : Graph) : List Key := g.verified.map (·.key)
def servicesOf (g : Graph) (k : Key) : List Svc := (aget k g.services).getD []
def hasService (g : Graph) (k : Key) (sv : Svc) : Bool := decide (sv ∈ g.servicesOf k)
def find (g : Graph) (k : Key) : Option Peer := g.verified.find? (fun p => decide (p.key = k))
def knownAddr (g : Graph) (a : Addr) : Bool := (aget a g.allAddr).isSome
end Graph

structure Net where
  g : Graph := {}
  byKey : List (Key × Nat) := []
  nextGen : Nat := 0
  ipCache : List (Addr × (Key × Nat)) := []
  introCache : List (Key × List Addr) := []
  svcCache : List (Svc × List Key) := []
  ipCap : Nat := Gen.defaultIpCap
  introCap : Nat := Gen.defaultIntroCap
  svcCap : Nat := Gen.defaultSvcCap
deriving Repr

/-- `key in verified_by_public_key_bin` -/
def Net.known (s : Net) (k : Key) : Bool := (aget k s.byKey).isSome

/-- identity of the object stored for a key -/
def Net.genOf (s : Net) (k : Key) : Nat := (aget k s.byKey).getD 0

def init (ipCap introCap svcCap : Nat) : Net := { ipCap := ipCap, introCap := introCap, svcCap := svcCap }

/-- `_all_addresses[a] = WalkableAddress(b"", None, False)` for the addresses that are not known yet -/
def addMissing (all : List (Addr × WAddr)) : List Addr → List (Addr × WAddr)
  | [] => all
  | a :: rest => addMissing (if (aget a all).isSome then all else aset a ⟨none, none, false⟩ all) rest

/-- the three lines that make a peer verified, plus the service-cache invalidation that follows them -/
def Net.verifyNew (s : Net) (p : Peer) : Net :=
  { s with g := { s.g with verified := s.g.verified ++ [p] },
           byKey := aset p.key s.nextGen s.byKey,
           nextGen := s.nextGen + 1,
           svcCache := s.svcCache.filter (fun e => !s.g.hasService p.key e.1) }

def Net.addVerified (s : Net) (p : Peer) : Net :=
  if p.key ∈ s.g.blMid then s
  else if s.known p.key then
    let v := s.g.verified.map (fun q => if q.key = p.key then { q with addrs := updateAddrs q.addrs p.addrs } else q)
    { s with g := { s.g with verified := v } }
  else if p.addrList.any (fun a => s.g.knownAddr a) then
    if p.key ∈ s.g.keys then s else s.verifyNew p
  else if p.addrList.all (fun a => !decide (a ∈ s.g.blAddr)) then
    let s1 := { s with g := { s.g with allAddr := addMissing s.g.allAddr p.addrList } }
    if p.key ∈ s.g.keys then s1 else s1.verifyNew p
  else s

/-- `address not in _all_addresses or _all_addresses[address].introduced_by not in verified_by_public_key_bin`
    ("this is a new address, or our previous parent has been removed") -/
def needsIntro (all : List (Addr × WAddr)) (known : Key → Bool) (a : Addr) : Bool :=
  match aget a all with
  | none => true
  | some w => match w.intro with
    | none => true
    | some k => !known k

/-- record `address` as introduced by `k`; a cached introduction list of `k` is extended, none is created -/
def Net.introduce (s : Net) (k : Key) (a : Addr) (svc : Option Svc) (newStyle : Bool) : Net :=
  { s with g := { s.g with allAddr := aset a ⟨some k, svc, newStyle⟩ s.g.allAddr },
           introCache := s.introCache.map (fun e => if e.1 = k then (e.1, e.2 ++ [a]) else e) }

def Net.discoverAddress (s : Net) (p : Peer) (a : Addr) (svc : Option Svc) (newStyle : Bool) : Net :=
  if a ∈ s.g.blAddr then s.addVerified p
  else
    let reassign : Bool := needsIntro s.g.allAddr s.known a
    let s1 : Net := if reassign then s.introduce p.key a svc newStyle else s
    s1.addVerified p

/-- `services_per_peer[k] |= set(services)` -/
def unionSvcs (old new : List Svc) : List Svc :=
  new.foldl (fun acc sv => if sv ∈ acc then acc else acc ++ [sv]) old

/-- the body of the `for service in services` loop of discover_services -/
def touchSvc (k : Key) (cache : List (Svc × List Key)) (sv : Svc) : List (Svc × List Key) :=
  cache.map (fun e => if e.1 = sv then (e.1, e.2.erase k ++ [k]) else e)

def Net.discoverServices (s : Net) (p : Peer) (svcs : List Svc) : Net :=
  { s with g := { s.g with services := aset p.key (unionSvcs (s.g.servicesOf p.key) svcs) s.g.services },
           svcCache := svcs.foldl (touchSvc p.key) s.svcCache }

def Net.removePeer (s : Net) (p : Peer) : Net :=
  { s with g := { s.g with allAddr := s.g.allAddr.filter (fun e => !p.hasAddr e.1),
                           verified := s.g.verified.filter (fun q => !decide (q.key = p.key)),
                           services := adel p.key s.g.services },
           byKey := adel p.key s.byKey }

def Net.removeByAddress (s : Net) (a : Addr) : Net :=
  let gone : List Key := (s.g.verified.filter (fun q => q.hasAddr a)).map (·.key)
  { s with g := { s.g with allAddr := adel a s.g.allAddr,
                           verified := s.g.verified.filter (fun q => !q.hasAddr a),
                           services := s.g.services.filter (fun e => !decide (e.1 ∈ gone)) },
           byKey := s.byKey.filter (fun e => !decide (e.1 ∈ gone)) }

/-! ### snapshot codec (`default_serializer.pack/unpack("address", …)`) -/
def beEnc : Nat → Nat → Bytes
  | 0, _ => []
  | w + 1, n => beEnc w (n / 256) ++ [UInt8.ofNat (n % 256)]

def beDec (b : Bytes) : Nat := b.foldl (fun acc x => acc * 256 + x.toNat) 0

/-- struct's `<n>s`: truncate or zero-pad -/
def fit (n : Nat) (b : Bytes) : Bytes := (b ++ List.replicate n 0).take n

def encodeAddr (a : Addr) : Bytes :=
  if a.kind = 4 then [UInt8.ofNat Gen.typeV4] ++ fit Gen.v4HostLen a.host ++ beEnc Gen.v4PortLen a.port
  else if a.kind = 6 then [UInt8.ofNat Gen.typeV6] ++ fit Gen.v6HostLen a.host ++ beEnc Gen.v6PortLen a.port
  else [UInt8.ofNat Gen.typeDomain] ++ beEnc Gen.domLenLen a.host.length ++ a.host ++ beEnc Gen.domPortLen a.port

/-- host names: only ASCII is modelled (`bytes.decode()` raises on invalid UTF-8; valid multi-byte text is outside
    the model and not generated by the harness) -/
def asciiOnly (b : Bytes) : Bool := b.all (fun x => x.toNat < 128)

/-- `Address.unpack` on the bytes from `offset` on: the address and the number of bytes the offset advances;
    `none` = the call raises (struct.error, PackError, UnicodeDecodeError) -/
def decodeAddr (d : Bytes) : Option (Addr × Nat) :=
  match d with
  | [] => none
  | t :: rest =>
    if t.toNat = Gen.typeV4 then
      if rest.length < Gen.v4HostLenUnpack + Gen.v4PortLenUnpack then none
      else some (⟨4, rest.take Gen.v4HostLenUnpack,
                  beDec ((rest.drop Gen.v4HostLenUnpack).take Gen.v4PortLenUnpack)⟩, Gen.v4Advance)
    else if t.toNat = Gen.typeV6 then
      if rest.length < Gen.v6HostLenUnpack + Gen.v6PortLenUnpack then none
      else some (⟨6, rest.take Gen.v6HostLenUnpack,
                  beDec ((rest.drop Gen.v6HostLenUnpack).take Gen.v6PortLenUnpack)⟩, Gen.v6Advance)
    else if t.toNat = Gen.typeDomain then
      if rest.length < Gen.domLenLenUnpack then none
      else
        let n := beDec (rest.take Gen.domLenLenUnpack)
        let host := (rest.drop Gen.domLenLenUnpack).take n
        if rest.length < Gen.domLenLenUnpack + n + Gen.domPortLenUnpack then none
        else if !asciiOnly host then none
        else some (⟨0, host, beDec ((rest.drop (Gen.domLenLenUnpack + n)).take Gen.domPortLenUnpack)⟩,
                   Gen.domAdvance + n)
    else none

/-- the `while offset < snaplen` loop of load_snapshot: the first failing entry aborts the load -/
def decodeAll : Nat → Bytes → List Addr
  | 0, _ => []
  | fuel + 1, d =>
    if d.isEmpty then []
    else match decodeAddr d with
      | none => []
      | some (a, n) => a :: decodeAll fuel (d.drop n)

def loadAddrs (all : List (Addr × WAddr)) : List Addr → List (Addr × WAddr)
  | [] => all
  | a :: rest => loadAddrs (aset a ⟨none, none, false⟩ all) rest

def Net.loadSnapshot (s : Net) (d : Bytes) : Net :=
  { s with g := { s.g with allAddr := loadAddrs s.g.allAddr (decodeAll d.length d) } }

def zeroAddr : Addr := ⟨4, [0, 0, 0, 0], 0⟩

/-- the addresses snapshot() writes, in `verified_peers` order (a Python set: the real order is unspecified) -/
def Graph.snapshotAddrs (g : Graph) : List Addr :=
  g.verified.filterMap (fun p => match p.preferred with
    | some a => if a = zeroAddr then none else some a
    | none => none)

def Graph.snapshot (g : Graph) : Bytes := (g.snapshotAddrs.map encodeAddr).flatten

/-! ### queries (answer, state after the query) -/

/-- The peer `get_verified_by_address` returns.  Which of several verified peers on one address it is depends on the
    iteration order of the `verified_peers` set and on what the cache happens to hold; every one of them is a correct
    answer.  `hint` (the harness passes the implementation's choice) therefore wins whenever it names a verified peer
    using the address; without a usable hint: a valid cache entry (the index still maps the key to the same object
    generation and the peer still has the address), else the first peer of the scan. -/
def Net.chooseByAddr (s : Net) (a : Addr) (hint : Option Key) : Option Peer :=
  let cands := s.g.verified.filter (fun p => p.hasAddr a)
  let hinted : Option Peer := match hint with
    | some k => cands.find? (fun p => decide (p.key = k))
    | none => none
  let cached : Option Peer := match aget a s.ipCache with
    | some (k, gen) =>
      if aget k s.byKey = some gen then s.g.verified.find? (fun p => decide (p.key = k) && p.hasAddr a) else none
    | none => none
  match hinted with
  | some p => some p
  | none => match cached with
    | some p => some p
    | none => cands.head?

/-- pop the entry, answer, re-insert the answer at the young end (evicting the oldest entry beyond the cap) -/
def Net.getByAddr (s : Net) (a : Addr) (hint : Option Key) : Option Peer × Net :=
  let ip1 := adel a s.ipCache
  match s.chooseByAddr a hint with
  | some p => (some p, { s with ipCache := lruPut ip1 a (p.key, s.genOf p.key) s.ipCap })
  | none => (none, { s with ipCache := ip1 })

def Net.getByKey (s : Net) (k : Key) : Option Peer :=
  if s.known k then s.g.find k else none

def Net.peersForService (s : Net) (sv : Svc) : List Peer × Net :=
  let cache1 := adel sv s.svcCache
  let out : List Peer := match aget sv s.svcCache with
    | none => s.g.verified.filter (fun p => s.g.hasService p.key sv)
    | some l => (l.filter (fun k => decide (k ∈ s.g.keys) && s.g.hasService k sv)).filterMap (fun k => s.g.find k)
  (out, { s with svcCache := lruPut cache1 sv (out.map (·.key)) s.svcCap })

def Graph.walkFilter (g : Graph) (sv : Svc) (oldStyle : Bool) (a : Addr) : Bool :=
  match aget a g.allAddr with
  | none => false
  | some w =>
    if oldStyle && w.newStyle then false
    else
      let fromIntro : Bool := match w.intro with
        | some k => g.hasService k sv
        | none => false
      fromIntro || decide (w.svc = some sv)

def Net.walkable (s : Net) (svc : Option Svc) (oldStyle : Bool) : List Addr × Net :=
  match svc with
  | none =>
    let taken := s.g.verified.flatMap (·.addrList)
    ((akeys s.g.allAddr).filter (fun a => !decide (a ∈ taken)), s)
  | some sv =>
    let (known, s') := s.peersForService sv
    let taken := known.flatMap (·.addrList)
    (((akeys s.g.allAddr).filter (fun a => !decide (a ∈ taken))).filter (s.g.walkFilter sv oldStyle), s')

def Graph.introducedBy (g : Graph) (k : Key) (a : Addr) : Bool :=
  match aget a g.allAddr with
  | some w => decide (w.intro = some k)
  | none => false

def Net.introsFrom (s : Net) (k : Key) : List Addr × Net :=
  match aget k s.introCache with
  | some l =>
    let l' := l.filter (s.g.introducedBy k)
    (l', { s with introCache := aset k l' s.introCache })
  | none =>
    let l := akeys (s.g.allAddr.filter (fun e => decide (e.2.intro = some k)))
    (l, { s with introCache := lruPut s.introCache k l s.introCap })

def Net.servicesFor (s : Net) (k : Key) : List Svc := s.g.servicesOf k

def Net.isNewStyle (s : Net) (a : Addr) : Bool :=
  match aget a s.g.allAddr with
  | some w => w.newStyle
  | none => false

/-! ### histories -/
inductive Op where
  | add (p : Peer)
  | disc (p : Peer) (a : Addr) (svc : Option Svc) (newStyle : Bool)
  | svcs (p : Peer) (l : List Svc)
  | rmPeer (p : Peer)
  | rmAddr (a : Addr)
  | blAddr (a : Addr)
  | blMid (k : Key)
  | load (d : Bytes)
  | qAddr (a : Addr) (hint : Option Key)
  | qKey (k : Key)
  | qSvc (sv : Svc)
  | qWalk (svc : Option Svc) (oldStyle : Bool)
  | qIntro (k : Key)
deriving Repr

def Op.isQuery : Op → Bool
  | .qAddr .. | .qKey .. | .qSvc .. | .qWalk .. | .qIntro .. => true
  | _ => false

def step (s : Net) : Op → Net
  | .add p => s.addVerified p
  | .disc p a svc ns => s.discoverAddress p a svc ns
  | .svcs p l => s.discoverServices p l
  | .rmPeer p => s.removePeer p
  | .rmAddr a => s.removeByAddress a
  | .blAddr a => { s with g := { s.g with blAddr := s.g.blAddr ++ [a] } }
  | .blMid k => { s with g := { s.g with blMid := s.g.blMid ++ [k] } }
  | .load d => s.loadSnapshot d
  | .qAddr a h => (s.getByAddr a h).2
  | .qKey _ => s
  | .qSvc sv => (s.peersForService sv).2
  | .qWalk svc o => (s.walkable svc o).2
  | .qIntro k => (s.introsFrom k).2

def run (s : Net) (ops : List Op) : Net := ops.foldl step s

end Ipv8.C12
