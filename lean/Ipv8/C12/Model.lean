/-
  C12 — executable model of ipv8/peerdiscovery/network.py (`Network`) and the parts of ipv8/peer.py it uses.
  Core Lean only (the driver links against this file).

  What is mirrored (function by function, quirks included):
    add_verified_peer, discover_address, discover_services, remove_peer, remove_by_address, load_snapshot,
    get_verified_by_address, get_verified_by_public_key_bin, get_peers_for_service, get_walkable_addresses,
    get_introductions_from, get_services_for_peer, is_new_style, snapshot — including the side effects of the
    queries on the three OrderedDict caches (reverse_ip_lookup / reverse_intro_lookup / reverse_service_lookup)
    and their size caps.

  Representation
    * dicts / OrderedDicts are association lists in insertion order (`aget`/`aset`/`adel`); `aset` on an existing key
      keeps its position (Python semantics), `lruPut` appends and pops the oldest entry when the cap is exceeded;
    * a `Peer` is its key, the `addresses` dict (slot = address class: 0 UDPv4Address, 1 UDPv6Address, 2 tuple,
      3 UDPv4LANAddress, 4 DomainAddress, …) and the address it was constructed with (`Peer._address` start value);
      the graph holds one record per key.  Python object identity is modelled only where the code tests it
      (`is` in get_verified_by_address): the index maps a key to the *generation number* of the stored object (a fresh
      number each time a key becomes verified), and reverse_ip_lookup remembers (key, generation);
    * `_all_addresses`, `verified_peers`, `services_per_peer` and the two blacklists form the `Graph`; the index
      `verified_by_public_key_bin` and the caches sit beside it in `Net`.
-/
import Ipv8.C12.Gen

namespace Ipv8.C12

abbrev Key := Nat
/-- service ids; 0 stands for the empty byte string `b""` (falsy in Python) -/
abbrev Svc := Nat
abbrev Bytes := List UInt8

/-- an address value `(host text, port)`; `kind` says which text form the host has (4 IPv4, 6 IPv6, 0 host name)
    and `host` holds the packed bytes (inet_pton / UTF-8) -/
structure Addr where
  kind : Nat
  host : Bytes
  port : Nat
deriving DecidableEq, Repr

structure Peer where
  key : Key
  addrs : List (Nat × Addr)
  /-- `Peer(key, address)`: the start value of `_address`; it stays the preferred address for as long as no class of
      INTERFACE_ORDER is present in `addresses` (`_update_preferred_address` leaves `_address` alone then) -/
  ctor : Option Addr := none
deriving DecidableEq, Repr

/-- `WalkableAddress(introduced_by, services, new_style)`; `intro = none` is `b""` -/
structure WAddr where
  intro : Option Key
  svc : Option Svc
  newStyle : Bool
deriving DecidableEq, Repr

/-! ### association lists -/
section alist
variable {α β : Type} [DecidableEq α]

def aget (k : α) : List (α × β) → Option β
  | [] => none
  | (k', v) :: t => if k' = k then some v else aget k t

/-- `d[k] = v`: replace in place, or append -/
def aset (k : α) (v : β) : List (α × β) → List (α × β)
  | [] => [(k, v)]
  | (k', v') :: t => if k' = k then (k, v) :: t else (k', v') :: aset k v t

/-- `d.pop(k, None)` -/
def adel (k : α) (l : List (α × β)) : List (α × β) := l.filter (fun e => !decide (e.1 = k))

def akeys (l : List (α × β)) : List α := l.map (·.1)

/-- `d[k] = v` for a key that is not present, then `if len(d) > cap: d.popitem(False)` -/
def lruPut (l : List (α × β)) (k : α) (v : β) (cap : Nat) : List (α × β) :=
  let l' := l ++ [(k, v)]
  if l'.length > cap then l'.tail else l'

end alist

/-! ### peers -/
def Peer.addrList (p : Peer) : List Addr := p.addrs.map (·.2)

def Peer.hasAddr (p : Peer) (a : Addr) : Bool := decide (a ∈ p.addrList)

/-- `known.addresses.update(peer.addresses)` -/
def updateAddrs (old new : List (Nat × Addr)) : List (Nat × Addr) :=
  new.foldl (fun acc sa => aset sa.1 sa.2 acc) old

/-- `Peer.address`: first slot of INTERFACE_ORDER that is present -/
def preferredIn (order : List Nat) (addrs : List (Nat × Addr)) : Option Addr :=
  match order with
  | [] => none
  | s :: rest => match aget s addrs with
    | some a => some a
    | none => preferredIn rest addrs

def Peer.preferred (p : Peer) : Option Addr :=
  match preferredIn Gen.interfaceOrder p.addrs with
  | some a => some a
  | none => p.ctor

/-! ### the graph proper -/
structure Graph where
  allAddr : List (Addr × WAddr) := []
  verified : List Peer := []
  services : List (Key × List Svc) := []
  blAddr : List Addr := []
  blMid : List Key := []
deriving Repr

namespace Graph
def keys (g : Graph) : List Key := g.verified.map (·.key)
def servicesOf (g : Graph) (k : Key) : List Svc := (aget k g.services).getD []
def hasService (g : Graph) (k : Key) (sv : Svc) : Bool := decide (sv ∈ g.servicesOf k)
def find (g : Graph) (k : Key) : Option Peer := g.verified.find? (fun p => decide (p.key = k))
def knownAddr (g : Graph) (a : Addr) : Bool := (aget a g.allAddr).isSome
end Graph

structure Net where
  g : Graph := {}
  /-- `verified_by_public_key_bin`: key → the Peer OBJECT the index holds (objects are numbered) -/
  byKey : List (Key × Nat) := []
  /-- which object the `verified_peers` set holds for a key -/
  vgen : List (Key × Nat) := []
  /-- content of the objects that are no longer in the set (as they were when they left it); caches and, in an
      incoherent state, the index may still point at them -/
  graveyard : List (Nat × Peer) := []
  nextGen : Nat := 0
  ipCache : List (Addr × (Key × Nat)) := []
  introCache : List (Key × List Addr) := []
  svcCache : List (Svc × List Key) := []
  ipCap : Nat := Gen.defaultIpCap
  introCap : Nat := Gen.defaultIntroCap
  svcCap : Nat := Gen.defaultSvcCap
deriving Repr

/-- `key in verified_by_public_key_bin` -/
def Net.known (s : Net) (k : Key) : Bool := (aget k s.byKey).isSome

/-- identity of the object the set holds for a key -/
def Net.genOf (s : Net) (k : Key) : Nat := (aget k s.vgen).getD 0

/-- dereference an object: its content is the set's record while the set holds exactly this object, otherwise what it
    was when it left the set -/
def Net.deref (s : Net) (k : Key) (gen : Nat) : Option Peer :=
  if aget k s.vgen = some gen then s.g.find k else aget gen s.graveyard

/-- `obj.addresses.update(new)` on the object the INDEX holds for `k` (add_verified_peer's "known" path, and what
    lazy_wrapper does with `peer.add_address(source_address)`): the set's record changes only if the index and the set
    hold the same object -/
def Net.updateStored (s : Net) (k : Key) (new : List (Nat × Addr)) : Net :=
  match aget k s.byKey with
  | none => s
  | some gen =>
    if aget k s.vgen = some gen then
      let v := s.g.verified.map (fun q => if q.key = k then { q with addrs := updateAddrs q.addrs new } else q)
      { s with g := { s.g with verified := v } }
    else
      let gy := s.graveyard.map (fun e => if e.1 = gen then (e.1, { e.2 with addrs := updateAddrs e.2.addrs new }) else e)
      { s with graveyard := gy }

def init (ipCap introCap svcCap : Nat) : Net := { ipCap := ipCap, introCap := introCap, svcCap := svcCap }

/-- `_all_addresses[a] = WalkableAddress(b"", None, False)` for the addresses that are not known yet -/
def addMissing (all : List (Addr × WAddr)) : List Addr → List (Addr × WAddr)
  | [] => all
  | a :: rest => addMissing (if (aget a all).isSome then all else aset a ⟨none, none, false⟩ all) rest

/-- the three lines that make a peer verified, plus the service-cache invalidation that follows them -/
def Net.verifyNew (s : Net) (p : Peer) : Net :=
  { s with g := { s.g with verified := s.g.verified ++ [p] },
           byKey := if Gen.addSetsIndex then aset p.key s.nextGen s.byKey else s.byKey,
           vgen := aset p.key s.nextGen s.vgen,
           nextGen := s.nextGen + 1,
           svcCache := if Gen.addInvalidatesServiceCache then s.svcCache.filter (fun e => !s.g.hasService p.key e.1)
                       else s.svcCache }

def Net.addVerified (s : Net) (p : Peer) : Net :=
  match Gen.addBranch (decide (p.key ∈ s.g.blMid)) (s.known p.key) (p.addrList.any (fun a => s.g.knownAddr a))
      (p.addrList.all (fun a => !decide (a ∈ s.g.blAddr))) with
  | 0 => s
  | 1 => s.updateStored p.key p.addrs
  | 2 => if p.key ∈ s.g.keys then s else s.verifyNew p
  | 3 =>
    let s1 := { s with g := { s.g with allAddr := addMissing s.g.allAddr p.addrList } }
    if p.key ∈ s.g.keys then s1 else s1.verifyNew p
  | _ => s

/-- reference form of `addVerified` with the guard chain written out (what the proofs work on; `addVerified_eq`
    shows that the generated chain `Gen.addBranch` selects the same branch) -/
def Net.addVerifiedRef (s : Net) (p : Peer) : Net :=
  if p.key ∈ s.g.blMid then s
  else if s.known p.key then s.updateStored p.key p.addrs
  else if p.addrList.any (fun a => s.g.knownAddr a) then
    if p.key ∈ s.g.keys then s else s.verifyNew p
  else if p.addrList.all (fun a => !decide (a ∈ s.g.blAddr)) then
    let s1 := { s with g := { s.g with allAddr := addMissing s.g.allAddr p.addrList } }
    if p.key ∈ s.g.keys then s1 else s1.verifyNew p
  else s

/-- `address not in _all_addresses or _all_addresses[address].introduced_by not in verified_by_public_key_bin`
    ("this is a new address, or our previous parent has been removed") -/
def needsIntro (all : List (Addr × WAddr)) (known : Key → Bool) (a : Addr) : Bool :=
  let introducerInIndex : Bool := match aget a all with
    | some w => (match w.intro with
      | some k => known k
      | none => false)      -- `b""` is never a key of the index
    | none => false         -- not evaluated in Python (short-circuit); the guard does not depend on it then
  Gen.needsIntroCond (aget a all).isSome introducerInIndex

/-- record `address` as introduced by `k`; a cached introduction list of `k` is extended, none is created -/
def Net.introduce (s : Net) (k : Key) (a : Addr) (svc : Option Svc) (newStyle : Bool) : Net :=
  { s with g := { s.g with allAddr := aset a ⟨some k, svc, newStyle⟩ s.g.allAddr },
           introCache := s.introCache.map (fun e => if e.1 = k then (e.1, if a ∈ e.2 then e.2 else e.2 ++ [a]) else e) }

def Net.discoverAddress (s : Net) (p : Peer) (a : Addr) (svc : Option Svc) (newStyle : Bool) : Net :=
  if a ∈ s.g.blAddr then s.addVerified p
  else
    let reassign : Bool := needsIntro s.g.allAddr s.known a
    let s1 : Net := if reassign then s.introduce p.key a svc newStyle else s
    s1.addVerified p

/-- `services_per_peer[k] |= set(services)` -/
def unionSvcs (old new : List Svc) : List Svc :=
  new.foldl (fun acc sv => if sv ∈ acc then acc else acc ++ [sv]) old

/-- the body of the `for service in services` loop of discover_services -/
def touchSvc (k : Key) (cache : List (Svc × List Key)) (sv : Svc) : List (Svc × List Key) :=
  cache.map (fun e => if e.1 = sv then (e.1, e.2.erase k ++ [k]) else e)

def Net.discoverServices (s : Net) (p : Peer) (svcs : List Svc) : Net :=
  { s with g := { s.g with services := aset p.key (unionSvcs (s.g.servicesOf p.key) svcs) s.g.services },
           svcCache := svcs.foldl (touchSvc p.key) s.svcCache }

/-- objects leaving the set keep their content -/
def Net.bury (s : Net) (gone : List Peer) : List (Nat × Peer) :=
  s.graveyard ++ gone.map (fun q => (s.genOf q.key, q))

def Net.removePeer (s : Net) (p : Peer) : Net :=
  let inSet := Gen.rmpRemovesFromSet
  { s with g := { s.g with allAddr := if Gen.rmpPopsAddresses then s.g.allAddr.filter (fun e => !p.hasAddr e.1) else s.g.allAddr,
                           verified := if inSet then s.g.verified.filter (fun q => !decide (q.key = p.key)) else s.g.verified,
                           services := if Gen.rmpPopsServices then adel p.key s.g.services else s.g.services },
           byKey := if Gen.rmpPopsIndex then adel p.key s.byKey else s.byKey,
           vgen := if inSet then adel p.key s.vgen else s.vgen,
           graveyard := if inSet then s.bury (s.g.verified.filter (fun q => decide (q.key = p.key))) else s.graveyard }

def Net.removeByAddress (s : Net) (a : Addr) : Net :=
  let gone : List Key := (s.g.verified.filter (fun q => !Gen.rmaKeep (q.hasAddr a))).map (·.key)
  let inSet := Gen.rmaReplacesSet
  { s with g := { s.g with allAddr := if Gen.rmaPopsAddress then adel a s.g.allAddr else s.g.allAddr,
                           verified := if inSet then s.g.verified.filter (fun q => Gen.rmaKeep (q.hasAddr a)) else s.g.verified,
                           services := s.g.services.filter (fun e => !decide (e.1 ∈ gone)) },
           byKey := if Gen.rmaPopsIndex then s.byKey.filter (fun e => !decide (e.1 ∈ gone)) else s.byKey,
           vgen := if inSet then s.vgen.filter (fun e => !decide (e.1 ∈ gone)) else s.vgen,
           graveyard := if inSet then s.bury (s.g.verified.filter (fun q => !Gen.rmaKeep (q.hasAddr a))) else s.graveyard }

/-! ### snapshot codec (`default_serializer.pack/unpack("address", …)`) -/
def beEnc : Nat → Nat → Bytes
  | 0, _ => []
  | w + 1, n => beEnc w (n / 256) ++ [UInt8.ofNat (n % 256)]

def beDec (b : Bytes) : Nat := b.foldl (fun acc x => acc * 256 + x.toNat) 0

/-- struct's `<n>s`: truncate or zero-pad -/
def fit (n : Nat) (b : Bytes) : Bytes := (b ++ List.replicate n 0).take n

def encodeAddr (a : Addr) : Bytes :=
  if a.kind = 4 then [UInt8.ofNat Gen.typeV4] ++ fit Gen.v4HostLen a.host ++ beEnc Gen.v4PortLen a.port
  else if a.kind = 6 then [UInt8.ofNat Gen.typeV6] ++ fit Gen.v6HostLen a.host ++ beEnc Gen.v6PortLen a.port
  else [UInt8.ofNat Gen.typeDomain] ++ beEnc Gen.domLenLen a.host.length ++ a.host ++ beEnc Gen.domPortLen a.port

/-- `bytes.decode()` succeeds: well-formed UTF-8 (no overlong forms, no surrogates, nothing above U+10FFFF) -/
def utf8Valid : Bytes → Bool
  | [] => true
  | b0 :: rest =>
    let c (x : UInt8) : Bool := 0x80 ≤ x.toNat && x.toNat ≤ 0xBF
    let n := b0.toNat
    if n < 0x80 then utf8Valid rest
    else if 0xC2 ≤ n && n ≤ 0xDF then
      match rest with
      | b1 :: r => c b1 && utf8Valid r
      | _ => false
    else if 0xE0 ≤ n && n ≤ 0xEF then
      match rest with
      | b1 :: b2 :: r =>
        c b1 && c b2 && (n != 0xE0 || 0xA0 ≤ b1.toNat) && (n != 0xED || b1.toNat ≤ 0x9F) && utf8Valid r
      | _ => false
    else if 0xF0 ≤ n && n ≤ 0xF4 then
      match rest with
      | b1 :: b2 :: b3 :: r =>
        c b1 && c b2 && c b3 && (n != 0xF0 || 0x90 ≤ b1.toNat) && (n != 0xF4 || b1.toNat ≤ 0x8F) && utf8Valid r
      | _ => false
    else false

/-- `Address.unpack` on the bytes from `offset` on: the address and the number of bytes the offset advances;
    `none` = the call raises (struct.error, PackError, UnicodeDecodeError) -/
def decodeAddr (d : Bytes) : Option (Addr × Nat) :=
  match d with
  | [] => none
  | t :: rest =>
    if t.toNat = Gen.typeV4 then
      if rest.length < Gen.v4HostLenUnpack + Gen.v4PortLenUnpack then none
      else some (⟨4, rest.take Gen.v4HostLenUnpack,
                  beDec ((rest.drop Gen.v4HostLenUnpack).take Gen.v4PortLenUnpack)⟩, Gen.v4Advance)
    else if t.toNat = Gen.typeV6 then
      if rest.length < Gen.v6HostLenUnpack + Gen.v6PortLenUnpack then none
      else some (⟨6, rest.take Gen.v6HostLenUnpack,
                  beDec ((rest.drop Gen.v6HostLenUnpack).take Gen.v6PortLenUnpack)⟩, Gen.v6Advance)
    else if t.toNat = Gen.typeDomain then
      if rest.length < Gen.domLenLenUnpack then none
      else
        let n := beDec (rest.take Gen.domLenLenUnpack)
        let host := (rest.drop Gen.domLenLenUnpack).take n
        if rest.length < Gen.domLenLenUnpack + n + Gen.domPortLenUnpack then none
        else if !utf8Valid host then none
        else some (⟨0, host, beDec ((rest.drop (Gen.domLenLenUnpack + n)).take Gen.domPortLenUnpack)⟩,
                   Gen.domAdvance + n)
    else none

/-- the `while offset < snaplen` loop of load_snapshot: the first failing entry aborts the load -/
def decodeAll : Nat → Bytes → List Addr
  | 0, _ => []
  | fuel + 1, d =>
    if d.isEmpty then []
    else match decodeAddr d with
      | none => []
      | some (a, n) => a :: decodeAll fuel (d.drop n)

def loadAddrs (all : List (Addr × WAddr)) : List Addr → List (Addr × WAddr)
  | [] => all
  | a :: rest => loadAddrs (aset a ⟨none, none, false⟩ all) rest

def Net.loadSnapshot (s : Net) (d : Bytes) : Net :=
  { s with g := { s.g with allAddr := loadAddrs s.g.allAddr (decodeAll d.length d) } }

def zeroAddr : Addr := ⟨4, [0, 0, 0, 0], 0⟩

/-- the addresses snapshot() writes, in `verified_peers` order (a Python set: the real order is unspecified) -/
def Graph.snapshotAddrs (g : Graph) : List Addr :=
  g.verified.filterMap (fun p =>
    -- `peer.address` is never falsy (it falls back to UDPv4Address("0.0.0.0", 0)); having no address shows as that value
    let isZero : Bool := match p.preferred with
      | some a => decide (a = zeroAddr)
      | none => true
    if Gen.snapshotKeep true isZero then p.preferred else none)

def Graph.snapshot (g : Graph) : Bytes := (g.snapshotAddrs.map encodeAddr).flatten

/-! ### queries (answer, state after the query) -/

/-- The peer `get_verified_by_address` returns.  Which of several verified peers on one address it is depends on the
    iteration order of the `verified_peers` set and on what the cache happens to hold; every one of them is a correct
    answer.  `hint` (the harness passes the implementation's choice) therefore wins whenever it names a verified peer
    using the address; without a usable hint: a valid cache entry (the index still maps the key to the same object
    generation and the peer still has the address), else the first peer of the scan. -/
def Net.chooseByAddr (s : Net) (a : Addr) (hint : Option Key) : Option Peer :=
  let cands := s.g.verified.filter (fun p => p.hasAddr a)
  let hinted : Option Peer := match hint with
    | some k => cands.find? (fun p => decide (p.key = k))
    | none => none
  let cached : Option Peer := match aget a s.ipCache with
    | some (k, gen) =>
      -- `peer = cache.pop(address)`; stale unless the index still holds this very object and it still has the address
      match s.deref k gen with
      | some obj =>
        if Gen.ipEntryStale true (decide (aget k s.byKey = some gen)) (decide (a ∈ obj.addrList)) then none else some obj
      | none => none
    | none => none
  match hinted with
  | some p => some p
  | none => match cached with
    | some p => some p
    | none => cands.head?

/-- pop the entry, answer, re-insert the answer at the young end (evicting the oldest entry beyond the cap) -/
def Net.getByAddr (s : Net) (a : Addr) (hint : Option Key) : Option Peer × Net :=
  let ip1 := adel a s.ipCache
  match s.chooseByAddr a hint with
  | some p => (some p, { s with ipCache := lruPut ip1 a (p.key, s.genOf p.key) s.ipCap })
  | none => (none, { s with ipCache := ip1 })

/-- `verified_by_public_key_bin.get(k)`: the object the index holds -/
def Net.getByKey (s : Net) (k : Key) : Option Peer :=
  match aget k s.byKey with
  | some gen => s.deref k gen
  | none => none

def Net.peersForService (s : Net) (sv : Svc) : List Peer × Net :=
  let cache1 := adel sv s.svcCache
  let out : List Peer := match aget sv s.svcCache with
    | none => s.g.verified.filter (fun p => s.g.hasService p.key sv)
    | some l => (l.filter (fun k => Gen.svcHitKeep (decide (k ∈ s.g.keys)) (s.g.hasService k sv))).filterMap
                  (fun k => s.g.find k)
  (out, { s with svcCache := lruPut cache1 sv (out.map (·.key)) s.svcCap })

def Graph.walkFilter (g : Graph) (sv : Svc) (oldStyle : Bool) (a : Addr) : Bool :=
  match aget a g.allAddr with
  | none => false
  | some w =>
    if Gen.walkSkip oldStyle w.newStyle then false
    else
      let fromIntro : Bool := match w.intro with
        | some k => g.hasService k sv
        | none => false
      fromIntro || decide (w.svc = some sv)

/-- `if service_id:` — `None` and the empty service id `b""` (service number 0) both mean "no service" -/
def truthy : Option Svc → Option Svc
  | some 0 => none
  | x => x

def Net.walkable (s : Net) (svc : Option Svc) (oldStyle : Bool) : List Addr × Net :=
  match truthy svc with
  | none =>
    let taken := s.g.verified.flatMap (·.addrList)
    ((akeys s.g.allAddr).filter (fun a => !decide (a ∈ taken)), s)
  | some sv =>
    let (known, s') := s.peersForService sv
    let taken := known.flatMap (·.addrList)
    (((akeys s.g.allAddr).filter (fun a => !decide (a ∈ taken))).filter (s.g.walkFilter sv oldStyle), s')

def Graph.introducedBy (g : Graph) (k : Key) (a : Addr) : Bool :=
  match aget a g.allAddr with
  | some w => Gen.introHitKeep true (decide (w.intro = some k))
  | none => Gen.introHitKeep false false

def Net.introsFrom (s : Net) (k : Key) : List Addr × Net :=
  match aget k s.introCache with
  | some l =>
    let l' := l.filter (s.g.introducedBy k)
    (l', { s with introCache := aset k l' s.introCache })
  | none =>
    let l := akeys (s.g.allAddr.filter (fun e => decide (e.2.intro = some k)))
    (l, { s with introCache := lruPut s.introCache k l s.introCap })

def Net.servicesFor (s : Net) (k : Key) : List Svc := s.g.servicesOf k

def Net.isNewStyle (s : Net) (a : Addr) : Bool :=
  match aget a s.g.allAddr with
  | some w => w.newStyle
  | none => false

/-! ### histories -/
inductive Op where
  | add (p : Peer)
  | disc (p : Peer) (a : Addr) (svc : Option Svc) (newStyle : Bool)
  | svcs (p : Peer) (l : List Svc)
  | rmPeer (p : Peer)
  | rmAddr (a : Addr)
  | blAddr (a : Addr)
  | blMid (k : Key)
  | load (d : Bytes)
  | setAddr (k : Key) (slot : Nat) (a : Addr)
  | qAddr (a : Addr) (hint : Option Key)
  | qKey (k : Key)
  | qSvc (sv : Svc)
  | qWalk (svc : Option Svc) (oldStyle : Bool)
  | qIntro (k : Key)
deriving Repr

def Op.isQuery : Op → Bool
  | .qAddr .. | .qKey .. | .qSvc .. | .qWalk .. | .qIntro .. => true
  | _ => false

def step (s : Net) : Op → Net
  | .add p => s.addVerified p
  | .disc p a svc ns => s.discoverAddress p a svc ns
  | .svcs p l => s.discoverServices p l
  | .rmPeer p => s.removePeer p
  | .rmAddr a => s.removeByAddress a
  | .blAddr a => { s with g := { s.g with blAddr := s.g.blAddr ++ [a] } }
  | .blMid k => { s with g := { s.g with blMid := s.g.blMid ++ [k] } }
  | .load d => s.loadSnapshot d
  | .setAddr k slot a => s.updateStored k [(slot, a)]
  | .qAddr a h => (s.getByAddr a h).2
  | .qKey _ => s
  | .qSvc sv => (s.peersForService sv).2
  | .qWalk svc o => (s.walkable svc o).2
  | .qIntro k => (s.introsFrom k).2

def run (s : Net) (ops : List Op) : Net := ops.foldl step s

end Ipv8.C12
