/-
  C03 — formats and values of the decode model (core Lean only).
  Adapted from the shared serializer model of C02 (Ipv8/C02/Model.lean); kept as an own copy because C03's theorems are
  about the *decode* side after the bounds-check repair and must not move when the encode side is refactored.
  The generated table file (GenTables.lean) imports this module.
-/
import Ipv8.Base.Proto

namespace Ipv8.C03
open Ipv8

/-- one code of a big-endian `struct` format string -/
inductive SField where
  | uint (w : Nat)      -- B H I L Q
  | sint (w : Nat)      -- b h i l q
  | bool                -- ?
  | char                -- c
  | fixed (n : Nat)     -- Ns
  | float (w : Nat)     -- f d   (opaque: carried as bit pattern)
deriving Repr, DecidableEq, Inhabited

def SField.size : SField → Nat
  | .uint w => w | .sint w => w | .bool => 1 | .char => 1 | .fixed n => n | .float w => w

/-- element kind of `DefaultArray` -/
inductive AKind where
  | bool   -- "?" (stored as "B")
  | q      -- signed 64 bit
  | d      -- double
deriving Repr, DecidableEq, Inhabited

def AKind.size : AKind → Nat
  | .bool => 1 | .q => 8 | .d => 8

mutual
inductive Fmt where
  | struct (fs : List SField)                          -- DefaultStruct(">…")
  | bits                                               -- Bits
  | raw                                                -- Raw
  | varlen (lenW base : Nat)                           -- VarLen(">B/H/I", base)
  | utf8 (lenW base : Nat)                             -- VarLenUtf8
  | ipv4                                               -- IPv4
  | address (ipOnly : Bool)                            -- Address(ip_only)
  | listOf (lenW : Nat) (f : Fmt)                      -- ListOf(packer, ">B")
  | array (lenW : Nat) (lenBE : Bool) (k : AKind) (itemBE : Bool)   -- DefaultArray (byte orders probed live)
  | nested (fs : FmtList)                              -- NestedPayload applied to a class with this format list
  | tuple (fs : FmtList)                               -- consecutive sub-formats, one value (dht NodePacker)
  | flags (w : Nat) (absolute : Bool)                  -- anonymization Flags; `absolute = false`: returns `size`
inductive FmtList where
  | nil
  | cons (f : Fmt) (fs : FmtList)
end

/-- decoded values; lists are ordinary `List`s (decoding recurses on the format, never on the value) -/
inductive Val where
  | nat (n : Nat)
  | int (i : Int)
  | bool (b : Bool)
  | bytes (b : Bytes)
  | float (bits : Bytes)
  | tuple (vs : List Val)                 -- struct with several fields; NodePacker (address, key)
  | bits (bs : List Nat)                  -- the 8 items Bits splices into the unpack list
  | addr (kind : Nat) (host : Bytes) (port : Nat)   -- kind 1 = IPv4 (4 bytes), 2 = host name (UTF-8), 3 = IPv6 (16 bytes)
  | str (utf8 : Bytes)
  | list (vs : List Val)
  | arr (vs : List Val)
  | record (vs : List Val)                -- nested payload: its unpack list
  | nats (l : List Nat)                   -- Flags
deriving Inhabited

def fl : List Fmt → FmtList
  | [] => .nil
  | f :: fs => .cons f (fl fs)

def FmtList.toList : FmtList → List Fmt
  | .nil => []
  | .cons f fs => f :: fs.toList

inductive Err where
  | short    -- struct.error: buffer too small for unpack_from
  | pack     -- PackError: a declared length reaches beyond the buffer (the repaired bounds checks)
  | addr     -- PackError: unknown address type
  | utf8     -- UnicodeDecodeError
  | extra    -- PackError: unpack_serializable_list(consume_all=True) found a remainder
deriving Repr, DecidableEq, Inhabited

def Err.name : Err → String
  | .short => "short" | .pack => "pack" | .addr => "addr" | .utf8 => "utf8" | .extra => "extra"

end Ipv8.C03
