/-
  C03 — receive-path model (core Lean only, executable).

  Mirrors, with the constants and try/except shapes REGENERATED from the source (Gen.*):
    ipv8/messaging/interfaces/endpoint.py   Endpoint.add_listener / add_prefix_listener / remove_listener /
                                            _deliver_later / notify_listeners
    ipv8/community.py                       Community.on_packet
    ipv8/messaging/anonymization/crypto.py  PythonCryptoEndpoint.on_packet / process_cell / incoming_crypto
    ipv8/messaging/anonymization/payload.py CellPayload.from_bin / to_bin / unwrap
    ipv8/messaging/anonymization/community.py  TunnelCommunity.on_cell / on_packet_from_circuit
    ipv8/peerdiscovery/network.py           Network.load_snapshot

  Python exceptions are values: an outcome is the list of observable events so far plus the exception that is
  propagating (if any).  What handler bodies do is outside the model (`Env`: they may return or raise anything);
  cryptography is an oracle (`Dec`).  Relaying (`relay_cell`) is abstract: it may raise, it never enters a handler.
-/
import Ipv8.C03.Model
import Ipv8.C03.GenTables

namespace Ipv8.C03
open Ipv8

/-- exceptions that can propagate along the receive path -/
inductive Exn where
  | indexError      -- data[22] on a short datagram, cell.message[0] on an empty message
  | structError     -- CellPayload.from_bin on a cell shorter than its header
  | cryptoRaise     -- an exception other than ValueError out of SessionKeys.decrypt_str (RuntimeError "Decryption failed")
  | relayRaise      -- anything raised while relaying
  | handler         -- anything raised by a message handler body
deriving Repr, DecidableEq, Inhabited

def Exn.name : Exn → String
  | .indexError => "IndexError" | .structError => "struct.error" | .cryptoRaise => "decrypt" | .relayRaise => "relay"
  | .handler => "handler"

/-- observable events -/
inductive Ev where
  | called (lid : Nat)                                       -- listener `lid`'s on_packet was invoked
  | pub (lid : Nat) (pfx : Bytes) (msg : Nat)                -- a decode_map handler of the overlay with prefix `pfx` was entered
  | priv (lid : Nat) (pfx : Bytes) (msg circuit : Nat) (data : Bytes)  -- a decode_map_private handler was entered
deriving Repr, DecidableEq, Inhabited

abbrev Out := List Ev × Option Exn

/-- sequencing: the second part runs only if the first did not raise -/
def Out.andThen (a : Out) (k : Unit → Out) : Out :=
  match a.2 with
  | some e => (a.1, some e)
  | none => let b := k (); (a.1 ++ b.1, b.2)

/-- `try: … except Exception: log` around a block (when the source has it) -/
def catchAll (present : Bool) (a : Out) : Out := if present then (a.1, none) else a

structure Overlay where
  pfx : Bytes
  pub : List Nat          -- msg ids whose decode_map entry is not None
  priv : List Nat         -- keys of decode_map_private (tunnel overlays)
  tunnel : Bool           -- decode_map[cellMsgId] is TunnelCommunity.on_cell
deriving Repr, Inhabited

/-- handler bodies are outside the model -/
structure Env where
  pubRaises : Nat → Nat → Bytes → Bool
  privRaises : Nat → Nat → Bytes → Nat → Bool
  relayRaises : Nat → Bytes → Bool

/-- outcome of removing the onion layers of a cell of a known circuit (computed by the real crypto in the harness) -/
inductive Dec where
  | fail               -- CryptoException (ValueError inside): the cell is dropped
  | raise              -- another exception escapes decrypt_cell
  | ok (m : Bytes)

/-! ### CellPayload -/

def beEnc : Nat → Nat → Bytes
  | 0, _ => []
  | w+1, n => beEnc w (n / 256) ++ [UInt8.ofNat (n % 256)]

structure Cell where
  cid : Nat
  plaintext : Bool
  relayEarly : Bool
  message : Bytes
deriving Repr, Inhabited

def byteAt (d : Bytes) (i : Nat) : Nat := match d[i]? with | some b => b.toNat | none => 0

/-- `unpack_from("!I??", packet, 23)`; `packet[29:]` -/
def cellFromBin (p : Bytes) : Except Exn Cell :=
  if Gen.cellHdrOff + Gen.cellHdrSize ≤ p.length then
    .ok { cid := beDec (slice p Gen.cellHdrOff (Gen.cellHdrOff + 4)),
          plaintext := byteAt p (Gen.cellHdrOff + 4) != 0,
          relayEarly := byteAt p (Gen.cellHdrOff + 5) != 0,
          message := p.drop Gen.cellMsgStart }
  else .error .structError

def boolByte (b : Bool) : UInt8 := if b then 1 else 0

def cellToBin (pfx : Bytes) (c : Cell) : Bytes :=
  pfx ++ [UInt8.ofNat Gen.cellMsgId] ++ (beEnc 4 c.cid ++ [boolByte c.plaintext, boolByte c.relayEarly] ++ c.message)

def cellUnwrap (pfx : Bytes) (c : Cell) : Bytes :=
  pfx ++ c.message.take 1 ++ beEnc 4 c.cid ++ c.message.drop 1

/-! ### the two demultiplexers -/

/-- a handler whose body is abstract: the entry is observable, the body may raise -/
def handlerCall (ev : Ev) (raises : Bool) : Out := ([ev], if raises then some .handler else none)

/-- TunnelCommunity.on_packet_from_circuit -/
def onPacketFromCircuit (env : Env) (lid : Nat) (o : Overlay) (data : Bytes) (cid : Nat) : Out :=
  if o.pfx != data.take Gen.privTake || data.length < Gen.privMinLen then ([], none)
  else match data[Gen.privIdx]? with
    | none => ([], some .indexError)
    | some m =>
      if o.priv.contains m.toNat then
        catchAll Gen.privCatchAll
          (handlerCall (.priv lid o.pfx m.toNat cid data) (env.privRaises lid m.toNat data cid))
      else ([], none)

/-- body of TunnelCommunity.on_cell -/
def onCell (env : Env) (lid : Nat) (o : Overlay) (data : Bytes) : Out :=
  match cellFromBin data with
  | .error e => ([], some e)
  | .ok c =>
    if c.plaintext then
      match c.message.head? with
      | none => ([], some .indexError)
      | some m0 =>
        if Gen.noCryptoPackets.contains m0.toNat then onPacketFromCircuit env lid o (cellUnwrap o.pfx c) c.cid
        else ([], none)
    else onPacketFromCircuit env lid o (cellUnwrap o.pfx c) c.cid

/-- Community.on_packet -/
def communityOnPacket (env : Env) (lid : Nat) (o : Overlay) (data : Bytes) : Out :=
  Out.andThen ([.called lid], none) fun _ =>
  if o.pfx != data.take Gen.pubTake || data.length < Gen.pubMinLen then ([], none)
  else match data[Gen.pubIdx]? with
    | none => ([], some .indexError)
    | some m =>
      if o.pub.contains m.toNat then
        catchAll Gen.pubCatchAll
          (if o.tunnel && m.toNat == Gen.cellMsgId then
             Out.andThen ([.pub lid o.pfx m.toNat], none) fun _ => onCell env lid o data
           else handlerCall (.pub lid o.pfx m.toNat) (env.pubRaises lid m.toNat data))
      else ([], none)

/-! ### PythonCryptoEndpoint -/

structure Crypto where
  pfx : Bytes
  tunnel : Option (Nat × Overlay)     -- tunnel_community: (listener id used for its events, overlay)
  relays : List Nat                   -- circuit ids with a relay route
  circuits : List Nat
  exits : List Nat
  maxRelayEarly : Nat
deriving Repr, Inhabited

def tunnelBranch (env : Env) (c : Crypto) (data : Bytes) : Out :=
  match c.tunnel with
  | none => ([], none)
  | some (tl, o) => communityOnPacket env tl o data

/-- PythonCryptoEndpoint.process_cell -/
def processCell (env : Env) (dec : Nat → Bytes → Dec) (c : Crypto) (data : Bytes) : Out :=
  match cellFromBin data with
  | .error e => ([], some e)
  | .ok cell =>
    if c.relays.contains cell.cid then ([], if env.relayRaises cell.cid data then some .relayRaise else none)
    else
      let known := c.circuits.contains cell.cid || c.exits.contains cell.cid
      if !known && !cell.plaintext then ([], none)
      else
        let r : Dec := if cell.plaintext || !known then .ok cell.message else dec cell.cid cell.message
        match r with
        | .fail => ([], none)
        | .raise => ([], some .cryptoRaise)
        | .ok m =>
          match m.head? with
          | none => ([], some .indexError)
          | some m0 =>
            if (!cell.relayEarly && m0.toNat == 4) || c.maxRelayEarly == 0 then ([], none)
            else if cell.plaintext && !Gen.noCryptoPackets.contains m0.toNat then ([], none)
            else tunnelBranch env c (cellToBin c.pfx { cell with message := m })

/-- the msg-id test of PythonCryptoEndpoint.on_packet: index form raises on a 22-byte datagram, slice form cannot -/
def cryptoIsCell (data : Bytes) : Except Exn Bool :=
  match data[Gen.cryptoIdx]? with
  | some b => .ok (b.toNat == Gen.cellMsgId)
  | none => if Gen.cryptoIdxSafe then .ok false else .error .indexError

/-- PythonCryptoEndpoint.on_packet -/
def cryptoOnPacket (env : Env) (dec : Nat → Bytes → Dec) (lid : Nat) (c : Crypto) (data : Bytes) : Out :=
  Out.andThen ([.called lid], none) fun _ =>
  if c.pfx.isPrefixOf data then
    match cryptoIsCell data with
    | .error e => ([], some e)
    | .ok true => catchAll Gen.cryptoCatchAll (processCell env dec c data)
    | .ok false => tunnelBranch env c data
  else tunnelBranch env c data

/-! ### Endpoint: listener registry and delivery -/

inductive Listener where
  | community (o : Overlay)
  | crypto (c : Crypto)
  | inert                      -- some other EndpointListener that never raises (e.g. a statistics listener)
deriving Repr, Inhabited

structure Registry where
  listeners : List Nat := []                    -- Endpoint._listeners (ids)
  prefixMap : List (Bytes × List Nat) := []     -- Endpoint._prefix_map (insertion ordered)
  isOpen : Bool := true
  table : List (Nat × Listener) := []           -- what each id is
deriving Repr, Inhabited

def lookupPrefix (pm : List (Bytes × List Nat)) (p : Bytes) : Option (List Nat) :=
  match pm with
  | [] => none
  | (q, ls) :: rest => if q == p then some ls else lookupPrefix rest p

def setPrefix (pm : List (Bytes × List Nat)) (p : Bytes) (ls : List Nat) : List (Bytes × List Nat) :=
  match pm with
  | [] => [(p, ls)]
  | (q, old) :: rest => if q == p then (q, ls) :: rest else (q, old) :: setPrefix rest p ls

def lookupListener (t : List (Nat × Listener)) (l : Nat) : Option Listener :=
  match t with
  | [] => none
  | (k, v) :: rest => if k == l then some v else lookupListener rest l

/-- Endpoint.add_listener -/
def Registry.addListener (r : Registry) (l : Nat) : Registry :=
  { r with listeners := r.listeners ++ [l], prefixMap := r.prefixMap.map fun (p, ls) => (p, ls ++ [l]) }

/-- Endpoint.add_prefix_listener (none = RuntimeError: wrong prefix length) -/
def Registry.addPrefixListener (r : Registry) (l : Nat) (p : Bytes) : Option Registry :=
  if p.length != Gen.prefixLen then none
  else some { r with prefixMap := setPrefix r.prefixMap p (((lookupPrefix r.prefixMap p).getD []) ++ [l] ++ r.listeners) }

def sameSet (a b : List Nat) : Bool := a.all (b.contains ·) && b.all (a.contains ·)

/-- Endpoint.remove_listener -/
def Registry.removeListener (r : Registry) (l : Nat) : Registry :=
  let ls := r.listeners.filter (· != l)
  { r with listeners := ls,
           prefixMap := r.prefixMap.filterMap fun (p, xs) =>
             let xs' := xs.filter (· != l)
             if sameSet xs' ls then none else some (p, xs') }

def listenerOnPacket (env : Env) (dec : Nat → Bytes → Dec) (t : List (Nat × Listener)) (l : Nat) (data : Bytes) : Out :=
  match lookupListener t l with
  | some (.community o) => communityOnPacket env l o data
  | some (.crypto c) => cryptoOnPacket env dec l c data
  | some .inert => ([.called l], none)
  | none => ([], none)

/-- Endpoint._deliver_later -/
def deliverLater (env : Env) (dec : Nat → Bytes → Dec) (r : Registry) (l : Nat) (data : Bytes) : Out :=
  if r.isOpen && ((lookupPrefix r.prefixMap (data.take Gen.prefixLen)).isSome || r.listeners.contains l) then
    listenerOnPacket env dec r.table l data
  else ([], none)

def deliverAll (env : Env) (dec : Nat → Bytes → Dec) (r : Registry) (data : Bytes) : List Nat → Out
  | [] => ([], none)
  | l :: ls => Out.andThen (deliverLater env dec r l data) fun _ => deliverAll env dec r data ls

/-- the listeners notify_listeners iterates over -/
def recipients (r : Registry) (data : Bytes) : List Nat :=
  (lookupPrefix r.prefixMap (data.take Gen.prefixLen)).getD r.listeners

/-- Endpoint.notify_listeners -/
def notify (env : Env) (dec : Nat → Bytes → Dec) (r : Registry) (data : Bytes) : Out :=
  deliverAll env dec r data (recipients r data)

/-! ### Network.load_snapshot -/

/-- the loop of load_snapshot: `fuel` bounds the iterations only to make the definition structural; the theorem
    `loadSnapshot_fuel_irrelevant` shows `snapshot.length` iterations always suffice.  Result: the addresses stored, in order. -/
def loadSnapshotLoop (snap : Bytes) : Nat → Nat → List Val
  | 0, _ => []
  | fuel+1, off =>
    if off < snap.length then
      match unpackAddressAt false snap off with
      | .ok (a, off') => a :: loadSnapshotLoop snap fuel off'
      | .error _ => []      -- offset unchanged → "got stuck" → break
    else []

def loadSnapshot (snap : Bytes) : List Val := loadSnapshotLoop snap snap.length 0

end Ipv8.C03
