/-
  C03 — receive-path model (core Lean only, executable).

  Mirrors, with the constants and try/except shapes REGENERATED from the source (Gen.*):
    ipv8/messaging/interfaces/endpoint.py   Endpoint.add_listener / add_prefix_listener / remove_listener /
                                            _deliver_later / notify_listeners
    ipv8/community.py                       Community.on_packet
    ipv8/messaging/anonymization/crypto.py  PythonCryptoEndpoint.on_packet / process_cell / incoming_crypto
    ipv8/messaging/anonymization/payload.py CellPayload.from_bin / to_bin / unwrap
    ipv8/messaging/anonymization/community.py  TunnelCommunity.on_cell / on_packet_from_circuit
    ipv8/peerdiscovery/network.py           Network.load_snapshot

  Python exceptions are values: an outcome is the list of observable events so far plus the exception that is
  propagating (if any).  What handler bodies do is outside the model (`Env`: they may return or raise anything);
  cryptography is an oracle (`Dec`).  Relaying (`relay_cell`) is abstract: it may raise, it never enters a handler.
-/
import Ipv8.C03.Model
import Ipv8.C03.GenTables

namespace Ipv8.C03
open Ipv8

/-- exceptions that can propagate along the receive path -/
inductive Exn where
  | indexError      -- data[22] on a short datagram, cell.message[0] on an empty message
  | structError     -- CellPayload.from_bin on a cell shorter than its header
  | cryptoRaise     -- an exception other than ValueError out of SessionKeys.decrypt_str (RuntimeError "Decryption failed")
  | relayRaise      -- anything raised while relaying
  | handler         -- anything raised by a message handler body
  | keyError        -- a raising dict access in Network.get_verified_by_address (runs before the prefix gate, outside any try)
  | typeError       -- UDPv4Address(*addr) / UDPv6Address(*addr) with the wrong number of items in datagram_received
deriving Repr, DecidableEq, Inhabited

def Exn.name : Exn → String
  | .indexError => "IndexError" | .structError => "struct.error" | .cryptoRaise => "decrypt" | .relayRaise => "relay"
  | .handler => "handler" | .keyError => "KeyError" | .typeError => "TypeError"

/-- observable events -/
inductive Ev where
  | called (lid : Nat)                                       -- listener `lid`'s on_packet was invoked
  | sender (lid : Nat) (peer : Option Nat)                   -- Community.on_packet resolved the sender address to this verified peer object
  | pub (lid : Nat) (pfx : Bytes) (msg : Nat)                -- a decode_map handler of the overlay with prefix `pfx` was entered
  | priv (lid : Nat) (pfx : Bytes) (msg circuit : Nat) (data : Bytes)  -- a decode_map_private handler was entered
deriving Repr, DecidableEq, Inhabited

abbrev Out := List Ev × Option Exn

/-- sequencing: the second part runs only if the first did not raise -/
def Out.andThen (a : Out) (k : Unit → Out) : Out :=
  match a.2 with
  | some e => (a.1, some e)
  | none => let b := k (); (a.1 ++ b.1, b.2)

/-- `try: … except Exception: log` around a block (when the source has it) -/
def catchAll (present : Bool) (a : Out) : Out := if present then (a.1, none) else a

structure Overlay where
  pfx : Bytes
  pub : List Nat          -- msg ids whose decode_map entry is not None
  priv : List Nat         -- keys of decode_map_private (tunnel overlays)
  tunnel : Bool           -- decode_map[cellMsgId] is TunnelCommunity.on_cell
deriving Repr, Inhabited

/-- registry calls a listener may make on its endpoint while it is handling a datagram (re-entrancy) -/
inductive RegOp where
  | add (l : Nat)                    -- endpoint.add_listener
  | addp (l : Nat) (p : Bytes)       -- endpoint.add_prefix_listener
  | rm (l : Nat)                     -- endpoint.remove_listener (self-detach, unload, one-shot listeners …)
  | setOpen (b : Bool)               -- endpoint.close() / open()
deriving Repr, DecidableEq, Inhabited

/-- handler bodies are outside the model: they may raise, and they may call back into the endpoint's registry -/
structure Env where
  pubRaises : Nat → Nat → Bytes → Bool
  privRaises : Nat → Nat → Bytes → Nat → Bool
  relayRaises : Nat → Bytes → Bool
  effects : Nat → Bytes → List RegOp := fun _ _ => []   -- what listener `lid` does to the registry while handling `data`

/-- outcome of removing the onion layers of a cell of a known circuit (computed by the real crypto in the harness) -/
inductive Dec where
  | fail               -- CryptoException (ValueError inside): the cell is dropped
  | raise              -- another exception escapes decrypt_cell
  | ok (m : Bytes)

/-! ### CellPayload -/

def beEnc : Nat → Nat → Bytes
  | 0, _ => []
  | w+1, n => beEnc w (n / 256) ++ [UInt8.ofNat (n % 256)]

structure Cell where
  cid : Nat
  plaintext : Bool
  relayEarly : Bool
  message : Bytes
deriving Repr, Inhabited

def byteAt (d : Bytes) (i : Nat) : Nat := match d[i]? with | some b => b.toNat | none => 0

/-- `unpack_from("!I??", packet, 23)`; `packet[29:]` -/
def cellFromBin (p : Bytes) : Except Exn Cell :=
  if Gen.cellHdrOff + Gen.cellHdrSize ≤ p.length then
    .ok { cid := beDec (slice p Gen.cellHdrOff (Gen.cellHdrOff + 4)),
          plaintext := byteAt p (Gen.cellHdrOff + 4) != 0,
          relayEarly := byteAt p (Gen.cellHdrOff + 5) != 0,
          message := p.drop Gen.cellMsgStart }
  else .error .structError

def boolByte (b : Bool) : UInt8 := if b then 1 else 0

def cellToBin (pfx : Bytes) (c : Cell) : Bytes :=
  pfx ++ [UInt8.ofNat Gen.cellMsgId] ++ (beEnc 4 c.cid ++ [boolByte c.plaintext, boolByte c.relayEarly] ++ c.message)

def cellUnwrap (pfx : Bytes) (c : Cell) : Bytes :=
  pfx ++ c.message.take 1 ++ beEnc 4 c.cid ++ c.message.drop 1

/-! ### Network.get_verified_by_address — the sender lookup Community.on_packet performs BEFORE its prefix gate

  Peer *objects* have an identity (`oid`), a key and mutable addresses; `verified_by_public_key_bin` maps keys to objects,
  `reverse_ip_lookup` is an LRU cache address → object.  `Gen.lookupDictSafe` (from the AST) says whether every dict
  access of the function is of the non-raising kind (`.get`, `.pop(k, default)`, `in`); if not, the validation of a
  cached entry raises KeyError when the cached object's key has left the index. -/

structure PeerObj where
  oid : Nat
  key : Nat
  addrs : List Bytes
deriving Repr, DecidableEq, Inhabited

structure NetS where
  objs : List PeerObj := []              -- every Peer object the harness created (by identity)
  verified : List Nat := []              -- verified_peers (object ids)
  index : List (Nat × Nat) := []         -- verified_by_public_key_bin: key → object id
  cache : List (Bytes × Nat) := []       -- reverse_ip_lookup, oldest first
  cap : Nat := 500
  hints : List Nat := []                 -- iteration order of the `verified_peers` SET is not modelled: when several verified
                                         -- peers share the address, the next hint (if it is one of them) says which the scan found
deriving Repr, Inhabited

def NetS.obj (s : NetS) (oid : Nat) : Option PeerObj := s.objs.find? (·.oid == oid)
def NetS.keyOf (s : NetS) (oid : Nat) : Nat := ((s.obj oid).map (·.key)).getD 0
def NetS.hasAddr (s : NetS) (oid : Nat) (a : Bytes) : Bool := ((s.obj oid).map (·.addrs.contains a)).getD false
def NetS.indexGet (s : NetS) (k : Nat) : Option Nat := (s.index.find? (·.1 == k)).map (·.2)

def cachePut (c : List (Bytes × Nat)) (a : Bytes) (oid : Nat) (cap : Nat) : List (Bytes × Nat) :=
  let c' := c.filter (·.1 != a) ++ [(a, oid)]
  if c'.length > cap then c'.drop 1 else c'

/-- Network.get_verified_by_address -/
def NetS.lookup (s : NetS) (a : Bytes) : Except Exn (Option Nat) × NetS :=
  let cached := (s.cache.find? (·.1 == a)).map (·.2)
  let s1 := { s with cache := s.cache.filter (·.1 != a) }          -- reverse_ip_lookup.pop(address, None)
  let validated : Except Exn (Option Nat) :=
    match cached with
    | none => .ok none
    | some oid =>
      match s.indexGet (s.keyOf oid) with
      | some o' => .ok (if o' == oid && s.hasAddr oid a then some oid else none)
      | none => if Gen.lookupDictSafe then .ok none else .error .keyError
  match validated with
  | .error e => (.error e, s1)
  | .ok (some oid) => (.ok (some oid), { s1 with cache := cachePut s1.cache a oid s.cap })
  | .ok none =>
    let cands := s.verified.filter (fun oid => s.hasAddr oid a)
    let pick : Option Nat × List Nat :=
      match s.hints with
      | h :: rest => if cands.contains h then (some h, rest) else (cands.head?, s.hints)
      | [] => (cands.head?, [])
    match pick.1 with
    | some oid => (.ok (some oid), { s1 with cache := cachePut s1.cache a oid s.cap, hints := pick.2 })
    | none => (.ok none, s1)

/-- Network.add_verified_peer for a peer object with a non-blacklisted address -/
def NetS.addVerified (s : NetS) (oid : Nat) : NetS :=
  let k := s.keyOf oid
  match s.indexGet k with
  | some known =>     -- "this may just be an address update": known.addresses.update(peer.addresses)
    let na := ((s.obj oid).map (·.addrs)).getD []
    { s with objs := s.objs.map fun o => if o.oid == known then { o with addrs := na } else o }
  | none => { s with verified := s.verified ++ [oid], index := s.index ++ [(k, oid)] }

/-- Network.remove_peer (membership in the verified set is by key equality) -/
def NetS.removePeer (s : NetS) (oid : Nat) : NetS :=
  let k := s.keyOf oid
  { s with verified := s.verified.filter (fun v => s.keyOf v != k), index := s.index.filter (·.1 != k) }

/-- Network.remove_by_address -/
def NetS.removeByAddress (s : NetS) (a : Bytes) : NetS :=
  let gone := s.verified.filter (fun v => s.hasAddr v a)
  { s with verified := s.verified.filter (fun v => !s.hasAddr v a),
           index := s.index.filter (fun e => !gone.any (fun v => s.keyOf v == e.1)) }

/-- peer.address = a (a single-interface peer: the address is replaced) -/
def NetS.setAddr (s : NetS) (oid : Nat) (a : Bytes) : NetS :=
  { s with objs := s.objs.map fun o => if o.oid == oid then { o with addrs := [a] } else o }

def NetS.newObj (s : NetS) (oid key : Nat) (a : Bytes) : NetS :=
  { s with objs := s.objs ++ [{ oid := oid, key := key, addrs := [a] }] }

/-! ### the two demultiplexers -/

/-- a handler whose body is abstract: the entry is observable, the body may raise -/
def handlerCall (ev : Ev) (raises : Bool) : Out := ([ev], if raises then some .handler else none)

/-- TunnelCommunity.on_packet_from_circuit -/
def onPacketFromCircuit (env : Env) (lid : Nat) (o : Overlay) (data : Bytes) (cid : Nat) : Out :=
  if o.pfx != data.take Gen.privTake || data.length < Gen.privMinLen then ([], none)
  else match data[Gen.privIdx]? with
    | none => ([], some .indexError)
    | some m =>
      if o.priv.contains m.toNat then
        catchAll Gen.privCatchAll
          (handlerCall (.priv lid o.pfx m.toNat cid data) (env.privRaises lid m.toNat data cid))
      else ([], none)

/-- body of TunnelCommunity.on_cell -/
def onCell (env : Env) (lid : Nat) (o : Overlay) (data : Bytes) : Out :=
  match cellFromBin data with
  | .error e => ([], some e)
  | .ok c =>
    if c.plaintext then
      match c.message.head? with
      | none => ([], some .indexError)
      | some m0 =>
        if Gen.noCryptoPackets.contains m0.toNat then onPacketFromCircuit env lid o (cellUnwrap o.pfx c) c.cid
        else ([], none)
    else onPacketFromCircuit env lid o (cellUnwrap o.pfx c) c.cid

/-- Community.on_packet; `lk` is the outcome of `network.get_verified_by_address(source_address)`, the first thing it
    does — before the prefix gate and outside the try/except, so an exception there propagates -/
def communityOnPacket (env : Env) (lk : Except Exn (Option Nat)) (lid : Nat) (o : Overlay) (data : Bytes) : Out :=
  Out.andThen ([.called lid], none) fun _ =>
  Out.andThen (match lk with
               | .error e => ([.sender lid none], some e)
               | .ok p => ([.sender lid p], none)) fun _ =>
  if o.pfx != data.take Gen.pubTake || data.length < Gen.pubMinLen then ([], none)
  else match data[Gen.pubIdx]? with
    | none => ([], some .indexError)
    | some m =>
      if o.pub.contains m.toNat then
        catchAll Gen.pubCatchAll
          (if o.tunnel && m.toNat == Gen.cellMsgId then
             Out.andThen ([.pub lid o.pfx m.toNat], none) fun _ => onCell env lid o data
           else handlerCall (.pub lid o.pfx m.toNat) (env.pubRaises lid m.toNat data))
      else ([], none)

/-! ### PythonCryptoEndpoint -/

structure Crypto where
  pfx : Bytes
  tunnel : Option (Nat × Overlay)     -- tunnel_community: (listener id used for its events, overlay)
  relays : List Nat                   -- circuit ids with a relay route
  circuits : List Nat
  exits : List Nat
  maxRelayEarly : Nat
  hopless : List Nat := []            -- circuit ids in `circuits` whose circuit has no hops yet (CREATE sent, CREATED pending)
deriving Repr, Inhabited

def tunnelBranch (env : Env) (lk : Except Exn (Option Nat)) (c : Crypto) (data : Bytes) : Out :=
  match c.tunnel with
  | none => ([], none)
  | some (tl, o) => communityOnPacket env lk tl o data

/-- PythonCryptoEndpoint.process_cell -/
def processCell (env : Env) (dec : Nat → Bytes → Dec) (lk : Except Exn (Option Nat)) (c : Crypto) (data : Bytes) : Out :=
  match cellFromBin data with
  | .error e => ([], some e)
  | .ok cell =>
    if c.relays.contains cell.cid then ([], if env.relayRaises cell.cid data then some .relayRaise else none)
    else
      let known := c.circuits.contains cell.cid || c.exits.contains cell.cid
      if !known && !cell.plaintext then ([], none)
      -- incoming_crypto: "circuit known, no exit socket, no hops yet, not plaintext" is dropped
      else if c.circuits.contains cell.cid && !c.exits.contains cell.cid && c.hopless.contains cell.cid && !cell.plaintext
        then ([], none)
      else
        let r : Dec := if cell.plaintext || !known then .ok cell.message else dec cell.cid cell.message
        match r with
        | .fail => ([], none)
        | .raise => ([], some .cryptoRaise)
        | .ok m =>
          match m.head? with
          | none => ([], some .indexError)
          | some m0 =>
            if (!cell.relayEarly && m0.toNat == 4) || c.maxRelayEarly == 0 then ([], none)
            else if cell.plaintext && !Gen.noCryptoPackets.contains m0.toNat then ([], none)
            else tunnelBranch env lk c (cellToBin c.pfx { cell with message := m })

/-- the msg-id test of PythonCryptoEndpoint.on_packet: index form raises on a 22-byte datagram, slice form cannot -/
def cryptoIsCell (data : Bytes) : Except Exn Bool :=
  match data[Gen.cryptoIdx]? with
  | some b => .ok (b.toNat == Gen.cellMsgId)
  | none => if Gen.cryptoIdxSafe then .ok false else .error .indexError

/-- PythonCryptoEndpoint.on_packet -/
def cryptoOnPacket (env : Env) (dec : Nat → Bytes → Dec) (lk : Except Exn (Option Nat)) (lid : Nat) (c : Crypto)
    (data : Bytes) : Out :=
  Out.andThen ([.called lid], none) fun _ =>
  if c.pfx.isPrefixOf data then
    match cryptoIsCell data with
    | .error e => ([], some e)
    | .ok true => catchAll Gen.cryptoCatchAll (processCell env dec lk c data)
    | .ok false => tunnelBranch env lk c data
  else tunnelBranch env lk c data

/-! ### Endpoint: listener registry and delivery -/

/-- StatisticsEndpoint.on_packet (the shipped non-overlay listener; registers itself with add_listener):
    `prefix = data[:statTake]; if prefix not in tracked or len(data) < statMinLen: return; message_id = data[statIdx]` -/
def statsOnPacket (lid : Nat) (tracked : List Bytes) (data : Bytes) : Out :=
  Out.andThen ([.called lid], none) fun _ =>
  if !tracked.contains (data.take Gen.statTake) || data.length < Gen.statMinLen then ([], none)
  else match data[Gen.statIdx]? with
    | none => ([], some .indexError)
    | some _ => ([], none)

inductive Listener where
  | community (o : Overlay)
  | crypto (c : Crypto)
  | stats (tracked : List Bytes)   -- StatisticsEndpoint with these prefixes enabled
  | inert                          -- a listener outside the package (the harness' own recorders), assumed not to raise
deriving Repr, Inhabited

structure Registry where
  listeners : List Nat := []                    -- Endpoint._listeners (ids)
  prefixMap : List (Bytes × List Nat) := []     -- Endpoint._prefix_map (insertion ordered)
  isOpen : Bool := true
  table : List (Nat × Listener) := []           -- what each id is
deriving Repr, Inhabited

def lookupPrefix (pm : List (Bytes × List Nat)) (p : Bytes) : Option (List Nat) :=
  match pm with
  | [] => none
  | (q, ls) :: rest => if q == p then some ls else lookupPrefix rest p

def setPrefix (pm : List (Bytes × List Nat)) (p : Bytes) (ls : List Nat) : List (Bytes × List Nat) :=
  match pm with
  | [] => [(p, ls)]
  | (q, old) :: rest => if q == p then (q, ls) :: rest else (q, old) :: setPrefix rest p ls

def lookupListener (t : List (Nat × Listener)) (l : Nat) : Option Listener :=
  match t with
  | [] => none
  | (k, v) :: rest => if k == l then some v else lookupListener rest l

/-- Endpoint.add_listener -/
def Registry.addListener (r : Registry) (l : Nat) : Registry :=
  { r with listeners := r.listeners ++ [l], prefixMap := r.prefixMap.map fun (p, ls) => (p, ls ++ [l]) }

/-- Endpoint.add_prefix_listener (none = RuntimeError: wrong prefix length) -/
def Registry.addPrefixListener (r : Registry) (l : Nat) (p : Bytes) : Option Registry :=
  if p.length != Gen.prefixLen then none
  else some { r with prefixMap := setPrefix r.prefixMap p (((lookupPrefix r.prefixMap p).getD []) ++ [l] ++ r.listeners) }

def sameSet (a b : List Nat) : Bool := a.all (b.contains ·) && b.all (a.contains ·)

/-- Endpoint.remove_listener -/
def Registry.removeListener (r : Registry) (l : Nat) : Registry :=
  let ls := r.listeners.filter (· != l)
  { r with listeners := ls,
           prefixMap := r.prefixMap.filterMap fun (p, xs) =>
             let xs' := xs.filter (· != l)
             if sameSet xs' ls then none else some (p, xs') }

def listenerOnPacket (env : Env) (dec : Nat → Bytes → Dec) (lk : Except Exn (Option Nat)) (t : List (Nat × Listener))
    (l : Nat) (data : Bytes) : Out :=
  match lookupListener t l with
  | some (.community o) => communityOnPacket env lk l o data
  | some (.crypto c) => cryptoOnPacket env dec lk l c data
  | some (.stats tracked) => statsOnPacket l tracked data
  | some .inert => ([.called l], none)
  | none => ([], none)

/-- the test of Endpoint._deliver_later -/
def deliverCond (r : Registry) (l : Nat) (data : Bytes) : Bool :=
  r.isOpen && ((lookupPrefix r.prefixMap (data.take Gen.prefixLen)).isSome || r.listeners.contains l)

/-- Endpoint._deliver_later -/
def deliverLater (env : Env) (dec : Nat → Bytes → Dec) (lk : Except Exn (Option Nat)) (r : Registry) (l : Nat)
    (data : Bytes) : Out :=
  if deliverCond r l data then listenerOnPacket env dec lk r.table l data else ([], none)

/-- the listeners notify_listeners iterates over -/
def recipients (r : Registry) (data : Bytes) : List Nat :=
  (lookupPrefix r.prefixMap (data.take Gen.prefixLen)).getD r.listeners

/-- state of one `for listener in listeners` loop.  `pending` is what is left of the list OBJECT being iterated;
    `attached` says whether that object is still the live one inside the endpoint: add_listener appends to the live lists
    in place (so the running loop sees the new listener), whereas remove_listener and add_prefix_listener (for the same
    prefix) build NEW lists, after which the running loop is unaffected by later registrations. -/
structure DS where
  reg : Registry
  net : NetS
  attached : Bool
  pending : List Nat
  seen : List Nat := []      -- the part of the iterated list object the loop has already passed (matters only for in-place removal)
deriving Inhabited

/-- which list object is iterated: `some p` = the prefix list of `p`, `none` = `_listeners` -/
def iterKey (r : Registry) (data : Bytes) : Option Bytes :=
  if (lookupPrefix r.prefixMap (data.take Gen.prefixLen)).isSome then some (data.take Gen.prefixLen) else none

def applyOp (key : Option Bytes) (s : DS) : RegOp → DS
  | .add x => { s with reg := s.reg.addListener x,
                       pending := if s.attached && Gen.addAppendsInPlace then s.pending ++ [x] else s.pending }
  | .addp x q =>
    match s.reg.addPrefixListener x q with
    | none => s                       -- RuntimeError inside the listener (wrong prefix length): registry unchanged
    | some r' => { s with reg := r', attached := s.attached && !(key == some q) }
  | .rm x =>
    if Gen.rmRebuilds then { s with reg := s.reg.removeListener x, attached := false }
    else if s.attached then
      -- removal edits the iterated list object in place: everything behind the removed entries moves up while the loop's
      -- index stays, so for each removed entry the loop has already passed, one pending listener is skipped
      let seen' := s.seen.filter (· != x)
      { s with reg := s.reg.removeListener x, seen := seen',
               pending := (s.pending.filter (· != x)).drop (s.seen.length - seen'.length) }
    else { s with reg := s.reg.removeListener x }
  | .setOpen b => { s with reg := { s.reg with isOpen := b } }

def hasSender : List Ev → Bool
  | [] => false
  | .sender _ _ :: _ => true
  | _ :: rest => hasSender rest

/-- what one iteration of the loop observes: `_deliver_later(listener, packet)` -/
def stepOut (env : Env) (dec : Nat → Bytes → Dec) (src data : Bytes) (s : DS) (l : Nat) : Out :=
  if deliverCond s.reg l data then listenerOnPacket env dec (s.net.lookup src).1 s.reg.table l data else ([], none)

/-- the state after that iteration: the Network changes only if a Community.on_packet actually ran the sender lookup;
    the registry calls the listener made are applied in order -/
def stepState (env : Env) (src data : Bytes) (key : Option Bytes) (s : DS) (l : Nat) (rest : List Nat) (out : Out) : DS :=
  (if deliverCond s.reg l data then env.effects l data else []).foldl (applyOp key)
    { s with net := if hasSender out.1 then (s.net.lookup src).2 else s.net, pending := rest, seen := s.seen ++ [l] }

/-- the loop of Endpoint.notify_listeners with re-entrant registry calls and the shared Network.
    `fuel` only makes the definition structural (a listener that registers a new listener on every call would loop
    forever in the code as well). -/
def dispatch (env : Env) (dec : Nat → Bytes → Dec) (src data : Bytes) (key : Option Bytes) : Nat → DS → Out × DS
  | 0, s => (([], none), s)
  | fuel + 1, s =>
    match s.pending with
    | [] => (([], none), s)
    | l :: rest =>
      match (stepOut env dec src data s l).2 with
      | some e => (((stepOut env dec src data s l).1, some e), stepState env src data key s l rest (stepOut env dec src data s l))
      | none =>
        (((stepOut env dec src data s l).1 ++
            (dispatch env dec src data key fuel (stepState env src data key s l rest (stepOut env dec src data s l))).1.1,
          (dispatch env dec src data key fuel (stepState env src data key s l rest (stepOut env dec src data s l))).1.2),
         (dispatch env dec src data key fuel (stepState env src data key s l rest (stepOut env dec src data s l))).2)

def initDS (r : Registry) (net : NetS) (data : Bytes) : DS :=
  { reg := r, net := net, attached := !Gen.notifyIteratesCopy, pending := recipients r data }

/-- Endpoint.notify_listeners((src, data)) -/
def notify (env : Env) (dec : Nat → Bytes → Dec) (fuel : Nat) (r : Registry) (net : NetS) (src data : Bytes) : Out × DS :=
  dispatch env dec src data (iterKey r data) fuel (initDS r net data)

/-! ### UDPEndpoint.datagram_received / UDPv6Endpoint.datagram_received — what the asyncio transport calls -/

/-- `UDPv4Address(*addr)` / `UDPv6Address(*addr[:2])`: a two-field namedtuple built from the transport's address tuple.
    `sliceTo` is the `[:n]` the source applies before the star (none = no slice), read by the translator. -/
def addrConv (sliceTo : Option Nat) (arity : Nat) : Except Exn Unit :=
  let n := match sliceTo with | some k => min k arity | none => arity
  if n == 2 then .ok () else .error .typeError

/-- datagram_received(datagram, addr): dropped unless running; address conversion; notify_listeners.
    `v6` selects the UDPv6Endpoint override; `arity` is the length of the transport's address tuple
    (2 for AF_INET, 4 for AF_INET6). -/
def datagramReceived (env : Env) (dec : Nat → Bytes → Dec) (fuel : Nat) (running v6 : Bool) (arity : Nat)
    (r : Registry) (net : NetS) (src data : Bytes) : Out :=
  if !running then ([], none)
  else match addrConv (if v6 then Gen.v6AddrSlice else Gen.v4AddrSlice) arity with
    | .error e => ([], some e)
    | .ok _ => (notify env dec fuel r net src data).1

/-! ### exit sockets: TunnelExitSocket.datagram_received — bytes from anywhere on the Internet arrive here -/

def andE (a : Except Exn Bool) (b : Unit → Except Exn Bool) : Except Exn Bool :=
  match a with
  | .error e => .error e
  | .ok false => .ok false
  | .ok true => b ()

def orE (a : Except Exn Bool) (b : Unit → Except Exn Bool) : Except Exn Bool :=
  match a with
  | .error e => .error e
  | .ok true => .ok true
  | .ok false => b ()

/-- `unpack_from(fmt, data, off)` of `w` bytes as one big-endian number; struct.error when the buffer is too short -/
def readBE (d : Bytes) (off w : Nat) : Except Exn Nat :=
  if off + w ≤ d.length then .ok (beDec (slice d off (off + w))) else .error .structError

/-- DataChecker.could_be_utp -/
def couldBeUtp (d : Bytes) : Except Exn Bool :=
  if d.length < Gen.utpMinLen then .ok false
  else match readBE d 0 Gen.utpRead with
    | .error e => .error e
    | .ok n =>
      let byte1 := n / 256
      let byte2 := n % 256
      .ok (byte1 / 16 ≤ 4 && byte1 % 16 == 1 && byte2 ≤ 3)

/-- one clause `len(data) >= k and 0 <= unpack_from("!I", data, off)[0] <= m` -/
def trackerClause (d : Bytes) (c : Nat × Nat × Nat) : Except Exn Bool :=
  andE (.ok (decide (c.1 ≤ d.length))) fun _ =>
    match readBE d c.2.1 4 with
    | .error e => .error e
    | .ok n => .ok (decide (n ≤ c.2.2))

/-- DataChecker.could_be_udp_tracker: the clauses, left to right, with Python's short-circuit `or` -/
def couldBeTrackerOf (d : Bytes) : List (Nat × Nat × Nat) → Except Exn Bool
  | [] => .ok false
  | c :: cs => orE (trackerClause d c) fun _ => couldBeTrackerOf d cs

def couldBeTracker (d : Bytes) : Except Exn Bool := couldBeTrackerOf d Gen.trackerClauses

/-- DataChecker.could_be_dht (slices only) -/
def couldBeDht (d : Bytes) : Bool :=
  decide (1 < d.length) && d.take 1 == [100] && (d.drop (d.length - 1)) == [101]

/-- DataChecker.could_be_bt -/
def couldBeBt (d : Bytes) : Except Exn Bool :=
  orE (couldBeUtp d) fun _ => orE (couldBeTracker d) fun _ => .ok (couldBeDht d)

/-- DataChecker.could_be_ipv8 (slices only) -/
def couldBeIpv8 (d : Bytes) : Bool :=
  decide (Gen.ipv8MinLen ≤ d.length) && d.take 1 == [0] && (slice d 1 2 == [1] || slice d 1 2 == [2])

structure ExitCfg where
  exitBT : Bool          -- PEER_FLAG_EXIT_BT in settings.peer_flags
  exitIPv8 : Bool        -- PEER_FLAG_EXIT_IPV8 in settings.peer_flags
  pfx : Bytes            -- the tunnel overlay's own prefix
deriving Repr, Inhabited

/-- TunnelExitSocket.is_allowed -/
def isAllowed (cfg : ExitCfg) (d : Bytes) : Except Exn Bool :=
  match couldBeBt d with
  | .error e => .error e
  | .ok bt =>
    let v8 := couldBeIpv8 d
    .ok (!(!(bt && cfg.exitBT) && !(v8 && cfg.exitIPv8) && !(v8 && cfg.pfx == d.take 22)))

inductive ExitOutcome where
  | tunneled      -- tunnel_data called (data goes back into the circuit)
  | dropped
deriving Repr, DecidableEq, Inhabited

/-- TunnelExitSocket.datagram_received: `is_allowed` runs outside the try, `tunnel_data` inside `try/except Exception`
    (both shapes read from the source); `tunnelRaises`: whatever sending back into the circuit does -/
def exitDatagramReceived (cfg : ExitCfg) (tunnelRaises : Bool) (d : Bytes) : Except Exn ExitOutcome :=
  match isAllowed cfg d with
  | .error e => if Gen.exitAllowedProtected then .ok .dropped else .error e
  | .ok false => .ok .dropped
  | .ok true => if tunnelRaises && !Gen.exitTunnelProtected then .error .handler else .ok .tunneled

/-- the two callbacks asyncio invokes on an exit socket: address conversion, then the shared datagram_received
    (`mapped`: IPv4-mapped IPv6 source, ignored by the IPv6 socket) -/
def exitEntry (cfg : ExitCfg) (tunnelRaises v6 mapped : Bool) (arity : Nat) (d : Bytes) : Except Exn ExitOutcome :=
  if v6 && mapped then .ok .dropped
  else match addrConv (if v6 then Gen.exitV6AddrSlice else Gen.exitV4AddrSlice) arity with
    | .error e => .error e
    | .ok _ => exitDatagramReceived cfg tunnelRaises d

/-! ### BroadcastBootstrapEndpoint.datagram_received — the LAN discovery socket -/

/-- `HDR_ANNOUNCE + prefix` from a beacon: overlay.walk_to(addr) (builds and sends an introduction request; whatever it
    does is outside the model: `walkRaises`); a datagram starting with our prefix is handed to Community.on_packet;
    everything else is dropped.  Whether walk_to is called inside `try/except Exception` is read from the source. -/
def bcastDatagramReceived (env : Env) (lk : Except Exn (Option Nat)) (hdr : Bytes) (walkRaises : Bool) (lid : Nat)
    (o : Overlay) (data : Bytes) : Out :=
  if hdr.isPrefixOf data then
    if o.pfx == data.drop hdr.length then
      ([], if walkRaises && !Gen.bcastWalkProtected then some .handler else none)
    else ([], none)
  else if o.pfx.isPrefixOf data then communityOnPacket env lk lid o data
  else ([], none)

/-! ### Network.load_snapshot -/

/-- the loop of load_snapshot.  `fuel` bounds the iterations only to make the definition structural
    (`load_snapshot_total`: `snapshot.length` iterations always suffice).  The `try: … except Exception:` around the
    entry decode and the `if offset <= previous_offset: break` inside the handler are read from the source
    (`Gen.snapCatchAll`, `Gen.snapStuckBreak`): without the former a decode error propagates, without the latter the
    loop retries the same offset until the fuel is gone (the code would spin forever).  Result: the addresses stored. -/
def loadSnapshotLoop (snap : Bytes) : Nat → Nat → Except Exn (List Val)
  | 0, off => if off < snap.length then .error .handler else .ok []     -- out of fuel with work left = non-termination
  | fuel+1, off =>
    if off < snap.length then
      match unpackAddressAt false snap off with
      | .ok (a, off') =>
        match loadSnapshotLoop snap fuel off' with
        | .ok rest => .ok (a :: rest)
        | .error e => .error e
      | .error _ =>
        if !Gen.snapCatchAll then .error .handler
        else if Gen.snapStuckBreak then .ok []      -- offset unchanged → "got stuck" → break
        else loadSnapshotLoop snap fuel off
    else .ok []

def loadSnapshot (snap : Bytes) : Except Exn (List Val) := loadSnapshotLoop snap snap.length 0

end Ipv8.C03
