/-
  C03 — decode model (core Lean only, executable, structurally recursive).

  Mirrors the `unpack` side of ipv8/messaging/serialization.py (every Packer subclass, Serializer.unpack_serializable and
  unpack_serializable_list), anonymization/payload.py Flags.unpack and dht/payload.py NodePacker.unpack, as they are in
  the working tree AFTER the bounds-check repair (VarLen / NestedPayload / DefaultArray raise PackError when the declared
  length reaches beyond the buffer):

    * every `unpack` returns the new ABSOLUTE offset;
    * `struct.unpack_from(fmt, data, off)` fails (struct.error) iff `off + size > len(data)`      → `readAt`;
    * Python slices never fail, they truncate                                                    → `slice`;
    * Address(domain) slices the host without a check, decodes it, then reads the port with unpack_from — the port
      read is what bounds it;
    * NestedPayload.unpack ignores the inner end offset (slack inside the declared size is dropped);
    * Raw.unpack returns `len(data)` and `data[offset:]`;
    * Flags.unpack returns `offset + size` today (`absolute = true`, probed by the translator); the `absolute = false`
      constructor argument is the pre-631e6a8 behaviour (returned `size`) and is no longer generated.
  Not in the model: Peer/key parsing inside NodePacker (a node entry with an unparsable key is rejected by the code; the
  model accepts it — the harness classifies that case separately), float conversion, inet_ntop.
-/
import Ipv8.C03.Types
import Ipv8.C03.GenTables

namespace Ipv8.C03
open Ipv8

/-! ### bytes -/

def beDecAux : Bytes → Nat → Nat
  | [], acc => acc
  | b :: bs, acc => beDecAux bs (acc * 256 + b.toNat)

def beDec (bs : Bytes) : Nat := beDecAux bs 0

/-- `data[a:b]` for non-negative `a`, `b` -/
def slice (d : Bytes) (a b : Nat) : Bytes := (d.drop a).take (b - a)

/-- the bytes `struct.unpack_from` reads: `w` bytes at `off`, or struct.error -/
def readAt (d : Bytes) (off w : Nat) : Except Err Bytes :=
  if off + w ≤ d.length then .ok (slice d off (off + w)) else .error .short

def readUint (d : Bytes) (off w : Nat) : Except Err Nat :=
  match readAt d off w with
  | .ok b => .ok (beDec b)
  | .error e => .error e

/-- length prefix of DefaultArray: byte order as probed -/
def readLen (be : Bool) (d : Bytes) (off w : Nat) : Except Err Nat :=
  match readAt d off w with
  | .ok b => .ok (beDec (if be then b else b.reverse))
  | .error e => .error e

def sintDec (w : Nat) (n : Nat) : Int :=
  if 2 * n < 256 ^ w then (n : Int) else (n : Int) - (256 ^ w : Nat)

/-! ### UTF-8 validity (what `bytes.decode()` accepts: no overlongs, no surrogates, ≤ U+10FFFF) -/

def isCont (b : UInt8) : Bool := 0x80 ≤ b.toNat && b.toNat ≤ 0xBF

def utf8Valid : Bytes → Bool
  | [] => true
  | b0 :: rest =>
    let n := b0.toNat
    if n < 0x80 then utf8Valid rest
    else if 0xC2 ≤ n && n ≤ 0xDF then
      match rest with
      | b1 :: r => isCont b1 && utf8Valid r
      | _ => false
    else if 0xE0 ≤ n && n ≤ 0xEF then
      match rest with
      | b1 :: b2 :: r =>
        let lo := if n == 0xE0 then 0xA0 else 0x80
        let hi := if n == 0xED then 0x9F else 0xBF
        (lo ≤ b1.toNat && b1.toNat ≤ hi) && isCont b2 && utf8Valid r
      | _ => false
    else if 0xF0 ≤ n && n ≤ 0xF4 then
      match rest with
      | b1 :: b2 :: b3 :: r =>
        let lo := if n == 0xF0 then 0x90 else 0x80
        let hi := if n == 0xF4 then 0x8F else 0xBF
        (lo ≤ b1.toNat && b1.toNat ≤ hi) && isCont b2 && isCont b3 && utf8Valid r
      | _ => false
    else false

/-! ### struct fields, bits, flags, array items -/

def decodeField : SField → Bytes → Val
  | .uint _, b => .nat (beDec b)
  | .sint w, b => .int (sintDec w (beDec b))
  | .bool, b => .bool (beDec b != 0)
  | .char, b => .bytes b
  | .fixed _, b => .bytes b
  | .float _, b => .float b

/-- decode consecutive fields from a buffer that is known to be long enough -/
def decodeFields : List SField → Bytes → List Val
  | [], _ => []
  | f :: fs, b => decodeField f (b.take f.size) :: decodeFields fs (b.drop f.size)

def structSize : List SField → Nat
  | [] => 0
  | f :: fs => f.size + structSize fs

def bitsOfByte (n : Nat) : List Nat :=
  [n / 128 % 2, n / 64 % 2, n / 32 % 2, n / 16 % 2, n / 8 % 2, n / 4 % 2, n / 2 % 2, n % 2]

/-- `list(filter(None, [number & (2 ** i) for i in range(size * 8)]))` -/
def flagsDecode (w n : Nat) : List Nat :=
  ((List.range (8 * w)).map (fun i => n &&& 2 ^ i)).filter (fun x => x != 0)

def decodeElem (k : AKind) (be : Bool) (b : Bytes) : Val :=
  let b' := if be then b else b.reverse
  match k with
  | .bool => .bool (beDec b' != 0)
  | .q => .int (sintDec 8 (beDec b'))
  | .d => .float b'

/-- split a buffer into `n` items of the kind's size -/
def decodeElems (k : AKind) (be : Bool) : Nat → Bytes → List Val
  | 0, _ => []
  | n+1, b => decodeElem k be (b.take k.size) :: decodeElems k be n (b.drop k.size)

/-! ### addresses -/

def unpackAddressAt (ipOnly : Bool) (d : Bytes) (off : Nat) : Except Err (Val × Nat) := do
  let t ← readUint d off 1
  if t = 1 then
    let b ← readAt d (off + 1) 6
    .ok (.addr 1 (b.take 4) (beDec (b.drop 4)), off + 7)
  else if t = 3 then
    let b ← readAt d (off + 1) 18
    .ok (.addr 3 (b.take 16) (beDec (b.drop 16)), off + 19)
  else if !ipOnly && t = 2 then
    let len ← readUint d (off + 1) 2
    let host := slice d (off + 3) (off + 3 + len)
    if utf8Valid host then
      let port ← readUint d (off + 3 + len) 2
      .ok (.addr 2 host port, off + 5 + len)
    else .error .utf8
  else .error .addr

/-! ### unpack (structural on the format; absolute offsets) -/

/-- the `for _ in range(length)` loop of ListOf.unpack over an element decoder -/
def manyAt (u : Bytes → Nat → Except Err (Val × Nat)) : Nat → Bytes → Nat → Except Err (List Val × Nat)
  | 0, _, off => .ok ([], off)
  | k+1, d, off => do
    let (v, o1) ← u d off
    let (vs, o2) ← manyAt u k d o1
    .ok (v :: vs, o2)

mutual
def unpackAt : Fmt → Bytes → Nat → Except Err (Val × Nat)
  | .struct fs, d, off => do
    let b ← readAt d off (structSize fs)
    match decodeFields fs b with
    | [a] => .ok (a, off + structSize fs)
    | as => .ok (.tuple as, off + structSize fs)
  | .bits, d, off => do
    let n ← readUint d off 1
    .ok (.bits (bitsOfByte n), off + 1)
  | .raw, d, off => .ok (.bytes (d.drop off), d.length)
  | .varlen lw base, d, off => do
    let n ← readUint d off lw
    let e := off + lw + n * base
    if Gen.varlenChecked then
      if e ≤ d.length then .ok (.bytes (slice d (off + lw) e), e) else .error .pack
    else .ok (.bytes (slice d (off + lw) e), e)          -- no check in the source: truncating slice, end beyond the buffer
  | .utf8 lw base, d, off => do
    let n ← readUint d off lw
    let e := off + lw + n * base
    if Gen.varlenChecked then
      if e ≤ d.length then
        let s := slice d (off + lw) e
        if utf8Valid s then .ok (.str s, e) else .error .utf8
      else .error .pack
    else
      let s := slice d (off + lw) e
      if utf8Valid s then .ok (.str s, e) else .error .utf8
  | .ipv4, d, off => do
    let b ← readAt d off 6
    .ok (.addr 1 (b.take 4) (beDec (b.drop 4)), off + 6)
  | .address ipOnly, d, off => unpackAddressAt ipOnly d off
  | .listOf lw f, d, off => do
    let n ← readUint d off lw
    let (vs, o) ← manyAt (unpackAt f) n d (off + lw)
    .ok (.list vs, o)
  | .array lw lenBE k itemBE, d, off => do
    let n ← readLen lenBE d off lw
    let e := off + lw + n * k.size
    if Gen.arrayChecked then
      if e ≤ d.length then .ok (.arr (decodeElems k itemBE n (slice d (off + lw) e)), e) else .error .pack
    else
      let s := slice d (off + lw) e        -- no check: array.frombytes on the truncated slice (ValueError unless whole items)
      if s.length % k.size = 0 then .ok (.arr (decodeElems k itemBE (s.length / k.size) s), e) else .error .pack
  | .nested fs, d, off => do
    let n ← readUint d off 2
    if Gen.nestedChecked then
      if off + 2 + n ≤ d.length then
        let (vs, _) ← unpackListAt fs (slice d (off + 2) (off + 2 + n)) 0
        .ok (.record vs, off + 2 + n)
      else .error .pack
    else
      let (vs, _) ← unpackListAt fs (slice d (off + 2) (off + 2 + n)) 0
      .ok (.record vs, off + 2 + n)
  | .tuple fs, d, off => do
    let (vs, o) ← unpackListAt fs d off
    .ok (.tuple vs, o)
  | .flags w absolute, d, off => do
    let n ← readUint d off w
    .ok (.nats (flagsDecode w n), if absolute then off + w else w)
def unpackListAt : FmtList → Bytes → Nat → Except Err (List Val × Nat)
  | .nil, _, off => .ok ([], off)
  | .cons f fs, d, off => do
    let (v, o1) ← unpackAt f d off
    let (vs, o2) ← unpackListAt fs d o1
    .ok (v :: vs, o2)
end

/-! ### Serializer.unpack_serializable_list -/

/-- decode several payloads one after the other; with `consumeAll` a remainder is an error, otherwise it is returned -/
def unpackPayloadsAt : List FmtList → Bytes → Nat → Bool → Except Err (List (List Val) × Bytes)
  | [], d, off, true => if (d.drop off).isEmpty then .ok ([], []) else .error .extra
  | [], d, off, false => .ok ([], d.drop off)
  | fs :: rest, d, off, consumeAll => do
    let (vs, o) ← unpackListAt fs d off
    let (more, rem) ← unpackPayloadsAt rest d o consumeAll
    .ok (vs :: more, rem)

/-! ### canonical rendering (what the correspondence compares) -/

def hexOf (b : Bytes) : String := Proto.toHex b

def joinWith (sep : String) : List String → String
  | [] => ""
  | [x] => x
  | x :: xs => x ++ sep ++ joinWith sep xs

mutual
def Val.render : Val → String
  | .nat n => "n" ++ toString n
  | .int i => "i" ++ toString i
  | .bool b => if b then "T" else "F"
  | .bytes b => "x" ++ hexOf b
  | .float _ => "f"
  | .tuple vs => "(" ++ renderAll vs ++ ")"
  | .bits bs => joinWith ";" (bs.map (fun n => "n" ++ toString n))
  | .addr k h p => "a" ++ toString k ++ ":" ++ hexOf h ++ ":" ++ toString p
  | .str b => "s" ++ hexOf b
  | .list vs => "[" ++ renderAll vs ++ "]"
  | .arr vs => "<" ++ renderAll vs ++ ">"
  | .record vs => "{" ++ renderAll vs ++ "}"
  | .nats l => "F" ++ joinWith "," (l.map toString)
def renderAll : List Val → String
  | [] => ""
  | v :: vs => v.render ++ ";" ++ renderAll vs
end

end Ipv8.C03
