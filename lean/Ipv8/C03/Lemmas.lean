/-
  C03 — specification predicates and helper lemmas (core Lean only; no Mathlib needed).
-/
import Ipv8.C03.Recv

namespace Ipv8.C03
open Ipv8

/-! ### "the length-prefixed parts really have their declared length" -/

/-- element-wise version for the repetition of ListOf -/
def DeclMany (P : Bytes → Nat → Val → Nat → Prop) : List Val → Bytes → Nat → Nat → Prop
  | [], _, off, e => e = off
  | v :: vs, d, off, e => ∃ o1, P d off v o1 ∧ DeclMany P vs d o1 e

mutual
/-- `Declared f d off v e`: value `v`, decoded by format `f` from `d` at `off` with reported end `e`, has exactly the
    lengths its length prefixes in `d` declare — recursively through lists, tuples and nested payloads. -/
def Declared : Fmt → Bytes → Nat → Val → Nat → Prop
  | .varlen lw base, d, off, v, e =>
      ∃ b, v = .bytes b ∧ b.length = beDec (slice d off (off + lw)) * base ∧ e = off + lw + b.length
        ∧ b = slice d (off + lw) e
  | .utf8 lw base, d, off, v, e =>
      ∃ b, v = .str b ∧ b.length = beDec (slice d off (off + lw)) * base ∧ e = off + lw + b.length
        ∧ b = slice d (off + lw) e
  | .listOf lw f, d, off, v, e =>
      ∃ vs, v = .list vs ∧ vs.length = beDec (slice d off (off + lw)) ∧ DeclMany (Declared f) vs d (off + lw) e
  | .array lw lenBE k _, d, off, v, e =>
      ∃ vs, v = .arr vs ∧ readLen lenBE d off lw = .ok vs.length ∧ e = off + lw + vs.length * k.size
  | .nested fs, d, off, v, e =>
      ∃ vs e', v = .record vs ∧ e = off + 2 + beDec (slice d off (off + 2))
        ∧ DeclaredList fs (slice d (off + 2) e) 0 vs e' ∧ e' ≤ (slice d (off + 2) e).length
  | .tuple fs, d, off, v, e => ∃ vs, v = .tuple vs ∧ DeclaredList fs d off vs e
  | .address _, d, off, v, _ =>
      ∀ host port, v = .addr 2 host port → host.length = beDec (slice d (off + 1) (off + 3))
  | _, _, _, _, _ => True
def DeclaredList : FmtList → Bytes → Nat → List Val → Nat → Prop
  | .nil, _, off, vs, e => vs = [] ∧ e = off
  | .cons f fs, d, off, vs, e => ∃ v rest o1, vs = v :: rest ∧ Declared f d off v o1 ∧ DeclaredList fs d o1 rest e
end

/-- observation helpers with decidable equality (for the non-vacuity examples) -/
def endOf {α : Type} : Except Err (α × Nat) → Option Nat
  | .ok (_, e) => some e
  | .error _ => none
def errOf {α : Type} : Except Err α → Option Err
  | .ok _ => none
  | .error e => some e

/-! ### Except plumbing -/

theorem bind_ok {α β : Type} {x : Except Err α} {f : α → Except Err β} {b : β}
    (h : (x >>= f) = .ok b) : ∃ a, x = .ok a ∧ f a = .ok b := by
  cases x with
  | error e => simp [bind, Except.bind] at h
  | ok a => exact ⟨a, rfl, by simpa [bind, Except.bind] using h⟩

theorem slice_length (d : Bytes) (a b : Nat) (hb : b ≤ d.length) : (slice d a b).length = b - a := by
  simp [slice]; omega

theorem slice_length_le (d : Bytes) (a b : Nat) : (slice d a b).length ≤ b - a := by
  simp [slice]; omega

theorem readAt_ok {d : Bytes} {off w : Nat} {b : Bytes} (h : readAt d off w = .ok b) :
    off + w ≤ d.length ∧ b = slice d off (off + w) := by
  unfold readAt at h
  split at h
  · cases h; exact ⟨by assumption, rfl⟩
  · cases h

theorem readUint_ok {d : Bytes} {off w n : Nat} (h : readUint d off w = .ok n) :
    off + w ≤ d.length ∧ n = beDec (slice d off (off + w)) := by
  unfold readUint at h
  split at h
  · rename_i b hb
    cases h
    have := readAt_ok hb
    exact ⟨this.1, by rw [this.2]⟩
  · cases h

theorem readLen_ok {be : Bool} {d : Bytes} {off w n : Nat} (h : readLen be d off w = .ok n) :
    off + w ≤ d.length := by
  unfold readLen at h
  split at h
  · rename_i b hb
    exact (readAt_ok hb).1
  · cases h

theorem decodeElems_length (k : AKind) (be : Bool) (n : Nat) (b : Bytes) : (decodeElems k be n b).length = n := by
  induction n generalizing b with
  | zero => simp [decodeElems]
  | succ n ih => simp [decodeElems, ih]

/-! ### addresses -/

theorem unpackAddressAt_bound {ipOnly : Bool} {d : Bytes} {off : Nat} {v : Val} {e : Nat}
    (h : unpackAddressAt ipOnly d off = .ok (v, e)) : e ≤ d.length ∧ off < e := by
  unfold unpackAddressAt at h
  obtain ⟨t, ht, h⟩ := bind_ok h
  split at h
  · obtain ⟨b, hb, h⟩ := bind_ok h
    cases h
    have := (readAt_ok hb).1
    omega
  · split at h
    · obtain ⟨b, hb, h⟩ := bind_ok h
      cases h
      have := (readAt_ok hb).1
      omega
    · split at h
      · obtain ⟨len, hl, h⟩ := bind_ok h
        dsimp only at h
        split at h
        · obtain ⟨port, hp, h⟩ := bind_ok h
          cases h
          have := (readUint_ok hp).1
          omega
        · cases h
      · cases h

theorem unpackAddressAt_declared {ipOnly : Bool} {d : Bytes} {off : Nat} {v : Val} {e : Nat}
    (h : unpackAddressAt ipOnly d off = .ok (v, e)) :
    ∀ host port, v = .addr 2 host port → host.length = beDec (slice d (off + 1) (off + 3)) := by
  intro host port hv
  unfold unpackAddressAt at h
  obtain ⟨t, ht, h⟩ := bind_ok h
  split at h
  · obtain ⟨b, hb, h⟩ := bind_ok h
    cases h; cases hv
  · split at h
    · obtain ⟨b, hb, h⟩ := bind_ok h
      cases h; cases hv
    · split at h
      · obtain ⟨len, hl, h⟩ := bind_ok h
        dsimp only at h
        split at h
        · obtain ⟨p, hp, h⟩ := bind_ok h
          cases h; cases hv
          have h1 := readUint_ok hl
          have h2 := (readUint_ok hp).1
          rw [slice_length _ _ _ (by omega)]
          have : off + 1 + 2 = off + 3 := by omega
          rw [this] at h1
          omega
        · cases h
      · cases h

/-! ### the ListOf loop -/

theorem manyAt_bound (u : Bytes → Nat → Except Err (Val × Nat))
    (hu : ∀ d off v e, off ≤ d.length → u d off = .ok (v, e) → e ≤ d.length) :
    ∀ n d off vs e, off ≤ d.length → manyAt u n d off = .ok (vs, e) → e ≤ d.length := by
  intro n
  induction n with
  | zero => intro d off vs e hoff h; simp [manyAt] at h; omega
  | succ k ih =>
    intro d off vs e hoff h
    simp only [manyAt] at h
    obtain ⟨⟨v, o1⟩, h1, h⟩ := bind_ok h
    obtain ⟨⟨vs', o2⟩, h2, h⟩ := bind_ok h
    cases h
    exact ih d o1 vs' o2 (hu d off v o1 hoff h1) h2

theorem manyAt_declared (u : Bytes → Nat → Except Err (Val × Nat)) (P : Bytes → Nat → Val → Nat → Prop)
    (hu : ∀ d off v e, u d off = .ok (v, e) → P d off v e) :
    ∀ n d off vs e, manyAt u n d off = .ok (vs, e) → vs.length = n ∧ DeclMany P vs d off e := by
  intro n
  induction n with
  | zero => intro d off vs e h; simp [manyAt] at h; obtain ⟨rfl, rfl⟩ := h; simp [DeclMany]
  | succ k ih =>
    intro d off vs e h
    simp only [manyAt] at h
    obtain ⟨⟨v, o1⟩, h1, h⟩ := bind_ok h
    obtain ⟨⟨vs', o2⟩, h2, h⟩ := bind_ok h
    cases h
    have := ih d o1 vs' o2 h2
    exact ⟨by simp [this.1], o1, hu d off v o1 h1, this.2⟩

/-! ### receive path: outcomes -/

theorem andThen_none {a : Out} {k : Unit → Out} (ha : a.2 = none) (hk : (k ()).2 = none) :
    (Out.andThen a k).2 = none := by
  unfold Out.andThen
  rw [ha]; exact hk

theorem andThen_events_of_none {a : Out} {k : Unit → Out} (ha : a.2 = none) :
    (Out.andThen a k).1 = a.1 ++ (k ()).1 := by
  unfold Out.andThen
  rw [ha]

theorem andThen_mem {a : Out} {k : Unit → Out} {ev : Ev} (h : ev ∈ (Out.andThen a k).1) :
    ev ∈ a.1 ∨ ev ∈ (k ()).1 := by
  unfold Out.andThen at h
  split at h
  · exact Or.inl h
  · simp at h; exact h

theorem catchAll_true (a : Out) : (catchAll true a).2 = none := by simp [catchAll]

theorem catchAll_events (p : Bool) (a : Out) : (catchAll p a).1 = a.1 := by
  unfold catchAll; split <;> rfl

end Ipv8.C03
