/-
  C03 — specification predicates and helper lemmas (core Lean only; no Mathlib needed).
-/
import Ipv8.C03.Recv

namespace Ipv8.C03
open Ipv8

/-! ### "the length-prefixed parts really have their declared length" -/

/-- element-wise version for the repetition of ListOf -/
def DeclMany (P : Bytes → Nat → Val → Nat → Prop) : List Val → Bytes → Nat → Nat → Prop
  | [], _, off, e => e = off
  | v :: vs, d, off, e => ∃ o1, P d off v o1 ∧ DeclMany P vs d o1 e

mutual
/-- `Declared f d off v e`: value `v`, decoded by format `f` from `d` at `off` with reported end `e`, has exactly the
    lengths its length prefixes in `d` declare — recursively through lists, tuples and nested payloads. -/
def Declared : Fmt → Bytes → Nat → Val → Nat → Prop
  | .varlen lw base, d, off, v, e =>
      ∃ b, v = .bytes b ∧ b.length = beDec (slice d off (off + lw)) * base ∧ e = off + lw + b.length
        ∧ b = slice d (off + lw) e
  | .utf8 lw base, d, off, v, e =>
      ∃ b, v = .str b ∧ b.length = beDec (slice d off (off + lw)) * base ∧ e = off + lw + b.length
        ∧ b = slice d (off + lw) e
  | .listOf lw f, d, off, v, e =>
      ∃ vs, v = .list vs ∧ vs.length = beDec (slice d off (off + lw)) ∧ DeclMany (Declared f) vs d (off + lw) e
  | .array lw lenBE k itemBE, d, off, v, e =>
      ∃ vs, v = .arr vs ∧ readLen lenBE d off lw = .ok vs.length ∧ e = off + lw + vs.length * k.size
        ∧ (slice d (off + lw) e).length = vs.length * k.size      -- the items are really there (needs the bounds check)
        ∧ vs = decodeElems k itemBE vs.length (slice d (off + lw) e)
  | .nested fs, d, off, v, e =>
      ∃ vs e', v = .record vs ∧ e = off + 2 + beDec (slice d off (off + 2))
        ∧ DeclaredList fs (slice d (off + 2) e) 0 vs e' ∧ e' ≤ (slice d (off + 2) e).length
  | .tuple fs, d, off, v, e => ∃ vs, v = .tuple vs ∧ DeclaredList fs d off vs e
  | .address _, d, off, v, _ =>
      ∀ host port, v = .addr 2 host port → host.length = beDec (slice d (off + 1) (off + 3))
  | _, _, _, _, _ => True
def DeclaredList : FmtList → Bytes → Nat → List Val → Nat → Prop
  | .nil, _, off, vs, e => vs = [] ∧ e = off
  | .cons f fs, d, off, vs, e => ∃ v rest o1, vs = v :: rest ∧ Declared f d off v o1 ∧ DeclaredList fs d o1 rest e
end

/-- observation helpers with decidable equality (for the non-vacuity examples) -/
def endOf {α : Type} : Except Err (α × Nat) → Option Nat
  | .ok (_, e) => some e
  | .error _ => none
def errOf {α : Type} : Except Err α → Option Err
  | .ok _ => none
  | .error e => some e

/-! ### Except plumbing -/

theorem bind_ok {α β : Type} {x : Except Err α} {f : α → Except Err β} {b : β}
    (h : (x >>= f) = .ok b) : ∃ a, x = .ok a ∧ f a = .ok b := by
  cases x with
  | error e => simp [bind, Except.bind] at h
  | ok a => exact ⟨a, rfl, by simpa [bind, Except.bind] using h⟩

theorem slice_length (d : Bytes) (a b : Nat) (hb : b ≤ d.length) : (slice d a b).length = b - a := by
  simp [slice]; omega

theorem slice_length_le (d : Bytes) (a b : Nat) : (slice d a b).length ≤ b - a := by
  simp [slice]; omega

theorem readAt_ok {d : Bytes} {off w : Nat} {b : Bytes} (h : readAt d off w = .ok b) :
    off + w ≤ d.length ∧ b = slice d off (off + w) := by
  unfold readAt at h
  split at h
  · cases h; exact ⟨by assumption, rfl⟩
  · cases h

theorem readUint_ok {d : Bytes} {off w n : Nat} (h : readUint d off w = .ok n) :
    off + w ≤ d.length ∧ n = beDec (slice d off (off + w)) := by
  unfold readUint at h
  split at h
  · rename_i b hb
    cases h
    have := readAt_ok hb
    exact ⟨this.1, by rw [this.2]⟩
  · cases h

theorem readLen_ok {be : Bool} {d : Bytes} {off w n : Nat} (h : readLen be d off w = .ok n) :
    off + w ≤ d.length := by
  unfold readLen at h
  split at h
  · rename_i b hb
    exact (readAt_ok hb).1
  · cases h

theorem decodeElems_length (k : AKind) (be : Bool) (n : Nat) (b : Bytes) : (decodeElems k be n b).length = n := by
  induction n generalizing b with
  | zero => simp [decodeElems]
  | succ n ih => simp [decodeElems, ih]

/-! ### addresses -/

theorem unpackAddressAt_bound {ipOnly : Bool} {d : Bytes} {off : Nat} {v : Val} {e : Nat}
    (h : unpackAddressAt ipOnly d off = .ok (v, e)) : e ≤ d.length ∧ off < e := by
  unfold unpackAddressAt at h
  obtain ⟨t, ht, h⟩ := bind_ok h
  split at h
  · obtain ⟨b, hb, h⟩ := bind_ok h
    cases h
    have := (readAt_ok hb).1
    omega
  · split at h
    · obtain ⟨b, hb, h⟩ := bind_ok h
      cases h
      have := (readAt_ok hb).1
      omega
    · split at h
      · obtain ⟨len, hl, h⟩ := bind_ok h
        dsimp only at h
        split at h
        · obtain ⟨port, hp, h⟩ := bind_ok h
          cases h
          have := (readUint_ok hp).1
          omega
        · cases h
      · cases h

theorem unpackAddressAt_declared {ipOnly : Bool} {d : Bytes} {off : Nat} {v : Val} {e : Nat}
    (h : unpackAddressAt ipOnly d off = .ok (v, e)) :
    ∀ host port, v = .addr 2 host port → host.length = beDec (slice d (off + 1) (off + 3)) := by
  intro host port hv
  unfold unpackAddressAt at h
  obtain ⟨t, ht, h⟩ := bind_ok h
  split at h
  · obtain ⟨b, hb, h⟩ := bind_ok h
    cases h; cases hv
  · split at h
    · obtain ⟨b, hb, h⟩ := bind_ok h
      cases h; cases hv
    · split at h
      · obtain ⟨len, hl, h⟩ := bind_ok h
        dsimp only at h
        split at h
        · obtain ⟨p, hp, h⟩ := bind_ok h
          cases h; cases hv
          have h1 := readUint_ok hl
          have h2 := (readUint_ok hp).1
          rw [slice_length _ _ _ (by omega)]
          have : off + 1 + 2 = off + 3 := by omega
          rw [this] at h1
          omega
        · cases h
      · cases h

/-! ### the ListOf loop -/

theorem manyAt_bound (u : Bytes → Nat → Except Err (Val × Nat))
    (hu : ∀ d off v e, u d off = .ok (v, e) → e ≤ max off d.length) :
    ∀ n d off vs e, manyAt u n d off = .ok (vs, e) → e ≤ max off d.length := by
  intro n
  induction n with
  | zero => intro d off vs e h; simp [manyAt] at h; omega
  | succ k ih =>
    intro d off vs e h
    simp only [manyAt] at h
    obtain ⟨⟨v, o1⟩, h1, h⟩ := bind_ok h
    obtain ⟨⟨vs', o2⟩, h2, h⟩ := bind_ok h
    cases h
    have a := hu d off v o1 h1
    have b := ih d o1 vs' o2 h2
    omega

theorem manyAt_declared (u : Bytes → Nat → Except Err (Val × Nat)) (P : Bytes → Nat → Val → Nat → Prop)
    (hu : ∀ d off v e, u d off = .ok (v, e) → P d off v e) :
    ∀ n d off vs e, manyAt u n d off = .ok (vs, e) → vs.length = n ∧ DeclMany P vs d off e := by
  intro n
  induction n with
  | zero => intro d off vs e h; simp [manyAt] at h; obtain ⟨rfl, rfl⟩ := h; simp [DeclMany]
  | succ k ih =>
    intro d off vs e h
    simp only [manyAt] at h
    obtain ⟨⟨v, o1⟩, h1, h⟩ := bind_ok h
    obtain ⟨⟨vs', o2⟩, h2, h⟩ := bind_ok h
    cases h
    have := ih d o1 vs' o2 h2
    exact ⟨by simp [this.1], o1, hu d off v o1 h1, this.2⟩


/-! ### prefix stability: decoding a truncated buffer -/

mutual
/-- no `raw` ("the rest of the buffer") that extends to the end of the OUTER buffer -/
def rawFree : Fmt → Bool
  | .raw => false
  | .listOf _ f => rawFree f
  | .nested _ => true            -- a `raw` inside a nested payload is bounded by the declared (and checked) size
  | .tuple fs => rawFreeList fs
  | _ => true
def rawFreeList : FmtList → Bool
  | .nil => true
  | .cons f fs => rawFree f && rawFreeList fs
end

theorem slice_take (d : Bytes) (k a b : Nat) (hb : b ≤ k) : slice (d.take k) a b = slice d a b := by
  unfold slice
  rw [List.drop_take, List.take_take]
  congr 1
  omega

theorem readAt_take {d : Bytes} {k off w : Nat} {b : Bytes} (h : readAt (d.take k) off w = .ok b) :
    readAt d off w = .ok b ∧ off + w ≤ k := by
  have h1 := readAt_ok h
  have hk : off + w ≤ k := by have := h1.1; simp at this; omega
  have hl : off + w ≤ d.length := by have := h1.1; simp at this; omega
  refine ⟨?_, hk⟩
  unfold readAt
  rw [if_pos hl, h1.2, slice_take _ _ _ _ hk]

theorem readUint_take {d : Bytes} {k off w n : Nat} (h : readUint (d.take k) off w = .ok n) :
    readUint d off w = .ok n ∧ off + w ≤ k := by
  unfold readUint at h
  split at h
  · rename_i b hb
    cases h
    have := readAt_take hb
    exact ⟨by unfold readUint; rw [this.1], this.2⟩
  · cases h

theorem readLen_take {be : Bool} {d : Bytes} {k off w n : Nat} (h : readLen be (d.take k) off w = .ok n) :
    readLen be d off w = .ok n ∧ off + w ≤ k := by
  unfold readLen at h
  split at h
  · rename_i b hb
    cases h
    have := readAt_take hb
    exact ⟨by unfold readLen; rw [this.1], this.2⟩
  · cases h

theorem length_take_le (d : Bytes) (k : Nat) : (d.take k).length ≤ k ∧ (d.take k).length ≤ d.length := by
  simp; omega

theorem unpackAddressAt_take {ipOnly : Bool} {d : Bytes} {k off : Nat} {v : Val} {e : Nat}
    (h : unpackAddressAt ipOnly (d.take k) off = .ok (v, e)) : unpackAddressAt ipOnly d off = .ok (v, e) := by
  unfold unpackAddressAt at h ⊢
  obtain ⟨t, ht, h⟩ := bind_ok h
  rw [(readUint_take ht).1]
  simp only [bind, Except.bind]
  split at h
  · rename_i h1
    obtain ⟨b, hb, h⟩ := bind_ok h
    rw [if_pos h1, (readAt_take hb).1]
    exact h
  · rename_i h1
    rw [if_neg h1]
    split at h
    · rename_i h3
      obtain ⟨b, hb, h⟩ := bind_ok h
      rw [if_pos h3, (readAt_take hb).1]
      exact h
    · rename_i h3
      rw [if_neg h3]
      split at h
      · rename_i h2
        obtain ⟨len, hl, h⟩ := bind_ok h
        rw [if_pos h2, (readUint_take hl).1]
        dsimp only at h ⊢
        split at h
        · rename_i hv
          obtain ⟨p, hp, h⟩ := bind_ok h
          have hpk := (readUint_take hp).2
          have hs : slice (d.take k) (off + 3) (off + 3 + len) = slice d (off + 3) (off + 3 + len) :=
            slice_take _ _ _ _ (by omega)
          rw [hs] at hv h
          rw [if_pos hv, (readUint_take hp).1]
          exact h
        · cases h
      · cases h

theorem manyAt_take (u : Bytes → Nat → Except Err (Val × Nat)) (k : Nat)
    (hu : ∀ d off v e, u (d.take k) off = .ok (v, e) → u d off = .ok (v, e)) :
    ∀ n d off vs e, manyAt u n (d.take k) off = .ok (vs, e) → manyAt u n d off = .ok (vs, e) := by
  intro n
  induction n with
  | zero => intro d off vs e h; simpa [manyAt] using h
  | succ m ih =>
    intro d off vs e h
    simp only [manyAt] at h ⊢
    obtain ⟨⟨v, o1⟩, h1, h⟩ := bind_ok h
    obtain ⟨⟨vs', o2⟩, h2, h⟩ := bind_ok h
    rw [hu d off v o1 h1]
    simp only [bind, Except.bind]
    rw [ih d o1 vs' o2 h2]
    exact h

/-! ### receive path: outcomes -/

theorem andThen_none {a : Out} {k : Unit → Out} (ha : a.2 = none) (hk : (k ()).2 = none) :
    (Out.andThen a k).2 = none := by
  unfold Out.andThen
  rw [ha]; exact hk

theorem andThen_events_of_none {a : Out} {k : Unit → Out} (ha : a.2 = none) :
    (Out.andThen a k).1 = a.1 ++ (k ()).1 := by
  unfold Out.andThen
  rw [ha]

theorem andThen_mem {a : Out} {k : Unit → Out} {ev : Ev} (h : ev ∈ (Out.andThen a k).1) :
    ev ∈ a.1 ∨ ev ∈ (k ()).1 := by
  unfold Out.andThen at h
  split at h
  · exact Or.inl h
  · simp at h; exact h

theorem catchAll_true (a : Out) : (catchAll true a).2 = none := by simp [catchAll]

theorem catchAll_events (p : Bool) (a : Out) : (catchAll p a).1 = a.1 := by
  unfold catchAll; split <;> rfl


/-! ### registry invariants under re-entrant calls -/

/-- `l` would be delivered to on an open endpoint: it is a global listener, or listed under the datagram's prefix `p` -/
def Reg.Inv (r : Registry) (p : Bytes) (l : Nat) : Prop :=
  r.listeners.contains l = true ∨ ∃ ls, lookupPrefix r.prefixMap p = some ls ∧ l ∈ ls

theorem deliverCond_of_inv {r : Registry} {l : Nat} {data : Bytes} (hopen : r.isOpen = true)
    (h : Reg.Inv r (data.take Gen.prefixLen) l) : deliverCond r l data = true := by
  unfold deliverCond
  rw [hopen]
  rcases h with h | ⟨ls, h, _⟩
  · rw [h]; simp
  · rw [h]; simp

theorem inv_of_recipient {r : Registry} {data : Bytes} {l : Nat} (hl : l ∈ recipients r data) :
    Reg.Inv r (data.take Gen.prefixLen) l := by
  unfold recipients at hl
  cases hp : lookupPrefix r.prefixMap (data.take Gen.prefixLen) with
  | some ls => rw [hp] at hl; exact Or.inr ⟨ls, hp, by simpa using hl⟩
  | none => rw [hp] at hl; exact Or.inl (by simpa using hl)

theorem lookupPrefix_map_append (pm : List (Bytes × List Nat)) (p : Bytes) (x : Nat) :
    lookupPrefix (pm.map fun (q, ls) => (q, ls ++ [x])) p = (lookupPrefix pm p).map (· ++ [x]) := by
  induction pm with
  | nil => rfl
  | cons e rest ih =>
    obtain ⟨q, ls⟩ := e
    simp only [List.map, lookupPrefix]
    split
    · rfl
    · exact ih

theorem lookupPrefix_setPrefix (pm : List (Bytes × List Nat)) (p q : Bytes) (new : List Nat) :
    lookupPrefix (setPrefix pm q new) p = if q == p then some new else lookupPrefix pm p := by
  induction pm with
  | nil => simp [setPrefix, lookupPrefix]
  | cons e rest ih =>
    obtain ⟨k, old⟩ := e
    simp only [setPrefix]
    by_cases hkq : (k == q) = true
    · rw [if_pos hkq]
      have : k = q := by simpa using hkq
      subst this
      simp only [lookupPrefix]
      by_cases hkp : (k == p) = true
      · simp [hkp]
      · simp [hkp]
    · rw [if_neg hkq]
      simp only [lookupPrefix]
      by_cases hkp : (k == p) = true
      · have hk : k = p := by simpa using hkp
        subst hk
        have hq : ¬ ((q == k) = true) := by
          intro h; apply hkq; have : q = k := by simpa using h
          subst this; simp
        simp [hq]
      · rw [if_neg hkp, ih]
        by_cases hqp : (q == p) = true
        · simp [hqp]
        · simp [hqp, hkp]

theorem sameSet_mem {a b : List Nat} (h : sameSet a b = true) {x : Nat} (hx : x ∈ a) : x ∈ b := by
  unfold sameSet at h
  simp only [Bool.and_eq_true, List.all_eq_true] at h
  have := h.1 x hx
  simpa using this

theorem inv_rm_prefix (pm : List (Bytes × List Nat)) (newls : List Nat) (p : Bytes) (l x : Nat) (hne : l ≠ x)
    (ls : List Nat) (h : lookupPrefix pm p = some ls) (hl : l ∈ ls) :
    l ∈ newls ∨ ∃ ls', lookupPrefix (pm.filterMap fun (q, xs) =>
        let xs' := xs.filter (· != x)
        if sameSet xs' newls then none else some (q, xs')) p = some ls' ∧ l ∈ ls' := by
  induction pm with
  | nil => cases h
  | cons e rest ih =>
    obtain ⟨q, xs⟩ := e
    simp only [lookupPrefix] at h
    by_cases hq : (q == p) = true
    · rw [if_pos hq] at h
      cases h
      have hmem : l ∈ ls.filter (· != x) := by simp [hl, hne]
      simp only [List.filterMap_cons]
      by_cases hs : sameSet (ls.filter (· != x)) newls = true
      · left; exact sameSet_mem hs hmem
      · right
        simp only [hs]
        exact ⟨_, by simp [lookupPrefix, hq], hmem⟩
    · rw [if_neg hq] at h
      rcases ih h with h' | ⟨ls', h', hl'⟩
      · exact Or.inl h'
      · right
        simp only [List.filterMap_cons]
        split
        · exact ⟨ls', h', hl'⟩
        · rename_i heq
          split at heq
          · cases heq
          · cases heq
            exact ⟨ls', by simp only [lookupPrefix, if_neg hq]; exact h', hl'⟩

/-- this is where the shape of Endpoint.remove_listener read from the source is used: it REBUILDS the lists, so a removal
    during a dispatch leaves the list object the loop iterates untouched (with in-place removal the model skips
    listeners and `receive_all_recipients_called` is false) -/
theorem applyOp_rm (key : Option Bytes) (s : DS) (x : Nat) :
    applyOp key s (.rm x) = { s with reg := s.reg.removeListener x, attached := false } := by
  simp [applyOp, Gen.rmRebuilds]

theorem applyOp_inv (key : Option Bytes) (p : Bytes) (l : Nat) (s : DS) (op : RegOp)
    (hop : op ≠ .rm l ∧ op ≠ .setOpen false) (hopen : s.reg.isOpen = true) (hinv : Reg.Inv s.reg p l) :
    (applyOp key s op).reg.table = s.reg.table ∧ (applyOp key s op).reg.isOpen = true ∧ Reg.Inv (applyOp key s op).reg p l
      ∧ ∃ extra, (applyOp key s op).pending = s.pending ++ extra := by
  cases op with
  | add x =>
    refine ⟨rfl, hopen, ?_, ?_⟩
    · simp only [applyOp, Registry.addListener]
      rcases hinv with h | ⟨ls, h, hl⟩
      · left; simp at h ⊢; exact Or.inl h
      · right
        exact ⟨ls ++ [x], by rw [lookupPrefix_map_append, h]; rfl, List.mem_append_left _ hl⟩
    · simp only [applyOp]; split
      · exact ⟨[x], rfl⟩
      · exact ⟨[], by simp⟩
  | addp x q =>
    simp only [applyOp]
    cases hq : s.reg.addPrefixListener x q with
    | none => exact ⟨rfl, hopen, hinv, [], by simp⟩
    | some r' =>
      unfold Registry.addPrefixListener at hq
      split at hq
      · cases hq
      · cases hq
        refine ⟨rfl, hopen, ?_, [], by simp⟩
        rcases hinv with h | ⟨ls, h, hl⟩
        · exact Or.inl h
        · right
          simp only [lookupPrefix_setPrefix]
          by_cases hqp : (q == p) = true
          · have : q = p := by simpa using hqp
            subst this
            rw [if_pos hqp, h]
            exact ⟨_, rfl, by simp [hl]⟩
          · rw [if_neg hqp]; exact ⟨ls, h, hl⟩
  | rm x =>
    have hne : l ≠ x := by intro h; apply hop.1; rw [h]
    rw [applyOp_rm]
    refine ⟨rfl, hopen, ?_, [], by simp⟩
    simp only [Registry.removeListener]
    rcases hinv with h | ⟨ls, h, hl⟩
    · left; simp at h ⊢; exact ⟨h, hne⟩
    · rcases inv_rm_prefix s.reg.prefixMap (s.reg.listeners.filter (· != x)) p l x hne ls h hl with h' | h'
      · left; simpa using h'
      · right; exact h'
  | setOpen b =>
    cases b with
    | false => exact absurd rfl hop.2
    | true => exact ⟨rfl, rfl, hinv, [], by simp [applyOp]⟩

theorem foldl_applyOp_inv (key : Option Bytes) (p : Bytes) (l : Nat) (ops : List RegOp)
    (hops : ∀ op ∈ ops, op ≠ .rm l ∧ op ≠ .setOpen false) (s : DS) (hopen : s.reg.isOpen = true)
    (hinv : Reg.Inv s.reg p l) :
    (ops.foldl (applyOp key) s).reg.table = s.reg.table ∧ (ops.foldl (applyOp key) s).reg.isOpen = true
      ∧ Reg.Inv (ops.foldl (applyOp key) s).reg p l ∧ ∃ extra, (ops.foldl (applyOp key) s).pending = s.pending ++ extra := by
  induction ops generalizing s with
  | nil => exact ⟨rfl, hopen, hinv, [], by simp⟩
  | cons op rest ih =>
    obtain ⟨ht, ho, hi, e1, hp1⟩ := applyOp_inv key p l s op (hops op (List.mem_cons_self ..)) hopen hinv
    obtain ⟨ht2, ho2, hi2, e2, hp2⟩ := ih (fun o h => hops o (List.mem_cons_of_mem _ h)) (applyOp key s op) ho hi
    simp only [List.foldl_cons]
    exact ⟨by rw [ht2, ht], ho2, hi2, e1 ++ e2, by rw [hp2, hp1, List.append_assoc]⟩

theorem applyOp_table (key : Option Bytes) (s : DS) (op : RegOp) : (applyOp key s op).reg.table = s.reg.table := by
  cases op with
  | add x => rfl
  | addp x q =>
    simp only [applyOp]
    cases hq : s.reg.addPrefixListener x q with
    | none => rfl
    | some r' =>
      unfold Registry.addPrefixListener at hq
      split at hq
      · cases hq
      · cases hq; rfl
  | rm x => rfl
  | setOpen b => rfl

theorem foldl_applyOp_table (key : Option Bytes) (ops : List RegOp) (s : DS) :
    (ops.foldl (applyOp key) s).reg.table = s.reg.table := by
  induction ops generalizing s with
  | nil => rfl
  | cons op rest ih => simp only [List.foldl_cons]; rw [ih, applyOp_table]

theorem stepState_table (env : Env) (src data : Bytes) (key : Option Bytes) (s : DS) (l : Nat) (rest : List Nat)
    (out : Out) : (stepState env src data key s l rest out).reg.table = s.reg.table := by
  unfold stepState
  rw [foldl_applyOp_table]

end Ipv8.C03
