/-
  C03 — property theorems.  Every `theorem` here is an obligation of the check; helpers are in Lemmas.lean.
  All statements are about the executable model (Model.lean, Recv.lean); what ties the model to the code is the
  translator (generated constants / try-except shapes in GenTables.lean) and the differential run (harness/c03.py).

  Decoding (mirrors serialization.py after the bounds-check repair):
    decode_end_le_max / decode_list_end_le_max    any format (any nesting), any buffer, ANY start offset: success ⇒ end ≤ max off len
    decode_in_bounds / decode_list_in_bounds      corollary for a start offset inside the buffer: end inside the buffer
    decode_declared_lengths / …_list              every length-prefixed part has exactly its declared length and is really there
    decode_prefix_stable / …_list                 formats without `raw`: what decodes from a prefix of the buffer decodes identically from the buffer
    truncated_is_rejected                         formats without `raw`: a buffer cut before the end of a successful decode is rejected
    truncated_end_within_prefix                   all formats (weaker): decoding only k bytes can only report an end ≤ k
    unpack_list_consume_all, consume_all_ends_at_buffer_end
  Receive path (guard constants / try-except shapes regenerated from the source):
    sender_lookup_total, community/crypto/stats/listener_on_packet_total, dispatch_total, receive_total,
    datagram_received_total                       nothing propagates to the transport (assumptions: see receive_total)
    receive_all_recipients_called                 every listener the loop starts with is invoked unless removed / endpoint closed mid-dispatch
    prefix_gate                                   handlers (public, circuit-only) only for datagrams starting with the overlay's prefix
    exit_datagram_received_total (tracker_clauses_guarded, tracker_total, could_be_utp_total)   the exit sockets' callback
    cell_header_complete                          an accepted cell contains its whole header
    load_snapshot_progress / load_snapshot_total / load_snapshot_never_raises
-/
import Ipv8.C03.Lemmas

namespace Ipv8.C03
open Ipv8

/-! ## decoding -/

mutual
/-- General form, no assumption on the start offset: a successful decode reports an end position inside the buffer, or —
    only possible when the caller's start offset already lies beyond the buffer and nothing had to be read (empty format
    list) — the unchanged start offset.  For every format (any nesting), every buffer, every (natural) offset. -/
theorem decode_end_le_max (f : Fmt) (d : Bytes) (off : Nat) (v : Val) (e : Nat)
    (h : unpackAt f d off = .ok (v, e)) : e ≤ max off d.length := by
  cases f with
  | struct fs =>
    simp only [unpackAt, Gen.varlenChecked, Gen.nestedChecked, Gen.arrayChecked, ↓reduceIte] at h
    obtain ⟨b, hb, h⟩ := bind_ok h
    have := (readAt_ok hb).1
    split at h <;> (cases h; omega)
  | bits =>
    simp only [unpackAt, Gen.varlenChecked, Gen.nestedChecked, Gen.arrayChecked, ↓reduceIte] at h
    obtain ⟨n, hn, h⟩ := bind_ok h
    cases h
    have := (readUint_ok hn).1; omega
  | raw => simp only [unpackAt] at h; cases h; omega
  | varlen lw base =>
    simp only [unpackAt, Gen.varlenChecked, Gen.nestedChecked, Gen.arrayChecked, ↓reduceIte] at h
    obtain ⟨n, hn, h⟩ := bind_ok h
    try dsimp only at h
    split at h
    · cases h; omega
    · cases h
  | utf8 lw base =>
    simp only [unpackAt, Gen.varlenChecked, Gen.nestedChecked, Gen.arrayChecked, ↓reduceIte] at h
    obtain ⟨n, hn, h⟩ := bind_ok h
    try dsimp only at h
    split at h
    · split at h
      · cases h; omega
      · cases h
    · cases h
  | ipv4 =>
    simp only [unpackAt, Gen.varlenChecked, Gen.nestedChecked, Gen.arrayChecked, ↓reduceIte] at h
    obtain ⟨b, hb, h⟩ := bind_ok h
    cases h
    have := (readAt_ok hb).1; omega
  | address ipOnly =>
    simp only [unpackAt, Gen.varlenChecked, Gen.nestedChecked, Gen.arrayChecked, ↓reduceIte] at h
    have := (unpackAddressAt_bound h).1; omega
  | listOf lw f =>
    simp only [unpackAt, Gen.varlenChecked, Gen.nestedChecked, Gen.arrayChecked, ↓reduceIte] at h
    obtain ⟨n, hn, h⟩ := bind_ok h
    obtain ⟨⟨vs, o⟩, hm, h⟩ := bind_ok h
    cases h
    have a := manyAt_bound (unpackAt f) (fun d off v e hu => decode_end_le_max f d off v e hu) n d (off + lw) vs _ hm
    have b := (readUint_ok hn).1
    omega
  | array lw lenBE k itemBE =>
    simp only [unpackAt, Gen.varlenChecked, Gen.nestedChecked, Gen.arrayChecked, ↓reduceIte] at h
    obtain ⟨n, hn, h⟩ := bind_ok h
    try dsimp only at h
    split at h
    · cases h; omega
    · cases h
  | nested fs =>
    simp only [unpackAt, Gen.varlenChecked, Gen.nestedChecked, Gen.arrayChecked, ↓reduceIte] at h
    obtain ⟨n, hn, h⟩ := bind_ok h
    split at h
    · obtain ⟨⟨vs, o⟩, _, h⟩ := bind_ok h
      cases h; omega
    · cases h
  | tuple fs =>
    simp only [unpackAt, Gen.varlenChecked, Gen.nestedChecked, Gen.arrayChecked, ↓reduceIte] at h
    obtain ⟨⟨vs, o⟩, hl, h⟩ := bind_ok h
    cases h
    exact decode_list_end_le_max fs d off vs _ hl
  | flags w absolute =>
    simp only [unpackAt, Gen.varlenChecked, Gen.nestedChecked, Gen.arrayChecked, ↓reduceIte] at h
    obtain ⟨n, hn, h⟩ := bind_ok h
    cases h
    have := (readUint_ok hn).1
    split <;> omega
theorem decode_list_end_le_max (fs : FmtList) (d : Bytes) (off : Nat) (vs : List Val) (e : Nat)
    (h : unpackListAt fs d off = .ok (vs, e)) : e ≤ max off d.length := by
  cases fs with
  | nil => simp only [unpackListAt] at h; cases h; omega
  | cons f fs =>
    simp only [unpackListAt] at h
    obtain ⟨⟨v, o1⟩, h1, h⟩ := bind_ok h
    obtain ⟨⟨vs', o2⟩, h2, h⟩ := bind_ok h
    cases h
    have a := decode_end_le_max f d off v o1 h1
    have b := decode_list_end_le_max fs d o1 vs' _ h2
    omega
end

/-- a successful decode that starts inside the buffer ends inside the buffer (the clause of the property; the start
    offsets the code uses are the literals 0 and 23 on buffers it has already indexed there, cf. `decode_end_le_max` for
    arbitrary offsets).  Offsets are naturals: Python's negative offsets (read from the end) are not modelled. -/
theorem decode_in_bounds (f : Fmt) (d : Bytes) (off : Nat) (v : Val) (e : Nat) (hoff : off ≤ d.length)
    (h : unpackAt f d off = .ok (v, e)) : e ≤ d.length := by
  have := decode_end_le_max f d off v e h; omega

/-- the same for a whole format list (one Serializable): `Serializer.unpack_serializable` -/
theorem decode_list_in_bounds (fs : FmtList) (d : Bytes) (off : Nat) (vs : List Val) (e : Nat) (hoff : off ≤ d.length)
    (h : unpackListAt fs d off = .ok (vs, e)) : e ≤ d.length := by
  have := decode_list_end_le_max fs d off vs e h; omega

mutual
/-- every varlen / utf8 / listOf / array / nested / host-name part of a successfully decoded
    value has exactly the length its prefix declares, at every nesting depth (`Declared`, Lemmas.lean). -/
theorem decode_declared_lengths (f : Fmt) (d : Bytes) (off : Nat) (v : Val) (e : Nat)
    (h : unpackAt f d off = .ok (v, e)) : Declared f d off v e := by
  cases f with
  | struct fs => simp [Declared]
  | bits => simp [Declared]
  | raw => simp [Declared]
  | ipv4 => simp [Declared]
  | flags w a => simp [Declared]
  | varlen lw base =>
    simp only [unpackAt, Gen.varlenChecked, Gen.nestedChecked, Gen.arrayChecked, ↓reduceIte] at h
    obtain ⟨n, hn, h⟩ := bind_ok h
    try dsimp only at h
    split at h
    · rename_i hle
      cases h
      have hr := readUint_ok hn
      simp only [Declared]
      refine ⟨_, rfl, ?_, ?_, ?_⟩
      · rw [slice_length _ _ _ hle, hr.2]; omega
      · rw [slice_length _ _ _ hle]; omega
      · rfl
    · cases h
  | utf8 lw base =>
    simp only [unpackAt, Gen.varlenChecked, Gen.nestedChecked, Gen.arrayChecked, ↓reduceIte] at h
    obtain ⟨n, hn, h⟩ := bind_ok h
    try dsimp only at h
    split at h
    · rename_i hle
      split at h
      · cases h
        have hr := readUint_ok hn
        simp only [Declared]
        refine ⟨_, rfl, ?_, ?_, ?_⟩
        · rw [slice_length _ _ _ hle, hr.2]; omega
        · rw [slice_length _ _ _ hle]; omega
        · rfl
      · cases h
    · cases h
  | address ipOnly =>
    simp only [unpackAt, Gen.varlenChecked, Gen.nestedChecked, Gen.arrayChecked, ↓reduceIte] at h
    simp only [Declared]
    exact unpackAddressAt_declared h
  | listOf lw f =>
    simp only [unpackAt, Gen.varlenChecked, Gen.nestedChecked, Gen.arrayChecked, ↓reduceIte] at h
    obtain ⟨n, hn, h⟩ := bind_ok h
    obtain ⟨⟨vs, o⟩, hm, h⟩ := bind_ok h
    cases h
    have := manyAt_declared (unpackAt f) (Declared f) (fun d off v e hu => decode_declared_lengths f d off v e hu)
      n d (off + lw) vs _ hm
    simp only [Declared]
    exact ⟨vs, rfl, by rw [this.1, (readUint_ok hn).2], this.2⟩
  | array lw lenBE k itemBE =>
    simp only [unpackAt, Gen.varlenChecked, Gen.nestedChecked, Gen.arrayChecked, ↓reduceIte] at h
    obtain ⟨n, hn, h⟩ := bind_ok h
    try dsimp only at h
    split at h
    · rename_i hle
      cases h
      simp only [Declared]
      refine ⟨_, rfl, by rw [decodeElems_length]; exact hn, by rw [decodeElems_length], ?_, by rw [decodeElems_length]⟩
      rw [decodeElems_length, slice_length _ _ _ hle]; omega
    · cases h
  | nested fs =>
    simp only [unpackAt, Gen.varlenChecked, Gen.nestedChecked, Gen.arrayChecked, ↓reduceIte] at h
    obtain ⟨n, hn, h⟩ := bind_ok h
    split at h
    · rename_i hle
      obtain ⟨⟨vs, o⟩, hl, h⟩ := bind_ok h
      cases h
      have hr := readUint_ok hn
      simp only [Declared]
      refine ⟨vs, o, rfl, by rw [hr.2], ?_, ?_⟩
      · exact decode_list_declared_lengths fs _ 0 vs o hl
      · exact decode_list_in_bounds fs _ 0 vs o (Nat.zero_le _) hl
    · cases h
  | tuple fs =>
    simp only [unpackAt, Gen.varlenChecked, Gen.nestedChecked, Gen.arrayChecked, ↓reduceIte] at h
    obtain ⟨⟨vs, o⟩, hl, h⟩ := bind_ok h
    cases h
    simp only [Declared]
    exact ⟨vs, rfl, decode_list_declared_lengths fs d off vs _ hl⟩
theorem decode_list_declared_lengths (fs : FmtList) (d : Bytes) (off : Nat) (vs : List Val) (e : Nat)
    (h : unpackListAt fs d off = .ok (vs, e)) : DeclaredList fs d off vs e := by
  cases fs with
  | nil => simp only [unpackListAt] at h; cases h; simp [DeclaredList]
  | cons f fs =>
    simp only [unpackListAt] at h
    obtain ⟨⟨v, o1⟩, h1, h⟩ := bind_ok h
    obtain ⟨⟨vs', o2⟩, h2, h⟩ := bind_ok h
    cases h
    simp only [DeclaredList]
    exact ⟨v, vs', o1, rfl, decode_declared_lengths f d off v o1 h1, decode_list_declared_lengths fs d o1 vs' _ h2⟩
end

mutual
/-- prefix stability: for a format without `raw`, whatever decodes from the first `k` bytes of a buffer decodes to the
    same value and the same end from the whole buffer (a decode never depends on bytes it has not bounds-checked) -/
theorem decode_prefix_stable (f : Fmt) (d : Bytes) (k off : Nat) (v : Val) (e : Nat) (hrf : rawFree f = true)
    (h : unpackAt f (d.take k) off = .ok (v, e)) : unpackAt f d off = .ok (v, e) := by
  cases f with
  | raw => simp [rawFree] at hrf
  | struct fs =>
    simp only [unpackAt, Gen.varlenChecked, Gen.nestedChecked, Gen.arrayChecked, ↓reduceIte] at h ⊢
    obtain ⟨b, hb, h⟩ := bind_ok h
    rw [(readAt_take hb).1]; exact h
  | bits =>
    simp only [unpackAt, Gen.varlenChecked, Gen.nestedChecked, Gen.arrayChecked, ↓reduceIte] at h ⊢
    obtain ⟨n, hn, h⟩ := bind_ok h
    rw [(readUint_take hn).1]; exact h
  | varlen lw base =>
    simp only [unpackAt, Gen.varlenChecked, Gen.nestedChecked, Gen.arrayChecked, ↓reduceIte] at h ⊢
    obtain ⟨n, hn, h⟩ := bind_ok h
    rw [(readUint_take hn).1]
    simp only [bind, Except.bind]
    split at h
    · rename_i hle
      have hk := (length_take_le d k)
      rw [if_pos (by omega), ← slice_take d k _ _ (by omega)]
      exact h
    · cases h
  | utf8 lw base =>
    simp only [unpackAt, Gen.varlenChecked, Gen.nestedChecked, Gen.arrayChecked, ↓reduceIte] at h ⊢
    obtain ⟨n, hn, h⟩ := bind_ok h
    rw [(readUint_take hn).1]
    simp only [bind, Except.bind]
    split at h
    · rename_i hle
      have hk := (length_take_le d k)
      rw [if_pos (by omega), ← slice_take d k _ _ (by omega)]
      exact h
    · cases h
  | ipv4 =>
    simp only [unpackAt, Gen.varlenChecked, Gen.nestedChecked, Gen.arrayChecked, ↓reduceIte] at h ⊢
    obtain ⟨b, hb, h⟩ := bind_ok h
    rw [(readAt_take hb).1]; exact h
  | address ipOnly =>
    simp only [unpackAt, Gen.varlenChecked, Gen.nestedChecked, Gen.arrayChecked, ↓reduceIte] at h ⊢
    exact unpackAddressAt_take h
  | listOf lw f =>
    simp only [rawFree] at hrf
    simp only [unpackAt, Gen.varlenChecked, Gen.nestedChecked, Gen.arrayChecked, ↓reduceIte] at h ⊢
    obtain ⟨n, hn, h⟩ := bind_ok h
    obtain ⟨⟨vs, o⟩, hm, h⟩ := bind_ok h
    rw [(readUint_take hn).1]
    simp only [bind, Except.bind]
    rw [manyAt_take (unpackAt f) k (fun d off v e hu => decode_prefix_stable f d k off v e hrf hu) n d _ vs o hm]
    exact h
  | array lw lenBE kd itemBE =>
    simp only [unpackAt, Gen.varlenChecked, Gen.nestedChecked, Gen.arrayChecked, ↓reduceIte] at h ⊢
    obtain ⟨n, hn, h⟩ := bind_ok h
    rw [(readLen_take hn).1]
    simp only [bind, Except.bind]
    split at h
    · rename_i hle
      have hk := (length_take_le d k)
      rw [if_pos (by omega), ← slice_take d k _ _ (by omega)]
      exact h
    · cases h
  | nested fs =>
    simp only [unpackAt, Gen.varlenChecked, Gen.nestedChecked, Gen.arrayChecked, ↓reduceIte] at h ⊢
    obtain ⟨n, hn, h⟩ := bind_ok h
    rw [(readUint_take hn).1]
    simp only [bind, Except.bind]
    split at h
    · rename_i hle
      have hk := (length_take_le d k)
      rw [if_pos (by omega), ← slice_take d k _ _ (by omega)]
      exact h
    · cases h
  | tuple fs =>
    simp only [rawFree] at hrf
    simp only [unpackAt, Gen.varlenChecked, Gen.nestedChecked, Gen.arrayChecked, ↓reduceIte] at h ⊢
    obtain ⟨⟨vs, o⟩, hl, h⟩ := bind_ok h
    rw [decode_list_prefix_stable fs d k off vs o hrf hl]
    exact h
  | flags w absolute =>
    simp only [unpackAt, Gen.varlenChecked, Gen.nestedChecked, Gen.arrayChecked, ↓reduceIte] at h ⊢
    obtain ⟨n, hn, h⟩ := bind_ok h
    rw [(readUint_take hn).1]; exact h
theorem decode_list_prefix_stable (fs : FmtList) (d : Bytes) (k off : Nat) (vs : List Val) (e : Nat)
    (hrf : rawFreeList fs = true) (h : unpackListAt fs (d.take k) off = .ok (vs, e)) :
    unpackListAt fs d off = .ok (vs, e) := by
  cases fs with
  | nil => simpa [unpackListAt] using h
  | cons f fs =>
    simp only [rawFreeList, Bool.and_eq_true] at hrf
    simp only [unpackListAt] at h ⊢
    obtain ⟨⟨v, o1⟩, h1, h⟩ := bind_ok h
    obtain ⟨⟨vs', o2⟩, h2, h⟩ := bind_ok h
    rw [decode_prefix_stable f d k off v o1 hrf.1 h1]
    simp only [bind, Except.bind]
    rw [decode_list_prefix_stable fs d k o1 vs' o2 hrf.2 h2]
    exact h
end

/-- "a truncated message is never silently accepted", natural reading: if a buffer decodes (format without `raw`) with
    end `e`, then no cut of the buffer before `e` decodes at all — it is rejected with an error.
    (With a trailing `raw` = "the rest of the buffer" a cut is by design undetectable; there `consume_all` and the
    signature are what protect a message.) -/
theorem truncated_is_rejected (fs : FmtList) (d : Bytes) (k off : Nat) (vs : List Val) (e : Nat)
    (hrf : rawFreeList fs = true) (h : unpackListAt fs d off = .ok (vs, e)) (hoff : off ≤ k) (hk : k < e) :
    ∃ err, unpackListAt fs (d.take k) off = .error err := by
  cases ht : unpackListAt fs (d.take k) off with
  | error err => exact ⟨err, rfl⟩
  | ok r =>
    obtain ⟨vs', e'⟩ := r
    have hs := decode_list_prefix_stable fs d k off vs' e' hrf ht
    rw [h] at hs
    cases hs
    have hb := decode_list_end_le_max fs (d.take k) off vs e ht
    have := (length_take_le d k).1
    omega

/-- weaker, but for every format (also with `raw`): if the first `k` bytes alone decode successfully, the reported end
    lies within those `k` bytes (so a buffer cut before the end of a field can only be rejected) -/
theorem truncated_end_within_prefix (fs : FmtList) (d : Bytes) (k off : Nat) (vs : List Val) (e : Nat)
    (hoff : off ≤ (d.take k).length) (h : unpackListAt fs (d.take k) off = .ok (vs, e)) : e ≤ k := by
  have := decode_list_in_bounds fs (d.take k) off vs e hoff h
  have := (length_take_le d k).1
  omega

/-- `unpack_serializable_list(..., consume_all=True)`: success means every byte from the start offset on was consumed
    (the returned remainder is empty) and the last end offset is the buffer length or beyond the start. -/
theorem unpack_list_consume_all (fss : List FmtList) (d : Bytes) (off : Nat) (vss : List (List Val)) (rem : Bytes)
    (h : unpackPayloadsAt fss d off true = .ok (vss, rem)) : rem = [] := by
  induction fss generalizing off vss with
  | nil =>
    simp only [unpackPayloadsAt] at h
    split at h
    · cases h; rfl
    · cases h
  | cons fs rest ih =>
    simp only [unpackPayloadsAt] at h
    obtain ⟨⟨vs, o⟩, _, h⟩ := bind_ok h
    obtain ⟨⟨more, rem'⟩, h2, h⟩ := bind_ok h
    cases h
    exact ih o more h2

/-- … and, spelled out for one payload: with consume_all the reported end IS the end of the buffer -/
theorem consume_all_ends_at_buffer_end (fs : FmtList) (d : Bytes) (off : Nat) (vs : List Val) (rem : Bytes)
    (hoff : off ≤ d.length) (h : unpackPayloadsAt [fs] d off true = .ok ([vs], rem)) :
    ∃ e, unpackListAt fs d off = .ok (vs, e) ∧ e = d.length := by
  simp only [unpackPayloadsAt] at h
  obtain ⟨⟨vs', o⟩, h1, h⟩ := bind_ok h
  obtain ⟨⟨more, rem'⟩, h2, h⟩ := bind_ok h
  split at h2
  · rename_i hemp
    cases h2; cases h
    have hb := decode_list_in_bounds fs d off vs' o hoff h1
    refine ⟨o, h1, ?_⟩
    have : d.length ≤ o := by simpa using hemp
    omega
  · cases h2

/-! non-vacuity: concrete decodes that succeed, fail on truncation and fail on an inflated length -/
example : endOf (unpackListAt (fl [.varlen 2 1, .struct [.uint 1]]) [0, 3, 97, 98, 99, 7] 0) = some 6 := by decide
example : errOf (unpackListAt (fl [.varlen 2 1]) [0, 10, 97, 98, 99] 0) = some .pack := by decide
example : errOf (unpackAt (.nested (fl [.struct [.uint 1]])) [0, 5, 1] 0) = some .pack := by decide
example : errOf (unpackPayloadsAt [fl [.struct [.uint 1]]] [1, 2] 0 true) = some .extra := by decide
example : endOf (unpackAt (.listOf 1 (.nested (fl [.varlen 1 2]))) [1, 0, 3, 1, 9, 9] 0) = some 6 := by decide
example : endOf (unpackAt (.array 2 true .q true) [0, 1, 0, 0, 0, 0, 0, 0, 0, 5] 0) = some 10 := by decide
example : errOf (unpackAt (.array 2 true .q true) [0, 2, 0, 0, 0, 0, 0, 0, 0, 5] 0) = some .pack := by decide

/-! ## receive path -/

/-- NEW (sender history): `Network.get_verified_by_address` returns normally for every Network state — whatever peers
    were verified, removed, re-addressed, whatever is (still) in the reverse address cache — and every address. -/
theorem sender_lookup_total (s : NetS) (a : Bytes) : ∃ p, (s.lookup a).1 = .ok p := by
  unfold NetS.lookup
  dsimp only
  split
  · rename_i e hv
    split at hv
    · cases hv
    · split at hv
      · cases hv
      · simp [Gen.lookupDictSafe] at hv
  · exact ⟨_, rfl⟩
  · split
    · exact ⟨_, rfl⟩
    · exact ⟨_, rfl⟩

/-- Community.on_packet returns normally for every datagram, whatever the handler bodies do (given that the sender
    lookup returned normally, which `sender_lookup_total` shows for every Network state) -/
theorem community_on_packet_total (env : Env) (lk : Except Exn (Option Nat)) (hlk : ∃ p, lk = .ok p) (lid : Nat)
    (o : Overlay) (data : Bytes) : (communityOnPacket env lk lid o data).2 = none := by
  obtain ⟨p, rfl⟩ := hlk
  unfold communityOnPacket
  apply andThen_none rfl
  apply andThen_none rfl
  split
  · rfl
  · rename_i hg
    split
    · rename_i hnone
      simp [Gen.pubMinLen, Gen.pubIdx] at hg hnone
      have h2 : ¬ (data.length < 23) := of_decide_eq_false hg.2
      omega
    · split
      · simp [Gen.pubCatchAll, catchAll]
      · rfl

/-- PythonCryptoEndpoint.on_packet returns normally for every datagram, every circuit table, every decryption outcome
    (including exceptions out of the crypto layer) and whatever relaying or handlers do -/
theorem crypto_on_packet_total (env : Env) (dec : Nat → Bytes → Dec) (lk : Except Exn (Option Nat))
    (hlk : ∃ p, lk = .ok p) (lid : Nat) (c : Crypto) (data : Bytes) :
    (cryptoOnPacket env dec lk lid c data).2 = none := by
  have tb : ∀ x, (tunnelBranch env lk c x).2 = none := by
    intro x
    unfold tunnelBranch
    split
    · rfl
    · exact community_on_packet_total _ _ hlk ..
  unfold cryptoOnPacket
  apply andThen_none rfl
  split
  · split
    · rename_i e he
      unfold cryptoIsCell at he
      split at he
      · cases he
      · simp [Gen.cryptoIdxSafe] at he
    · simp [Gen.cryptoCatchAll, catchAll]
    · exact tb data
  · exact tb data

/-- StatisticsEndpoint.on_packet returns normally for every datagram and every set of tracked prefixes -/
theorem stats_on_packet_total (lid : Nat) (tracked : List Bytes) (data : Bytes) :
    (statsOnPacket lid tracked data).2 = none := by
  unfold statsOnPacket
  apply andThen_none rfl
  split
  · rfl
  · rename_i hg
    split
    · rename_i hnone
      simp [Gen.statMinLen, Gen.statIdx] at hg hnone
      have h2 : ¬ (data.length < 23) := of_decide_eq_false hg.2
      omega
    · rfl

theorem listener_on_packet_total (env : Env) (dec : Nat → Bytes → Dec) (lk : Except Exn (Option Nat))
    (hlk : ∃ p, lk = .ok p) (t : List (Nat × Listener)) (l : Nat) (data : Bytes) :
    (listenerOnPacket env dec lk t l data).2 = none := by
  unfold listenerOnPacket
  split
  · exact community_on_packet_total _ _ hlk ..
  · exact crypto_on_packet_total _ _ _ hlk ..
  · exact stats_on_packet_total ..
  · rfl
  · rfl

theorem step_out_total (env : Env) (dec : Nat → Bytes → Dec) (src data : Bytes) (s : DS) (l : Nat) :
    (stepOut env dec src data s l).2 = none := by
  unfold stepOut
  split
  · exact listener_on_packet_total _ _ _ (sender_lookup_total ..) ..
  · rfl

theorem dispatch_total (env : Env) (dec : Nat → Bytes → Dec) (src data : Bytes) (key : Option Bytes) (fuel : Nat)
    (s : DS) : (dispatch env dec src data key fuel s).1.2 = none := by
  induction fuel generalizing s with
  | zero => rfl
  | succ n ih =>
    unfold dispatch
    split
    · rfl
    · split
      · rename_i e he
        rw [step_out_total] at he; cases he
      · exact ih _

/-- For every registry state (any history of add / add_prefix / remove / open / close), every Network state and sender
    address, every datagram (any length, any content), every behaviour of handler bodies and relaying (`env`: may raise
    anything AND may call add_listener / add_prefix_listener / remove_listener / close on the endpoint while the datagram
    is being dispatched) and every decryption outcome (`dec`), `notify_listeners` returns normally.
    Scope (not hypotheses of the Lean statement, but of the model): listeners are the shipped kinds — Community,
    PythonCryptoEndpoint, StatisticsEndpoint (the translator fails if the package gains another EndpointListener class) —
    or foreign ones that do not raise (`Listener.inert`); handlers raise only `Exception` subclasses; the only failure
    points are those the model names (`Exn`): statements of the unprotected preludes that the model does not mention
    (`decode_map[msg_id]` on a 256-entry list, `last_response = time()`, the logging call) are covered by the
    differential run and the oracle only. -/
theorem receive_total (env : Env) (dec : Nat → Bytes → Dec) (fuel : Nat) (r : Registry) (net : NetS) (src data : Bytes) :
    (notify env dec fuel r net src data).1.2 = none :=
  dispatch_total ..

/-- listeners whose re-entrant behaviour never calls add_listener (which appends to the list being iterated) -/
def NoAdds (env : Env) : Prop := ∀ x d op, op ∈ env.effects x d → ∀ l, op ≠ .add l

theorem foldl_applyOp_pending (key : Option Bytes) (ops : List RegOp) (h : ∀ op ∈ ops, ∀ l, op ≠ .add l) (s : DS) :
    (ops.foldl (applyOp key) s).pending = s.pending := by
  induction ops generalizing s with
  | nil => rfl
  | cons op rest ih =>
    simp only [List.foldl_cons]
    rw [ih (fun o ho => h o (List.mem_cons_of_mem _ ho))]
    cases op with
    | add x => exact absurd rfl (h _ (List.mem_cons_self ..) x)
    | addp x q =>
      simp only [applyOp]
      split <;> rfl
    | rm x => rw [applyOp_rm]
    | setOpen b => rfl

/-- termination of notify_listeners: unless a listener keeps registering listeners during the dispatch (in which case
    the code itself never finishes), the loop is done after `len(listeners)` iterations — with that much fuel the model's
    dispatch ends with nothing left to deliver (so `receive_total` at that fuel is about the COMPLETED loop, not about a
    run cut short by the fuel). -/
theorem dispatch_completes (env : Env) (dec : Nat → Bytes → Dec) (src data : Bytes) (key : Option Bytes)
    (hna : NoAdds env) : ∀ (fuel : Nat) (s : DS), s.pending.length ≤ fuel →
      (dispatch env dec src data key fuel s).2.pending = [] := by
  intro fuel
  induction fuel with
  | zero =>
    intro s h
    unfold dispatch
    exact List.length_eq_zero_iff.mp (Nat.le_zero.mp h)
  | succ n ih =>
    intro s h
    unfold dispatch
    split
    · assumption
    · rename_i l rest hp
      split
      · rename_i e he
        rw [step_out_total] at he; cases he
      · apply ih
        unfold stepState
        rw [foldl_applyOp_pending key _ (by
          intro op hop
          split at hop
          · exact hna l data op hop
          · cases hop)]
        rw [hp] at h
        simp at h ⊢
        omega

theorem listener_called (env : Env) (dec : Nat → Bytes → Dec) (lk : Except Exn (Option Nat)) (t : List (Nat × Listener))
    (l : Nat) (data : Bytes) (h : (lookupListener t l).isSome) :
    Ev.called l ∈ (listenerOnPacket env dec lk t l data).1 := by
  unfold listenerOnPacket
  split
  · unfold communityOnPacket; rw [andThen_events_of_none rfl]; simp
  · unfold cryptoOnPacket; rw [andThen_events_of_none rfl]; simp
  · unfold statsOnPacket; rw [andThen_events_of_none rfl]; simp
  · simp
  · rename_i hn; rw [hn] at h; cases h

/-- a listener's registry calls are "harmless for `l`" if they never remove `l` and never close the endpoint
    (anything else — removing themselves or others, registering listeners or prefixes, open() — is allowed) -/
def Harmless (env : Env) (l : Nat) : Prop :=
  ∀ x d op, op ∈ env.effects x d → op ≠ .rm l ∧ op ≠ .setOpen false

theorem dispatch_called (env : Env) (dec : Nat → Bytes → Dec) (src data : Bytes) (key : Option Bytes) (l : Nat)
    (hgood : Harmless env l) :
    ∀ (fuel : Nat) (s : DS) (pre post : List Nat), s.pending = pre ++ l :: post → pre.length < fuel →
      s.reg.isOpen = true → Reg.Inv s.reg (data.take Gen.prefixLen) l → (lookupListener s.reg.table l).isSome →
      Ev.called l ∈ (dispatch env dec src data key fuel s).1.1 := by
  intro fuel
  induction fuel with
  | zero => intro s pre post _ hlt; omega
  | succ n ih =>
    intro s pre post hp hlt hopen hinv hreg
    unfold dispatch
    cases pre with
    | nil =>
      simp only [List.nil_append] at hp
      rw [hp]
      have hd : deliverCond s.reg l data = true := deliverCond_of_inv hopen hinv
      have hc : Ev.called l ∈ (stepOut env dec src data s l).1 := by
        unfold stepOut; rw [if_pos hd]; exact listener_called _ _ _ _ _ _ hreg
      simp only
      split
      · exact hc
      · exact List.mem_append_left _ hc
    | cons x pre' =>
      simp only [List.cons_append] at hp
      rw [hp]
      simp only
      split
      · rename_i e he
        rw [step_out_total] at he; cases he
      · apply List.mem_append_right
        have hfold := foldl_applyOp_inv key (data.take Gen.prefixLen) l
          (if deliverCond s.reg x data then env.effects x data else [])
          (by intro op hop
              split at hop
              · exact hgood x data op hop
              · cases hop)
          { s with net := if hasSender (stepOut env dec src data s x).1 then (s.net.lookup src).2 else s.net,
                   pending := pre' ++ l :: post, seen := s.seen ++ [x] } hopen hinv
        obtain ⟨htab, hopen', hinv', extra, hpend⟩ := hfold
        apply ih _ pre' (post ++ extra)
        · unfold stepState; rw [hpend]; simp
        · simp at hlt; omega
        · unfold stepState; exact hopen'
        · unfold stepState; exact hinv'
        · unfold stepState; rw [htab]; exact hreg

/-- "other overlays still get the datagram": on an open endpoint every listener that notify_listeners
    starts to iterate over — the listeners registered for the datagram's 22-byte prefix, or all global listeners when no
    such prefix is registered — has its on_packet invoked, no matter what the listeners before it did with the datagram:
    rejected it, raised inside a handler, detached THEMSELVES or OTHER listeners from the endpoint, registered new
    listeners or prefixes while the datagram was being dispatched.  (Only removing `l` itself or closing the endpoint
    mid-dispatch can keep `l` from being called: that is what `_deliver_later` is for.) -/
theorem receive_all_recipients_called (env : Env) (dec : Nat → Bytes → Dec) (r : Registry) (net : NetS)
    (src data : Bytes) (l : Nat) (hl : l ∈ recipients r data) (hopen : r.isOpen = true)
    (hreg : (lookupListener r.table l).isSome) (hgood : Harmless env l) (fuel : Nat)
    (hfuel : (recipients r data).length ≤ fuel) :
    Ev.called l ∈ (notify env dec fuel r net src data).1.1 := by
  obtain ⟨pre, post, hsplit⟩ := List.append_of_mem hl
  unfold notify
  apply dispatch_called env dec src data _ l hgood fuel (initDS r net data) pre post
  · simp [initDS, hsplit]
  · have : (recipients r data).length = pre.length + (post.length + 1) := by rw [hsplit]; simp
    omega
  · exact hopen
  · exact inv_of_recipient hl
  · exact hreg

/-! ### prefix gate -/

/-- the handler events an overlay with prefix `p` can produce -/
def Ev.handlerOf (p : Bytes) : Ev → Prop
  | .called _ => False
  | .sender _ _ => False
  | .pub _ q _ => q = p
  | .priv _ q _ _ _ => q = p

def Ev.isHandler : Ev → Prop
  | .called _ => False
  | .sender _ _ => False
  | _ => True

theorem from_circuit_events (env : Env) (lid : Nat) (o : Overlay) (x : Bytes) (cid : Nat) (ev : Ev)
    (h : ev ∈ (onPacketFromCircuit env lid o x cid).1) : ev.handlerOf o.pfx := by
  unfold onPacketFromCircuit at h
  split at h
  · cases h
  · split at h
    · cases h
    · split at h
      · rw [catchAll_events] at h
        simp [handlerCall] at h
        subst h; simp [Ev.handlerOf]
      · cases h

theorem on_cell_events (env : Env) (lid : Nat) (o : Overlay) (x : Bytes) (ev : Ev)
    (h : ev ∈ (onCell env lid o x).1) : ev.handlerOf o.pfx := by
  unfold onCell at h
  split at h
  · cases h
  · split at h
    · split at h
      · cases h
      · split at h
        · exact from_circuit_events _ _ _ _ _ _ h
        · cases h
    · exact from_circuit_events _ _ _ _ _ _ h

/-- Community.on_packet: a handler event implies that the datagram starts with the overlay's prefix -/
theorem community_events (env : Env) (lk : Except Exn (Option Nat)) (lid : Nat) (o : Overlay) (data : Bytes) (ev : Ev)
    (h : ev ∈ (communityOnPacket env lk lid o data).1) :
    ¬ ev.isHandler ∨ (o.pfx = data.take Gen.pubTake ∧ ev.handlerOf o.pfx) := by
  unfold communityOnPacket at h
  rcases andThen_mem h with h | h
  · left; simp at h; subst h; simp [Ev.isHandler]
  · rcases andThen_mem h with h | h
    · left
      split at h <;> (simp at h; subst h; simp [Ev.isHandler])
    · right
      split at h
      · cases h
      · rename_i hg
        have hp : o.pfx = data.take Gen.pubTake := by
          simp at hg
          exact hg.1
        refine ⟨hp, ?_⟩
        split at h
        · cases h
        · split at h
          · rw [catchAll_events] at h
            split at h
            · rcases andThen_mem h with h | h
              · simp at h; subst h; simp [Ev.handlerOf]
              · exact on_cell_events _ _ _ _ _ h
            · simp [handlerCall] at h; subst h; simp [Ev.handlerOf]
          · cases h

theorem take_of_prefix (p data : Bytes) (n : Nat) (hp : p.isPrefixOf data = true) (hn : n ≤ p.length) :
    data.take n = p.take n := by
  have : p <+: data := List.isPrefixOf_iff_prefix.mp hp
  obtain ⟨t, rfl⟩ := this
  rw [List.take_append_of_le_length hn]

/-- PythonCryptoEndpoint.on_packet: a handler of the tunnel overlay is entered (directly or through a cell, after
    decryption and re-serialisation) only if the ORIGINAL datagram starts with that overlay's prefix -/
theorem crypto_events (env : Env) (dec : Nat → Bytes → Dec) (lk : Except Exn (Option Nat)) (lid : Nat) (c : Crypto)
    (data : Bytes) (ev : Ev)
    (hlen : Gen.pubTake ≤ c.pfx.length) (h : ev ∈ (cryptoOnPacket env dec lk lid c data).1) (hh : ev.isHandler) :
    ∃ tl o, c.tunnel = some (tl, o) ∧ o.pfx = data.take Gen.pubTake ∧ ev.handlerOf o.pfx := by
  have tb : ∀ x, ev ∈ (tunnelBranch env lk c x).1 →
      ∃ tl o, c.tunnel = some (tl, o) ∧ o.pfx = x.take Gen.pubTake ∧ ev.handlerOf o.pfx := by
    intro x hx
    unfold tunnelBranch at hx
    split at hx
    · cases hx
    · rename_i tl o ht
      rcases community_events _ _ _ _ _ _ hx with hn | ⟨hp, hev⟩
      · exact absurd hh hn
      · exact ⟨tl, o, ht, hp, hev⟩
  unfold cryptoOnPacket at h
  rcases andThen_mem h with h | h
  · simp at h; subst h; cases hh
  · split at h
    · rename_i hpre
      split at h
      · cases h
      · rw [catchAll_events] at h
        unfold processCell at h
        split at h
        · cases h
        · rename_i cell _
          split at h
          · cases h
          · dsimp only at h
            split at h
            · cases h
            · split at h
              · cases h
              · split at h
                · cases h
                · cases h
                · split at h
                  · cases h
                  · split at h
                    · cases h
                    · split at h
                      · cases h
                      · obtain ⟨tl, o, ht, hp, hev⟩ := tb _ h
                        refine ⟨tl, o, ht, ?_, hev⟩
                        rw [hp, take_of_prefix c.pfx data _ hpre hlen]
                        unfold cellToBin
                        rw [List.append_assoc, List.take_append_of_le_length hlen]
      · exact tb data h
    · exact tb data h

/-- WF: the prefix a crypto endpoint filters on has at least the 22 bytes the overlays compare
    (setup_tunnels copies the tunnel community's own 22-byte prefix); a property of the listener table only, which
    registry calls never change -/
def TableWF (t : List (Nat × Listener)) : Prop :=
  ∀ l c, lookupListener t l = some (.crypto c) → Gen.pubTake ≤ c.pfx.length

theorem listener_events (env : Env) (dec : Nat → Bytes → Dec) (lk : Except Exn (Option Nat)) (t : List (Nat × Listener))
    (hwf : TableWF t) (l : Nat) (data : Bytes) (ev : Ev) (h : ev ∈ (listenerOnPacket env dec lk t l data).1)
    (hh : ev.isHandler) : ev.handlerOf (data.take Gen.pubTake) := by
  unfold listenerOnPacket at h
  split at h
  · rcases community_events _ _ _ _ _ _ h with hn | ⟨hp, hev⟩
    · exact absurd hh hn
    · rw [← hp]; exact hev
  · rename_i c hc
    obtain ⟨_, o, _, hp, hev⟩ := crypto_events _ _ _ _ _ _ _ (hwf l c hc) h hh
    rw [← hp]; exact hev
  · unfold statsOnPacket at h
    rcases andThen_mem h with h | h
    · simp at h; subst h; cases hh
    · split at h
      · cases h
      · split at h <;> cases h
  · simp at h; subst h; cases hh
  · cases h

theorem dispatch_mem (env : Env) (dec : Nat → Bytes → Dec) (src data : Bytes) (key : Option Bytes) (ev : Ev) :
    ∀ (fuel : Nat) (s : DS), ev ∈ (dispatch env dec src data key fuel s).1.1 →
      ∃ l lk, ev ∈ (listenerOnPacket env dec lk s.reg.table l data).1 := by
  intro fuel
  induction fuel with
  | zero => intro s h; cases h
  | succ n ih =>
    intro s h
    unfold dispatch at h
    split at h
    · cases h
    · rename_i l rest _
      have hso : ∀ e, e ∈ (stepOut env dec src data s l).1 → ∃ l lk, e ∈ (listenerOnPacket env dec lk s.reg.table l data).1 := by
        intro e he
        unfold stepOut at he
        split at he
        · exact ⟨_, _, he⟩
        · cases he
      split at h
      · exact hso _ h
      · rcases List.mem_append.mp h with h | h
        · exact hso _ h
        · obtain ⟨l', lk', h'⟩ := ih _ h
          rw [stepState_table] at h'
          exact ⟨l', lk', h'⟩

/-- whatever the registry, the Network, the datagram, the handler bodies (raising, re-entrant) and the
    decryption results, a message handler — public (`decode_map`) or circuit-only (`decode_map_private`, reached
    through a cell) — of an overlay with prefix `p` is entered only if the first 22 bytes of the datagram handed to
    notify_listeners are `p`. -/
theorem prefix_gate (env : Env) (dec : Nat → Bytes → Dec) (fuel : Nat) (r : Registry) (hwf : TableWF r.table) (net : NetS)
    (src data : Bytes) (ev : Ev) (h : ev ∈ (notify env dec fuel r net src data).1.1) (hh : ev.isHandler) :
    ev.handlerOf (data.take Gen.pubTake) := by
  obtain ⟨l, lk, hl⟩ := dispatch_mem _ _ _ _ _ _ _ _ h
  exact listener_events _ _ _ _ hwf _ _ _ hl hh

/-- the generated tables satisfy the side conditions: every shipped overlay has a prefix of exactly the length the
    endpoint demultiplexes on and the overlays compare -/
theorem shipped_overlays_prefix_length :
    Gen.overlays.all (fun o => o.2.1.length == Gen.prefixLen && Gen.prefixLen == Gen.pubTake
      && Gen.pubTake == Gen.privTake) = true := by decide

/-! ### the transport callback -/

/-- UDPEndpoint.datagram_received (address tuples of 2 items, what asyncio delivers for AF_INET) and
    UDPv6Endpoint.datagram_received (address tuples of 2 or more items: asyncio delivers 4 for AF_INET6) return normally
    for every datagram, running or not: the address conversion read from the source cannot raise for these arities and
    notify_listeners returns normally (`receive_total`). -/
theorem datagram_received_total (env : Env) (dec : Nat → Bytes → Dec) (fuel : Nat) (running v6 : Bool) (arity : Nat)
    (harity : if v6 then 2 ≤ arity else arity = 2) (r : Registry) (net : NetS) (src data : Bytes) :
    (datagramReceived env dec fuel running v6 arity r net src data).2 = none := by
  unfold datagramReceived
  split
  · rfl
  · split
    · rename_i e he
      unfold addrConv at he
      cases v6 with
      | true =>
        simp only [if_true, Gen.v6AddrSlice] at he harity
        split at he
        · cases he
        · rename_i hn
          simp at hn; omega
      | false =>
        simp only [Bool.false_eq_true, if_false, Gen.v4AddrSlice] at he harity
        split at he
        · cases he
        · rename_i hn
          simp at hn; omega
    · exact receive_total ..

/-! ### exit sockets -/

/-- every clause of could_be_udp_tracker reads 4 bytes that its own length test covers (generated table) -/
theorem tracker_clauses_guarded : Gen.trackerClauses.all (fun c => decide (c.2.1 + 4 ≤ c.1)) = true := by decide

theorem tracker_total (d : Bytes) (cs : List (Nat × Nat × Nat)) (h : cs.all (fun c => decide (c.2.1 + 4 ≤ c.1)) = true) :
    ∃ b, couldBeTrackerOf d cs = .ok b := by
  induction cs with
  | nil => exact ⟨false, rfl⟩
  | cons c rest ih =>
    simp only [List.all_cons, Bool.and_eq_true, decide_eq_true_eq] at h
    obtain ⟨b, hb⟩ := ih h.2
    unfold couldBeTrackerOf
    have hc : ∃ x, trackerClause d c = .ok x := by
      unfold trackerClause andE
      by_cases hl : c.1 ≤ d.length
      · simp only [hl, decide_true]
        unfold readBE
        rw [if_pos (by omega)]
        exact ⟨_, rfl⟩
      · simp only [hl, decide_false]
        exact ⟨_, rfl⟩
    obtain ⟨x, hx⟩ := hc
    rw [hx]
    cases x with
    | true => exact ⟨true, rfl⟩
    | false => exact ⟨b, by simp [orE, hb]⟩

theorem could_be_utp_total (d : Bytes) : ∃ b, couldBeUtp d = .ok b := by
  unfold couldBeUtp
  split
  · exact ⟨_, rfl⟩
  · rename_i hl
    unfold readBE
    rw [if_pos (by simp [Gen.utpMinLen, Gen.utpRead] at hl ⊢; omega)]
    exact ⟨_, rfl⟩

/-- NEW (every transport of the node, not only the overlay socket): TunnelExitSocket.datagram_received — the callback of
    the UDP sockets an exit node opens towards the Internet — returns normally for every byte string, every exit policy
    and whatever sending the data back into the circuit does.  `is_allowed` runs outside the try block, so this rests on
    DataChecker never raising: each of its `unpack_from` reads is covered by the length test in front of it
    (`tracker_clauses_guarded`, `utpRead ≤ utpMinLen`; could_be_dht / could_be_ipv8 only slice). -/
theorem exit_datagram_received_total (cfg : ExitCfg) (tunnelRaises : Bool) (d : Bytes) :
    ∃ o, exitDatagramReceived cfg tunnelRaises d = .ok o := by
  have hbt : ∃ b, couldBeBt d = .ok b := by
    unfold couldBeBt
    obtain ⟨u, hu⟩ := could_be_utp_total d
    obtain ⟨t, ht⟩ := tracker_total d Gen.trackerClauses tracker_clauses_guarded
    rw [hu]
    cases u with
    | true => exact ⟨true, rfl⟩
    | false =>
      simp only [orE]
      unfold couldBeTracker
      rw [ht]
      cases t <;> exact ⟨_, rfl⟩
  obtain ⟨b, hb⟩ := hbt
  unfold exitDatagramReceived isAllowed
  rw [hb]
  simp only
  split
  · rename_i e he; cases he
  · exact ⟨_, rfl⟩
  · simp [Gen.exitTunnelProtected]

/-- the two callbacks asyncio calls on an exit socket (`datagram_received_ipv4` with 2-item, `datagram_received_ipv6` with
    2-or-more-item address tuples, IPv4-mapped sources ignored) return normally -/
theorem exit_entry_total (cfg : ExitCfg) (tunnelRaises v6 mapped : Bool) (arity : Nat)
    (harity : if v6 then 2 ≤ arity else arity = 2) (d : Bytes) : ∃ o, exitEntry cfg tunnelRaises v6 mapped arity d = .ok o := by
  unfold exitEntry
  split
  · exact ⟨_, rfl⟩
  · split
    · rename_i e he
      unfold addrConv at he
      cases v6 with
      | true =>
        simp only [if_true, Gen.exitV6AddrSlice] at he harity
        split at he
        · cases he
        · rename_i hn; simp at hn; omega
      | false =>
        simp only [Bool.false_eq_true, if_false, Gen.exitV4AddrSlice] at he harity
        split at he
        · cases he
        · rename_i hn; simp at hn; omega
    · exact exit_datagram_received_total ..

/-! ### the LAN broadcast socket -/

/-- NEW: BroadcastBootstrapEndpoint.datagram_received returns normally for every datagram, whatever `walk_to` does
    (it builds and sends an introduction request and can fail, e.g. packing an IPv6 own address into an old-style
    request) — the call is inside try/except Exception (read from the source) — and whatever the overlay's handlers do. -/
theorem broadcast_datagram_received_total (env : Env) (lk : Except Exn (Option Nat)) (hlk : ∃ p, lk = .ok p) (hdr : Bytes)
    (walkRaises : Bool) (lid : Nat) (o : Overlay) (data : Bytes) :
    (bcastDatagramReceived env lk hdr walkRaises lid o data).2 = none := by
  unfold bcastDatagramReceived
  split
  · split
    · simp [Gen.bcastWalkProtected]
    · rfl
  · split
    · exact community_on_packet_total _ _ hlk ..
    · rfl

/-! ### the cell header -/

/-- NEW (cell layer of "a truncated message is never silently accepted"): when CellPayload.from_bin accepts a packet,
    the whole header (circuit id and both flag bytes) lies inside the packet and the message is exactly what follows it;
    so a cell that ends inside its header is rejected, never decoded to an empty message. -/
theorem cell_header_complete (p : Bytes) (c : Cell) (h : cellFromBin p = .ok c) :
    Gen.cellMsgStart ≤ p.length ∧ c.message = p.drop Gen.cellMsgStart
      ∧ c.cid = beDec (slice p Gen.cellHdrOff (Gen.cellHdrOff + 4))
      ∧ Gen.cellHdrOff + Gen.cellHdrSize = Gen.cellMsgStart      -- the message starts exactly where the header ends
      ∧ Gen.pubIdx + 1 = Gen.cellHdrOff := by                    -- … and the header right after the message id byte
  unfold cellFromBin at h
  split at h
  · rename_i hl
    cases h
    refine ⟨?_, rfl, rfl, by decide, by decide⟩
    simp [Gen.cellHdrOff, Gen.cellHdrSize, Gen.cellMsgStart] at hl ⊢
    omega
  · cases h

/-! ### snapshot loader -/

/-- each entry the loader accepts lies inside the snapshot and strictly advances the offset -/
theorem load_snapshot_progress (snap : Bytes) (off : Nat) (a : Val) (e : Nat)
    (h : unpackAddressAt false snap off = .ok (a, e)) : off < e ∧ e ≤ snap.length :=
  ⟨(unpackAddressAt_bound h).2, (unpackAddressAt_bound h).1⟩

/-- (termination) `len(snapshot) - offset` loop iterations always suffice — more fuel never changes the
    result, so the `while offset < snaplen` loop terminates for every byte string; errors end the loop (the model's
    `.error _ => []` is the `except Exception: … break`), so nothing is raised. -/
theorem load_snapshot_total (snap : Bytes) (fuel off : Nat) (h : snap.length - off ≤ fuel) :
    loadSnapshotLoop snap (fuel + 1) off = loadSnapshotLoop snap fuel off := by
  induction fuel generalizing off with
  | zero =>
    have : ¬ off < snap.length := by omega
    simp [loadSnapshotLoop, this]
  | succ n ih =>
    rw [loadSnapshotLoop.eq_def snap (n + 1 + 1) off, loadSnapshotLoop.eq_def snap (n + 1) off]
    simp only
    split
    · split
      · rename_i a e he
        have := unpackAddressAt_bound he
        rw [ih e (by omega)]
      · rfl
    · rfl

/-- load_snapshot never raises and always terminates: with `len(snapshot)` iterations of fuel the loop ends normally
    for every byte string.  Depends on the shapes read from the source: the entry decode sits inside
    `try … except Exception` (`Gen.snapCatchAll`) and the handler breaks when the offset did not advance
    (`Gen.snapStuckBreak`) — without either the model raises / runs out of fuel and this theorem fails. -/
theorem load_snapshot_never_raises (snap : Bytes) : ∃ l, loadSnapshot snap = .ok l := by
  have key : ∀ fuel off, snap.length - off ≤ fuel → ∃ l, loadSnapshotLoop snap fuel off = .ok l := by
    intro fuel
    induction fuel with
    | zero =>
      intro off h
      have : ¬ off < snap.length := by omega
      exact ⟨[], by simp [loadSnapshotLoop, this]⟩
    | succ n ih =>
      intro off h
      rw [loadSnapshotLoop.eq_def]
      simp only
      split
      · split
        · rename_i a e he
          have hb := unpackAddressAt_bound he
          obtain ⟨l, hl⟩ := ih e (by omega)
          rw [hl]
          exact ⟨_, rfl⟩
        · simp [Gen.snapCatchAll, Gen.snapStuckBreak]
      · exact ⟨[], rfl⟩
  exact key snap.length 0 (by omega)

/-! non-vacuity of the receive theorems: a registry with a tunnel overlay behind a crypto endpoint; a plaintext CREATE
    cell reaches the circuit-only handler; a one-shot listener that detaches itself does not make the next one miss the
    datagram; a stale cache entry (peer removed after it was cached) is just dropped -/
def exPfx : Bytes := List.replicate 22 7
def exTunnel : Overlay := { pfx := exPfx, pub := [0, 8], priv := [2, 3], tunnel := true }
def exReg : Registry :=
  { listeners := [], prefixMap := [(exPfx, [10])], isOpen := true,
    table := [(10, .crypto { pfx := exPfx, tunnel := some (1, exTunnel), relays := [], circuits := [], exits := [],
                             maxRelayEarly := 8 })] }
def exEnv : Env := { pubRaises := fun _ _ _ => true, privRaises := fun _ _ _ _ => true, relayRaises := fun _ _ => true }
def evCode : Ev → Nat
  | .called l => l
  | .sender _ _ => 50
  | .pub _ _ m => 100 + m
  | .priv _ _ m _ _ => 200 + m

example : TableWF exReg.table := by
  intro l c h
  simp [exReg, lookupListener] at h
  obtain ⟨_, rfl⟩ := h
  decide
example : ((notify exEnv (fun _ _ => .fail) 9 exReg {} [1] (exPfx ++ [0, 0, 0, 0, 9, 1, 1, 2, 5, 5])).1.1.map evCode)
    = [10, 1, 50, 100, 202] := by decide
example : (notify exEnv (fun _ _ => .fail) 9 exReg {} [1] (exPfx ++ [0, 0, 0])).1.2 = none := by decide
example : ((notify exEnv (fun _ _ => .raise) 9 exReg {} [1] exPfx).1.1.map evCode) = [10, 1, 50] := by decide
/-- two global listeners, the first removes itself while handling the datagram: the second is still called -/
def exOneShot : Env := { exEnv with effects := fun l _ => if l == 1 then [.rm 1] else [] }
def exReg2 : Registry := { listeners := [1, 2], table := [(1, .inert), (2, .inert)] }
example : ((notify exOneShot (fun _ _ => .fail) 9 exReg2 {} [1] [9, 9]).1.1.map evCode) = [1, 2] := by decide
example : (notify exOneShot (fun _ _ => .fail) 9 exReg2 {} [1] [9, 9]).2.reg.listeners = [2] := by decide
/-- verified peer cached at address [1], then removed: the next lookup from [1] returns none and drops the entry -/
def exNet : NetS := (((({} : NetS).newObj 7 70 [1]).addVerified 7).lookup [1]).2.removePeer 7
example : (exNet.cache.length, (exNet.lookup [1]).2.cache.length) = (1, 0) := by decide

/-- `Harmless` is satisfiable by a non-trivial behaviour: the one-shot listener 1 removes itself; that is harmless for
    listener 2, which `receive_all_recipients_called` therefore guarantees to be called -/
example : Harmless exOneShot 2 := by
  intro x d op h
  simp only [exOneShot] at h
  split at h
  · simp at h; subst h; exact ⟨by decide, by decide⟩
  · cases h
example : Ev.called 2 ∈ (notify exOneShot (fun _ _ => .fail) 9 exReg2 {} [1] [9, 9]).1.1 :=
  receive_all_recipients_called exOneShot _ exReg2 {} [1] [9, 9] 2 (by decide) rfl (by decide)
    (by intro x d op h
        simp only [exOneShot] at h
        split at h
        · simp at h; subst h; exact ⟨by decide, by decide⟩
        · cases h) 9 (by decide)
/-- the stale-entry case of the sender lookup as a stated instance -/
example : ∃ p, (exNet.lookup [1]).1 = .ok p := sender_lookup_total exNet [1]
/-- exit socket: an 8-byte datagram whose first word is not a tracker action is simply dropped (second clause needs 12) -/
example : (match exitDatagramReceived { exitBT := true, exitIPv8 := true, pfx := exPfx } true [0, 0, 0, 9, 1, 2, 3, 4] with
    | .ok o => some o | .error _ => none) = some .dropped := by decide
example : (match exitDatagramReceived { exitBT := true, exitIPv8 := false, pfx := exPfx } true [0, 0, 0, 2, 1, 2, 3, 4] with
    | .ok o => some o | .error _ => none) = some .tunneled := by decide
/-- a cell that ends inside its header (27, 28 bytes) is rejected -/
example : (match cellFromBin (exPfx ++ [0, 0, 0, 0, 9, 1]) with | .ok _ => true | .error _ => false) = false := by decide
/-- a StatisticsEndpoint tracking the prefix: the 22-byte datagram equal to the prefix is dropped, not indexed -/
example : (statsOnPacket 5 [exPfx] exPfx) = ([.called 5], none) := by decide
/-- a circuit without hops: an encrypted cell for it is dropped before any decryption (dec would otherwise be used) -/
example : ((notify exEnv (fun _ _ => .ok [2, 1]) 9
    { exReg with table := [(10, .crypto { pfx := exPfx, tunnel := some (1, exTunnel), relays := [], circuits := [77],
                                          exits := [], maxRelayEarly := 8, hopless := [77] })] } {} [1]
    (exPfx ++ [0, 0, 0, 0, 77, 0, 1, 9, 9])).1.1.map evCode) = [10] := by decide
/-- truncation: `[varlen, uint8]` decodes 6 bytes; every proper cut is an error (instance of `truncated_is_rejected`);
    with a trailing `raw` a cut is accepted with a shorter rest — why the theorem needs `rawFree` -/
example : rawFreeList (fl [.varlen 2 1, .struct [.uint 1]]) = true := by decide
example : endOf (unpackListAt (fl [.varlen 2 1, .struct [.uint 1]]) [0, 3, 97, 98, 99, 7] 0) = some 6 := by decide
example : errOf (unpackListAt (fl [.varlen 2 1, .struct [.uint 1]]) (([0, 3, 97, 98, 99, 7] : Bytes).take 5) 0) = some .short := by
  decide
example : errOf (unpackListAt (fl [.varlen 2 1, .struct [.uint 1]]) (([0, 3, 97, 98, 99, 7] : Bytes).take 4) 0) = some .pack := by
  decide
example : endOf (unpackListAt (fl [.struct [.uint 1], .raw]) (([1, 2, 3, 4] : Bytes).take 2) 0) = some 2 := by decide
/-- a start offset beyond the buffer with an empty format list: the unchanged offset comes back (`decode_end_le_max`) -/
example : endOf (unpackListAt .nil [] 50) = some 50 := by decide
example : (match loadSnapshot [1, 1, 2, 3, 4, 0, 80, 9] with | .ok l => l.length | .error _ => 99) = 1 := by decide

end Ipv8.C03
