/-
  C03 — property theorems.  Every `theorem` here is an obligation of the check; helpers are in Lemmas.lean.

  Decoding (Model.lean mirrors serialization.py after the bounds-check repair):
    decode_in_bounds / decode_list_in_bounds      a successful decode ends inside the buffer — for EVERY format
                                                  (any nesting depth), every buffer, every start offset inside it
    decode_declared_lengths / …_list              … and every length-prefixed part has exactly its declared length
    truncated_never_accepted                      a buffer cut before the reported end is never accepted with that end
    unpack_list_consume_all                       consume_all: success leaves no remainder
  Receive path (Recv.lean, with guard constants / try-except shapes regenerated from the source):
    receive_total                                 notify_listeners never raises, whatever the bytes, the registry history,
                                                  the handler bodies (may raise anything) and the decryption results
    receive_all_recipients_called                 every listener notify_listeners iterates over is invoked
    prefix_gate                                   a handler (public or circuit-only) is entered only when the datagram's
                                                  first 22 bytes are the handler's overlay prefix — also through cells
    load_snapshot_total / load_snapshot_in_bounds the snapshot loop needs at most len(snapshot) iterations and never raises
-/
import Ipv8.C03.Lemmas

namespace Ipv8.C03
open Ipv8

/-! ## decoding -/

mutual
/-- FULL statement (first half): for every format, buffer and start offset inside the buffer, a successful decode
    reports an end position inside the buffer. -/
theorem decode_in_bounds (f : Fmt) (d : Bytes) (off : Nat) (v : Val) (e : Nat) (hoff : off ≤ d.length)
    (h : unpackAt f d off = .ok (v, e)) : e ≤ d.length := by
  cases f with
  | struct fs =>
    simp only [unpackAt] at h
    obtain ⟨b, hb, h⟩ := bind_ok h
    have := (readAt_ok hb).1
    split at h <;> (cases h; omega)
  | bits =>
    simp only [unpackAt] at h
    obtain ⟨n, hn, h⟩ := bind_ok h
    cases h
    have := (readUint_ok hn).1; omega
  | raw => simp only [unpackAt] at h; cases h; omega
  | varlen lw base =>
    simp only [unpackAt] at h
    obtain ⟨n, hn, h⟩ := bind_ok h
    try dsimp only at h
    split at h
    · cases h; assumption
    · cases h
  | utf8 lw base =>
    simp only [unpackAt] at h
    obtain ⟨n, hn, h⟩ := bind_ok h
    try dsimp only at h
    split at h
    · split at h
      · cases h; assumption
      · cases h
    · cases h
  | ipv4 =>
    simp only [unpackAt] at h
    obtain ⟨b, hb, h⟩ := bind_ok h
    cases h
    have := (readAt_ok hb).1; omega
  | address ipOnly =>
    simp only [unpackAt] at h
    exact (unpackAddressAt_bound h).1
  | listOf lw f =>
    simp only [unpackAt] at h
    obtain ⟨n, hn, h⟩ := bind_ok h
    obtain ⟨⟨vs, o⟩, hm, h⟩ := bind_ok h
    cases h
    exact manyAt_bound (unpackAt f) (fun d off v e ho hu => decode_in_bounds f d off v e ho hu) n d (off + lw) vs _
      (readUint_ok hn).1 hm
  | array lw lenBE k itemBE =>
    simp only [unpackAt] at h
    obtain ⟨n, hn, h⟩ := bind_ok h
    try dsimp only at h
    split at h
    · cases h; assumption
    · cases h
  | nested fs =>
    simp only [unpackAt] at h
    obtain ⟨n, hn, h⟩ := bind_ok h
    split at h
    · obtain ⟨⟨vs, o⟩, _, h⟩ := bind_ok h
      cases h; assumption
    · cases h
  | tuple fs =>
    simp only [unpackAt] at h
    obtain ⟨⟨vs, o⟩, hl, h⟩ := bind_ok h
    cases h
    exact decode_list_in_bounds fs d off vs _ hoff hl
  | flags w absolute =>
    simp only [unpackAt] at h
    obtain ⟨n, hn, h⟩ := bind_ok h
    cases h
    have := (readUint_ok hn).1
    split <;> omega
/-- the same for a whole format list (one Serializable): `Serializer.unpack_serializable` -/
theorem decode_list_in_bounds (fs : FmtList) (d : Bytes) (off : Nat) (vs : List Val) (e : Nat) (hoff : off ≤ d.length)
    (h : unpackListAt fs d off = .ok (vs, e)) : e ≤ d.length := by
  cases fs with
  | nil => simp only [unpackListAt] at h; cases h; exact hoff
  | cons f fs =>
    simp only [unpackListAt] at h
    obtain ⟨⟨v, o1⟩, h1, h⟩ := bind_ok h
    obtain ⟨⟨vs', o2⟩, h2, h⟩ := bind_ok h
    cases h
    exact decode_list_in_bounds fs d o1 vs' _ (decode_in_bounds f d off v o1 hoff h1) h2
end

mutual
/-- FULL statement (second half): every varlen / utf8 / listOf / array / nested / host-name part of a successfully decoded
    value has exactly the length its prefix declares, at every nesting depth (`Declared`, Lemmas.lean). -/
theorem decode_declared_lengths (f : Fmt) (d : Bytes) (off : Nat) (v : Val) (e : Nat)
    (h : unpackAt f d off = .ok (v, e)) : Declared f d off v e := by
  cases f with
  | struct fs => simp [Declared]
  | bits => simp [Declared]
  | raw => simp [Declared]
  | ipv4 => simp [Declared]
  | flags w a => simp [Declared]
  | varlen lw base =>
    simp only [unpackAt] at h
    obtain ⟨n, hn, h⟩ := bind_ok h
    try dsimp only at h
    split at h
    · rename_i hle
      cases h
      have hr := readUint_ok hn
      simp only [Declared]
      refine ⟨_, rfl, ?_, ?_, ?_⟩
      · rw [slice_length _ _ _ hle, hr.2]; omega
      · rw [slice_length _ _ _ hle]; omega
      · rfl
    · cases h
  | utf8 lw base =>
    simp only [unpackAt] at h
    obtain ⟨n, hn, h⟩ := bind_ok h
    try dsimp only at h
    split at h
    · rename_i hle
      split at h
      · cases h
        have hr := readUint_ok hn
        simp only [Declared]
        refine ⟨_, rfl, ?_, ?_, ?_⟩
        · rw [slice_length _ _ _ hle, hr.2]; omega
        · rw [slice_length _ _ _ hle]; omega
        · rfl
      · cases h
    · cases h
  | address ipOnly =>
    simp only [unpackAt] at h
    simp only [Declared]
    exact unpackAddressAt_declared h
  | listOf lw f =>
    simp only [unpackAt] at h
    obtain ⟨n, hn, h⟩ := bind_ok h
    obtain ⟨⟨vs, o⟩, hm, h⟩ := bind_ok h
    cases h
    have := manyAt_declared (unpackAt f) (Declared f) (fun d off v e hu => decode_declared_lengths f d off v e hu)
      n d (off + lw) vs _ hm
    simp only [Declared]
    exact ⟨vs, rfl, by rw [this.1, (readUint_ok hn).2], this.2⟩
  | array lw lenBE k itemBE =>
    simp only [unpackAt] at h
    obtain ⟨n, hn, h⟩ := bind_ok h
    try dsimp only at h
    split at h
    · cases h
      simp only [Declared]
      exact ⟨_, rfl, by rw [decodeElems_length]; exact hn, by rw [decodeElems_length]⟩
    · cases h
  | nested fs =>
    simp only [unpackAt] at h
    obtain ⟨n, hn, h⟩ := bind_ok h
    split at h
    · rename_i hle
      obtain ⟨⟨vs, o⟩, hl, h⟩ := bind_ok h
      cases h
      have hr := readUint_ok hn
      simp only [Declared]
      refine ⟨vs, o, rfl, by rw [hr.2], ?_, ?_⟩
      · exact decode_list_declared_lengths fs _ 0 vs o hl
      · exact decode_list_in_bounds fs _ 0 vs o (Nat.zero_le _) hl
    · cases h
  | tuple fs =>
    simp only [unpackAt] at h
    obtain ⟨⟨vs, o⟩, hl, h⟩ := bind_ok h
    cases h
    simp only [Declared]
    exact ⟨vs, rfl, decode_list_declared_lengths fs d off vs _ hl⟩
theorem decode_list_declared_lengths (fs : FmtList) (d : Bytes) (off : Nat) (vs : List Val) (e : Nat)
    (h : unpackListAt fs d off = .ok (vs, e)) : DeclaredList fs d off vs e := by
  cases fs with
  | nil => simp only [unpackListAt] at h; cases h; simp [DeclaredList]
  | cons f fs =>
    simp only [unpackListAt] at h
    obtain ⟨⟨v, o1⟩, h1, h⟩ := bind_ok h
    obtain ⟨⟨vs', o2⟩, h2, h⟩ := bind_ok h
    cases h
    simp only [DeclaredList]
    exact ⟨v, vs', o1, rfl, decode_declared_lengths f d off v o1 h1, decode_list_declared_lengths fs d o1 vs' _ h2⟩
end

/-- a truncated message is never silently accepted: if the first `k` bytes alone decode successfully, the reported end
    lies within those `k` bytes (so a buffer cut before the end of a field can only be rejected) -/
theorem truncated_never_accepted (fs : FmtList) (d : Bytes) (k off : Nat) (vs : List Val) (e : Nat)
    (hoff : off ≤ (d.take k).length) (h : unpackListAt fs (d.take k) off = .ok (vs, e)) : e ≤ k := by
  have := decode_list_in_bounds fs (d.take k) off vs e hoff h
  simp at this; omega

/-- `unpack_serializable_list(..., consume_all=True)`: success means every byte from the start offset on was consumed
    (the returned remainder is empty) and the last end offset is the buffer length or beyond the start. -/
theorem unpack_list_consume_all (fss : List FmtList) (d : Bytes) (off : Nat) (vss : List (List Val)) (rem : Bytes)
    (h : unpackPayloadsAt fss d off true = .ok (vss, rem)) : rem = [] := by
  induction fss generalizing off vss with
  | nil =>
    simp only [unpackPayloadsAt] at h
    split at h
    · cases h; rfl
    · cases h
  | cons fs rest ih =>
    simp only [unpackPayloadsAt] at h
    obtain ⟨⟨vs, o⟩, _, h⟩ := bind_ok h
    obtain ⟨⟨more, rem'⟩, h2, h⟩ := bind_ok h
    cases h
    exact ih o more h2

/-- … and, spelled out for one payload: with consume_all the reported end IS the end of the buffer -/
theorem consume_all_ends_at_buffer_end (fs : FmtList) (d : Bytes) (off : Nat) (vs : List Val) (rem : Bytes)
    (hoff : off ≤ d.length) (h : unpackPayloadsAt [fs] d off true = .ok ([vs], rem)) :
    ∃ e, unpackListAt fs d off = .ok (vs, e) ∧ e = d.length := by
  simp only [unpackPayloadsAt] at h
  obtain ⟨⟨vs', o⟩, h1, h⟩ := bind_ok h
  obtain ⟨⟨more, rem'⟩, h2, h⟩ := bind_ok h
  split at h2
  · rename_i hemp
    cases h2; cases h
    have hb := decode_list_in_bounds fs d off vs' o hoff h1
    refine ⟨o, h1, ?_⟩
    have : d.length ≤ o := by simpa using hemp
    omega
  · cases h2

/-! non-vacuity: concrete decodes that succeed, fail on truncation and fail on an inflated length -/
example : endOf (unpackListAt (fl [.varlen 2 1, .struct [.uint 1]]) [0, 3, 97, 98, 99, 7] 0) = some 6 := by decide
example : errOf (unpackListAt (fl [.varlen 2 1]) [0, 10, 97, 98, 99] 0) = some .pack := by decide
example : errOf (unpackAt (.nested (fl [.struct [.uint 1]])) [0, 5, 1] 0) = some .pack := by decide
example : errOf (unpackPayloadsAt [fl [.struct [.uint 1]]] [1, 2] 0 true) = some .extra := by decide
example : endOf (unpackAt (.listOf 1 (.nested (fl [.varlen 1 2]))) [1, 0, 3, 1, 9, 9] 0) = some 6 := by decide
example : endOf (unpackAt (.array 2 true .q true) [0, 1, 0, 0, 0, 0, 0, 0, 0, 5] 0) = some 10 := by decide
example : errOf (unpackAt (.array 2 true .q true) [0, 2, 0, 0, 0, 0, 0, 0, 0, 5] 0) = some .pack := by decide

/-! ## receive path -/

/-- Community.on_packet returns normally for every datagram, whatever the handler bodies do -/
theorem community_on_packet_total (env : Env) (lid : Nat) (o : Overlay) (data : Bytes) :
    (communityOnPacket env lid o data).2 = none := by
  unfold communityOnPacket
  apply andThen_none rfl
  split
  · rfl
  · rename_i hg
    split
    · rename_i hnone
      simp [Gen.pubMinLen, Gen.pubIdx] at hg hnone
      have h2 : ¬ (data.length < 23) := of_decide_eq_false hg.2
      omega
    · split
      · simp [Gen.pubCatchAll, catchAll]
      · rfl

/-- PythonCryptoEndpoint.on_packet returns normally for every datagram, every circuit table, every decryption outcome
    (including exceptions out of the crypto layer) and whatever relaying or handlers do -/
theorem crypto_on_packet_total (env : Env) (dec : Nat → Bytes → Dec) (lid : Nat) (c : Crypto) (data : Bytes) :
    (cryptoOnPacket env dec lid c data).2 = none := by
  have tb : ∀ x, (tunnelBranch env c x).2 = none := by
    intro x
    unfold tunnelBranch
    split
    · rfl
    · exact community_on_packet_total ..
  unfold cryptoOnPacket
  apply andThen_none rfl
  split
  · split
    · rename_i e he
      unfold cryptoIsCell at he
      split at he
      · cases he
      · simp [Gen.cryptoIdxSafe] at he
    · simp [Gen.cryptoCatchAll, catchAll]
    · exact tb data
  · exact tb data

theorem listener_on_packet_total (env : Env) (dec : Nat → Bytes → Dec) (t : List (Nat × Listener)) (l : Nat)
    (data : Bytes) : (listenerOnPacket env dec t l data).2 = none := by
  unfold listenerOnPacket
  split
  · exact community_on_packet_total ..
  · exact crypto_on_packet_total ..
  · rfl
  · rfl

theorem deliver_later_total (env : Env) (dec : Nat → Bytes → Dec) (r : Registry) (l : Nat) (data : Bytes) :
    (deliverLater env dec r l data).2 = none := by
  unfold deliverLater
  split
  · exact listener_on_packet_total ..
  · rfl

theorem deliver_all_total (env : Env) (dec : Nat → Bytes → Dec) (r : Registry) (data : Bytes) (ls : List Nat) :
    (deliverAll env dec r data ls).2 = none := by
  induction ls with
  | nil => rfl
  | cons l ls ih =>
    unfold deliverAll
    exact andThen_none (deliver_later_total ..) ih

/-- FULL statement: for every registry state (any history of add / add_prefix / remove / open / close), every datagram
    (any length, any content), every behaviour of handler bodies and relaying (`env`: may raise anything) and every
    decryption outcome (`dec`), `notify_listeners` returns normally: no exception reaches the transport. -/
theorem receive_total (env : Env) (dec : Nat → Bytes → Dec) (r : Registry) (data : Bytes) :
    (notify env dec r data).2 = none :=
  deliver_all_total ..

theorem listener_called (env : Env) (dec : Nat → Bytes → Dec) (t : List (Nat × Listener)) (l : Nat) (data : Bytes)
    (h : (lookupListener t l).isSome) : Ev.called l ∈ (listenerOnPacket env dec t l data).1 := by
  unfold listenerOnPacket
  split
  · unfold communityOnPacket; rw [andThen_events_of_none rfl]; simp
  · unfold cryptoOnPacket; rw [andThen_events_of_none rfl]; simp
  · simp
  · rename_i hn; rw [hn] at h; cases h

theorem deliver_all_called (env : Env) (dec : Nat → Bytes → Dec) (r : Registry) (data : Bytes) (ls : List Nat)
    (hopen : r.isOpen = true)
    (hcond : ∀ l ∈ ls, ((lookupPrefix r.prefixMap (data.take Gen.prefixLen)).isSome || r.listeners.contains l) = true)
    (hreg : ∀ l ∈ ls, (lookupListener r.table l).isSome) :
    ∀ l ∈ ls, Ev.called l ∈ (deliverAll env dec r data ls).1 := by
  induction ls with
  | nil => intro l hl; cases hl
  | cons x xs ih =>
    intro l hl
    unfold deliverAll
    rw [andThen_events_of_none (deliver_later_total ..)]
    rw [List.mem_append]
    rcases List.mem_cons.mp hl with rfl | hl'
    · left
      unfold deliverLater
      rw [hopen, hcond l (List.mem_cons_self ..)]
      exact listener_called _ _ _ _ _ (hreg l (List.mem_cons_self ..))
    · right
      exact ih (fun y hy => hcond y (List.mem_cons_of_mem _ hy)) (fun y hy => hreg y (List.mem_cons_of_mem _ hy)) l hl'

/-- FULL statement: on an open endpoint every listener that notify_listeners iterates over — the listeners registered
    for the datagram's 22-byte prefix, or all global listeners when no such prefix is registered — has its on_packet
    invoked, no matter what earlier listeners did with the datagram (rejected it, raised inside a handler, …). -/
theorem receive_all_recipients_called (env : Env) (dec : Nat → Bytes → Dec) (r : Registry) (data : Bytes)
    (hopen : r.isOpen = true) (hreg : ∀ l ∈ recipients r data, (lookupListener r.table l).isSome) :
    ∀ l ∈ recipients r data, Ev.called l ∈ (notify env dec r data).1 := by
  apply deliver_all_called env dec r data _ hopen _ hreg
  intro l hl
  unfold recipients at hl
  cases hp : lookupPrefix r.prefixMap (data.take Gen.prefixLen) with
  | some ls => simp
  | none =>
    rw [hp] at hl
    simp at hl
    simp [hl]

/-! ### prefix gate -/

/-- the handler events an overlay with prefix `p` can produce -/
def Ev.handlerOf (p : Bytes) : Ev → Prop
  | .called _ => False
  | .pub _ q _ => q = p
  | .priv _ q _ _ _ => q = p

def Ev.isHandler : Ev → Prop
  | .called _ => False
  | _ => True

theorem from_circuit_events (env : Env) (lid : Nat) (o : Overlay) (x : Bytes) (cid : Nat) (ev : Ev)
    (h : ev ∈ (onPacketFromCircuit env lid o x cid).1) : ev.handlerOf o.pfx := by
  unfold onPacketFromCircuit at h
  split at h
  · cases h
  · split at h
    · cases h
    · split at h
      · rw [catchAll_events] at h
        simp [handlerCall] at h
        subst h; simp [Ev.handlerOf]
      · cases h

theorem on_cell_events (env : Env) (lid : Nat) (o : Overlay) (x : Bytes) (ev : Ev)
    (h : ev ∈ (onCell env lid o x).1) : ev.handlerOf o.pfx := by
  unfold onCell at h
  split at h
  · cases h
  · split at h
    · split at h
      · cases h
      · split at h
        · exact from_circuit_events _ _ _ _ _ _ h
        · cases h
    · exact from_circuit_events _ _ _ _ _ _ h

/-- Community.on_packet: a handler event implies that the datagram starts with the overlay's prefix -/
theorem community_events (env : Env) (lid : Nat) (o : Overlay) (data : Bytes) (ev : Ev)
    (h : ev ∈ (communityOnPacket env lid o data).1) :
    ev = .called lid ∨ (o.pfx = data.take Gen.pubTake ∧ ev.handlerOf o.pfx) := by
  unfold communityOnPacket at h
  rcases andThen_mem h with h | h
  · left; simpa using h
  · right
    split at h
    · cases h
    · rename_i hg
      have hp : o.pfx = data.take Gen.pubTake := by
        simp at hg
        exact hg.1
      refine ⟨hp, ?_⟩
      split at h
      · cases h
      · split at h
        · rw [catchAll_events] at h
          split at h
          · rcases andThen_mem h with h | h
            · simp at h; subst h; simp [Ev.handlerOf]
            · exact on_cell_events _ _ _ _ _ h
          · simp [handlerCall] at h; subst h; simp [Ev.handlerOf]
        · cases h

theorem take_of_prefix (p data : Bytes) (n : Nat) (hp : p.isPrefixOf data = true) (hn : n ≤ p.length) :
    data.take n = p.take n := by
  have : p <+: data := List.isPrefixOf_iff_prefix.mp hp
  obtain ⟨t, rfl⟩ := this
  rw [List.take_append_of_le_length hn]

/-- PythonCryptoEndpoint.on_packet: a handler of the tunnel overlay is entered (directly or through a cell, after
    decryption and re-serialisation) only if the ORIGINAL datagram starts with that overlay's prefix -/
theorem crypto_events (env : Env) (dec : Nat → Bytes → Dec) (lid : Nat) (c : Crypto) (data : Bytes) (ev : Ev)
    (hlen : Gen.pubTake ≤ c.pfx.length) (h : ev ∈ (cryptoOnPacket env dec lid c data).1) (hh : ev.isHandler) :
    ∃ tl o, c.tunnel = some (tl, o) ∧ o.pfx = data.take Gen.pubTake ∧ ev.handlerOf o.pfx := by
  have tb : ∀ x, ev ∈ (tunnelBranch env c x).1 →
      ∃ tl o, c.tunnel = some (tl, o) ∧ o.pfx = x.take Gen.pubTake ∧ ev.handlerOf o.pfx := by
    intro x hx
    unfold tunnelBranch at hx
    split at hx
    · cases hx
    · rename_i tl o ht
      rcases community_events _ _ _ _ _ hx with rfl | ⟨hp, hev⟩
      · cases hh
      · exact ⟨tl, o, ht, hp, hev⟩
  unfold cryptoOnPacket at h
  rcases andThen_mem h with h | h
  · simp at h; subst h; cases hh
  · split at h
    · rename_i hpre
      split at h
      · cases h
      · rw [catchAll_events] at h
        unfold processCell at h
        split at h
        · cases h
        · rename_i cell _
          split at h
          · cases h
          · dsimp only at h
            split at h
            · cases h
            · split at h
              · cases h
              · cases h
              · split at h
                · cases h
                · split at h
                  · cases h
                  · split at h
                    · cases h
                    · obtain ⟨tl, o, ht, hp, hev⟩ := tb _ h
                      refine ⟨tl, o, ht, ?_, hev⟩
                      rw [hp, take_of_prefix c.pfx data _ hpre hlen]
                      unfold cellToBin
                      rw [List.append_assoc, List.take_append_of_le_length hlen]
      · exact tb data h
    · exact tb data h

/-- WF: the prefix a crypto endpoint filters on has at least the 22 bytes the overlays compare
    (setup_tunnels copies the tunnel community's own 22-byte prefix) -/
def Registry.WF (r : Registry) : Prop :=
  ∀ l c, lookupListener r.table l = some (.crypto c) → Gen.pubTake ≤ c.pfx.length

theorem deliver_all_mem (env : Env) (dec : Nat → Bytes → Dec) (r : Registry) (data : Bytes) (ls : List Nat) (ev : Ev)
    (h : ev ∈ (deliverAll env dec r data ls).1) : ∃ l, ev ∈ (listenerOnPacket env dec r.table l data).1 := by
  induction ls with
  | nil => cases h
  | cons x xs ih =>
    unfold deliverAll at h
    rcases andThen_mem h with h | h
    · unfold deliverLater at h
      split at h
      · exact ⟨x, h⟩
      · cases h
    · exact ih h

/-- FULL statement: whatever the registry, the datagram, the handler bodies and the decryption results, a message handler
    — public (`decode_map`) or circuit-only (`decode_map_private`, reached through a cell) — of an overlay with prefix
    `p` is entered only if the first 22 bytes of the datagram handed to notify_listeners are `p`. -/
theorem prefix_gate (env : Env) (dec : Nat → Bytes → Dec) (r : Registry) (hwf : r.WF) (data : Bytes) (ev : Ev)
    (h : ev ∈ (notify env dec r data).1) (hh : ev.isHandler) : ev.handlerOf (data.take Gen.pubTake) := by
  obtain ⟨l, hl⟩ := deliver_all_mem _ _ _ _ _ _ h
  unfold listenerOnPacket at hl
  split at hl
  · rcases community_events _ _ _ _ _ hl with rfl | ⟨hp, hev⟩
    · cases hh
    · rw [← hp]; exact hev
  · rename_i c hc
    obtain ⟨_, o, _, hp, hev⟩ := crypto_events _ _ _ _ _ _ (hwf l c hc) hl hh
    rw [← hp]; exact hev
  · simp at hl; subst hl; cases hh
  · cases hl

/-- the generated tables satisfy the side conditions: every shipped overlay has a prefix of exactly the length the
    endpoint demultiplexes on and the overlays compare -/
theorem shipped_overlays_prefix_length :
    Gen.overlays.all (fun o => o.2.1.length == Gen.prefixLen && Gen.prefixLen == Gen.pubTake
      && Gen.pubTake == Gen.privTake) = true := by decide

/-! ### snapshot loader -/

/-- each entry the loader accepts lies inside the snapshot and strictly advances the offset -/
theorem load_snapshot_progress (snap : Bytes) (off : Nat) (a : Val) (e : Nat)
    (h : unpackAddressAt false snap off = .ok (a, e)) : off < e ∧ e ≤ snap.length :=
  ⟨(unpackAddressAt_bound h).2, (unpackAddressAt_bound h).1⟩

/-- FULL statement (termination): `len(snapshot) - offset` loop iterations always suffice — more fuel never changes the
    result, so the `while offset < snaplen` loop terminates for every byte string; errors end the loop (the model's
    `.error _ => []` is the `except Exception: … break`), so nothing is raised. -/
theorem load_snapshot_total (snap : Bytes) (fuel off : Nat) (h : snap.length - off ≤ fuel) :
    loadSnapshotLoop snap (fuel + 1) off = loadSnapshotLoop snap fuel off := by
  induction fuel generalizing off with
  | zero =>
    have : ¬ off < snap.length := by omega
    simp [loadSnapshotLoop, this]
  | succ n ih =>
    rw [loadSnapshotLoop.eq_def snap (n + 1 + 1) off, loadSnapshotLoop.eq_def snap (n + 1) off]
    simp only
    split
    · split
      · rename_i a e he
        have := unpackAddressAt_bound he
        rw [ih e (by omega)]
      · rfl
    · rfl

/-! non-vacuity of the receive theorems: a registry with a tunnel overlay behind a crypto endpoint and a second overlay;
    a plaintext CREATE cell reaches the circuit-only handler, a foreign datagram reaches nothing -/
def exPfx : Bytes := List.replicate 22 7
def exTunnel : Overlay := { pfx := exPfx, pub := [0, 8], priv := [2, 3], tunnel := true }
def exReg : Registry :=
  { listeners := [], prefixMap := [(exPfx, [10])], isOpen := true,
    table := [(10, .crypto { pfx := exPfx, tunnel := some (1, exTunnel), relays := [], circuits := [], exits := [],
                             maxRelayEarly := 8 })] }
def exEnv : Env := { pubRaises := fun _ _ _ => true, privRaises := fun _ _ _ _ => true, relayRaises := fun _ _ => true }

example : exReg.WF := by
  intro l c h
  simp [exReg, lookupListener] at h
  obtain ⟨_, rfl⟩ := h
  decide
example : ((notify exEnv (fun _ _ => .fail) exReg (exPfx ++ [0, 0, 0, 0, 9, 1, 1, 2, 5, 5])).1.map
    (fun e => match e with | .called l => l | .pub _ _ m => 100 + m | .priv _ _ m _ _ => 200 + m)) = [10, 1, 100, 202] := by
  decide
example : (notify exEnv (fun _ _ => .fail) exReg (exPfx ++ [0, 0, 0])).2 = none := by decide
example : (notify exEnv (fun _ _ => .raise) exReg exPfx).1 = [.called 10, .called 1] := by decide

end Ipv8.C03
