/-
  C03 — property theorems.  Every `theorem` here is an obligation of the check; helpers are in Lemmas.lean.

  Decoding (Model.lean mirrors serialization.py after the bounds-check repair):
    decode_in_bounds / decode_list_in_bounds      a successful decode ends inside the buffer — for EVERY format
                                                  (any nesting depth), every buffer, every start offset inside it
    decode_declared_lengths / …_list              … and every length-prefixed part has exactly its declared length
    truncated_never_accepted                      a buffer cut before the reported end is never accepted with that end
    unpack_list_consume_all                       consume_all: success leaves no remainder
  Receive path (Recv.lean, with guard constants / try-except shapes regenerated from the source):
    receive_total                                 notify_listeners never raises, whatever the bytes, the registry history,
                                                  the handler bodies (may raise anything) and the decryption results
    receive_all_recipients_called                 every listener notify_listeners iterates over is invoked
    prefix_gate                                   a handler (public or circuit-only) is entered only when the datagram's
                                                  first 22 bytes are the handler's overlay prefix — also through cells
    load_snapshot_total / load_snapshot_in_bounds the snapshot loop needs at most len(snapshot) iterations and never raises
-/
import Ipv8.C03.Lemmas

namespace Ipv8.C03
open Ipv8

/-! ## decoding -/

mutual
/-- FULL statement (first half): for every format, buffer and start offset inside the buffer, a successful decode
    reports an end position inside the buffer. -/
theorem decode_in_bounds (f : Fmt) (d : Bytes) (off : Nat) (v : Val) (e : Nat) (hoff : off ≤ d.length)
    (h : unpackAt f d off = .ok (v, e)) : e ≤ d.length := by
  cases f with
  | struct fs =>
    simp only [unpackAt] at h
    obtain ⟨b, hb, h⟩ := bind_ok h
    have := (readAt_ok hb).1
    split at h <;> (cases h; omega)
  | bits =>
    simp only [unpackAt] at h
    obtain ⟨n, hn, h⟩ := bind_ok h
    cases h
    have := (readUint_ok hn).1; omega
  | raw => simp only [unpackAt] at h; cases h; omega
  | varlen lw base =>
    simp only [unpackAt] at h
    obtain ⟨n, hn, h⟩ := bind_ok h
    try dsimp only at h
    split at h
    · cases h; assumption
    · cases h
  | utf8 lw base =>
    simp only [unpackAt] at h
    obtain ⟨n, hn, h⟩ := bind_ok h
    try dsimp only at h
    split at h
    · split at h
      · cases h; assumption
      · cases h
    · cases h
  | ipv4 =>
    simp only [unpackAt] at h
    obtain ⟨b, hb, h⟩ := bind_ok h
    cases h
    have := (readAt_ok hb).1; omega
  | address ipOnly =>
    simp only [unpackAt] at h
    exact (unpackAddressAt_bound h).1
  | listOf lw f =>
    simp only [unpackAt] at h
    obtain ⟨n, hn, h⟩ := bind_ok h
    obtain ⟨⟨vs, o⟩, hm, h⟩ := bind_ok h
    cases h
    exact manyAt_bound (unpackAt f) (fun d off v e ho hu => decode_in_bounds f d off v e ho hu) n d (off + lw) vs _
      (readUint_ok hn).1 hm
  | array lw lenBE k itemBE =>
    simp only [unpackAt] at h
    obtain ⟨n, hn, h⟩ := bind_ok h
    try dsimp only at h
    split at h
    · cases h; assumption
    · cases h
  | nested fs =>
    simp only [unpackAt] at h
    obtain ⟨n, hn, h⟩ := bind_ok h
    split at h
    · obtain ⟨⟨vs, o⟩, _, h⟩ := bind_ok h
      cases h; assumption
    · cases h
  | tuple fs =>
    simp only [unpackAt] at h
    obtain ⟨⟨vs, o⟩, hl, h⟩ := bind_ok h
    cases h
    exact decode_list_in_bounds fs d off vs _ hoff hl
  | flags w absolute =>
    simp only [unpackAt] at h
    obtain ⟨n, hn, h⟩ := bind_ok h
    cases h
    have := (readUint_ok hn).1
    split <;> omega
/-- the same for a whole format list (one Serializable): `Serializer.unpack_serializable` -/
theorem decode_list_in_bounds (fs : FmtList) (d : Bytes) (off : Nat) (vs : List Val) (e : Nat) (hoff : off ≤ d.length)
    (h : unpackListAt fs d off = .ok (vs, e)) : e ≤ d.length := by
  cases fs with
  | nil => simp only [unpackListAt] at h; cases h; exact hoff
  | cons f fs =>
    simp only [unpackListAt] at h
    obtain ⟨⟨v, o1⟩, h1, h⟩ := bind_ok h
    obtain ⟨⟨vs', o2⟩, h2, h⟩ := bind_ok h
    cases h
    exact decode_list_in_bounds fs d o1 vs' _ (decode_in_bounds f d off v o1 hoff h1) h2
end

mutual
/-- FULL statement (second half): every varlen / utf8 / listOf / array / nested / host-name part of a successfully decoded
    value has exactly the length its prefix declares, at every nesting depth (`Declared`, Lemmas.lean). -/
theorem decode_declared_lengths (f : Fmt) (d : Bytes) (off : Nat) (v : Val) (e : Nat)
    (h : unpackAt f d off = .ok (v, e)) : Declared f d off v e := by
  cases f with
  | struct fs => simp [Declared]
  | bits => simp [Declared]
  | raw => simp [Declared]
  | ipv4 => simp [Declared]
  | flags w a => simp [Declared]
  | varlen lw base =>
    simp only [unpackAt] at h
    obtain ⟨n, hn, h⟩ := bind_ok h
    try dsimp only at h
    split at h
    · rename_i hle
      cases h
      have hr := readUint_ok hn
      simp only [Declared]
      refine ⟨_, rfl, ?_, ?_, ?_⟩
      · rw [slice_length _ _ _ hle, hr.2]; omega
      · rw [slice_length _ _ _ hle]; omega
      · rfl
    · cases h
  | utf8 lw base =>
    simp only [unpackAt] at h
    obtain ⟨n, hn, h⟩ := bind_ok h
    try dsimp only at h
    split at h
    · rename_i hle
      split at h
      · cases h
        have hr := readUint_ok hn
        simp only [Declared]
        refine ⟨_, rfl, ?_, ?_, ?_⟩
        · rw [slice_length _ _ _ hle, hr.2]; omega
        · rw [slice_length _ _ _ hle]; omega
        · rfl
      · cases h
    · cases h
  | address ipOnly =>
    simp only [unpackAt] at h
    simp only [Declared]
    exact unpackAddressAt_declared h
  | listOf lw f =>
    simp only [unpackAt] at h
    obtain ⟨n, hn, h⟩ := bind_ok h
    obtain ⟨⟨vs, o⟩, hm, h⟩ := bind_ok h
    cases h
    have := manyAt_declared (unpackAt f) (Declared f) (fun d off v e hu => decode_declared_lengths f d off v e hu)
      n d (off + lw) vs _ hm
    simp only [Declared]
    exact ⟨vs, rfl, by rw [this.1, (readUint_ok hn).2], this.2⟩
  | array lw lenBE k itemBE =>
    simp only [unpackAt] at h
    obtain ⟨n, hn, h⟩ := bind_ok h
    try dsimp only at h
    split at h
    · cases h
      simp only [Declared]
      exact ⟨_, rfl, by rw [decodeElems_length]; exact hn, by rw [decodeElems_length]⟩
    · cases h
  | nested fs =>
    simp only [unpackAt] at h
    obtain ⟨n, hn, h⟩ := bind_ok h
    split at h
    · rename_i hle
      obtain ⟨⟨vs, o⟩, hl, h⟩ := bind_ok h
      cases h
      have hr := readUint_ok hn
      simp only [Declared]
      refine ⟨vs, o, rfl, by rw [hr.2], ?_, ?_⟩
      · exact decode_list_declared_lengths fs _ 0 vs o hl
      · exact decode_list_in_bounds fs _ 0 vs o (Nat.zero_le _) hl
    · cases h
  | tuple fs =>
    simp only [unpackAt] at h
    obtain ⟨⟨vs, o⟩, hl, h⟩ := bind_ok h
    cases h
    simp only [Declared]
    exact ⟨vs, rfl, decode_list_declared_lengths fs d off vs _ hl⟩
theorem decode_list_declared_lengths (fs : FmtList) (d : Bytes) (off : Nat) (vs : List Val) (e : Nat)
    (h : unpackListAt fs d off = .ok (vs, e)) : DeclaredList fs d off vs e := by
  cases fs with
  | nil => simp only [unpackListAt] at h; cases h; simp [DeclaredList]
  | cons f fs =>
    simp only [unpackListAt] at h
    obtain ⟨⟨v, o1⟩, h1, h⟩ := bind_ok h
    obtain ⟨⟨vs', o2⟩, h2, h⟩ := bind_ok h
    cases h
    simp only [DeclaredList]
    exact ⟨v, vs', o1, rfl, decode_declared_lengths f d off v o1 h1, decode_list_declared_lengths fs d o1 vs' _ h2⟩
end

/-- a truncated message is never silently accepted: if the first `k` bytes alone decode successfully, the reported end
    lies within those `k` bytes (so a buffer cut before the end of a field can only be rejected) -/
theorem truncated_never_accepted (fs : FmtList) (d : Bytes) (k off : Nat) (vs : List Val) (e : Nat)
    (hoff : off ≤ (d.take k).length) (h : unpackListAt fs (d.take k) off = .ok (vs, e)) : e ≤ k := by
  have := decode_list_in_bounds fs (d.take k) off vs e hoff h
  simp at this; omega

/-- `unpack_serializable_list(..., consume_all=True)`: success means every byte from the start offset on was consumed
    (the returned remainder is empty) and the last end offset is the buffer length or beyond the start. -/
theorem unpack_list_consume_all (fss : List FmtList) (d : Bytes) (off : Nat) (vss : List (List Val)) (rem : Bytes)
    (h : unpackPayloadsAt fss d off true = .ok (vss, rem)) : rem = [] := by
  induction fss generalizing off vss with
  | nil =>
    simp only [unpackPayloadsAt] at h
    split at h
    · cases h; rfl
    · cases h
  | cons fs rest ih =>
    simp only [unpackPayloadsAt] at h
    obtain ⟨⟨vs, o⟩, _, h⟩ := bind_ok h
    obtain ⟨⟨more, rem'⟩, h2, h⟩ := bind_ok h
    cases h
    exact ih o more h2

/-- … and, spelled out for one payload: with consume_all the reported end IS the end of the buffer -/
theorem consume_all_ends_at_buffer_end (fs : FmtList) (d : Bytes) (off : Nat) (vs : List Val) (rem : Bytes)
    (hoff : off ≤ d.length) (h : unpackPayloadsAt [fs] d off true = .ok ([vs], rem)) :
    ∃ e, unpackListAt fs d off = .ok (vs, e) ∧ e = d.length := by
  simp only [unpackPayloadsAt] at h
  obtain ⟨⟨vs', o⟩, h1, h⟩ := bind_ok h
  obtain ⟨⟨more, rem'⟩, h2, h⟩ := bind_ok h
  split at h2
  · rename_i hemp
    cases h2; cases h
    have hb := decode_list_in_bounds fs d off vs' o hoff h1
    refine ⟨o, h1, ?_⟩
    have : d.length ≤ o := by simpa using hemp
    omega
  · cases h2

/-! non-vacuity: concrete decodes that succeed, fail on truncation and fail on an inflated length -/
example : endOf (unpackListAt (fl [.varlen 2 1, .struct [.uint 1]]) [0, 3, 97, 98, 99, 7] 0) = some 6 := by decide
example : errOf (unpackListAt (fl [.varlen 2 1]) [0, 10, 97, 98, 99] 0) = some .pack := by decide
example : errOf (unpackAt (.nested (fl [.struct [.uint 1]])) [0, 5, 1] 0) = some .pack := by decide
example : errOf (unpackPayloadsAt [fl [.struct [.uint 1]]] [1, 2] 0 true) = some .extra := by decide
example : endOf (unpackAt (.listOf 1 (.nested (fl [.varlen 1 2]))) [1, 0, 3, 1, 9, 9] 0) = some 6 := by decide
example : endOf (unpackAt (.array 2 true .q true) [0, 1, 0, 0, 0, 0, 0, 0, 0, 5] 0) = some 10 := by decide
example : errOf (unpackAt (.array 2 true .q true) [0, 2, 0, 0, 0, 0, 0, 0, 0, 5] 0) = some .pack := by decide

/-! ## receive path -/

/-- NEW (sender history): `Network.get_verified_by_address` returns normally for every Network state — whatever peers
    were verified, removed, re-addressed, whatever is (still) in the reverse address cache — and every address. -/
theorem sender_lookup_total (s : NetS) (a : Bytes) : ∃ p, (s.lookup a).1 = .ok p := by
  unfold NetS.lookup
  dsimp only
  split
  · rename_i e hv
    split at hv
    · cases hv
    · split at hv
      · cases hv
      · simp [Gen.lookupDictSafe] at hv
  · exact ⟨_, rfl⟩
  · split
    · exact ⟨_, rfl⟩
    · exact ⟨_, rfl⟩

/-- Community.on_packet returns normally for every datagram, whatever the handler bodies do (given that the sender
    lookup returned normally, which `sender_lookup_total` shows for every Network state) -/
theorem community_on_packet_total (env : Env) (lk : Except Exn (Option Nat)) (hlk : ∃ p, lk = .ok p) (lid : Nat)
    (o : Overlay) (data : Bytes) : (communityOnPacket env lk lid o data).2 = none := by
  obtain ⟨p, rfl⟩ := hlk
  unfold communityOnPacket
  apply andThen_none rfl
  apply andThen_none rfl
  split
  · rfl
  · rename_i hg
    split
    · rename_i hnone
      simp [Gen.pubMinLen, Gen.pubIdx] at hg hnone
      have h2 : ¬ (data.length < 23) := of_decide_eq_false hg.2
      omega
    · split
      · simp [Gen.pubCatchAll, catchAll]
      · rfl

/-- PythonCryptoEndpoint.on_packet returns normally for every datagram, every circuit table, every decryption outcome
    (including exceptions out of the crypto layer) and whatever relaying or handlers do -/
theorem crypto_on_packet_total (env : Env) (dec : Nat → Bytes → Dec) (lk : Except Exn (Option Nat))
    (hlk : ∃ p, lk = .ok p) (lid : Nat) (c : Crypto) (data : Bytes) :
    (cryptoOnPacket env dec lk lid c data).2 = none := by
  have tb : ∀ x, (tunnelBranch env lk c x).2 = none := by
    intro x
    unfold tunnelBranch
    split
    · rfl
    · exact community_on_packet_total _ _ hlk ..
  unfold cryptoOnPacket
  apply andThen_none rfl
  split
  · split
    · rename_i e he
      unfold cryptoIsCell at he
      split at he
      · cases he
      · simp [Gen.cryptoIdxSafe] at he
    · simp [Gen.cryptoCatchAll, catchAll]
    · exact tb data
  · exact tb data

theorem listener_on_packet_total (env : Env) (dec : Nat → Bytes → Dec) (lk : Except Exn (Option Nat))
    (hlk : ∃ p, lk = .ok p) (t : List (Nat × Listener)) (l : Nat) (data : Bytes) :
    (listenerOnPacket env dec lk t l data).2 = none := by
  unfold listenerOnPacket
  split
  · exact community_on_packet_total _ _ hlk ..
  · exact crypto_on_packet_total _ _ _ hlk ..
  · rfl
  · rfl

theorem step_out_total (env : Env) (dec : Nat → Bytes → Dec) (src data : Bytes) (s : DS) (l : Nat) :
    (stepOut env dec src data s l).2 = none := by
  unfold stepOut
  split
  · exact listener_on_packet_total _ _ _ (sender_lookup_total ..) ..
  · rfl

theorem dispatch_total (env : Env) (dec : Nat → Bytes → Dec) (src data : Bytes) (key : Option Bytes) (fuel : Nat)
    (s : DS) : (dispatch env dec src data key fuel s).1.2 = none := by
  induction fuel generalizing s with
  | zero => rfl
  | succ n ih =>
    unfold dispatch
    split
    · rfl
    · split
      · rename_i e he
        rw [step_out_total] at he; cases he
      · exact ih _

/-- FULL statement: for every registry state (any history of add / add_prefix / remove / open / close), every Network
    state and sender address, every datagram (any length, any content), every behaviour of handler bodies and relaying
    (`env`: may raise anything AND may call add_listener / add_prefix_listener / remove_listener / close on the endpoint
    while the datagram is being dispatched) and every decryption outcome (`dec`), `notify_listeners` returns normally:
    no exception reaches the transport. -/
theorem receive_total (env : Env) (dec : Nat → Bytes → Dec) (fuel : Nat) (r : Registry) (net : NetS) (src data : Bytes) :
    (notify env dec fuel r net src data).1.2 = none :=
  dispatch_total ..

theorem listener_called (env : Env) (dec : Nat → Bytes → Dec) (lk : Except Exn (Option Nat)) (t : List (Nat × Listener))
    (l : Nat) (data : Bytes) (h : (lookupListener t l).isSome) :
    Ev.called l ∈ (listenerOnPacket env dec lk t l data).1 := by
  unfold listenerOnPacket
  split
  · unfold communityOnPacket; rw [andThen_events_of_none rfl]; simp
  · unfold cryptoOnPacket; rw [andThen_events_of_none rfl]; simp
  · simp
  · rename_i hn; rw [hn] at h; cases h

/-- a listener's registry calls are "harmless for `l`" if they never remove `l` and never close the endpoint -/
def Harmless (env : Env) (l : Nat) : Prop :=
  ∀ x d op, op ∈ env.effects x d → op ≠ .rm l ∧ ∀ b, op ≠ .setOpen b

theorem dispatch_called (env : Env) (dec : Nat → Bytes → Dec) (src data : Bytes) (key : Option Bytes) (l : Nat)
    (hgood : Harmless env l) :
    ∀ (fuel : Nat) (s : DS) (pre post : List Nat), s.pending = pre ++ l :: post → pre.length < fuel →
      s.reg.isOpen = true → Reg.Inv s.reg (data.take Gen.prefixLen) l → (lookupListener s.reg.table l).isSome →
      Ev.called l ∈ (dispatch env dec src data key fuel s).1.1 := by
  intro fuel
  induction fuel with
  | zero => intro s pre post _ hlt; omega
  | succ n ih =>
    intro s pre post hp hlt hopen hinv hreg
    unfold dispatch
    cases pre with
    | nil =>
      simp only [List.nil_append] at hp
      rw [hp]
      have hd : deliverCond s.reg l data = true := deliverCond_of_inv hopen hinv
      have hc : Ev.called l ∈ (stepOut env dec src data s l).1 := by
        unfold stepOut; rw [if_pos hd]; exact listener_called _ _ _ _ _ _ hreg
      simp only
      split
      · exact hc
      · exact List.mem_append_left _ hc
    | cons x pre' =>
      simp only [List.cons_append] at hp
      rw [hp]
      simp only
      split
      · rename_i e he
        rw [step_out_total] at he; cases he
      · apply List.mem_append_right
        have hfold := foldl_applyOp_inv key (data.take Gen.prefixLen) l
          (if deliverCond s.reg x data then env.effects x data else [])
          (by intro op hop
              split at hop
              · exact hgood x data op hop
              · cases hop)
          { s with net := if hasSender (stepOut env dec src data s x).1 then (s.net.lookup src).2 else s.net,
                   pending := pre' ++ l :: post } hopen hinv
        obtain ⟨htab, hopen', hinv', extra, hpend⟩ := hfold
        apply ih _ pre' (post ++ extra)
        · unfold stepState; rw [hpend]; simp
        · simp at hlt; omega
        · unfold stepState; exact hopen'
        · unfold stepState; exact hinv'
        · unfold stepState; rw [htab]; exact hreg

/-- FULL statement ("other overlays still get the datagram"): on an open endpoint every listener that notify_listeners
    starts to iterate over — the listeners registered for the datagram's 22-byte prefix, or all global listeners when no
    such prefix is registered — has its on_packet invoked, no matter what the listeners before it did with the datagram:
    rejected it, raised inside a handler, detached THEMSELVES or OTHER listeners from the endpoint, registered new
    listeners or prefixes while the datagram was being dispatched.  (Only removing `l` itself or closing the endpoint
    mid-dispatch can keep `l` from being called: that is what `_deliver_later` is for.) -/
theorem receive_all_recipients_called (env : Env) (dec : Nat → Bytes → Dec) (r : Registry) (net : NetS)
    (src data : Bytes) (l : Nat) (hl : l ∈ recipients r data) (hopen : r.isOpen = true)
    (hreg : (lookupListener r.table l).isSome) (hgood : Harmless env l) (fuel : Nat)
    (hfuel : (recipients r data).length ≤ fuel) :
    Ev.called l ∈ (notify env dec fuel r net src data).1.1 := by
  obtain ⟨pre, post, hsplit⟩ := List.append_of_mem hl
  unfold notify
  apply dispatch_called env dec src data _ l hgood fuel (initDS r net data) pre post
  · simp [initDS, hsplit]
  · have : (recipients r data).length = pre.length + (post.length + 1) := by rw [hsplit]; simp
    omega
  · exact hopen
  · exact inv_of_recipient hl
  · exact hreg

/-! ### prefix gate -/

/-- the handler events an overlay with prefix `p` can produce -/
def Ev.handlerOf (p : Bytes) : Ev → Prop
  | .called _ => False
  | .sender _ _ => False
  | .pub _ q _ => q = p
  | .priv _ q _ _ _ => q = p

def Ev.isHandler : Ev → Prop
  | .called _ => False
  | .sender _ _ => False
  | _ => True

theorem from_circuit_events (env : Env) (lid : Nat) (o : Overlay) (x : Bytes) (cid : Nat) (ev : Ev)
    (h : ev ∈ (onPacketFromCircuit env lid o x cid).1) : ev.handlerOf o.pfx := by
  unfold onPacketFromCircuit at h
  split at h
  · cases h
  · split at h
    · cases h
    · split at h
      · rw [catchAll_events] at h
        simp [handlerCall] at h
        subst h; simp [Ev.handlerOf]
      · cases h

theorem on_cell_events (env : Env) (lid : Nat) (o : Overlay) (x : Bytes) (ev : Ev)
    (h : ev ∈ (onCell env lid o x).1) : ev.handlerOf o.pfx := by
  unfold onCell at h
  split at h
  · cases h
  · split at h
    · split at h
      · cases h
      · split at h
        · exact from_circuit_events _ _ _ _ _ _ h
        · cases h
    · exact from_circuit_events _ _ _ _ _ _ h

/-- Community.on_packet: a handler event implies that the datagram starts with the overlay's prefix -/
theorem community_events (env : Env) (lk : Except Exn (Option Nat)) (lid : Nat) (o : Overlay) (data : Bytes) (ev : Ev)
    (h : ev ∈ (communityOnPacket env lk lid o data).1) :
    ¬ ev.isHandler ∨ (o.pfx = data.take Gen.pubTake ∧ ev.handlerOf o.pfx) := by
  unfold communityOnPacket at h
  rcases andThen_mem h with h | h
  · left; simp at h; subst h; simp [Ev.isHandler]
  · rcases andThen_mem h with h | h
    · left
      split at h <;> (simp at h; subst h; simp [Ev.isHandler])
    · right
      split at h
      · cases h
      · rename_i hg
        have hp : o.pfx = data.take Gen.pubTake := by
          simp at hg
          exact hg.1
        refine ⟨hp, ?_⟩
        split at h
        · cases h
        · split at h
          · rw [catchAll_events] at h
            split at h
            · rcases andThen_mem h with h | h
              · simp at h; subst h; simp [Ev.handlerOf]
              · exact on_cell_events _ _ _ _ _ h
            · simp [handlerCall] at h; subst h; simp [Ev.handlerOf]
          · cases h

theorem take_of_prefix (p data : Bytes) (n : Nat) (hp : p.isPrefixOf data = true) (hn : n ≤ p.length) :
    data.take n = p.take n := by
  have : p <+: data := List.isPrefixOf_iff_prefix.mp hp
  obtain ⟨t, rfl⟩ := this
  rw [List.take_append_of_le_length hn]

/-- PythonCryptoEndpoint.on_packet: a handler of the tunnel overlay is entered (directly or through a cell, after
    decryption and re-serialisation) only if the ORIGINAL datagram starts with that overlay's prefix -/
theorem crypto_events (env : Env) (dec : Nat → Bytes → Dec) (lk : Except Exn (Option Nat)) (lid : Nat) (c : Crypto)
    (data : Bytes) (ev : Ev)
    (hlen : Gen.pubTake ≤ c.pfx.length) (h : ev ∈ (cryptoOnPacket env dec lk lid c data).1) (hh : ev.isHandler) :
    ∃ tl o, c.tunnel = some (tl, o) ∧ o.pfx = data.take Gen.pubTake ∧ ev.handlerOf o.pfx := by
  have tb : ∀ x, ev ∈ (tunnelBranch env lk c x).1 →
      ∃ tl o, c.tunnel = some (tl, o) ∧ o.pfx = x.take Gen.pubTake ∧ ev.handlerOf o.pfx := by
    intro x hx
    unfold tunnelBranch at hx
    split at hx
    · cases hx
    · rename_i tl o ht
      rcases community_events _ _ _ _ _ _ hx with hn | ⟨hp, hev⟩
      · exact absurd hh hn
      · exact ⟨tl, o, ht, hp, hev⟩
  unfold cryptoOnPacket at h
  rcases andThen_mem h with h | h
  · simp at h; subst h; cases hh
  · split at h
    · rename_i hpre
      split at h
      · cases h
      · rw [catchAll_events] at h
        unfold processCell at h
        split at h
        · cases h
        · rename_i cell _
          split at h
          · cases h
          · dsimp only at h
            split at h
            · cases h
            · split at h
              · cases h
              · cases h
              · split at h
                · cases h
                · split at h
                  · cases h
                  · split at h
                    · cases h
                    · obtain ⟨tl, o, ht, hp, hev⟩ := tb _ h
                      refine ⟨tl, o, ht, ?_, hev⟩
                      rw [hp, take_of_prefix c.pfx data _ hpre hlen]
                      unfold cellToBin
                      rw [List.append_assoc, List.take_append_of_le_length hlen]
      · exact tb data h
    · exact tb data h

/-- WF: the prefix a crypto endpoint filters on has at least the 22 bytes the overlays compare
    (setup_tunnels copies the tunnel community's own 22-byte prefix); a property of the listener table only, which
    registry calls never change -/
def TableWF (t : List (Nat × Listener)) : Prop :=
  ∀ l c, lookupListener t l = some (.crypto c) → Gen.pubTake ≤ c.pfx.length

theorem listener_events (env : Env) (dec : Nat → Bytes → Dec) (lk : Except Exn (Option Nat)) (t : List (Nat × Listener))
    (hwf : TableWF t) (l : Nat) (data : Bytes) (ev : Ev) (h : ev ∈ (listenerOnPacket env dec lk t l data).1)
    (hh : ev.isHandler) : ev.handlerOf (data.take Gen.pubTake) := by
  unfold listenerOnPacket at h
  split at h
  · rcases community_events _ _ _ _ _ _ h with hn | ⟨hp, hev⟩
    · exact absurd hh hn
    · rw [← hp]; exact hev
  · rename_i c hc
    obtain ⟨_, o, _, hp, hev⟩ := crypto_events _ _ _ _ _ _ _ (hwf l c hc) h hh
    rw [← hp]; exact hev
  · simp at h; subst h; cases hh
  · cases h

theorem dispatch_mem (env : Env) (dec : Nat → Bytes → Dec) (src data : Bytes) (key : Option Bytes) (ev : Ev) :
    ∀ (fuel : Nat) (s : DS), ev ∈ (dispatch env dec src data key fuel s).1.1 →
      ∃ l lk, ev ∈ (listenerOnPacket env dec lk s.reg.table l data).1 := by
  intro fuel
  induction fuel with
  | zero => intro s h; cases h
  | succ n ih =>
    intro s h
    unfold dispatch at h
    split at h
    · cases h
    · rename_i l rest _
      have hso : ∀ e, e ∈ (stepOut env dec src data s l).1 → ∃ l lk, e ∈ (listenerOnPacket env dec lk s.reg.table l data).1 := by
        intro e he
        unfold stepOut at he
        split at he
        · exact ⟨_, _, he⟩
        · cases he
      split at h
      · exact hso _ h
      · rcases List.mem_append.mp h with h | h
        · exact hso _ h
        · obtain ⟨l', lk', h'⟩ := ih _ h
          rw [stepState_table] at h'
          exact ⟨l', lk', h'⟩

/-- FULL statement: whatever the registry, the Network, the datagram, the handler bodies (raising, re-entrant) and the
    decryption results, a message handler — public (`decode_map`) or circuit-only (`decode_map_private`, reached
    through a cell) — of an overlay with prefix `p` is entered only if the first 22 bytes of the datagram handed to
    notify_listeners are `p`. -/
theorem prefix_gate (env : Env) (dec : Nat → Bytes → Dec) (fuel : Nat) (r : Registry) (hwf : TableWF r.table) (net : NetS)
    (src data : Bytes) (ev : Ev) (h : ev ∈ (notify env dec fuel r net src data).1.1) (hh : ev.isHandler) :
    ev.handlerOf (data.take Gen.pubTake) := by
  obtain ⟨l, lk, hl⟩ := dispatch_mem _ _ _ _ _ _ _ _ h
  exact listener_events _ _ _ _ hwf _ _ _ hl hh

/-- the generated tables satisfy the side conditions: every shipped overlay has a prefix of exactly the length the
    endpoint demultiplexes on and the overlays compare -/
theorem shipped_overlays_prefix_length :
    Gen.overlays.all (fun o => o.2.1.length == Gen.prefixLen && Gen.prefixLen == Gen.pubTake
      && Gen.pubTake == Gen.privTake) = true := by decide

/-! ### snapshot loader -/

/-- each entry the loader accepts lies inside the snapshot and strictly advances the offset -/
theorem load_snapshot_progress (snap : Bytes) (off : Nat) (a : Val) (e : Nat)
    (h : unpackAddressAt false snap off = .ok (a, e)) : off < e ∧ e ≤ snap.length :=
  ⟨(unpackAddressAt_bound h).2, (unpackAddressAt_bound h).1⟩

/-- FULL statement (termination): `len(snapshot) - offset` loop iterations always suffice — more fuel never changes the
    result, so the `while offset < snaplen` loop terminates for every byte string; errors end the loop (the model's
    `.error _ => []` is the `except Exception: … break`), so nothing is raised. -/
theorem load_snapshot_total (snap : Bytes) (fuel off : Nat) (h : snap.length - off ≤ fuel) :
    loadSnapshotLoop snap (fuel + 1) off = loadSnapshotLoop snap fuel off := by
  induction fuel generalizing off with
  | zero =>
    have : ¬ off < snap.length := by omega
    simp [loadSnapshotLoop, this]
  | succ n ih =>
    rw [loadSnapshotLoop.eq_def snap (n + 1 + 1) off, loadSnapshotLoop.eq_def snap (n + 1) off]
    simp only
    split
    · split
      · rename_i a e he
        have := unpackAddressAt_bound he
        rw [ih e (by omega)]
      · rfl
    · rfl

/-! non-vacuity of the receive theorems: a registry with a tunnel overlay behind a crypto endpoint; a plaintext CREATE
    cell reaches the circuit-only handler; a one-shot listener that detaches itself does not make the next one miss the
    datagram; a stale cache entry (peer removed after it was cached) is just dropped -/
def exPfx : Bytes := List.replicate 22 7
def exTunnel : Overlay := { pfx := exPfx, pub := [0, 8], priv := [2, 3], tunnel := true }
def exReg : Registry :=
  { listeners := [], prefixMap := [(exPfx, [10])], isOpen := true,
    table := [(10, .crypto { pfx := exPfx, tunnel := some (1, exTunnel), relays := [], circuits := [], exits := [],
                             maxRelayEarly := 8 })] }
def exEnv : Env := { pubRaises := fun _ _ _ => true, privRaises := fun _ _ _ _ => true, relayRaises := fun _ _ => true }
def evCode : Ev → Nat
  | .called l => l
  | .sender _ _ => 50
  | .pub _ _ m => 100 + m
  | .priv _ _ m _ _ => 200 + m

example : TableWF exReg.table := by
  intro l c h
  simp [exReg, lookupListener] at h
  obtain ⟨_, rfl⟩ := h
  decide
example : ((notify exEnv (fun _ _ => .fail) 9 exReg {} [1] (exPfx ++ [0, 0, 0, 0, 9, 1, 1, 2, 5, 5])).1.1.map evCode)
    = [10, 1, 50, 100, 202] := by decide
example : (notify exEnv (fun _ _ => .fail) 9 exReg {} [1] (exPfx ++ [0, 0, 0])).1.2 = none := by decide
example : ((notify exEnv (fun _ _ => .raise) 9 exReg {} [1] exPfx).1.1.map evCode) = [10, 1, 50] := by decide
/-- two global listeners, the first removes itself while handling the datagram: the second is still called -/
def exOneShot : Env := { exEnv with effects := fun l _ => if l == 1 then [.rm 1] else [] }
def exReg2 : Registry := { listeners := [1, 2], table := [(1, .inert), (2, .inert)] }
example : ((notify exOneShot (fun _ _ => .fail) 9 exReg2 {} [1] [9, 9]).1.1.map evCode) = [1, 2] := by decide
example : (notify exOneShot (fun _ _ => .fail) 9 exReg2 {} [1] [9, 9]).2.reg.listeners = [2] := by decide
/-- verified peer cached at address [1], then removed: the next lookup from [1] returns none and drops the entry -/
def exNet : NetS := (((({} : NetS).newObj 7 70 [1]).addVerified 7).lookup [1]).2.removePeer 7
example : (exNet.cache.length, (exNet.lookup [1]).2.cache.length) = (1, 0) := by decide

end Ipv8.C03
