/-
  C11 — executable model (core Lean only).

  Three components, mirroring the code that exists:

  * `Reg` / `World`  — the listener registry of `ipv8/messaging/interfaces/endpoint.py` (`add_listener`,
    `add_prefix_listener`, `remove_listener`, `notify_listeners`/`_deliver_later`), proxy listeners that forward to an
    overlay (`PythonCryptoEndpoint.tunnel_community`) and the forwarding wrapper `TunnelEndpoint`.
  * `TM`             — `ipv8/taskmanager.py` on top of asyncio's cancellation rules, at the granularity of
    "loop passes": a cancellation requested now is delivered in a later pass; done-callbacks run after completion.
  * `UOp` / `UState` — the statement sequence of an overlay's `unload` chain (generated from the source by
    tools/gen_c11.py into `GenOverlays.lean`) interpreted over an abstract overlay state.
-/
namespace Ipv8.C11

/-! ## 1. Listener registry -/

abbrev Lid := Nat
abbrev Pfx := Nat

structure Reg where
  listeners : List Lid := []
  pmap : List (Pfx × List Lid) := []      -- insertion-ordered dict  prefix ↦ listeners
  isOpen : Bool := true
deriving Repr

def lookupP (m : List (Pfx × List Lid)) (p : Pfx) : Option (List Lid) :=
  match m with
  | [] => none
  | (q, ls) :: rest => if q = p then some ls else lookupP rest p

/-- python `d[p] = v`: keeps the position of an existing key, appends a new one -/
def upsertP (m : List (Pfx × List Lid)) (p : Pfx) (v : List Lid) : List (Pfx × List Lid) :=
  match m with
  | [] => [(p, v)]
  | (q, ls) :: rest => if q = p then (p, v) :: rest else (q, ls) :: upsertP rest p v

def sameSet (a b : List Lid) : Bool := a.all (fun x => b.contains x) && b.all (fun x => a.contains x)

def Reg.addListener (r : Reg) (l : Lid) : Reg :=
  { r with listeners := r.listeners ++ [l], pmap := r.pmap.map (fun e => (e.1, e.2 ++ [l])) }

/-- `self._prefix_map[prefix] = [*self._prefix_map.get(prefix, []), listener, *self._listeners]` -/
def Reg.addPrefixListener (r : Reg) (l : Lid) (p : Pfx) : Reg :=
  { r with pmap := upsertP r.pmap p ((lookupP r.pmap p).getD [] ++ [l] ++ r.listeners) }

/-- filter the listener out everywhere; drop prefixes whose list has become set-equal to the generic listeners -/
def Reg.removeListener (r : Reg) (l : Lid) : Reg :=
  let ls := r.listeners.filter (fun x => x != l)
  { r with listeners := ls,
           pmap := (r.pmap.map (fun e => (e.1, e.2.filter (fun x => x != l)))).filter (fun e => !(sameSet e.2 ls)) }

/-- `notify_listeners` + `_deliver_later`: who gets `on_packet` for a datagram with prefix `p` -/
def Reg.recipients (r : Reg) (p : Pfx) : List Lid :=
  if r.isOpen then (lookupP r.pmap p).getD r.listeners else []

def lookupF (f : List (Lid × Lid)) (l : Lid) : Option Lid :=
  match f with
  | [] => none
  | (a, b) :: rest => if a = l then some b else lookupF rest l

/-- registry of the real endpoint, the (unused) own lists of a wrapping TunnelEndpoint, and proxy forwarding -/
structure World where
  inner : Reg := {}
  outer : Reg := {}                       -- TunnelEndpoint's own `_listeners` / `_prefix_map` (never notified)
  fwd : List (Lid × Lid) := []            -- proxy ↦ overlay it hands packets to (`tunnel_community`)
  fwdAdd : Bool := true                   -- TunnelEndpoint forwards add_listener / add_prefix_listener
  fwdRemove : Bool := true                -- TunnelEndpoint forwards remove_listener
  tunnelRef : Option Lid := none          -- `TunnelEndpoint.tunnel_community`: who carries the anonymised sends of others
  anon : List Lid := []                   -- listeners with `anonymize = True`
deriving Repr

inductive ROp
  | add (viaOuter : Bool) (l : Lid)
  | addPrefix (viaOuter : Bool) (l : Lid) (p : Pfx)
  | remove (viaOuter : Bool) (l : Lid)
  | setFwd (proxy target : Lid)
  | clearFwd (proxy : Lid)
  | setOpen (b : Bool)
  | setRef (r : Option Lid)               -- `TunnelEndpoint.set_tunnel_community`
  | setAnon (l : Lid) (b : Bool)
deriving Repr, DecidableEq

def World.step (w : World) : ROp → World
  | .add false l => { w with inner := w.inner.addListener l }
  | .add true l => if w.fwdAdd then { w with inner := w.inner.addListener l } else { w with outer := w.outer.addListener l }
  | .addPrefix false l p => { w with inner := w.inner.addPrefixListener l p }
  | .addPrefix true l p =>
      if w.fwdAdd then { w with inner := w.inner.addPrefixListener l p } else { w with outer := w.outer.addPrefixListener l p }
  | .remove false l => { w with inner := w.inner.removeListener l }
  | .remove true l =>
      if w.fwdRemove then { w with inner := w.inner.removeListener l } else { w with outer := w.outer.removeListener l }
  | .setFwd a b => { w with fwd := (a, b) :: w.fwd.filter (fun e => e.1 != a) }
  | .clearFwd a => { w with fwd := w.fwd.filter (fun e => e.1 != a) }
  | .setOpen b => { w with inner := { w.inner with isOpen := b } }
  | .setRef r => { w with tunnelRef := r }
  | .setAnon l b => { w with anon := if b then l :: w.anon.filter (fun x => x != l) else w.anon.filter (fun x => x != l) }

def World.run (w : World) (ops : List ROp) : World := ops.foldl World.step w

/-- everybody whose `on_packet` can run for a datagram of prefix `p`: direct recipients and the overlays their proxies
    hand the packet to -/
def World.reach (w : World) (p : Pfx) : List Lid :=
  let ds := w.inner.recipients p
  ds ++ ds.filterMap (fun l => lookupF w.fwd l)

/-- first occurrences only (delivery is once per listener object) -/
def dedup : List Lid → List Lid
  | [] => []
  | x :: xs => x :: (dedup xs).filter (fun y => y != x)

/-- `TunnelEndpoint.notify_listeners(packet, from_tunnel)` (after commit 36004a4): selects the listeners like the wrapped
    endpoint does (prefix map, else the generic listeners), skips those whose `anonymize` flag differs from `from_tunnel`,
    delivers once per listener -/
def World.reachTunnel (w : World) (p : Pfx) (fromTunnel : Bool) : List Lid :=
  let ds := dedup ((w.inner.recipients p).filter (fun l => w.anon.contains l == fromTunnel))
  ds ++ ds.filterMap (fun l => lookupF w.fwd l)

/-- everybody who can be made to run: by a datagram of prefix `p` from the socket, by a datagram delivered from a tunnel,
    or by another overlay's anonymised send (`TunnelEndpoint.send` calls into `tunnel_community`) -/
def World.touched (w : World) (p : Pfx) : List Lid :=
  w.reach p ++ w.reachTunnel p true ++ w.reachTunnel p false ++ w.tunnelRef.toList

/-! ## 2. Task manager -/

inductive TKind
  | imm        -- (coroutine) function without delay: body runs in the next pass and returns
  | long       -- coroutine that waits until it is cancelled (and then needs `stub` seconds to finish)
  | delayed    -- `delay=d`
  | interval   -- `interval=i` (first run after `delay`, default `i`)
  | fut        -- a Future handed in by the caller; completes only by cancellation
deriving Repr, DecidableEq

structure Spec where
  kind : TKind
  delay : Nat := 0
  ivl : Nat := 1
  stub : Nat := 0
deriving Repr, DecidableEq

structure Task where
  id : Nat
  name : Nat
  kind : TKind
  due : Nat
  ivl : Nat
  stub : Nat
  started : Bool := false
  cancelReq : Bool := false
  dying : Option Nat := none
  done : Bool := false
deriving Repr

inductive Ev
  | run (id : Nat)                          -- a task body (or one interval round) was executed
  | fin (id : Nat)                          -- the task finished (normally or cancelled)
  | start (id : Nat) (after : Option Nat)   -- task created by a `replace_task` continuation that waited for `after`
deriving Repr, DecidableEq

structure Cont where
  after : Option Nat
  name : Nat
  spec : Spec
deriving Repr

structure TM where
  now : Nat := 0
  next : Nat := 0
  shutdown : Bool := false
  tasks : List Task := []
  map : List (Nat × Nat) := []             -- `_pending_tasks`: name ↦ task id
  conts : List Cont := []
  log : List Ev := []                      -- newest first
  awaiting : List Nat := []                -- tasks `shutdown_task_manager` gathers (tracked and unfinished when it was called)
deriving Repr

inductive RegResult
  | ok (id : Nat) | exists | refused
deriving Repr, DecidableEq

def lookupN (m : List (Nat × Nat)) (n : Nat) : Option Nat :=
  match m with
  | [] => none
  | (a, b) :: rest => if a = n then some b else lookupN rest n

def taskDone (ts : List Task) (id : Nat) : Bool :=
  match ts with
  | [] => true
  | t :: rest => if t.id = id then t.done else taskDone rest id

/-- `is_pending_task_active` -/
def TM.isActive (tm : TM) (name : Nat) : Bool :=
  match lookupN tm.map name with
  | none => false
  | some id => !(taskDone tm.tasks id)

def mkTask (id name now : Nat) (s : Spec) : Task :=
  { id := id, name := name, kind := s.kind, due := now + s.delay, ivl := s.ivl, stub := s.stub }

/-- `register_task` -/
def TM.register (tm : TM) (name : Nat) (s : Spec) : TM × RegResult :=
  if tm.shutdown then (tm, .refused)
  else if tm.isActive name then (tm, .exists)
  else ({ tm with next := tm.next + 1,
                  tasks := tm.tasks ++ [mkTask tm.next name tm.now s],
                  map := (name, tm.next) :: tm.map.filter (fun e => e.1 != name) }, .ok tm.next)

def cancelTask (id : Nat) (t : Task) : Task :=
  if t.id = id then
    (if t.kind = .fut then { t with cancelReq := true, done := true } else { t with cancelReq := true })
  else t

def taskIsFut (ts : List Task) (id : Nat) : Bool :=
  match ts with
  | [] => false
  | t :: rest => if t.id = id then t.kind = .fut else taskIsFut rest id

/-- `cancel_pending_task`.  Result: (something was cancelled, the task whose completion a done-callback must wait for).
    A plain Future completes at once when cancelled (its callbacks are queued immediately); a Task only completes in a
    later loop pass. -/
def TM.cancel (tm : TM) (name : Nat) : TM × Bool × Option Nat :=
  match lookupN tm.map name with
  | none => (tm, false, none)
  | some id =>
    if taskDone tm.tasks id then (tm, false, none)
    else
      let tm' := { tm with tasks := tm.tasks.map (cancelTask id), map := tm.map.filter (fun e => e.1 != name),
                           log := if tm.tasks.any (fun t => t.id = id && t.kind = .fut) then Ev.fin id :: tm.log else tm.log }
      (tm', true, if taskIsFut tm.tasks id then none else some id)

/-- `replace_task`: cancel, then register from the old task's done-callback -/
def TM.replace (tm : TM) (name : Nat) (s : Spec) : TM :=
  let r := tm.cancel name
  { r.1 with conts := r.1.conts ++ [{ after := r.2.2, name := name, spec := s }] }

def inMap (m : List (Nat × Nat)) (id : Nat) : Bool := m.any (fun e => e.2 == id)

def cancelIfTracked (m : List (Nat × Nat)) (t : Task) : Task :=
  if inMap m t.id && !t.done then
    (if t.kind = .fut then { t with cancelReq := true, done := true } else { t with cancelReq := true })
  else t

def cancelIfTrackedEv (m : List (Nat × Nat)) (t : Task) : List Ev :=
  if inMap m t.id && !t.done && t.kind = .fut then [Ev.fin t.id] else []

/-- `shutdown_task_manager` up to its first await: set the flag, cancel everything that is tracked (a plain Future
    completes at once), remember whom to wait for -/
def TM.shutdownOp (tm : TM) : TM :=
  if tm.shutdown then tm
  else { tm with shutdown := true,
                 tasks := tm.tasks.map (cancelIfTracked tm.map),
                 awaiting := (tm.tasks.filter (fun t => inMap tm.map t.id && !t.done)).map (fun t => t.id),
                 log := (tm.tasks.flatMap (cancelIfTrackedEv tm.map)).reverse ++ tm.log,
                 map := [] }

/-- `shutdown_task_manager` called from inside the manager's own task registered under `name` (a self-unloading overlay):
    like `shutdownOp` — the calling task is tracked, so its cancellation is requested too and takes effect at its next
    suspension — but the coroutine does not wait for the task it is running in. -/
def TM.shutdownFrom (tm : TM) (name : Nat) : TM :=
  match lookupN tm.map name with
  | none => tm.shutdownOp
  | some id => { tm.shutdownOp with awaiting := tm.shutdownOp.awaiting.filter (fun x => x != id) }

/-- `await shutdown_task_manager()` has returned: the flag is set and every gathered task has finished -/
def TM.shutdownReturned (tm : TM) : Bool := tm.shutdown && tm.awaiting.all (fun id => taskDone tm.tasks id)

/-- one loop pass for one task: deliver a requested cancellation, run bodies and timers that are ready -/
def deliver (now : Nat) (t : Task) : Task :=
  if t.done then t
  else if t.cancelReq then
    if t.stub = 0 || !t.started then { t with done := true }
    else match t.dying with
      | none => { t with dying := some (now + t.stub) }
      | some d => if d ≤ now then { t with done := true } else t
  else match t.kind with
    | .imm => { t with started := true, done := true }
    | .long => { t with started := true }
    | .delayed => if t.due ≤ now then { t with started := true, done := true } else t
    | .interval => if t.due ≤ now then { t with started := true, due := now + t.ivl } else t
    | .fut => t

def deliverEv (now : Nat) (t : Task) : List Ev :=
  if t.done then []
  else if t.cancelReq then (if (deliver now t).done then [.fin t.id] else [])
  else match t.kind with
    | .imm => [.run t.id, .fin t.id]
    | .long => if t.started then [] else [.run t.id]
    | .delayed => if t.due ≤ now then [.run t.id, .fin t.id] else []
    | .interval => if t.due ≤ now then [.run t.id] else []
    | .fut => []

/-- a `replace_task` continuation whose old task has finished registers the new task -/
def TM.fireCont (tm : TM) (c : Cont) : TM :=
  let r := tm.register c.name c.spec
  match r.2 with
  | .ok id => { r.1 with log := Ev.start id c.after :: r.1.log }
  | _ => r.1

def contReady (ts : List Task) (c : Cont) : Bool :=
  match c.after with
  | none => true
  | some a => taskDone ts a

/-- one loop pass: callbacks queued on already finished futures run first, then cancellations are delivered and ready
    bodies run, then the done-callbacks (untrack, continuations) of what finished in this pass -/
def TM.pass (tm : TM) : TM :=
  let tm0 := (tm.conts.filter (fun c => c.after.isNone)).foldl TM.fireCont
               { tm with conts := tm.conts.filter (fun c => c.after.isSome) }
  let ts := tm0.tasks.map (deliver tm0.now)
  let evs := tm0.tasks.flatMap (deliverEv tm0.now)
  let tm1 : TM := { tm0 with tasks := ts,
                             map := tm0.map.filter (fun e => !(taskDone ts e.2)),
                             conts := tm0.conts.filter (fun c => !(contReady ts c)),
                             log := evs.reverse ++ tm0.log }
  (tm0.conts.filter (contReady ts)).foldl TM.fireCont tm1

/-- the loop runs until nothing is ready any more (three passes suffice for one cancel → callback → new task chain) -/
def TM.settle (tm : TM) : TM := tm.pass.pass.pass

def TM.advance (tm : TM) : TM := { tm with now := tm.now + 1 }

/-- everything that is ready runs, one virtual second passes, timers that are due fire, the loop settles again -/
def TM.tick (tm : TM) : TM := tm.settle.advance.settle

inductive TOp
  | reg (name : Nat) (s : Spec)
  | cancel (name : Nat)
  | replace (name : Nat) (s : Spec)
  | shutdown
  | shutdownFrom (name : Nat)
  | pass
  | settle
  | tick
deriving Repr, DecidableEq

def TM.step (tm : TM) : TOp → TM
  | .reg n s => (tm.register n s).1
  | .cancel n => (tm.cancel n).1
  | .replace n s => tm.replace n s
  | .shutdown => tm.shutdownOp
  | .shutdownFrom n => tm.shutdownFrom n
  | .pass => tm.pass
  | .settle => tm.settle
  | .tick => tm.tick

def TM.run (tm : TM) (ops : List TOp) : TM := ops.foldl TM.step tm

def runCount (log : List Ev) : Nat := (log.filter (fun e => match e with | .run _ => true | _ => false)).length

/-! ## 3. Unload scripts -/

inductive RemKind | remCircuit | remRelay | remExit
deriving Repr, DecidableEq

inductive UOp
  | spawnRemovals (k : RemKind) (removeNow collect : Bool)   -- `for cid in list(self.<table>): self.remove_x(cid, remove_now=…)`
  | awaitRemovals                                            -- `await gather(*removals)`
  | cacheShutdown                                            -- `await self.request_cache.shutdown()`
  | removeProxy                                              -- `self.endpoint.remove_listener(<crypto endpoint>)`
  | clearFwd                                                 -- `<crypto endpoint>.tunnel_community = None`
  | unloadBootstrappers
  | removeSelf                                               -- `self.endpoint.remove_listener(self)`
  | tmShutdown                                               -- `await self.shutdown_task_manager()`
  | closeDb
  | closeExitSockets                                         -- `for s in list(self.exit_sockets.values()): await s.close()`
  | clearTable (k : RemKind)                                 -- `self.<table>.clear()`
  | clearEndpointRef                                         -- `if self.endpoint.tunnel_community is self: …set_tunnel_community(None)`
  | unloadChildren                                           -- `while self.<children>: … await <child>.unload()`
  | returnIfDown                                             -- `if self._shutdown: return` (control flow: see `UState.runG`)
deriving Repr, DecidableEq

structure ClassInfo where
  name : String
  installsProxy : Bool
  hasCache : Bool
  hasDb : Bool
  ownsChildren : Bool := false      -- some method constructs another overlay (the PexCommunity of an introduction point)
  script : List UOp
deriving Repr

/-- abstract state of one loaded overlay -/
structure UState where
  w : World
  self : Lid
  proxy : Lid
  viaOuter : Bool                 -- the overlay's endpoint is a TunnelEndpoint wrapper
  tmDown : Bool := false
  cacheDown : Bool := false
  dbClosed : Bool := false
  bootDown : Bool := false
  removals : List (RemKind × Bool) := []      -- spawned, unfinished removal tasks (kind, sleeps first)
  circuits : Nat := 0
  relays : Nat := 0
  exits : Nat := 0                -- entries of exit_sockets
  openExit : Nat := 0             -- exit sockets whose transports / task manager are still alive
  children : Nat := 0             -- overlays this overlay created and still runs (they are its resources)
  pc : Nat := 0                   -- index of the next script statement (the adversary's clock)
deriving Repr

def UState.clear (s : UState) : RemKind → UState
  | .remCircuit => { s with circuits := 0 }
  | .remRelay => { s with relays := 0 }
  | .remExit => { s with exits := 0 }

def UState.count (s : UState) : RemKind → Nat
  | .remCircuit => s.circuits
  | .remRelay => s.relays
  | .remExit => s.exits

/-- a removal task that is allowed to run to its end: the table entry goes, an exit socket is closed -/
def UState.finishRemoval (s : UState) : RemKind → UState
  | .remCircuit => { s with circuits := 0 }
  | .remRelay => { s with relays := 0 }
  | .remExit => { s with exits := 0, openExit := 0 }

/-- `sleeps k removeNow` is the generated guard of the `await sleep(remove_tunnel_delay)` in `remove_<k>` -/
def UState.core (sleeps : RemKind → Bool → Bool) (s : UState) : UOp → UState
  | .spawnRemovals k now _ =>
      if s.tmDown || s.count k = 0 then s else { s with removals := s.removals ++ [(k, sleeps k now)] }
  | .awaitRemovals => s.removals.foldl (fun acc r => acc.finishRemoval r.1) { s with removals := [] }
  | .cacheShutdown => { s with cacheDown := true }
  | .removeProxy => { s with w := s.w.step (.remove s.viaOuter s.proxy) }
  | .clearFwd => { s with w := s.w.step (.clearFwd s.proxy) }
  | .unloadBootstrappers => { s with bootDown := true }
  | .removeSelf => { s with w := s.w.step (.remove s.viaOuter s.self) }
  | .tmShutdown => { s with tmDown := true, removals := [] }      -- unfinished removal tasks are cancelled
  | .closeDb => { s with dbClosed := true }
  | .closeExitSockets => { s with openExit := 0 }
  | .clearTable k => s.clear k
  | .clearEndpointRef => if s.w.tunnelRef = some s.self then { s with w := s.w.step (.setRef none) } else s
  | .unloadChildren => { s with children := 0 }
  | .returnIfDown => s            -- falls through when the flag is not set; the early return itself is in `runG`

/-- statements that suspend `unload` while handlers / tasks of the overlay can still run (`tmShutdown` cancels everything
    before it suspends, so it is not one of them) -/
def UOp.awaits : UOp → Bool
  | .cacheShutdown => true
  | .awaitRemovals => true
  | .closeExitSockets => true
  | _ => false

/-- is `l` registered anywhere in the registry (generic or prefix listener)? -/
def Reg.lists (r : Reg) (l : Lid) : Bool := r.listeners.contains l || r.pmap.any (fun e => e.2.contains l)

/-- Can a further exit socket still be opened?  A CREATE / data cell that is DELIVERED does it (synchronous handlers, they do not
    look at the shutdown flag) — possible while the overlay or its proxy is still registered; and handlers that are already
    in flight as tasks do it — possible until the task manager has cancelled them. -/
def UState.canAcquire (s : UState) : Bool := !s.tmDown || s.w.inner.lists s.self || s.w.inner.lists s.proxy

/-- One statement of `unload`.  While the statement is suspended and sockets can still be acquired, the adversary opens
    `acq pc` further exit sockets (and lets as many child overlays be started) — after the statement's own effect. -/
def UState.step (sleeps : RemKind → Bool → Bool) (acq : Nat → Nat) (s : UState) (op : UOp) : UState :=
  let s1 := s.core sleeps op
  if op.awaits && s1.canAcquire then
    { s1 with pc := s.pc + 1, openExit := s1.openExit + acq s.pc, exits := s1.exits + acq s.pc,
              children := s1.children + acq s.pc }        -- a delivered establish-intro starts a child overlay as well
  else { s1 with pc := s.pc + 1 }

def UState.run (sleeps : RemKind → Bool → Bool) (acq : Nat → Nat) (s : UState) (script : List UOp) : UState :=
  script.foldl (UState.step sleeps acq) s

/-- The script WITH its control flow: `if self._shutdown: return` ends the unload when the task manager's flag is already
    set — which the public `shutdown_task_manager()` that every overlay inherits does, too. -/
def UState.runG (sleeps : RemKind → Bool → Bool) (acq : Nat → Nat) (s : UState) : List UOp → UState
  | [] => s
  | op :: rest => if op = .returnIfDown && s.tmDown then s else UState.runG sleeps acq (s.step sleeps acq op) rest

/-- statements after which nothing can be delivered to / run for the overlay any more, once all of them have happened -/
def UOp.isClosing : UOp → Bool
  | .tmShutdown => true
  | .removeSelf => true
  | .removeProxy => true
  | _ => false

/-- the statements after the LAST closing statement -/
def afterClosing : List UOp → List UOp
  | [] => []
  | op :: rest => if rest.any UOp.isClosing then afterClosing rest else if op.isClosing then rest else op :: rest

/-- the statements after the (first) task-manager shutdown -/
def afterTm : List UOp → List UOp
  | [] => []
  | op :: rest => if op = .tmShutdown then rest else afterTm rest

/-- what the constructor chain of a class leaves in the registry (cf. Overlay/Community/TunnelCommunity.__init__ and
    PythonCryptoEndpoint.setup_tunnels) -/
def loadOps (c : ClassInfo) (viaOuter : Bool) (self proxy : Lid) (pfx : Pfx) : List ROp :=
  [.add viaOuter self, .remove viaOuter self, .addPrefix viaOuter self pfx] ++
  (if c.installsProxy then [.remove viaOuter self, .remove viaOuter proxy, .addPrefix viaOuter proxy pfx, .setFwd proxy self] ++
      (if viaOuter then [.setRef (some self)] else []) else [])

/-! ## 4. The service: overlays and the discovery strategies the ticker drives (`ipv8_service.IPv8`) -/

structure Svc where
  overlays : List Nat := []
  strategies : List (Nat × Nat) := []      -- (strategy id, id of the overlay it drives), in registration order
deriving Repr

/-- `IPv8.add_strategy` -/
def Svc.addStrategy (s : Svc) (o sid : Nat) : Svc :=
  { overlays := if s.overlays.contains o then s.overlays else s.overlays ++ [o],
    strategies := s.strategies ++ [(sid, o)] }

/-- `IPv8.unload_overlay` up to the call of `instance.unload`: both lists are rebuilt without the instance -/
def Svc.unloadOverlay (s : Svc) (o : Nat) : Svc :=
  { overlays := s.overlays.filter (fun x => x != o), strategies := s.strategies.filter (fun e => e.2 != o) }

/-- the strategies whose `take_step` a tick (`IPv8.on_tick`) may call -/
def Svc.stepped (s : Svc) : List (Nat × Nat) := s.strategies

inductive SOp
  | add (o sid : Nat)
  | unload (o : Nat)
deriving Repr, DecidableEq

def Svc.step (s : Svc) : SOp → Svc
  | .add o sid => s.addStrategy o sid
  | .unload o => s.unloadOverlay o

def Svc.run (s : Svc) (ops : List SOp) : Svc := ops.foldl Svc.step s

end Ipv8.C11
