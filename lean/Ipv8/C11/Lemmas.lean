import Ipv8.C11.Model
/-! Helper lemmas for C11 (core Lean only). -/
namespace Ipv8.C11

/-! ### registry -/

def Absent (o : Lid) (r : Reg) : Prop := o ∉ r.listeners ∧ ∀ e ∈ r.pmap, o ∉ e.2

def NoFwdTo (o : Lid) (w : World) : Prop := ∀ e ∈ w.fwd, e.2 ≠ o

/-- nothing in the registry can hand a datagram to `o` -/
def Silent (o : Lid) (w : World) : Prop := Absent o w.inner ∧ NoFwdTo o w ∧ w.tunnelRef ≠ some o

/-- an operation performed by / on behalf of somebody else than `o` -/
def Foreign (o : Lid) : ROp → Prop
  | .add _ l => l ≠ o
  | .addPrefix _ l _ => l ≠ o
  | .setFwd _ t => t ≠ o
  | .setRef r => r ≠ some o
  | _ => True

theorem lookupP_mem {m : List (Pfx × List Lid)} {p : Pfx} {ls : List Lid} (h : lookupP m p = some ls) : (p, ls) ∈ m := by
  induction m with
  | nil => simp [lookupP] at h
  | cons e rest ih =>
    obtain ⟨q, xs⟩ := e
    simp only [lookupP] at h
    split at h
    · next hq => cases h; subst hq; simp
    · exact List.mem_cons_of_mem _ (ih h)

theorem lookupF_mem {f : List (Lid × Lid)} {l t : Lid} (h : lookupF f l = some t) : (l, t) ∈ f := by
  induction f with
  | nil => simp [lookupF] at h
  | cons e rest ih =>
    obtain ⟨a, b⟩ := e
    simp only [lookupF] at h
    split at h
    · next ha => cases h; subst ha; simp
    · exact List.mem_cons_of_mem _ (ih h)

theorem upsertP_mem {m : List (Pfx × List Lid)} {p : Pfx} {v : List Lid} {e : Pfx × List Lid}
    (h : e ∈ upsertP m p v) : e ∈ m ∨ e = (p, v) := by
  induction m with
  | nil => simp [upsertP] at h; exact Or.inr h
  | cons x rest ih =>
    obtain ⟨q, ls⟩ := x
    simp only [upsertP] at h
    split at h
    · rcases List.mem_cons.mp h with h | h
      · exact Or.inr h
      · exact Or.inl (List.mem_cons_of_mem _ h)
    · rcases List.mem_cons.mp h with h | h
      · exact Or.inl (h ▸ List.mem_cons_self)
      · rcases ih h with h | h
        · exact Or.inl (List.mem_cons_of_mem _ h)
        · exact Or.inr h

theorem absent_recipients {o : Lid} {r : Reg} (h : Absent o r) (p : Pfx) : o ∉ r.recipients p := by
  unfold Reg.recipients
  split
  · cases hl : lookupP r.pmap p with
    | none => simpa using h.1
    | some ls => simpa using h.2 _ (lookupP_mem hl)
  · simp

theorem silent_reach {o : Lid} {w : World} (h : Silent o w) (p : Pfx) : o ∉ w.reach p := by
  unfold World.reach
  intro hm
  rcases List.mem_append.mp hm with hm | hm
  · exact absent_recipients h.1 p hm
  · rcases List.mem_filterMap.mp hm with ⟨l, _, hl⟩
    exact h.2.1 _ (lookupF_mem hl) rfl

theorem mem_of_mem_dedup {l : List Lid} {x : Lid} (h : x ∈ dedup l) : x ∈ l := by
  induction l with
  | nil => cases h
  | cons y ys ih =>
    simp only [dedup] at h
    rcases List.mem_cons.mp h with h | h
    · exact h ▸ List.mem_cons_self
    · exact List.mem_cons_of_mem _ (ih (List.mem_filter.mp h).1)

theorem silent_reachTunnel {o : Lid} {w : World} (h : Silent o w) (p : Pfx) (b : Bool) : o ∉ w.reachTunnel p b := by
  unfold World.reachTunnel
  intro hm
  rcases List.mem_append.mp hm with hm | hm
  · exact absent_recipients h.1 p (List.mem_filter.mp (mem_of_mem_dedup hm)).1
  · rcases List.mem_filterMap.mp hm with ⟨l, _, hl⟩
    exact h.2.1 _ (lookupF_mem hl) rfl

theorem silent_touched {o : Lid} {w : World} (h : Silent o w) (p : Pfx) : o ∉ w.touched p := by
  unfold World.touched
  intro hm
  simp only [List.mem_append] at hm
  rcases hm with ((hm | hm) | hm) | hm
  · exact silent_reach h p hm
  · exact silent_reachTunnel h p true hm
  · exact silent_reachTunnel h p false hm
  · cases hr : w.tunnelRef with
    | none => simp [hr] at hm
    | some x => simp [hr] at hm; exact h.2.2 (by rw [hr, hm])

theorem absent_remove_self (o : Lid) (r : Reg) : Absent o (r.removeListener o) := by
  constructor
  · simp [Reg.removeListener]
  · intro e he
    simp only [Reg.removeListener] at he
    have he' := (List.mem_filter.mp he).1
    rcases List.mem_map.mp he' with ⟨x, _, rfl⟩
    simp

theorem absent_remove {o : Lid} {r : Reg} (l : Lid) (h : Absent o r) : Absent o (r.removeListener l) := by
  constructor
  · intro hm
    simp only [Reg.removeListener] at hm
    exact h.1 (List.mem_filter.mp hm).1
  · intro e he
    simp only [Reg.removeListener] at he
    have he' := (List.mem_filter.mp he).1
    rcases List.mem_map.mp he' with ⟨x, hx, rfl⟩
    intro hm
    exact h.2 x hx (List.mem_filter.mp hm).1

theorem absent_add {o l : Lid} {r : Reg} (hl : l ≠ o) (h : Absent o r) : Absent o (r.addListener l) := by
  constructor
  · intro hm
    simp only [Reg.addListener] at hm
    rcases List.mem_append.mp hm with hm | hm
    · exact h.1 hm
    · simp at hm; exact hl hm.symm
  · intro e he
    simp only [Reg.addListener] at he
    rcases List.mem_map.mp he with ⟨x, hx, rfl⟩
    intro hm
    rcases List.mem_append.mp hm with hm | hm
    · exact h.2 x hx hm
    · simp at hm; exact hl hm.symm

theorem absent_addPrefix {o l : Lid} {r : Reg} (p : Pfx) (hl : l ≠ o) (h : Absent o r) :
    Absent o (r.addPrefixListener l p) := by
  constructor
  · exact h.1
  · intro e he
    simp only [Reg.addPrefixListener] at he
    rcases upsertP_mem he with he | he
    · exact h.2 e he
    · subst he
      intro hm
      simp only [List.mem_append] at hm
      rcases hm with (hm | hm) | hm
      · cases hlk : lookupP r.pmap p with
        | none => simp [hlk] at hm
        | some ls => simp [hlk] at hm; exact h.2 _ (lookupP_mem hlk) hm
      · simp at hm; exact hl hm.symm
      · exact h.1 hm

theorem silent_step {o : Lid} {w : World} {op : ROp} (hf : Foreign o op) (h : Silent o w) : Silent o (w.step op) := by
  obtain ⟨ha, hn, hr⟩ := h
  cases op with
  | add v l =>
    cases v
    · exact ⟨absent_add hf ha, hn, hr⟩
    · simp only [World.step]; split
      · exact ⟨absent_add hf ha, hn, hr⟩
      · exact ⟨ha, hn, hr⟩
  | addPrefix v l p =>
    cases v
    · exact ⟨absent_addPrefix p hf ha, hn, hr⟩
    · simp only [World.step]; split
      · exact ⟨absent_addPrefix p hf ha, hn, hr⟩
      · exact ⟨ha, hn, hr⟩
  | remove v l =>
    cases v
    · exact ⟨absent_remove l ha, hn, hr⟩
    · simp only [World.step]; split
      · exact ⟨absent_remove l ha, hn, hr⟩
      · exact ⟨ha, hn, hr⟩
  | setFwd a b =>
    refine ⟨ha, ?_, hr⟩
    intro e he
    simp only [World.step] at he
    rcases List.mem_cons.mp he with he | he
    · subst he; exact hf
    · exact hn e (List.mem_filter.mp he).1
  | clearFwd a =>
    refine ⟨ha, ?_, hr⟩
    intro e he
    simp only [World.step] at he
    exact hn e (List.mem_filter.mp he).1
  | setOpen b => exact ⟨⟨ha.1, ha.2⟩, hn, hr⟩
  | setRef r => exact ⟨ha, hn, hf⟩
  | setAnon l b => exact ⟨ha, hn, hr⟩

theorem silent_run {o : Lid} (ops : List ROp) : ∀ (w : World), (∀ op ∈ ops, Foreign o op) → Silent o w → Silent o (w.run ops) := by
  induction ops with
  | nil => intro w _ h; exact h
  | cons op rest ih =>
    intro w hf h
    simp only [World.run, List.foldl_cons]
    exact ih (w.step op) (fun x hx => hf x (List.mem_cons_of_mem _ hx)) (silent_step (hf op List.mem_cons_self) h)


/-! ### folds: a fact established by one op and preserved by all others holds at the end -/

theorem foldl_preserve {σ α : Type} (step : σ → α → σ) (P : σ → Prop) (hP : ∀ s a, P s → P (step s a)) :
    ∀ (l : List α) (s : σ), P s → P (l.foldl step s) := by
  intro l
  induction l with
  | nil => intro s h; exact h
  | cons a rest ih => intro s h; exact ih _ (hP s a h)

theorem foldl_establish {σ α : Type} (step : σ → α → σ) (I P : σ → Prop) (a₀ : α)
    (hI : ∀ s a, I s → I (step s a))
    (hP : ∀ s a, I s → P s → P (step s a))
    (h₀ : ∀ s, I s → P (step s a₀)) :
    ∀ (l : List α) (s : σ), I s → a₀ ∈ l → P (l.foldl step s) := by
  intro l
  induction l with
  | nil => intro s _ h; cases h
  | cons a rest ih =>
    intro s hi hm
    simp only [List.foldl_cons]
    by_cases ha : a₀ ∈ rest
    · exact ih _ (hI s a hi) ha
    · have : a₀ = a := by
        rcases List.mem_cons.mp hm with h | h
        · exact h
        · exact absurd h ha
      subst this
      have hIP : ∀ (l : List α) (s : σ), I s → P s → P (l.foldl step s) := by
        intro l
        induction l with
        | nil => intro s _ h; exact h
        | cons b r ih2 => intro s hi hp; exact ih2 _ (hI s b hi) (hP s b hi hp)
      exact hIP rest _ (hI s a₀ hi) (h₀ s hi)

/-! ### unload scripts -/

/-- things no unload op ever changes -/
def UFrame (o px : Lid) (s : UState) : Prop :=
  s.self = o ∧ s.proxy = px ∧ (s.viaOuter = true → s.w.fwdRemove = true) ∧ (∀ e ∈ s.w.fwd, e.2 = o → e.1 = px)

theorem finishRemoval_w (s : UState) (k : RemKind) : (s.finishRemoval k).w = s.w ∧ (s.finishRemoval k).self = s.self ∧
    (s.finishRemoval k).proxy = s.proxy ∧ (s.finishRemoval k).viaOuter = s.viaOuter ∧
    (s.finishRemoval k).tmDown = s.tmDown ∧ (s.finishRemoval k).cacheDown = s.cacheDown ∧
    (s.finishRemoval k).dbClosed = s.dbClosed ∧ (s.finishRemoval k).removals = s.removals := by
  cases k <;> simp [UState.finishRemoval]

/-- running removal tasks to their end only touches the tunnel tables and the exit sockets -/
theorem finishAll_frame (rs : List (RemKind × Bool)) : ∀ (s : UState),
    let s' := rs.foldl (fun acc r => acc.finishRemoval r.1) s
    s'.w = s.w ∧ s'.self = s.self ∧ s'.proxy = s.proxy ∧ s'.viaOuter = s.viaOuter ∧ s'.tmDown = s.tmDown ∧
    s'.cacheDown = s.cacheDown ∧ s'.dbClosed = s.dbClosed ∧ s'.removals = s.removals ∧
    (s.openExit = 0 → s'.openExit = 0) ∧ (s.circuits = 0 → s'.circuits = 0) ∧ (s.relays = 0 → s'.relays = 0) ∧
    (s.exits = 0 → s'.exits = 0) := by
  induction rs with
  | nil => intro s; simp
  | cons r rest ih =>
    intro s
    have h := ih (s.finishRemoval r.1)
    have f := finishRemoval_w s r.1
    simp only [List.foldl_cons]
    refine ⟨h.1.trans f.1, h.2.1.trans f.2.1, h.2.2.1.trans f.2.2.1, h.2.2.2.1.trans f.2.2.2.1,
      h.2.2.2.2.1.trans f.2.2.2.2.1, h.2.2.2.2.2.1.trans f.2.2.2.2.2.1, h.2.2.2.2.2.2.1.trans f.2.2.2.2.2.2.1,
      h.2.2.2.2.2.2.2.1.trans f.2.2.2.2.2.2.2, ?_, ?_, ?_, ?_⟩
    · intro h0; apply h.2.2.2.2.2.2.2.2.1; cases r.1 <;> simp [UState.finishRemoval, h0]
    · intro h0; apply h.2.2.2.2.2.2.2.2.2.1; cases r.1 <;> simp [UState.finishRemoval, h0]
    · intro h0; apply h.2.2.2.2.2.2.2.2.2.2.1; cases r.1 <;> simp [UState.finishRemoval, h0]
    · intro h0; apply h.2.2.2.2.2.2.2.2.2.2.2; cases r.1 <;> simp [UState.finishRemoval, h0]

theorem step_remove_fwd (w : World) (v : Bool) (l : Lid) : (w.step (.remove v l)).fwd = w.fwd ∧
    (w.step (.remove v l)).fwdRemove = w.fwdRemove ∧ (w.step (.remove v l)).tunnelRef = w.tunnelRef := by
  cases v
  · simp [World.step]
  · simp only [World.step]; split <;> simp

theorem uframe_step (sl : RemKind → Bool → Bool) (o px : Lid) (s : UState) (op : UOp) (h : UFrame o px s) :
    UFrame o px (s.core sl op) := by
  obtain ⟨h1, h2, h3, h4⟩ := h
  cases op with
  | spawnRemovals k n c => simp only [UState.core]; split <;> exact ⟨h1, h2, h3, h4⟩
  | awaitRemovals =>
    simp only [UState.core]
    have f := finishAll_frame s.removals { s with removals := [] }
    simp only at f
    refine ⟨f.2.1.trans h1, f.2.2.1.trans h2, ?_, ?_⟩
    · rw [f.1, f.2.2.2.1]; exact h3
    · rw [f.1]; exact h4
  | cacheShutdown => exact ⟨h1, h2, h3, h4⟩
  | removeProxy =>
    have f := step_remove_fwd s.w s.viaOuter s.proxy
    refine ⟨h1, h2, ?_, ?_⟩
    · intro hv; simp only [UState.core] at hv ⊢; rw [f.2.1]; exact h3 hv
    · simp only [UState.core]; rw [f.1]; exact h4
  | clearFwd =>
    refine ⟨h1, h2, h3, ?_⟩
    intro e he
    simp only [UState.core, World.step] at he
    exact h4 e (List.mem_filter.mp he).1
  | unloadBootstrappers => exact ⟨h1, h2, h3, h4⟩
  | removeSelf =>
    have f := step_remove_fwd s.w s.viaOuter s.self
    refine ⟨h1, h2, ?_, ?_⟩
    · intro hv; simp only [UState.core] at hv ⊢; rw [f.2.1]; exact h3 hv
    · simp only [UState.core]; rw [f.1]; exact h4
  | tmShutdown => exact ⟨h1, h2, h3, h4⟩
  | closeDb => exact ⟨h1, h2, h3, h4⟩
  | closeExitSockets => exact ⟨h1, h2, h3, h4⟩
  | clearTable k => cases k <;> exact ⟨h1, h2, h3, h4⟩
  | clearEndpointRef => simp only [UState.core]; split <;> exact ⟨h1, h2, h3, h4⟩
  | unloadChildren => exact ⟨h1, h2, h3, h4⟩
  | returnIfDown => exact ⟨h1, h2, h3, h4⟩

/-- the registry part of the state after any unload op: only `remove` and `clearFwd` steps happen -/
theorem ustep_world (sl : RemKind → Bool → Bool) (s : UState) (op : UOp) :
    (s.core sl op).w = s.w ∨ (∃ l, (s.core sl op).w = s.w.step (.remove s.viaOuter l)) ∨
    (s.core sl op).w = s.w.step (.clearFwd s.proxy) ∨ (s.core sl op).w = s.w.step (.setRef none) := by
  cases op with
  | spawnRemovals k n c => left; simp only [UState.core]; split <;> rfl
  | awaitRemovals => left; simp only [UState.core]; exact (finishAll_frame s.removals { s with removals := [] }).1
  | removeProxy => right; left; exact ⟨s.proxy, rfl⟩
  | removeSelf => right; left; exact ⟨s.self, rfl⟩
  | clearFwd => right; right; left; rfl
  | clearTable k => left; cases k <;> rfl
  | clearEndpointRef => simp only [UState.core]; split
                        · right; right; right; rfl
                        · left; rfl
  | _ => left; rfl

theorem silent_ustep (sl : RemKind → Bool → Bool) (o : Lid) (s : UState) (op : UOp) (h : Silent o s.w) :
    Silent o (s.core sl op).w := by
  rcases ustep_world sl s op with hw | ⟨l, hw⟩ | hw | hw
  · rw [hw]; exact h
  · rw [hw]; exact silent_step (by simp [Foreign]) h
  · rw [hw]; exact silent_step (by simp [Foreign]) h
  · rw [hw]; exact silent_step (by simp [Foreign]) h

theorem absent_ustep (sl : RemKind → Bool → Bool) (o : Lid) (s : UState) (op : UOp) (h : Absent o s.w.inner) :
    Absent o (s.core sl op).w.inner := by
  rcases ustep_world sl s op with hw | ⟨l, hw⟩ | hw | hw
  · rw [hw]; exact h
  · rw [hw]; cases hv : s.viaOuter
    · exact absent_remove l h
    · simp only [World.step]; split
      · exact absent_remove l h
      · exact h
  · rw [hw]; exact h
  · rw [hw]; exact h

theorem nofwd_ustep (sl : RemKind → Bool → Bool) (o : Lid) (s : UState) (op : UOp) (h : NoFwdTo o s.w) :
    NoFwdTo o (s.core sl op).w := by
  rcases ustep_world sl s op with hw | ⟨l, hw⟩ | hw | hw
  · rw [hw]; exact h
  · rw [hw]; intro e he; rw [(step_remove_fwd s.w s.viaOuter l).1] at he; exact h e he
  · rw [hw]; intro e he; simp only [World.step] at he; exact h e (List.mem_filter.mp he).1
  · rw [hw]; exact h

theorem noref_ustep (sl : RemKind → Bool → Bool) (o : Lid) (s : UState) (op : UOp) (h : s.w.tunnelRef ≠ some o) :
    (s.core sl op).w.tunnelRef ≠ some o := by
  rcases ustep_world sl s op with hw | ⟨l, hw⟩ | hw | hw
  · rw [hw]; exact h
  · rw [hw, (step_remove_fwd s.w s.viaOuter l).2.2]; exact h
  · rw [hw]; exact h
  · rw [hw]; simp [World.step]

/-- the adversary's socket acquisitions do not touch anything but `openExit`, `exits` and the clock -/
theorem step_proj (sl : RemKind → Bool → Bool) (acq : Nat → Nat) (s : UState) (op : UOp) :
    (s.step sl acq op).w = (s.core sl op).w ∧ (s.step sl acq op).self = (s.core sl op).self ∧
    (s.step sl acq op).proxy = (s.core sl op).proxy ∧ (s.step sl acq op).viaOuter = (s.core sl op).viaOuter ∧
    (s.step sl acq op).tmDown = (s.core sl op).tmDown ∧ (s.step sl acq op).cacheDown = (s.core sl op).cacheDown ∧
    (s.step sl acq op).dbClosed = (s.core sl op).dbClosed ∧ (s.step sl acq op).removals = (s.core sl op).removals ∧
    (s.step sl acq op).bootDown = (s.core sl op).bootDown ∧ (s.step sl acq op).circuits = (s.core sl op).circuits ∧
    (s.step sl acq op).relays = (s.core sl op).relays ∧
    ((s.core sl op).canAcquire = false → (s.step sl acq op).openExit = (s.core sl op).openExit ∧
                                          (s.step sl acq op).exits = (s.core sl op).exits ∧
                                          (s.step sl acq op).children = (s.core sl op).children) := by
  unfold UState.step
  simp only
  split
  · next h =>
    refine ⟨rfl, rfl, rfl, rfl, rfl, rfl, rfl, rfl, rfl, rfl, rfl, ?_⟩
    intro ht; simp [ht] at h
  · exact ⟨rfl, rfl, rfl, rfl, rfl, rfl, rfl, rfl, rfl, rfl, rfl, fun _ => ⟨rfl, rfl, rfl⟩⟩

theorem core_tmDown_mono (sl : RemKind → Bool → Bool) (s : UState) (op : UOp) (h : s.tmDown = true) :
    (s.core sl op).tmDown = true := by
  cases op with
  | spawnRemovals k n c => simp only [UState.core]; split <;> exact h
  | awaitRemovals => simp only [UState.core]; exact (finishAll_frame s.removals { s with removals := [] }).2.2.2.2.1.trans h
  | clearTable k => cases k <;> exact h
  | clearEndpointRef => simp only [UState.core]; split <;> exact h
  | unloadChildren => exact h
  | _ => simp [UState.core, h]

theorem lists_false_of_absent {o : Lid} {r : Reg} (h : Absent o r) : r.lists o = false := by
  unfold Reg.lists
  have h1 : r.listeners.contains o = false := by simpa using h.1
  have h2 : r.pmap.any (fun e => e.2.contains o) = false := by
    apply Bool.eq_false_iff.mpr
    intro hc
    rcases List.any_eq_true.mp hc with ⟨e, he, hm⟩
    exact h.2 e he (by simpa using hm)
  rw [h1, h2]; rfl

/-- the script splits into a prefix that contains every closing statement and the suffix after the last of them -/
theorem afterClosing_split : ∀ (script : List UOp), script.any UOp.isClosing = true →
    ∃ pre, script = pre ++ afterClosing script ∧ ∀ op ∈ script, op.isClosing = true → op ∈ pre := by
  intro script
  induction script with
  | nil => intro h; simp at h
  | cons op rest ih =>
    intro h
    by_cases hr : rest.any UOp.isClosing = true
    · obtain ⟨pre, hpre, hall⟩ := ih hr
      refine ⟨op :: pre, ?_, ?_⟩
      · simp only [afterClosing, hr, if_true, List.cons_append]; rw [← hpre]
      · intro x hx hc
        rcases List.mem_cons.mp hx with rfl | hx
        · exact List.mem_cons_self
        · exact List.mem_cons_of_mem _ (hall x hx hc)
    · have hop : op.isClosing = true := by
        simp only [List.any_cons, Bool.or_eq_true] at h
        rcases h with h | h
        · exact h
        · exact absurd h hr
      refine ⟨[op], ?_, ?_⟩
      · simp [afterClosing, hr, hop]
      · intro x hx hc
        rcases List.mem_cons.mp hx with rfl | hx
        · exact List.mem_cons_self
        · exfalso; exact hr (List.any_eq_true.mpr ⟨x, hx, hc⟩)

theorem run_append (sl : RemKind → Bool → Bool) (acq : Nat → Nat) (s : UState) (a b : List UOp) :
    s.run sl acq (a ++ b) = (s.run sl acq a).run sl acq b := by
  simp [UState.run, List.foldl_append]

/-- `shutdownFrom` differs from `shutdownOp` only in the list of tasks the coroutine waits for -/
theorem shutdownFrom_fields (tm : TM) (n : Nat) :
    (tm.shutdownFrom n).tasks = tm.shutdownOp.tasks ∧ (tm.shutdownFrom n).log = tm.shutdownOp.log ∧
    (tm.shutdownFrom n).shutdown = tm.shutdownOp.shutdown ∧ (tm.shutdownFrom n).map = tm.shutdownOp.map ∧
    (tm.shutdownFrom n).conts = tm.shutdownOp.conts ∧ (tm.shutdownFrom n).next = tm.shutdownOp.next := by
  unfold TM.shutdownFrom
  split <;> exact ⟨rfl, rfl, rfl, rfl, rfl, rfl⟩

/-! ### task manager: a manager that was shut down and whose tasks have all finished stays dead -/

/-- the state in which `unload` has completed: the flag is set and every task ever created has finished -/
def Dead (tm : TM) : Prop := tm.shutdown = true ∧ ∀ t ∈ tm.tasks, t.done = true

/-- same tasks, same event log, same flag: nothing was created, nothing ran -/
def SameCore (a b : TM) : Prop := b.tasks = a.tasks ∧ b.log = a.log ∧ b.shutdown = a.shutdown

theorem SameCore.refl (a : TM) : SameCore a a := ⟨rfl, rfl, rfl⟩

theorem SameCore.trans {a b c : TM} (h1 : SameCore a b) (h2 : SameCore b c) : SameCore a c :=
  ⟨h2.1.trans h1.1, h2.2.1.trans h1.2.1, h2.2.2.trans h1.2.2⟩

theorem Dead.of_same {a b : TM} (h : Dead a) (hs : SameCore a b) : Dead b :=
  ⟨hs.2.2.trans h.1, by rw [hs.1]; exact h.2⟩

theorem taskDone_of_all {ts : List Task} (h : ∀ t ∈ ts, t.done = true) (id : Nat) : taskDone ts id = true := by
  induction ts with
  | nil => rfl
  | cons t rest ih =>
    simp only [taskDone]
    split
    · exact h t List.mem_cons_self
    · exact ih (fun x hx => h x (List.mem_cons_of_mem _ hx))

theorem register_shutdown (tm : TM) (n : Nat) (s : Spec) (h : tm.shutdown = true) : tm.register n s = (tm, .refused) := by
  simp [TM.register, h]

theorem fireCont_shutdown (tm : TM) (c : Cont) (h : tm.shutdown = true) : tm.fireCont c = tm := by
  simp [TM.fireCont, register_shutdown tm c.name c.spec h]

theorem foldl_fireCont_shutdown (cs : List Cont) : ∀ (tm : TM), tm.shutdown = true → cs.foldl TM.fireCont tm = tm := by
  induction cs with
  | nil => intro tm _; rfl
  | cons c rest ih => intro tm h; simp only [List.foldl_cons, fireCont_shutdown tm c h]; exact ih tm h

theorem deliver_done (now : Nat) (t : Task) (h : t.done = true) : deliver now t = t := by simp [deliver, h]

theorem deliverEv_done (now : Nat) (t : Task) (h : t.done = true) : deliverEv now t = [] := by simp [deliverEv, h]

theorem map_deliver_dead (now : Nat) (ts : List Task) (h : ∀ t ∈ ts, t.done = true) : ts.map (deliver now) = ts := by
  induction ts with
  | nil => rfl
  | cons t rest ih =>
    simp only [List.map_cons, deliver_done now t (h t List.mem_cons_self)]
    rw [ih (fun x hx => h x (List.mem_cons_of_mem _ hx))]

theorem flatMap_deliverEv_dead (now : Nat) (ts : List Task) (h : ∀ t ∈ ts, t.done = true) :
    ts.flatMap (deliverEv now) = [] := by
  induction ts with
  | nil => rfl
  | cons t rest ih =>
    simp only [List.flatMap_cons, deliverEv_done now t (h t List.mem_cons_self)]
    rw [ih (fun x hx => h x (List.mem_cons_of_mem _ hx))]; rfl

theorem pass_dead (tm : TM) (h : Dead tm) : SameCore tm tm.pass := by
  obtain ⟨hs, hd⟩ := h
  have e0 : (tm.conts.filter (fun c => c.after.isNone)).foldl TM.fireCont
      { tm with conts := tm.conts.filter (fun c => c.after.isSome) } =
      { tm with conts := tm.conts.filter (fun c => c.after.isSome) } := foldl_fireCont_shutdown _ _ hs
  unfold TM.pass
  simp only [e0]
  rw [foldl_fireCont_shutdown _ _ (by exact hs)]
  refine ⟨?_, ?_, rfl⟩
  · exact map_deliver_dead _ _ hd
  · simp [flatMap_deliverEv_dead _ _ hd]

theorem advance_same (tm : TM) : SameCore tm tm.advance := ⟨rfl, rfl, rfl⟩

theorem cancel_dead (tm : TM) (n : Nat) (h : Dead tm) : (tm.cancel n).1 = tm := by
  unfold TM.cancel
  cases hl : lookupN tm.map n with
  | none => rfl
  | some id => simp [taskDone_of_all h.2 id]

theorem step_dead (tm : TM) (op : TOp) (h : Dead tm) : SameCore tm (tm.step op) := by
  cases op with
  | reg n s => simp only [TM.step, register_shutdown tm n s h.1]; exact SameCore.refl tm
  | cancel n => simp only [TM.step, cancel_dead tm n h]; exact SameCore.refl tm
  | replace n s =>
    simp only [TM.step, TM.replace, cancel_dead tm n h]
    exact ⟨rfl, rfl, rfl⟩
  | shutdown => simp only [TM.step, TM.shutdownOp, h.1, if_true]; exact SameCore.refl tm
  | shutdownFrom n =>
    have f := shutdownFrom_fields tm n
    have e : tm.shutdownOp = tm := by simp only [TM.shutdownOp, h.1, if_true]
    exact ⟨by simp only [TM.step]; rw [f.1, e], by simp only [TM.step]; rw [f.2.1, e], by simp only [TM.step]; rw [f.2.2.1, e]⟩
  | pass => exact pass_dead tm h
  | settle =>
    simp only [TM.step, TM.settle]
    have h1 := pass_dead tm h
    have d1 := h.of_same h1
    have h2 := pass_dead _ d1
    have d2 := d1.of_same h2
    exact h1.trans (h2.trans (pass_dead _ d2))
  | tick =>
    simp only [TM.step, TM.tick, TM.settle]
    have h1 := pass_dead tm h
    have d1 := h.of_same h1
    have h2 := pass_dead _ d1
    have d2 := d1.of_same h2
    have h3 := pass_dead _ d2
    have d3 := d2.of_same h3
    have ha := advance_same tm.pass.pass.pass
    have d4 := d3.of_same ha
    have h5 := pass_dead _ d4
    have d5 := d4.of_same h5
    have h6 := pass_dead _ d5
    have d6 := d5.of_same h6
    exact h1.trans (h2.trans (h3.trans (ha.trans (h5.trans (h6.trans (pass_dead _ d6))))))

theorem run_dead (ops : List TOp) : ∀ (tm : TM), Dead tm → SameCore tm (tm.run ops) := by
  induction ops with
  | nil => intro tm _; exact SameCore.refl tm
  | cons op rest ih =>
    intro tm h
    simp only [TM.run, List.foldl_cons]
    have h1 := step_dead tm op h
    exact h1.trans (ih _ (h.of_same h1))


/-! ### task manager: a replacement is only started after the old task has finished -/

/-- every `start n (some old)` entry of the log (newest first) has `fin old` among the older entries -/
def okLog : List Ev → Prop
  | [] => True
  | .start _ (some t) :: rest => Ev.fin t ∈ rest ∧ okLog rest
  | _ :: rest => okLog rest

def isStart : Ev → Bool
  | .start _ _ => true
  | _ => false

def LogInv (tm : TM) : Prop :=
  okLog tm.log ∧ (∀ t ∈ tm.tasks, t.done = true → Ev.fin t.id ∈ tm.log) ∧
  (∀ c ∈ tm.conts, ∀ a, c.after = some a → ∃ t ∈ tm.tasks, t.id = a)

theorem okLog_append (evs log : List Ev) (h : ∀ e ∈ evs, isStart e = false) (hl : okLog log) : okLog (evs ++ log) := by
  induction evs with
  | nil => exact hl
  | cons e rest ih =>
    have hr := ih (fun x hx => h x (List.mem_cons_of_mem _ hx))
    have he := h e List.mem_cons_self
    cases e with
    | run id => exact hr
    | fin id => exact hr
    | start id a => simp [isStart] at he

theorem taskDone_false_mem {ts : List Task} {id : Nat} (h : taskDone ts id = false) : ∃ t ∈ ts, t.id = id := by
  induction ts with
  | nil => simp [taskDone] at h
  | cons t rest ih =>
    simp only [taskDone] at h
    split at h
    · next hid => exact ⟨t, List.mem_cons_self, hid⟩
    · obtain ⟨x, hx, hxi⟩ := ih h
      exact ⟨x, List.mem_cons_of_mem _ hx, hxi⟩

theorem taskDone_true_mem {ts : List Task} {id : Nat} (hex : ∃ t ∈ ts, t.id = id) (h : taskDone ts id = true) :
    ∃ t ∈ ts, t.id = id ∧ t.done = true := by
  induction ts with
  | nil => obtain ⟨t, ht, _⟩ := hex; cases ht
  | cons t rest ih =>
    simp only [taskDone] at h
    split at h
    · next hid => exact ⟨t, List.mem_cons_self, hid, h⟩
    · next hid =>
      obtain ⟨x, hx, hxi⟩ := hex
      rcases List.mem_cons.mp hx with hx | hx
      · subst hx; exact absurd hxi hid
      · obtain ⟨y, hy, hy2⟩ := ih ⟨x, hx, hxi⟩ h
        exact ⟨y, List.mem_cons_of_mem _ hy, hy2⟩

theorem deliver_id (now : Nat) (t : Task) : (deliver now t).id = t.id := by
  unfold deliver
  repeat' split
  all_goals rfl

theorem deliverEv_nostart (now : Nat) (t : Task) : ∀ e ∈ deliverEv now t, isStart e = false := by
  intro e he
  cases e with
  | run _ => rfl
  | fin _ => rfl
  | start id a =>
    exfalso
    unfold deliverEv at he
    repeat' split at he
    all_goals simp at he

theorem deliver_newly_done (now : Nat) (t : Task) (h0 : t.done = false) (h1 : (deliver now t).done = true) :
    Ev.fin t.id ∈ deliverEv now t := by
  unfold deliverEv
  simp only [h0]
  by_cases hc : t.cancelReq = true
  · simp [hc, h1]
  · have hc' : t.cancelReq = false := by simpa using hc
    unfold deliver at h1
    simp only [h0, hc'] at h1 ⊢
    cases hk : t.kind <;> simp [hk] at h1 ⊢
    · split at h1
      · next hd => simp [hd]
      · simp [h0] at h1
    · split at h1
      · simp [h0] at h1
      · simp [h0] at h1
    · simp [h0] at h1


theorem register_tasks (tm : TM) (n : Nat) (sp : Spec) :
    (tm.register n sp).1.log = tm.log ∧ (tm.register n sp).1.conts = tm.conts ∧
    ((tm.register n sp).1.tasks = tm.tasks ∨ ∃ t, t.done = false ∧ (tm.register n sp).1.tasks = tm.tasks ++ [t]) := by
  unfold TM.register
  split
  · exact ⟨rfl, rfl, Or.inl rfl⟩
  · split
    · exact ⟨rfl, rfl, Or.inl rfl⟩
    · exact ⟨rfl, rfl, Or.inr ⟨_, rfl, rfl⟩⟩

theorem logInv_register (tm : TM) (n : Nat) (sp : Spec) (h : LogInv tm) : LogInv (tm.register n sp).1 := by
  obtain ⟨hl, hc, ht⟩ := register_tasks tm n sp
  obtain ⟨h1, h2, h3⟩ := h
  refine ⟨hl ▸ h1, ?_, ?_⟩
  · intro t htm hd
    rw [hl]
    rcases ht with ht | ⟨x, hx, ht⟩
    · exact h2 t (ht ▸ htm) hd
    · rw [ht] at htm
      rcases List.mem_append.mp htm with htm | htm
      · exact h2 t htm hd
      · simp at htm; subst htm; simp [hx] at hd
  · intro c hcm a ha
    rw [hc] at hcm
    obtain ⟨t, htm, hid⟩ := h3 c hcm a ha
    rcases ht with ht | ⟨x, _, ht⟩
    · exact ⟨t, ht ▸ htm, hid⟩
    · exact ⟨t, by rw [ht]; exact List.mem_append_left _ htm, hid⟩

theorem fireCont_eq (tm : TM) (c : Cont) : tm.fireCont c =
    match (tm.register c.name c.spec).2 with
    | .ok id => { (tm.register c.name c.spec).1 with log := Ev.start id c.after :: (tm.register c.name c.spec).1.log }
    | _ => (tm.register c.name c.spec).1 := rfl

theorem fireCont_log (tm : TM) (c : Cont) : (tm.fireCont c).log = tm.log ∨ ∃ id, (tm.fireCont c).log = Ev.start id c.after :: tm.log := by
  rw [fireCont_eq]
  have hl := (register_tasks tm c.name c.spec).1
  split
  · next id _ => exact Or.inr ⟨id, by simp [hl]⟩
  · exact Or.inl hl

theorem logInv_fireCont (tm : TM) (c : Cont) (h : LogInv tm) (hc : ∀ a, c.after = some a → Ev.fin a ∈ tm.log) :
    LogInv (tm.fireCont c) := by
  have hr := logInv_register tm c.name c.spec h
  rw [fireCont_eq]
  split
  · next id heq =>
    obtain ⟨h1, h2, h3⟩ := hr
    have hl := (register_tasks tm c.name c.spec).1
    refine ⟨?_, ?_, h3⟩
    · cases hca : c.after with
      | none => simpa [okLog, hca] using h1
      | some a => simp only [okLog]; exact ⟨hl ▸ hc a hca, h1⟩
    · intro t ht hd; exact List.mem_cons_of_mem _ (h2 t ht hd)
  · exact hr

theorem logInv_foldFire (cs : List Cont) : ∀ (tm : TM), LogInv tm → (∀ c ∈ cs, ∀ a, c.after = some a → Ev.fin a ∈ tm.log) →
    LogInv (cs.foldl TM.fireCont tm) := by
  induction cs with
  | nil => intro tm h _; exact h
  | cons c rest ih =>
    intro tm h hc
    simp only [List.foldl_cons]
    apply ih _ (logInv_fireCont tm c h (hc c List.mem_cons_self))
    intro c' hc' a ha
    have := hc c' (List.mem_cons_of_mem _ hc') a ha
    rcases fireCont_log tm c with hl | ⟨id, hl⟩
    · rw [hl]; exact this
    · rw [hl]; exact List.mem_cons_of_mem _ this

theorem cancelTask_id (id : Nat) (t : Task) : (cancelTask id t).id = t.id := by
  unfold cancelTask; repeat' split
  all_goals rfl

theorem logInv_cancel (tm : TM) (n : Nat) (h : LogInv tm) : LogInv (tm.cancel n).1 ∧
    (∀ a, (tm.cancel n).2.2 = some a → ∃ t ∈ (tm.cancel n).1.tasks, t.id = a) ∧ (tm.cancel n).1.conts = tm.conts := by
  obtain ⟨h1, h2, h3⟩ := h
  unfold TM.cancel
  cases hl : lookupN tm.map n with
  | none => exact ⟨⟨h1, h2, h3⟩, (by intro a ha; cases ha), rfl⟩
  | some id =>
    simp only
    cases hd : taskDone tm.tasks id with
    | true =>
      simp only [if_true]
      exact ⟨⟨h1, h2, h3⟩, (by intro a ha; cases ha), (by first | rfl | trivial)⟩
    | false =>
      simp only [Bool.false_eq_true, if_false]
      refine ⟨⟨?_, ?_, ?_⟩, ?_, (by first | rfl | trivial)⟩
      · split
        · exact h1
        · exact h1
      · intro t' ht' hdone
        rcases List.mem_map.mp ht' with ⟨t, ht, rfl⟩
        by_cases hold : t.done = true
        · have : (cancelTask id t).id = t.id := cancelTask_id id t
          rw [this]
          split
          · exact List.mem_cons_of_mem _ (h2 t ht hold)
          · exact h2 t ht hold
        · -- newly done: it is a Future with this id
          unfold cancelTask at hdone ⊢
          by_cases hid : t.id = id
          · simp only [hid, if_true] at hdone ⊢
            by_cases hk : t.kind = TKind.fut
            · simp only [hk, if_true]
              have hany : tm.tasks.any (fun t => decide (t.id = id) && decide (t.kind = TKind.fut)) = true := by
                apply List.any_eq_true.mpr
                exact ⟨t, ht, by simp [hid, hk]⟩
              simp [hany, hid]
            · simp only [hk, if_false] at hdone
              exact absurd hdone hold
          · simp only [hid, if_false] at hdone
            exact absurd hdone hold
      · intro c hc a ha
        obtain ⟨t, ht, hid⟩ := h3 c hc a ha
        exact ⟨cancelTask id t, List.mem_map.mpr ⟨t, ht, rfl⟩, (cancelTask_id id t).trans hid⟩
      · intro a ha
        split at ha
        · cases ha
        · cases ha
          obtain ⟨t, ht, hid⟩ := taskDone_false_mem hd
          exact ⟨cancelTask id t, List.mem_map.mpr ⟨t, ht, rfl⟩, (cancelTask_id id t).trans hid⟩

theorem logInv_replace (tm : TM) (n : Nat) (sp : Spec) (h : LogInv tm) : LogInv (tm.replace n sp) := by
  obtain ⟨⟨h1, h2, h3⟩, hex, hcs⟩ := logInv_cancel tm n h
  unfold TM.replace
  refine ⟨h1, h2, ?_⟩
  intro c hc a ha
  simp only at hc
  rcases List.mem_append.mp hc with hc | hc
  · exact h3 c hc a ha
  · simp at hc; subst hc; exact hex a ha

theorem cancelIfTracked_id (m : List (Nat × Nat)) (t : Task) : (cancelIfTracked m t).id = t.id := by
  unfold cancelIfTracked; repeat' split
  all_goals rfl

theorem cancelIfTrackedEv_nostart (m : List (Nat × Nat)) (t : Task) : ∀ e ∈ cancelIfTrackedEv m t, isStart e = false := by
  intro e he
  unfold cancelIfTrackedEv at he
  split at he
  · simp at he; subst he; rfl
  · cases he

theorem cancelIfTracked_newly_done (m : List (Nat × Nat)) (t : Task) (h0 : t.done = false)
    (h1 : (cancelIfTracked m t).done = true) : Ev.fin t.id ∈ cancelIfTrackedEv m t := by
  unfold cancelIfTracked at h1
  unfold cancelIfTrackedEv
  by_cases hm : inMap m t.id = true
  · by_cases hk : t.kind = TKind.fut
    · simp [hm, h0, hk]
    · simp [hm, h0, hk] at h1
  · simp [hm, h0] at h1

theorem logInv_shutdown (tm : TM) (h : LogInv tm) : LogInv tm.shutdownOp := by
  obtain ⟨h1, h2, h3⟩ := h
  unfold TM.shutdownOp
  split
  · exact ⟨h1, h2, h3⟩
  · refine ⟨?_, ?_, ?_⟩
    · apply okLog_append _ _ _ h1
      intro e he
      rcases List.mem_flatMap.mp (List.mem_reverse.mp he) with ⟨t, _, het⟩
      exact cancelIfTrackedEv_nostart tm.map t e het
    · intro t' ht' hd
      rcases List.mem_map.mp ht' with ⟨t, ht, rfl⟩
      rw [cancelIfTracked_id]
      cases hold : t.done with
      | true => exact List.mem_append_right _ (h2 t ht hold)
      | false =>
        apply List.mem_append_left
        apply List.mem_reverse.mpr
        exact List.mem_flatMap.mpr ⟨t, ht, cancelIfTracked_newly_done tm.map t hold hd⟩
    · intro c hc a ha
      obtain ⟨t, ht, hid⟩ := h3 c hc a ha
      exact ⟨_, List.mem_map.mpr ⟨t, ht, rfl⟩, (cancelIfTracked_id tm.map t).trans hid⟩

theorem logInv_pass (tm : TM) (h : LogInv tm) : LogInv tm.pass := by
  -- phase 0: continuations that wait for nothing
  have h0 : LogInv ((tm.conts.filter (fun c => c.after.isNone)).foldl TM.fireCont
      { tm with conts := tm.conts.filter (fun c => c.after.isSome) }) := by
    apply logInv_foldFire
    · obtain ⟨h1, h2, h3⟩ := h
      exact ⟨h1, h2, fun c hc a ha => h3 c (List.mem_filter.mp hc).1 a ha⟩
    · intro c hc a ha
      have := (List.mem_filter.mp hc).2
      simp [ha] at this
  unfold TM.pass
  simp only
  generalize ((tm.conts.filter (fun c => c.after.isNone)).foldl TM.fireCont
      { tm with conts := tm.conts.filter (fun c => c.after.isSome) }) = tm0 at h0 ⊢
  obtain ⟨g1, g2, g3⟩ := h0
  -- phase 1: deliveries
  have hlog : ∀ e ∈ (tm0.tasks.flatMap (deliverEv tm0.now)).reverse, isStart e = false := by
    intro e he
    rcases List.mem_flatMap.mp (List.mem_reverse.mp he) with ⟨t, _, het⟩
    exact deliverEv_nostart tm0.now t e het
  have hdone : ∀ t' ∈ tm0.tasks.map (deliver tm0.now), t'.done = true →
      Ev.fin t'.id ∈ (tm0.tasks.flatMap (deliverEv tm0.now)).reverse ++ tm0.log := by
    intro t' ht' hd
    rcases List.mem_map.mp ht' with ⟨t, ht, rfl⟩
    rw [deliver_id]
    cases hold : t.done with
    | true => exact List.mem_append_right _ (g2 t ht hold)
    | false =>
      apply List.mem_append_left
      apply List.mem_reverse.mpr
      exact List.mem_flatMap.mpr ⟨t, ht, deliver_newly_done tm0.now t hold hd⟩
  have hex : ∀ c ∈ tm0.conts, ∀ a, c.after = some a → ∃ t ∈ tm0.tasks.map (deliver tm0.now), t.id = a := by
    intro c hc a ha
    obtain ⟨t, ht, hid⟩ := g3 c hc a ha
    exact ⟨deliver tm0.now t, List.mem_map.mpr ⟨t, ht, rfl⟩, (deliver_id tm0.now t).trans hid⟩
  apply logInv_foldFire
  · refine ⟨okLog_append _ _ hlog g1, hdone, ?_⟩
    intro c hc a ha
    exact hex c (List.mem_filter.mp hc).1 a ha
  · intro c hc a ha
    have hm := List.mem_filter.mp hc
    have hr : taskDone (tm0.tasks.map (deliver tm0.now)) a = true := by
      have := hm.2
      simpa [contReady, ha] using this
    obtain ⟨t, ht, hid, hd⟩ := taskDone_true_mem (hex c hm.1 a ha) hr
    have := hdone t ht hd
    rw [hid] at this
    exact this

theorem logInv_advance (tm : TM) (h : LogInv tm) : LogInv tm.advance := h

theorem logInv_step (tm : TM) (op : TOp) (h : LogInv tm) : LogInv (tm.step op) := by
  cases op with
  | reg n s => exact logInv_register tm n s h
  | cancel n => exact (logInv_cancel tm n h).1
  | replace n s => exact logInv_replace tm n s h
  | shutdown => exact logInv_shutdown tm h
  | shutdownFrom n =>
    have f := shutdownFrom_fields tm n
    obtain ⟨a, b, c⟩ := logInv_shutdown tm h
    exact ⟨by simp only [TM.step]; rw [f.2.1]; exact a, by simp only [TM.step]; rw [f.1, f.2.1]; exact b,
           by simp only [TM.step]; rw [f.2.2.2.2.1, f.1]; exact c⟩
  | pass => exact logInv_pass tm h
  | settle => exact logInv_pass _ (logInv_pass _ (logInv_pass tm h))
  | tick =>
    simp only [TM.step, TM.tick, TM.settle]
    exact logInv_pass _ (logInv_pass _ (logInv_pass _ (logInv_advance _ (logInv_pass _ (logInv_pass _ (logInv_pass tm h))))))

theorem logInv_run (ops : List TOp) : ∀ (tm : TM), LogInv tm → LogInv (tm.run ops) := by
  induction ops with
  | nil => intro tm h; exact h
  | cons op rest ih => intro tm h; simp only [TM.run, List.foldl_cons]; exact ih _ (logInv_step tm op h)

theorem logInv_init : LogInv ({} : TM) := ⟨trivial, (by intro t ht; cases ht), (by intro c hc; cases hc)⟩


/-! ### service: strategies of an unloaded overlay -/

def SvcForeign (o : Nat) : SOp → Prop
  | .add o' _ => o' ≠ o
  | .unload _ => True

def SvcClean (o : Nat) (s : Svc) : Prop := (∀ e ∈ s.strategies, e.2 ≠ o) ∧ o ∉ s.overlays

theorem svcClean_unload (s : Svc) (o : Nat) : SvcClean o (s.unloadOverlay o) := by
  constructor
  · intro e he
    have := (List.mem_filter.mp he).2
    simpa using this
  · intro hm
    have := (List.mem_filter.mp hm).2
    simp at this

theorem svcClean_step {o : Nat} {s : Svc} {op : SOp} (hf : SvcForeign o op) (h : SvcClean o s) : SvcClean o (s.step op) := by
  obtain ⟨h1, h2⟩ := h
  cases op with
  | add o' sid =>
    constructor
    · intro e he
      simp only [Svc.step, Svc.addStrategy] at he
      rcases List.mem_append.mp he with he | he
      · exact h1 e he
      · simp at he; subst he; exact hf
    · simp only [Svc.step, Svc.addStrategy]
      split
      · exact h2
      · intro hm
        rcases List.mem_append.mp hm with hm | hm
        · exact h2 hm
        · simp at hm; exact hf hm.symm
  | unload o' =>
    constructor
    · intro e he; exact h1 e (List.mem_filter.mp he).1
    · intro hm; exact h2 (List.mem_filter.mp hm).1

theorem svcClean_run {o : Nat} (ops : List SOp) : ∀ (s : Svc), (∀ op ∈ ops, SvcForeign o op) → SvcClean o s → SvcClean o (s.run ops) := by
  induction ops with
  | nil => intro s _ h; exact h
  | cons op rest ih =>
    intro s hf h
    simp only [Svc.run, List.foldl_cons]
    exact ih _ (fun x hx => hf x (List.mem_cons_of_mem _ hx)) (svcClean_step (hf op List.mem_cons_self) h)


/-! ### task manager: what `unload()` really leaves behind (`Quiet`) -/

/-- The state in which `shutdown_task_manager` has set its flag: every unfinished task has its cancellation requested
    (the gathered ones have even finished when the coroutine returns; a task that was cancelled earlier and untracked may
    still be dying). -/
def Quiet (tm : TM) : Prop := tm.shutdown = true ∧ ∀ t ∈ tm.tasks, t.done = true ∨ t.cancelReq = true

def isRun : Ev → Bool
  | .run _ => true
  | _ => false

/-- same number of tasks, same number of body executions -/
def SameWork (a b : TM) : Prop :=
  b.tasks.length = a.tasks.length ∧ (b.log.filter isRun).length = (a.log.filter isRun).length

theorem SameWork.refl (a : TM) : SameWork a a := ⟨rfl, rfl⟩
theorem SameWork.trans {a b c : TM} (h1 : SameWork a b) (h2 : SameWork b c) : SameWork a c :=
  ⟨h2.1.trans h1.1, h2.2.trans h1.2⟩

theorem deliver_keeps (now : Nat) (t : Task) (h : t.done = true ∨ t.cancelReq = true) :
    (deliver now t).done = true ∨ (deliver now t).cancelReq = true := by
  unfold deliver
  rcases h with h | h
  · simp [h]
  · repeat' split
    all_goals simp_all

theorem deliverEv_norun (now : Nat) (t : Task) (h : t.done = true ∨ t.cancelReq = true) :
    (deliverEv now t).filter isRun = [] := by
  unfold deliverEv
  by_cases hd : t.done = true
  · simp [hd]
  · have hc : t.cancelReq = true := by rcases h with h | h; exact absurd h hd; exact h
    simp only [hd, hc, if_true]
    split <;> simp [isRun]

theorem flatMap_norun (now : Nat) (ts : List Task) (h : ∀ t ∈ ts, t.done = true ∨ t.cancelReq = true) :
    ((ts.flatMap (deliverEv now)).reverse).filter isRun = [] := by
  rw [List.filter_reverse]
  induction ts with
  | nil => rfl
  | cons t rest ih =>
    simp only [List.flatMap_cons, List.filter_append, deliverEv_norun now t (h t List.mem_cons_self), List.nil_append]
    exact ih (fun x hx => h x (List.mem_cons_of_mem _ hx))

theorem pass_quiet (tm : TM) (h : Quiet tm) : Quiet tm.pass ∧ SameWork tm tm.pass := by
  obtain ⟨hs, hd⟩ := h
  have e0 : (tm.conts.filter (fun c => c.after.isNone)).foldl TM.fireCont
      { tm with conts := tm.conts.filter (fun c => c.after.isSome) } =
      { tm with conts := tm.conts.filter (fun c => c.after.isSome) } := foldl_fireCont_shutdown _ _ hs
  unfold TM.pass
  simp only [e0]
  rw [foldl_fireCont_shutdown _ _ (by exact hs)]
  refine ⟨⟨hs, ?_⟩, ?_, ?_⟩
  · intro t' ht'
    rcases List.mem_map.mp ht' with ⟨t, ht, rfl⟩
    exact deliver_keeps tm.now t (hd t ht)
  · simp
  · simp only [List.filter_append, flatMap_norun tm.now tm.tasks hd, List.nil_append]

theorem cancelTask_keeps (id : Nat) (t : Task) (h : t.done = true ∨ t.cancelReq = true) :
    (cancelTask id t).done = true ∨ (cancelTask id t).cancelReq = true := by
  unfold cancelTask
  split
  · split
    · left; rfl
    · right; rfl
  · exact h

theorem cancel_quiet (tm : TM) (n : Nat) (h : Quiet tm) : Quiet (tm.cancel n).1 ∧ SameWork tm (tm.cancel n).1 ∧
    (tm.cancel n).1.conts = tm.conts := by
  obtain ⟨hs, hd⟩ := h
  unfold TM.cancel
  cases lookupN tm.map n with
  | none => exact ⟨⟨hs, hd⟩, SameWork.refl tm, rfl⟩
  | some id =>
    simp only
    split
    · exact ⟨⟨hs, hd⟩, SameWork.refl tm, rfl⟩
    · refine ⟨⟨hs, ?_⟩, ⟨by simp, ?_⟩, rfl⟩
      · intro t' ht'
        rcases List.mem_map.mp ht' with ⟨t, ht, rfl⟩
        exact cancelTask_keeps id t (hd t ht)
      · simp only
        split
        · simp [List.filter_cons, isRun]
        · rfl

theorem step_quiet (tm : TM) (op : TOp) (h : Quiet tm) : Quiet (tm.step op) ∧ SameWork tm (tm.step op) := by
  have adv : ∀ x : TM, Quiet x → Quiet x.advance ∧ SameWork x x.advance := fun x hx => ⟨hx, ⟨rfl, rfl⟩⟩
  have p3 : ∀ x : TM, Quiet x → Quiet x.pass.pass.pass ∧ SameWork x x.pass.pass.pass := by
    intro x hx
    have a := pass_quiet x hx
    have b := pass_quiet _ a.1
    have c := pass_quiet _ b.1
    exact ⟨c.1, a.2.trans (b.2.trans c.2)⟩
  cases op with
  | reg n s => simp only [TM.step, register_shutdown tm n s h.1]; exact ⟨h, SameWork.refl tm⟩
  | cancel n => exact ⟨(cancel_quiet tm n h).1, (cancel_quiet tm n h).2.1⟩
  | replace n s =>
    have c := cancel_quiet tm n h
    simp only [TM.step, TM.replace]
    exact ⟨⟨c.1.1, c.1.2⟩, c.2.1⟩
  | shutdown => simp only [TM.step, TM.shutdownOp, h.1, if_true]; exact ⟨h, SameWork.refl tm⟩
  | shutdownFrom n =>
    have f := shutdownFrom_fields tm n
    have e : tm.shutdownOp = tm := by simp only [TM.shutdownOp, h.1, if_true]
    refine ⟨⟨by simp only [TM.step]; rw [f.2.2.1, e]; exact h.1, by simp only [TM.step]; rw [f.1, e]; exact h.2⟩, ?_, ?_⟩
    · simp only [TM.step]; rw [f.1, e]
    · simp only [TM.step]; rw [f.2.1, e]
  | pass => exact pass_quiet tm h
  | settle => exact p3 tm h
  | tick =>
    simp only [TM.step, TM.tick, TM.settle]
    have a := p3 tm h
    have b := adv _ a.1
    have c := p3 _ b.1
    exact ⟨c.1, a.2.trans (b.2.trans c.2)⟩

theorem run_quiet (ops : List TOp) : ∀ (tm : TM), Quiet tm → Quiet (tm.run ops) ∧ SameWork tm (tm.run ops) := by
  induction ops with
  | nil => intro tm h; exact ⟨h, SameWork.refl tm⟩
  | cons op rest ih =>
    intro tm h
    simp only [TM.run, List.foldl_cons]
    have a := step_quiet tm op h
    have b := ih _ a.1
    exact ⟨b.1, a.2.trans b.2⟩


/-! ### task manager: every unfinished task is tracked or has its cancellation requested -/

def IdsOk (tm : TM) : Prop := tm.tasks.map (fun t => t.id) = List.range tm.next

def TrackedT (m : List (Nat × Nat)) (t : Task) : Prop :=
  t.done = true ∨ t.cancelReq = true ∨ lookupN m t.name = some t.id

def Tracked (tm : TM) : Prop := IdsOk tm ∧ ∀ t ∈ tm.tasks, TrackedT tm.map t

theorem taskDone_unique {ts : List Task} (hn : (ts.map (fun t => t.id)).Nodup) {t : Task} (ht : t ∈ ts) :
    taskDone ts t.id = t.done := by
  induction ts with
  | nil => cases ht
  | cons h rest ih =>
    simp only [List.map_cons, List.nodup_cons] at hn
    simp only [taskDone]
    rcases List.mem_cons.mp ht with rfl | hr
    · simp
    · split
      · next hid =>
        exfalso
        exact hn.1 (hid ▸ List.mem_map.mpr ⟨t, hr, rfl⟩)
      · exact ih hn.2 hr

theorem IdsOk.nodup {tm : TM} (h : IdsOk tm) : (tm.tasks.map (fun t => t.id)).Nodup := by
  rw [h]; exact List.nodup_range

theorem lookupN_filter_ne (m : List (Nat × Nat)) (name n : Nat) (h : n ≠ name) :
    lookupN (m.filter (fun e => e.1 != name)) n = lookupN m n := by
  induction m with
  | nil => rfl
  | cons e rest ih =>
    obtain ⟨a, b⟩ := e
    by_cases ha : a = name
    · subst ha
      have hf : List.filter (fun e => e.1 != a) ((a, b) :: rest) = List.filter (fun e => e.1 != a) rest := by
        simp [List.filter_cons]
      rw [hf, ih]
      have hne : ¬ a = n := fun hh => h hh.symm
      simp [lookupN, hne]
    · have hf : List.filter (fun e => e.1 != name) ((a, b) :: rest) = (a, b) :: List.filter (fun e => e.1 != name) rest := by
        simp [List.filter_cons, ha]
      rw [hf]
      simp only [lookupN]
      split
      · rfl
      · exact ih

theorem lookupN_filter_keep (m : List (Nat × Nat)) (keep : Nat × Nat → Bool) (n id : Nat)
    (h : lookupN m n = some id) (hk : keep (n, id) = true) : lookupN (m.filter keep) n = some id := by
  induction m with
  | nil => simp [lookupN] at h
  | cons e rest ih =>
    obtain ⟨a, b⟩ := e
    simp only [lookupN] at h
    split at h
    · next ha =>
      cases h; subst ha
      simp [List.filter_cons, hk, lookupN]
    · next ha =>
      simp only [List.filter_cons]
      split
      · simp only [lookupN, ha, if_false]; exact ih h
      · exact ih h

theorem lookupN_inMap {m : List (Nat × Nat)} {n id : Nat} (h : lookupN m n = some id) : inMap m id = true := by
  induction m with
  | nil => simp [lookupN] at h
  | cons e rest ih =>
    obtain ⟨a, b⟩ := e
    simp only [lookupN] at h
    split at h
    · cases h; simp [inMap]
    · have := ih h
      simp only [inMap, List.any_cons] at this ⊢
      simp [this]

theorem tracked_register (tm : TM) (n : Nat) (sp : Spec) (h : Tracked tm) : Tracked (tm.register n sp).1 := by
  obtain ⟨hi, ht⟩ := h
  unfold TM.register
  split
  · exact ⟨hi, ht⟩
  · split
    · exact ⟨hi, ht⟩
    · next hsd hact =>
      refine ⟨?_, ?_⟩
      · unfold IdsOk at hi ⊢
        simp only [List.map_append, List.map_cons, List.map_nil, hi, mkTask, List.range_succ]
      · intro t htm
        rcases List.mem_append.mp htm with htm | htm
        · rcases ht t htm with hd | hc | hl
          · exact Or.inl hd
          · exact Or.inr (Or.inl hc)
          · by_cases hn : t.name = n
            · cases hd : t.done with
              | true => exact Or.inl hd
              | false =>
                -- the name was not active, so the task it maps to is finished: contradiction
                exfalso
                have hna : tm.isActive n = false := by simpa using hact
                unfold TM.isActive at hna
                rw [← hn, hl] at hna
                simp only [taskDone_unique hi.nodup htm, hd] at hna
                cases hna
            · right; right
              simp only [lookupN]
              rw [if_neg (fun hh => hn hh.symm)]
              rw [lookupN_filter_ne _ _ _ hn]; exact hl
        · simp at htm; subst htm
          right; right
          simp [mkTask, lookupN]


theorem register_shutdown_eq (tm : TM) (n : Nat) (sp : Spec) : (tm.register n sp).1.shutdown = tm.shutdown := by
  unfold TM.register; repeat' split
  all_goals rfl

theorem fireCont_shutdown_eq (tm : TM) (c : Cont) : (tm.fireCont c).shutdown = tm.shutdown := by
  rw [fireCont_eq]
  split
  · exact register_shutdown_eq tm c.name c.spec
  · exact register_shutdown_eq tm c.name c.spec

theorem foldFire_shutdown_eq (cs : List Cont) : ∀ (tm : TM), (cs.foldl TM.fireCont tm).shutdown = tm.shutdown := by
  induction cs with
  | nil => intro tm; rfl
  | cons c rest ih => intro tm; simp only [List.foldl_cons]; rw [ih, fireCont_shutdown_eq]

theorem pass_shutdown_eq (tm : TM) : tm.pass.shutdown = tm.shutdown := by
  unfold TM.pass
  simp only
  rw [foldFire_shutdown_eq]
  simp only
  rw [foldFire_shutdown_eq]

theorem pass_shutdown_false (tm : TM) (h : tm.shutdown = false) (hs : (tm.step .pass).shutdown = true) : False := by
  simp only [TM.step] at hs
  rw [pass_shutdown_eq, h] at hs; cases hs

theorem tracked_fireCont (tm : TM) (c : Cont) (h : Tracked tm) : Tracked (tm.fireCont c) := by
  have hr := tracked_register tm c.name c.spec h
  rw [fireCont_eq]
  split
  · exact ⟨hr.1, hr.2⟩
  · exact hr

theorem tracked_foldFire (cs : List Cont) : ∀ (tm : TM), Tracked tm → Tracked (cs.foldl TM.fireCont tm) := by
  induction cs with
  | nil => intro tm h; exact h
  | cons c rest ih => intro tm h; exact ih _ (tracked_fireCont tm c h)

theorem cancelTask_fields (id : Nat) (t : Task) : (cancelTask id t).name = t.name ∧
    (t.done = true → (cancelTask id t).done = true) ∧ (t.cancelReq = true → (cancelTask id t).cancelReq = true) ∧
    (t.id = id → (cancelTask id t).cancelReq = true) := by
  unfold cancelTask
  repeat' split
  all_goals simp_all

theorem tracked_cancel (tm : TM) (n : Nat) (h : Tracked tm) : Tracked (tm.cancel n).1 := by
  obtain ⟨hi, ht⟩ := h
  unfold TM.cancel
  cases hl : lookupN tm.map n with
  | none => exact ⟨hi, ht⟩
  | some id =>
    simp only
    split
    · exact ⟨hi, ht⟩
    · refine ⟨?_, ?_⟩
      · unfold IdsOk at hi ⊢
        simp only [List.map_map]
        rw [← hi]
        apply List.map_congr_left
        intro t _
        exact cancelTask_id id t
      · intro t' ht'
        rcases List.mem_map.mp ht' with ⟨t, htm, rfl⟩
        have f := cancelTask_fields id t
        rcases ht t htm with hd | hc | hlk
        · exact Or.inl (f.2.1 hd)
        · exact Or.inr (Or.inl (f.2.2.1 hc))
        · by_cases hn : t.name = n
          · -- the name maps to this very task: it is the one being cancelled
            have : t.id = id := by rw [hn, hl] at hlk; exact (Option.some.inj hlk).symm
            exact Or.inr (Or.inl (f.2.2.2 this))
          · right; right
            rw [f.1, cancelTask_id, lookupN_filter_ne _ _ _ hn]; exact hlk

theorem tracked_replace (tm : TM) (n : Nat) (sp : Spec) (h : Tracked tm) : Tracked (tm.replace n sp) := by
  have := tracked_cancel tm n h
  exact ⟨this.1, this.2⟩

theorem cancelIfTracked_fields (m : List (Nat × Nat)) (t : Task) :
    (t.done = true → (cancelIfTracked m t).done = true) ∧ (t.cancelReq = true → (cancelIfTracked m t).cancelReq = true) ∧
    (inMap m t.id = true → t.done = false → (cancelIfTracked m t).cancelReq = true) := by
  unfold cancelIfTracked
  repeat' split
  all_goals simp_all

/-- the first `shutdown_task_manager` of a manager in which every unfinished task is tracked leaves it `Quiet` -/
theorem quiet_of_tracked_shutdown (tm : TM) (h : Tracked tm) (hs : tm.shutdown = false) : Quiet tm.shutdownOp := by
  unfold TM.shutdownOp
  simp only [hs, Bool.false_eq_true, if_false]
  refine ⟨rfl, ?_⟩
  intro t' ht'
  rcases List.mem_map.mp ht' with ⟨t, htm, rfl⟩
  have f := cancelIfTracked_fields tm.map t
  rcases h.2 t htm with hd | hc | hlk
  · exact Or.inl (f.1 hd)
  · exact Or.inr (f.2.1 hc)
  · cases hd : t.done with
    | true => exact Or.inl (f.1 hd)
    | false => exact Or.inr (f.2.2 (lookupN_inMap hlk) hd)

theorem tracked_shutdown (tm : TM) (h : Tracked tm) : Tracked tm.shutdownOp := by
  by_cases hs : tm.shutdown = true
  · simp only [TM.shutdownOp, hs, if_true]; exact h
  · have hs' : tm.shutdown = false := by simpa using hs
    have hq := quiet_of_tracked_shutdown tm h hs'
    refine ⟨?_, ?_⟩
    · have hi := h.1
      unfold IdsOk at hi ⊢
      simp only [TM.shutdownOp, hs', Bool.false_eq_true, if_false, List.map_map]
      rw [← hi]
      apply List.map_congr_left
      intro t _
      exact cancelIfTracked_id tm.map t
    · intro t ht
      rcases hq.2 t ht with hd | hc
      · exact Or.inl hd
      · exact Or.inr (Or.inl hc)

theorem deliver_fields (now : Nat) (t : Task) : (deliver now t).name = t.name ∧
    (t.cancelReq = true → (deliver now t).cancelReq = true) ∧ (t.done = true → (deliver now t).done = true) := by
  unfold deliver
  repeat' split
  all_goals simp_all

theorem tracked_pass (tm : TM) (h : Tracked tm) : Tracked tm.pass := by
  have h0 : Tracked ((tm.conts.filter (fun c => c.after.isNone)).foldl TM.fireCont
      { tm with conts := tm.conts.filter (fun c => c.after.isSome) }) :=
    tracked_foldFire _ _ ⟨h.1, h.2⟩
  unfold TM.pass
  simp only
  generalize ((tm.conts.filter (fun c => c.after.isNone)).foldl TM.fireCont
      { tm with conts := tm.conts.filter (fun c => c.after.isSome) }) = tm0 at h0 ⊢
  apply tracked_foldFire
  obtain ⟨hi, ht⟩ := h0
  have hi' : (tm0.tasks.map (deliver tm0.now)).map (fun t => t.id) = List.range tm0.next := by
    unfold IdsOk at hi
    rw [← hi, List.map_map]
    apply List.map_congr_left
    intro t _
    exact deliver_id tm0.now t
  refine ⟨hi', ?_⟩
  intro t' ht'
  rcases List.mem_map.mp ht' with ⟨t, htm, rfl⟩
  have f := deliver_fields tm0.now t
  rcases ht t htm with hd | hc | hlk
  · exact Or.inl (f.2.2 hd)
  · exact Or.inr (Or.inl (f.2.1 hc))
  · cases hd' : (deliver tm0.now t).done with
    | true => exact Or.inl hd'
    | false =>
      right; right
      rw [f.1, deliver_id]
      apply lookupN_filter_keep _ _ _ _ hlk
      have hn : ((tm0.tasks.map (deliver tm0.now)).map (fun t => t.id)).Nodup := by rw [hi']; exact List.nodup_range
      have := taskDone_unique hn ht'
      rw [deliver_id] at this
      simp [this, hd']

theorem tracked_advance (tm : TM) (h : Tracked tm) : Tracked tm.advance := ⟨h.1, h.2⟩

theorem tracked_step (tm : TM) (op : TOp) (h : Tracked tm) : Tracked (tm.step op) := by
  cases op with
  | reg n s => exact tracked_register tm n s h
  | cancel n => exact tracked_cancel tm n h
  | replace n s => exact tracked_replace tm n s h
  | shutdown => exact tracked_shutdown tm h
  | shutdownFrom n =>
    have f := shutdownFrom_fields tm n
    obtain ⟨a, b⟩ := tracked_shutdown tm h
    refine ⟨?_, ?_⟩
    · unfold IdsOk at a ⊢; simp only [TM.step]; rw [f.1, f.2.2.2.2.2]; exact a
    · simp only [TM.step]; rw [f.1, f.2.2.2.1]; exact b
  | pass => exact tracked_pass tm h
  | settle => exact tracked_pass _ (tracked_pass _ (tracked_pass tm h))
  | tick =>
    simp only [TM.step, TM.tick, TM.settle]
    have a := tracked_pass _ (tracked_pass _ (tracked_pass tm h))
    have b := tracked_advance _ a
    exact tracked_pass _ (tracked_pass _ (tracked_pass _ b))

theorem tracked_run (ops : List TOp) : ∀ (tm : TM), Tracked tm → Tracked (tm.run ops) := by
  induction ops with
  | nil => intro tm h; exact h
  | cons op rest ih => intro tm h; simp only [TM.run, List.foldl_cons]; exact ih _ (tracked_step tm op h)

theorem tracked_init : Tracked ({} : TM) := ⟨rfl, (by intro t ht; cases ht)⟩

/-- the flag is only ever set by `shutdownOp`, which leaves the manager `Quiet`; `Quiet` is kept by every operation -/
theorem quiet_when_shutdown (ops : List TOp) : ∀ (tm : TM), Tracked tm → (tm.shutdown = true → Quiet tm) →
    ((tm.run ops).shutdown = true → Quiet (tm.run ops)) := by
  induction ops with
  | nil => intro tm _ h; exact h
  | cons op rest ih =>
    intro tm ht hq
    simp only [TM.run, List.foldl_cons]
    apply ih _ (tracked_step tm op ht)
    intro hs
    by_cases hs0 : tm.shutdown = true
    · exact (step_quiet tm op (hq hs0)).1
    · have hs0' : tm.shutdown = false := by simpa using hs0
      cases op with
      | shutdown => exact quiet_of_tracked_shutdown tm ht hs0'
      | shutdownFrom n =>
        have f := shutdownFrom_fields tm n
        have q := quiet_of_tracked_shutdown tm ht hs0'
        exact ⟨by simp only [TM.step]; rw [f.2.2.1]; exact q.1, by simp only [TM.step]; rw [f.1]; exact q.2⟩
      | reg n s =>
        exfalso
        have : (tm.step (.reg n s)).shutdown = tm.shutdown := by
          simp only [TM.step, TM.register]; repeat' split
          all_goals rfl
        rw [this, hs0'] at hs; cases hs
      | cancel n =>
        exfalso
        have : (tm.step (.cancel n)).shutdown = tm.shutdown := by
          simp only [TM.step, TM.cancel]; repeat' split
          all_goals rfl
        rw [this, hs0'] at hs; cases hs
      | replace n s =>
        exfalso
        have : (tm.step (.replace n s)).shutdown = tm.shutdown := by
          simp only [TM.step, TM.replace, TM.cancel]; repeat' split
          all_goals rfl
        rw [this, hs0'] at hs; cases hs
      | pass => exfalso; exact pass_shutdown_false tm hs0' hs
      | settle =>
        exfalso
        have a := pass_shutdown_eq tm
        have b := pass_shutdown_eq tm.pass
        have c := pass_shutdown_eq tm.pass.pass
        simp only [TM.step, TM.settle] at hs
        rw [c, b, a, hs0'] at hs; cases hs
      | tick =>
        exfalso
        simp only [TM.step, TM.tick, TM.settle, TM.advance] at hs
        rw [pass_shutdown_eq, pass_shutdown_eq, pass_shutdown_eq] at hs
        simp only at hs
        rw [pass_shutdown_eq, pass_shutdown_eq, pass_shutdown_eq, hs0'] at hs; cases hs


/-! ### closing the hypotheses of the registry theorems for the shipped classes -/

theorem step_flags (w : World) (op : ROp) : (w.step op).fwdRemove = w.fwdRemove ∧ (w.step op).fwdAdd = w.fwdAdd := by
  cases op with
  | add v l =>
    cases v
    · exact ⟨rfl, rfl⟩
    · simp only [World.step]; split <;> exact ⟨rfl, rfl⟩
  | addPrefix v l p =>
    cases v
    · exact ⟨rfl, rfl⟩
    · simp only [World.step]; split <;> exact ⟨rfl, rfl⟩
  | remove v l =>
    cases v
    · exact ⟨rfl, rfl⟩
    · simp only [World.step]; split <;> exact ⟨rfl, rfl⟩
  | _ => exact ⟨rfl, rfl⟩

theorem run_flags (ops : List ROp) : ∀ (w : World), (w.run ops).fwdRemove = w.fwdRemove := by
  induction ops with
  | nil => intro w; rfl
  | cons op rest ih => intro w; simp only [World.run, List.foldl_cons]; exact (ih _).trans (step_flags w op).1

/-- registry operations that do not touch the proxy relation / the endpoint's back reference -/
theorem step_keeps_fwd_ref (w : World) (op : ROp)
    (h : match op with | .setFwd _ _ => False | .clearFwd _ => False | .setRef _ => False | _ => True) :
    (w.step op).fwd = w.fwd ∧ (w.step op).tunnelRef = w.tunnelRef := by
  cases op with
  | add v l =>
    cases v
    · exact ⟨rfl, rfl⟩
    · simp only [World.step]; split <;> exact ⟨rfl, rfl⟩
  | addPrefix v l p =>
    cases v
    · exact ⟨rfl, rfl⟩
    · simp only [World.step]; split <;> exact ⟨rfl, rfl⟩
  | remove v l =>
    cases v
    · exact ⟨rfl, rfl⟩
    · simp only [World.step]; split <;> exact ⟨rfl, rfl⟩
  | setOpen b => exact ⟨rfl, rfl⟩
  | setAnon l b => exact ⟨rfl, rfl⟩
  | setFwd a b => exact absurd h id
  | clearFwd a => exact absurd h id
  | setRef r => exact absurd h id

/-- what the constructor chain of a class leaves in the proxy relation and the back reference, on a world in which nothing
    referred to the new overlay before -/
theorem loadOps_fwd_ref (c : ClassInfo) (viaOuter : Bool) (self proxy : Lid) (pfx : Pfx) (w : World)
    (h1 : NoFwdTo self w) (h2 : w.tunnelRef ≠ some self) :
    (∀ e ∈ (w.run (loadOps c viaOuter self proxy pfx)).fwd, e.2 = self → (c.installsProxy = true ∧ e.1 = proxy)) ∧
    ((w.run (loadOps c viaOuter self proxy pfx)).tunnelRef = some self → c.installsProxy = true) := by
  have k := fun (w : World) (op : ROp) h => step_keeps_fwd_ref w op h
  cases hp : c.installsProxy
  · -- three registry operations only
    simp only [loadOps, hp, World.run, List.foldl_cons, List.foldl_nil, List.append_nil, Bool.false_eq_true, if_false]
    have a1 := k w (.add viaOuter self) trivial
    have a2 := k (w.step (.add viaOuter self)) (.remove viaOuter self) trivial
    have a3 := k ((w.step (.add viaOuter self)).step (.remove viaOuter self)) (.addPrefix viaOuter self pfx) trivial
    refine ⟨?_, ?_⟩
    · intro e he h; rw [a3.1, a2.1, a1.1] at he; exact absurd h (h1 e he)
    · intro h; rw [a3.2, a2.2, a1.2] at h; exact absurd h h2
  · refine ⟨?_, fun _ => rfl⟩
    -- registry operations, then `setFwd proxy self`, then possibly `setRef (some self)`
    intro e he h
    refine ⟨rfl, ?_⟩
    -- split the op list at `setFwd proxy self`
    let six : List ROp := [.add viaOuter self, .remove viaOuter self, .addPrefix viaOuter self pfx, .remove viaOuter self,
                           .remove viaOuter proxy, .addPrefix viaOuter proxy pfx]
    have hsplit : loadOps c viaOuter self proxy pfx =
        six ++ (ROp.setFwd proxy self :: (if viaOuter then [ROp.setRef (some self)] else [])) := by
      simp [loadOps, hp, six]
    have hw6 : (w.run six).fwd = w.fwd := by
      simp only [six, World.run, List.foldl_cons, List.foldl_nil]
      rw [(k _ (.addPrefix viaOuter proxy pfx) trivial).1, (k _ (.remove viaOuter proxy) trivial).1,
          (k _ (.remove viaOuter self) trivial).1, (k _ (.addPrefix viaOuter self pfx) trivial).1,
          (k _ (.remove viaOuter self) trivial).1, (k _ (.add viaOuter self) trivial).1]
    have happ : w.run (six ++ (ROp.setFwd proxy self :: (if viaOuter then [ROp.setRef (some self)] else []))) =
        (w.run six).run (ROp.setFwd proxy self :: (if viaOuter then [ROp.setRef (some self)] else [])) := by
      simp [World.run, List.foldl_append]
    rw [hsplit, happ] at he
    generalize w.run six = w0 at he hw6
    have hbase : ∀ e ∈ (w0.step (.setFwd proxy self)).fwd, e.2 = self → e.1 = proxy := by
      intro e he h
      simp only [World.step] at he
      rcases List.mem_cons.mp he with rfl | he
      · rfl
      · have hm := List.mem_filter.mp he
        rw [hw6] at hm
        exact absurd h (h1 e hm.1)
    cases viaOuter
    · simp only [Bool.false_eq_true, if_false, World.run, List.foldl_cons, List.foldl_nil] at he
      exact hbase e he h
    · simp only [if_true, World.run, List.foldl_cons, List.foldl_nil] at he
      exact hbase e he h


/-- for a script without `if self._shutdown: return` the control-flow-aware run is the plain run -/
theorem runG_eq_run (sl : RemKind → Bool → Bool) (acq : Nat → Nat) :
    ∀ (script : List UOp) (s : UState), UOp.returnIfDown ∉ script → s.runG sl acq script = s.run sl acq script := by
  intro script
  induction script with
  | nil => intro s _; rfl
  | cons op rest ih =>
    intro s h
    have hop : op ≠ UOp.returnIfDown := fun e => h (e ▸ List.mem_cons_self)
    have hr : UOp.returnIfDown ∉ rest := fun m => h (List.mem_cons_of_mem _ m)
    simp only [UState.runG, UState.run, List.foldl_cons]
    have : (decide (op = UOp.returnIfDown) && s.tmDown) = false := by simp [hop]
    rw [this]
    simp only [Bool.false_eq_true, if_false]
    exact ih _ hr

end Ipv8.C11
