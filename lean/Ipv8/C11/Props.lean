/-
  C11 — an unloaded overlay is silent and holds no resources: the property theorems.

  Everything here is about the model (Ipv8/C11/Model.lean) and the definitions regenerated from the source
  (Ipv8/C11/GenOverlays.lean); the tie to the Python code is the translator plus the correspondence run of harness/c11.py.
-/
import Ipv8.C11.Model
import Ipv8.C11.Lemmas
import Ipv8.C11.GenOverlays
namespace Ipv8.C11

/-! ## 1. The listener registry -/

/-- **silent_after_unload** — for every registry history (any world `w`), once `remove_listener(o)` has run — through the
    plain endpoint, or through a TunnelEndpoint that forwards removals — and no proxy hands packets to `o`, then after
    ANY later sequence of registry operations by other parties (unbounded), a datagram of ANY prefix reaches neither
    `o` nor a listener that forwards to `o`. -/
theorem silent_after_unload (w : World) (o : Lid) (viaOuter : Bool) (ops : List ROp) (p : Pfx)
    (hstack : viaOuter = true → w.fwdRemove = true)
    (hfwd : NoFwdTo o w)
    (hops : ∀ op ∈ ops, Foreign o op) :
    o ∉ ((w.step (.remove viaOuter o)).run ops).reach p := by
  apply silent_reach
  apply silent_run ops _ hops
  refine ⟨?_, ?_⟩
  · cases viaOuter
    · exact absent_remove_self o w.inner
    · simp only [World.step, hstack rfl, if_true]; exact absent_remove_self o w.inner
  · intro e he
    rw [(step_remove_fwd w viaOuter o).1] at he
    exact hfwd e he

/-- the hypotheses of `silent_after_unload` are satisfiable by a non-trivial history: an overlay that was a generic and
    a prefix listener, foreign listeners coming and going afterwards -/
example : (1 : Lid) ∉ (((({ } : World).run [.add true 1, .addPrefix true 1 7, .add false 2]).step (.remove true 1)).run
    [.addPrefix false 2 7, .add false 3, .remove false 2, .setFwd 5 3]).reach 7 := by decide

/-- what goes wrong without the forwarding (the defect of the unrepaired TunnelEndpoint): the hypothesis `hstack` cannot
    be dropped -/
example : (1 : Lid) ∈ (((({ fwdRemove := false } : World).run [.add true 1]).step (.remove true 1))).reach 7 := by decide

/-- and a proxy that still forwards reaches the overlay although the overlay itself was removed (`hfwd` is needed) -/
example : (1 : Lid) ∈ (((({ } : World).run [.addPrefix false 1 7, .addPrefix false 5 7, .setFwd 5 1]).step
    (.remove false 1))).reach 7 := by decide

/-! ## 2. The generated facts about the source -/

/-- TunnelEndpoint forwards both directions of listener management (regenerated from anonymization/endpoint.py) -/
theorem tunnel_endpoint_forwards_listener_ops :
    Gen.tunnelEndpointForwardsAdd = true ∧ Gen.tunnelEndpointForwardsRemove = true := by decide

/- (not an obligation of C11) `∀ k delay, Gen.removalSleeps k true delay = false` — "remove_now removes now" — holds for the
   repaired remove_* tasks; since TunnelCommunity.unload releases what cancelled removal tasks leave behind, C11 does
   not depend on it: `unload_releases_everything` below holds for every sleep guard `sl`. -/

/-- syntactic check of an unload script: every teardown step that the class needs occurs in it -/
def scriptOk (c : ClassInfo) : Bool :=
  c.script.contains .removeSelf && c.script.contains .tmShutdown
  && (!c.hasCache || c.script.contains .cacheShutdown)
  && (!c.installsProxy || (c.script.contains .removeProxy && c.script.contains .clearFwd
        && c.script.contains .closeExitSockets))

/-- every shipped overlay class (list regenerated from the source) has a complete unload script -/
theorem all_unload_scripts_complete : ∀ c ∈ Gen.classes, scriptOk c = true := by decide

/-- the class list is not empty and contains the tunnel overlays (non-vacuity of the quantifier above) -/
example : Gen.classes.length ≥ 8 ∧ (Gen.classes.any (fun c => c.installsProxy)) = true := by decide

/-! ## 3. Unload scripts: for every state of the overlay -/

/-- **unload_releases_everything** — for every class with a complete script and EVERY state in which unload is requested
    (any registry contents, any number of circuits / relays / exit sockets, any unfinished removal tasks, any
    `remove_tunnel_delay`, plain or wrapped endpoint): after the script has run the overlay is unreachable in the
    registry, its task manager and request cache are shut down, no removal task is left, and (tunnel overlays) no exit
    socket is open; and whatever table-clearing / database-closing statements the script contains have taken effect. -/
theorem unload_releases_everything (c : ClassInfo) (hc : scriptOk c = true) (sl : RemKind → Bool → Bool) (s : UState)
    (hstack : s.viaOuter = true → s.w.fwdRemove = true)
    (hfwd : ∀ e ∈ s.w.fwd, e.2 = s.self → (c.installsProxy = true ∧ e.1 = s.proxy)) :
    let s' := s.run sl c.script
    Silent s.self s'.w ∧ s'.tmDown = true ∧ s'.removals = [] ∧ (c.hasCache = true → s'.cacheDown = true) ∧
    (c.installsProxy = true → s'.openExit = 0) ∧
    (UOp.closeDb ∈ c.script → s'.dbClosed = true) ∧
    (UOp.clearTable .remCircuit ∈ c.script → s'.circuits = 0) ∧ (UOp.clearTable .remRelay ∈ c.script → s'.relays = 0) ∧
    (UOp.clearTable .remExit ∈ c.script → s'.exits = 0) := by
  intro s'
  simp only [scriptOk, Bool.and_eq_true, Bool.or_eq_true, Bool.not_eq_true', List.contains_iff_mem] at hc
  obtain ⟨⟨⟨hself, htm⟩, hcache⟩, hproxy⟩ := hc
  have hframe : UFrame s.self s.proxy s := by
    refine ⟨rfl, rfl, hstack, ?_⟩
    intro e he h2; exact (hfwd e he h2).2
  have hI := fun (t : UState) (a : UOp) (h : UFrame s.self s.proxy t) => uframe_step sl s.self s.proxy t a h
  -- Absent
  have habs : Absent s.self s'.w.inner :=
    foldl_establish (UState.step sl) (UFrame s.self s.proxy) (fun t => Absent s.self t.w.inner) .removeSelf hI
      (fun t a _ h => absent_ustep sl s.self t a h)
      (fun t ht => by
        obtain ⟨h1, _, h3, _⟩ := ht
        simp only [UState.step, h1]
        cases hv : t.viaOuter
        · exact absent_remove_self s.self t.w.inner
        · simp only [World.step, h3 hv, if_true]; exact absent_remove_self s.self t.w.inner)
      c.script s hframe hself
  -- no forwarder
  have hnf : NoFwdTo s.self s'.w := by
    cases hp : c.installsProxy
    · exact foldl_preserve (UState.step sl) (fun t => NoFwdTo s.self t.w) (fun t a h => nofwd_ustep sl s.self t a h)
        c.script s (fun e he h2 => by have := (hfwd e he h2).1; simp [hp] at this)
    · have hcl : UOp.clearFwd ∈ c.script := by
        rcases hproxy with h | h
        · simp [hp] at h
        · exact h.1.2
      exact foldl_establish (UState.step sl) (UFrame s.self s.proxy) (fun t => NoFwdTo s.self t.w) .clearFwd hI
        (fun t a _ h => nofwd_ustep sl s.self t a h)
        (fun t ht => by
          obtain ⟨_, h2, _, h4⟩ := ht
          intro e he
          simp only [UState.step, World.step] at he
          have hm := List.mem_filter.mp he
          intro h2'
          have := h4 e hm.1 h2'
          simp [this, h2] at hm)
        c.script s hframe hcl
  -- task manager down, no removal task left
  have htmd : s'.tmDown = true ∧ s'.removals = [] :=
    foldl_establish (UState.step sl) (fun _ => True) (fun t => t.tmDown = true ∧ t.removals = []) .tmShutdown
      (fun _ _ _ => trivial)
      (fun t a _ h => by
        obtain ⟨h1, h2⟩ := h
        cases a with
        | spawnRemovals k n cl => simp [UState.step, h1, h2]
        | awaitRemovals =>
          have f := finishAll_frame t.removals { t with removals := [] }
          simp only [UState.step]
          exact ⟨f.2.2.2.2.1.trans h1, f.2.2.2.2.2.2.2.1⟩
        | clearTable k => cases k <;> exact ⟨h1, h2⟩
        | _ => simp [UState.step, h1, h2])
      (fun t _ => by simp [UState.step])
      c.script s trivial htm
  have mono : ∀ (P : UState → Prop), (∀ (t : UState) (a : UOp), P t → P (t.step sl a)) → ∀ a₀, (∀ t : UState, P (t.step sl a₀)) → a₀ ∈ c.script → P s' :=
    fun P hP a₀ h₀ hm =>
      foldl_establish (UState.step sl) (fun _ => True) P a₀ (fun _ _ _ => trivial) (fun t a _ h => hP t a h)
        (fun t _ => h₀ t) c.script s trivial hm
  refine ⟨⟨habs, hnf⟩, htmd.1, htmd.2, ?_, ?_, ?_, ?_, ?_, ?_⟩
  · intro hcc
    have hm : UOp.cacheShutdown ∈ c.script := by
      rcases hcache with h | h
      · simp [hcc] at h
      · exact h
    refine mono (fun t => t.cacheDown = true) ?_ .cacheShutdown (fun t => by simp [UState.step]) hm
    intro t a h
    cases a with
    | spawnRemovals k n cl => simp only [UState.step]; split <;> exact h
    | awaitRemovals =>
      simp only [UState.step]; exact (finishAll_frame t.removals { t with removals := [] }).2.2.2.2.2.1.trans h
    | clearTable k => cases k <;> exact h
    | _ => simp [UState.step, h]
  · intro hp
    have hce : UOp.closeExitSockets ∈ c.script := by
      rcases hproxy with h | h
      · simp [hp] at h
      · exact h.2
    refine mono (fun t => t.openExit = 0) ?_ .closeExitSockets (fun t => by simp [UState.step]) hce
    intro t a h
    cases a with
    | spawnRemovals k n cl => simp only [UState.step]; split <;> exact h
    | awaitRemovals =>
      simp only [UState.step]; exact (finishAll_frame t.removals { t with removals := [] }).2.2.2.2.2.2.2.2.1 h
    | clearTable k => cases k <;> exact h
    | _ => simp [UState.step, h]
  · intro hm
    refine mono (fun t => t.dbClosed = true) ?_ .closeDb (fun t => by simp [UState.step]) hm
    intro t a h
    cases a with
    | spawnRemovals k n cl => simp only [UState.step]; split <;> exact h
    | awaitRemovals =>
      simp only [UState.step]; exact (finishAll_frame t.removals { t with removals := [] }).2.2.2.2.2.2.1.trans h
    | clearTable k => cases k <;> exact h
    | _ => simp [UState.step, h]
  · intro hc1
    refine mono (fun t => t.circuits = 0) ?_ (.clearTable .remCircuit) (fun t => by simp [UState.step, UState.clear]) hc1
    intro t a h
    cases a with
    | spawnRemovals k n cl => simp only [UState.step]; split <;> exact h
    | awaitRemovals =>
      simp only [UState.step]; exact (finishAll_frame t.removals { t with removals := [] }).2.2.2.2.2.2.2.2.2.1 h
    | clearTable k => cases k <;> simp [UState.step, UState.clear, h]
    | _ => simp [UState.step, h]
  · intro hc2
    refine mono (fun t => t.relays = 0) ?_ (.clearTable .remRelay) (fun t => by simp [UState.step, UState.clear]) hc2
    intro t a h
    cases a with
    | spawnRemovals k n cl => simp only [UState.step]; split <;> exact h
    | awaitRemovals =>
      simp only [UState.step]; exact (finishAll_frame t.removals { t with removals := [] }).2.2.2.2.2.2.2.2.2.2.1 h
    | clearTable k => cases k <;> simp [UState.step, UState.clear, h]
    | _ => simp [UState.step, h]
  · intro hc3
    refine mono (fun t => t.exits = 0) ?_ (.clearTable .remExit) (fun t => by simp [UState.step, UState.clear]) hc3
    intro t a h
    cases a with
    | spawnRemovals k n cl => simp only [UState.step]; split <;> exact h
    | awaitRemovals =>
      simp only [UState.step]; exact (finishAll_frame t.removals { t with removals := [] }).2.2.2.2.2.2.2.2.2.2.2 h
    | clearTable k => cases k <;> simp [UState.step, UState.clear, h]
    | _ => simp [UState.step, h]

/-- the hypotheses of `unload_releases_everything` hold for a concrete loaded tunnel overlay on a wrapped endpoint with
    live circuits and an open exit socket, and the conclusion is not vacuous there -/
example :
    let c : ClassInfo := (Gen.classes.find? (fun c => c.name == "TunnelCommunity")).getD ⟨"", false, false, false, []⟩
    let w : World := ({ } : World).run ([.add false 3] ++ loadOps c true 1 2 7)
    let s : UState := { w := w, self := 1, proxy := 2, viaOuter := true, circuits := 2, relays := 1, exits := 1, openExit := 1 }
    scriptOk c = true ∧ (1 ∈ w.reach 7) ∧ (s.viaOuter = true → s.w.fwdRemove = true) ∧
    (∀ e ∈ s.w.fwd, e.2 = s.self → (c.installsProxy = true ∧ e.1 = s.proxy)) ∧
    (1 ∉ (s.run (fun k now => Gen.removalSleeps k now Gen.defaultRemoveDelay) c.script).w.reach 7) := by decide

/-! ## 4. Task manager -/

/-- **active_name_refused** — while the manager is loaded, registering under a name whose task has not finished is
    refused (`RuntimeError`) and changes nothing, for every state and every kind of task. -/
theorem active_name_refused (tm : TM) (n : Nat) (s : Spec) (hs : tm.shutdown = false) (ha : tm.isActive n = true) :
    tm.register n s = (tm, .exists) := by
  simp [TM.register, hs, ha]

example : ((({ } : TM).register 1 { kind := .interval, delay := 0, ivl := 5 }).1.pass).isActive 1 = true := by decide

/-- a name whose task was cancelled is free at once although the old task is still finishing; the old task's
    done-callback does not untrack the newcomer (mirrors the repaired `done_cb`) -/
example : ((({ } : TM).run [.reg 1 { kind := .long, stub := 2 }, .pass, .cancel 1, .reg 1 { kind := .interval, ivl := 5 },
    .tick, .tick, .tick]).isActive 1) = true := by decide

/-- **no_task_after_shutdown** — once the manager is shut down and every task it ever created has finished (the state
    in which `unload()` returns), then for EVERY later sequence of operations and loop passes: no task is created, the
    event log gains no entry (no body, timer or continuation runs), and every registration is refused. -/
theorem no_task_after_shutdown (tm : TM) (h : Dead tm) (ops : List TOp) :
    Dead (tm.run ops) ∧ (tm.run ops).tasks = tm.tasks ∧ (tm.run ops).log = tm.log ∧
    ∀ n s, ((tm.run ops).register n s).2 = .refused := by
  have hs := run_dead ops tm h
  have hd := h.of_same hs
  refine ⟨hd, hs.1, hs.2.1, ?_⟩
  intro n s
  rw [register_shutdown _ n s hd.1]

/-- the dead state is reached by an ordinary history: periodic, delayed, long-running (slow to die) and replaced tasks,
    then shutdown and a few seconds -/
example : Dead (({ } : TM).run [.reg 1 { kind := .interval, delay := 0, ivl := 2 }, .reg 2 { kind := .long, stub := 2 },
    .reg 3 { kind := .delayed, delay := 9 }, .tick, .replace 2 { kind := .imm }, .reg 4 { kind := .fut },
    .shutdown, .tick, .tick, .tick]) := by unfold Dead; decide

/-- shutdown requests the cancellation of every task that is tracked and unfinished -/
theorem shutdown_cancels_every_tracked_task (tm : TM) (hs : tm.shutdown = false) :
    tm.shutdownOp.shutdown = true ∧ tm.shutdownOp.map = [] ∧
    ∀ t ∈ tm.tasks, inMap tm.map t.id = true → t.done = false →
      ∃ t' ∈ tm.shutdownOp.tasks, t'.id = t.id ∧ t'.cancelReq = true := by
  simp only [TM.shutdownOp, hs, Bool.false_eq_true, if_false, true_and]
  intro t ht hm hd
  exact ⟨{ t with cancelReq := true }, List.mem_map.mpr ⟨t, ht, by simp [hm, hd]⟩, rfl, rfl⟩

/-- a task whose cancellation was requested never runs its body or another interval round -/
theorem cancelled_task_never_runs (now : Nat) (t : Task) (hc : t.cancelReq = true) :
    ∀ e ∈ deliverEv now t, e ≠ Ev.run t.id := by
  intro e he
  unfold deliverEv at he
  simp only [hc, if_true] at he
  split at he
  · cases he
  · split at he
    · simp at he; subst he; simp
    · cases he

/-- **replace_runs_after_old_finished** — in every history from the initial state (unbounded), every task that was
    created by a `replace_task` continuation waiting for an old task appears in the event log after the entry that says
    that the old task has finished. -/
theorem replace_runs_after_old_finished (ops : List TOp) : okLog (({ } : TM).run ops).log :=
  (logInv_run ops _ logInv_init).1

/-- `replace_task` itself starts nothing: the new task is only created by a later loop pass -/
theorem replace_starts_nothing (tm : TM) (n : Nat) (s : Spec) :
    (tm.replace n s).tasks.length = tm.tasks.length ∧ (tm.replace n s).next = tm.next := by
  unfold TM.replace TM.cancel
  cases lookupN tm.map n with
  | none => exact ⟨rfl, rfl⟩
  | some id =>
    simp only
    split
    · exact ⟨rfl, rfl⟩
    · simp

/-- non-vacuity: a replacement really is started (task 1 replaces the slow-to-die task 0) and only after `fin 0` -/
example : (({ } : TM).run [.reg 1 { kind := .long, stub := 2 }, .pass, .replace 1 { kind := .imm }, .tick, .tick, .tick]).log
    = [.fin 1, .run 1, .start 1 (some 0), .fin 0, .run 0] := by decide


/-! ## 5. The service: discovery strategies -/

/-- **no_strategy_after_unload_overlay** — for every service state (any number of overlays, any number and order of
    strategies per overlay, consecutive or interleaved), after `unload_overlay(o)` and ANY later sequence of
    `add_strategy` / `unload_overlay` calls for other overlays, no strategy that drives `o` is among those a tick can
    step, and the service no longer lists `o`. -/
theorem no_strategy_after_unload_overlay (s : Svc) (o : Nat) (ops : List SOp) (hops : ∀ op ∈ ops, SvcForeign o op) :
    (∀ e ∈ ((s.unloadOverlay o).run ops).stepped, e.2 ≠ o) ∧ o ∉ ((s.unloadOverlay o).run ops).overlays :=
  svcClean_run ops _ hops (svcClean_unload s o)

/-- non-vacuity: three consecutive strategies of overlay 1 between strategies of overlay 2 (the shape of the default
    configuration) — all three are gone, the others stay -/
example : (((({ } : Svc).run [.add 2 10, .add 1 11, .add 1 12, .add 1 13, .add 2 14]).unloadOverlay 1).run [.add 3 15]).stepped
    = [(10, 2), (14, 2), (15, 3)] := by decide

end Ipv8.C11
