/-
  C11 — an unloaded overlay is silent and holds no resources: the property theorems.

  Everything here is about the model (Ipv8/C11/Model.lean) and the definitions regenerated from the source
  (Ipv8/C11/GenOverlays.lean); the tie to the Python code is the translator plus the correspondence run of harness/c11.py.
  What is NOT in the model (packets, handlers' bodies, kernel sockets, the interleaving of handlers with the awaits of
  `unload` beyond socket acquisition) is only observed on the real code by the scenario oracle — see design.d/C11.md.
-/
import Ipv8.C11.Model
import Ipv8.C11.Lemmas
import Ipv8.C11.GenOverlays
namespace Ipv8.C11

/-! ## 1. The listener registry, the proxy and the endpoint's back reference -/

/-- **silent_after_unload** — for every registry history (any world `w`), once `remove_listener(o)` has run — through the
    plain endpoint, or through a TunnelEndpoint that forwards removals —, no proxy hands packets to `o` and the
    TunnelEndpoint does not refer to `o`, then after ANY later sequence of registry operations by other parties
    (unbounded), `o` cannot be made to run: not by a datagram of ANY prefix from the socket (`Endpoint.notify_listeners`),
    not by a datagram of that prefix delivered from a tunnel (`TunnelEndpoint.notify_listeners`, either `from_tunnel` value), not through
    a proxy, and not by another overlay's anonymised send (`TunnelEndpoint.send` → `tunnel_community`). -/
theorem silent_after_unload (w : World) (o : Lid) (viaOuter : Bool) (ops : List ROp) (p : Pfx)
    (hstack : viaOuter = true → w.fwdRemove = true)
    (hfwd : NoFwdTo o w)
    (href : w.tunnelRef ≠ some o)
    (hops : ∀ op ∈ ops, Foreign o op) :
    o ∉ ((w.step (.remove viaOuter o)).run ops).touched p := by
  apply silent_touched
  apply silent_run ops _ hops
  refine ⟨?_, ?_, ?_⟩
  · cases viaOuter
    · exact absent_remove_self o w.inner
    · simp only [World.step, hstack rfl, if_true]; exact absent_remove_self o w.inner
  · intro e he
    rw [(step_remove_fwd w viaOuter o).1] at he
    exact hfwd e he
  · rw [(step_remove_fwd w viaOuter o).2.2]; exact href

/-- the hypotheses are satisfiable by a non-trivial history: an overlay that was a generic and a prefix listener,
    foreign listeners (one of them anonymised, one a proxy) coming and going afterwards -/
example : (1 : Lid) ∉ (((({ } : World).run [.add true 1, .addPrefix true 1 7, .add false 2]).step (.remove true 1)).run
    [.addPrefix false 2 7, .add false 3, .setAnon 3 true, .remove false 2, .setFwd 5 3, .setRef (some 3)]).touched 7 := by decide

/-- without the forwarding of `remove_listener` (the unrepaired TunnelEndpoint) `hstack` cannot be dropped -/
example : (1 : Lid) ∈ (((({ fwdRemove := false } : World).run [.add true 1]).step (.remove true 1))).touched 7 := by decide

/-- a proxy that still forwards reaches the overlay although the overlay itself was removed (`hfwd` is needed) -/
example : (1 : Lid) ∈ (((({ } : World).run [.addPrefix false 1 7, .addPrefix false 5 7, .setFwd 5 1]).step
    (.remove false 1))).touched 7 := by decide

/-- and a TunnelEndpoint that still refers to the overlay lets other overlays' anonymised sends drive it (`href` is
    needed; this was the state the unrepaired `TunnelCommunity.unload` left) -/
example : (1 : Lid) ∈ (((({ } : World).run [.addPrefix true 1 7, .setRef (some 1)]).step (.remove true 1))).touched 9 := by decide

/-! ## 2. The generated facts about the source -/

/-- The wrapping endpoints forward listener management — TunnelEndpoint both directions, StatisticsEndpoint the removal (its
    inherited add_* already act on the wrapped endpoint's lists) — regenerated from the source; this discharges `hstack` of
    theorem 1 for the wrappers that exist (DispatcherEndpoint fans out to its interfaces, each a plain registry). (a method
    that is defined but is not a plain forward is rejected by the translator, so this can only fail for a deleted method) -/
theorem tunnel_endpoint_forwards_listener_ops :
    Gen.tunnelEndpointForwardsAdd = true ∧ Gen.tunnelEndpointForwardsRemove = true ∧
    Gen.statisticsEndpointForwardsRemove = true := by decide

/-- Check of an unload script.  It is ORDER-sensitive where the code is: the exit-socket sweep has to come after the LAST
    of: removal of the overlay's listener, removal of the proxy's listener, task-manager shutdown (a cell that is still
    delivered, or a handler that is still in flight, can open a socket while `unload` is suspended).  Required:
    stop listening, shut the task manager down, unload the bootstrappers, shut the request cache down / close the
    database if the class owns one; a class that installs a proxy also removes it, clears both back references and sweeps
    its exit sockets after the shutdown.  (Not required, because not a resource in the sense of the property: clearing
    the tunnel tables; the theorem below still says what those statements achieve when they are present.) -/
def scriptOk (c : ClassInfo) : Bool :=
  !c.script.contains .returnIfDown       -- `_shutdown` is not "already unloaded": shutdown_task_manager() is public API
  && c.script.contains .removeSelf && c.script.contains .tmShutdown && c.script.contains .unloadBootstrappers
  && (!c.hasCache || c.script.contains .cacheShutdown)
  && (!c.hasDb || c.script.contains .closeDb)
  && (!c.installsProxy || (c.script.contains .removeProxy && c.script.contains .clearFwd
        && c.script.contains .clearEndpointRef && (afterClosing c.script).contains .closeExitSockets))
  && (!c.ownsChildren || (c.installsProxy && (afterClosing c.script).contains .unloadChildren))

/-- every shipped overlay class (list regenerated from the source) has a complete, correctly ordered unload script -/
theorem all_unload_scripts_complete : ∀ c ∈ Gen.classes, scriptOk c = true := by decide

/-- the class list is not empty and contains the tunnel overlays (non-vacuity of the quantifier above) -/
example : Gen.classes.length ≥ 8 ∧ (Gen.classes.any (fun c => c.installsProxy)) = true ∧
    (Gen.classes.any (fun c => c.hasDb)) = true := by decide

/-! ## 3. Unload scripts: for every state of the overlay and every schedule of late socket acquisitions -/

/-- **unload_releases_everything** — for every class with an accepted script, EVERY state in which unload is requested
    (any registry contents, any number of circuits / relays / exit sockets, any unfinished removal tasks, any sleep
    guard of the removal tasks, plain or forwarding-wrapped endpoint) and EVERY adversary `acq` that lets in-flight
    handlers open further exit sockets at each statement at which `unload` is suspended while the overlay or its proxy is
    still registered or the task manager is still up: after the script the overlay cannot be made to run (`Silent`, hence theorem 1 applies), its task manager is
    down, no removal task is left, the bootstrappers are unloaded, the cache is down and the database closed if it has
    one, a tunnel overlay has NO open exit socket, and an overlay that runs child overlays (the PexCommunity of an
    introduction point) has unloaded them ALL, also those started while it was unloading.  Table-clearing statements after the shutdown have taken effect. -/
theorem unload_releases_everything (c : ClassInfo) (hc : scriptOk c = true) (sl : RemKind → Bool → Bool)
    (acq : Nat → Nat) (s : UState)
    (hstack : s.viaOuter = true → s.w.fwdRemove = true)
    (hfwd : ∀ e ∈ s.w.fwd, e.2 = s.self → (c.installsProxy = true ∧ e.1 = s.proxy))
    (href : s.w.tunnelRef = some s.self → c.installsProxy = true) :
    let s' := s.run sl acq c.script
    Silent s.self s'.w ∧ s'.tmDown = true ∧ s'.removals = [] ∧ s'.bootDown = true ∧
    (c.hasCache = true → s'.cacheDown = true) ∧ (c.hasDb = true → s'.dbClosed = true) ∧
    (c.installsProxy = true → s'.openExit = 0) ∧
    (c.ownsChildren = true → s'.children = 0) ∧
    (c.installsProxy = true → UOp.clearTable .remExit ∈ afterClosing c.script → s'.exits = 0) ∧
    (UOp.clearTable .remCircuit ∈ c.script → s'.circuits = 0) ∧ (UOp.clearTable .remRelay ∈ c.script → s'.relays = 0) := by
  intro s'
  simp only [scriptOk, Bool.and_eq_true, Bool.or_eq_true, Bool.not_eq_true', List.contains_iff_mem] at hc
  obtain ⟨⟨⟨⟨⟨⟨⟨hnoret, hself⟩, htm⟩, hboot⟩, hcache⟩, hdb⟩, hproxy⟩, hkids⟩ := hc
  have P := fun (t : UState) (a : UOp) => step_proj sl acq t a
  have hframe : UFrame s.self s.proxy s := by
    refine ⟨rfl, rfl, hstack, ?_⟩
    intro e he h2; exact (hfwd e he h2).2
  have hI : ∀ (t : UState) (a : UOp), UFrame s.self s.proxy t → UFrame s.self s.proxy (t.step sl acq a) := by
    intro t a h
    have c0 := uframe_step sl s.self s.proxy t a h
    obtain ⟨c1, c2, c3, c4⟩ := c0
    have p := P t a
    exact ⟨p.2.1.trans c1, p.2.2.1.trans c2, by rw [p.1, p.2.2.2.1]; exact c3, by rw [p.1]; exact c4⟩
  have est : ∀ (I Q : UState → Prop) (a₀ : UOp), (∀ (t : UState) (a : UOp), I t → I (t.step sl acq a)) →
      (∀ (t : UState) (a : UOp), I t → Q t → Q (t.step sl acq a)) → (∀ t : UState, I t → Q (t.step sl acq a₀)) → I s →
      a₀ ∈ c.script → Q s' :=
    fun I Q a₀ h1 h2 h3 hi hm => foldl_establish (UState.step sl acq) I Q a₀ h1 h2 h3 c.script s hi hm
  -- the overlay is out of the registry
  have habs : Absent s.self s'.w.inner := by
    refine est (UFrame s.self s.proxy) (fun t => Absent s.self t.w.inner) .removeSelf hI ?_ ?_ hframe hself
    · intro t a _ h; rw [(P t a).1]; exact absent_ustep sl s.self t a h
    · intro t ht
      obtain ⟨h1, _, h3, _⟩ := ht
      rw [(P t .removeSelf).1]
      simp only [UState.core, h1]
      cases hv : t.viaOuter
      · exact absent_remove_self s.self t.w.inner
      · simp only [World.step, h3 hv, if_true]; exact absent_remove_self s.self t.w.inner
  -- no proxy forwards to it
  have hnf : NoFwdTo s.self s'.w := by
    cases hp : c.installsProxy
    · refine foldl_preserve (UState.step sl acq) (fun t => NoFwdTo s.self t.w) ?_ c.script s ?_
      · intro t a h; rw [(P t a).1]; exact nofwd_ustep sl s.self t a h
      · intro e he h2; have := (hfwd e he h2).1; simp [hp] at this
    · have hcl : UOp.clearFwd ∈ c.script := by
        rcases hproxy with h | h
        · simp [hp] at h
        · exact h.1.1.2
      refine est (UFrame s.self s.proxy) (fun t => NoFwdTo s.self t.w) .clearFwd hI ?_ ?_ hframe hcl
      · intro t a _ h; rw [(P t a).1]; exact nofwd_ustep sl s.self t a h
      · intro t ht
        obtain ⟨_, h2, _, h4⟩ := ht
        rw [(P t .clearFwd).1]
        intro e he
        simp only [UState.core, World.step] at he
        have hm := List.mem_filter.mp he
        intro h2'
        have := h4 e hm.1 h2'
        simp [this, h2] at hm
  -- the endpoint does not refer to it
  have hnr : s'.w.tunnelRef ≠ some s.self := by
    cases hp : c.installsProxy
    · refine foldl_preserve (UState.step sl acq) (fun t => t.w.tunnelRef ≠ some s.self) ?_ c.script s ?_
      · intro t a h; rw [(P t a).1]; exact noref_ustep sl s.self t a h
      · intro h; have := href h; simp [hp] at this
    · have hcl : UOp.clearEndpointRef ∈ c.script := by
        rcases hproxy with h | h
        · simp [hp] at h
        · exact h.1.2
      refine est (UFrame s.self s.proxy) (fun t => t.w.tunnelRef ≠ some s.self) .clearEndpointRef hI ?_ ?_ hframe hcl
      · intro t a _ h; rw [(P t a).1]; exact noref_ustep sl s.self t a h
      · intro t ht
        obtain ⟨h1, _, _, _⟩ := ht
        rw [(P t .clearEndpointRef).1]
        simp only [UState.core, h1]
        split
        · simp [World.step]
        · next hne => exact hne
  -- task manager down, no removal task left
  have htmd : s'.tmDown = true ∧ s'.removals = [] := by
    refine est (fun _ => True) (fun t => t.tmDown = true ∧ t.removals = []) .tmShutdown (fun _ _ _ => trivial) ?_ ?_ trivial htm
    · intro t a _ h
      obtain ⟨h1, h2⟩ := h
      rw [(P t a).2.2.2.2.1, (P t a).2.2.2.2.2.2.2.1]
      cases a with
      | spawnRemovals k n cl => simp [UState.core, h1, h2]
      | awaitRemovals =>
        have f := finishAll_frame t.removals { t with removals := [] }
        simp only [UState.core]
        exact ⟨f.2.2.2.2.1.trans h1, f.2.2.2.2.2.2.2.1⟩
      | clearTable k => cases k <;> exact ⟨h1, h2⟩
      | clearEndpointRef => simp only [UState.core]; split <;> exact ⟨h1, h2⟩
      | unloadChildren => exact ⟨h1, h2⟩
      | _ => simp [UState.core, h1, h2]
    · intro t _
      rw [(P t .tmShutdown).2.2.2.2.1, (P t .tmShutdown).2.2.2.2.2.2.2.1]
      simp [UState.core]
  -- monotone flags
  have flag : ∀ (f : UState → Bool), (∀ (t : UState) (a : UOp), f t = true → f (t.core sl a) = true) →
      (∀ (t : UState) (a : UOp), f (t.step sl acq a) = f (t.core sl a)) → ∀ a₀ : UOp, (∀ t : UState, f (t.core sl a₀) = true) →
      a₀ ∈ c.script → f s' = true := by
    intro f hmono hproj a₀ h₀ hm
    refine est (fun _ => True) (fun t => f t = true) a₀ (fun _ _ _ => trivial) ?_ ?_ trivial hm
    · intro t a _ h; rw [hproj]; exact hmono t a h
    · intro t _; rw [hproj]; exact h₀ t
  -- what holds once every closing statement has run: nothing can be acquired, so a sweep / a table clear sticks
  have tail : ∀ (script : List UOp) (s0 : UState), UOp.removeSelf ∈ script → UOp.tmShutdown ∈ script →
      UOp.removeProxy ∈ script → UFrame s.self s.proxy s0 → script = script →
      (UOp.closeExitSockets ∈ afterClosing script → (s0.run sl acq script).openExit = 0) ∧
      (UOp.clearTable .remExit ∈ afterClosing script → (s0.run sl acq script).exits = 0) ∧
      (UOp.unloadChildren ∈ afterClosing script → (s0.run sl acq script).children = 0) := by
    intro script s0 h1 h2 h3 hf _
    have hany : script.any UOp.isClosing = true := List.any_eq_true.mpr ⟨_, h2, rfl⟩
    obtain ⟨pre, hsplit, hpre⟩ := afterClosing_split script hany
    have m1 := hpre _ h1 rfl
    have m2 := hpre _ h2 rfl
    have m3 := hpre _ h3 rfl
    -- the state after the prefix
    let J : UState → Prop := fun t => UFrame s.self s.proxy t
    have hJ : ∀ (t : UState) (a : UOp), J t → J (t.step sl acq a) := hI
    have pe : ∀ (Q : UState → Prop) (a₀ : UOp), (∀ (t : UState) (a : UOp), J t → Q t → Q (t.step sl acq a)) →
        (∀ t : UState, J t → Q (t.step sl acq a₀)) → a₀ ∈ pre → Q (s0.run sl acq pre) :=
      fun Q a₀ q1 q2 hm => foldl_establish (UState.step sl acq) J Q a₀ hJ q1 q2 pre s0 hf hm
    have f1 : (s0.run sl acq pre).tmDown = true := by
      refine pe (fun t => t.tmDown = true) .tmShutdown ?_ ?_ m2
      · intro t a _ h; rw [(P t a).2.2.2.2.1]; exact core_tmDown_mono sl t a h
      · intro t _; rw [(P t .tmShutdown).2.2.2.2.1]; rfl
    have f2 : Absent s.self (s0.run sl acq pre).w.inner := by
      refine pe (fun t => Absent s.self t.w.inner) .removeSelf ?_ ?_ m1
      · intro t a _ h; rw [(P t a).1]; exact absent_ustep sl s.self t a h
      · intro t ht
        obtain ⟨g1, _, g3, _⟩ := ht
        rw [(P t .removeSelf).1]
        simp only [UState.core, g1]
        cases hv : t.viaOuter
        · exact absent_remove_self s.self t.w.inner
        · simp only [World.step, g3 hv, if_true]; exact absent_remove_self s.self t.w.inner
    have f3 : Absent s.proxy (s0.run sl acq pre).w.inner := by
      refine pe (fun t => Absent s.proxy t.w.inner) .removeProxy ?_ ?_ m3
      · intro t a _ h; rw [(P t a).1]; exact absent_ustep sl s.proxy t a h
      · intro t ht
        obtain ⟨_, g2, g3, _⟩ := ht
        rw [(P t .removeProxy).1]
        simp only [UState.core, g2]
        cases hv : t.viaOuter
        · exact absent_remove_self s.proxy t.w.inner
        · simp only [World.step, g3 hv, if_true]; exact absent_remove_self s.proxy t.w.inner
    have f4 : J (s0.run sl acq pre) := foldl_preserve (UState.step sl acq) J (fun t a h => hJ t a h) pre s0 hf
    -- invariant of the suffix: closed
    let K : UState → Prop := fun t => t.tmDown = true ∧ Absent s.self t.w.inner ∧ Absent s.proxy t.w.inner ∧ UFrame s.self s.proxy t
    have hK : ∀ (t : UState) (a : UOp), K t → K (t.step sl acq a) := by
      intro t a ⟨k1, k2, k3, k4⟩
      refine ⟨?_, ?_, ?_, hI t a k4⟩
      · rw [(P t a).2.2.2.2.1]; exact core_tmDown_mono sl t a k1
      · rw [(P t a).1]; exact absent_ustep sl s.self t a k2
      · rw [(P t a).1]; exact absent_ustep sl s.proxy t a k3
    have noacq : ∀ (t : UState) (a : UOp), K t → (t.core sl a).canAcquire = false := by
      intro t a hk
      have hk' := hK t a hk
      obtain ⟨k1, k2, k3, k4⟩ := hk'
      have c1 : (t.core sl a).tmDown = true := by rw [← (P t a).2.2.2.2.1]; exact k1
      have c2 : Absent s.self (t.core sl a).w.inner := by rw [← (P t a).1]; exact k2
      have c3 : Absent s.proxy (t.core sl a).w.inner := by rw [← (P t a).1]; exact k3
      have c4 : (t.core sl a).self = s.self := by rw [← (P t a).2.1]; exact k4.1
      have c5 : (t.core sl a).proxy = s.proxy := by rw [← (P t a).2.2.1]; exact k4.2.1
      unfold UState.canAcquire
      rw [c1, c4, c5, lists_false_of_absent c2, lists_false_of_absent c3]; rfl
    have hK0 : K (s0.run sl acq pre) := ⟨f1, f2, f3, f4⟩
    have hrun : s0.run sl acq script = (s0.run sl acq pre).run sl acq (afterClosing script) := by
      have := run_append sl acq s0 pre (afterClosing script)
      rw [← hsplit] at this
      exact this
    refine ⟨?_, ?_, ?_⟩
    · intro hm
      rw [hrun]
      refine foldl_establish (UState.step sl acq) K (fun t => t.openExit = 0) .closeExitSockets hK ?_ ?_
        (afterClosing script) _ hK0 hm
      · intro t a hk h
        rw [((P t a).2.2.2.2.2.2.2.2.2.2.2 (noacq t a hk)).1]
        cases a with
        | spawnRemovals k n cl => simp only [UState.core]; split <;> exact h
        | awaitRemovals =>
          simp only [UState.core]; exact (finishAll_frame t.removals { t with removals := [] }).2.2.2.2.2.2.2.2.1 h
        | clearTable k => cases k <;> exact h
        | clearEndpointRef => simp only [UState.core]; split <;> exact h
        | unloadChildren => exact h
        | _ => simp [UState.core, h]
      · intro t hk
        rw [((P t .closeExitSockets).2.2.2.2.2.2.2.2.2.2.2 (noacq t _ hk)).1]
        simp [UState.core]
    · intro hm
      rw [hrun]
      refine foldl_establish (UState.step sl acq) K (fun t => t.exits = 0) (.clearTable .remExit) hK ?_ ?_
        (afterClosing script) _ hK0 hm
      · intro t a hk h
        rw [((P t a).2.2.2.2.2.2.2.2.2.2.2 (noacq t a hk)).2.1]
        cases a with
        | spawnRemovals k n cl => simp only [UState.core]; split <;> exact h
        | awaitRemovals =>
          simp only [UState.core]; exact (finishAll_frame t.removals { t with removals := [] }).2.2.2.2.2.2.2.2.2.2.2 h
        | clearTable k => cases k <;> simp [UState.core, UState.clear, h]
        | clearEndpointRef => simp only [UState.core]; split <;> exact h
        | unloadChildren => exact h
        | _ => simp [UState.core, h]
      · intro t hk
        rw [((P t (.clearTable .remExit)).2.2.2.2.2.2.2.2.2.2.2 (noacq t _ hk)).2.1]
        simp [UState.core, UState.clear]
    · intro hm
      rw [hrun]
      refine foldl_establish (UState.step sl acq) K (fun t => t.children = 0) .unloadChildren hK ?_ ?_
        (afterClosing script) _ hK0 hm
      · intro t a hk h
        rw [((P t a).2.2.2.2.2.2.2.2.2.2.2 (noacq t a hk)).2.2]
        cases a with
        | spawnRemovals k n cl => simp only [UState.core]; split <;> exact h
        | awaitRemovals =>
          simp only [UState.core]
          have : ∀ (rs : List (RemKind × Bool)) (u : UState), (rs.foldl (fun acc r => acc.finishRemoval r.1) u).children = u.children := by
            intro rs
            induction rs with
            | nil => intro u; rfl
            | cons r rest ih => intro u; simp only [List.foldl_cons]; rw [ih]; cases r.1 <;> rfl
          rw [this]; exact h
        | clearTable k => cases k <;> exact h
        | clearEndpointRef => simp only [UState.core]; split <;> exact h
        | unloadChildren => rfl
        | _ => simp [UState.core, h]
      · intro t hk
        rw [((P t .unloadChildren).2.2.2.2.2.2.2.2.2.2.2 (noacq t _ hk)).2.2]
        simp [UState.core]
  refine ⟨⟨habs, hnf, hnr⟩, htmd.1, htmd.2, ?_, ?_, ?_, ?_, ?_, ?_, ?_, ?_⟩
  · -- bootstrappers
    refine flag (fun t => t.bootDown) ?_ (fun t a => (P t a).2.2.2.2.2.2.2.2.1) .unloadBootstrappers (fun t => by simp [UState.core]) hboot
    intro t a h
    cases a with
    | spawnRemovals k n cl => simp only [UState.core]; split <;> exact h
    | awaitRemovals =>
      simp only [UState.core]
      have : ∀ (rs : List (RemKind × Bool)) (u : UState), (rs.foldl (fun acc r => acc.finishRemoval r.1) u).bootDown = u.bootDown := by
        intro rs
        induction rs with
        | nil => intro u; rfl
        | cons r rest ih => intro u; simp only [List.foldl_cons]; rw [ih]; cases r.1 <;> rfl
      rw [this]; exact h
    | clearTable k => cases k <;> exact h
    | clearEndpointRef => simp only [UState.core]; split <;> exact h
    | unloadChildren => exact h
    | _ => simp [UState.core, h]
  · intro hcc
    have hm : UOp.cacheShutdown ∈ c.script := by
      rcases hcache with h | h
      · simp [hcc] at h
      · exact h
    refine flag (fun t => t.cacheDown) ?_ (fun t a => (P t a).2.2.2.2.2.1) .cacheShutdown (fun t => by simp [UState.core]) hm
    intro t a h
    cases a with
    | spawnRemovals k n cl => simp only [UState.core]; split <;> exact h
    | awaitRemovals =>
      simp only [UState.core]; exact (finishAll_frame t.removals { t with removals := [] }).2.2.2.2.2.1.trans h
    | clearTable k => cases k <;> exact h
    | clearEndpointRef => simp only [UState.core]; split <;> exact h
    | unloadChildren => exact h
    | _ => simp [UState.core, h]
  · intro hcc
    have hm : UOp.closeDb ∈ c.script := by
      rcases hdb with h | h
      · simp [hcc] at h
      · exact h
    refine flag (fun t => t.dbClosed) ?_ (fun t a => (P t a).2.2.2.2.2.2.1) .closeDb (fun t => by simp [UState.core]) hm
    intro t a h
    cases a with
    | spawnRemovals k n cl => simp only [UState.core]; split <;> exact h
    | awaitRemovals =>
      simp only [UState.core]; exact (finishAll_frame t.removals { t with removals := [] }).2.2.2.2.2.2.1.trans h
    | clearTable k => cases k <;> exact h
    | clearEndpointRef => simp only [UState.core]; split <;> exact h
    | unloadChildren => exact h
    | _ => simp [UState.core, h]
  · -- exit sockets: the sweep comes after the last closing statement, after which nothing can be acquired any more
    intro hp
    have hall : ((UOp.removeProxy ∈ c.script ∧ UOp.clearFwd ∈ c.script) ∧ UOp.clearEndpointRef ∈ c.script) ∧
        UOp.closeExitSockets ∈ afterClosing c.script := by
      rcases hproxy with h | h
      · simp [hp] at h
      · exact h
    exact (tail c.script s hself htm hall.1.1.1 hframe rfl).1 hall.2
  · -- child overlays: unloaded after the last closing statement
    intro hk
    have hk2 : c.installsProxy = true ∧ UOp.unloadChildren ∈ afterClosing c.script := by
      rcases hkids with h | h
      · simp [hk] at h
      · exact h
    have hall : ((UOp.removeProxy ∈ c.script ∧ UOp.clearFwd ∈ c.script) ∧ UOp.clearEndpointRef ∈ c.script) ∧
        UOp.closeExitSockets ∈ afterClosing c.script := by
      rcases hproxy with h | h
      · simp [hk2.1] at h
      · exact h
    exact (tail c.script s hself htm hall.1.1.1 hframe rfl).2.2 hk2.2
  · intro hp hm
    have hall : ((UOp.removeProxy ∈ c.script ∧ UOp.clearFwd ∈ c.script) ∧ UOp.clearEndpointRef ∈ c.script) ∧
        UOp.closeExitSockets ∈ afterClosing c.script := by
      rcases hproxy with h | h
      · simp [hp] at h
      · exact h
    exact (tail c.script s hself htm hall.1.1.1 hframe rfl).2.1 hm
  · intro hm
    refine est (fun _ => True) (fun t => t.circuits = 0) (.clearTable .remCircuit) (fun _ _ _ => trivial) ?_ ?_ trivial hm
    · intro t a _ h
      rw [(P t a).2.2.2.2.2.2.2.2.2.1]
      cases a with
      | spawnRemovals k n cl => simp only [UState.core]; split <;> exact h
      | awaitRemovals =>
        simp only [UState.core]; exact (finishAll_frame t.removals { t with removals := [] }).2.2.2.2.2.2.2.2.2.1 h
      | clearTable k => cases k <;> simp [UState.core, UState.clear, h]
      | clearEndpointRef => simp only [UState.core]; split <;> exact h
      | unloadChildren => exact h
      | _ => simp [UState.core, h]
    · intro t _; rw [(P t _).2.2.2.2.2.2.2.2.2.1]; simp [UState.core, UState.clear]
  · intro hm
    refine est (fun _ => True) (fun t => t.relays = 0) (.clearTable .remRelay) (fun _ _ _ => trivial) ?_ ?_ trivial hm
    · intro t a _ h
      rw [(P t a).2.2.2.2.2.2.2.2.2.2.1]
      cases a with
      | spawnRemovals k n cl => simp only [UState.core]; split <;> exact h
      | awaitRemovals =>
        simp only [UState.core]; exact (finishAll_frame t.removals { t with removals := [] }).2.2.2.2.2.2.2.2.2.2.1 h
      | clearTable k => cases k <;> simp [UState.core, UState.clear, h]
      | clearEndpointRef => simp only [UState.core]; split <;> exact h
      | unloadChildren => exact h
      | _ => simp [UState.core, h]
    · intro t _; rw [(P t _).2.2.2.2.2.2.2.2.2.2.1]; simp [UState.core, UState.clear]

/-- the hypotheses hold for a concrete loaded tunnel overlay on a wrapped endpoint with live circuits and an open exit
    socket, with an adversary that opens a socket at every suspension; the conclusion is not vacuous there -/
example :
    let c : ClassInfo := (Gen.classes.find? (fun c => c.name == "TunnelCommunity")).getD ⟨"", false, false, false, false, []⟩
    let w : World := ({ } : World).run ([.add false 3] ++ loadOps c true 1 2 7)
    let s : UState := { w := w, self := 1, proxy := 2, viaOuter := true, circuits := 2, relays := 1, exits := 1, openExit := 1 }
    scriptOk c = true ∧ (1 ∈ w.touched 7) ∧ (1 ∈ w.touched 9) ∧ (s.viaOuter = true → s.w.fwdRemove = true) ∧
    (∀ e ∈ s.w.fwd, e.2 = s.self → (c.installsProxy = true ∧ e.1 = s.proxy)) ∧
    (1 ∉ (s.run (fun k now => Gen.removalSleeps k now Gen.defaultRemoveDelay) (fun _ => 1) c.script).w.touched 7) ∧
    (s.run (fun k now => Gen.removalSleeps k now Gen.defaultRemoveDelay) (fun _ => 1) c.script).openExit = 0 := by decide

/-- child overlays: a HiddenTunnelCommunity that runs two PEX overlays, with an adversary that starts another one at every
    suspension, ends with none -/
example :
    let c : ClassInfo := (Gen.classes.find? (fun c => c.name == "HiddenTunnelCommunity")).getD ⟨"", false, false, false, false, []⟩
    let w : World := ({ } : World).run (loadOps c false 1 2 7)
    let s : UState := { w := w, self := 1, proxy := 2, viaOuter := false, exits := 1, openExit := 1, children := 2 }
    c.ownsChildren = true ∧ scriptOk c = true ∧
    (s.run (fun k now => Gen.removalSleeps k now Gen.defaultRemoveDelay) (fun _ => 1) c.script).children = 0 := by decide

/-- **unload_with_control_flow** — the same guarantee for the script run WITH its control flow (`UState.runG`), from every state
    — in particular from states in which the task manager was already shut down through the public API before `unload` was
    called: an accepted script contains no `if self._shutdown: return`, so nothing is skipped. -/
theorem unload_with_control_flow (c : ClassInfo) (hc : scriptOk c = true) (sl : RemKind → Bool → Bool) (acq : Nat → Nat)
    (s : UState) : s.runG sl acq c.script = s.run sl acq c.script := by
  apply runG_eq_run
  simp only [scriptOk, Bool.and_eq_true, Bool.not_eq_true', List.contains_eq_mem, decide_eq_false_iff_not] at hc
  exact hc.1.1.1.1.1.1.1

/-- the early return is NOT an idempotence guard: after `shutdown_task_manager()` (flag set, listener still registered) an
    `Overlay.unload` that starts with `if self._shutdown: return` leaves the overlay reachable — and `scriptOk` rejects it -/
example :
    let bad : List UOp := [.returnIfDown, .unloadBootstrappers, .removeSelf, .tmShutdown]
    let c : ClassInfo := ⟨"early-return", false, false, false, false, bad⟩
    let w : World := ({ } : World).run (loadOps c false 1 2 7)
    let s : UState := { w := w, self := 1, proxy := 2, viaOuter := false, tmDown := true }
    scriptOk c = false ∧ (1 ∈ (s.runG (fun _ _ => false) (fun _ => 0) bad).w.touched 7) ∧
    (1 ∉ (s.runG (fun _ _ => false) (fun _ => 0) [.unloadBootstrappers, .removeSelf, .tmShutdown]).w.touched 7) := by decide

/-- ORDER matters in the model as it does in the code: the same statements with the exit-socket sweep BEFORE the
    task-manager shutdown are rejected by `scriptOk`, and rightly so — a socket opened while that sweep is suspended stays -/
example :
    let bad : List UOp := [.cacheShutdown, .removeProxy, .clearFwd, .clearEndpointRef, .closeExitSockets, .unloadBootstrappers,
                           .removeSelf, .tmShutdown]
    let c : ClassInfo := ⟨"sweep-too-early", true, true, false, false, bad⟩
    let s : UState := { w := {}, self := 1, proxy := 2, viaOuter := false, exits := 1, openExit := 1 }
    scriptOk c = false ∧ (s.run (fun _ _ => false) (fun pc => if pc = 4 then 1 else 0) bad).openExit = 1 := by decide

/-- the reviewer's variant: task manager down and sweep done BEFORE the proxy is removed — also rejected, and a CREATE that is
    still delivered during the sweep leaves a socket open -/
example :
    let bad : List UOp := [.cacheShutdown, .tmShutdown, .closeExitSockets, .removeProxy, .clearFwd, .clearEndpointRef,
                           .unloadBootstrappers, .removeSelf]
    let c : ClassInfo := ⟨"listeners-removed-too-late", true, true, false, false, bad⟩
    let w : World := ({ } : World).run (loadOps c false 1 2 7)
    let s : UState := { w := w, self := 1, proxy := 2, viaOuter := false, exits := 1, openExit := 1 }
    scriptOk c = false ∧ (s.run (fun _ _ => false) (fun pc => if pc = 2 then 1 else 0) bad).openExit = 1 := by decide

/-- the (empty) registry of the three endpoint stacks of the model, with the forwarding flags READ FROM THE SOURCE:
    0 = plain endpoint, 1 = TunnelEndpoint wrapper, 2 = StatisticsEndpoint wrapper -/
def stackWorld (stack : Nat) : World :=
  if stack = 2 then { fwdAdd := true, fwdRemove := Gen.statisticsEndpointForwardsRemove }
  else { fwdAdd := Gen.tunnelEndpointForwardsAdd, fwdRemove := Gen.tunnelEndpointForwardsRemove }

/-- **shipped_overlay_silent_after_unload** — the registry theorems with their hypotheses DISCHARGED for what is shipped:
    for every generated overlay class, on every endpoint stack (flags as generated), after ANY history of registry operations
    by other parties, the class's constructor chain (`loadOps`), its generated unload script (any sleep guard, any acquisition
    adversary) and ANY later history of operations by other parties, the overlay cannot be made to run by a datagram of
    any prefix from the socket or from a tunnel, through a proxy, or through the endpoint's back reference.  The only
    hypothesis left is that "other parties" do not re-register the unloaded overlay (`Foreign`). -/
theorem shipped_overlay_silent_after_unload (c : ClassInfo) (hc : c ∈ Gen.classes) (stack : Nat) (self proxy : Lid)
    (pfx p : Pfx) (before after : List ROp) (sl : RemKind → Bool → Bool) (acq : Nat → Nat)
    (hb : ∀ op ∈ before, Foreign self op) (ha : ∀ op ∈ after, Foreign self op) :
    let viaOuter := decide (stack ≠ 0)
    let w := ((stackWorld stack).run before).run (loadOps c viaOuter self proxy pfx)
    let s : UState := { w := w, self := self, proxy := proxy, viaOuter := viaOuter }
    self ∉ ((s.run sl acq c.script).w.run after).touched p := by
  intro viaOuter w s
  have hflag : (stackWorld stack).fwdRemove = true := by
    have h := tunnel_endpoint_forwards_listener_ops
    unfold stackWorld
    split
    · exact h.2.2
    · exact h.2.1
  have hs0 : Silent self (stackWorld stack) := by
    unfold stackWorld Silent Absent NoFwdTo
    split <;> simp
  have hs1 := silent_run before _ hb hs0
  have hl := loadOps_fwd_ref c viaOuter self proxy pfx ((stackWorld stack).run before) hs1.2.1 hs1.2.2
  have hrel := unload_releases_everything c (all_unload_scripts_complete c hc) sl acq s
    (by intro _; show w.fwdRemove = true; rw [run_flags, run_flags]; exact hflag) hl.1 hl.2
  exact silent_touched (silent_run after _ ha hrel.1) p

/-- non-vacuity: a TunnelCommunity on a TunnelEndpoint with foreign traffic before and after IS reachable while loaded -/
example :
    let c : ClassInfo := (Gen.classes.find? (fun c => c.name == "TunnelCommunity")).getD ⟨"", false, false, false, false, []⟩
    let w := ((stackWorld 1).run [.add false 3, .addPrefix true 4 8]).run (loadOps c true 1 2 7)
    (1 ∈ w.touched 7) ∧ (1 ∈ w.touched 9) := by decide

/-! ## 4. Task manager -/

/-- **scheduler_model_matches_source** — the structure of `taskmanager.py` / `requestcache.py` that the hand-written scheduler
    model mirrors, re-read from the source on every run (tools/gen_c11.py, `task_manager_facts`).  Which model definition
    leans on which fact:
    `TM.register` guards and their order — registerRefusesWhenShutdown, registerRaisesWhenActive, registerChecksShutdownFirst;
    `TM.isActive` — activeMeansTrackedAndNotDone;  `TM.cancel` — cancelUntracksAtOnce;
    `TM.shutdownOp` (flag first, EVERY tracked task cancelled, `awaiting` = all of them, `shutdownFrom` leaves the caller
    out) — shutdownSetsFlagBeforeCancelling, cancelAllCoversEveryTrackedName, shutdownWaitsForAllCancelledTasks,
    shutdownDoesNotWaitForItsCaller and the three cacheShutdown… facts (RequestCache runs on the same model);
    `TM.replace`/`TM.fireCont` (new task only from the old task's done-callback) — replaceRegistersOnlyFromDoneCallback;
    `TM.pass` untracking only the finished task itself — doneCallbackUntracksOnlyItself;  no round of a periodic task after
    its own shutdown — periodicRunnerGetsStopCheck, periodicRunnerStopsAfterShutdown;  `RequestCache.add` after shutdown —
    cacheAddRefusesWhenShutdown;  anonymous tasks (message handlers, @task calls) never being refused for a name that is
    still in use — the model and the generator give every anonymous registration a fresh name — anonymousNamesNeverRepeat.
    With this pin the scheduler theorems below are about a model whose guard structure is that of the CURRENT source: if the
    code loses one of these guards, this theorem stops being provable (and the TaskManager correspondence / oracles supply
    the failing input). -/
theorem scheduler_model_matches_source :
    Gen.schedulerFacts.length = 18 ∧ ∀ f ∈ Gen.schedulerFacts, f.2 = true := by decide


/-- **active_name_refused** — while the manager is loaded, registering under a name whose task has not finished is
    refused (`RuntimeError`) and changes nothing, for every state and every kind of task.  (This is the second guard
    of the modelled `register_task`; the claim is tied to the code by the TaskManager correspondence.) -/
theorem active_name_refused (tm : TM) (n : Nat) (s : Spec) (hs : tm.shutdown = false) (ha : tm.isActive n = true) :
    tm.register n s = (tm, .exists) := by
  simp [TM.register, hs, ha]

example : ((({ } : TM).register 1 { kind := .interval, delay := 0, ivl := 5 }).1.pass).isActive 1 = true := by decide

/-- a name whose task was cancelled is free at once although the old task is still finishing; the old task's
    done-callback does not untrack the newcomer (mirrors the repaired `done_cb`) -/
example : ((({ } : TM).run [.reg 1 { kind := .long, stub := 2 }, .pass, .cancel 1, .reg 1 { kind := .interval, ivl := 5 },
    .tick, .tick, .tick]).isActive 1) = true := by decide

/-- **every_unfinished_task_is_tracked** — in every reachable state (any history of register / cancel / replace /
    shutdown / loop passes / seconds), task ids are unique and every task that has not finished either has its
    cancellation requested or is the task its name maps to in `_pending_tasks`.  (This is what lets a shutdown reach
    every task; it fails for the code before commit c10513c.) -/
theorem every_unfinished_task_is_tracked (ops : List TOp) : Tracked (({ } : TM).run ops) :=
  tracked_run ops _ tracked_init

/-- **unload_leaves_manager_quiet** — in every reachable state in which the shutdown flag is set — in particular at the
    moment `shutdown_task_manager`, hence `unload()`, returns — every task ever created has finished or has its
    cancellation requested. -/
theorem unload_leaves_manager_quiet (ops : List TOp) (h : (({ } : TM).run ops).shutdown = true) :
    Quiet (({ } : TM).run ops) :=
  quiet_when_shutdown ops _ tracked_init (by intro h0; cases h0) h

/-- **no_task_after_shutdown** — from any `Quiet` state (which is what unload leaves, by the theorem above), for EVERY
    later sequence of operations, loop passes and seconds: no task is created, no task body, timer round or periodic
    task runs (the number of `run` events stays the same — tasks that are still dying may only log their `fin`), every
    registration is refused, and the state stays `Quiet`. -/
theorem no_task_after_shutdown (tm : TM) (h : Quiet tm) (ops : List TOp) :
    Quiet (tm.run ops) ∧ (tm.run ops).tasks.length = tm.tasks.length ∧
    ((tm.run ops).log.filter isRun).length = (tm.log.filter isRun).length ∧
    ∀ n s, ((tm.run ops).register n s).2 = .refused := by
  have hr := run_quiet ops tm h
  refine ⟨hr.1, hr.2.1, hr.2.2, ?_⟩
  intro n s
  rw [register_shutdown _ n s hr.1.1]

/-- the two theorems combined, from the initial state: whatever happened before the shutdown and whatever happens after -/
theorem nothing_runs_after_unload (before after : List TOp) :
    let tm := (({ } : TM).run before).shutdownOp
    ((tm.run after).log.filter isRun).length = (tm.log.filter isRun).length ∧
    (tm.run after).tasks.length = tm.tasks.length := by
  intro tm
  have hq : Quiet tm := by
    by_cases hs : (({ } : TM).run before).shutdown = true
    · have := unload_leaves_manager_quiet before hs
      simp only [tm, TM.shutdownOp, hs, if_true]; exact this
    · exact quiet_of_tracked_shutdown _ (every_unfinished_task_is_tracked before) (by simpa using hs)
  have := no_task_after_shutdown tm hq after
  exact ⟨this.2.2.1, this.2.1⟩

/-- non-vacuity, and the reviewer's witness: a task cancelled earlier that is slow to die is NOT finished when the
    shutdown returns (the manager is `Quiet`, not `Dead`), it never runs again, and the manager becomes `Dead` later -/
example :
    let tm := (({ } : TM).run [.reg 1 { kind := .long, stub := 5 }, .pass, .cancel 1, .pass,
                                .reg 2 { kind := .interval, delay := 0, ivl := 2 }, .tick]).shutdownOp
    tm.shutdownReturned = false ∧ tm.settle.shutdownReturned = true ∧
    (tm.settle.tasks.any (fun t => !t.done)) = true ∧
    ((tm.run [.tick, .tick, .tick, .tick, .tick, .tick]).tasks.all (fun t => t.done)) = true ∧
    ((tm.run [.tick, .tick, .tick, .tick, .tick, .tick]).log.filter isRun).length = (tm.log.filter isRun).length := by decide

/-- **self_unload_does_not_wait_for_itself** — `shutdown_task_manager` called from inside one of the manager's own tasks
    (a self-unloading overlay) does not wait for the task it runs in; everything else — cancellation of all tracked tasks,
    including the caller's own, the flag, `Quiet` — is as for a shutdown from outside (the theorems above cover the op
    `shutdownFrom` as they quantify over all `TOp`s). -/
theorem self_unload_does_not_wait_for_itself (tm : TM) (n id : Nat) (h : lookupN tm.map n = some id) :
    id ∉ (tm.shutdownFrom n).awaiting ∧ (tm.shutdownFrom n).tasks = tm.shutdownOp.tasks := by
  refine ⟨?_, (shutdownFrom_fields tm n).1⟩
  unfold TM.shutdownFrom
  simp only [h]
  intro hm
  have := (List.mem_filter.mp hm).2
  simp at this

/-- a task that shuts its own manager down: the shutdown returns as soon as the OTHER tracked tasks have finished, the
    calling task itself ends (cancelled) in the next pass, nothing runs afterwards -/
example :
    let tm := (({ } : TM).run [.reg 1 { kind := .long }, .reg 2 { kind := .interval, delay := 0, ivl := 1 }, .pass,
                                .shutdownFrom 1])
    tm.shutdownReturned = false ∧ tm.pass.shutdownReturned = true ∧ (tm.pass.tasks.all (fun t => t.done)) = true ∧
    ((tm.run [.tick, .tick]).log.filter isRun).length = (tm.log.filter isRun).length := by decide

/-- once every task has finished as well, nothing at all is logged any more (not even `fin`) -/
theorem dead_stays_dead (tm : TM) (h : Dead tm) (ops : List TOp) :
    Dead (tm.run ops) ∧ (tm.run ops).tasks = tm.tasks ∧ (tm.run ops).log = tm.log := by
  have hs := run_dead ops tm h
  exact ⟨h.of_same hs, hs.1, hs.2.1⟩

/-- a task whose cancellation was requested never runs its body or another interval round -/
theorem cancelled_task_never_runs (now : Nat) (t : Task) (hc : t.cancelReq = true) :
    ∀ e ∈ deliverEv now t, e ≠ Ev.run t.id := by
  intro e he
  unfold deliverEv at he
  simp only [hc, if_true] at he
  split at he
  · cases he
  · split at he
    · simp at he; subst he; simp
    · cases he

/-- **replace_waits_for_tracked_old_task** — in every history from the initial state (unbounded), every task that was
    created by a `replace_task` continuation that had an unfinished tracked Task of that name to wait for (`start n (some
    t)`) appears in the event log after the entry that says that `t` has finished.  Like the code, this says nothing
    for `start n none`: no task of that name was tracked (never registered, finished, a plain Future — cancelled on the
    spot —, or cancelled earlier through `cancel_pending_task` and still dying); see the example below. -/
theorem replace_waits_for_tracked_old_task (ops : List TOp) : okLog (({ } : TM).run ops).log :=
  (logInv_run ops _ logInv_init).1

/-- `replace_task` itself starts nothing: the new task is only created by a later loop pass -/
theorem replace_starts_nothing (tm : TM) (n : Nat) (s : Spec) :
    (tm.replace n s).tasks.length = tm.tasks.length ∧ (tm.replace n s).next = tm.next := by
  unfold TM.replace TM.cancel
  cases lookupN tm.map n with
  | none => exact ⟨rfl, rfl⟩
  | some id =>
    simp only
    split
    · exact ⟨rfl, rfl⟩
    · simp

/-- non-vacuity: a replacement really is started (task 1 replaces the slow-to-die task 0) and only after `fin 0` -/
example : (({ } : TM).run [.reg 1 { kind := .long, stub := 2 }, .pass, .replace 1 { kind := .imm }, .tick, .tick, .tick]).log
    = [.fin 1, .run 1, .start 1 (some 0), .fin 0, .run 0] := by decide

/-- the limit of the clause, as in the code: a task that was untracked by `cancel_pending_task` is not waited for -/
example : (({ } : TM).run [.reg 1 { kind := .long, stub := 5 }, .pass, .cancel 1, .replace 1 { kind := .imm }, .settle]).log
    = [.fin 1, .run 1, .start 1 none, .run 0] := by decide

/-! ## 5. The service: discovery strategies -/

/-- **no_strategy_after_unload_overlay** — for every service state (any number of overlays, any number and order of
    strategies per overlay, consecutive or interleaved), after `unload_overlay(o)` and ANY later sequence of
    `add_strategy` / `unload_overlay` calls for other overlays, no strategy that drives `o` is in the service's strategy
    list (the list a NEW tick iterates), and the service no longer lists `o`.  A tick that is already iterating the old
    list object is outside this model (the code cannot suspend inside a tick with the shipped `walk_interval`; the
    `service` scenario watches `take_step` on the real service). -/
theorem no_strategy_after_unload_overlay (s : Svc) (o : Nat) (ops : List SOp) (hops : ∀ op ∈ ops, SvcForeign o op) :
    (∀ e ∈ ((s.unloadOverlay o).run ops).stepped, e.2 ≠ o) ∧ o ∉ ((s.unloadOverlay o).run ops).overlays :=
  svcClean_run ops _ hops (svcClean_unload s o)

/-- **service_model_matches_source** — the way the service forgets an overlay, re-read from the source on every run: both
    lists of `IPv8.unload_overlay` are rebuilt without the instance, strategies are selected BY THE OVERLAY THEY DRIVE (this is
    `Svc.unloadOverlay`), the instance is unloaded afterwards, and the inline copy of that code in
    `HiddenTunnelCommunity.remove_exit_socket` (a PEX overlay that has finished) selects the same way. -/
theorem service_model_matches_source :
    Gen.serviceFacts.length = 4 ∧ ∀ f ∈ Gen.serviceFacts, f.2 = true := by decide

/-- non-vacuity: three consecutive strategies of overlay 1 between strategies of overlay 2 (the shape of the default
    configuration) — all three are gone, the others stay -/
example : (((({ } : Svc).run [.add 2 10, .add 1 11, .add 1 12, .add 1 13, .add 2 14]).unloadOverlay 1).run [.add 3 15]).stepped
    = [(10, 2), (14, 2), (15, 3)] := by decide

end Ipv8.C11
