/-
  Serializer instances as state: which packer table does an overlay encode / decode with?

  Mirrors ipv8/overlay.py `Overlay.__init__` (`self.serializer = self.get_serializer()`), `Overlay.get_serializer`
  (`return Serializer()` — a FRESH instance with the default table), the pattern every overlay that needs its own formats uses
  (`serializer = super().get_serializer(); serializer.add_packer(name, packer); return serializer`) and
  `Serializer.add_packer` (`self._packers[name] = packer`: the latest registration of a name wins).

  A world is the collection of live Serializer instances (numbered in creation order) with their tables; a table is an
  association list searched from the front, so `add_packer` conses.  `shared` is the module-level `default_serializer`
  (instance 0 of every world built by `World.init`).  The harness builds random sets of overlays with random
  registrations, in random order, and compares for every overlay and every name what its serializer resolves the name to
  with this model (driver op `reg`).
-/
import Ipv8.C02.Model

namespace Ipv8.C02.Reg

abbrev Table := List (String × Fmt)

structure World where
  next : Nat
  tbl : Nat → Table

def lookup (t : Table) (n : String) : Option Fmt :=
  match t.find? (fun e => e.1 == n) with
  | some e => some e.2
  | none => none

/-- the process at import time: only `default_serializer` (instance 0) exists -/
def World.init (defaults : Table) : World := ⟨1, fun _ => defaults⟩

/-- `Serializer.add_packer` on instance `id` -/
def addPacker (w : World) (id : Nat) (e : String × Fmt) : World :=
  { w with tbl := fun i => if i = id then e :: w.tbl i else w.tbl i }

/-- `Overlay.__init__` of an overlay whose `get_serializer` registers `regs` (in this order) on top of
    `super().get_serializer()`: a fresh Serializer is allocated; returns the new world and the overlay's instance id -/
def create (defaults : Table) (w : World) (regs : List (String × Fmt)) : World × Nat :=
  let id := w.next
  let w1 : World := ⟨w.next + 1, fun i => if i = id then defaults else w.tbl i⟩
  (regs.foldl (fun w e => addPacker w id e) w1, id)

/-- the variant in which `get_serializer` hands out the shared module-level instance (NOT what the code does) -/
def createShared (w : World) (regs : List (String × Fmt)) : World × Nat :=
  (regs.foldl (fun w e => addPacker w 0 e) w, 0)

/-- what a registration list resolves a name to: the LAST registration of that name -/
def ownLookup (regs : List (String × Fmt)) (n : String) : Option Fmt := lookup regs.reverse n

theorem lookup_cons (e : String × Fmt) (t : Table) (n : String) :
    lookup (e :: t) n = if e.1 == n then some e.2 else lookup t n := by
  simp only [lookup, List.find?_cons]
  cases h : (e.1 == n) <;> simp

theorem lookup_append (a b : Table) (n : String) :
    lookup (a ++ b) n = (lookup a n).or (lookup b n) := by
  induction a with
  | nil => simp [lookup]
  | cons e es ih =>
    rw [List.cons_append, lookup_cons, lookup_cons]
    cases h : (e.1 == n) <;> simp [ih]

/-- folding registrations onto instance `id`: the instance's table gets them in front (latest first), others are untouched -/
theorem foldl_addPacker (regs : List (String × Fmt)) (w : World) (id : Nat) :
    (regs.foldl (fun w e => addPacker w id e) w).tbl = fun i => if i = id then regs.reverse ++ w.tbl i else w.tbl i := by
  induction regs generalizing w with
  | nil => funext i; simp
  | cons e es ih =>
    rw [List.foldl_cons, ih]
    funext i
    by_cases h : i = id <;> simp [addPacker, h]

theorem foldl_addPacker_next (regs : List (String × Fmt)) (w : World) (id : Nat) :
    (regs.foldl (fun w e => addPacker w id e) w).next = w.next := by
  induction regs generalizing w with
  | nil => rfl
  | cons e es ih => rw [List.foldl_cons, ih]; rfl

/-- all overlays of a process, created in the given order -/
def run (defaults : Table) (regss : List (List (String × Fmt))) : World :=
  regss.foldl (fun w regs => (create defaults w regs).1) (World.init defaults)

theorem create_next (defaults : Table) (w : World) (regs : List (String × Fmt)) :
    (create defaults w regs).1.next = w.next + 1 := by
  simp [create, foldl_addPacker_next]

theorem create_tbl (defaults : Table) (w : World) (regs : List (String × Fmt)) :
    (create defaults w regs).1.tbl = fun i => if i = w.next then regs.reverse ++ defaults else w.tbl i := by
  simp only [create, foldl_addPacker]
  funext i
  by_cases h : i = w.next <;> simp [h]

/-- creating further overlays never changes the table of an existing serializer instance -/
theorem foldl_create_stable (defaults : Table) (regss : List (List (String × Fmt))) (w : World) (j : Nat) (hj : j < w.next) :
    (regss.foldl (fun w regs => (create defaults w regs).1) w).tbl j = w.tbl j := by
  induction regss generalizing w with
  | nil => rfl
  | cons r rs ih =>
    rw [List.foldl_cons, ih _ (by rw [create_next]; omega), create_tbl]
    simp [Nat.ne_of_lt hj]

theorem foldl_create_next (defaults : Table) (regss : List (List (String × Fmt))) (w : World) :
    (regss.foldl (fun w regs => (create defaults w regs).1) w).next = w.next + regss.length := by
  induction regss generalizing w with
  | nil => rfl
  | cons r rs ih => rw [List.foldl_cons, ih, create_next, List.length_cons]; omega

end Ipv8.C02.Reg
