/-
  Checks over the GENERATED registry / payload table and the frozen documented table (all decidable, core Lean only).
-/
import Ipv8.C02.GenSpec

namespace Ipv8.C02
open Gen

def lookup {α} (t : List (String × α)) (n : String) : Option α :=
  (t.find? (fun e => e.1 == n)).map (·.2)

def findPayload (n : String) : Option PayloadDef := payloads.find? (fun p => p.name == n)

-- `raw` may only be the last entry of a format list (also inside nested payloads and lists of them)
mutual
def rawOnlyLastF : Fmt → Bool
  | .nested fs => rawOnlyLast fs
  | .listOf _ f => rawFree f
  | _ => true
def rawFree : Fmt → Bool
  | .raw => false
  | .nested fs => rawOnlyLast fs
  | .listOf _ f => rawFree f
  | _ => true
def rawOnlyLast : FmtList → Bool
  | .nil => true
  | .cons f .nil => rawOnlyLastF f
  | .cons f fs => rawFree f && rawOnlyLast fs
end

/-- re-resolution, inside Lean, of a class's `format_list` against the generated registry and payload table
    (`fuel` bounds the nesting depth) -/
def resolveRefs : Nat → List FRef → Option FmtList
  | _, [] => some .nil
  | 0, _ => none
  | fuel+1, r :: rs => do
    let f ← match r with
      | .name s => match lookup packers s with
        | some (.fmt f) => some f
        | _ => none
      | .cls c => do
        let p ← findPayload c
        let fs ← resolveRefs fuel p.refs
        some (.nested fs)
      | .clsList c => do
        let p ← findPayload c
        let fs ← resolveRefs fuel p.refs
        match lookup packers "payload-list" with
        | some (.payloadList w) => some (.listOf w (.nested fs))
        | _ => none
    let fs ← resolveRefs fuel rs
    some (.cons f fs)

def distinct : List String → Bool
  | [] => true
  | x :: xs => !xs.contains x && distinct xs

/-- well-formedness of one shipped payload definition -/
def wfPayload (p : PayloadDef) : Bool :=
  resolveRefs 64 p.refs == some p.fmts          -- only registered formats / shipped classes, resolved as generated
  && rawOnlyLast p.fmts                          -- `raw` only last
  && (p.kind == "old" || (p.names.length == nameCount p.fmts && distinct p.names))   -- 8 names per `bits`
  && p.hooks.isEmpty                             -- no fix_pack_/fix_unpack_ hooks (not modelled)
  && (p.kind == "old" || p.kind == "compiled" || p.kind == "vp" || p.kind == "dataclass")

def layoutMatches (e : String × List FRef × List String) : Bool :=
  match findPayload e.1 with
  | some p => p.refs == e.2.1 && p.names == e.2.2
  | none => false

def msgIdMatches (e : String × Option Nat) : Bool :=
  match findPayload e.1 with
  | some p => p.msgId == e.2
  | none => false

end Ipv8.C02
