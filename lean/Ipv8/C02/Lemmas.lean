import Ipv8.C02.Tables
namespace Ipv8.C02
end Ipv8.C02
