/-
  Helper lemmas for the C02 round-trip theorems (core Lean only).
-/
import Ipv8.C02.Tables
import Ipv8.C02.OldPayloads
import Ipv8.C02.WF
import Ipv8.C02.Dataclass
import Ipv8.C02.Registry
import Ipv8.C02.Frame

namespace Ipv8.C02
open Ipv8

/-! ### Except plumbing -/

theorem bind_ok {α β} {x : Except Err α} {f : α → Except Err β} {b : β}
    (h : (x >>= f) = .ok b) : ∃ a, x = .ok a ∧ f a = .ok b := by
  cases x with
  | error e => simp [bind, Except.bind] at h
  | ok a => exact ⟨a, rfl, by simpa [bind, Except.bind] using h⟩

@[simp] theorem ok_bind {α β} (a : α) (f : α → Except Err β) : ((Except.ok a : Except Err α) >>= f) = f a := rfl

/-! ### big-endian integers -/

theorem beEnc_length (w n : Nat) : (beEnc w n).length = w := by
  induction w generalizing n with
  | zero => rfl
  | succ w ih => simp [beEnc, ih]

theorem beDecAux_append (a b : Bytes) (acc : Nat) : beDecAux (a ++ b) acc = beDecAux b (beDecAux a acc) := by
  induction a generalizing acc with
  | nil => rfl
  | cons x xs ih => simp [beDecAux, ih]

theorem toNat_ofNat_mod (n : Nat) : (UInt8.ofNat (n % 256)).toNat = n % 256 := by
  simp [UInt8.toNat_ofNat']

theorem toNat_ofNat_lt {n : Nat} (h : n < 256) : (UInt8.ofNat n).toNat = n := by
  simp [UInt8.toNat_ofNat']; omega

theorem beDec_beEnc (w n : Nat) (h : n < 256 ^ w) : beDec (beEnc w n) = n := by
  unfold beDec
  induction w generalizing n with
  | zero => simp [beEnc, beDecAux] at *; omega
  | succ w ih =>
    have h1 : n / 256 < 256 ^ w := by
      rw [Nat.pow_succ] at h; exact Nat.div_lt_of_lt_mul (by omega)
    simp [beEnc, beDecAux_append, ih _ h1, beDecAux]
    omega

theorem packUint_ok {w n : Nat} {b : Bytes} (h : packUint w n = .ok b) : b = beEnc w n ∧ n < 256 ^ w := by
  unfold packUint at h
  split at h
  · cases h; exact ⟨rfl, by assumption⟩
  · cases h

/-! ### reading inside `p ++ (x ++ q)` at offset `p.length` -/

theorem readAt_mid (p x q : Bytes) : readAt (p ++ (x ++ q)) p.length x.length = .ok x := by
  unfold readAt
  rw [if_pos (by simp)]
  simp

theorem readAt_mid' (p x q : Bytes) (off w : Nat) (ho : off = p.length) (hw : w = x.length) :
    readAt (p ++ (x ++ q)) off w = .ok x := by
  subst ho; subst hw; exact readAt_mid p x q

theorem sliceChecked_mid' (p x q : Bytes) (off w : Nat) (ho : off = p.length) (hw : w = x.length) :
    sliceChecked (p ++ (x ++ q)) off w = .ok x := by
  subst ho; subst hw
  unfold sliceChecked
  rw [if_pos (by simp)]
  simp

theorem readUint_mid' (p q : Bytes) (off w n : Nat) (ho : off = p.length) (hn : n < 256 ^ w) :
    readUint (p ++ (beEnc w n ++ q)) off w = .ok n := by
  unfold readUint
  rw [readAt_mid' p (beEnc w n) q off w ho (beEnc_length w n).symm]
  simp [beDec_beEnc w n hn]

/-! ### struct fields -/

theorem fixedPad_self (b : Bytes) : fixedPad b.length b = b := by
  simp [fixedPad]

theorem sint_rt (w : Nat) (i : Int) (h : sintInRange w i = true) :
    sintEnc w i < 256 ^ w ∧ sintDec w (sintEnc w i) = i := by
  simp only [sintInRange, Bool.and_eq_true, decide_eq_true_eq] at h
  obtain ⟨h1, h2⟩ := h
  have hM : (0 : Int) < ((256 ^ w : Nat) : Int) := by
    have : 0 < 256 ^ w := Nat.pow_pos (by omega)
    omega
  unfold sintEnc sintDec
  by_cases hi : 0 ≤ i
  · have e : i % ((256 ^ w : Nat) : Int) = i := Int.emod_eq_of_lt hi (by omega)
    rw [e]
    constructor
    · omega
    · have : (2 * i.toNat : Nat) < 256 ^ w := by omega
      rw [if_pos this]; omega
  · have e : i % ((256 ^ w : Nat) : Int) = i + ((256 ^ w : Nat) : Int) := by
      rw [← Int.add_emod_right]
      exact Int.emod_eq_of_lt (by omega) (by omega)
    rw [e]
    constructor
    · omega
    · have : ¬ (2 * (i + ((256 ^ w : Nat) : Int)).toNat < 256 ^ w) := by omega
      rw [if_neg this]; omega

theorem packField_rt {f : SField} {a : Atom} {x : Bytes} (h : packField f a = .ok x) (hw : wfField f a = true) :
    x.length = f.size ∧ decodeField f x = a := by
  cases f <;> cases a <;> simp only [packField] at h <;> try (cases h; done)
  case bool.nat => simp [wfField] at hw
  case bool.int => simp [wfField] at hw
  case bool.bytes => simp [wfField] at hw
  case bool.float => simp [wfField] at hw
  case uint.nat w n =>
    obtain ⟨rfl, hn⟩ := packUint_ok h
    simp [SField.size, beEnc_length, decodeField, beDec_beEnc w n hn]
  case sint.int w i =>
    split at h
    · rename_i hr
      cases h
      obtain ⟨h1, h2⟩ := sint_rt w i hr
      simp [SField.size, beEnc_length, decodeField, beDec_beEnc _ _ h1, h2]
    · cases h
  case bool.bool b =>
    cases h
    cases b <;> simp [SField.size, decodeField, beDec, beDecAux, truthy]
  case char.bytes b =>
    split at h
    · rename_i hl
      cases h
      simp [SField.size, decodeField, hl]
    · cases h
  case fixed.bytes n b =>
    cases h
    simp only [wfField, beq_iff_eq] at hw
    subst hw
    simp [SField.size, decodeField, fixedPad_self]
  case float.float w b =>
    split at h
    · rename_i hl
      cases h
      simp [SField.size, decodeField, hl]
    · cases h

theorem packFields_rt {fs : List SField} {as : List Atom} {b : Bytes}
    (h : packFields fs as = .ok b) (hw : wfFields fs as = true) :
    b.length = structSize fs ∧ decodeFields fs b = as ∧ as.length = fs.length := by
  induction fs generalizing as b with
  | nil =>
    cases as with
    | nil => simp [packFields] at h; subst h; simp [structSize, decodeFields]
    | cons _ _ => simp [packFields] at h
  | cons f fs ih =>
    cases as with
    | nil => simp [packFields] at h
    | cons a as =>
      simp only [packFields] at h
      obtain ⟨x, hx, h1⟩ := bind_ok h
      obtain ⟨y, hy, h2⟩ := bind_ok h1
      cases h2
      simp only [wfFields, Bool.and_eq_true] at hw
      obtain ⟨e1, e2⟩ := packField_rt hx hw.1
      obtain ⟨i1, i2, i3⟩ := ih hy hw.2
      refine ⟨?_, ?_, ?_⟩
      · simp [structSize, e1] at *; omega
      · simp [decodeFields, ← e1, e2, i2]
      · simp [i3]


/-! ### readers at a named position `d = l ++ (x ++ r)` -/

theorem readAt_at {d l x r : Bytes} {off w : Nat} (hd : d = l ++ (x ++ r)) (ho : off = l.length)
    (hw : w = x.length) : readAt d off w = .ok x := by
  subst hd; exact readAt_mid' l x r off w ho hw

theorem sliceChecked_at {d l x r : Bytes} {off w : Nat} (hd : d = l ++ (x ++ r)) (ho : off = l.length)
    (hw : w = x.length) : sliceChecked d off w = .ok x := by
  subst hd; exact sliceChecked_mid' l x r off w ho hw

theorem readUint_at {d l r : Bytes} {off w n : Nat} (hd : d = l ++ (beEnc w n ++ r)) (ho : off = l.length)
    (hn : n < 256 ^ w) : readUint d off w = .ok n := by
  subst hd; exact readUint_mid' l r off w n ho hn

theorem readByte_at {d l r : Bytes} {off : Nat} (c : UInt8) (hd : d = l ++ ([c] ++ r)) (ho : off = l.length) :
    readUint d off 1 = .ok c.toNat := by
  unfold readUint
  have e : readAt d off 1 = .ok [c] := readAt_at (x := [c]) hd ho rfl
  rw [e]
  simp [beDec, beDecAux]

theorem pySlice_at {d l x r : Bytes} {a b : Nat} (hd : d = l ++ (x ++ r)) (ha : a = l.length)
    (hb : b = l.length + x.length) : pySlice d a b = x := by
  subst hd; subst ha; subst hb
  simp [pySlice]

theorem beEnc_one {n : Nat} (h : n < 256) : beEnc 1 n = [UInt8.ofNat n] := by
  simp [beEnc, Nat.mod_eq_of_lt h]

/-! ### bits -/

def bitAtom (x : Bool) : Atom := .nat x.toNat

theorem isBit_bool {a : Atom} (h : isBit a = true) : ∃ x : Bool, a = bitAtom x := by
  cases a with
  | nat n =>
    match n, h with
    | 0, _ => exact ⟨false, rfl⟩
    | 1, _ => exact ⟨true, rfl⟩
  | _ => simp [isBit] at h

theorem bits_tbl : ∀ x7 x6 x5 x4 x3 x2 x1 x0 : Bool,
    bitsByte [bitAtom x7, bitAtom x6, bitAtom x5, bitAtom x4, bitAtom x3, bitAtom x2, bitAtom x1, bitAtom x0] < 256 ∧
    bitsOfByte (bitsByte [bitAtom x7, bitAtom x6, bitAtom x5, bitAtom x4, bitAtom x3, bitAtom x2, bitAtom x1, bitAtom x0])
      = [bitAtom x7, bitAtom x6, bitAtom x5, bitAtom x4, bitAtom x3, bitAtom x2, bitAtom x1, bitAtom x0] := by
  decide

theorem bits_rt {as : List Atom} (hl : as.length = 8) (hb : as.all isBit = true) :
    bitsByte as < 256 ∧ bitsOfByte (bitsByte as) = as := by
  match as, hl with
  | [a7, a6, a5, a4, a3, a2, a1, a0], _ =>
    simp only [List.all_cons, List.all_nil, Bool.and_true, Bool.and_eq_true] at hb
    obtain ⟨h7, h6, h5, h4, h3, h2, h1, h0⟩ := hb
    obtain ⟨x7, rfl⟩ := isBit_bool h7
    obtain ⟨x6, rfl⟩ := isBit_bool h6
    obtain ⟨x5, rfl⟩ := isBit_bool h5
    obtain ⟨x4, rfl⟩ := isBit_bool h4
    obtain ⟨x3, rfl⟩ := isBit_bool h3
    obtain ⟨x2, rfl⟩ := isBit_bool h2
    obtain ⟨x1, rfl⟩ := isBit_bool h1
    obtain ⟨x0, rfl⟩ := isBit_bool h0
    exact bits_tbl x7 x6 x5 x4 x3 x2 x1 x0

/-! ### arrays -/

theorem packElem_rt {k : AKind} {a : Atom} {x : Bytes} (h : packElem k a = .ok x) (hw : wfElem k a = true) :
    x.length = k.size ∧ decodeElem k x = a := by
  cases k <;> cases a <;> simp only [packElem] at h <;> try (cases h; done)
  case bool.bool b =>
    cases h
    cases b <;> simp [AKind.size, decodeElem, beDec, beDecAux]
  case bool.nat n => simp [wfElem] at hw
  case q.int i =>
    split at h
    · rename_i hr
      cases h
      obtain ⟨h1, h2⟩ := sint_rt 8 i hr
      simp [AKind.size, beEnc_length, decodeElem, beDec_beEnc _ _ h1, h2]
    · cases h
  case d.float b =>
    split at h
    · rename_i hl
      cases h
      simp [AKind.size, decodeElem, hl]
    · cases h

theorem packElems_rt {k : AKind} {as : List Atom} {b : Bytes}
    (h : packElems k as = .ok b) (hw : as.all (wfElem k) = true) :
    b.length = as.length * k.size ∧ decodeElems k as.length b = as := by
  induction as generalizing b with
  | nil => simp [packElems] at h; subst h; simp [decodeElems]
  | cons a as ih =>
    simp only [packElems] at h
    obtain ⟨x, hx, h1⟩ := bind_ok h
    obtain ⟨y, hy, h2⟩ := bind_ok h1
    cases h2
    simp only [List.all_cons, Bool.and_eq_true] at hw
    obtain ⟨e1, e2⟩ := packElem_rt hx hw.1
    obtain ⟨i1, i2⟩ := ih hy hw.2
    constructor
    · simp [e1, i1, Nat.add_mul]; omega
    · simp [decodeElems, ← e1, e2, i2]


/-! ### tb_overlap records of SimilarityResponsePayload -/

/-- one decoded `(hash, count)` record -/
def tbDec (c : Bytes) : Option Val :=
  if c.length = 24 then some (Val.tuple [.bytes (c.take 20), .nat (beDec (c.drop 20))]) else none

def wfTb : Val → Bool
  | .tuple [.bytes h, .nat _] => h.length == 20
  | _ => false

theorem splitTb_eq (b : Bytes) : Old.splitTb b = (Old.chunks 24 b).mapM tbDec := rfl

theorem chunksAux_joinTb (l : List Val) (b : Bytes) (fuel : Nat) (hj : Old.joinTb l = some b)
    (hw : ∀ e ∈ l, wfTb e = true) (hf : b.length ≤ fuel) :
    (Old.chunksAux 24 fuel b).mapM tbDec = some l := by
  induction l generalizing b fuel with
  | nil =>
    simp [Old.joinTb] at hj; subst hj
    cases fuel <;> simp [Old.chunksAux]
  | cons e es ih =>
    have hwe := hw e (by simp)
    match e, hwe with
    | .tuple [.bytes h, .nat k], hwe =>
      simp only [wfTb, beq_iff_eq] at hwe
      simp only [Old.joinTb] at hj
      split at hj
      · rename_i hk
        cases hr : Old.joinTb es with
        | none => simp [hr] at hj
        | some b' =>
          simp [hr] at hj
          subst hj
          have hpad : fixedPad 20 h = h := by rw [← hwe]; exact fixedPad_self h
          rw [hpad] at hf ⊢
          have hlen : (h ++ beEnc 4 k).length = 24 := by simp [hwe, beEnc_length]
          have hf' : 24 + b'.length ≤ fuel := by
            have := hf
            simp [hwe, beEnc_length] at this
            omega
          obtain ⟨f, rfl⟩ : ∃ f, fuel = f + 1 := ⟨fuel - 1, by omega⟩
          have hne : (h ++ beEnc 4 k ++ b').isEmpty = false := by
            cases hh : h with
            | nil => simp [hh] at hwe
            | cons _ _ => simp
          have htake : (h ++ beEnc 4 k ++ b').take 24 = h ++ beEnc 4 k := List.take_left' hlen
          have hdrop : (h ++ beEnc 4 k ++ b').drop 24 = b' := List.drop_left' hlen
          have hrec := ih b' f hr (fun e he => hw e (by simp [he])) (by omega)
          have hdec : tbDec (h ++ beEnc 4 k) = some (Val.tuple [.bytes h, .nat k]) := by
            simp [tbDec, hlen, List.take_left' hwe, List.drop_left' hwe, beDec_beEnc 4 k hk]
          have hxe : h ++ (beEnc 4 k ++ b') = h ++ beEnc 4 k ++ b' := by simp
          rw [hxe]
          generalize h ++ beEnc 4 k ++ b' = x at *
          simp only [Old.chunksAux, hne, Bool.false_eq_true, if_false, htake, hdrop]
          simp [hdec, hrec]
      · cases hj

theorem splitTb_joinTb (l : List Val) (b : Bytes) (hj : Old.joinTb l = some b) (hw : ∀ e ∈ l, wfTb e = true) :
    Old.splitTb b = some l := by
  rw [splitTb_eq]
  simp only [Old.chunks]
  exact chunksAux_joinTb l b b.length hj hw (Nat.le_refl _)


/-! ### 20-byte preference lists -/

def wfPref : Val → Bool
  | .atom (.bytes h) => h.length == 20
  | _ => false

theorem chunksAux_joinBytes (l : List Val) (b : Bytes) (fuel : Nat) (hj : Old.joinBytes l = some b)
    (hw : ∀ e ∈ l, wfPref e = true) (hf : b.length ≤ fuel) :
    (Old.chunksAux 20 fuel b).map (fun c => Val.atom (.bytes c)) = l := by
  induction l generalizing b fuel with
  | nil =>
    simp [Old.joinBytes] at hj; subst hj
    cases fuel <;> simp [Old.chunksAux]
  | cons e es ih =>
    have hwe := hw e (by simp)
    match e, hwe with
    | .atom (.bytes h), hwe =>
      simp only [wfPref, beq_iff_eq] at hwe
      simp only [Old.joinBytes] at hj
      cases hr : Old.joinBytes es with
      | none => simp [hr] at hj
      | some b' =>
        simp [hr] at hj
        subst hj
        have hf' : 20 + b'.length ≤ fuel := by
          have := hf
          simp [hwe] at this
          omega
        obtain ⟨f, rfl⟩ : ∃ f, fuel = f + 1 := ⟨fuel - 1, by omega⟩
        have hne : (h ++ b').isEmpty = false := by
          cases hh : h with
          | nil => simp [hh] at hwe
          | cons _ _ => simp
        have htake : (h ++ b').take 20 = h := List.take_left' hwe
        have hdrop : (h ++ b').drop 20 = b' := List.drop_left' hwe
        have hrec := ih b' f hr (fun e he => hw e (by simp [he])) (by omega)
        generalize h ++ b' = x at *
        simp only [Old.chunksAux, hne, Bool.false_eq_true, if_false, htake, hdrop]
        simp [hrec]

theorem ofList_toList : (vs : ValList) → ValList.ofList vs.toList = vs
  | .nil => rfl
  | .cons v vs => by simp [ValList.toList, ValList.ofList, ofList_toList vs]

theorem toList_ofList (l : List Val) : (ValList.ofList l).toList = l := by
  induction l with
  | nil => rfl
  | cons v vs ih => simp [ValList.toList, ValList.ofList, ih]

/-! ### VariablePayload: attributes ↔ pack list -/

open Old in
theorem take8_eq {a : List Val} {bs : List Atom} {r : List Val} (h : take8 a = some (bs, r)) :
    a = bs.map Val.atom ++ r := by
  unfold take8 at h
  split at h
  · cases h; rfl
  · cases h

open Old in
theorem flatten_cons_nonbits (f : Fmt) (fs : FmtList) (v : Val) (vs : ValList) (hf : f ≠ .bits) :
    flatten (.cons f fs) (.cons v vs) = v :: flatten fs vs := by
  cases f <;> first | (exact absurd rfl hf) | simp [flatten]

open Old in
theorem flatten_vpPack : (fs : FmtList) → (a pl : List Val) → Old.vpPack fs a = some pl →
    flatten fs (ValList.ofList pl) = a
  | .nil, a, pl, h => by
    cases a with
    | nil => simp [Old.vpPack] at h; subst h; simp [flatten, ValList.ofList]
    | cons _ _ => simp [Old.vpPack] at h
  | .cons f fs, a, pl, h => by
    simp only [Old.vpPack] at h
    by_cases hf : f = .bits
    · subst hf
      simp only [if_true] at h
      cases ht : take8 a with
      | none => simp [ht] at h
      | some br =>
        obtain ⟨bs, r⟩ := br
        simp only [ht] at h
        cases hr : Old.vpPack fs r with
        | none => simp [hr] at h
        | some pl' =>
          simp [hr] at h
          subst h
          rw [take8_eq ht]
          simp [ValList.ofList, flatten, flatten_vpPack fs r pl' hr]
    · simp only [if_neg hf] at h
      cases a with
      | nil => simp at h
      | cons v r =>
        simp only at h
        cases hr : Old.vpPack fs r with
        | none => simp [hr] at h
        | some pl' =>
          simp [hr] at h
          subst h
          simp [ValList.ofList, flatten_cons_nonbits f fs v _ hf, flatten_vpPack fs r pl' hr]

/-! ### constructors of the hand-written payloads -/

/-- every natural number among the arguments is an in-domain `H` value -/
def identsInDomain : List Val → Prop
  | [] => True
  | .atom (.nat k) :: r => k < 65536 ∧ identsInDomain r
  | _ :: r => identsInDomain r

theorem modIdentAt_in_domain : (i : Nat) → (args : List Val) → identsInDomain args → Old.modIdentAt i args = args
  | 0, [], _ => rfl
  | _+1, [], _ => rfl
  | 0, v :: r, h => by
    cases v with
    | atom a =>
      cases a with
      | nat k =>
        simp only [identsInDomain] at h
        simp [Old.modIdentAt, Nat.mod_eq_of_lt h.1]
      | _ => rfl
    | _ => rfl
  | i+1, v :: r, h => by
    have hr : identsInDomain r := by
      cases v with
      | atom a => cases a <;> simp_all [identsInDomain]
      | _ => simpa [identsInDomain] using h
    simp [Old.modIdentAt, modIdentAt_in_domain i r hr]

/-! ### the canonical shape of generated / plain method bodies -/

def fmtNameOf : Gen.FRef → String
  | .name s => s
  | .cls _ => "payload"
  | .clsList _ => "payload-list"

/-- `to_pack_list` of a VariablePayload: one entry per format, its attribute(s) in `names` order (8 for `bits`) -/
def canonPack : List Gen.FRef → Nat → List Code.PEntry
  | [], _ => []
  | r :: rs, i =>
    if fmtNameOf r == "bits" then
      { fmt := "bits", args := (List.range 8).map (fun k => Code.PExpr.attr (i + k)) } :: canonPack rs (i + 8)
    else { fmt := fmtNameOf r, args := [.attr i] } :: canonPack rs (i + 1)

/-- the code of a class that packs its attributes as they are, passes the unpacked values straight to the constructor and
    stores the constructor arguments as they are — except `identifier % 65536` at `identAt` -/
def canonicalCode (p : Gen.PayloadDef) (attrs : List String) (identAt : Option Nat) : Code.ClassCode :=
  { name := p.name, attrs := attrs, pack := canonPack p.refs 0,
    unpackParams := attrs.length, ctorArgs := (List.range attrs.length).map Code.UExpr.param, ctorParams := attrs.length,
    init := (List.range attrs.length).map (fun j => if some j = identAt then Code.IExpr.modParam j 65536 else .param j) }

/-- hand-written classes whose methods do more than that (each has its own bridge theorem or is compared by the driver) -/
def specialOld : List String :=
  ["ipv8.messaging.payload.IntroductionRequestPayload", "ipv8.messaging.payload.IntroductionResponsePayload",
   "ipv8.peerdiscovery.payload.DiscoveryIntroductionRequestPayload", "ipv8.peerdiscovery.payload.SimilarityRequestPayload",
   "ipv8.peerdiscovery.payload.SimilarityResponsePayload"]

def codeIsCanonical (p : Gen.PayloadDef) : Bool :=
  let c := Gen.codeOf p.name
  if p.kind == "old" then
    specialOld.contains p.name || c == canonicalCode p c.attrs (Old.identPos (Old.short p.name))
  else c == canonicalCode p p.names none

/-! ### the datagram frame -/

open Frame in
theorem slice_lemma (h0 g m s : Bytes) (c : Nat) (hc : c ≤ h0.length) (_hs : 0 < s.length) :
    sliceFromToMinus (h0 ++ (g ++ (m ++ s))) c s.length = h0.drop c ++ (g ++ m) := by
  unfold sliceFromToMinus pySlice
  rw [List.drop_append_of_le_length hc]
  have hl : (h0 ++ (g ++ (m ++ s))).length - s.length - c = (h0.drop c ++ (g ++ m)).length := by
    simp [List.length_drop]; omega
  rw [hl]
  have : h0.drop c ++ (g ++ (m ++ s)) = (h0.drop c ++ (g ++ m)) ++ s := by simp
  rw [this, List.take_left']
  rfl


end Ipv8.C02
