/-
  The datagram frame of an overlay message (ipv8/lazy_community.py `EZPackOverlay`):

      prefix (22 bytes) ‖ message id (1 byte) ‖ payloads …  [‖ signature]

  `_ez_pack(prefix, msg_num, payloads, sig)`   = prefix + bytes([msg_num]) + pack_serializable_list(payloads) [+ signature]
  `_ez_unpack_auth(cls, data)`:  auth = unpack_serializable(BinMemberAuthenticationPayload, data, offset=23)   (a `varlenH` key)
                                 remainder = data[2 + len(auth.public_key_bin) : -signature_length]             (`_verify_signature`)
                                 unpack_serializable_list([GlobalTimeDistributionPayload, cls], remainder, offset=23)
  `_ez_unpack_noauth(cls, data, global_time)`:  unpack_serializable_list([GlobalTime…, cls] | [cls], data, offset=23)
  (`lazy_wrapper*` do the same with the decorator's payload classes.)  The length that is cut off the front is the length of the
  key field AS IT IS ON THE WIRE.  Whether the signature verifies is C01's subject; here the signature is `sigLen` opaque bytes.
-/
import Ipv8.C02.Model

namespace Ipv8.C02.Frame
open Ipv8 Ipv8.C02

def authFmts : FmtList := .cons (.varlen 2 1) .nil          -- BinMemberAuthenticationPayload
def distFmts : FmtList := .cons (.struct [.uint 8]) .nil    -- GlobalTimeDistributionPayload

def ezPack (pre : Bytes) (msgId : Nat) (ps : List (FmtList × ValList)) (sig : Bytes) : Except Err Bytes := do
  let body ← packPayloads ps
  .ok (pre ++ [UInt8.ofNat msgId] ++ body ++ sig)

/-- `data[a:-n]` for `n > 0` -/
def sliceFromToMinus (d : Bytes) (a n : Nat) : Bytes := pySlice d a (d.length - n)

def ezUnpackAuth (sigLen : Nat) (fss : List FmtList) (data : Bytes) : Except Err (Bytes × List ValList) := do
  let (auth, _) ← unpackListAt authFmts data 23
  match auth with
  | .cons (.atom (.bytes key)) .nil =>
    let remainder := sliceFromToMinus data (2 + key.length) sigLen
    let (vss, _) ← unpackPayloadsAt fss remainder 23 true
    .ok (key, vss)
  | _ => .error .type

def ezUnpackNoAuth (fss : List FmtList) (data : Bytes) : Except Err (List ValList) := do
  let (vss, _) ← unpackPayloadsAt fss data 23 true
  .ok vss

end Ipv8.C02.Frame
