/-
  Dataclass-defined payloads (ipv8/messaging/payload_dataclass.py + lazy_payload.vp_compile): the class-level
  conversion state, as the code behaves today (including the known defect on the receive-first path).

  * `DataClassPayload.__new__` / `DataClassPayloadWID.__new__` call `convert_to_payload(cls)` on EVERY instantiation; that
    stores `names` / `format_list` (all dataclass fields, inherited ones first) in the class's OWN namespace and
    `vp_compile`s it; `from_unpack_list` becomes a method BOUND to the class that was compiled.
  * Reading `cls.names` / `cls.format_list` / `cls.from_unpack_list` goes through inheritance: a class that was never
    converted sees its nearest converted ancestor's values; the root (`VariablePayload`) has `names = []`,
    `format_list = []` and the generic `from_unpack_list` (`cls(*args)`).
  * `Serializer.unpack_serializable(cls, data)` therefore
      - on a class with NO converted ancestor reads nothing (`format_list == []`) and calls `cls()`: `__new__` converts the
        class, then the dataclass `__init__` raises TypeError (missing arguments) unless the class has no fields;
      - on an unconverted class WITH a converted ancestor `a` decodes `a`'s fields and returns an instance of `a`
        (the bound `from_unpack_list` of `a`); the class itself stays unconverted;
      - on a converted class decodes all its fields and returns an instance of it.

  Classes are numbered; `all c` is the full field list of class `c`, `parent c` its dataclass-payload base class
  (the harness compares `cls.names` of every class of a hierarchy and the outcome of every decode with this model after
  every step: driver op `dc`).
-/
namespace Ipv8.C02.Dc

abbrev State := Nat → Option (List String)

def init : State := fun _ => none

/-- `recv c fm`: `unpack_serializable(cls_c, datagram of a cls_c message)`; `fm` lists, per field of `c` in order, the
    dataclass-payload class of which at least one nested instance is present in that field of the datagram (`none`: a plain
    field or an empty list) — nested members are decoded by a recursive `unpack_serializable(member class, …)` -/
inductive Op where
  | inst (c : Nat)                          -- `cls(...)`
  | recv (c : Nat) (fm : List (Option Nat))
deriving Repr, DecidableEq

/-- `cls(...)`: convert_to_payload runs unconditionally -/
def instantiate (all : Nat → List String) (st : State) (c : Nat) : State :=
  fun d => if d = c then some (all c) else st d

/-- nearest class in the inheritance chain (starting at `c` itself) that has been converted -/
def owner (parent : Nat → Option Nat) (st : State) : Nat → Nat → Option Nat
  | 0, _ => none
  | fuel+1, c =>
    match st c with
    | some _ => some c
    | none =>
      match parent c with
      | some p => owner parent st fuel p
      | none => none

/-- attribute lookup `cls.names` through the inheritance chain (fuel = chain length bound) -/
def lookupNames (parent : Nat → Option Nat) (st : State) (fuel c : Nat) : List String :=
  match owner parent st fuel c with
  | some a => (st a).getD []
  | none => []

/-- members met while decoding with the layout of class `a` (its fields are a prefix of the datagram's fields) -/
def membersMet (all : Nat → List String) (a : Nat) (fm : List (Option Nat)) : List Nat :=
  (fm.take (all a).length).filterMap id

/-- first member class that has never been converted (members have no base classes of their own here) -/
def firstUnconverted (st : State) (ms : List Nat) : Option Nat := ms.find? (fun m => (st m).isNone)

/-- what `unpack_serializable(cls, datagram)` yields: `none` = raises, `some a` = an instance of class `a` -/
def recvResult (all : Nat → List String) (parent : Nat → Option Nat) (st : State) (fuel c : Nat)
    (fm : List (Option Nat)) : Option Nat :=
  match owner parent st fuel c with
  | some a => if (firstUnconverted st (membersMet all a fm)).isNone then some a else none
  | none => if (all c).isEmpty then some c else none

/-- the class whose conversion a reception triggers -/
def recvTarget (all : Nat → List String) (parent : Nat → Option Nat) (fuel : Nat) (st : State) (c : Nat)
    (fm : List (Option Nat)) : Nat :=
  match owner parent st fuel c with
  | some a =>
    match firstUnconverted st (membersMet all a fm) with
    | some m => m        -- the member's `cls()` converts it, then raises: nothing else happens
    | none => a          -- `a(...)` is constructed: `a` is (re)converted, `c` is not
  | none => c            -- `cls()` reaches `__new__` (conversion) before `__init__` raises

def step (all : Nat → List String) (parent : Nat → Option Nat) (fuel : Nat) (st : State) : Op → State
  | .inst c => instantiate all st c
  | .recv c fm => instantiate all st (recvTarget all parent fuel st c fm)

def run (all : Nat → List String) (parent : Nat → Option Nat) (fuel : Nat) (ops : List Op) : State :=
  ops.foldl (step all parent fuel) init

/-- the variant "convert only on first use, detected by `if not cls.names`" (NOT what the code does; kept to show that the
    model distinguishes it: see the example in Props.lean) -/
def instantiateLazy (all : Nat → List String) (parent : Nat → Option Nat) (fuel : Nat) (st : State) (c : Nat) : State :=
  if (lookupNames parent st fuel c).isEmpty then instantiate all st c else st

/-- every reachable state stores, for a converted class, exactly its own full field list -/
def Good (all : Nat → List String) (st : State) : Prop := ∀ d ns, st d = some ns → ns = all d

theorem good_init (all : Nat → List String) : Good all init := by
  intro d ns h; simp [init] at h

theorem good_instantiate {all : Nat → List String} {st : State} (hg : Good all st) (c : Nat) :
    Good all (instantiate all st c) := by
  intro d ns h
  simp only [instantiate] at h
  split at h
  · rename_i hd; cases h; rw [hd]
  · exact hg d ns h

theorem good_step {all : Nat → List String} {parent : Nat → Option Nat} {fuel : Nat} {st : State}
    (hg : Good all st) (op : Op) : Good all (step all parent fuel st op) := by
  cases op with
  | inst c => exact good_instantiate hg c
  | recv c fm => exact good_instantiate hg _

theorem keeps_instantiate {all : Nat → List String} {st : State} {c : Nat} (h : st c = some (all c)) (d : Nat) :
    (instantiate all st d) c = some (all c) := by
  simp only [instantiate]
  split
  · rename_i hcd; rw [hcd]
  · exact h

theorem keeps_step {all : Nat → List String} {parent : Nat → Option Nat} {fuel : Nat} {st : State} {c : Nat}
    (h : st c = some (all c)) (op : Op) : (step all parent fuel st op) c = some (all c) := by
  cases op with
  | inst d => exact keeps_instantiate h d
  | recv d fm => exact keeps_instantiate h _

theorem foldl_keeps (all : Nat → List String) (parent : Nat → Option Nat) (fuel : Nat) (ops : List Op) (st : State) (c : Nat)
    (hc : Op.inst c ∈ ops ∨ st c = some (all c)) : (ops.foldl (step all parent fuel) st) c = some (all c) := by
  induction ops generalizing st with
  | nil =>
    rcases hc with hc | hc
    · cases hc
    · simpa using hc
  | cons o os ih =>
    simp only [List.foldl_cons]
    apply ih
    rcases hc with hc | hc
    · rcases List.mem_cons.mp hc with h1 | h1
      · right; subst h1; simp [step, instantiate]
      · left; exact h1
    · right; exact keeps_step hc o

/-! ### container type of sequence fields: the `fix_unpack_<field>` rule `convert_to_payload` installs

  `type_map` sends `list[T]`, `tuple[T]` and `set[T]` to the same array / payload-list format and the packers decode a
  Python `list`.  `convert_to_payload` (60e7956, 08ba1db, 26350ad) looks at the annotation of the field IN THIS CLASS and at
  the `fix_unpack_<field>` attribute the class inherits:
    * inherited rule absent, or one of the library's own (`_to_tuple`, `_to_set`, `_keep_container`):
        annotation tuple / set → install `_to_tuple` / `_to_set`;
        annotation list        → install `_keep_container` if a rule was inherited, else install nothing;
    * any other inherited rule (the user's, also the builtins `tuple` / `set`) is kept.
  The compiled `from_unpack_list` applies the rule found on the class to the decoded list. -/

inductive Container where
  | list | tuple | set
deriving Repr, DecidableEq

def Container.ofString : String → Option Container
  | "list" => some .list | "tuple" => some .tuple | "set" => some .set | _ => none
def Container.toString : Container → String
  | .list => "list" | .tuple => "tuple" | .set => "set"

inductive Rule where
  | toTuple | toSet | keep      -- the library's own
  | user (result : Container)   -- a user-defined rule; what it returns is the user's business
deriving Repr, DecidableEq

def Rule.own : Rule → Bool
  | .user _ => false
  | _ => true

/-- the rule found on a class after `convert_to_payload`, given the rule it inherits and its own annotation of the field -/
def installRule (inherited : Option Rule) (ann : Container) : Option Rule :=
  match inherited with
  | some (.user r) => some (.user r)
  | _ =>
    match ann with
    | .tuple => some .toTuple
    | .set => some .toSet
    | .list => if inherited.isSome then some .keep else none

/-- container of the decoded field: the rule applied to the packer's list -/
def applyRule : Option Rule → Container
  | none => .list
  | some .toTuple => .tuple
  | some .toSet => .set
  | some .keep => .list
  | some (.user r) => r

/-- rule on the last class of an inheritance chain whose classes annotate the field as `anns` (base first), each converted
    after its base -/
def chainRule (start : Option Rule) (anns : List Container) : Option Rule := anns.foldl installRule start

def libraryOwn (r : Option Rule) : Bool :=
  match r with
  | none => true
  | some x => x.own

theorem installRule_own (r : Option Rule) (ann : Container) (h : libraryOwn r = true) :
    libraryOwn (installRule r ann) = true ∧ applyRule (installRule r ann) = ann := by
  cases r with
  | none => cases ann <;> simp [installRule, libraryOwn, Rule.own, applyRule]
  | some x =>
    cases x with
    | user c => simp [libraryOwn, Rule.own] at h
    | toTuple => cases ann <;> simp [installRule, libraryOwn, Rule.own, applyRule]
    | toSet => cases ann <;> simp [installRule, libraryOwn, Rule.own, applyRule]
    | keep => cases ann <;> simp [installRule, libraryOwn, Rule.own, applyRule]

end Ipv8.C02.Dc
