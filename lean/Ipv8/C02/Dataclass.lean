/-
  Dataclass-defined payloads (ipv8/messaging/payload_dataclass.py): the class-level conversion state.

  `DataClassPayload.__new__` / `DataClassPayloadWID.__new__` call `convert_to_payload(cls)` on EVERY instantiation; that
  stores `names` / `format_list` (computed from ALL dataclass fields, inherited ones first) in the class's own namespace and
  compiles it.  Reading `cls.names` goes through inheritance: a class that was never converted sees its parent's value, and
  the root (`VariablePayload.names`) is the empty list.  Classes are numbered; `all c` is the full field list of class `c`,
  `parent c` its dataclass-payload base class.
-/
namespace Ipv8.C02.Dc

abbrev State := Nat → Option (List String)

def init : State := fun _ => none

/-- `cls(...)`: convert_to_payload runs unconditionally -/
def instantiate (all : Nat → List String) (st : State) (c : Nat) : State :=
  fun d => if d = c then some (all c) else st d

/-- attribute lookup `cls.names` through the inheritance chain (fuel = chain length bound) -/
def lookupNames (parent : Nat → Option Nat) (st : State) : Nat → Nat → List String
  | 0, _ => []
  | fuel+1, c =>
    match st c with
    | some ns => ns
    | none =>
      match parent c with
      | some p => lookupNames parent st fuel p
      | none => []

def run (all : Nat → List String) (h : List Nat) : State := h.foldl (instantiate all) init

/-- the variant "convert only on first use, detected by `if not cls.names`" (NOT what the code does; kept to show that the
    model distinguishes it: see the example in Props.lean) -/
def instantiateLazy (all : Nat → List String) (parent : Nat → Option Nat) (fuel : Nat) (st : State) (c : Nat) : State :=
  if (lookupNames parent st fuel c).isEmpty then instantiate all st c else st

theorem foldl_keeps (all : Nat → List String) (h : List Nat) (st : State) (c : Nat)
    (hc : c ∈ h ∨ st c = some (all c)) : (h.foldl (instantiate all) st) c = some (all c) := by
  induction h generalizing st with
  | nil =>
    rcases hc with hc | hc
    · cases hc
    · simpa using hc
  | cons d ds ih =>
    simp only [List.foldl_cons]
    apply ih
    by_cases hdc : c = d
    · right; subst hdc; simp [instantiate]
    · rcases hc with hc | hc
      · left
        rcases List.mem_cons.mp hc with h1 | h1
        · exact absurd h1 hdc
        · exact h1
      · right; simp [instantiate, hdc, hc]

end Ipv8.C02.Dc
