/-
  Expression language for the bodies of `to_pack_list`, `from_unpack_list` and `__init__` of payload classes, and its
  interpreter (core Lean only).  `tools/gen_c02.py` TRANSLATES the source of every shipped class into this language on every
  run (hand-written classes: Python AST of the three methods, `super()` calls inlined; compiled VariablePayloads: the source text
  `vp_compile` generated, read back from the live code objects) and writes the result to Gen.lean (`Gen.classCodes`).

  Subset (anything else is a TranslatorError):
    pack-list argument:   self.<attr> | integer literal | bytes literal | encode_connection_type(self.<attr>)[k]
                          | b"".join(self.<attr>) | b"".join([pack(">20sI", *t) for t in self.<attr>])
    constructor argument: <parameter> | bool(<parameter>) | [True, False][<parameter>] | decode_connection_type(<p>, <q>)
                          | <parameter>[i] | [<p>[i:i + n] for i in range(0, len(<p>), n)]
                          | [(<p>[i:i + 20], unpack(">I", <p>[i + 20:i + 24])[0]) for i in range(0, len(<p>), 24)]
                          | literal default of an omitted constructor parameter
    attribute assignment: self.<attr> = <parameter> | <parameter> % <literal> | literal
-/
import Ipv8.C02.Model

namespace Ipv8.C02.Old
open Ipv8 Ipv8.C02

def ascii (s : String) : Bytes := s.toList.map (fun c => UInt8.ofNat c.toNat)

def sUnknown : Bytes := ascii "unknown"
def sPublic : Bytes := ascii "public"
def sSymNat : Bytes := ascii "symmetric-NAT"
def sNA : Bytes := ascii "N/A"

/-- encode_connection_type -/
def encConn (s : Bytes) : Nat × Nat :=
  if s = sPublic then (1, 0) else if s = sSymNat then (1, 1) else (0, 0)

/-- decode_connection_type (arguments are the unpacked bits, 0/1) -/
def decConn (b0 b1 : Atom) : Bytes :=
  match b0, b1 with
  | .nat 0, .nat 0 => sUnknown
  | .nat 1, .nat 0 => sPublic
  | .nat 1, .nat 1 => sSymNat
  | _, _ => sNA

def n (k : Nat) : Atom := .nat k

/-- `bool(x)` / truthiness as 0/1 -/
def asBit (a : Atom) : Atom := .nat (if truthy a then 1 else 0)

/-- `[b[i:i+k] for i in range(0, len(b), k)]` (fuel = len b) -/
def chunksAux (k : Nat) : Nat → Bytes → List Bytes
  | 0, _ => []
  | fuel+1, b => if b.isEmpty then [] else b.take k :: chunksAux k fuel (b.drop k)
def chunks (k : Nat) (b : Bytes) : List Bytes := if k = 0 then [] else chunksAux k b.length b

def bytesList (l : List Bytes) : Val := .list (ValList.ofList (l.map (fun b => Val.atom (.bytes b))))

def joinBytes : List Val → Option Bytes
  | [] => some []
  | .atom (.bytes b) :: r => (joinBytes r).map (b ++ ·)
  | _ => none

/-- `b"".join(pack(">20sI", *tb) for tb in tb_overlap)` -/
def joinTb : List Val → Option Bytes
  | [] => some []
  | .tuple [.bytes h, .nat k] :: r =>
    if k < 256 ^ 4 then (joinTb r).map ((fixedPad 20 h ++ beEnc 4 k) ++ ·) else none
  | _ => none

/-- `[(tb[i:i+20], unpack(">I", tb[i+20:i+24])[0]) for i in range(0, len(tb), 24)]` -/
def splitTb (b : Bytes) : Option (List Val) :=
  (chunks 24 b).mapM (fun c =>
    if c.length = 24 then some (Val.tuple [.bytes (c.take 20), .nat (beDec (c.drop 20))]) else none)

end Ipv8.C02.Old

namespace Ipv8.C02.Code
open Ipv8 Ipv8.C02

/-- argument of a pack-list entry, over the instance's attributes (by position in `ClassCode.attrs`) -/
inductive PExpr where
  | attr (i : Nat)
  | nat (k : Nat)
  | bytes (b : Bytes)
  | connBit (i k : Nat)          -- encode_connection_type(self.<attr i>)[k]
  | joinBytes (i : Nat)          -- b"".join(self.<attr i>)
  | joinTb (i : Nat)             -- b"".join([pack(">20sI", *t) for t in self.<attr i>])
deriving Repr, DecidableEq

structure PEntry where
  fmt : String
  args : List PExpr
deriving Repr, DecidableEq

/-- argument of the constructor call in `from_unpack_list`, over its parameters (the flattened unpack list) -/
inductive UExpr where
  | param (j : Nat)
  | truth (j : Nat)              -- bool(p)
  | negTruth (j : Nat)           -- [True, False][p]
  | decConn (j k : Nat)          -- decode_connection_type(p_j, p_k)
  | index (j i : Nat)            -- p[i]
  | chunks (j size : Nat)        -- [p[i:i + size] for i in range(0, len(p), size)]
  | splitTb (j : Nat)            -- [(p[i:i + 20], unpack(">I", p[i + 20:i + 24])[0]) for i in range(0, len(p), 24)]
  | nat (k : Nat)                -- default value of a constructor parameter that the call omits
deriving Repr, DecidableEq

/-- right-hand side of `self.<attr> = …` in `__init__`, over the constructor parameters -/
inductive IExpr where
  | param (j : Nat)
  | modParam (j m : Nat)
  | nat (k : Nat)
deriving Repr, DecidableEq

structure ClassCode where
  name : String
  attrs : List String            -- attribute order used by the model
  pack : List PEntry             -- to_pack_list
  unpackParams : Nat             -- number of parameters of from_unpack_list (after cls)
  ctorArgs : List UExpr          -- from_unpack_list: arguments of the constructor call, defaults filled in
  ctorParams : Nat               -- number of parameters of __init__ (after self)
  init : List IExpr              -- __init__: value of every attribute (model order)
deriving Repr, DecidableEq

def evalP (attrs : List Val) : PExpr → Option Val
  | .attr i => attrs[i]?
  | .nat k => some (.atom (.nat k))
  | .bytes b => some (.atom (.bytes b))
  | .connBit i k =>
    match attrs[i]? with
    | some (.str ct) => some (.atom (.nat (if k = 0 then (Old.encConn ct).1 else (Old.encConn ct).2)))
    | _ => none
  | .joinBytes i =>
    match attrs[i]? with
    | some (.list vs) => (Old.joinBytes vs.toList).map (fun b => Val.atom (.bytes b))
    | _ => none
  | .joinTb i =>
    match attrs[i]? with
    | some (.list vs) => (Old.joinTb vs.toList).map (fun b => Val.atom (.bytes b))
    | _ => none

def atomsOf : List Val → Option (List Atom)
  | [] => some []
  | .atom a :: r => (atomsOf r).map (a :: ·)
  | _ => none

/-- one entry of the pack list: a single argument is the value itself, several arguments are the `*args` tuple -/
def evalEntry (attrs : List Val) (e : PEntry) : Option Val :=
  match e.args with
  | [a] => evalP attrs a
  | as => do
    let vs ← as.mapM (evalP attrs)
    let atoms ← atomsOf vs
    some (.tuple atoms)

/-- `to_pack_list()` on the attribute values -/
def evalPack (c : ClassCode) (attrs : List Val) : Option (List Val) := c.pack.mapM (evalEntry attrs)

def evalU (ps : List Val) : UExpr → Option Val
  | .param j => ps[j]?
  | .truth j =>
    match ps[j]? with
    | some (.atom a) => some (.atom (Old.asBit a))
    | _ => none
  | .negTruth j =>
    match ps[j]? with
    | some (.atom a) => some (.atom (.nat (if truthy a then 0 else 1)))
    | _ => none
  | .decConn j k =>
    match ps[j]?, ps[k]? with
    | some (.atom a), some (.atom b) => some (.str (Old.decConn a b))
    | _, _ => none
  | .index j i =>
    match ps[j]? with
    | some (.tuple as) => (as[i]?).map Val.atom
    | _ => none
  | .chunks j size =>
    match ps[j]? with
    | some (.atom (.bytes b)) => some (Old.bytesList (Old.chunks size b))
    | _ => none
  | .splitTb j =>
    match ps[j]? with
    | some (.atom (.bytes b)) => (Old.splitTb b).map (fun t => Val.list (ValList.ofList t))
    | _ => none
  | .nat k => some (.atom (.nat k))

def evalI (cps : List Val) : IExpr → Option Val
  | .param j => cps[j]?
  | .modParam j m =>
    match cps[j]? with
    | some (.atom (.nat k)) => some (.atom (.nat (k % m)))
    | _ => none
  | .nat k => some (.atom (.nat k))

/-- `__init__(*args)`: the attributes (model order) -/
def evalInit (c : ClassCode) (args : List Val) : Option (List Val) :=
  if args.length = c.ctorParams then c.init.mapM (evalI args) else none

/-- `from_unpack_list(*params)` followed by `__init__`: the attributes of the decoded instance -/
def evalUnpack (c : ClassCode) (params : List Val) : Option (List Val) :=
  if params.length = c.unpackParams then do
    let args ← c.ctorArgs.mapM (evalU params)
    evalInit c args
  else none

end Ipv8.C02.Code
