/-
  C02 — property theorems.  Every `theorem` in this file is an obligation of the check; helper lemmas live in
  Lemmas.lean / RoundTrip.lean, the legal-value predicate `wf` in WF.lean, the model in Model.lean / OldPayloads.lean,
  the tables in the GENERATED Gen.lean (live registry + shipped classes) and GenSpec.lean (frozen documented format).

  Quantifiers are unbounded: every format (any nesting depth, lists of nested payloads, …), every legal value, every
  prefix `pre` (= every start offset) and suffix `post`.
-/
import Ipv8.C02.RoundTrip

namespace Ipv8.C02
open Gen Spec Frame

/-! ## round trip at any position -/

/-- one packer: decoding the encoded bytes at offset `|pre|` inside `pre ++ bytes ++ post` yields the same value and the
    new offset is exactly the end of the produced bytes (`raw` and lists of it must be followed by nothing) -/
theorem roundtrip_at_offset (f : Fmt) (v : Val) (pre post b : Bytes)
    (hwf : wf f v = true) (hp : pack f v = .ok b) (hr : endsInRaw f = true → post = []) :
    unpackAt f (pre ++ b ++ post) pre.length = .ok (v, pre.length + b.length) := by
  rw [List.append_assoc]; exact rt f v b pre post hp hwf hr

/-- a whole message (format list = `Serializer.pack_serializable` / `unpack_serializable`), hence also any message nested
    in `payload` or listed in `payload-list` at any depth (those are the `nested` / `listOf … nested` cases of the
    mutual induction behind this theorem) -/
theorem roundtrip_list_at_offset (fs : FmtList) (vs : ValList) (pre post b : Bytes)
    (hwf : wfList fs vs = true) (hp : packList fs vs = .ok b) (hr : endsInRawL fs = true → post = []) :
    unpackListAt fs (pre ++ b ++ post) pre.length = .ok (vs, pre.length + b.length) := by
  rw [List.append_assoc]; exact rtList fs vs b pre post hp hwf hr

/-- re-encoding what was decoded gives the same bytes -/
theorem reencode (fs : FmtList) (vs vs' : ValList) (pre post b : Bytes) (o : Nat)
    (hwf : wfList fs vs = true) (hp : packList fs vs = .ok b) (hr : endsInRawL fs = true → post = [])
    (hd : unpackListAt fs (pre ++ b ++ post) pre.length = .ok (vs', o)) :
    packList fs vs' = .ok b ∧ o = pre.length + b.length := by
  rw [roundtrip_list_at_offset fs vs pre post b hwf hp hr] at hd
  cases hd
  exact ⟨hp, rfl⟩

/-- a message listed in `payload-list` between other fields: the neighbours are not disturbed -/
theorem roundtrip_listed (lw : Nat) (fs : FmtList) (items : ValList) (pre post b : Bytes)
    (hwf : wfMany (.nested fs) items = true) (hp : pack (.listOf lw (.nested fs)) (.list items) = .ok b) :
    unpackAt (.listOf lw (.nested fs)) (pre ++ b ++ post) pre.length = .ok (.list items, pre.length + b.length) := by
  apply roundtrip_at_offset _ _ _ _ _ _ hp
  · intro h; simp [endsInRaw] at h
  · simp [wf, endsInRaw, hwf]

/-- VariablePayload classes (interpreted and `vp_compile`d, no hooks), ATTRIBUTE level, for every format list: the
    attribute values (in `names` order, 8 per `bits`) that `to_pack_list` groups into the pack list come back, after the
    wire round trip at any offset, from the splice `from_unpack_list` performs.  The tie to a shipped class is the
    translator (`p.fmts`, `p.names`) plus `all_payloads_wf` (`names.length = nameCount fmts`, no hooks) — a statement of this
    theorem "for p ∈ payloads" would not use the membership. -/
theorem variable_payload_attr_roundtrip (fs : FmtList) (attrs pl : List Val) (pre post b : Bytes)
    (hpl : Old.vpPack fs attrs = some pl) (hwf : wfList fs (ValList.ofList pl) = true)
    (hp : packList fs (ValList.ofList pl) = .ok b) (hr : endsInRawL fs = true → post = []) :
    ∃ ul, unpackListAt fs (pre ++ b ++ post) pre.length = .ok (ul, pre.length + b.length) ∧ flatten fs ul = attrs :=
  ⟨ValList.ofList pl, roundtrip_list_at_offset fs _ pre post b hwf hp hr, flatten_vpPack fs attrs pl hpl⟩

/-- `unpack_serializable_list(…, consume_all=True)` accepts exactly-consumed input and returns the same messages -/
theorem roundtrip_consume_all (fs : FmtList) (vs : ValList) (pre b : Bytes)
    (hwf : wfList fs vs = true) (hp : packList fs vs = .ok b) :
    unpackPayloadsAt [fs] (pre ++ b) pre.length true = .ok ([vs], []) := by
  have h := roundtrip_list_at_offset fs vs pre [] b hwf hp (fun _ => rfl)
  simp only [List.append_nil] at h
  simp [unpackPayloadsAt, h, bind, Except.bind]

/-! ## the bytes are the documented ones -/

/-- length-prefixed strings: big-endian prefix of the documented width holding `len / unit`, then the bytes -/
theorem varlen_layout (lw unit : Nat) (x b : Bytes) (h : pack (.varlen lw unit) (.atom (.bytes x)) = .ok b) :
    b = beEnc lw (x.length / unit) ++ x ∧ x.length / unit < 256 ^ lw := by
  simp only [pack] at h
  obtain ⟨l, hl, h1⟩ := bind_ok h
  cases h1
  obtain ⟨rfl, hn⟩ := packUint_ok hl
  exact ⟨rfl, hn⟩

/-- unsigned integers: exactly `w` bytes, most significant first -/
theorem uint_layout (w n : Nat) (b : Bytes) (h : pack (.struct [.uint w]) (.atom (.nat n)) = .ok b) :
    b.length = w ∧ beDec b = n ∧ n < 256 ^ w := by
  simp only [pack, packFields, packField] at h
  obtain ⟨x, hx, h1⟩ := bind_ok h
  cases h1
  obtain ⟨rfl, hn⟩ := packUint_ok hx
  simp [beEnc_length, beDec_beEnc w n hn, hn]

/-- nested payload: 2-byte big-endian body length, then the body (fields in format-list order) -/
theorem nested_layout (fs : FmtList) (vs : ValList) (b : Bytes) (h : pack (.nested fs) (.record vs) = .ok b) :
    ∃ body, packList fs vs = .ok body ∧ b = beEnc 2 body.length ++ body ∧ body.length < 65536 := by
  simp only [pack] at h
  obtain ⟨body, hb, h1⟩ := bind_ok h
  obtain ⟨l, hl, h2⟩ := bind_ok h1
  cases h2
  obtain ⟨rfl, hn⟩ := packUint_ok hl
  exact ⟨body, hb, rfl, by simpa using hn⟩

/-- fields are concatenated in format-list order -/
theorem fields_in_order (f : Fmt) (fs : FmtList) (v : Val) (vs : ValList) (b : Bytes)
    (h : packList (.cons f fs) (.cons v vs) = .ok b) :
    ∃ x y, pack f v = .ok x ∧ packList fs vs = .ok y ∧ b = x ++ y := by
  simp only [packList] at h
  obtain ⟨x, hx, h1⟩ := bind_ok h
  obtain ⟨y, hy, h2⟩ := bind_ok h1
  cases h2
  exact ⟨x, y, hx, hy, rfl⟩

/-- signed integers: two's complement in exactly `w` bytes -/
theorem sint_layout (w : Nat) (i : Int) (b : Bytes) (h : pack (.struct [.sint w]) (.atom (.int i)) = .ok b) :
    b = beEnc w (sintEnc w i) ∧ sintInRange w i = true := by
  simp only [pack, packFields, packField] at h
  obtain ⟨x, hx, h1⟩ := bind_ok h
  cases h1
  split at hx
  · rename_i hr; cases hx; simp [hr]
  · cases hx

/-- `bits`: the FIRST member is the most significant bit (0x80), the eighth the least significant (0x01) -/
theorem bits_layout (b7 b6 b5 b4 b3 b2 b1 b0 : Atom) :
    pack .bits (.tuple [b7, b6, b5, b4, b3, b2, b1, b0]) = .ok [UInt8.ofNat (
      (if truthy b7 then 128 else 0) + (if truthy b6 then 64 else 0) + (if truthy b5 then 32 else 0) +
      (if truthy b4 then 16 else 0) + (if truthy b3 then 8 else 0) + (if truthy b2 then 4 else 0) +
      (if truthy b1 then 2 else 0) + (if truthy b0 then 1 else 0))] := by
  simp [pack, bitsByte]

/-- `ipv4`: 4 address bytes then the port, big-endian -/
theorem ipv4_layout (ip : Bytes) (port : Nat) (b : Bytes) (hl : ip.length = 4)
    (h : pack .ipv4 (.addr (.v4 ip port)) = .ok b) : b = ip ++ beEnc 2 port ∧ port < 65536 := by
  simp only [pack] at h
  obtain ⟨pt, hpt, h1⟩ := bind_ok h
  cases h1
  obtain ⟨rfl, hn⟩ := packUint_ok hpt
  have : fixedPad 4 ip = ip := by rw [← hl]; exact fixedPad_self ip
  exact ⟨by rw [this], by simpa using hn⟩

/-- `address` / `ip_address`: type byte 1 (IPv4, 4 bytes) / 3 (IPv6, 16 bytes) / 2 (host: 2-byte length + name), port last -/
theorem address_layout (ipOnly : Bool) (a : Addr) (b : Bytes) (hw : wfAddr a = true)
    (h : pack (.address ipOnly) (.addr a) = .ok b) :
    match a with
    | .v4 ip port => b = [1] ++ ip ++ beEnc 2 port
    | .v6 ip port => b = [3] ++ ip ++ beEnc 2 port
    | .domain host port => b = [2] ++ beEnc 2 host.length ++ host ++ beEnc 2 port ∧ ipOnly = false := by
  simp only [pack] at h
  cases a with
  | v4 ip port =>
    simp only [packAddress] at h
    obtain ⟨pt, hpt, h1⟩ := bind_ok h
    cases h1
    obtain ⟨rfl, _⟩ := packUint_ok hpt
    simp only [wfAddr, beq_iff_eq] at hw
    have : fixedPad 4 ip = ip := by rw [← hw]; exact fixedPad_self ip
    simp [this]
  | v6 ip port =>
    simp only [packAddress] at h
    obtain ⟨pt, hpt, h1⟩ := bind_ok h
    cases h1
    obtain ⟨rfl, _⟩ := packUint_ok hpt
    simp only [wfAddr, beq_iff_eq] at hw
    have : fixedPad 16 ip = ip := by rw [← hw]; exact fixedPad_self ip
    simp [this]
  | domain host port =>
    simp only [packAddress] at h
    split at h
    · cases h
    · rename_i hio
      obtain ⟨l, hl, h1⟩ := bind_ok h
      obtain ⟨pt, hpt, h2⟩ := bind_ok h1
      cases h2
      obtain ⟨rfl, _⟩ := packUint_ok hl
      obtain ⟨rfl, _⟩ := packUint_ok hpt
      exact ⟨rfl, by simpa using hio⟩

/-- lists: big-endian element COUNT of the stated width, then the elements in order -/
theorem listOf_layout (lw : Nat) (f : Fmt) (vs : ValList) (b : Bytes) (h : pack (.listOf lw f) (.list vs) = .ok b) :
    ∃ body, packMany f vs = .ok body ∧ b = beEnc lw vs.length ++ body ∧ vs.length < 256 ^ lw := by
  simp only [pack] at h
  obtain ⟨l, hl, h1⟩ := bind_ok h
  obtain ⟨body, hb, h2⟩ := bind_ok h1
  cases h2
  obtain ⟨rfl, hn⟩ := packUint_ok hl
  exact ⟨body, hb, rfl, hn⟩

/-- arrays: big-endian element count, then the items (each big-endian, see `packElem`) -/
theorem array_layout (lw : Nat) (k : AKind) (as : List Atom) (b : Bytes) (h : pack (.array lw k) (.arr as) = .ok b) :
    ∃ body, packElems k as = .ok body ∧ b = beEnc lw as.length ++ body ∧ as.length < 256 ^ lw := by
  simp only [pack] at h
  obtain ⟨l, hl, h1⟩ := bind_ok h
  obtain ⟨body, hb, h2⟩ := bind_ok h1
  cases h2
  obtain ⟨rfl, hn⟩ := packUint_ok hl
  exact ⟨body, hb, rfl, hn⟩

/-- flags: the bitwise OR of the listed values as one big-endian integer -/
theorem flags_layout (w : Nat) (l : List Nat) (b : Bytes) (h : pack (.flags w) (.nats l) = .ok b) :
    b = beEnc w (orAll l) ∧ orAll l < 256 ^ w := by
  simp only [pack] at h
  exact packUint_ok h

/-- DHT node: `ip_address` encoding of the address, then the key as `varlenH` -/
theorem node_layout (a : Addr) (key b : Bytes) (h : pack .node (.node a key) = .ok b) :
    ∃ x, packAddress true a = .ok x ∧ b = x ++ (beEnc 2 key.length ++ key) ∧ key.length < 65536 := by
  simp only [pack] at h
  obtain ⟨x, hx, h1⟩ := bind_ok h
  obtain ⟨l, hl, h2⟩ := bind_ok h1
  cases h2
  obtain ⟨rfl, hn⟩ := packUint_ok hl
  exact ⟨x, hx, rfl, by simpa using hn⟩

/-- every documented data type is registered with exactly the documented layout
    (field order, big-endian widths, length-prefix width and unit) — over the GENERATED registry -/
theorem matches_documented_format : ∀ e ∈ docTable, lookup packers e.1 = some e.2 := by decide

/-- the names the table does not list keep the layout frozen at the pinned commit -/
theorem undocumented_formats_frozen : ∀ e ∈ frozenTable, lookup packers e.1 = some e.2 := by decide

/-- no serializer of a shipped overlay registers a format that is neither documented nor frozen -/
theorem registry_is_specified : ∀ e ∈ packers, lookup (docTable ++ frozenTable) e.1 = some e.2 := by decide

/-- every shipped class uses registered formats only, `raw` only last, 8 names per `bits`, no hooks -/
theorem all_payloads_wf : ∀ p ∈ payloads, wfPayload p = true := by decide

/-- field order / formats / names of every shipped message are those of the pinned commit -/
theorem shipped_layouts_frozen : ∀ e ∈ frozenLayouts, layoutMatches e = true := by decide

theorem shipped_msg_ids_frozen : ∀ e ∈ frozenMsgIds, msgIdMatches e = true := by decide

/-! ## hand-written payloads and cells -/

/-- CellPayload: `from_bin (to_bin prefix cell) = cell` for the 22-byte overlay prefix -/
theorem cell_roundtrip (pre msg b : Bytes) (cid : Nat) (pt re : Bool) (hpre : pre.length = 22)
    (h : Old.cellToBin pre cid pt re msg = .ok b) :
    Old.cellFromBin b = .ok (cid, pt, re, msg) := by
  simp only [Old.cellToBin] at h
  obtain ⟨c, hc, h1⟩ := bind_ok h
  cases h1
  obtain ⟨rfl, hn⟩ := packUint_ok hc
  generalize hd : pre ++ [0] ++ (beEnc 4 cid ++ [if pt = true then 1 else 0] ++ [if re = true then 1 else 0]) ++ msg = d
  have e1 : readAt d 23 6 = .ok (beEnc 4 cid ++ [if pt = true then 1 else 0] ++ [if re = true then 1 else 0]) :=
    readAt_at (l := pre ++ [0]) (r := msg) (by rw [← hd]; simp) (by simp [hpre]) (by simp [beEnc_length])
  have e2 : d.drop 29 = msg := by
    rw [← hd]
    have : (pre ++ [0] ++ (beEnc 4 cid ++ [if pt = true then 1 else 0] ++ [if re = true then 1 else 0])).length = 29 := by
      simp [hpre, beEnc_length]
    rw [List.drop_append_of_le_length (by omega), ← this, List.drop_length]
    rfl
  have hl := beEnc_length 4 cid
  have e3 : (beEnc 4 cid ++ [if pt = true then (1 : UInt8) else 0] ++ [if re = true then 1 else 0]).take 4 = beEnc 4 cid := by
    rw [List.append_assoc, List.take_left' hl]
  have e4 : ((beEnc 4 cid ++ [if pt = true then (1 : UInt8) else 0] ++ [if re = true then 1 else 0]).drop 4).take 1
      = [if pt = true then 1 else 0] := by
    rw [List.append_assoc, List.drop_left' hl]; rfl
  have e5 : ((beEnc 4 cid ++ [if pt = true then (1 : UInt8) else 0] ++ [if re = true then 1 else 0]).drop 5).take 1
      = [if re = true then 1 else 0] := by
    rw [List.drop_left' (by simp [hl])]; rfl
  simp only [Old.cellFromBin, e1, bind, Except.bind, e2, e3, e4, e5, beDec_beEnc 4 cid hn]
  cases pt <;> cases re <;> simp [beDec, beDecAux]

/-- legal connection types and flag values of the hand-written introduction payloads -/
def legalConn (ct : Bytes) : Prop := ct = Old.sUnknown ∨ ct = Old.sPublic ∨ ct = Old.sSymNat
def bitVal (k : Nat) : Prop := k = 0 ∨ k = 1

/-- IntroductionRequestPayload: `from_unpack_list(*to_pack_list())` restores every field (advice, connection type,
    supports_new_style, identifier, addresses, extra bytes) -/
theorem introduction_request_fields_roundtrip (d l w extra : Val) (adv sns ident : Nat) (ct : Bytes)
    (ha : bitVal adv) (hs : bitVal sns) (hc : legalConn ct) (hi : ident < 65536) :
    ∃ pl, Old.introReqPack [d, l, w, .atom (.nat adv), .str ct, .atom (.nat ident), extra, .atom (.nat sns)] = some pl ∧
      Old.introReqUnpack pl =
        some [d, l, w, .atom (.nat adv), .str ct, .atom (.nat ident), extra, .atom (.nat sns)] := by
  have hm : ident % 65536 = ident := Nat.mod_eq_of_lt hi
  rcases ha with rfl | rfl <;> rcases hs with rfl | rfl <;> rcases hc with rfl | rfl | rfl <;>
    exact ⟨_, rfl, by simp [Old.introReqUnpack, Old.asBit, truthy, hm]; decide⟩

/-- DiscoveryIntroductionRequestPayload: also `introduce_to` comes back as the same 20 bytes
    (supports_new_style is always sent as 1 by this class) -/
theorem discovery_introduction_request_fields_roundtrip (d l w extra : Val) (key : Bytes) (adv ident : Nat) (ct : Bytes)
    (ha : bitVal adv) (hc : legalConn ct) (hi : ident < 65536) :
    ∃ pl, Old.discIntroReqPack
        [.atom (.bytes key), d, l, w, .atom (.nat adv), .str ct, .atom (.nat ident), extra, .atom (.nat 1)] = some pl ∧
      Old.discIntroReqUnpack pl =
        some [.atom (.bytes key), d, l, w, .atom (.nat adv), .str ct, .atom (.nat ident), extra, .atom (.nat 1)] := by
  have hm : ident % 65536 = ident := Nat.mod_eq_of_lt hi
  rcases ha with rfl | rfl <;> rcases hc with rfl | rfl | rfl <;>
    exact ⟨_, rfl, by simp [Old.discIntroReqUnpack, Old.asBit, truthy, hm, Old.n]; decide⟩

/-- IntroductionResponsePayload: all three flags (passed through as given), the connection type and both introduction
    addresses; what the theorem carries is the bit positions, the three connection strings and `identifier % 65536` —
    addresses and extra bytes are opaque values here, their wire round trip is `roundtrip_list_at_offset` -/
theorem introduction_response_fields_roundtrip (d l w li wi extra : Val) (sns isns plr ident : Nat) (ct : Bytes)
    (hc : legalConn ct) (hi : ident < 65536) :
    ∃ pl, Old.introRespPack [d, l, w, li, wi, .str ct, .atom (.nat ident), extra, .atom (.nat sns), .atom (.nat isns),
        .atom (.nat plr)] = some pl ∧
      Old.introRespUnpack pl = some [d, l, w, li, wi, .str ct, .atom (.nat ident), extra, .atom (.nat sns),
        .atom (.nat isns), .atom (.nat plr)] := by
  have hm : ident % 65536 = ident := Nat.mod_eq_of_lt hi
  rcases hc with rfl | rfl | rfl <;>
    exact ⟨_, rfl, by simp [Old.introRespUnpack, hm]; decide⟩

/-- the pack list of an IntroductionRequestPayload is a legal value of its (generated) wire format, so by
    `roundtrip_list_at_offset` the unpack list equals the pack list at any offset and the previous theorem applies to it -/
theorem introduction_request_wire_roundtrip (ip1 ip2 ip3 x : Bytes) (p1 p2 p3 adv sns ident : Nat) (ct : Bytes)
    (pre post b : Bytes) (pl : List Val)
    (hip : ip1.length = 4 ∧ ip2.length = 4 ∧ ip3.length = 4)
    (ha : bitVal adv) (hs : bitVal sns) (hc : legalConn ct) (hi : ident < 65536)
    (hpl : Old.introReqPack [.addr (.v4 ip1 p1), .addr (.v4 ip2 p2), .addr (.v4 ip3 p3), .atom (.nat adv), .str ct,
        .atom (.nat ident), .atom (.bytes x), .atom (.nat sns)] = some pl)
    (hb : packList (.cons .ipv4 (.cons .ipv4 (.cons .ipv4 (.cons .bits (.cons (.struct [.uint 2]) (.cons .raw .nil))))))
        (ValList.ofList pl) = .ok b)
    (hpost : post = []) :
    unpackListAt (.cons .ipv4 (.cons .ipv4 (.cons .ipv4 (.cons .bits (.cons (.struct [.uint 2]) (.cons .raw .nil))))))
        (pre ++ b ++ post) pre.length = .ok (ValList.ofList pl, pre.length + b.length) ∧
      Old.introReqUnpack pl = some [.addr (.v4 ip1 p1), .addr (.v4 ip2 p2), .addr (.v4 ip3 p3), .atom (.nat adv), .str ct,
        .atom (.nat ident), .atom (.bytes x), .atom (.nat sns)] := by
  obtain ⟨pl', h1, h2⟩ := introduction_request_fields_roundtrip (.addr (.v4 ip1 p1)) (.addr (.v4 ip2 p2))
    (.addr (.v4 ip3 p3)) (.atom (.bytes x)) adv sns ident ct ha hs hc hi
  rw [hpl] at h1
  cases h1
  refine ⟨?_, h2⟩
  apply roundtrip_list_at_offset _ _ _ _ _ _ hb (fun _ => hpost)
  simp only [Old.introReqPack, Option.some.injEq] at hpl
  subst hpl
  obtain ⟨e1, e2, e3⟩ := hip
  rcases ha with rfl | rfl <;> rcases hs with rfl | rfl <;> rcases hc with rfl | rfl | rfl <;>
    simp [ValList.ofList, wfList, wf, wfAddr, wfFields, wfField, endsInRaw, e1, e2, e3, Old.n, isBit, Old.encConn] <;> decide

/-- the format list used above is the generated one of the shipped class -/
example : (findPayload "ipv8.messaging.payload.IntroductionRequestPayload").map (·.fmts) =
    some (.cons .ipv4 (.cons .ipv4 (.cons .ipv4 (.cons .bits (.cons (.struct [.uint 2]) (.cons .raw .nil)))))) := by decide

/-- SimilarityResponsePayload: one `tb_overlap` record is the 20-byte hash followed by the count as a 4-byte BIG-ENDIAN
    unsigned integer -/
theorem tb_overlap_layout (h : Bytes) (k : Nat) (hl : h.length = 20) (hk : k < 256 ^ 4) :
    Old.joinTb [.tuple [.bytes h, .nat k]] = some (h ++ beEnc 4 k) := by
  have hpad : fixedPad 20 h = h := by rw [← hl]; exact fixedPad_self h
  simp [Old.joinTb, hk, hpad]

/-- SimilarityResponsePayload: `from_unpack_list(*to_pack_list())` restores identifier, every 20-byte preference and every
    `(hash, count)` overlap record, for lists of any length -/
theorem similarity_response_fields_roundtrip (ident : Nat) (prefs tb : ValList) (hi : ident < 65536)
    (hp : ∀ e ∈ prefs.toList, wfPref e = true) (ht : ∀ e ∈ tb.toList, wfTb e = true)
    (pl : List Val) (hpl : Old.simRespPack [.atom (.nat ident), .list prefs, .list tb] = some pl) :
    Old.simRespUnpack pl = some [.atom (.nat ident), .list prefs, .list tb] := by
  simp only [Old.simRespPack] at hpl
  cases hj : Old.joinBytes prefs.toList with
  | none => simp [hj] at hpl
  | some pb =>
    cases hk : Old.joinTb tb.toList with
    | none => simp [hj, hk] at hpl
    | some tbb =>
      simp [hj, hk] at hpl
      subst hpl
      have e1 := splitTb_joinTb tb.toList tbb hk ht
      have e2 : (Old.chunks 20 pb).map (fun c => Val.atom (.bytes c)) = prefs.toList := by
        simp only [Old.chunks]
        exact chunksAux_joinBytes prefs.toList pb pb.length hj hp (Nat.le_refl _)
      simp [Old.simRespUnpack, e1, Old.bytesList, e2, ofList_toList, Nat.mod_eq_of_lt hi]

/-- the identifier argument (at the class's identifier position, if it has one) fits the unsigned short it is sent as -/
def identOk (cls : String) (args : List Val) : Prop :=
  match Old.identPos (Old.short cls) with
  | none => True
  | some i => ∀ k, args[i]? = some (.atom (.nat k)) → k < 65536

theorem modIdentAt_ok : (i : Nat) → (args : List Val) → (∀ k, args[i]? = some (.atom (.nat k)) → k < 65536) →
    Old.modIdentAt i args = args
  | 0, [], _ => rfl
  | _+1, [], _ => rfl
  | 0, v :: r, h => by
    cases v with
    | atom a =>
      cases a with
      | nat k => simp [Old.modIdentAt, Nat.mod_eq_of_lt (h k (by simp))]
      | _ => rfl
    | _ => rfl
  | i+1, v :: r, h => by
    simp [Old.modIdentAt, modIdentAt_ok i r (fun k hk => h k (by simpa using hk))]

/-- constructors of the hand-written payloads: when the identifier argument lies in the `H` domain (65535 included) the
    attributes are EXACTLY the arguments — other integer arguments (e.g. a 64-bit global time) are never touched — except
    that DiscoveryIntroductionRequestPayload, and only it, appends its fixed `supports_new_style = 1`.
    (The content is `k < 65536 → k % 65536 = k` at the right argument position of the right classes; the link to the code is
    the driver op `old … init` on every generated instance, in and out of domain.) -/
theorem old_init_keeps_in_domain_identifier (cls : String) (args : List Val) (h : identOk cls args) :
    Old.init cls args =
      if Old.short cls == "DiscoveryIntroductionRequestPayload" then args ++ [.atom (.nat 1)] else args := by
  have e : Old.reduceIdent (Old.short cls) args = args := by
    unfold Old.reduceIdent
    unfold identOk at h
    cases hp : Old.identPos (Old.short cls) with
    | none => rfl
    | some i => rw [hp] at h; exact modIdentAt_ok i args h
  unfold Old.init
  by_cases hc : (Old.short cls == "DiscoveryIntroductionRequestPayload") = true
  · simp [hc, e, Old.n]
  · simp [hc, e]

/-- boundary: identifier 65535 survives the constructor, 65536 wraps to 0 -/
example : Old.init "ipv8.messaging.payload.PuncturePayload" [.atom (.bytes []), .atom (.bytes []), .atom (.nat 65535)]
      = [.atom (.bytes []), .atom (.bytes []), .atom (.nat 65535)]
    ∧ Old.init "ipv8.messaging.payload.PuncturePayload" [.atom (.bytes []), .atom (.bytes []), .atom (.nat 65536)]
      = [.atom (.bytes []), .atom (.bytes []), .atom (.nat 0)] := by decide

/-! ## method bodies TRANSLATED from the source (Gen.classCodes) — re-proved against the code on every run

  `Gen.codeOld_*` / `Gen.codeOf` are the bodies of `to_pack_list`, `from_unpack_list` (+ `__init__`) as the translator read them
  from the working tree; `Code.evalPack / evalUnpack` interpret them.  The theorems below say that this code IS the
  hand-written model the field round-trip theorems above are proved about: a regression in one of these methods (a flag bit
  moved, `[True, False][advice]`, `introduce_to[1:]`, another modulus, a swapped argument) makes them fail to build. -/

/-- IntroductionRequestPayload.to_pack_list, as translated, is `Old.introReqPack` -/
theorem generated_introduction_request_pack (d l w extra ident : Val) (adv sns : Atom) (ct : Bytes) :
    Code.evalPack codeOld_IntroductionRequestPayload [d, l, w, .atom adv, .str ct, ident, extra, .atom sns]
      = Old.introReqPack [d, l, w, .atom adv, .str ct, ident, extra, .atom sns] := rfl

/-- IntroductionRequestPayload.from_unpack_list followed by `__init__`, as translated, is `Old.introReqUnpack` -/
theorem generated_introduction_request_unpack (d l w extra : Val) (c0 c1 sns x3 x4 x5 x6 adv : Atom) (ident : Nat) :
    Code.evalUnpack codeOld_IntroductionRequestPayload
        [d, l, w, .atom c0, .atom c1, .atom sns, .atom x3, .atom x4, .atom x5, .atom x6, .atom adv, .atom (.nat ident), extra]
      = Old.introReqUnpack [d, l, w, .tuple [c0, c1, sns, x3, x4, x5, x6, adv], .atom (.nat ident), extra] := rfl

theorem generated_discovery_introduction_request_pack (d l w extra ident : Val) (key : Bytes) (adv : Atom) (ct : Bytes) :
    Code.evalPack codeOld_DiscoveryIntroductionRequestPayload
        [.atom (.bytes key), d, l, w, .atom adv, .str ct, ident, extra, .atom (.nat 1)]
      = Old.discIntroReqPack [.atom (.bytes key), d, l, w, .atom adv, .str ct, ident, extra, .atom (.nat 1)] := rfl

theorem generated_discovery_introduction_request_unpack (d l w extra : Val) (y : Atom) (key : Bytes)
    (c0 c1 x2 x3 x4 x5 x6 adv : Atom) (ident : Nat) :
    Code.evalUnpack codeOld_DiscoveryIntroductionRequestPayload
        [.tuple [y, .bytes key], d, l, w, .atom c0, .atom c1, .atom x2, .atom x3, .atom x4, .atom x5, .atom x6, .atom adv,
         .atom (.nat ident), extra]
      = Old.discIntroReqUnpack [.tuple [y, .bytes key], d, l, w, .tuple [c0, c1, x2, x3, x4, x5, x6, adv], .atom (.nat ident), extra] :=
  rfl

theorem generated_introduction_response_pack (d l w li wi ident extra : Val) (ct : Bytes) (sns isns plr : Atom) :
    Code.evalPack codeOld_IntroductionResponsePayload [d, l, w, li, wi, .str ct, ident, extra, .atom sns, .atom isns, .atom plr]
      = Old.introRespPack [d, l, w, li, wi, .str ct, ident, extra, .atom sns, .atom isns, .atom plr] := rfl

theorem generated_introduction_response_unpack (d l w li wi extra : Val) (c0 c1 x2 sns isns plr x6 x7 : Atom) (ident : Nat) :
    Code.evalUnpack codeOld_IntroductionResponsePayload
        [d, l, w, li, wi, .atom c0, .atom c1, .atom x2, .atom sns, .atom isns, .atom plr, .atom x6, .atom x7, .atom (.nat ident), extra]
      = Old.introRespUnpack [d, l, w, li, wi, .tuple [c0, c1, x2, sns, isns, plr, x6, x7], .atom (.nat ident), extra] := rfl

theorem generated_similarity_response_pack (ident : Val) (prefs tb : ValList) :
    Code.evalPack codeOld_SimilarityResponsePayload [ident, .list prefs, .list tb]
      = Old.simRespPack [ident, .list prefs, .list tb] := by
  have hp : codeOld_SimilarityResponsePayload.pack
      = [⟨"H", [.attr 0]⟩, ⟨"varlenHx20", [.joinBytes 1]⟩, ⟨"raw", [.joinTb 2]⟩] := rfl
  rw [Code.evalPack, hp]
  cases h1 : Old.joinBytes prefs.toList <;> cases h2 : Old.joinTb tb.toList <;>
    simp [Code.evalEntry, Code.evalP, Old.simRespPack, h1, h2]

theorem generated_similarity_response_unpack (ident : Nat) (prefs tb : Bytes) :
    Code.evalUnpack codeOld_SimilarityResponsePayload [.atom (.nat ident), .atom (.bytes prefs), .atom (.bytes tb)]
      = Old.simRespUnpack [.atom (.nat ident), .atom (.bytes prefs), .atom (.bytes tb)] := by
  have h1 : codeOld_SimilarityResponsePayload.ctorArgs = [.param 0, .chunks 1 20, .splitTb 2] := rfl
  have h2 : codeOld_SimilarityResponsePayload.init = [.modParam 0 65536, .param 1, .param 2] := rfl
  have h3 : codeOld_SimilarityResponsePayload.unpackParams = 3 := rfl
  have h4 : codeOld_SimilarityResponsePayload.ctorParams = 3 := rfl
  cases hs : Old.splitTb tb <;>
    simp [Code.evalUnpack, Code.evalU, Code.evalInit, Code.evalI, Old.simRespUnpack, h1, h2, h3, h4, hs]

/-- every other shipped class — the 44 compiled VariablePayloads (source text generated by `vp_compile`, read back from the live
    code objects) and the 11 plain hand-written ones: `to_pack_list` packs the attributes as they are, one entry per format in
    `names` order (8 per `bits`), `from_unpack_list` passes the unpacked values straight to the constructor, `__init__` stores
    them as they are — except `identifier % 65536` at the position `Old.identPos` says -/
theorem generated_code_is_canonical : ∀ p ∈ payloads, codeIsCanonical p = true := by decide

/-! ## the datagram frame of an overlay message (`EZPackOverlay._ez_pack` / `_ez_unpack_auth`, model `Frame.lean`) -/

/-- a signed frame — 22-byte prefix, message id, key field, global time, message, signature — decodes to the key AS SENT
    (any byte string below 64 KiB: canonical or not), the global time and the message's values, for every message format
    (also `raw`-terminated: the signature is cut off first) and every non-empty signature.  The bytes cut off the front are
    `2 + |key field on the wire|`; a model that cut another length (e.g. that of a re-encoded key) fails this. -/
theorem framed_roundtrip (pre key sig msgb : Bytes) (m gt : Nat) (fs : FmtList) (vs : ValList)
    (hpre : pre.length = 22) (hk : key.length < 65536) (hgt : gt < 256 ^ 8)
    (hwf : wfList fs vs = true) (hp : packList fs vs = .ok msgb) (hsig : 0 < sig.length) :
    ezUnpackAuth sig.length [distFmts, fs]
        ((pre ++ [UInt8.ofNat m]) ++ ((beEnc 2 key.length ++ key) ++ (beEnc 8 gt ++ (msgb ++ sig))))
      = .ok (key, [.cons (.atom (.nat gt)) .nil, vs]) := by
  have hA : (pre ++ [UInt8.ofNat m]).length = 23 := by simp [hpre]
  -- 1. the key field
  have hauthp : packList authFmts (.cons (.atom (.bytes key)) .nil) = .ok (beEnc 2 key.length ++ key) := by
    have : packUint 2 (key.length / 1) = .ok (beEnc 2 key.length) := by
      simp [packUint, Nat.div_one]; omega
    simp only [Nat.div_one] at this
    simp [authFmts, packList, pack, this, bind, Except.bind]
  have hauth := rtList authFmts (.cons (.atom (.bytes key)) .nil) (beEnc 2 key.length ++ key) (pre ++ [UInt8.ofNat m])
    (beEnc 8 gt ++ (msgb ++ sig)) hauthp (by simp [authFmts, wfList, wf, Nat.mod_one]) (by intro h; simp [authFmts, endsInRawL, endsInRaw] at h)
  rw [hA] at hauth
  -- 2. the remainder
  have hdata : (pre ++ [UInt8.ofNat m]) ++ ((beEnc 2 key.length ++ key) ++ (beEnc 8 gt ++ (msgb ++ sig)))
      = ((pre ++ [UInt8.ofNat m]) ++ (beEnc 2 key.length ++ key)) ++ (beEnc 8 gt ++ (msgb ++ sig)) := by simp
  have hrem := slice_lemma ((pre ++ [UInt8.ofNat m]) ++ (beEnc 2 key.length ++ key)) (beEnc 8 gt) msgb sig (2 + key.length)
    (by simp [beEnc_length]; omega) hsig
  generalize hR0 : ((pre ++ [UInt8.ofNat m]) ++ (beEnc 2 key.length ++ key)).drop (2 + key.length) = r0 at hrem
  have hr0 : r0.length = 23 := by rw [← hR0]; simp [List.length_drop, hpre, beEnc_length]; omega
  -- 3. global time and the message inside the remainder
  have hdistp : packList distFmts (.cons (.atom (.nat gt)) .nil) = .ok (beEnc 8 gt) := by
    simp [distFmts, packList, pack, packFields, packField, packUint, hgt, bind, Except.bind]
  have hd := rtList distFmts (.cons (.atom (.nat gt)) .nil) (beEnc 8 gt) r0 msgb hdistp
    (by simp [distFmts, wfList, wf, wfFields, wfField]) (by intro h; simp [distFmts, endsInRawL, endsInRaw] at h)
  have hm := rtList fs vs msgb (r0 ++ beEnc 8 gt) [] hp hwf (fun _ => rfl)
  rw [hr0] at hd
  have hl2 : (r0 ++ beEnc 8 gt).length = 23 + 8 := by simp [hr0, beEnc_length]
  rw [hl2] at hm
  have hm' : unpackListAt fs (r0 ++ beEnc 8 gt ++ (msgb ++ [])) (23 + (beEnc 8 gt).length) = .ok (vs, 23 + 8 + msgb.length) := by
    rw [beEnc_length]; exact hm
  have e1 : r0 ++ (beEnc 8 gt ++ msgb) = (r0 ++ beEnc 8 gt) ++ (msgb ++ []) := by simp
  unfold ezUnpackAuth
  rw [hauth]
  simp only [bind, Except.bind]
  rw [hdata, hrem]
  simp only [unpackPayloadsAt, bind, Except.bind, hd]
  rw [e1, hm']
  simp [beEnc_length, hr0]
  rw [if_pos (by omega)]

/-- an UNSIGNED frame — prefix, message id, global time, message; no key field, no signature — decodes (`_ez_unpack_noauth`,
    `lazy_wrapper_unsigned`) to the global time and the message's values -/
theorem framed_unsigned_roundtrip (pre msgb : Bytes) (m gt : Nat) (fs : FmtList) (vs : ValList)
    (hpre : pre.length = 22) (hgt : gt < 256 ^ 8) (hwf : wfList fs vs = true) (hp : packList fs vs = .ok msgb) :
    ezUnpackNoAuth [distFmts, fs] ((pre ++ [UInt8.ofNat m]) ++ (beEnc 8 gt ++ msgb))
      = .ok [.cons (.atom (.nat gt)) .nil, vs] := by
  have hA : (pre ++ [UInt8.ofNat m]).length = 23 := by simp [hpre]
  have hdistp : packList distFmts (.cons (.atom (.nat gt)) .nil) = .ok (beEnc 8 gt) := by
    simp [distFmts, packList, pack, packFields, packField, packUint, hgt, bind, Except.bind]
  have hd := rtList distFmts (.cons (.atom (.nat gt)) .nil) (beEnc 8 gt) (pre ++ [UInt8.ofNat m]) msgb hdistp
    (by simp [distFmts, wfList, wf, wfFields, wfField]) (by intro h; simp [distFmts, endsInRawL, endsInRaw] at h)
  have hm := rtList fs vs msgb ((pre ++ [UInt8.ofNat m]) ++ beEnc 8 gt) [] hp hwf (fun _ => rfl)
  rw [hA] at hd
  have hl2 : ((pre ++ [UInt8.ofNat m]) ++ beEnc 8 gt).length = 23 + (beEnc 8 gt).length := by simp [hpre]; omega
  rw [hl2] at hm
  have e1 : (pre ++ [UInt8.ofNat m]) ++ (beEnc 8 gt ++ msgb) = ((pre ++ [UInt8.ofNat m]) ++ beEnc 8 gt) ++ (msgb ++ []) := by simp
  unfold ezUnpackNoAuth
  simp only [unpackPayloadsAt, bind, Except.bind, hd]
  rw [e1, hm]
  simp [beEnc_length, hpre]
  rw [if_pos (by omega)]

/-- non-vacuity: a 3-byte key, global time 5, an `H` message, a 2-byte signature (evaluation of the model) -/
example : Frame.ezUnpackAuth 2 [Frame.distFmts, .cons (.struct [.uint 2]) .nil]
      (List.replicate 22 7 ++ [9] ++ ([0, 3] ++ [1, 2, 3]) ++ [0, 0, 0, 0, 0, 0, 0, 5] ++ [1, 2] ++ [0xEE, 0xEF])
    = .ok ([1, 2, 3], [.cons (.atom (.nat 5)) .nil, .cons (.atom (.nat 258)) .nil]) := by decide

/-! ## serializer instances: an overlay encodes and decodes with ITS OWN packer table -/

/-- for any set of overlays created in any order, each registering any packers under any names (fresh names, names also
    used by other overlays, overrides of default names): the overlay created at position `|before|` resolves every name to
    its own LAST registration of that name, otherwise to the default packer — independently of what the overlays before
    and after it registered — and the module-level `default_serializer` still resolves every name to the default -/
theorem overlay_serializers_isolated (defaults : Reg.Table) (before after : List (List (String × Fmt)))
    (regs : List (String × Fmt)) (n : String) :
    Reg.lookup ((Reg.run defaults (before ++ [regs] ++ after)).tbl (before.length + 1)) n
      = (Reg.ownLookup regs n).or (Reg.lookup defaults n)
    ∧ Reg.lookup ((Reg.run defaults (before ++ [regs] ++ after)).tbl 0) n = Reg.lookup defaults n := by
  constructor
  · simp only [Reg.run, List.foldl_append, List.foldl_cons, List.foldl_nil]
    have hn := Reg.foldl_create_next defaults before (Reg.World.init defaults)
    have hnext : (before.foldl (fun w regs => (Reg.create defaults w regs).1) (Reg.World.init defaults)).next
        = before.length + 1 := by rw [hn]; simp [Reg.World.init]; omega
    rw [Reg.foldl_create_stable defaults after _ _ (by rw [Reg.create_next, hnext]; omega), Reg.create_tbl, hnext]
    simp [Reg.lookup_append, Reg.ownLookup]
  · simp only [Reg.run]
    rw [Reg.foldl_create_stable defaults _ _ 0 (by simp [Reg.World.init])]
    simp [Reg.World.init]

/-- non-vacuity, and the model separates the policies: two overlays register `digest` as 20 / 32 bytes and a third widens
    `varlenH`; with fresh serializers each resolves its own, with a shared instance the last registration wins for all -/
example :
    let d : Reg.Table := [("varlenH", .varlen 2 1), ("H", .struct [.uint 2])]
    let regss := [[("digest", Fmt.struct [.fixed 20])], [("digest", Fmt.struct [.fixed 32])], [("varlenH", Fmt.varlen 4 1)]]
    Reg.lookup ((Reg.run d regss).tbl 1) "digest" = some (.struct [.fixed 20])
    ∧ Reg.lookup ((Reg.run d regss).tbl 2) "digest" = some (.struct [.fixed 32])
    ∧ Reg.lookup ((Reg.run d regss).tbl 1) "varlenH" = some (.varlen 2 1)
    ∧ Reg.lookup ((Reg.run d regss).tbl 0) "varlenH" = some (.varlen 2 1)
    ∧ Reg.lookup ((regss.foldl (fun w r => (Reg.createShared w r).1) (Reg.World.init d)).tbl 0) "digest"
        = some (.struct [.fixed 32])
    ∧ Reg.lookup ((regss.foldl (fun w r => (Reg.createShared w r).1) (Reg.World.init d)).tbl 0) "varlenH"
        = some (.varlen 4 1) := by decide

/-! ## dataclass-defined payloads: class-level conversion state (model `Dataclass.lean`, tied to the code by driver op `dc`)

  FULL statement wanted by the property (every dataclass message type decodes to itself with all its fields, whatever
  happened before in the process):
      ∀ ops c fm, recvResult all parent (run all parent fuel ops) fuel c fm = some c ∧ lookupNames … c = all c
  This is FALSE for the code as it is (known finding `DataClassPayload:decode-before-first-instance`): see the three witnesses
  below.  Proved part: the statement under the explicit hypothesis that `c` has been INSTANTIATED at least once. -/

/-- partial: after any sequence of instantiations and receptions (of this class, its bases, its subclasses, nested member
    classes, unrelated classes, in any order) a class that has been INSTANTIATED at least once carries its own full field list,
    and a datagram of it decodes to an instance of it PROVIDED every nested member class present in the datagram has been
    instantiated as well.  What the theorem carries: conversions are never undone and a reception of one class never damages
    another; that instantiation stores the full field list is the definition of `instantiate` (compared with the code through
    `dc` after every step), and `all` is a parameter. -/
theorem dataclass_converted_after_first_instance_partial (all : Nat → List String) (parent : Nat → Option Nat)
    (ops : List Dc.Op) (c fuel : Nat) (fm : List (Option Nat)) (hc : Dc.Op.inst c ∈ ops)
    (hm : ∀ m ∈ Dc.membersMet all c fm, Dc.Op.inst m ∈ ops) :
    Dc.lookupNames parent (Dc.run all parent (fuel + 1) ops) (fuel + 1) c = all c ∧
    Dc.recvResult all parent (Dc.run all parent (fuel + 1) ops) (fuel + 1) c fm = some c := by
  have h' : Dc.run all parent (fuel + 1) ops c = some (all c) :=
    Dc.foldl_keeps all parent (fuel + 1) ops Dc.init c (Or.inl hc)
  have hmem : Dc.firstUnconverted (Dc.run all parent (fuel + 1) ops) (Dc.membersMet all c fm) = none := by
    unfold Dc.firstUnconverted
    rw [List.find?_eq_none]
    intro m hmm
    have : Dc.run all parent (fuel + 1) ops m = some (all m) :=
      Dc.foldl_keeps all parent (fuel + 1) ops Dc.init m (Or.inl (hm m hmm))
    simp [this]
  simp [Dc.lookupNames, Dc.recvResult, Dc.owner, h', hmem]

/-- negation witness 1: a message type that was only ever RECEIVED: decoding raises (class 0 with two fields, no history) -/
theorem dataclass_receive_first_raises_witness :
    Dc.recvResult (fun _ => ["x", "y"]) (fun _ => none) (Dc.run (fun _ => ["x", "y"]) (fun _ => none) 3 []) 3 0 [] = none := by
  decide

/-- negation witness 2: base class 0 instantiated, derived class 1 (one more field) only received: it decodes as an
    instance of the BASE class and reads only the base's fields -/
theorem dataclass_receive_first_decodes_as_base_witness :
    let all : Nat → List String := fun c => if c = 0 then ["x", "y"] else ["x", "y", "z"]
    let parent : Nat → Option Nat := fun c => if c = 1 then some 0 else none
    Dc.recvResult all parent (Dc.run all parent 3 [.inst 0]) 3 1 [] = some 0 ∧
    Dc.lookupNames parent (Dc.run all parent 3 [.inst 0]) 3 1 = ["x", "y"] := by
  decide

/-- negation witness 3: the message class 0 (fields n, items: list of class 1) HAS been instantiated, the nested class 1 has
    not: a peer's datagram with a non-empty `items` raises; the failed attempt converts class 1, the second attempt succeeds -/
theorem dataclass_unconverted_member_raises_witness :
    let all : Nat → List String := fun c => if c = 0 then ["n", "items"] else ["a"]
    let parent : Nat → Option Nat := fun _ => none
    Dc.recvResult all parent (Dc.run all parent 3 [.inst 0]) 3 0 [none, some 1] = none ∧
    Dc.recvResult all parent (Dc.run all parent 3 [.inst 0, .recv 0 [none, some 1]]) 3 0 [none, some 1] = some 0 := by
  decide

/-- container of a decoded sequence field: along ANY inheritance chain in which every class annotates the field anew
    (list / tuple / set in any order, each class converted after its base), as long as no user-defined `fix_unpack_` rule is
    in play, the field decodes into the container the LAST class annotates.  The rule selection of `convert_to_payload`
    (`Dc.installRule`: recompute own rules, `_keep_container` when a subclass goes back to list, keep user rules) is
    modelled branch by branch, so dropping a branch makes this fail; linked to the code by driver op `dcrule`. -/
theorem dataclass_container_follows_annotation (anns : List Dc.Container) (last : Dc.Container) :
    Dc.applyRule (Dc.chainRule none (anns ++ [last])) = last := by
  have inv : ∀ (l : List Dc.Container) (r : Option Dc.Rule), Dc.libraryOwn r = true →
      Dc.libraryOwn (Dc.chainRule r l) = true := by
    intro l
    induction l with
    | nil => intro r h; simpa [Dc.chainRule] using h
    | cons a as ih =>
      intro r h
      simp only [Dc.chainRule, List.foldl_cons]
      exact ih _ (Dc.installRule_own r a h).1
  simp only [Dc.chainRule, List.foldl_append, List.foldl_cons, List.foldl_nil]
  exact (Dc.installRule_own _ last (inv anns none rfl)).2

/-- a user-defined rule is never replaced, whatever the subclasses annotate -/
theorem dataclass_user_rule_kept (r : Dc.Container) (anns : List Dc.Container) :
    Dc.chainRule (some (.user r)) anns = some (.user r) := by
  induction anns with
  | nil => rfl
  | cons a as ih => simpa [Dc.chainRule, Dc.installRule] using ih

/-- non-vacuity / the branches matter: tuple in the base, list in the subclass decodes a list (needs `_keep_container`),
    list → set → tuple decodes a tuple -/
example : Dc.applyRule (Dc.chainRule none [.tuple, .list]) = .list
    ∧ Dc.chainRule none [.tuple, .list] = some .keep
    ∧ Dc.applyRule (Dc.chainRule none [.list, .set, .tuple]) = .tuple := by decide

/-- `payload_dataclass.type_map` (evaluated on the live module for the 12 probed annotations bool, int, float, bytes, str,
    list[bool|int|float], tuple[int|bool|float], set[int]) is the frozen one and only names registered formats -/
theorem dataclass_type_map_frozen : typeMap = frozenTypeMap ∧ ∀ e ∈ typeMap, (lookup packers e.2).isSome = true := by
  decide

/-- hypothesis of the partial theorem is satisfiable: derived class received first (lost), then instantiated, then received -/
example : Dc.recvResult (fun c => if c = 0 then ["x"] else ["x", "z"]) (fun c => if c = 1 then some 0 else none)
      (Dc.run (fun c => if c = 0 then ["x"] else ["x", "z"]) (fun c => if c = 1 then some 0 else none) 3
        [.inst 0, .recv 1 [], .inst 1]) 3 1 [] = some 1 := by decide

/-- the model distinguishes the "convert only while `cls.names` is empty" policy: base first, then the derived class —
    the derived class keeps the base's single field -/
example : Dc.lookupNames (fun c => if c = 1 then some 0 else none)
      ([0, 1].foldl (Dc.instantiateLazy (fun c => if c = 0 then ["identifier"] else ["identifier", "blob", "flag"])
        (fun c => if c = 1 then some 0 else none) 3) Dc.init) 3 1 = ["identifier"] := by decide

/-- two overlap records with counters 1 and 2^32-1 -/
example : Old.joinTb [.tuple [.bytes (List.replicate 20 0xAA), .nat 1], .tuple [.bytes (List.replicate 20 0xBB), .nat 4294967295]]
    = some (List.replicate 20 0xAA ++ [0, 0, 0, 1] ++ List.replicate 20 0xBB ++ [255, 255, 255, 255]) := by decide

/-! ## non-vacuity: the hypotheses are satisfiable by concrete, non-trivial values -/

/-- a `varlenH-list` of two byte strings followed by `bits`, at offset 3, with a suffix -/
example : wfList (.cons (.listOf 1 (.varlen 2 1)) (.cons .bits .nil))
      (.cons (.list (.cons (.atom (.bytes [1, 2])) (.cons (.atom (.bytes [])) .nil)))
        (.cons (.tuple [.nat 1, .nat 0, .nat 0, .nat 0, .nat 0, .nat 0, .nat 1, .nat 1]) .nil)) = true
    ∧ packList (.cons (.listOf 1 (.varlen 2 1)) (.cons .bits .nil))
      (.cons (.list (.cons (.atom (.bytes [1, 2])) (.cons (.atom (.bytes [])) .nil)))
        (.cons (.tuple [.nat 1, .nat 0, .nat 0, .nat 0, .nat 0, .nat 0, .nat 1, .nat 1]) .nil))
      = .ok [2, 0, 2, 1, 2, 0, 0, 0x83] := by decide

/-- the same values really decode at offset 3 inside other bytes (evaluation of the model, independent of the proof) -/
example : unpackListAt (.cons (.listOf 1 (.varlen 2 1)) (.cons .bits .nil))
      ([9, 9, 9] ++ [2, 0, 2, 1, 2, 0, 0, 0x83] ++ [7, 7]) 3
    = .ok (.cons (.list (.cons (.atom (.bytes [1, 2])) (.cons (.atom (.bytes [])) .nil)))
        (.cons (.tuple [.nat 1, .nat 0, .nat 0, .nat 0, .nat 0, .nat 0, .nat 1, .nat 1]) .nil), 11) := by decide

/-- a shipped class with a nested list (PeersResponsePayload) has legal values: one IntroductionInfo with an IPv6 address;
    its encoding has 54 bytes -/
example : (findPayload "ipv8.messaging.anonymization.payload.PeersResponsePayload").map (fun p =>
      let vs : ValList := .cons (.atom (.nat 7)) (.cons (.atom (.nat 9)) (.cons (.atom (.bytes (List.replicate 20 5)))
        (.cons (.list (.cons (.record (.cons (.addr (.v6 (List.replicate 16 1) 80)) (.cons (.atom (.bytes [1]))
          (.cons (.atom (.bytes [])) (.cons (.atom (.nat 2)) .nil))))) .nil)) .nil)))
      (wfList p.fmts vs, (packList p.fmts vs).toOption.map List.length))
    = some (true, some 54) := by decide

/-- `introduction_request_wire_roundtrip`: its hypotheses hold for a concrete request (advice set, public, 2 extra bytes) -/
example : Old.introReqPack [.addr (.v4 [1, 2, 3, 4] 5), .addr (.v4 [10, 0, 0, 1] 80), .addr (.v4 [8, 8, 8, 8] 65535),
      .atom (.nat 1), .str Old.sPublic, .atom (.nat 65535), .atom (.bytes [7, 7]), .atom (.nat 1)]
    = some [.addr (.v4 [1, 2, 3, 4] 5), .addr (.v4 [10, 0, 0, 1] 80), .addr (.v4 [8, 8, 8, 8] 65535),
      .tuple [.nat 1, .nat 0, .nat 1, .nat 0, .nat 0, .nat 0, .nat 0, .nat 1], .atom (.nat 65535), .atom (.bytes [7, 7])]
    ∧ packList (.cons .ipv4 (.cons .ipv4 (.cons .ipv4 (.cons .bits (.cons (.struct [.uint 2]) (.cons .raw .nil))))))
      (ValList.ofList [.addr (.v4 [1, 2, 3, 4] 5), .addr (.v4 [10, 0, 0, 1] 80), .addr (.v4 [8, 8, 8, 8] 65535),
        .tuple [.nat 1, .nat 0, .nat 1, .nat 0, .nat 0, .nat 0, .nat 0, .nat 1], .atom (.nat 65535), .atom (.bytes [7, 7])])
    = .ok [1, 2, 3, 4, 0, 5, 10, 0, 0, 1, 0, 80, 8, 8, 8, 8, 255, 255, 0xA1, 255, 255, 7, 7] := by decide

/-- `variable_payload_attr_roundtrip`: a format list with `bits` in the middle; 10 attributes ↔ 3 pack-list entries -/
example : Old.vpPack (.cons (.struct [.uint 2]) (.cons .bits (.cons (.varlen 2 1) .nil)))
      [.atom (.nat 7), .atom (.nat 1), .atom (.nat 0), .atom (.nat 0), .atom (.nat 0), .atom (.nat 0), .atom (.nat 0),
       .atom (.nat 1), .atom (.nat 1), .atom (.bytes [9])]
    = some [.atom (.nat 7), .tuple [.nat 1, .nat 0, .nat 0, .nat 0, .nat 0, .nat 0, .nat 1, .nat 1], .atom (.bytes [9])] := by
  decide

/-- `similarity_response_fields_roundtrip` / `tb_overlap_layout`: a response with one preference and two overlap records -/
example : (Old.simRespPack [.atom (.nat 3), .list (.cons (.atom (.bytes (List.replicate 20 1))) .nil),
      .list (.cons (.tuple [.bytes (List.replicate 20 2), .nat 258]) (.cons (.tuple [.bytes (List.replicate 20 3), .nat 0]) .nil))]).isSome
    = true := by decide

/-- layouts: a signed −2 in 4 bytes, an IPv6 address, a two-element array of signed 64-bit integers -/
example : pack (.struct [.sint 4]) (.atom (.int (-2))) = .ok [255, 255, 255, 254]
    ∧ pack (.address true) (.addr (.v6 (List.replicate 16 9) 258)) = .ok ([3] ++ List.replicate 16 9 ++ [1, 2])
    ∧ pack (.array 2 .q) (.arr [.int 1, .int (-1)]) = .ok ([0, 2] ++ [0, 0, 0, 0, 0, 0, 0, 1] ++ List.replicate 8 255) := by decide

/-- canonical flag lists exist and non-canonical ones are excluded -/
example : wf (.flags 2) (.nats [1, 4, 32768]) = true ∧ wf (.flags 2) (.nats [4, 1]) = false := by decide

/-- cells: hypothesis satisfiable -/
example : Old.cellToBin (List.replicate 22 0xAB) 0x01020304 true false [5, 6] =
    .ok (List.replicate 22 0xAB ++ [0, 1, 2, 3, 4, 1, 0, 5, 6]) := by decide

end Ipv8.C02
