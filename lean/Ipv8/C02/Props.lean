/-
  C02 — property theorems.  Every `theorem` in this file is an obligation of the check.
-/
import Ipv8.C02.Lemmas

namespace Ipv8.C02
open Gen Spec

/-- every documented data type is registered with exactly the documented layout
    (field order, big-endian widths, length-prefix width and unit) -/
theorem matches_documented_format : ∀ e ∈ docTable, lookup packers e.1 = some e.2 := by decide

/-- the names the table does not list keep the layout frozen at the pinned commit -/
theorem undocumented_formats_frozen : ∀ e ∈ frozenTable, lookup packers e.1 = some e.2 := by decide

/-- no serializer of a shipped overlay registers a format that is neither documented nor frozen -/
theorem registry_is_specified : ∀ e ∈ packers, lookup (docTable ++ frozenTable) e.1 = some e.2 := by decide

/-- every shipped class uses registered formats only, `raw` only last, 8 names per `bits`, no hooks -/
theorem all_payloads_wf : ∀ p ∈ payloads, wfPayload p = true := by decide

/-- field order / formats / names of every shipped message are those of the pinned commit -/
theorem shipped_layouts_frozen : ∀ e ∈ frozenLayouts, layoutMatches e = true := by decide

theorem shipped_msg_ids_frozen : ∀ e ∈ frozenMsgIds, msgIdMatches e = true := by decide

end Ipv8.C02
