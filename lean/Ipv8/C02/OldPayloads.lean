/-
  Models of the hand-written `to_pack_list` / `from_unpack_list` pairs (old-style payloads) and of
  `CellPayload.to_bin / from_bin` (core Lean only).

  An instance is represented by the list of its attributes AFTER `__init__` (so `identifier % 65536` has been applied),
  in the order given per class below.  Booleans/bit flags are `nat 0/1` (Python: `True == 1`), text is `str <utf-8>`.

    toPack cls attrs      = the values of `to_pack_list()` (one per format; `bits` as an 8-tuple)
    fromUnpack cls ul     = the attributes of `from_unpack_list(*unpack_list)` (`ul`: one value per format)

  Mirrors ipv8/messaging/payload.py, ipv8/peerdiscovery/payload.py, ipv8/messaging/payload_headers.py,
  ipv8/attestation/wallet/payload.py, ipv8/messaging/anonymization/payload.py (CellPayload).
-/
import Ipv8.C02.Tables
import Ipv8.C02.Code

namespace Ipv8.C02.Old
open Ipv8 Ipv8.C02

def vl (l : List Val) : ValList := ValList.ofList l

def short (cls : String) : String :=
  match (Proto.splitChar cls '.').reverse with
  | x :: _ => x
  | [] => cls

/-- the plain pairs: pack list = attributes, attributes = unpack list -/
def identityClasses : List String :=
  ["BinMemberAuthenticationPayload", "GlobalTimeDistributionPayload", "RequestAttestationPayload",
   "VerifyAttestationRequestPayload", "AttestationChunkPayload", "ChallengePayload", "ChallengeResponsePayload"]

/-- classes whose only transformation is `identifier % 65536` in `__init__` (identifier is the LAST attribute) -/
def identLastClasses : List String := ["PunctureRequestPayload", "PuncturePayload", "PingPayload", "PongPayload"]

def modLast : List Val → List Val
  | [] => []
  | [.atom (.nat k)] => [.atom (.nat (k % 65536))]
  | v :: vs => v :: modLast vs

/-- IntroductionRequestPayload.to_pack_list on attributes
    [dest, lan, wan, advice, connection_type, identifier, extra_bytes, supports_new_style] -/
def introReqPack : List Val → Option (List Val)
  | [d, l, w, .atom adv, .str ct, ident, extra, .atom sns] =>
    let e := encConn ct
    some [d, l, w, .tuple [n e.1, n e.2, sns, n 0, n 0, n 0, n 0, adv], ident, extra]
  | _ => none

/-- DiscoveryIntroductionRequestPayload.to_pack_list: ("c20s", b"Y", introduce_to) in front -/
def discIntroReqPack : List Val → Option (List Val)
  | .atom (.bytes key) :: rest => (introReqPack rest).map (fun r => Val.tuple [.bytes (ascii "Y"), .bytes key] :: r)
  | _ => none

/-- IntroductionResponsePayload.to_pack_list on attributes [dest, lan, wan, lan_intro, wan_intro, connection_type,
    identifier, extra_bytes, supports_new_style, intro_supports_new_style, peer_limit_reached] -/
def introRespPack : List Val → Option (List Val)
  | [d, l, w, li, wi, .str ct, ident, extra, .atom sns, .atom isns, .atom plr] =>
    let e := encConn ct
    some [d, l, w, li, wi, .tuple [n e.1, n e.2, n 0, sns, isns, plr, n 0, n 0], ident, extra]
  | _ => none

/-- IntroductionRequestPayload.from_unpack_list (then `__init__`) -/
def introReqUnpack : List Val → Option (List Val)
  | [d, l, w, .tuple [c0, c1, sns, _, _, _, _, adv], .atom (.nat ident), extra] =>
    some [d, l, w, .atom (asBit adv), .str (decConn c0 c1), .atom (.nat (ident % 65536)), extra, .atom sns]
  | _ => none

/-- DiscoveryIntroductionRequestPayload.from_unpack_list: `introduce_to[1]`, supports_new_style is the constructor default -/
def discIntroReqUnpack : List Val → Option (List Val)
  | [.tuple [_, .bytes key], d, l, w, .tuple [c0, c1, _, _, _, _, _, adv], .atom (.nat ident), extra] =>
    some [.atom (.bytes key), d, l, w, .atom (asBit adv), .str (decConn c0 c1), .atom (.nat (ident % 65536)),
          extra, .atom (n 1)]
  | _ => none

def introRespUnpack : List Val → Option (List Val)
  | [d, l, w, li, wi, .tuple [c0, c1, _, sns, isns, plr, _, _], .atom (.nat ident), extra] =>
    some [d, l, w, li, wi, .str (decConn c0 c1), .atom (.nat (ident % 65536)), extra,
          .atom sns, .atom isns, .atom plr]
  | _ => none

/-- SimilarityResponsePayload.to_pack_list on attributes [identifier, preference_list, tb_overlap] -/
def simRespPack : List Val → Option (List Val)
  | [ident, .list prefs, .list tb] => do
    let p ← joinBytes prefs.toList
    let t ← joinTb tb.toList
    some [ident, .atom (.bytes p), .atom (.bytes t)]
  | _ => none

/-- SimilarityResponsePayload.from_unpack_list -/
def simRespUnpack : List Val → Option (List Val)
  | [.atom (.nat ident), .atom (.bytes prefs), .atom (.bytes tb)] =>
    (splitTb tb).map (fun t =>
      [.atom (.nat (ident % 65536)), bytesList (chunks 20 prefs), .list (ValList.ofList t)])
  | _ => none

def toPackL (cls : String) (a : List Val) : Option (List Val) :=
  let c := short cls
  if identityClasses.contains c || identLastClasses.contains c then some a
  else match c, a with
  | "IntroductionRequestPayload", a => introReqPack a
  | "DiscoveryIntroductionRequestPayload", a => discIntroReqPack a
  | "IntroductionResponsePayload", a => introRespPack a
  | "SimilarityRequestPayload", [ident, l, w, .str ct, .list prefs] =>
    let e := encConn ct
    (joinBytes prefs.toList).map (fun b =>
      [ident, l, w, .tuple [n e.1, n e.2, n 0, n 0, n 0, n 0, n 0, n 0], .atom (.bytes b)])
  | "SimilarityResponsePayload", a => simRespPack a
  | _, _ => none

def fromUnpackL (cls : String) (ul : List Val) : Option (List Val) :=
  let c := short cls
  if identityClasses.contains c then some ul
  else if identLastClasses.contains c then some (modLast ul)
  else match c, ul with
  | "IntroductionRequestPayload", ul => introReqUnpack ul
  | "DiscoveryIntroductionRequestPayload", ul => discIntroReqUnpack ul
  | "IntroductionResponsePayload", ul => introRespUnpack ul
  | "SimilarityRequestPayload",
      [.atom (.nat ident), l, w, .tuple [c0, c1, _, _, _, _, _, _], .atom (.bytes prefs)] =>
    some [.atom (.nat (ident % 65536)), l, w, .str (decConn c0 c1), bytesList (chunks 20 prefs)]
  | "SimilarityResponsePayload", ul => simRespUnpack ul
  | _, _ => none

/-- `identifier % 65536` applied to the natural number at position `i` of the constructor arguments -/
def modIdentAt : Nat → List Val → List Val
  | _, [] => []
  | 0, .atom (.nat k) :: r => .atom (.nat (k % 65536)) :: r
  | 0, v :: r => v :: r
  | i+1, v :: r => v :: modIdentAt i r

/-- position of `identifier` among the constructor arguments of the hand-written payloads that reduce it -/
def identPos : String → Option Nat
  | "IntroductionRequestPayload" => some 5
  | "DiscoveryIntroductionRequestPayload" => some 6
  | "IntroductionResponsePayload" => some 6
  | "PunctureRequestPayload" => some 2
  | "PuncturePayload" => some 2
  | "PingPayload" => some 0
  | "PongPayload" => some 0
  | "SimilarityRequestPayload" => some 0
  | "SimilarityResponsePayload" => some 0
  | _ => none

/-- `__init__` of a hand-written payload: constructor arguments (in signature order) → attributes (in the order used by
    `toPack` / `fromUnpack`).  The only transformations are `identifier % 65536` and, for
    DiscoveryIntroductionRequestPayload, the inherited default `supports_new_style = True` appended. -/
def reduceIdent (c : String) (args : List Val) : List Val :=
  match identPos c with
  | some i => modIdentAt i args
  | none => args

def init (cls : String) (args : List Val) : List Val :=
  if short cls == "DiscoveryIntroductionRequestPayload" then reduceIdent (short cls) args ++ [.atom (n 1)]
  else reduceIdent (short cls) args

/-- the next 8 attributes, which must be atoms (the 8 names of one `bits` format) -/
def take8 : List Val → Option (List Atom × List Val)
  | .atom b7 :: .atom b6 :: .atom b5 :: .atom b4 :: .atom b3 :: .atom b2 :: .atom b1 :: .atom b0 :: r =>
    some ([b7, b6, b5, b4, b3, b2, b1, b0], r)
  | _ => none

/-- VariablePayload.to_pack_list (interpreted or compiled, no hooks) on the attribute values in `names` order:
    one pack-list entry per format, 8 attributes per `bits` -/
def vpPack : FmtList → List Val → Option (List Val)
  | .nil, [] => some []
  | .nil, _ :: _ => none
  | .cons f fs, a =>
    if f = .bits then
      match take8 a with
      | some (bs, r) => (vpPack fs r).map (Val.tuple bs :: ·)
      | none => none
    else
      match a with
      | v :: r => (vpPack fs r).map (v :: ·)
      | [] => none

def isOld (cls : String) : Bool :=
  match findPayload cls with
  | some p => p.kind == "old"
  | none => false

def toPack (cls : String) (attrs : ValList) : Option ValList :=
  match findPayload cls with
  | some p =>
    if p.kind == "old" then (toPackL cls attrs.toList).map vl
    else (vpPack p.fmts attrs.toList).map vl
  | none => none

def fromUnpack (cls : String) (ul : ValList) : Option ValList :=
  match findPayload cls with
  | some p =>
    if p.kind == "old" then (fromUnpackL cls ul.toList).map vl
    else some (vl (flatten p.fmts ul))
  | none => none

/-! ### CellPayload -/

/-- `to_bin(prefix)`: prefix ++ msg_id 0 ++ pack("!I??", circuit_id, plaintext, relay_early) ++ message -/
def cellToBin (pre : Bytes) (cid : Nat) (plaintext relayEarly : Bool) (msg : Bytes) : Except Err Bytes := do
  let c ← packUint 4 cid
  .ok (pre ++ [0] ++ (c ++ [if plaintext then 1 else 0] ++ [if relayEarly then 1 else 0]) ++ msg)

/-- `from_bin(packet)`: unpack_from("!I??", packet, 23), message = packet[29:] -/
def cellFromBin (pkt : Bytes) : Except Err (Nat × Bool × Bool × Bytes) := do
  let b ← readAt pkt 23 6
  .ok (beDec (b.take 4), beDec ((b.drop 4).take 1) != 0, beDec ((b.drop 5).take 1) != 0, pkt.drop 29)

/-- `unwrap(prefix)`: prefix ++ message[0:1] ++ pack("!I", circuit_id) ++ message[1:] -/
def cellUnwrap (pre : Bytes) (cid : Nat) (msg : Bytes) : Except Err Bytes := do
  let c ← packUint 4 cid
  .ok (pre ++ msg.take 1 ++ c ++ msg.drop 1)

end Ipv8.C02.Old
