/-
  Shared serializer model (M-Bytes) — core Lean only, executable, structurally recursive (so `decide` evaluates it).
  Owner: C02.  Imported by C03 / C20: keep the API stable
      Bytes, Err, SField, AKind, Atom, Addr, Fmt/FmtList, Val/ValList,
      pack / packMany / packList, unpackAt / manyAt / unpackListAt, unpackPayloadsAt.

  Mirrors ipv8/messaging/serialization.py (Packer subclasses + Serializer.pack_serializable / unpack_serializable /
  unpack_serializable_list), ipv8/messaging/anonymization/payload.py (Flags) and ipv8/dht/payload.py (NodePacker)
  as they are in the working tree, quirks included:

    * every `unpack` returns the new ABSOLUTE offset;
    * `struct.unpack_from(fmt, data, off)` fails (struct.error) iff `off + size > len(data)`  → `readAt`;
    * Python slices `data[a:b]` never fail, they truncate                                     → `pySlice`;
      VarLen / VarLenUtf8 / NestedPayload / DefaultArray check `offset + declared length <= len(data)` before slicing
      (PackError otherwise)                                                                      → `sliceChecked`;
      Address (domain host) slices unchecked; the following `unpack_from` of the port bounds it; NodePacker goes through
      `Serializer.unpack("varlenH")`, i.e. VarLen.unpack with its bounds check;
    * NestedPayload.unpack ignores the inner end offset (trailing bytes inside the declared size are dropped);
    * `struct.pack` raises on out-of-range integers and on a wrong argument count; "Ns" pads with NULs / truncates;
    * Raw.unpack returns `len(data)` and `data[offset:]`.

  Values (`Val`) are what the packers take / append to `unpack_list`:
    DefaultStruct with one field → `atom`, with several → `tuple` (pack takes the fields as *args);
    Bits → `tuple` of 8 (`nat 0/1` on decode; any truthy atom on encode; the Serializer splices these 8 into the
    unpack list — flattening is done by the payload layer, see `Ipv8.C02.flatten`);
    text (`str`, domain host names) is carried as its UTF-8 encoding, `decode()` is the validity check `utf8Valid`;
    floats are carried as their IEEE-754 big-endian bit pattern (`Atom.float`), conversion is CPython's (trusted);
    IP addresses are carried in binary form (`Addr.v4` 4 bytes / `Addr.v6` 16 bytes), `inet_pton/ntop` are trusted.
-/
import Ipv8.Base.Proto

namespace Ipv8.C02
open Ipv8

/-! ### errors -/

inductive Err where
  | short    -- struct.error: buffer too small for unpack_from
  | range    -- struct.error: integer out of range for the format / wrong number of items
  | type     -- argument of the wrong shape for this packer (TypeError / OSError / AttributeError …)
  | addr     -- PackError: unexpected / unknown address type
  | utf8     -- UnicodeDecodeError
  | value    -- ValueError (array.frombytes: length not a multiple of the item size)
  | extra    -- PackError: unpack_serializable_list(consume_all=True) found a remainder
deriving Repr, DecidableEq, Inhabited

instance {ε α} [DecidableEq ε] [DecidableEq α] : DecidableEq (Except ε α)
  | .ok a, .ok b => if h : a = b then isTrue (by rw [h]) else isFalse (by intro h'; cases h'; exact h rfl)
  | .error a, .error b => if h : a = b then isTrue (by rw [h]) else isFalse (by intro h'; cases h'; exact h rfl)
  | .ok _, .error _ => isFalse (by intro h; cases h)
  | .error _, .ok _ => isFalse (by intro h; cases h)

/-! ### bytes, big-endian integers, Python slices -/

/-- big-endian encoding of `n mod 256^w` in exactly `w` bytes -/
def beEnc : Nat → Nat → Bytes
  | 0, _ => []
  | w+1, n => beEnc w (n / 256) ++ [UInt8.ofNat (n % 256)]

def beDecAux : Bytes → Nat → Nat
  | [], acc => acc
  | b :: bs, acc => beDecAux bs (acc * 256 + b.toNat)

def beDec (bs : Bytes) : Nat := beDecAux bs 0

/-- `data[a:b]` for non-negative `a`, `b` -/
def pySlice (d : Bytes) (a b : Nat) : Bytes := (d.drop a).take (b - a)

/-- the bytes `struct.unpack_from` reads: `w` bytes at `off`, or struct.error -/
def readAt (d : Bytes) (off w : Nat) : Except Err Bytes :=
  if off + w ≤ d.length then .ok ((d.drop off).take w) else .error .short

/-- `data[off : off + n]` guarded by the bounds check `off + n <= len(data)` (PackError otherwise) that
    VarLen / VarLenUtf8 / NestedPayload / DefaultArray perform before slicing -/
def sliceChecked (d : Bytes) (off n : Nat) : Except Err Bytes :=
  if off + n ≤ d.length then .ok ((d.drop off).take n) else .error .short

/-- unsigned big-endian integer of width `w` at `off` -/
def readUint (d : Bytes) (off w : Nat) : Except Err Nat :=
  match readAt d off w with
  | .ok b => .ok (beDec b)
  | .error e => .error e

/-- `struct.pack(">B/H/I/Q", n)` -/
def packUint (w n : Nat) : Except Err Bytes :=
  if n < 256 ^ w then .ok (beEnc w n) else .error .range

/-- "Ns": pad with NUL bytes / truncate to exactly `n` bytes -/
def fixedPad (n : Nat) (b : Bytes) : Bytes := (b ++ List.replicate n 0).take n

/-- two's complement -/
def sintEnc (w : Nat) (i : Int) : Nat := (i % (256 ^ w : Nat)).toNat
def sintDec (w : Nat) (n : Nat) : Int :=
  if 2 * n < 256 ^ w then (n : Int) else (n : Int) - (256 ^ w : Nat)
def sintInRange (w : Nat) (i : Int) : Bool :=
  decide (-(256 ^ w : Nat) ≤ 2 * i) && decide (2 * i < (256 ^ w : Nat))

/-! ### UTF-8 validity (what `bytes.decode()` accepts: no overlongs, no surrogates, ≤ U+10FFFF) -/

def isCont (b : UInt8) : Bool := 0x80 ≤ b.toNat && b.toNat ≤ 0xBF

def utf8Valid : Bytes → Bool
  | [] => true
  | b0 :: rest =>
    let n := b0.toNat
    if n < 0x80 then utf8Valid rest
    else if 0xC2 ≤ n && n ≤ 0xDF then
      match rest with
      | b1 :: r => isCont b1 && utf8Valid r
      | _ => false
    else if 0xE0 ≤ n && n ≤ 0xEF then
      match rest with
      | b1 :: b2 :: r =>
        let lo := if n == 0xE0 then 0xA0 else 0x80
        let hi := if n == 0xED then 0x9F else 0xBF
        (lo ≤ b1.toNat && b1.toNat ≤ hi) && isCont b2 && utf8Valid r
      | _ => false
    else if 0xF0 ≤ n && n ≤ 0xF4 then
      match rest with
      | b1 :: b2 :: b3 :: r =>
        let lo := if n == 0xF0 then 0x90 else 0x80
        let hi := if n == 0xF4 then 0x8F else 0xBF
        (lo ≤ b1.toNat && b1.toNat ≤ hi) && isCont b2 && isCont b3 && utf8Valid r
      | _ => false
    else false

/-! ### formats and values -/

/-- one code of a `struct` format string (always big-endian, ">") -/
inductive SField where
  | uint (w : Nat)      -- B H I L Q
  | sint (w : Nat)      -- l q
  | bool                -- ?
  | char                -- c
  | fixed (n : Nat)     -- Ns
  | float (w : Nat)     -- f d
deriving Repr, DecidableEq, Inhabited

def SField.size : SField → Nat
  | .uint w => w | .sint w => w | .bool => 1 | .char => 1 | .fixed n => n | .float w => w

/-- element kind of `DefaultArray` -/
inductive AKind where
  | bool   -- "?" (stored as "B")
  | q      -- signed 64 bit
  | d      -- double
deriving Repr, DecidableEq, Inhabited

def AKind.size : AKind → Nat
  | .bool => 1 | .q => 8 | .d => 8

inductive Atom where
  | nat (n : Nat)
  | int (i : Int)
  | bool (b : Bool)
  | bytes (b : Bytes)
  | float (bits : Bytes)
deriving Repr, DecidableEq, Inhabited

inductive Addr where
  | v4 (ip : Bytes) (port : Nat)
  | v6 (ip : Bytes) (port : Nat)
  | domain (host : Bytes) (port : Nat)
deriving Repr, DecidableEq, Inhabited

mutual
inductive Fmt where
  | struct (fs : List SField)              -- DefaultStruct(">…")
  | bits                                   -- Bits
  | ipv4                                   -- IPv4
  | address (ipOnly : Bool)                -- Address(ip_only)
  | raw                                    -- Raw
  | varlen (lenW base : Nat)               -- VarLen(">B/H/I", base)
  | varlenUtf8 (lenW base : Nat)           -- VarLenUtf8
  | listOf (lenW : Nat) (f : Fmt)          -- ListOf(packer, ">B/H/I")
  | array (lenW : Nat) (k : AKind)         -- DefaultArray(fmt, length fmt)
  | nested (fs : FmtList)                  -- NestedPayload, applied to a class with this format list
  | flags (w : Nat)                        -- anonymization Flags(">B/H/I")
  | node                                   -- dht NodePacker
inductive FmtList where
  | nil
  | cons (f : Fmt) (fs : FmtList)
end

mutual
inductive Val where
  | atom (a : Atom)
  | tuple (as : List Atom)
  | addr (a : Addr)
  | str (utf8 : Bytes)
  | list (vs : ValList)
  | arr (as : List Atom)
  | record (vs : ValList)
  | nats (l : List Nat)
  | node (a : Addr) (key : Bytes)
inductive ValList where
  | nil
  | cons (v : Val) (vs : ValList)
end

deriving instance DecidableEq for Fmt, FmtList
deriving instance DecidableEq for Val, ValList
deriving instance Repr for Fmt, FmtList
deriving instance Repr for Val, ValList
instance : Inhabited Fmt := ⟨.raw⟩
instance : Inhabited Val := ⟨.tuple []⟩

def FmtList.ofList : List Fmt → FmtList
  | [] => .nil
  | f :: fs => .cons f (FmtList.ofList fs)
def FmtList.toList : FmtList → List Fmt
  | .nil => []
  | .cons f fs => f :: fs.toList
def ValList.ofList : List Val → ValList
  | [] => .nil
  | v :: vs => .cons v (ValList.ofList vs)
def ValList.toList : ValList → List Val
  | .nil => []
  | .cons v vs => v :: vs.toList
def ValList.length : ValList → Nat
  | .nil => 0
  | .cons _ vs => vs.length + 1

/-! ### struct fields -/

/-- Python truthiness of an atom (`if x:`) -/
def truthy : Atom → Bool
  | .nat n => n != 0
  | .int i => i != 0
  | .bool b => b
  | .bytes b => !b.isEmpty
  | .float _ => true   -- never used as a bit by shipped code; 0.0 would be falsy in Python

def packField : SField → Atom → Except Err Bytes
  | .uint w, .nat n => packUint w n
  | .sint w, .int i => if sintInRange w i then .ok (beEnc w (sintEnc w i)) else .error .range
  | .bool, a => .ok [if truthy a then 1 else 0]          -- struct "?" packs the truth value of ANY object
  | .char, .bytes b => if b.length = 1 then .ok b else .error .range
  | .fixed n, .bytes b => .ok (fixedPad n b)
  | .float w, .float bits => if bits.length = w then .ok bits else .error .type
  | _, _ => .error .type

def packFields : List SField → List Atom → Except Err Bytes
  | [], [] => .ok []
  | f :: fs, a :: as => do
    let x ← packField f a
    let y ← packFields fs as
    .ok (x ++ y)
  | _, _ => .error .range

def decodeField : SField → Bytes → Atom
  | .uint _, b => .nat (beDec b)
  | .sint w, b => .int (sintDec w (beDec b))
  | .bool, b => .bool (beDec b != 0)
  | .char, b => .bytes b
  | .fixed _, b => .bytes b
  | .float _, b => .float b

/-- decode consecutive fields from a buffer that is known to be long enough -/
def decodeFields : List SField → Bytes → List Atom
  | [], _ => []
  | f :: fs, b => decodeField f (b.take f.size) :: decodeFields fs (b.drop f.size)

def structSize (fs : List SField) : Nat := (fs.map SField.size).sum

/-! ### bits -/


def bitsByte : List Atom → Nat
  | [b7, b6, b5, b4, b3, b2, b1, b0] =>
    (if truthy b7 then 0x80 else 0) + (if truthy b6 then 0x40 else 0) + (if truthy b5 then 0x20 else 0) +
    (if truthy b4 then 0x10 else 0) + (if truthy b3 then 0x08 else 0) + (if truthy b2 then 0x04 else 0) +
    (if truthy b1 then 0x02 else 0) + (if truthy b0 then 0x01 else 0)
  | _ => 0

def bitAt (n k : Nat) : Atom := .nat (n / 2 ^ k % 2)

def bitsOfByte (n : Nat) : List Atom :=
  [bitAt n 7, bitAt n 6, bitAt n 5, bitAt n 4, bitAt n 3, bitAt n 2, bitAt n 1, bitAt n 0]

/-! ### addresses -/

def packAddress (ipOnly : Bool) : Addr → Except Err Bytes
  | .v4 ip port => do
    let p ← packUint 2 port
    .ok ([1] ++ fixedPad 4 ip ++ p)
  | .v6 ip port => do
    let p ← packUint 2 port
    .ok ([3] ++ fixedPad 16 ip ++ p)
  | .domain host port =>
    if ipOnly then .error .addr else do
      let l ← packUint 2 host.length
      let p ← packUint 2 port
      .ok ([2] ++ l ++ host ++ p)

def unpackAddressAt (ipOnly : Bool) (d : Bytes) (off : Nat) : Except Err (Addr × Nat) := do
  let t ← readUint d off 1
  if t = 1 then
    let ip ← readAt d (off + 1) 4
    let port ← readUint d (off + 5) 2
    .ok (.v4 ip port, off + 7)
  else if t = 3 then
    let ip ← readAt d (off + 1) 16
    let port ← readUint d (off + 17) 2
    .ok (.v6 ip port, off + 19)
  else if !ipOnly && t = 2 then
    let len ← readUint d (off + 1) 2
    let host := pySlice d (off + 3) (off + 3 + len)
    if utf8Valid host then
      let port ← readUint d (off + 3 + len) 2
      .ok (.domain host port, off + 5 + len)
    else .error .utf8
  else .error .addr

/-! ### flags (anonymization/payload.py) -/

def orAll : List Nat → Nat
  | [] => 0
  | x :: xs => x ||| orAll xs

/-- `list(filter(None, [number & (2 ** i) for i in range(size * 8)]))` -/
def flagsDecode (w n : Nat) : List Nat :=
  ((List.range (8 * w)).map (fun i => n &&& 2 ^ i)).filter (fun x => x != 0)

/-! ### arrays -/

def packElem : AKind → Atom → Except Err Bytes
  | .bool, .bool b => .ok [if b then 1 else 0]
  | .bool, .nat n => packUint 1 n              -- array("B", …) accepts any int in 0..255
  | .q, .int i => if sintInRange 8 i then .ok (beEnc 8 (sintEnc 8 i)) else .error .range
  | .d, .float bits => if bits.length = 8 then .ok bits else .error .type
  | _, _ => .error .type

def packElems (k : AKind) : List Atom → Except Err Bytes
  | [] => .ok []
  | a :: as => do
    let x ← packElem k a
    let y ← packElems k as
    .ok (x ++ y)

def decodeElem : AKind → Bytes → Atom
  | .bool, b => .bool (beDec b != 0)
  | .q, b => .int (sintDec 8 (beDec b))
  | .d, b => .float b

/-- split a buffer whose length is a multiple of the item size -/
def decodeElems (k : AKind) : Nat → Bytes → List Atom
  | 0, _ => []
  | n+1, b => decodeElem k (b.take k.size) :: decodeElems k n (b.drop k.size)

/-! ### pack (structural on the value) -/

mutual
def pack : Fmt → Val → Except Err Bytes
  | .struct fs, .atom a => packFields fs [a]       -- `packer.pack(x)`: struct.error unless there is exactly one field
  | .struct fs, .tuple as => packFields fs as      -- `packer.pack(*xs)`
  | .bits, .tuple as =>      -- Bits.pack(*data) reads data[0..7]: fewer raise IndexError, extra arguments are ignored
    if 8 ≤ as.length then .ok [UInt8.ofNat (bitsByte (as.take 8))] else .error .type
  | .ipv4, .addr (.v4 ip port) => do
    let p ← packUint 2 port
    .ok (fixedPad 4 ip ++ p)
  | .address ipOnly, .addr a => packAddress ipOnly a
  | .raw, .atom (.bytes b) => .ok b
  | .varlen lw base, .atom (.bytes b) => do
    let l ← packUint lw (b.length / base)
    .ok (l ++ b)
  | .varlenUtf8 lw base, .str b => do
    let l ← packUint lw (b.length / base)
    .ok (l ++ b)
  | .listOf lw f, .list vs => do
    let l ← packUint lw vs.length
    let body ← packMany f vs
    .ok (l ++ body)
  | .array lw k, .arr as => do
    let l ← packUint lw as.length
    let body ← packElems k as
    .ok (l ++ body)
  | .nested fs, .record vs => do
    let body ← packList fs vs
    let l ← packUint 2 body.length
    .ok (l ++ body)
  | .flags w, .nats l => packUint w (orAll l)
  | .node, .node a key => do
    let x ← packAddress true a
    let l ← packUint 2 key.length
    .ok (x ++ (l ++ key))
  | _, _ => .error .type
def packMany : Fmt → ValList → Except Err Bytes
  | _, .nil => .ok []
  | f, .cons v vs => do
    let a ← pack f v
    let b ← packMany f vs
    .ok (a ++ b)
def packList : FmtList → ValList → Except Err Bytes
  | .nil, .nil => .ok []
  | .cons f fs, .cons v vs => do
    let a ← pack f v
    let b ← packList fs vs
    .ok (a ++ b)
  | _, _ => .error .type
end

/-! ### unpack (structural on the format; absolute offsets) -/

/-- the `for _ in range(length)` loop of ListOf.unpack over an element decoder -/
def manyAt (u : Bytes → Nat → Except Err (Val × Nat)) : Nat → Bytes → Nat → Except Err (ValList × Nat)
  | 0, _, off => .ok (.nil, off)
  | k+1, d, off => do
    let (v, o1) ← u d off
    let (vs, o2) ← manyAt u k d o1
    .ok (.cons v vs, o2)

mutual
def unpackAt : Fmt → Bytes → Nat → Except Err (Val × Nat)
  | .struct fs, d, off => do
    let b ← readAt d off (structSize fs)
    match decodeFields fs b with
    | [a] => .ok (.atom a, off + structSize fs)
    | as => .ok (.tuple as, off + structSize fs)
  | .bits, d, off => do
    let n ← readUint d off 1
    .ok (.tuple (bitsOfByte n), off + 1)
  | .ipv4, d, off => do
    let ip ← readAt d off 4
    let port ← readUint d (off + 4) 2
    .ok (.addr (.v4 ip port), off + 6)
  | .address ipOnly, d, off => do
    let (a, o) ← unpackAddressAt ipOnly d off
    .ok (.addr a, o)
  | .raw, d, off => .ok (.atom (.bytes (d.drop off)), d.length)
  | .varlen lw base, d, off => do
    let n ← readUint d off lw
    let s ← sliceChecked d (off + lw) (n * base)
    .ok (.atom (.bytes s), off + lw + n * base)
  | .varlenUtf8 lw base, d, off => do
    let n ← readUint d off lw
    let s ← sliceChecked d (off + lw) (n * base)
    if utf8Valid s then .ok (.str s, off + lw + n * base) else .error .utf8
  | .listOf lw f, d, off => do
    let n ← readUint d off lw
    let (vs, o) ← manyAt (unpackAt f) n d (off + lw)
    .ok (.list vs, o)
  | .array lw k, d, off => do
    let n ← readUint d off lw
    let s ← sliceChecked d (off + lw) (n * k.size)
    .ok (.arr (decodeElems k n s), off + lw + n * k.size)
  | .nested fs, d, off => do
    let n ← readUint d off 2
    let s ← sliceChecked d (off + 2) n
    let (vs, _) ← unpackListAt fs s 0
    .ok (.record vs, off + 2 + n)
  | .flags w, d, off => do
    let n ← readUint d off w
    .ok (.nats (flagsDecode w n), off + w)
  | .node, d, off => do
    let (a, o1) ← unpackAddressAt true d off
    let n ← readUint d o1 2
    let key ← sliceChecked d (o1 + 2) n
    .ok (.node a key, o1 + 2 + n)
def unpackListAt : FmtList → Bytes → Nat → Except Err (ValList × Nat)
  | .nil, _, off => .ok (.nil, off)
  | .cons f fs, d, off => do
    let (v, o1) ← unpackAt f d off
    let (vs, o2) ← unpackListAt fs d o1
    .ok (.cons v vs, o2)
end

/-- ListOf's loop specialised to a format (kept for API compatibility with the design text) -/
def unpackManyAt (f : Fmt) (k : Nat) (d : Bytes) (off : Nat) : Except Err (ValList × Nat) :=
  manyAt (unpackAt f) k d off

/-! ### Serializer.unpack_serializable_list -/

/-- decode several payloads one after the other; with `consumeAll` a remainder is an error, otherwise it is returned -/
def unpackPayloadsAt : List FmtList → Bytes → Nat → Bool → Except Err (List ValList × Bytes)
  | [], d, off, consumeAll =>
    let rem := d.drop off
    if consumeAll then (if rem.isEmpty then .ok ([], []) else .error .extra) else .ok ([], rem)
  | fs :: rest, d, off, consumeAll => do
    let (vs, o) ← unpackListAt fs d off
    let (more, rem) ← unpackPayloadsAt rest d o consumeAll
    .ok (vs :: more, rem)

/-- Serializer.pack_serializable_list -/
def packPayloads : List (FmtList × ValList) → Except Err Bytes
  | [] => .ok []
  | (fs, vs) :: rest => do
    let a ← packList fs vs
    let b ← packPayloads rest
    .ok (a ++ b)

/-! ### the Serializer's splice of `bits` into the unpack list (8 names per `bits`) -/

def flatten : FmtList → ValList → List Val
  | .cons .bits fs, .cons (.tuple as) vs => as.map Val.atom ++ flatten fs vs
  | .cons _ fs, .cons v vs => v :: flatten fs vs
  | _, _ => []

/-- number of `names` a VariablePayload needs for this format list -/
def nameCount : FmtList → Nat
  | .nil => 0
  | .cons .bits fs => 8 + nameCount fs
  | .cons _ fs => 1 + nameCount fs

end Ipv8.C02
