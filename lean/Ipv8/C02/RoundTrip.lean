/-
  Round trip of the serializer model at an arbitrary offset: helper lemmas and the mutual induction.
-/
import Ipv8.C02.Lemmas

namespace Ipv8.C02
open Ipv8

theorem address_rt (ipOnly : Bool) (a : Addr) (b p q : Bytes)
    (h : packAddress ipOnly a = .ok b) (hw : wfAddr a = true) :
    unpackAddressAt ipOnly (p ++ (b ++ q)) p.length = .ok (a, p.length + b.length) := by
  cases a with
  | v4 ip port =>
    simp only [packAddress] at h
    obtain ⟨pt, hpt, h1⟩ := bind_ok h
    cases h1
    obtain ⟨rfl, hport⟩ := packUint_ok hpt
    simp only [wfAddr, beq_iff_eq] at hw
    have hip : fixedPad 4 ip = ip := by rw [← hw]; exact fixedPad_self ip
    rw [hip]
    generalize hd : p ++ (([1] ++ ip ++ beEnc 2 port) ++ q) = d
    have e0 : readUint d p.length 1 = .ok 1 :=
      readByte_at (l := p) (r := ip ++ beEnc 2 port ++ q) 1 (by rw [← hd]; simp) rfl
    have e1 : readAt d (p.length + 1) 4 = .ok ip :=
      readAt_at (l := p ++ [1]) (r := beEnc 2 port ++ q) (by rw [← hd]; simp) (by simp) hw.symm
    have e2 : readUint d (p.length + 5) 2 = .ok port :=
      readUint_at (l := p ++ [1] ++ ip) (r := q) (by rw [← hd]; simp) (by simp [hw]) hport
    simp [unpackAddressAt, e0, e1, e2, bind, Except.bind, beEnc_length, hw]
    try omega
  | v6 ip port =>
    simp only [packAddress] at h
    obtain ⟨pt, hpt, h1⟩ := bind_ok h
    cases h1
    obtain ⟨rfl, hport⟩ := packUint_ok hpt
    simp only [wfAddr, beq_iff_eq] at hw
    have hip : fixedPad 16 ip = ip := by rw [← hw]; exact fixedPad_self ip
    rw [hip]
    generalize hd : p ++ (([3] ++ ip ++ beEnc 2 port) ++ q) = d
    have e0 : readUint d p.length 1 = .ok 3 :=
      readByte_at (l := p) (r := ip ++ beEnc 2 port ++ q) 3 (by rw [← hd]; simp) rfl
    have e1 : readAt d (p.length + 1) 16 = .ok ip :=
      readAt_at (l := p ++ [3]) (r := beEnc 2 port ++ q) (by rw [← hd]; simp) (by simp) hw.symm
    have e2 : readUint d (p.length + 17) 2 = .ok port :=
      readUint_at (l := p ++ [3] ++ ip) (r := q) (by rw [← hd]; simp) (by simp [hw]) hport
    simp [unpackAddressAt, e0, e1, e2, bind, Except.bind, beEnc_length, hw]
    try omega
  | domain host port =>
    simp only [packAddress] at h
    split at h
    · cases h
    · rename_i hio
      obtain ⟨l, hl, h1⟩ := bind_ok h
      obtain ⟨pt, hpt, h2⟩ := bind_ok h1
      cases h2
      obtain ⟨rfl, hlen⟩ := packUint_ok hl
      obtain ⟨rfl, hport⟩ := packUint_ok hpt
      simp only [wfAddr] at hw
      generalize hd : p ++ (([2] ++ beEnc 2 host.length ++ host ++ beEnc 2 port) ++ q) = d
      have e0 : readUint d p.length 1 = .ok 2 :=
        readByte_at (l := p) (r := beEnc 2 host.length ++ host ++ beEnc 2 port ++ q) 2 (by rw [← hd]; simp) rfl
      have e1 : readUint d (p.length + 1) 2 = .ok host.length :=
        readUint_at (l := p ++ [2]) (r := host ++ beEnc 2 port ++ q) (by rw [← hd]; simp) (by simp) hlen
      have e2 : pySlice d (p.length + 3) (p.length + 3 + host.length) = host :=
        pySlice_at (l := p ++ [2] ++ beEnc 2 host.length) (r := beEnc 2 port ++ q) (by rw [← hd]; simp)
          (by simp [beEnc_length]) (by simp [beEnc_length])
      have e3 : readUint d (p.length + 3 + host.length) 2 = .ok port :=
        readUint_at (l := p ++ [2] ++ beEnc 2 host.length ++ host) (r := q) (by rw [← hd]; simp)
          (by simp [beEnc_length]; omega) hport
      have hio' : ipOnly = false := by simpa using hio
      simp [unpackAddressAt, e0, e1, e2, e3, bind, Except.bind, beEnc_length, hw, hio']
      try omega


theorem wfList_cons {f : Fmt} {fs : FmtList} {v : Val} {vs : ValList} (h : wfList (.cons f fs) (.cons v vs) = true) :
    wf f v = true ∧ (fs = .nil ∨ endsInRaw f = false) ∧ wfList fs vs = true := by
  simp only [wfList, Bool.and_eq_true] at h
  obtain ⟨⟨h1, h2⟩, h3⟩ := h
  refine ⟨h1, ?_, h3⟩
  cases fs with
  | nil => exact Or.inl rfl
  | cons g gs => right; simpa using h2

mutual
theorem rt (f : Fmt) (v : Val) (b p q : Bytes) (h : pack f v = .ok b) (hw : wf f v = true)
    (hr : endsInRaw f = true → q = []) :
    unpackAt f (p ++ (b ++ q)) p.length = .ok (v, p.length + b.length) := by
  cases f with
  | struct fs =>
    cases v with
    | atom a =>
      simp only [pack] at h
      simp only [wf, Bool.and_eq_true, beq_iff_eq] at hw
      obtain ⟨e1, e2, e3⟩ := packFields_rt h hw.2
      have er : readAt (p ++ (b ++ q)) p.length (structSize fs) = .ok b := readAt_mid' p b q _ _ rfl e1.symm
      simp [unpackAt, er, bind, Except.bind, e2, e1]
    | tuple as =>
      simp only [pack] at h
      simp only [wf, Bool.and_eq_true, bne_iff_ne, ne_eq] at hw
      obtain ⟨e1, e2, e3⟩ := packFields_rt h hw.2
      have er : readAt (p ++ (b ++ q)) p.length (structSize fs) = .ok b := readAt_mid' p b q _ _ rfl e1.symm
      have hl : as.length ≠ 1 := by rw [e3]; exact hw.1
      simp only [unpackAt, er, bind, Except.bind, e2]
      match as, hl with
      | [], _ => simp [e1]
      | _ :: _ :: _, _ => simp [e1]
    | _ => simp [pack] at h
  | bits =>
    cases v with
    | tuple as =>
      simp only [pack] at h
      split at h
      · cases h
        simp only [wf, Bool.and_eq_true, beq_iff_eq] at hw
        obtain ⟨hl, hw⟩ := hw
        rw [List.take_of_length_le (Nat.le_of_eq hl)]
        obtain ⟨h1, h2⟩ := bits_rt hl hw
        generalize hd : p ++ ([UInt8.ofNat (bitsByte as)] ++ q) = d
        have er : readUint d p.length 1 = .ok (bitsByte as) := by
          rw [← hd, ← beEnc_one h1]; exact readUint_mid' p q _ 1 _ rfl (by simpa using h1)
        simp [unpackAt, er, bind, Except.bind, h2]
      · cases h
    | _ => simp [pack] at h
  | ipv4 =>
    cases v with
    | addr a =>
      cases a with
      | v4 ip port =>
        simp only [pack] at h
        obtain ⟨pt, hpt, h1⟩ := bind_ok h
        cases h1
        obtain ⟨rfl, hport⟩ := packUint_ok hpt
        simp only [wf, wfAddr, beq_iff_eq] at hw
        have hip : fixedPad 4 ip = ip := by rw [← hw]; exact fixedPad_self ip
        rw [hip]
        generalize hd : p ++ ((ip ++ beEnc 2 port) ++ q) = d
        have e1 : readAt d p.length 4 = .ok ip :=
          readAt_at (l := p) (r := beEnc 2 port ++ q) (by rw [← hd]; simp) rfl hw.symm
        have e2 : readUint d (p.length + 4) 2 = .ok port :=
          readUint_at (l := p ++ ip) (r := q) (by rw [← hd]; simp) (by simp [hw]) hport
        simp [unpackAt, e1, e2, bind, Except.bind, beEnc_length, hw]
        try omega
      | _ => simp [pack] at h
    | _ => simp [pack] at h
  | address ipOnly =>
    cases v with
    | addr a =>
      simp only [pack] at h
      simp only [wf] at hw
      simp [unpackAt, address_rt ipOnly a b p q h hw, bind, Except.bind]
    | _ => simp [pack] at h
  | raw =>
    cases v with
    | atom a =>
      cases a with
      | bytes x =>
        simp only [pack] at h
        cases h
        have hq : q = [] := hr rfl
        subst hq
        simp [unpackAt]
      | _ => simp [pack] at h
    | _ => simp [pack] at h
  | varlen lw base =>
    cases v with
    | atom a =>
      cases a with
      | bytes x =>
        simp only [pack] at h
        obtain ⟨l, hl, h1⟩ := bind_ok h
        cases h1
        obtain ⟨rfl, hlen⟩ := packUint_ok hl
        simp only [wf, Bool.and_eq_true, bne_iff_ne, ne_eq, beq_iff_eq] at hw
        have hmul : x.length / base * base = x.length := Nat.div_mul_cancel (Nat.dvd_of_mod_eq_zero hw.2)
        generalize hd : p ++ ((beEnc lw (x.length / base) ++ x) ++ q) = d
        have e1 : readUint d p.length lw = .ok (x.length / base) :=
          readUint_at (l := p) (r := x ++ q) (by rw [← hd]; simp) rfl hlen
        have e2 : sliceChecked d (p.length + lw) (x.length / base * base) = .ok x :=
          sliceChecked_at (l := p ++ beEnc lw (x.length / base)) (r := q) (by rw [← hd]; simp)
            (by simp [beEnc_length]) hmul
        rw [hmul] at e2
        simp [unpackAt, e1, e2, bind, Except.bind, beEnc_length, hmul]
        try omega
      | _ => simp [pack] at h
    | _ => simp [pack] at h
  | varlenUtf8 lw base =>
    cases v with
    | str x =>
      simp only [pack] at h
      obtain ⟨l, hl, h1⟩ := bind_ok h
      cases h1
      obtain ⟨rfl, hlen⟩ := packUint_ok hl
      simp only [wf, Bool.and_eq_true, bne_iff_ne, ne_eq, beq_iff_eq] at hw
      have hmul : x.length / base * base = x.length := Nat.div_mul_cancel (Nat.dvd_of_mod_eq_zero hw.1.2)
      generalize hd : p ++ ((beEnc lw (x.length / base) ++ x) ++ q) = d
      have e1 : readUint d p.length lw = .ok (x.length / base) :=
        readUint_at (l := p) (r := x ++ q) (by rw [← hd]; simp) rfl hlen
      have e2 : sliceChecked d (p.length + lw) (x.length / base * base) = .ok x :=
        sliceChecked_at (l := p ++ beEnc lw (x.length / base)) (r := q) (by rw [← hd]; simp)
          (by simp [beEnc_length]) hmul
      rw [hmul] at e2
      simp [unpackAt, e1, e2, bind, Except.bind, beEnc_length, hmul, hw.2]
      try omega
    | _ => simp [pack] at h
  | listOf lw f' =>
    cases v with
    | list vs =>
      simp only [pack] at h
      obtain ⟨l, hl, h1⟩ := bind_ok h
      obtain ⟨body, hb, h2⟩ := bind_ok h1
      cases h2
      obtain ⟨rfl, hlen⟩ := packUint_ok hl
      simp only [wf, Bool.and_eq_true, Bool.not_eq_true'] at hw
      have hm := rtMany f' vs body (p ++ beEnc lw vs.length) q hb hw.2 hw.1
      generalize hd : p ++ ((beEnc lw vs.length ++ body) ++ q) = d
      have hd' : (p ++ beEnc lw vs.length) ++ (body ++ q) = d := by rw [← hd]; simp
      rw [hd'] at hm
      have e1 : readUint d p.length lw = .ok vs.length :=
        readUint_at (l := p) (r := body ++ q) (by rw [← hd]; simp) rfl hlen
      have hoff : (p ++ beEnc lw vs.length).length = p.length + lw := by simp [beEnc_length]
      rw [hoff] at hm
      simp [unpackAt, e1, hm, bind, Except.bind, beEnc_length]
      try omega
    | _ => simp [pack] at h
  | array lw k =>
    cases v with
    | arr as =>
      simp only [pack] at h
      obtain ⟨l, hl, h1⟩ := bind_ok h
      obtain ⟨body, hb, h2⟩ := bind_ok h1
      cases h2
      obtain ⟨rfl, hlen⟩ := packUint_ok hl
      simp only [wf] at hw
      obtain ⟨e3, e4⟩ := packElems_rt hb hw
      generalize hd : p ++ ((beEnc lw as.length ++ body) ++ q) = d
      have e1 : readUint d p.length lw = .ok as.length :=
        readUint_at (l := p) (r := body ++ q) (by rw [← hd]; simp) rfl hlen
      have e2 : sliceChecked d (p.length + lw) (as.length * k.size) = .ok body :=
        sliceChecked_at (l := p ++ beEnc lw as.length) (r := q) (by rw [← hd]; simp)
          (by simp [beEnc_length]) e3.symm
      simp [unpackAt, e1, e2, e4, bind, Except.bind, beEnc_length, e3]
      try omega
    | _ => simp [pack] at h
  | nested fs =>
    cases v with
    | record vs =>
      simp only [pack] at h
      obtain ⟨body, hb, h1⟩ := bind_ok h
      obtain ⟨l, hl, h2⟩ := bind_ok h1
      cases h2
      obtain ⟨rfl, hlen⟩ := packUint_ok hl
      simp only [wf] at hw
      have hm := rtList fs vs body [] [] hb hw (fun _ => rfl)
      simp only [List.append_nil, List.nil_append, List.length_nil, Nat.zero_add] at hm
      generalize hd : p ++ ((beEnc 2 body.length ++ body) ++ q) = d
      have e1 : readUint d p.length 2 = .ok body.length :=
        readUint_at (l := p) (r := body ++ q) (by rw [← hd]; simp) rfl hlen
      have e2 : sliceChecked d (p.length + 2) body.length = .ok body :=
        sliceChecked_at (l := p ++ beEnc 2 body.length) (r := q) (by rw [← hd]; simp)
          (by simp [beEnc_length]) rfl
      simp [unpackAt, e1, e2, hm, bind, Except.bind, beEnc_length]
      try omega
    | _ => simp [pack] at h
  | flags w =>
    cases v with
    | nats l =>
      simp only [pack] at h
      obtain ⟨rfl, hn⟩ := packUint_ok h
      simp only [wf, beq_iff_eq] at hw
      have e1 : readUint (p ++ (beEnc w (orAll l) ++ q)) p.length w = .ok (orAll l) :=
        readUint_mid' p q _ w _ rfl hn
      simp [unpackAt, e1, bind, Except.bind, hw, beEnc_length]
    | _ => simp [pack] at h
  | node =>
    cases v with
    | node a key =>
      simp only [pack] at h
      obtain ⟨x, hx, h1⟩ := bind_ok h
      obtain ⟨l, hl, h2⟩ := bind_ok h1
      cases h2
      obtain ⟨rfl, hlen⟩ := packUint_ok hl
      simp only [wf] at hw
      have ea := address_rt true a x p (beEnc 2 key.length ++ key ++ q) hx hw
      generalize hd : p ++ ((x ++ (beEnc 2 key.length ++ key)) ++ q) = d
      have hd' : p ++ (x ++ (beEnc 2 key.length ++ key ++ q)) = d := by rw [← hd]; simp
      rw [hd'] at ea
      have e1 : readUint d (p.length + x.length) 2 = .ok key.length :=
        readUint_at (l := p ++ x) (r := key ++ q) (by rw [← hd]; simp) (by simp) hlen
      have e2 : sliceChecked d (p.length + x.length + 2) key.length = .ok key :=
        sliceChecked_at (l := p ++ x ++ beEnc 2 key.length) (r := q) (by rw [← hd]; simp)
          (by simp [beEnc_length]; omega) rfl
      simp [unpackAt, ea, e1, e2, bind, Except.bind, beEnc_length]
      try omega
    | _ => simp [pack] at h
theorem rtMany (f : Fmt) (vs : ValList) (b p q : Bytes) (h : packMany f vs = .ok b) (hw : wfMany f vs = true)
    (hr : endsInRaw f = false) :
    manyAt (unpackAt f) vs.length (p ++ (b ++ q)) p.length = .ok (vs, p.length + b.length) := by
  cases vs with
  | nil => simp [packMany] at h; subst h; simp [manyAt, ValList.length]
  | cons v vs' =>
    simp only [packMany] at h
    obtain ⟨a, ha, h1⟩ := bind_ok h
    obtain ⟨c, hc, h2⟩ := bind_ok h1
    cases h2
    simp only [wfMany, Bool.and_eq_true] at hw
    have e1 := rt f v a p (c ++ q) ha hw.1 (by intro hh; rw [hr] at hh; cases hh)
    have e2 := rtMany f vs' c (p ++ a) q hc hw.2 hr
    generalize hd : p ++ ((a ++ c) ++ q) = d
    have hd1 : p ++ (a ++ (c ++ q)) = d := by rw [← hd]; simp
    have hd2 : (p ++ a) ++ (c ++ q) = d := by rw [← hd]; simp
    rw [hd1] at e1
    rw [hd2] at e2
    have hoff : (p ++ a).length = p.length + a.length := by simp
    rw [hoff] at e2
    simp [manyAt, ValList.length, e1, e2, bind, Except.bind]
    try omega
theorem rtList (fs : FmtList) (vs : ValList) (b p q : Bytes) (h : packList fs vs = .ok b) (hw : wfList fs vs = true)
    (hr : endsInRawL fs = true → q = []) :
    unpackListAt fs (p ++ (b ++ q)) p.length = .ok (vs, p.length + b.length) := by
  cases fs with
  | nil =>
    cases vs with
    | nil => simp [packList] at h; subst h; simp [unpackListAt]
    | cons _ _ => simp [packList] at h
  | cons f fs' =>
    cases vs with
    | nil => simp [packList] at h
    | cons v vs' =>
      simp only [packList] at h
      obtain ⟨a, ha, h1⟩ := bind_ok h
      obtain ⟨c, hc, h2⟩ := bind_ok h1
      cases h2
      obtain ⟨w1, w2, w3⟩ := wfList_cons hw
      have hq1 : endsInRaw f = true → c ++ q = [] := by
        intro hf
        rcases w2 with rfl | hnf
        · cases vs' with
          | nil =>
            simp [packList] at hc; subst hc
            simpa using hr (by simpa [endsInRawL] using hf)
          | cons _ _ => simp [packList] at hc
        · rw [hnf] at hf; cases hf
      have hq2 : endsInRawL fs' = true → q = [] := by
        intro hf
        apply hr
        cases fs' with
        | nil => simp [endsInRawL] at hf
        | cons g gs => simpa [endsInRawL] using hf
      have e1 := rt f v a p (c ++ q) ha w1 hq1
      have e2 := rtList fs' vs' c (p ++ a) q hc w3 hq2
      generalize hd : p ++ ((a ++ c) ++ q) = d
      have hd1 : p ++ (a ++ (c ++ q)) = d := by rw [← hd]; simp
      have hd2 : (p ++ a) ++ (c ++ q) = d := by rw [← hd]; simp
      rw [hd1] at e1
      rw [hd2] at e2
      have hoff : (p ++ a).length = p.length + a.length := by simp
      rw [hoff] at e2
      simp [unpackListAt, e1, e2, bind, Except.bind]
      try omega
end

end Ipv8.C02
