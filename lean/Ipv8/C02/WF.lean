/-
  Legal values ("the type's domain") for the round-trip theorems: everything `pack` does not check itself.
  Integer ranges, list/length-prefix ranges, `c` = 1 byte, float width are enforced by `pack` (it fails otherwise),
  so they do not appear here.
-/
import Ipv8.C02.Model

namespace Ipv8.C02

def wfField : SField → Atom → Bool
  | .fixed n, .bytes b => b.length == n        -- "Ns" pads / truncates anything else
  | .bool, .bool _ => true                     -- "?" packs any truthy object but decodes to a bool
  | .bool, _ => false
  | _, _ => true

def wfFields : List SField → List Atom → Bool
  | f :: fs, a :: as => wfField f a && wfFields fs as
  | _, _ => true

/-- decoded bits are the integers 0 / 1 -/
def isBit : Atom → Bool
  | .nat 0 => true
  | .nat 1 => true
  | _ => false

def wfAddr : Addr → Bool
  | .v4 ip _ => ip.length == 4
  | .v6 ip _ => ip.length == 16
  | .domain h _ => utf8Valid h

/-- array("B") accepts ints but `?` decodes to bool -/
def wfElem : AKind → Atom → Bool
  | .bool, .bool _ => true
  | .bool, _ => false
  | _, _ => true

/-- formats that swallow the rest of the buffer -/
def endsInRaw : Fmt → Bool
  | .raw => true
  | .listOf _ f => endsInRaw f
  | _ => false

mutual
def wf : Fmt → Val → Bool
  | .struct fs, .atom a => fs.length == 1 && wfFields fs [a]
  | .struct fs, .tuple as => fs.length != 1 && wfFields fs as
  | .bits, .tuple as => as.length == 8 && as.all isBit
  | .ipv4, .addr a => wfAddr a
  | .address _, .addr a => wfAddr a
  | .varlen _ base, .atom (.bytes b) => base != 0 && b.length % base == 0
  | .varlenUtf8 _ base, .str b => base != 0 && b.length % base == 0 && utf8Valid b
  | .listOf _ f, .list vs => !endsInRaw f && wfMany f vs
  | .array _ k, .arr as => as.all (wfElem k)
  | .nested fs, .record vs => wfList fs vs
  | .flags w, .nats l => flagsDecode w (orAll l) == l     -- canonical: ascending distinct powers of two
  | .node, .node a _ => wfAddr a
  | _, _ => true
def wfMany : Fmt → ValList → Bool
  | _, .nil => true
  | f, .cons v vs => wf f v && wfMany f vs
def wfList : FmtList → ValList → Bool
  | .cons f fs, .cons v vs =>
    wf f v && (match fs with | .nil => true | _ => !endsInRaw f) && wfList fs vs   -- `raw` only last
  | _, _ => true
end

/-- the last format of the list swallows the rest of the buffer -/
def endsInRawL : FmtList → Bool
  | .nil => false
  | .cons f .nil => endsInRaw f
  | .cons _ fs => endsInRawL fs

end Ipv8.C02
