/-
  C17 — data types shared by the GENERATED file (Gen.lean) and the hand-written model (core Lean only).

  Byte strings never appear: the harness interns every 32-byte value (token hash, content hash, metadata hash),
  JSON name value and extra-metadata dict to a natural number, and every public key to a small key id.
  Signatures enter as *verification facts*: `vk` is the bit mask of the key ids under which the object's signature
  verifies (computed with the real `ECCrypto.is_valid_signature`).  This is the abstract crypto interface of this
  model: no law about it is needed for "only if" statements; the single law used (a node's own fresh signature
  verifies under its own key) is built into the model (`ownAtt`, lemma `verifies_own`).
-/
namespace Ipv8.C17

abbrev Key := Nat
abbrev Hash := Nat
abbrev NameV := Nat
abbrev Extra := Nat

/-- signature bytes: `own k mp` is the (deterministic) signature key `k` makes over the 32 bytes `mp`;
    everything else is an interned byte string -/
inductive Sig
  | ext (n : Nat)
  | own (k : Key) (mp : Hash)
deriving DecidableEq, Repr

/-- does an object with verification facts `vk` verify under key `k`? -/
def verifies (vk : Nat) (k : Key) : Bool := vk.testBit k

inductive Field | name | date | schema
deriving DecidableEq, Repr

/-- the guards of `should_sign`, in the vocabulary the translator recognises -/
inductive Guard
  /-- `metadata.token_pointer not in pseudonym.tree.elements → False` -/
  | tokenKnown
  /-- `"f" not in requested_keys or … → False` -/
  | fields (required : List Field)
  /-- `attribute_hash not in self.known_attestation_hashes → False` -/
  | registered
  /-- `pseudonym.public_key.key_to_bin() != known[h][key] → False` -/
  | subjectKey
  /-- `time() > known[h][time] + window → False` (`strict = false`: a registration exactly `window` seconds old still
      signs) or `time() >= known[h][time] + window → False` (`strict = true`) -/
  | fresh (window : Nat) (strict : Bool)
  /-- `transaction["name"] != known[h][name] → False` -/
  | nameMatches
  /-- `known[h][md] is not None and json.dumps({k: v … not in [name, date, schema]}, sort_keys=True)
      != json.dumps(known[h][md], sort_keys=True) → False` (type-exact comparison) -/
  | fixedMetadata
  /-- the loop over `get_attestations_over(metadata)` / `get_authority` -/
  | notAttestedDb
  /-- `metadata.get_hash() in self.attested_metadata → False` (in-memory record of own attestations) -/
  | notAttestedMem
deriving DecidableEq, Repr

/-- `on_request_missing` / `_fit_disclosure` constants -/
structure Handout where
  permDefault : Nat        -- `self.permissions.get(peer, <default>)`
  packetLimit : Nat        -- SAFE_UDP_PACKET_LENGTH
deriving Repr

end Ipv8.C17
