/-
  C17 model (core Lean only).  Mirrors, for ONE IdentityCommunity object:

    community.py   add_known_hash / pad_hash, should_sign (guard list GENERATED into Gen.lean),
                   _received_disclosure_for_attest, on_disclosure, on_missing_response, on_attest,
                   on_request_missing, request_attestation_advertisement / self_advertise / _fit_disclosure (token count)
    manager.py     IdentityManager.substantiate, PseudonymManager.add_metadata / add_attestation
    database.py    the Metadata and Attestations tables with their primary keys and INSERT OR IGNORE,
                   get_attestations_over, get_authority (first row with that signature), get_credentials_for
    tokentree/tree.py  gather_token, _append_chain_reaction_token, unserialize_public (the per-subject in-memory tree)

  Time is an input (milliseconds; the window constant of the age guard is in seconds).  Exceptions that escape a handler (struct.error on truncated input, json errors in
  should_sign, key_from_public_bin on garbage) are modelled as "abort": the effects so far stay, nothing more happens.
-/
import Ipv8.C17.Gen

namespace Ipv8.C17

structure Token where
  id : Hash
  prev : Hash
  content : Hash
  vk : Nat
deriving DecidableEq, Repr

/-- what `json.loads(serialized_json_dict)` yields when it is a dict: which of name/date/schema are present
    (bit 0/1/2), the interned value of "name", the interned dict of all other keys -/
structure Json where
  fields : Nat
  name : NameV
  extra : Extra
deriving DecidableEq, Repr

def Json.has (j : Json) : Field → Bool
  | .name => j.fields.testBit 0
  | .date => j.fields.testBit 1
  | .schema => j.fields.testBit 2

structure Metadata where
  id : Hash
  tokenPtr : Hash
  vk : Nat
  /-- `none`: `json.loads` or `.keys()` raises -/
  json : Option Json
deriving DecidableEq, Repr

structure Att where
  mptr : Hash
  sig : Sig
  vk : Nat
deriving DecidableEq, Repr

/-- value of `known_attestation_hashes[h]` -/
structure Reg where
  name : NameV
  t : Nat
  key : Key
  md : Option Extra
deriving DecidableEq, Repr

structure AttRow where
  subject : Key
  authority : Key
  att : Att
deriving DecidableEq, Repr

structure MdRow where
  subject : Key
  md : Metadata
deriving DecidableEq, Repr

structure Tree where
  elements : List Token := []
  unchained : List Token := []
deriving Repr

/-- a DisclosePayload / MissingResponsePayload as the receiving code reads it; the `…Abort` flags say that reading
    that part ends in an exception after the listed items -/
structure Msg where
  tokens : List Token := []
  tokAbort : Bool := false
  mds : List Metadata := []
  mdAbort : Bool := false
  atts : List (Key × Att) := []
  attAbort : Bool := false
deriving Repr

structure Node where
  me : Key
  /-- sha3(key) per key id -/
  genesis : List (Key × Hash)
  /-- `known_attestation_hashes` (a dict: insertion order, overwrite in place) -/
  known : List (Hash × Reg) := []
  trees : List (Key × Tree) := []
  mdRows : List MdRow := []
  attRows : List AttRow := []
  /-- the Tokens table: (subject key, token), PRIMARY KEY (public_key, previous_token_hash, content_hash) -/
  tokRows : List (Key × Token) := []
  /-- `attested_metadata`: hashes of the metadata this object has attested to -/
  attested : List Hash := []
  /-- `token_chain` (token hashes) -/
  chain : List Hash := []
  /-- `permissions` -/
  perms : List (Key × Nat) := []
deriving Repr

inductive Out
  | attest (to : Key) (mptr : Hash)
  | requestMissing (to : Key) (known : Nat)
  | missingResponse (to : Key) (tokens : List Hash)
  /-- DisclosePayload from request_attestation_advertisement: `count` of the tokens `cands` are sent -/
  | disclose (to : Key) (md : Hash) (cands : List Hash) (count : Nat)
deriving DecidableEq, Repr

inductive Event
  /-- add_known_hash(raw, name, key, md): `raw`/`padded` are the ids of the given hash and of its SHA-1 padded form -/
  | addKnown (rawLen : Nat) (raw padded : Hash) (name : NameV) (key : Key) (md : Option Extra)
  /-- on_disclosure / on_missing_response from peer `sender`; `order` = iteration order of `get_credentials()` -/
  | disclosure (sender : Key) (msg : Msg) (order : List Hash)
  /-- on_attest; `none` = `Attestation.unserialize` raises -/
  | attestMsg (sender : Key) (att : Option Att)
  | requestMissing (sender : Key) (known : Nat)
  /-- request_attestation_advertisement(to, …): ids of the token and metadata it created, length of the metadata field -/
  | advertise (to : Key) (tok md : Hash) (metaLen : Nat)
  | selfAdvertise (tok : Hash)
deriving Repr

/-! ### association lists with Python-dict update -/

def lookup {β : Type} (k : Nat) : List (Nat × β) → Option β
  | [] => none
  | (k', v) :: rest => if k' = k then some v else lookup k rest

def insertDict {β : Type} (k : Nat) (v : β) : List (Nat × β) → List (Nat × β)
  | [] => [(k, v)]
  | (k', v') :: rest => if k' = k then (k, v) :: rest else (k', v') :: insertDict k v rest

/-! ### token tree (tree.py) -/

def Tree.find? (t : Tree) (h : Hash) : Option Token := t.elements.find? (fun x => x.id == h)

def unchainedMax : Nat := 100

/-- `_append_chain_reaction_token`: append, take every waiting child of the token out of `unchained`, then gather
    each of them (which may wake their children in turn); fuel ≥ number of unchained tokens + 1 -/
def appendReact : Nat → Tree → Token → Tree
  | 0, t, tok => { t with elements := t.elements ++ [tok] }
  | fuel + 1, t, tok =>
    let retry := t.unchained.filter (fun x => x.prev == tok.id)
    let t1 : Tree := { elements := t.elements ++ [tok],
                       unchained := t.unchained.filter (fun x => !(x.prev == tok.id)) }
    retry.foldl (fun acc r => if (acc.find? r.id).isSome then acc else appendReact fuel acc r) t1

/-- `gather_token`: new tree and whether the result `is not None` -/
def gather (pk : Key) (gen : Hash) (t : Tree) (tok : Token) : Tree × Bool :=
  if !verifies tok.vk pk then (t, false)
  else if tok.prev != gen && (t.find? tok.prev).isNone then
    let u := if t.unchained.any (fun x => x.id == tok.id) then t.unchained else t.unchained ++ [tok]
    let u := if u.length > unchainedMax then u.drop 1 else u
    ({ t with unchained := u }, false)
  else if (t.find? tok.id).isSome then (t, true)
  else (appendReact (t.unchained.length + 1) t tok, true)

/-- `unserialize_public` without the final exception -/
def gatherAll (pk : Key) (gen : Hash) : Tree → List Token → Tree × Bool
  | t, [] => (t, true)
  | t, tok :: rest =>
    let (t1, ok) := gather pk gen t tok
    let (t2, ok2) := gatherAll pk gen t1 rest
    (t2, ok && ok2)

/-! ### database.py -/

/-- INSERT OR IGNORE INTO Metadata, PRIMARY KEY (public_key, token_pointer) -/
def insertMd (rows : List MdRow) (r : MdRow) : List MdRow :=
  if rows.any (fun x => x.subject == r.subject && x.md.tokenPtr == r.md.tokenPtr) then rows else rows ++ [r]

/-- INSERT OR IGNORE INTO Attestations, PRIMARY KEY (public_key, metadata_pointer) -/
def insertAtt (rows : List AttRow) (r : AttRow) : List AttRow :=
  if rows.any (fun x => x.subject == r.subject && x.att.mptr == r.att.mptr) then rows else rows ++ [r]

/-- `get_authority(attestation)`: authority of the first row with that signature -/
def getAuthority (rows : List AttRow) (sig : Sig) : Option Key :=
  (rows.find? (fun x => x.att.sig == sig)).map (·.authority)

/-- the "already attested" loop of should_sign: some attestation over the metadata whose authority is me -/
def attestedInDb (rows : List AttRow) (me : Key) (mptr : Hash) : Bool :=
  rows.any (fun x => x.att.mptr == mptr && getAuthority rows x.att.sig == some me)

/-! ### community.py -/

def genesisOf (s : Node) (k : Key) : Hash := (lookup k s.genesis).getD 0

/-- `PseudonymManager.__init__`: a pseudonym that is not in the manager's cache is loaded from the Tokens table
    (elements only, unverified, no waiting tokens) -/
def loadTree (s : Node) (k : Key) : Tree := { elements := (s.tokRows.filter (fun r => r.1 == k)).map (·.2) }

/-- `IdentityManager.get_pseudonym(k).tree` -/
def treeOf (s : Node) (k : Key) : Tree :=
  match lookup k s.trees with
  | some t => t
  | none => loadTree s k

/-- `store_new_tokens`: INSERT OR IGNORE every token that entered the tree during this call -/
def persistToks (rows : List (Key × Token)) (p : Key) (new : List Token) : List (Key × Token) :=
  new.foldl (fun rows t =>
    if rows.any (fun r => r.1 == p && r.2.prev == t.prev && r.2.content == t.content) then rows
    else rows ++ [(p, t)]) rows

/-- add_known_hash -/
def addKnown (now : Nat) (s : Node) (rawLen : Nat) (raw padded : Hash) (name : NameV) (key : Key)
    (md : Option Extra) : Node :=
  let h := if rawLen = Gen.padLen then padded else raw
  { s with known := insertDict h { name := name, t := now, key := key, md := md } s.known }

/-- one guard of should_sign; `true` = this guard lets the request pass -/
def guardOk (now : Nat) (s : Node) (subject : Key) (tree : Tree) (m : Metadata) (j : Json) : Guard → Bool
  | .tokenKnown => (tree.find? m.tokenPtr).isSome
  | .fields req => req.all j.has
  | .registered =>
    match tree.find? m.tokenPtr with
    | none => false
    | some tk => (lookup tk.content s.known).isSome
  | .subjectKey =>
    match (tree.find? m.tokenPtr).bind (fun tk => lookup tk.content s.known) with
    | none => false
    | some r => r.key == subject
  | .fresh window strict =>
    match (tree.find? m.tokenPtr).bind (fun tk => lookup tk.content s.known) with
    | none => false
    | some r => if strict then decide (now < r.t + window * 1000) else decide (now ≤ r.t + window * 1000)
  | .nameMatches =>
    match (tree.find? m.tokenPtr).bind (fun tk => lookup tk.content s.known) with
    | none => false
    | some r => j.has .name && j.name == r.name
  | .fixedMetadata =>
    match (tree.find? m.tokenPtr).bind (fun tk => lookup tk.content s.known) with
    | none => false
    | some r => match r.md with
      | none => true
      | some x => j.extra == x
  | .notAttestedDb => !attestedInDb s.attRows s.me m.id
  | .notAttestedMem => !s.attested.contains m.id

/-- should_sign for metadata whose JSON is a dict -/
def shouldSign (now : Nat) (s : Node) (subject : Key) (tree : Tree) (m : Metadata) (j : Json) : Bool :=
  Gen.guards.all (guardOk now s subject tree m j)

/-- the attestation this node makes over metadata `mp` -/
def ownAtt (me : Key) (mp : Hash) : Att := { mptr := mp, sig := .own me mp, vk := 1 <<< me }

/-- `PseudonymManager.add_attestation`: the attestation is stored only `if attestation.verify(public_key)`
    (`Gen.addAttestationVerifies` says whether the source still has that test) -/
def attOk (vk : Nat) (k : Key) : Bool := !Gen.addAttestationVerifies || verifies vk k

/-- `PseudonymManager.add_metadata`: stored only `if metadata.verify(self.public_key)` -/
def mdOk (vk : Nat) (k : Key) : Bool := !Gen.addMetadataVerifies || verifies vk k

/-- substantiate, part 1: `pseudonym.tree.unserialize_public(serialized_tokens)` -/
def subTokens (s : Node) (p : Key) (msg : Msg) : Node × Bool :=
  let r := gatherAll p (genesisOf s p) (treeOf s p) msg.tokens
  ({ s with trees := insertDict p r.1 s.trees }, r.2)

/-- substantiate, part 1b: `store_new_tokens(known_tokens)` — `s` is the state before the call, `s1` after part 1 -/
def subPersist (s s1 : Node) (p : Key) : Node :=
  let new := (treeOf s1 p).elements.filter (fun x => !((treeOf s p).elements.any (fun y => y.id == x.id)))
  { s1 with tokRows := persistToks s1.tokRows p new }

/-- substantiate, part 2: `add_metadata` for every metadata blob -/
def subMds (s : Node) (p : Key) (msg : Msg) : Node :=
  { s with mdRows := msg.mds.foldl (fun rows m => if mdOk m.vk p then insertMd rows ⟨p, m⟩ else rows) s.mdRows }

/-- substantiate, part 3: `add_attestation(authority, attestation)` for every (authority, attestation) pair -/
def subAtts (s : Node) (p : Key) (msg : Msg) : Node :=
  { s with attRows := (msg.atts.foldl
      (fun rows a => if attOk a.2.vk a.1 then insertAtt rows ⟨p, a.1, a.2⟩ else rows) s.attRows) }

/-- IdentityManager.substantiate: (state, correct, aborted) -/
def substantiate (s : Node) (p : Key) (msg : Msg) : Node × Bool × Bool :=
  let s1 := (subTokens s p msg).1
  let ok := (subTokens s p msg).2
  if msg.tokAbort then (s1, ok, true) else
  -- `unserialize_public` returned: the tokens that entered the tree in this call are stored
  let s1 := subPersist s s1 p
  let s2 := subMds s1 p msg
  if msg.mdAbort then (s2, ok, true) else
  (subAtts s2 p msg, ok && msg.atts.all (fun a => attOk a.2.vk a.1), msg.attAbort)

/-- create_attestation + add_attestation(own key) + attested_metadata.add -/
def recordAttest (s : Node) (p : Key) (mp : Hash) : Node :=
  { s with attRows := insertAtt s.attRows ⟨p, s.me, ownAtt s.me mp⟩,
           attested := if Gen.recordsOwn then mp :: s.attested else s.attested }

/-- the `for credential in pseudonym.get_credentials()` loop: (state, outputs, aborted) -/
def signLoop (now : Nat) (p : Key) (tree : Tree) : Node → List Metadata → Node × List Out × Bool
  | s, [] => (s, [], false)
  | s, m :: rest =>
    match m.json with
    | none => (s, [], true)
    | some j =>
      if shouldSign now s p tree m j then
        let r := signLoop now p tree (recordAttest s p m.id) rest
        (r.1, Out.attest p m.id :: r.2.1, r.2.2)
      else signLoop now p tree s rest

/-- credentials of subject `p` in the order the harness observed -/
def credentials (s : Node) (p : Key) (order : List Hash) : List Metadata :=
  order.filterMap (fun h => (s.mdRows.find? (fun r => r.subject == p && r.md.id == h)).map (·.md))

/-- hashes registered for subject `p` (`required_attributes`) -/
def requiredOf (s : Node) (p : Key) : List Hash := (s.known.filter (fun e => e.2.key == p)).map (·.1)

/-- content hashes of the subject's tree (`known_attributes`) -/
def knownAttrs (s : Node) (p : Key) : List Hash := (treeOf s p).elements.map (·.content)

/-- `if correct and any(...)`: the signing loop (`Gen.signNeedsCorrect`: the source still has `correct and`) -/
def signPhase (now : Nat) (s1 : Node) (p : Key) (order : List Hash) (correct : Bool) : Node × List Out × Bool :=
  if (correct || !Gen.signNeedsCorrect) && (requiredOf s1 p).any (fun h => (knownAttrs s1 p).contains h) then
    signLoop now p (treeOf s1 p) s1 (credentials s1 p order)
  else (s1, [], false)

/-- the trailing loop that asks for missing tokens -/
def missingRequests (s1 : Node) (p : Key) : List Out :=
  ((requiredOf s1 p).filter (fun h => !(knownAttrs s1 p).contains h)).map
    (fun _ => Out.requestMissing p (treeOf s1 p).elements.length)

/-- _received_disclosure_for_attest -/
def receivedDisclosure (now : Nat) (s : Node) (p : Key) (msg : Msg) (order : List Hash) : Node × List Out :=
  if !(s.known.any (fun e => e.2.key == p)) then (s, []) else
  let sub := substantiate s p msg
  if sub.2.2 then (sub.1, []) else
  let r := signPhase now sub.1 p order sub.2.1
  if r.2.2 then (r.1, r.2.1) else (r.1, r.2.1 ++ missingRequests sub.1 p)

/-- on_attest -/
def onAttest (s : Node) (p : Key) : Option Att → Node
  | none => s
  | some a => if attOk a.vk p then { s with attRows := insertAtt s.attRows ⟨s.me, p, a⟩ } else s

def tokenSize : Nat := 64 + 64

/-- on_request_missing -/
def onRequestMissing (s : Node) (p : Key) (known : Nat) : List Hash :=
  let permitted := s.chain.take ((lookup p s.perms).getD Gen.handout.permDefault)
  (permitted.drop known).take (Gen.handout.packetLimit / tokenSize)

/-- number of tokens `_fit_disclosure` leaves in the packet (`tokens[-0:]` is everything) -/
def fitCount (n metaLen : Nat) : Nat :=
  if metaLen + n * tokenSize > Gen.handout.packetLimit then
    let trim := (Gen.handout.packetLimit - metaLen) / tokenSize
    if trim = 0 then n else min n trim
  else n

def step (now : Nat) (s : Node) : Event → Node × List Out
  | .addKnown l raw padded name key md => (addKnown now s l raw padded name key md, [])
  | .disclosure p msg order => receivedDisclosure now s p msg order
  | .attestMsg p a => (onAttest s p a, [])
  | .requestMissing p k => (s, [Out.missingResponse p (onRequestMissing s p k)])
  | .advertise to tok md metaLen =>
    let chain := s.chain ++ [tok]
    ({ s with chain := chain, perms := insertDict to chain.length s.perms },
     [Out.disclose to md chain (fitCount chain.length metaLen)])
  | .selfAdvertise tok => ({ s with chain := s.chain ++ [tok] }, [])

def init (me : Key) (genesis : List (Key × Hash)) : Node := { me := me, genesis := genesis }

/-- A new IdentityCommunity object (with a new IdentityManager) over the database an earlier object left behind:
    the tables survive, the consent table, the record of own attestations and the permissions do not; the cached
    per-subject trees survive iff the new object is given the OLD IdentityManager (`keepTrees`); otherwise a tree is
    reloaded from the Tokens table when first needed (`treeOf`/`loadTree`);
    `chain'` is the token chain `__init__` reloads (longest root path of the stored own tree). -/
def restartOf (s : Node) (chain' : List Hash) (keepTrees : Bool := false) : Node :=
  { me := s.me, genesis := s.genesis, mdRows := s.mdRows, attRows := s.attRows, tokRows := s.tokRows, chain := chain',
    trees := if keepTrees then s.trees else [] }

/-- a history: timestamped events, oldest first; outputs carry the time of the event that produced them -/
def run (s : Node) : List (Nat × Event) → Node × List (Nat × Out)
  | [] => (s, [])
  | (t, e) :: rest =>
    let r := step t s e
    let r2 := run r.1 rest
    (r2.1, r.2.map (fun o => (t, o)) ++ r2.2)

/-- the metadata hash of an AttestPayload -/
def attestMp : Out → Option Hash
  | .attest _ mp => some mp
  | _ => none

/-- the metadata hashes a history's AttestPayloads were made over, in order of emission -/
def attestsOf (outs : List (Nat × Out)) : List Hash := outs.filterMap (fun x => attestMp x.2)

/-- `x` has an unbroken path of tokens of `els` down to the genesis hash `gen`:
    `x.prev = gen`, or `x.prev` is the id of a token of `els` that is itself rooted -/
inductive Rooted (gen : Hash) (els : List Token) : Token → Prop
  | base {x : Token} : x ∈ els → x.prev = gen → Rooted gen els x
  | step {x y : Token} : x ∈ els → y ∈ els → y.id = x.prev → Rooted gen els y → Rooted gen els x

/-- the peer an event involves: the authenticated sender of a message, or the peer the user named -/
def Event.peer : Event → Option Key
  | .disclosure p _ _ => some p
  | .attestMsg p _ => some p
  | .requestMissing p _ => some p
  | .advertise to _ _ _ => some to
  | _ => none

def Out.dest : Out → Key
  | .attest to _ => to
  | .requestMissing to _ => to
  | .missingResponse to _ => to
  | .disclose to _ _ _ => to

end Ipv8.C17
