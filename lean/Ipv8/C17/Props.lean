/-
  C17 — property theorems.  Every `theorem` in this file is an obligation of the check; helpers are in Lemmas.lean.

  The model (Model.lean) is one IdentityCommunity object driven by an arbitrary history `pre : List (Nat × Event)`
  (timestamped add_known_hash calls, incoming Disclose / MissingResponse / Attest / RequestMissing messages from honest
  or dishonest peers, request_attestation_advertisement / self_advertise calls).  `Gen.guards`, `Gen.padLen`,
  `Gen.handout`, `Gen.recordsOwn` are GENERATED from community.py on every run, so the statements below are re-proved
  against the guard list the source has now; deleting or re-wiring a guard of should_sign breaks `shouldSign_spec`.

  Signatures are verification facts (`verifies obj.vk k` = "the object's signature verifies under key k"); no law about
  them is assumed apart from `SignLaw` below (a node's own fresh signature verifies under its own key), which is used
  only for the statement that stored rows verify.  Nothing here says a signature cannot be forged.
-/
import Ipv8.C17.Lemmas

namespace Ipv8.C17

/-- the one crypto law the model builds in: the attestation a node makes verifies under its own key.
    Stated as an explicit, satisfiable bundle (`example` below), used by `stored_attestations_verify`. -/
structure SignLaw (mk : Key → Hash → Att) : Prop where
  own_verifies : ∀ k mp, verifies (mk k mp).vk k = true

example : SignLaw ownAtt := ⟨fun k _ => verifies_own k⟩

/--
  **Consent.**  For every object `s0` that starts fresh over an arbitrary valid database (`Fresh`: `init`, or any
  restart of any earlier object, see `every_lifetime_starts_fresh`), every history `pre` of that object, every time
  `now` and every next event `e`: if the node emits an AttestPayload
  for metadata `mp` to peer `p`, then
  * `e` is a disclosure (Disclose or MissingResponse message) from `p` itself,
  * `pre` contains an `add_known_hash` call at some time `t0` with `now ≤ t0 + 300`, for exactly subject key `p`, exactly
    the name the metadata carries, and (if the call fixed extra metadata) exactly the metadata's extra dict, whose
    (padded) hash is the content hash of the token the metadata points to,
  * the metadata is a JSON dict with name, date and schema, is signed by `p`, and points to a token signed by `p` that is
    in `p`'s tree,
  * every token and every (authority, attestation) pair of the triggering message verifies, and the token the metadata
    points to has an unbroken path (`Rooted`) of tokens, all verifying under `p`, down to `p`'s genesis hash
    ("the disclosed chain verifies").
-/
theorem sign_requires_consent (g : List (Key × Hash)) (s0 : Node) (hs0 : Fresh g s0) (pre : List (Nat × Event))
    (now : Nat) (e : Event) (p : Key) (mp : Hash) (h : Out.attest p mp ∈ (step now (run s0 pre).1 e).2) :
    ∃ (msg : Msg) (order : List Hash) (m : Metadata) (j : Json) (tk : Token) (t0 len raw padded : Nat)
      (md : Option Extra),
      e = .disclosure p msg order ∧
      (t0, Event.addKnown len raw padded j.name p md) ∈ pre ∧
      tk.content = (if len = Gen.padLen then padded else raw) ∧
      now ≤ t0 + 300 ∧ (md = none ∨ md = some j.extra) ∧
      m.id = mp ∧ m.json = some j ∧ j.has .name = true ∧ j.has .date = true ∧ j.has .schema = true ∧
      tk.id = m.tokenPtr ∧ verifies m.vk p = true ∧ verifies tk.vk p = true ∧
      (∀ t ∈ msg.tokens, verifies t.vk p = true) ∧ (∀ a ∈ msg.atts, verifies a.2.vk a.1 = true) ∧
      (∃ els : List Token, (∀ x ∈ els, verifies x.vk p = true) ∧ Rooted ((lookup p g).getD 0) els tk) := by
  have hok := run_ok' hs0.nodeOk pre
  obtain ⟨hroot, hgen⟩ := run_rooted' hs0.rooted hs0.genesis pre
  have hkn : KnownFrom pre (run s0 pre).1 := by
    simpa using run_knownFrom pre [] _ (fresh_knownFrom hs0)
  generalize (run s0 pre).1 = s at h hok hkn hroot hgen
  cases e with
  | addKnown l raw padded name key md => simp [step] at h
  | attestMsg q a => simp [step] at h
  | requestMissing q k => simp [step] at h
  | advertise to tok md ml => simp [step] at h
  | selfAdvertise tok => simp [step] at h
  | disclosure q msg order =>
    simp only [step] at h
    obtain ⟨hq, hcorr, hab, m, j, s', hm, hid, hj, hss, hk, _⟩ := received_attest h
    subst hq
    obtain ⟨tk, r, hfind, hlook, hkey, hage, hn, hd, hsc, hname, hmd, _⟩ := shouldSign_spec hss
    rw [hk] at hlook
    obtain ⟨x, hx, len, raw, padded, hxe, hh⟩ := hkn _ _ hlook
    obtain ⟨hmem, htid⟩ := find?_mem_elements hfind
    have hsok := substantiate_ok hok p msg
    obtain ⟨htoks, hatts⟩ := substantiate_correct hcorr hab
    have hsroot := substantiate_rooted hroot p msg
    have hg1 : genesisOf (substantiate s p msg).1 p = (lookup p g).getD 0 := by
      simp only [genesisOf]; rw [(substantiate_frame s p msg).2.2.2.2.2, hgen]
    refine ⟨msg, order, m, j, tk, r.t, len, raw, padded, r.md, rfl, ?_, hh, hage, hmd, hid, hj, hn, hd, hsc, htid,
            ?_, ?_, htoks, hatts, (treeOf (substantiate s p msg).1 p).elements, ?_, ?_⟩
    · rw [hname, ← hkey, ← hxe]; exact hx
    · exact hsok.mds _ (credentials_mem hm)
    · exact treeOf_ok hsok p tk (Or.inl hmem)
    · exact fun x hx => treeOf_ok hsok p x (Or.inl hx)
    · rw [← hg1]; exact treeOf_rooted hsroot p tk hmem

/-- non-vacuity of `sign_requires_consent`: a registration at t=100, an honest disclosure at t=400 is attested
    (exactly at the end of the window), at t=401 it is not -/
def exTok : Token := { id := 11, prev := 1, content := 7, vk := 4 }
def exMd : Metadata := { id := 12, tokenPtr := 11, vk := 4, json := some { fields := 7, name := 1, extra := 1 } }
def exMsg : Msg := { tokens := [exTok], mds := [exMd] }
def exPre : List (Nat × Event) := [(100, .addKnown 32 7 8 1 2 none)]

example : (step 400 (run (init 1 [(1, 0), (2, 1)]) exPre).1 (.disclosure 2 exMsg [12])).2 = [Out.attest 2 12] := by
  decide
example : (step 401 (run (init 1 [(1, 0), (2, 1)]) exPre).1 (.disclosure 2 exMsg [12])).2 = [] := by decide
/-- registered for subject 3 only: subject 2 gets nothing, even though it holds another valid registration -/
example : (step 150 (run (init 1 [(1, 0), (2, 1)]) [(100, .addKnown 32 7 8 1 3 none), (100, .addKnown 32 9 8 1 2 none)]).1
    (.disclosure 2 { tokens := [exTok, { id := 13, prev := 11, content := 9, vk := 4 }], mds := [exMd] } [12])).2 = [] := by
  decide

/-
  The property text says "less than five minutes earlier".  The strict statement (`now < t0 + 300` in
  `sign_requires_consent`) is NOT provable: the code rejects `time() > t + 300` ("Refuse to sign blocks older than 5
  minutes"), so a registration that is exactly 300 s old still signs.  Judged not a defect (one instant of a float clock;
  the code agrees with its own comment); the proved bound is `now ≤ t0 + 300`, and the witness for the boundary is:
-/
theorem window_is_closed_at_300 :
    Out.attest 2 12 ∈ (step (100 + 300) (run (init 1 [(1, 0), (2, 1)]) exPre).1 (.disclosure 2 exMsg [12])).2 ∧
    Out.attest 2 12 ∉ (step (100 + 301) (run (init 1 [(1, 0), (2, 1)]) exPre).1 (.disclosure 2 exMsg [12])).2 := by
  decide

/--
  **Not attested already.**  Over any history, no two AttestPayloads are made over the same metadata: the list of
  attested metadata hashes has no duplicates (whatever third-party attestations were stored in between, however often a
  disclosure is replayed).
-/
theorem attests_each_metadata_once (me : Key) (g : List (Key × Hash)) (evs : List (Nat × Event)) :
    (attestsOf (run (init me g) evs).2).Nodup :=
  (run_attested evs (init me g)).2.2

/--
  The same from ANY starting state — in particular from a state whose database rows, metadata rows and trees were left
  behind by an earlier object (a restart keeps the database, `attested_metadata` starts empty): within one object
  lifetime nothing is attested twice and nothing that the object has on record is attested again.
  NOT covered (and false in the model, see the example below): across two lifetimes.  The database guard cannot see the
  node's own earlier attestation if a third party's row for the same (subject, metadata) was stored first, so after a
  restart AND a renewed registration by the user the metadata can be attested a second time.
-/
theorem attests_each_metadata_once_per_lifetime (s : Node) (evs : List (Nat × Event)) :
    (attestsOf (run s evs).2).Nodup ∧ ∀ mp ∈ attestsOf (run s evs).2, mp ∉ s.attested :=
  ⟨(run_attested evs s).2.2, fun mp h => ((run_attested evs s).2.1 mp h).2⟩

/-- second lifetime: the database kept the third party's row (12 attested by key 3), memory is fresh, the user
    registers again, the old disclosure is replayed → attested again; with the node's own row kept instead → refused -/
example : attestsOf (run { init 1 [(1, 0), (2, 1)] with
      attRows := [⟨2, 3, { mptr := 12, sig := .ext 5, vk := 8 }⟩] }
    (exPre ++ [(120, .disclosure 2 exMsg [12])])).2 = [12] := by decide
example : attestsOf (run { init 1 [(1, 0), (2, 1)] with attRows := [⟨2, 1, ownAtt 1 12⟩] }
    (exPre ++ [(120, .disclosure 2 exMsg [12])])).2 = [] := by decide

/-- the replayed disclosure of the example above, also with a third party's attestation stored first -/
example : attestsOf (run (init 1 [(1, 0), (2, 1)])
    (exPre ++ [(110, .disclosure 2 { exMsg with atts := [(3, { mptr := 12, sig := .ext 5, vk := 8 })] } [12]),
               (120, .disclosure 2 exMsg [12]), (130, .disclosure 2 exMsg [12])])).2 = [12] := by decide

/--
  **Storing.**  An incoming AttestPayload from peer `p` adds a row only if the attestation's signature verifies under
  `p`'s key; the row is filed under the node's own pseudonym with `p` as authority.
-/
theorem store_requires_sender_signature (now : Nat) (s : Node) (p : Key) (a : Option Att) (r : AttRow)
    (h : r ∈ (step now s (.attestMsg p a)).1.attRows) :
    r ∈ s.attRows ∨ ∃ att, a = some att ∧ verifies att.vk p = true ∧ r = ⟨s.me, p, att⟩ := by
  cases a with
  | none => exact Or.inl h
  | some att =>
    simp only [step, onAttest] at h
    split at h
    · rename_i hv
      rcases mem_insertAtt h with h1 | h1
      · exact Or.inl h1
      · exact Or.inr ⟨att, rfl, hv, h1⟩
    · exact Or.inl h

example : (step 5 (init 1 []) (.attestMsg 2 (some { mptr := 9, sig := .ext 1, vk := 4 }))).1.attRows.length = 1 := by
  decide
/-- signed by key 3, sent by peer 2: not stored -/
example : (step 5 (init 1 []) (.attestMsg 2 (some { mptr := 9, sig := .ext 1, vk := 8 }))).1.attRows = [] := by decide

/--
  A disclosure from `p` adds attestation rows only for attestations that verify under the authority the message
  declares (filed under `p`), plus the node's own attestations.
-/
theorem disclosure_stores_only_verified (now : Nat) (s : Node) (p : Key) (msg : Msg) (order : List Hash) (r : AttRow)
    (h : r ∈ (step now s (.disclosure p msg order)).1.attRows) :
    r ∈ s.attRows ∨ (r.subject = p ∧ verifies r.att.vk r.authority = true ∧ (r.authority, r.att) ∈ msg.atts) ∨
      (r.subject = p ∧ r.authority = s.me ∧ verifies r.att.vk r.authority = true) :=
  received_rows h

/-- Over any history, every row of the Attestations table verifies under its authority key. -/
theorem stored_attestations_verify (g : List (Key × Hash)) (s0 : Node) (hs0 : Fresh g s0)
    (evs : List (Nat × Event)) : ∀ r ∈ (run s0 evs).1.attRows, verifies r.att.vk r.authority = true :=
  (run_ok' hs0.nodeOk evs).rows

/--
  **Token hand-out.**  In any state, the only event that makes the node emit a MissingResponsePayload is a
  RequestMissingPayload from the same peer `q`; the tokens are a sublist of the first `permissions[q]` tokens of the own
  chain (default 0), so a peer without permission entry receives none.
-/
theorem tokens_only_up_to_permission (now : Nat) (s : Node) (e : Event) (q : Key) (ts : List Hash)
    (h : Out.missingResponse q ts ∈ (step now s e).2) :
    (∃ k, e = .requestMissing q k) ∧ ts.Sublist (s.chain.take ((lookup q s.perms).getD 0)) ∧
      (lookup q s.perms = none → ts = []) := by
  cases e with
  | addKnown l raw padded name key md => simp [step] at h
  | attestMsg p a => simp [step] at h
  | advertise to tok md ml => simp [step] at h
  | selfAdvertise tok => simp [step] at h
  | disclosure p msg order =>
    simp only [step] at h
    rcases received_outs h with ⟨_, h1⟩ | ⟨_, h1⟩ <;> cases h1
  | requestMissing p k =>
    simp only [step, List.mem_singleton, Out.missingResponse.injEq] at h
    obtain ⟨hq, hts⟩ := h
    subst hq hts
    have hd : Gen.handout.permDefault = 0 := by decide
    refine ⟨⟨k, rfl⟩, ?_, ?_⟩
    · simp only [onRequestMissing, hd]
      exact List.Sublist.trans (List.take_sublist _ _) (List.drop_sublist _ _)
    · intro hn
      simp [onRequestMissing, hn, hd]

example : (step 0 { init 1 [] with chain := [5, 6, 7, 8], perms := [(2, 3)] } (.requestMissing 2 1)).2
    = [Out.missingResponse 2 [6, 7]] := by decide
example : (step 0 { init 1 [] with chain := [5, 6, 7, 8], perms := [(2, 3)] } (.requestMissing 3 0)).2
    = [Out.missingResponse 3 []] := by decide

/--
  The DisclosePayload of `request_attestation_advertisement(to, …)` carries tokens of the chain up to exactly the
  position that call opens to `to`, and is sent to `to`.
-/
theorem disclosed_tokens_within_permission (now : Nat) (s : Node) (e : Event) (q : Key) (md : Hash)
    (cands : List Hash) (n : Nat) (h : Out.disclose q md cands n ∈ (step now s e).2) :
    (∃ tok ml, e = .advertise q tok md ml) ∧
      cands = (step now s e).1.chain.take ((lookup q (step now s e).1.perms).getD 0) := by
  cases e with
  | addKnown l raw padded name key md => simp [step] at h
  | attestMsg p a => simp [step] at h
  | requestMissing p k => simp [step] at h
  | selfAdvertise tok => simp [step] at h
  | disclosure p msg order =>
    simp only [step] at h
    rcases received_outs h with ⟨_, h1⟩ | ⟨_, h1⟩ <;> cases h1
  | advertise to tok md' ml =>
    simp only [step, List.mem_singleton, Out.disclose.injEq] at h
    obtain ⟨h1, h2, h3, _⟩ := h
    subst h1 h2 h3
    exact ⟨⟨tok, ml, rfl⟩, by simp [step, lookup_insertDict]; rw [List.take_of_length_le (by simp)]⟩

/--
  **Permissions come only from the user.**  Over any history: a permission entry for peer `p` exists only if the history
  contains a `request_attestation_advertisement` call naming `p`, and it never exceeds the chain length.
-/
theorem permission_only_by_user (g : List (Key × Hash)) (s0 : Node) (hs0 : Fresh g s0) (pre : List (Nat × Event))
    (p : Key) (n : Nat) (h : lookup p (run s0 pre).1.perms = some n) :
    n ≤ (run s0 pre).1.chain.length ∧ ∃ t tok md ml, (t, Event.advertise p tok md ml) ∈ pre := by
  have := run_permsFrom pre [] _ (fresh_permsFrom hs0)
  simp only [List.nil_append] at this
  exact this p n h

/-- The own chain only grows at its end, so an index opened earlier keeps denoting the same tokens. -/
theorem chain_is_append_only (s : Node) (evs : List (Nat × Event)) : s.chain <+: (run s evs).1.chain :=
  run_chain_prefix evs s

/-- A peer the user never named in `request_attestation_advertisement` receives no token from any
    RequestMissingPayload, whatever else happened before. -/
theorem unpermitted_peer_gets_nothing (g : List (Key × Hash)) (s0 : Node) (hs0 : Fresh g s0)
    (pre : List (Nat × Event)) (now : Nat) (e : Event) (q : Key) (ts : List Hash)
    (hnever : ∀ t tok md ml, (t, Event.advertise q tok md ml) ∉ pre)
    (h : Out.missingResponse q ts ∈ (step now (run s0 pre).1 e).2) : ts = [] := by
  apply (tokens_only_up_to_permission now _ e q ts h).2.2
  cases hl : lookup q (run s0 pre).1.perms with
  | none => rfl
  | some n =>
    obtain ⟨_, t, tok, md, ml, hm⟩ := permission_only_by_user g s0 hs0 pre q n hl
    exact absurd hm (hnever t tok md ml)

example : ∃ pre : List (Nat × Event), (∀ t tok md ml, (t, Event.advertise 3 tok md ml) ∉ pre) ∧
    (run (init 1 []) pre).1.chain.length = 2 :=
  ⟨[(0, .selfAdvertise 5), (1, .advertise 2 6 7 100)], by simp, by decide⟩

/--
  **Up to the position the user opened.**  From any starting state, split any history at a `request_attestation_advertisement(p, …)` call after
  which `p` is not named again: in the final state the permission of `p` is the chain length right after that call, and
  the first that-many tokens of the final chain are exactly the chain as it was then.  With
  `tokens_only_up_to_permission`: whatever is requested later, `p` receives only tokens that existed when the user
  opened the chain to `p`.
-/
theorem permission_is_position_opened (s0 : Node) (pre post : List (Nat × Event)) (t : Nat)
    (p : Key) (tok md : Hash) (ml : Nat)
    (hpost : ∀ x ∈ post, ∀ tok' md' ml', x.2 ≠ Event.advertise p tok' md' ml') :
    lookup p (run s0 (pre ++ (t, Event.advertise p tok md ml) :: post)).1.perms
        = some (run s0 (pre ++ [(t, Event.advertise p tok md ml)])).1.chain.length ∧
    (run s0 (pre ++ (t, Event.advertise p tok md ml) :: post)).1.chain.take
        (run s0 (pre ++ [(t, Event.advertise p tok md ml)])).1.chain.length
      = (run s0 (pre ++ [(t, Event.advertise p tok md ml)])).1.chain := by
  have hsplit : pre ++ (t, Event.advertise p tok md ml) :: post = (pre ++ [(t, Event.advertise p tok md ml)]) ++ post := by
    simp
  rw [hsplit, run_append]
  simp only
  constructor
  · rw [run_perm_stable p post _ hpost, run_append]
    simp [run, step, lookup_insertDict]
  · exact (List.prefix_iff_eq_take.mp (run_chain_prefix post _)).symm

example : lookup 2 (run (init 1 []) [(0, .selfAdvertise 5), (1, .advertise 2 6 7 100), (2, .selfAdvertise 8),
    (3, .advertise 3 9 10 100)]).1.perms = some 2 := by decide

/--
  **Restarts.**  However many object lifetimes precede it (each: an arbitrary history, then a new object over the same
  database with whatever chain `__init__` reloads), an object starts `Fresh`: every theorem above that takes a `Fresh`
  start state therefore holds in every lifetime — consent has to be given again in the current lifetime, permissions
  have to be opened again, stored rows still verify.
-/
theorem every_lifetime_starts_fresh (me : Key) (g : List (Key × Hash))
    (ls : List (List (Nat × Event) × List Hash)) : Fresh g (lifetimes (init me g) ls) :=
  lifetimes_fresh ls _ (init_fresh me g)

/-
  FULL statement wanted by "it has not attested it already", across lifetimes:
      ∀ ls evs, the attest outputs of all lifetimes together contain no metadata hash twice.
  It is FALSE for the code as it is (known finding `should_sign:attested-twice-after-restart`): the only persistent
  record is the node's own Attestations row, which `INSERT OR IGNORE` drops when a third party's row for the same
  (subject, metadata) exists.  Proved part: `attests_each_metadata_once_per_lifetime`.  Witness of the negation:
  lifetime 1 attests metadata 12 (third party's attestation stored first), the object is restarted, the user registers
  the hash again, the old disclosure is replayed, and metadata 12 is attested a second time.
-/
def exThird : Msg := { exMsg with atts := [(3, { mptr := 12, sig := .ext 5, vk := 8 })] }

theorem attested_again_after_restart_witness :
    attestsOf (run (init 1 [(1, 0), (2, 1)]) (exPre ++ [(110, .disclosure 2 exThird [12])])).2 = [12] ∧
    attestsOf (run (restartOf (run (init 1 [(1, 0), (2, 1)]) (exPre ++ [(110, .disclosure 2 exThird [12])])).1 [])
      ([(200, .addKnown 32 7 8 1 2 none), (210, .disclosure 2 exThird [12])])).2 = [12] := by decide

/-- without the third party's row the node's own row survives the restart and the database guard refuses -/
example : attestsOf (run (restartOf (run (init 1 [(1, 0), (2, 1)]) (exPre ++ [(110, .disclosure 2 exMsg [12])])).1 [])
      ([(200, .addKnown 32 7 8 1 2 none), (210, .disclosure 2 exMsg [12])])).2 = [] := by decide

example : Fresh [(1, 0), (2, 1)] (init 1 [(1, 0), (2, 1)]) := init_fresh _ _

end Ipv8.C17
