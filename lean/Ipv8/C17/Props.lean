/-
  C17 — property theorems.  Every `theorem` in this file is an obligation of the check; helpers are in Lemmas.lean.

  The model (Model.lean) is one IdentityCommunity object driven by an arbitrary history `pre : List (Nat × Event)`
  (timestamped add_known_hash calls, incoming Disclose / MissingResponse / Attest / RequestMissing messages from honest
  or dishonest peers, request_attestation_advertisement / self_advertise calls).  `Gen.guards`, `Gen.padLen`,
  `Gen.handout`, `Gen.recordsOwn` are GENERATED from community.py on every run, so the statements below are re-proved
  against the guard list the source has now; deleting or re-wiring a guard of should_sign breaks `shouldSign_spec`.

  Signatures are verification facts (`verifies obj.vk k` = "the object's signature verifies under key k").  One law is
  BUILT INTO the model, not a hypothesis: the attestation a node makes itself verifies under its own key
  (`ownAtt.vk := 1 <<< me`, lemma `verifies_own`); `stored_attestations_verify` depends on it for the node's own rows.
  Nothing here says a signature cannot be forged.  Time stamps are milliseconds.
-/
import Ipv8.C17.Lemmas

namespace Ipv8.C17

/--
  **Consent.**  For every object `s0` that starts fresh over an arbitrary valid database (`Started`: `init`, or any
  restart of any earlier object with a new or with the old IdentityManager, see `every_lifetime_starts_clean`), every history `pre` of that object, every time
  `now` and every next event `e`: if the node emits an AttestPayload
  for metadata `mp` to peer `p`, then
  * `e` is a disclosure (Disclose or MissingResponse message) from `p` itself,
  * `pre` (the events BEFORE `e` in this lifetime) contains an `add_known_hash` call stamped `t0` with
    `now ≤ t0 + 300 s` — and `now < t0 + 300 s` if the generated age guard is the strict one (`Gen.windowStrict`); if the
    clock never ran backwards (`∀ x ∈ pre, x.1 ≤ now`) then `t0 ≤ now`; the call is for exactly subject key `p`, exactly
    the name the metadata carries, and (if the call fixed extra metadata) exactly the metadata's extra dict, whose
    (padded) hash is the content hash of the token the metadata points to,
  * the metadata is a JSON dict with name, date and schema, is signed by `p`, and points to a token signed by `p` that is
    in `p`'s tree,
  * every token and every (authority, attestation) pair of the triggering message verifies, and the token the metadata
    points to has an unbroken path (`Rooted`) of tokens, all verifying under `p`, down to `p`'s genesis hash `gp`
    (for subjects that have one in the table `g`) — "the disclosed chain verifies".  The path part needs the trees the
    object starts with to be rooted (`TreesRooted s0`): true for `init` and for every restart that keeps the old
    IdentityManager (`lifetimes_keep_rooted`); NOT guaranteed after a restart with a new manager, because
    `PseudonymManager.__init__` reloads the stored tokens unverified and the Tokens table can lack ancestors that arrived
    in a message whose parsing later raised.
-/
theorem sign_requires_consent (g : List (Key × Hash)) (s0 : Node) (hs0 : Started g s0) (pre : List (Nat × Event))
    (now : Nat) (e : Event) (p : Key) (mp : Hash) (h : Out.attest p mp ∈ (step now (run s0 pre).1 e).2) :
    ∃ (msg : Msg) (order : List Hash) (m : Metadata) (j : Json) (tk : Token) (t0 len raw padded : Nat)
      (md : Option Extra),
      e = .disclosure p msg order ∧
      (t0, Event.addKnown len raw padded j.name p md) ∈ pre ∧
      tk.content = (if len = Gen.padLen then padded else raw) ∧
      now ≤ t0 + 300000 ∧ (Gen.windowStrict = true → now < t0 + 300000) ∧
      ((∀ x ∈ pre, x.1 ≤ now) → t0 ≤ now) ∧ (md = none ∨ md = some j.extra) ∧
      m.id = mp ∧ m.json = some j ∧ j.has .name = true ∧ j.has .date = true ∧ j.has .schema = true ∧
      tk.id = m.tokenPtr ∧ verifies m.vk p = true ∧ verifies tk.vk p = true ∧
      (∀ t ∈ msg.tokens, verifies t.vk p = true) ∧ (∀ a ∈ msg.atts, verifies a.2.vk a.1 = true) ∧
      (TreesRooted s0 → ∃ els : List Token, (∀ x ∈ els, verifies x.vk p = true) ∧
        ∀ gp, lookup p g = some gp → Rooted gp els tk) := by
  have hok := run_ok' hs0.ok pre
  have hroot : TreesRooted s0 → TreesRooted (run s0 pre).1 := fun h => (run_rooted' h hs0.genesis pre).1
  have hgen : (run s0 pre).1.genesis = g := (run_genesis s0 pre).trans hs0.genesis
  have hkn : KnownFrom pre (run s0 pre).1 := by
    simpa using run_knownFrom pre [] _ (started_knownFrom hs0)
  generalize (run s0 pre).1 = s at h hok hkn hroot hgen
  cases e with
  | addKnown l raw padded name key md => simp [step] at h
  | attestMsg q a => simp [step] at h
  | requestMissing q k => simp [step] at h
  | advertise to tok md ml => simp [step] at h
  | selfAdvertise tok => simp [step] at h
  | disclosure q msg order =>
    simp only [step] at h
    obtain ⟨hq, hcorr, hab, m, j, s', hm, hid, hj, hss, hk, _⟩ := received_attest h
    subst hq
    obtain ⟨tk, r, hfind, hlook, hkey, ⟨hage, hstrict⟩, hn, hd, hsc, hname, hmd, _⟩ := shouldSign_spec hss
    rw [hk] at hlook
    obtain ⟨x, hx, len, raw, padded, hxe, hh⟩ := hkn _ _ hlook
    obtain ⟨hmem, htid⟩ := find?_mem_elements hfind
    have hsok := substantiate_ok hok p msg
    obtain ⟨htoks, hatts⟩ := substantiate_correct hcorr hab
    have hg1 : genesisOf (substantiate s p msg).1 p = (lookup p g).getD 0 := by
      simp only [genesisOf]; rw [(substantiate_frame s p msg).2.2.2.2.2, hgen]
    have hx' : (r.t, Event.addKnown len raw padded j.name p r.md) ∈ pre := by
      rw [hname, ← hkey, ← hxe]; exact hx
    refine ⟨msg, order, m, j, tk, r.t, len, raw, padded, r.md, rfl, hx', hh, hage, hstrict, fun hm => hm _ hx', hmd,
            hid, hj, hn, hd, hsc, htid, ?_, ?_, htoks, hatts, fun hr0 =>
              ⟨(treeOf (substantiate s p msg).1 p).elements, ?_, ?_⟩⟩
    · exact hsok.mds _ (credentials_mem hm)
    · exact treeOf_ok hsok p tk (Or.inl hmem)
    · exact fun x hx => treeOf_ok hsok p x (Or.inl hx)
    · intro gp hgp
      have : genesisOf (substantiate s p msg).1 p = gp := by rw [hg1, hgp]; rfl
      rw [← this]; exact treeOf_rooted (substantiate_rooted (hroot hr0) p msg) p tk hmem

/-- non-vacuity of `sign_requires_consent`: a registration at t=100 s, an honest disclosure at t=400 s is attested
    (exactly at the end of the window, if the generated guard is the closed one), one millisecond later it is not -/
def exTok : Token := { id := 11, prev := 1, content := 7, vk := 4 }
def exMd : Metadata := { id := 12, tokenPtr := 11, vk := 4, json := some { fields := 7, name := 1, extra := 1 } }
def exMsg : Msg := { tokens := [exTok], mds := [exMd] }
def exPre : List (Nat × Event) := [(100000, .addKnown 32 7 8 1 2 none)]

example : (step 400000 (run (init 1 [(1, 0), (2, 1)]) exPre).1 (.disclosure 2 exMsg [12])).2
    = (if Gen.windowStrict then [] else [Out.attest 2 12]) := by decide
example : (step 399999 (run (init 1 [(1, 0), (2, 1)]) exPre).1 (.disclosure 2 exMsg [12])).2 = [Out.attest 2 12] := by
  decide
example : (step 400001 (run (init 1 [(1, 0), (2, 1)]) exPre).1 (.disclosure 2 exMsg [12])).2 = [] := by decide
/-- registered for subject 3 only: subject 2 gets nothing, even though it holds another valid registration -/
example : (step 150000 (run (init 1 [(1, 0), (2, 1)]) [(100000, .addKnown 32 7 8 1 3 none), (100000, .addKnown 32 9 8 1 2 none)]).1
    (.disclosure 2 { tokens := [exTok, { id := 13, prev := 11, content := 9, vk := 4 }], mds := [exMd] } [12])).2 = [] := by
  decide

/-
  "less than five minutes earlier": `sign_requires_consent` proves `now ≤ t0 + 300 s` unconditionally and the strict
  `now < t0 + 300 s` under `Gen.windowStrict = true`, i.e. when the source's age guard is `time() >= t + 300`.  Today the
  source has `time() > t + 300` ("Refuse to sign blocks older than 5 minutes"), `Gen.windowStrict = false`, and the
  strict clause of the property text is NOT proved: a registration exactly 300 s old still signs (first example above).
  Both forms of the guard translate, build and pass the oracle.
-/

/--
  **Not attested already** — PARTIAL.  "It" is read as the metadata object an attestation points to (an `Attestation`
  is a pointer to a `Metadata`); a registration is a 300 s window of consent, not a one-shot: two credentials of the
  subject carrying the same attribute hash are both attested (the repository's `test_advertise_twice` expects exactly
  that).  FULL statement wanted: over all lifetimes of a node, no metadata hash is attested twice.
  PROVED: from ANY starting state (any database rows, metadata rows and trees an earlier object left behind; the record
  `attested_metadata` as it is), within one object lifetime nothing is attested twice and nothing on record at the start
  is attested again — whatever third-party attestations are stored in between, however often a disclosure is replayed.
  MISSING (false for the code, `attested_again_after_restart_witness`): across two lifetimes, when a third party's row
  for the same (subject, metadata) was stored before the node's own.
-/
theorem attests_each_metadata_once_partial (s : Node) (evs : List (Nat × Event)) :
    (attestsOf (run s evs).2).Nodup ∧ ∀ mp ∈ attestsOf (run s evs).2, mp ∉ s.attested :=
  ⟨(run_attested evs s).2.2, fun mp h => ((run_attested evs s).2.1 mp h).2⟩

/-- second lifetime: the database kept the third party's row (12 attested by key 3), memory is fresh, the user
    registers again, the old disclosure is replayed → attested again; with the node's own row kept instead → refused -/
example : attestsOf (run { init 1 [(1, 0), (2, 1)] with
      attRows := [⟨2, 3, { mptr := 12, sig := .ext 5, vk := 8 }⟩] }
    (exPre ++ [(120000, .disclosure 2 exMsg [12])])).2 = [12] := by decide
example : attestsOf (run { init 1 [(1, 0), (2, 1)] with attRows := [⟨2, 1, ownAtt 1 12⟩] }
    (exPre ++ [(120000, .disclosure 2 exMsg [12])])).2 = [] := by decide

/-- the replayed disclosure of the example above, also with a third party's attestation stored first -/
example : attestsOf (run (init 1 [(1, 0), (2, 1)])
    (exPre ++ [(110000, .disclosure 2 { exMsg with atts := [(3, { mptr := 12, sig := .ext 5, vk := 8 })] } [12]),
               (120000, .disclosure 2 exMsg [12]), (130000, .disclosure 2 exMsg [12])])).2 = [12] := by decide

/--
  **Storing.**  An incoming AttestPayload from peer `p` adds a row only if the attestation's signature verifies under
  `p`'s key; the row is filed under the node's own pseudonym with `p` as authority.
-/
theorem store_requires_sender_signature (now : Nat) (s : Node) (p : Key) (a : Option Att) (r : AttRow)
    (h : r ∈ (step now s (.attestMsg p a)).1.attRows) :
    r ∈ s.attRows ∨ ∃ att, a = some att ∧ verifies att.vk p = true ∧ r = ⟨s.me, p, att⟩ := by
  cases a with
  | none => exact Or.inl h
  | some att =>
    simp only [step, onAttest] at h
    split at h
    · rename_i hv
      rcases mem_insertAtt h with h1 | h1
      · exact Or.inl h1
      · exact Or.inr ⟨att, rfl, hv, h1⟩
    · exact Or.inl h

example : (step 5 (init 1 []) (.attestMsg 2 (some { mptr := 9, sig := .ext 1, vk := 4 }))).1.attRows.length = 1 := by
  decide
/-- signed by key 3, sent by peer 2: not stored -/
example : (step 5 (init 1 []) (.attestMsg 2 (some { mptr := 9, sig := .ext 1, vk := 8 }))).1.attRows = [] := by decide

/--
  A disclosure from `p` adds attestation rows only for attestations that verify under the authority the message
  declares (filed under `p`), plus the node's own attestations.
-/
theorem disclosure_stores_only_verified (now : Nat) (s : Node) (p : Key) (msg : Msg) (order : List Hash) (r : AttRow)
    (h : r ∈ (step now s (.disclosure p msg order)).1.attRows) :
    r ∈ s.attRows ∨ (r.subject = p ∧ verifies r.att.vk r.authority = true ∧ (r.authority, r.att) ∈ msg.atts) ∨
      (r.subject = p ∧ r.authority = s.me ∧ verifies r.att.vk r.authority = true) :=
  received_rows h

/-- Over any history, every row of the Attestations table verifies under its authority key. -/
theorem stored_attestations_verify (g : List (Key × Hash)) (s0 : Node) (hs0 : Started g s0)
    (evs : List (Nat × Event)) : ∀ r ∈ (run s0 evs).1.attRows, verifies r.att.vk r.authority = true :=
  (run_ok' hs0.ok evs).rows

/--
  **Token hand-out.**  In any state, the only event that makes the node emit a MissingResponsePayload is a
  RequestMissingPayload from the same peer `q`; the tokens are a sublist of the first `permissions[q]` tokens of the own
  chain (default 0), so a peer without permission entry receives none.
-/
theorem tokens_only_up_to_permission (now : Nat) (s : Node) (e : Event) (q : Key) (ts : List Hash)
    (h : Out.missingResponse q ts ∈ (step now s e).2) :
    (∃ k, e = .requestMissing q k) ∧ ts.Sublist (s.chain.take ((lookup q s.perms).getD 0)) ∧
      (lookup q s.perms = none → ts = []) := by
  cases e with
  | addKnown l raw padded name key md => simp [step] at h
  | attestMsg p a => simp [step] at h
  | advertise to tok md ml => simp [step] at h
  | selfAdvertise tok => simp [step] at h
  | disclosure p msg order =>
    simp only [step] at h
    rcases received_outs h with ⟨_, h1⟩ | ⟨_, h1⟩ <;> cases h1
  | requestMissing p k =>
    simp only [step, List.mem_singleton, Out.missingResponse.injEq] at h
    obtain ⟨hq, hts⟩ := h
    subst hq hts
    have hd : Gen.handout.permDefault = 0 := by decide
    refine ⟨⟨k, rfl⟩, ?_, ?_⟩
    · simp only [onRequestMissing, hd]
      exact List.Sublist.trans (List.take_sublist _ _) (List.drop_sublist _ _)
    · intro hn
      simp [onRequestMissing, hn, hd]

example : (step 0 { init 1 [] with chain := [5, 6, 7, 8], perms := [(2, 3)] } (.requestMissing 2 1)).2
    = [Out.missingResponse 2 [6, 7]] := by decide
example : (step 0 { init 1 [] with chain := [5, 6, 7, 8], perms := [(2, 3)] } (.requestMissing 3 0)).2
    = [Out.missingResponse 3 []] := by decide

/--
  **Permissions come only from the user.**  Over any history: a permission entry for peer `p` exists only if the history
  contains a `request_attestation_advertisement` call naming `p`, and it never exceeds the chain length.
-/
theorem permission_only_by_user (g : List (Key × Hash)) (s0 : Node) (hs0 : Started g s0) (pre : List (Nat × Event))
    (p : Key) (n : Nat) (h : lookup p (run s0 pre).1.perms = some n) :
    n ≤ (run s0 pre).1.chain.length ∧ ∃ t tok md ml, (t, Event.advertise p tok md ml) ∈ pre := by
  have := run_permsFrom pre [] _ (started_permsFrom hs0)
  simp only [List.nil_append] at this
  exact this p n h

/-- The own chain only grows at its end, so an index opened earlier keeps denoting the same tokens. -/
theorem chain_is_append_only (s : Node) (evs : List (Nat × Event)) : s.chain <+: (run s evs).1.chain :=
  run_chain_prefix evs s

/-- A peer the user never named in `request_attestation_advertisement` receives no token from any
    RequestMissingPayload, whatever else happened before. -/
theorem unpermitted_peer_gets_nothing (g : List (Key × Hash)) (s0 : Node) (hs0 : Started g s0)
    (pre : List (Nat × Event)) (now : Nat) (e : Event) (q : Key) (ts : List Hash)
    (hnever : ∀ t tok md ml, (t, Event.advertise q tok md ml) ∉ pre)
    (h : Out.missingResponse q ts ∈ (step now (run s0 pre).1 e).2) : ts = [] := by
  apply (tokens_only_up_to_permission now _ e q ts h).2.2
  cases hl : lookup q (run s0 pre).1.perms with
  | none => rfl
  | some n =>
    obtain ⟨_, t, tok, md, ml, hm⟩ := permission_only_by_user g s0 hs0 pre q n hl
    exact absurd hm (hnever t tok md ml)

example : ∃ pre : List (Nat × Event), (∀ t tok md ml, (t, Event.advertise 3 tok md ml) ∉ pre) ∧
    (run (init 1 []) pre).1.chain.length = 2 :=
  ⟨[(0, .selfAdvertise 5), (1, .advertise 2 6 7 100)], by simp, by decide⟩

/--
  **Up to the position the user opened.**  From any starting state, split any history at a `request_attestation_advertisement(p, …)` call after
  which `p` is not named again: in the final state the permission of `p` is the chain length right after that call, and
  the first that-many tokens of the final chain are exactly the chain as it was then.  With
  `tokens_only_up_to_permission`: whatever is requested later, `p` receives only tokens that existed when the user
  opened the chain to `p`.
-/
theorem permission_is_position_opened (s0 : Node) (pre post : List (Nat × Event)) (t : Nat)
    (p : Key) (tok md : Hash) (ml : Nat)
    (hpost : ∀ x ∈ post, ∀ tok' md' ml', x.2 ≠ Event.advertise p tok' md' ml') :
    lookup p (run s0 (pre ++ (t, Event.advertise p tok md ml) :: post)).1.perms
        = some (run s0 (pre ++ [(t, Event.advertise p tok md ml)])).1.chain.length ∧
    (run s0 (pre ++ (t, Event.advertise p tok md ml) :: post)).1.chain.take
        (run s0 (pre ++ [(t, Event.advertise p tok md ml)])).1.chain.length
      = (run s0 (pre ++ [(t, Event.advertise p tok md ml)])).1.chain := by
  have hsplit : pre ++ (t, Event.advertise p tok md ml) :: post = (pre ++ [(t, Event.advertise p tok md ml)]) ++ post := by
    simp
  rw [hsplit, run_append]
  simp only
  constructor
  · rw [run_perm_stable p post _ hpost, run_append]
    simp [run, step, lookup_insertDict]
  · exact (List.prefix_iff_eq_take.mp (run_chain_prefix post _)).symm

example : lookup 2 (run (init 1 []) [(0, .selfAdvertise 5), (1, .advertise 2 6 7 100), (2, .selfAdvertise 8),
    (3, .advertise 3 9 10 100)]).1.perms = some 2 := by decide

/--
  **Restarts.**  However many object lifetimes precede it (each: an arbitrary history, then a new object over the same
  database with whatever chain `__init__` reloads, with a new IdentityManager or the
  old one whose cache keeps the subject trees), an object starts `Started`: every theorem above that takes a `Started`
  start state therefore holds in every lifetime — consent has to be given again in the current lifetime, permissions
  have to be opened again, stored rows still verify.
-/
theorem every_lifetime_starts_clean (me : Key) (g : List (Key × Hash))
    (ls : List (List (Nat × Event) × List Hash × Bool)) : Started g (lifetimes (init me g) ls) :=
  lifetimes_started ls _ (init_started me g)

/-- trees stay rooted through `init` and any number of lifetimes whose restarts keep the old IdentityManager -/
theorem lifetimes_keep_rooted (me : Key) (g : List (Key × Hash)) (ls : List (List (Nat × Event) × List Hash)) :
    TreesRooted (lifetimes (init me g) (ls.map (fun l => (l.1, l.2, true)))) := by
  suffices h : ∀ s, s.genesis = g → TreesRooted s → TreesRooted (lifetimes s (ls.map (fun l => (l.1, l.2, true)))) from
    h _ rfl (init_rooted me g)
  induction ls with
  | nil => intro s _ h; exact h
  | cons x rest ih =>
    intro s hg h
    simp only [List.map_cons, lifetimes]
    exact ih _ ((run_genesis s x.1).trans hg) (restartOf_keep_rooted (run_rooted' h hg x.1).1 x.2)

/-
  FULL statement wanted by "it has not attested it already", across lifetimes:
      ∀ ls evs, the attest outputs of all lifetimes together contain no metadata hash twice.
  It is FALSE for the code as it is (known finding `should_sign:attested-twice-after-restart`): the only persistent
  record is the node's own Attestations row, which `INSERT OR IGNORE` drops when a third party's row for the same
  (subject, metadata) exists.  Proved part: `attests_each_metadata_once_partial`.  Witness of the negation:
  lifetime 1 attests metadata 12 (third party's attestation stored first), the object is restarted, the user registers
  the hash again, the old disclosure is replayed, and metadata 12 is attested a second time.
-/
def exThird : Msg := { exMsg with atts := [(3, { mptr := 12, sig := .ext 5, vk := 8 })] }

theorem attested_again_after_restart_witness :
    attestsOf (run (init 1 [(1, 0), (2, 1)]) (exPre ++ [(110000, .disclosure 2 exThird [12])])).2 = [12] ∧
    attestsOf (run (restartOf (run (init 1 [(1, 0), (2, 1)]) (exPre ++ [(110000, .disclosure 2 exThird [12])])).1 [])
      ([(200000, .addKnown 32 7 8 1 2 none), (210000, .disclosure 2 exThird [12])])).2 = [12] := by decide

/-- without the third party's row the node's own row survives the restart and the database guard refuses -/
example : attestsOf (run (restartOf (run (init 1 [(1, 0), (2, 1)]) (exPre ++ [(110000, .disclosure 2 exMsg [12])])).1 [])
      ([(200000, .addKnown 32 7 8 1 2 none), (210000, .disclosure 2 exMsg [12])])).2 = [] := by decide

example : Started [(1, 0), (2, 1)] (init 1 [(1, 0), (2, 1)]) := init_started _ _

/--
  **Only to peers.**  Whatever a step emits is addressed to the peer the event involves: the authenticated sender of the
  message being handled, or the peer the user named in `request_attestation_advertisement`.  Events without a peer
  (add_known_hash, self_advertise) emit nothing.  (That the sender of a message is authentic is C01's subject.)
-/
theorem outputs_go_to_the_peer_involved (now : Nat) (s : Node) (e : Event) (o : Out) (h : o ∈ (step now s e).2) :
    e.peer = some o.dest := by
  cases e with
  | addKnown l raw padded name key md => simp [step] at h
  | selfAdvertise tok => simp [step] at h
  | attestMsg p a => simp [step] at h
  | requestMissing p k => simp [step] at h; subst h; rfl
  | advertise to tok md ml => simp [step] at h; subst h; rfl
  | disclosure p msg order =>
    simp only [step] at h
    rcases received_outs h with ⟨_, h1⟩ | ⟨_, h1⟩ <;> subst h1 <;> rfl

/--
  **Only up to the position the user opened — end to end.**  For every object that starts clean, every history `pre` of
  it and every next event: if a MissingResponsePayload with tokens `ts ≠ []` leaves for peer `q`, then the event is a
  RequestMissingPayload from `q`, and `pre` splits at the LAST `request_attestation_advertisement` call naming `q` such
  that `ts` is a sublist of the chain as it was right after that call.  In words: `q` only ever receives tokens that
  existed when the user last opened the chain to `q`, and only after the user did so in this lifetime.
-/
theorem tokens_handed_out_existed_when_opened (g : List (Key × Hash)) (s0 : Node) (hs0 : Started g s0)
    (pre : List (Nat × Event)) (now : Nat) (e : Event) (q : Key) (ts : List Hash) (hne : ts ≠ [])
    (h : Out.missingResponse q ts ∈ (step now (run s0 pre).1 e).2) :
    (∃ k, e = .requestMissing q k) ∧
    ∃ pre1 t tok md ml post, pre = pre1 ++ (t, Event.advertise q tok md ml) :: post ∧
      (∀ x ∈ post, ∀ tok' md' ml', x.2 ≠ Event.advertise q tok' md' ml') ∧
      ts.Sublist (run s0 (pre1 ++ [(t, Event.advertise q tok md ml)])).1.chain := by
  obtain ⟨hev, hsub, hnone⟩ := tokens_only_up_to_permission now _ e q ts h
  refine ⟨hev, ?_⟩
  cases hl : lookup q (run s0 pre).1.perms with
  | none => exact absurd (hnone hl) hne
  | some n =>
    obtain ⟨_, t', tok', md', ml', hm⟩ := permission_only_by_user g s0 hs0 pre q n hl
    obtain ⟨pre1, t, tok, md, ml, post, hsplit, hpost⟩ :=
      exists_last_advertise q pre ⟨_, hm, tok', md', ml', rfl⟩
    refine ⟨pre1, t, tok, md, ml, post, hsplit, hpost, ?_⟩
    obtain ⟨hperm, htake⟩ := permission_is_position_opened s0 pre1 post t q tok md ml hpost
    rw [← hsplit] at hperm htake
    rw [hl] at hperm
    simp only [Option.some.injEq] at hperm
    rw [hl, Option.getD_some, hperm, htake] at hsub
    exact hsub

/--
  **The database guard.**  In ANY state — any lifetime, any database an earlier object left behind — if the
  Attestations table holds an attestation over metadata `mp` whose signature is first found in a row naming this node as
  authority (what `get_attestations_over` + `get_authority` see), no event makes the node attest `mp` again.  Together
  with `attests_each_metadata_once_partial` this is the cross-restart half of "not attested already" that the code does
  deliver (own row stored); the other half is the known finding (`attested_again_after_restart_witness`).
-/
theorem own_stored_row_blocks_attestation (now : Nat) (s : Node) (e : Event) (q : Key) (mp : Hash)
    (hrow : attestedInDb s.attRows s.me mp = true) : Out.attest q mp ∉ (step now s e).2 := by
  intro h
  cases e with
  | addKnown l raw padded name key md => simp [step] at h
  | attestMsg p a => simp [step] at h
  | requestMissing p k => simp [step] at h
  | advertise to tok md ml => simp [step] at h
  | selfAdvertise tok => simp [step] at h
  | disclosure p msg order =>
    simp only [step] at h
    obtain ⟨m, j, s', hid, hss, hpre, hme⟩ := received_attest_db h
    have := shouldSign_db hss
    rw [hme, hid] at this
    rw [attestedInDb_mono hpre s.me mp hrow] at this
    exact absurd this (by decide)

/-- the node's own row for metadata 12 is in the table (left by an earlier lifetime): refused; without it: attested -/
example : (step 400000 { (run (init 1 [(1, 0), (2, 1)]) exPre).1 with attRows := [⟨2, 1, ownAtt 1 12⟩] }
    (.disclosure 2 exMsg [12])).2 = [] := by decide

end Ipv8.C17
