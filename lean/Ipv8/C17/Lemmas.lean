/-
  C17 — helper lemmas (no property statements here; those are in Props.lean).
-/
import Ipv8.C17.Model

namespace Ipv8.C17

/-! ### dict lemmas -/

theorem lookup_insertDict {β : Type} (k h : Nat) (v : β) (l : List (Nat × β)) :
    lookup h (insertDict k v l) = if k = h then some v else lookup h l := by
  induction l with
  | nil => simp [insertDict, lookup]
  | cons x rest ih =>
    obtain ⟨k', v'⟩ := x
    by_cases h1 : k' = k
    · subst h1
      by_cases h2 : k' = h <;> simp [insertDict, lookup, h2]
    · by_cases h2 : k' = h
      · subst h2
        simp [insertDict, lookup, h1]
        intro h3; exact absurd h3.symm h1
      · simp [insertDict, lookup, h1, h2, ih]

theorem lookup_mem {β : Type} (h : Nat) (v : β) (l : List (Nat × β)) (hl : lookup h l = some v) : (h, v) ∈ l := by
  induction l with
  | nil => simp [lookup] at hl
  | cons x rest ih =>
    obtain ⟨k', v'⟩ := x
    by_cases h1 : k' = h
    · simp [lookup, h1] at hl; subst hl; subst h1; simp
    · simp [lookup, h1] at hl; exact List.mem_cons_of_mem _ (ih hl)

theorem verifies_own (me : Key) : verifies (1 <<< me) me = true := by
  simp [verifies, Nat.testBit_shiftLeft]

/-! ### INSERT OR IGNORE -/

theorem mem_insertAtt {rows : List AttRow} {r x : AttRow} (h : x ∈ insertAtt rows r) : x ∈ rows ∨ x = r := by
  unfold insertAtt at h
  split at h
  · exact Or.inl h
  · simp at h; exact h

theorem subset_insertAtt (rows : List AttRow) (r : AttRow) : ∀ x ∈ rows, x ∈ insertAtt rows r := by
  intro x hx
  unfold insertAtt
  split
  · exact hx
  · simp [hx]

theorem mem_insertMd {rows : List MdRow} {r x : MdRow} (h : x ∈ insertMd rows r) : x ∈ rows ∨ x = r := by
  unfold insertMd at h
  split at h
  · exact Or.inl h
  · simp at h; exact h

/-! ### should_sign, over the GENERATED guard list -/

/-- what a positive answer of should_sign implies (this proof breaks when a guard disappears from Gen.guards) -/
theorem shouldSign_spec {now : Nat} {s : Node} {p : Key} {tree : Tree} {m : Metadata} {j : Json}
    (h : shouldSign now s p tree m j = true) :
    ∃ tk r, tree.find? m.tokenPtr = some tk ∧ lookup tk.content s.known = some r ∧ r.key = p ∧
      (now ≤ r.t + 300000 ∧ (Gen.windowStrict = true → now < r.t + 300000)) ∧
      j.has .name = true ∧ j.has .date = true ∧ j.has .schema = true ∧ j.name = r.name ∧
      (r.md = none ∨ r.md = some j.extra) ∧ s.attested.contains m.id = false := by
  simp only [shouldSign, Gen.guards, List.all_cons, List.all_nil, Bool.and_true, Bool.and_eq_true] at h
  obtain ⟨h1, h2, h3, h4, h5, h6, h7, h8, _⟩ := h
  simp only [guardOk] at h1 h2 h3 h4 h5 h6 h7 h8
  cases hf : tree.find? m.tokenPtr with
  | none => simp [hf] at h1
  | some tk =>
    simp only [hf, Option.bind_some] at h3 h4 h5 h6 h7
    cases hr : lookup tk.content s.known with
    | none => simp [hr] at h3
    | some r =>
      simp only [hr] at h4 h5 h6 h7
      refine ⟨tk, r, rfl, hr, ?_, ?_, ?_, ?_, ?_, ?_, ?_, ?_⟩
      · simpa using h4
      · refine ⟨by simp at h5; omega, ?_⟩
        first
          | (intro hs; exact absurd hs (by decide))
          | (intro _; simp at h5; omega)
      · simp at h6; exact h6.1
      · simp [List.all_cons] at h2; exact h2.2.1
      · simp [List.all_cons] at h2; exact h2.2.2
      · simp at h6; exact h6.2
      · cases hm : r.md with
        | none => exact Or.inl rfl
        | some x => simp [hm] at h7; exact Or.inr (by rw [h7])
      · simpa using h8

/-! ### substantiate -/

theorem gather_ok {pk : Key} {gen : Hash} {t : Tree} {tok : Token} (h : (gather pk gen t tok).2 = true) :
    verifies tok.vk pk = true := by
  unfold gather at h
  by_cases hv : verifies tok.vk pk = true
  · exact hv
  · simp [hv] at h

theorem gatherAll_ok {pk : Key} {gen : Hash} : ∀ {toks : List Token} {t : Tree},
    (gatherAll pk gen t toks).2 = true → ∀ x ∈ toks, verifies x.vk pk = true := by
  intro toks
  induction toks with
  | nil => intro t _ x hx; simp at hx
  | cons tok rest ih =>
    intro t h x hx
    simp only [gatherAll] at h
    simp only [Bool.and_eq_true] at h
    rcases List.mem_cons.mp hx with rfl | hx
    · exact gather_ok h.1
    · exact ih h.2 x hx

/-- fields that substantiate never touches -/
theorem substantiate_frame (s : Node) (p : Key) (msg : Msg) :
    let r := (substantiate s p msg).1
    r.known = s.known ∧ r.attested = s.attested ∧ r.me = s.me ∧ r.chain = s.chain ∧ r.perms = s.perms
      ∧ r.genesis = s.genesis := by
  simp only [substantiate]
  split
  · simp [subTokens]
  · split <;> simp [subTokens, subPersist, subMds, subAtts]

theorem foldl_insertAtt_mem (p : Key) : ∀ (atts : List (Key × Att)) (rows : List AttRow) (x : AttRow),
    x ∈ atts.foldl (fun rows a => if verifies a.2.vk a.1 then insertAtt rows ⟨p, a.1, a.2⟩ else rows) rows →
    x ∈ rows ∨ (x.subject = p ∧ verifies x.att.vk x.authority = true ∧ (x.authority, x.att) ∈ atts) := by
  intro atts
  induction atts with
  | nil => intro rows x h; exact Or.inl h
  | cons a rest ih =>
    intro rows x h
    simp only [List.foldl_cons] at h
    rcases ih _ x h with h1 | ⟨h1, h2, h3⟩
    · by_cases hv : verifies a.2.vk a.1 = true
      · simp only [hv, if_true] at h1
        rcases mem_insertAtt h1 with h4 | h4
        · exact Or.inl h4
        · subst h4; exact Or.inr ⟨rfl, hv, by simp⟩
      · simp only [hv] at h1; exact Or.inl h1
    · exact Or.inr ⟨h1, h2, List.mem_cons_of_mem _ h3⟩

theorem foldl_insertAtt_subset (p : Key) : ∀ (atts : List (Key × Att)) (rows : List AttRow) (x : AttRow),
    x ∈ rows →
    x ∈ atts.foldl (fun rows a => if verifies a.2.vk a.1 then insertAtt rows ⟨p, a.1, a.2⟩ else rows) rows := by
  intro atts
  induction atts with
  | nil => intro rows x h; exact h
  | cons a rest ih =>
    intro rows x h
    simp only [List.foldl_cons]
    apply ih
    split
    · exact subset_insertAtt _ _ _ h
    · exact h

theorem foldl_insertMd_mem (p : Key) : ∀ (mds : List Metadata) (rows : List MdRow) (x : MdRow),
    x ∈ mds.foldl (fun rows m => if verifies m.vk p then insertMd rows ⟨p, m⟩ else rows) rows →
    x ∈ rows ∨ (x.subject = p ∧ verifies x.md.vk p = true ∧ x.md ∈ mds) := by
  intro mds
  induction mds with
  | nil => intro rows x h; exact Or.inl h
  | cons a rest ih =>
    intro rows x h
    simp only [List.foldl_cons] at h
    rcases ih _ x h with h1 | ⟨h1, h2, h3⟩
    · by_cases hv : verifies a.vk p = true
      · simp only [hv, if_true] at h1
        rcases mem_insertMd h1 with h4 | h4
        · exact Or.inl h4
        · subst h4; exact Or.inr ⟨rfl, hv, by simp⟩
      · simp only [hv] at h1; exact Or.inl h1
    · exact Or.inr ⟨h1, h2, List.mem_cons_of_mem _ h3⟩

/-! ### the signing loop -/

theorem recordsOwn_true : Gen.recordsOwn = true := by decide

theorem signLoop_frame (now : Nat) (p : Key) (tree : Tree) : ∀ (mds : List Metadata) (s : Node),
    (signLoop now p tree s mds).1.known = s.known ∧ (signLoop now p tree s mds).1.me = s.me ∧
    (signLoop now p tree s mds).1.chain = s.chain ∧ (signLoop now p tree s mds).1.perms = s.perms ∧
    (signLoop now p tree s mds).1.mdRows = s.mdRows ∧ (signLoop now p tree s mds).1.trees = s.trees ∧
    (signLoop now p tree s mds).1.genesis = s.genesis := by
  intro mds
  induction mds with
  | nil => intro s; simp [signLoop]
  | cons m rest ih =>
    intro s
    cases hj : m.json with
    | none => simp [signLoop, hj]
    | some j =>
      by_cases hs : shouldSign now s p tree m j = true
      · simp only [signLoop, hj, hs, if_true]
        have := ih (recordAttest s p m.id)
        simpa [recordAttest] using this
      · simp only [signLoop, hj, hs]
        exact ih s

theorem signLoop_tokRows (now : Nat) (p : Key) (tree : Tree) : ∀ (mds : List Metadata) (s : Node),
    (signLoop now p tree s mds).1.tokRows = s.tokRows := by
  intro mds
  induction mds with
  | nil => intro s; simp [signLoop]
  | cons m rest ih =>
    intro s
    cases hj : m.json with
    | none => simp [signLoop, hj]
    | some j =>
      by_cases hs : shouldSign now s p tree m j = true
      · simp only [signLoop, hj, hs, if_true]
        have := ih (recordAttest s p m.id)
        simpa [recordAttest] using this
      · simp only [signLoop, hj, hs]
        exact ih s

/-- every attest output of the loop comes from a credential for which should_sign said yes in a state with the
    same consent table and at least the same record of own attestations -/
theorem signLoop_attest (now : Nat) (p : Key) (tree : Tree) : ∀ (mds : List Metadata) (s : Node) (o : Out),
    o ∈ (signLoop now p tree s mds).2.1 →
    ∃ m ∈ mds, ∃ j s', o = Out.attest p m.id ∧ m.json = some j ∧ shouldSign now s' p tree m j = true ∧
      s'.known = s.known ∧ (∀ x ∈ s.attested, x ∈ s'.attested) := by
  intro mds
  induction mds with
  | nil => intro s o h; simp [signLoop] at h
  | cons m rest ih =>
    intro s o h
    cases hj : m.json with
    | none => simp [signLoop, hj] at h
    | some j =>
      by_cases hs : shouldSign now s p tree m j = true
      · simp only [signLoop, hj, hs, if_true] at h
        rcases List.mem_cons.mp h with h | h
        · exact ⟨m, by simp, j, s, h, hj, hs, rfl, fun x hx => hx⟩
        · obtain ⟨m', hm', j', s', h1, h2, h3, h4, h5⟩ := ih _ o h
          refine ⟨m', List.mem_cons_of_mem _ hm', j', s', h1, h2, h3, ?_, ?_⟩
          · simpa [recordAttest] using h4
          · intro x hx
            apply h5
            simp only [recordAttest, recordsOwn_true, if_true]
            exact List.mem_cons_of_mem _ hx
      · simp only [signLoop, hj, hs] at h
        obtain ⟨m', hm', rest'⟩ := ih s o h
        exact ⟨m', List.mem_cons_of_mem _ hm', rest'⟩

/-- the loop records what it attests to, attests nothing that was recorded before, and nothing twice -/
theorem signLoop_attested (now : Nat) (p : Key) (tree : Tree) : ∀ (mds : List Metadata) (s : Node),
    (∀ x ∈ s.attested, x ∈ (signLoop now p tree s mds).1.attested) ∧
    (∀ mp, mp ∈ (signLoop now p tree s mds).2.1.filterMap attestMp →
        mp ∈ (signLoop now p tree s mds).1.attested ∧ mp ∉ s.attested) ∧
    ((signLoop now p tree s mds).2.1.filterMap attestMp).Nodup := by
  intro mds
  induction mds with
  | nil => intro s; simp [signLoop]
  | cons m rest ih =>
    intro s
    cases hj : m.json with
    | none => simp [signLoop, hj]
    | some j =>
      by_cases hs : shouldSign now s p tree m j = true
      · simp only [signLoop, hj, hs, if_true]
        obtain ⟨i1, i2, i3⟩ := ih (recordAttest s p m.id)
        simp only [recordAttest, recordsOwn_true, if_true] at i1 i2 i3
        have hnot : m.id ∉ s.attested := by
          obtain ⟨_, _, _, _, _, _, _, _, _, _, _, h8⟩ := shouldSign_spec hs
          simpa using h8
        refine ⟨fun x hx => i1 x (List.mem_cons_of_mem _ hx), ?_, ?_⟩
        · intro mp hmp
          simp only [List.filterMap_cons, attestMp] at hmp
          rcases List.mem_cons.mp hmp with h | h
          · subst h; exact ⟨i1 _ (by simp), hnot⟩
          · obtain ⟨a, b⟩ := i2 mp h
            exact ⟨a, fun hc => b (List.mem_cons_of_mem _ hc)⟩
        · simp only [List.filterMap_cons, attestMp]
          refine List.nodup_cons.mpr ⟨?_, i3⟩
          intro hc
          exact (i2 m.id hc).2 (by simp)
      · simp only [signLoop, hj, hs]
        exact ih s

theorem signLoop_rows (now : Nat) (p : Key) (tree : Tree) : ∀ (mds : List Metadata) (s : Node),
    (∀ x ∈ s.attRows, x ∈ (signLoop now p tree s mds).1.attRows) ∧
    (∀ x ∈ (signLoop now p tree s mds).1.attRows, x ∈ s.attRows ∨
        (x.subject = p ∧ x.authority = s.me ∧ verifies x.att.vk x.authority = true)) := by
  intro mds
  induction mds with
  | nil => intro s; simp only [signLoop]; exact ⟨fun _ h => h, fun _ h => Or.inl h⟩
  | cons m rest ih =>
    intro s
    cases hj : m.json with
    | none => simp only [signLoop, hj]; exact ⟨fun _ h => h, fun _ h => Or.inl h⟩
    | some j =>
      by_cases hs : shouldSign now s p tree m j = true
      · simp only [signLoop, hj, hs, if_true]
        obtain ⟨i1, i2⟩ := ih (recordAttest s p m.id)
        simp only [recordAttest] at i1 i2
        refine ⟨fun x hx => i1 x (subset_insertAtt _ _ _ hx), ?_⟩
        intro x hx
        rcases i2 x hx with h | h
        · rcases mem_insertAtt h with h | h
          · exact Or.inl h
          · subst h; exact Or.inr ⟨rfl, rfl, verifies_own _⟩
        · exact Or.inr h
      · simp only [signLoop, hj, hs]
        exact ih s

/-! ### token trees: every stored token verifies under the tree's key -/

def TreeOk (k : Key) (t : Tree) : Prop := ∀ x, x ∈ t.elements ∨ x ∈ t.unchained → verifies x.vk k = true

theorem appendReact_ok (k : Key) : ∀ (fuel : Nat) (t : Tree) (tok : Token),
    TreeOk k t → verifies tok.vk k = true → TreeOk k (appendReact fuel t tok) := by
  intro fuel
  induction fuel with
  | zero =>
    intro t tok ht hv x hx
    simp only [appendReact] at hx
    rcases hx with hx | hx
    · rcases List.mem_append.mp hx with hx | hx
      · exact ht x (Or.inl hx)
      · simp at hx; subst hx; exact hv
    · exact ht x (Or.inr hx)
  | succ n ih =>
    intro t tok ht hv
    have ht1 : TreeOk k { elements := t.elements ++ [tok],
                          unchained := t.unchained.filter (fun x => !(x.prev == tok.id)) } := by
      intro x hx
      rcases hx with hx | hx
      · rcases List.mem_append.mp hx with hx | hx
        · exact ht x (Or.inl hx)
        · simp at hx; subst hx; exact hv
      · exact ht x (Or.inr ((List.mem_filter.mp hx).1))
    have hretry : ∀ r ∈ t.unchained.filter (fun x => x.prev == tok.id), verifies r.vk k = true :=
      fun r hr => ht r (Or.inr ((List.mem_filter.mp hr).1))
    have gen : ∀ (l : List Token) (acc : Tree), TreeOk k acc → (∀ r ∈ l, verifies r.vk k = true) →
        TreeOk k (l.foldl (fun acc r => if (acc.find? r.id).isSome then acc else appendReact n acc r) acc) := by
      intro l
      induction l with
      | nil => intro acc h _; exact h
      | cons r rest ihl =>
        intro acc h hr
        simp only [List.foldl_cons]
        apply ihl
        · split
          · exact h
          · exact ih _ _ h (hr r (by simp))
        · intro x hx; exact hr x (List.mem_cons_of_mem _ hx)
    simp only [appendReact]
    exact gen _ _ ht1 hretry

theorem gather_tree_ok (k : Key) (gen : Hash) (t : Tree) (tok : Token) (ht : TreeOk k t) :
    TreeOk k (gather k gen t tok).1 := by
  unfold gather
  by_cases hv : verifies tok.vk k = true
  · simp only [hv, Bool.not_true, Bool.false_eq_true, if_false]
    split
    · intro x hx
      rcases hx with hx | hx
      · exact ht x (Or.inl hx)
      · simp only at hx
        have hsub : ∀ y, y ∈ (if t.unchained.any (fun x => x.id == tok.id) then t.unchained
                              else t.unchained ++ [tok]) → verifies y.vk k = true := by
          intro y hy
          split at hy
          · exact ht y (Or.inr hy)
          · rcases List.mem_append.mp hy with hy | hy
            · exact ht y (Or.inr hy)
            · simp at hy; subst hy; exact hv
        revert hx
        generalize (if t.unchained.any (fun x => x.id == tok.id) then t.unchained
                    else t.unchained ++ [tok]) = u at hsub ⊢
        intro hx
        split at hx
        · exact hsub x (List.mem_of_mem_drop hx)
        · exact hsub x hx
    · split
      · exact ht
      · exact appendReact_ok k _ t tok ht hv
  · simp only [hv, Bool.not_false, if_true]
    exact ht

theorem gatherAll_tree_ok (k : Key) (gen : Hash) : ∀ (toks : List Token) (t : Tree), TreeOk k t →
    TreeOk k (gatherAll k gen t toks).1 := by
  intro toks
  induction toks with
  | nil => intro t ht; simpa [gatherAll] using ht
  | cons tok rest ih =>
    intro t ht
    simp only [gatherAll]
    exact ih _ (gather_tree_ok k gen t tok ht)

theorem find?_mem_elements {t : Tree} {h : Hash} {tk : Token} (hf : t.find? h = some tk) :
    tk ∈ t.elements ∧ tk.id = h := by
  unfold Tree.find? at hf
  refine ⟨List.mem_of_find?_eq_some hf, ?_⟩
  have := List.find?_some hf
  simpa using this

/-! ### which tree `get_pseudonym(k).tree` is after each part of substantiate -/

theorem persist_filter_ne (p k : Key) (hk : k ≠ p) : ∀ (new : List Token) (rows : List (Key × Token)),
    (persistToks rows p new).filter (fun r => r.1 == k) = rows.filter (fun r => r.1 == k) := by
  intro new
  induction new with
  | nil => intro rows; rfl
  | cons t rest ih =>
    intro rows
    simp only [persistToks, List.foldl_cons]
    split
    · exact ih rows
    · have := ih (rows ++ [(p, t)])
      simp only [persistToks] at this
      rw [this, List.filter_append]
      have hpk : (p == k) = false := by simp; exact fun h => hk h.symm
      simp [hpk]

theorem persist_mem (p : Key) : ∀ (new : List Token) (rows : List (Key × Token)) (r : Key × Token),
    r ∈ persistToks rows p new → r ∈ rows ∨ (r.1 = p ∧ r.2 ∈ new) := by
  intro new
  induction new with
  | nil => intro rows r h; exact Or.inl h
  | cons t rest ih =>
    intro rows r h
    simp only [persistToks, List.foldl_cons] at h
    split at h
    · rcases ih rows r h with h1 | ⟨h1, h2⟩
      · exact Or.inl h1
      · exact Or.inr ⟨h1, List.mem_cons_of_mem _ h2⟩
    · rcases ih _ r h with h1 | ⟨h1, h2⟩
      · rcases List.mem_append.mp h1 with h3 | h3
        · exact Or.inl h3
        · simp at h3; subst h3; exact Or.inr ⟨rfl, by simp⟩
      · exact Or.inr ⟨h1, List.mem_cons_of_mem _ h2⟩

theorem treeOf_subTokens_self (s : Node) (p : Key) (msg : Msg) :
    treeOf (subTokens s p msg).1 p = (gatherAll p (genesisOf s p) (treeOf s p) msg.tokens).1 := by
  simp [treeOf, subTokens, lookup_insertDict]

theorem treeOf_subTokens_ne (s : Node) (p k : Key) (msg : Msg) (hk : k ≠ p) :
    treeOf (subTokens s p msg).1 k = treeOf s k := by
  have : ¬ p = k := fun h => hk h.symm
  simp [treeOf, subTokens, lookup_insertDict, this, loadTree]

theorem treeOf_subPersist (s : Node) (p k : Key) (msg : Msg) :
    treeOf (subPersist s (subTokens s p msg).1 p) k = treeOf (subTokens s p msg).1 k := by
  by_cases hk : k = p
  · subst hk
    simp [treeOf, subPersist, subTokens, lookup_insertDict]
  · have hne : ¬ p = k := fun h => hk h.symm
    simp only [treeOf, subPersist, subTokens, lookup_insertDict, hne, if_false]
    cases lookup k s.trees with
    | some t => rfl
    | none => simp only [loadTree]; rw [persist_filter_ne p k hk]

/-- after substantiate: the sender's tree is the gathered one, every other tree is what it was -/
theorem treeOf_substantiate (s : Node) (p k : Key) (msg : Msg) :
    treeOf (substantiate s p msg).1 k =
      if k = p then (gatherAll p (genesisOf s p) (treeOf s p) msg.tokens).1 else treeOf s k := by
  have base : treeOf (subTokens s p msg).1 k =
      if k = p then (gatherAll p (genesisOf s p) (treeOf s p) msg.tokens).1 else treeOf s k := by
    by_cases hk : k = p
    · subst hk; simp [treeOf_subTokens_self]
    · simp [hk, treeOf_subTokens_ne s p k msg hk]
  have mdsAtts : ∀ s1 : Node, treeOf (subMds s1 p msg) k = treeOf s1 k ∧ treeOf (subAtts s1 p msg) k = treeOf s1 k := by
    intro s1; constructor <;> simp [treeOf, loadTree, subMds, subAtts]
  simp only [substantiate]
  split
  · exact base
  · split
    · rw [(mdsAtts _).1, treeOf_subPersist]; exact base
    · rw [(mdsAtts _).2, (mdsAtts _).1, treeOf_subPersist]; exact base

/-! ### node invariant: everything stored verifies -/

structure NodeOk (s : Node) : Prop where
  rows : ∀ r ∈ s.attRows, verifies r.att.vk r.authority = true
  mds : ∀ r ∈ s.mdRows, verifies r.md.vk r.subject = true
  toks : ∀ r ∈ s.tokRows, verifies r.2.vk r.1 = true
  trees : ∀ k t, lookup k s.trees = some t → TreeOk k t

theorem treeOf_ok {s : Node} (h : NodeOk s) (k : Key) : TreeOk k (treeOf s k) := by
  unfold treeOf
  cases hl : lookup k s.trees with
  | some t => exact h.trees k t hl
  | none =>
    intro x hx
    simp only [loadTree, List.not_mem_nil, or_false, List.mem_map, List.mem_filter] at hx
    obtain ⟨r, ⟨hr, hk⟩, hx⟩ := hx
    have := h.toks r hr
    simp only [beq_iff_eq] at hk
    rw [← hx, ← hk]; exact this

theorem subTokens_ok {s : Node} (h : NodeOk s) (p : Key) (msg : Msg) : NodeOk (subTokens s p msg).1 := by
  refine ⟨h.rows, h.mds, h.toks, ?_⟩
  intro k t hl
  simp only [subTokens, lookup_insertDict] at hl
  split at hl
  · rename_i hk
    subst hk
    simp only [Option.some.injEq] at hl
    subst hl
    exact gatherAll_tree_ok _ _ _ _ (treeOf_ok h _)
  · exact h.trees k t hl

theorem subPersist_ok {s : Node} (h : NodeOk s) (p : Key) (msg : Msg) :
    NodeOk (subPersist s (subTokens s p msg).1 p) := by
  have h1 := subTokens_ok h p msg
  refine ⟨h1.rows, h1.mds, ?_, h1.trees⟩
  intro r hr
  rcases persist_mem p _ _ r hr with h2 | ⟨h2, h3⟩
  · exact h1.toks r h2
  · rw [h2]
    exact treeOf_ok h1 p r.2 (Or.inl (List.mem_filter.mp h3).1)

theorem subMds_ok {s : Node} (h : NodeOk s) (p : Key) (msg : Msg) : NodeOk (subMds s p msg) := by
  refine ⟨h.rows, ?_, h.toks, h.trees⟩
  intro r hr
  rcases foldl_insertMd_mem p _ _ r hr with h1 | ⟨h1, h2, _⟩
  · exact h.mds r h1
  · rw [h1]; exact h2

theorem subAtts_ok {s : Node} (h : NodeOk s) (p : Key) (msg : Msg) : NodeOk (subAtts s p msg) := by
  refine ⟨?_, h.mds, h.toks, h.trees⟩
  intro r hr
  rcases foldl_insertAtt_mem p _ _ r hr with h1 | ⟨_, h2, _⟩
  · exact h.rows r h1
  · exact h2

theorem substantiate_ok {s : Node} (h : NodeOk s) (p : Key) (msg : Msg) : NodeOk (substantiate s p msg).1 := by
  simp only [substantiate]
  split
  · exact subTokens_ok h p msg
  · split
    · exact subMds_ok (subPersist_ok h p msg) p msg
    · exact subAtts_ok (subMds_ok (subPersist_ok h p msg) p msg) p msg

/-- `correct` implies every token of the message verifies under the sender's key and every attestation under its
    declared authority -/
theorem substantiate_correct {s : Node} {p : Key} {msg : Msg} (h : (substantiate s p msg).2.1 = true)
    (hab : (substantiate s p msg).2.2 = false) :
    (∀ t ∈ msg.tokens, verifies t.vk p = true) ∧ (∀ a ∈ msg.atts, verifies a.2.vk a.1 = true) := by
  by_cases h1 : msg.tokAbort = true
  · simp [substantiate, h1] at hab
  · by_cases h2 : msg.mdAbort = true
    · simp [substantiate, h1, h2] at hab
    · simp only [substantiate, h1, h2, Bool.false_eq_true, if_false, Bool.and_eq_true, List.all_eq_true] at h
      exact ⟨gatherAll_ok (by simpa [subTokens] using h.1), h.2⟩

theorem signLoop_ok (now : Nat) (p : Key) (tree : Tree) (mds : List Metadata) {s : Node} (h : NodeOk s) :
    NodeOk (signLoop now p tree s mds).1 := by
  obtain ⟨_, _, _, _, f5, f6, _⟩ := signLoop_frame now p tree mds s
  refine ⟨?_, ?_, ?_, ?_⟩
  · intro r hr
    rcases (signLoop_rows now p tree mds s).2 r hr with h1 | ⟨_, _, h3⟩
    · exact h.rows r h1
    · exact h3
  · rw [f5]; exact h.mds
  · rw [signLoop_tokRows]; exact h.toks
  · rw [f6]; exact h.trees

theorem signPhase_ok (now : Nat) {s1 : Node} (h : NodeOk s1) (p : Key) (order : List Hash) (c : Bool) :
    NodeOk (signPhase now s1 p order c).1 := by
  simp only [signPhase]
  split
  · exact signLoop_ok _ _ _ _ h
  · exact h

theorem received_ok (now : Nat) {s : Node} (h : NodeOk s) (p : Key) (msg : Msg) (order : List Hash) :
    NodeOk (receivedDisclosure now s p msg order).1 := by
  have hsub := substantiate_ok h p msg
  simp only [receivedDisclosure]
  split
  · exact h
  · split
    · exact hsub
    · split <;> exact signPhase_ok now hsub p order _

theorem step_ok (now : Nat) {s : Node} (h : NodeOk s) (e : Event) : NodeOk (step now s e).1 := by
  cases e with
  | addKnown l raw padded name key md => exact ⟨h.rows, h.mds, h.toks, h.trees⟩
  | disclosure p msg order => exact received_ok now h p msg order
  | attestMsg p a =>
    cases a with
    | none => exact h
    | some a =>
      simp only [step, onAttest]
      split
      · rename_i hv
        refine ⟨?_, h.mds, h.toks, h.trees⟩
        intro r hr
        rcases mem_insertAtt hr with h1 | h1
        · exact h.rows r h1
        · subst h1; exact hv
      · exact h
  | requestMissing p k => exact h
  | advertise to tok md ml => exact ⟨h.rows, h.mds, h.toks, h.trees⟩
  | selfAdvertise tok => exact ⟨h.rows, h.mds, h.toks, h.trees⟩

theorem run_inv (P : Node → Prop) (hstep : ∀ now s e, P s → P (step now s e).1) :
    ∀ (evs : List (Nat × Event)) (s : Node), P s → P (run s evs).1 := by
  intro evs
  induction evs with
  | nil => intro s h; exact h
  | cons x rest ih =>
    intro s h
    obtain ⟨t, e⟩ := x
    simp only [run]
    exact ih _ (hstep t s e h)

theorem init_ok (me : Key) (g : List (Key × Hash)) : NodeOk (init me g) := by
  refine ⟨?_, ?_, ?_, ?_⟩ <;> simp [init, lookup]

theorem run_ok (me : Key) (g : List (Key × Hash)) (evs : List (Nat × Event)) : NodeOk (run (init me g) evs).1 :=
  run_inv NodeOk (fun now _ e h => step_ok now h e) evs _ (init_ok me g)

/-! ### what an attest output of one disclosure implies -/

theorem received_attest {now : Nat} {s : Node} {p : Key} {msg : Msg} {order : List Hash} {q : Key} {mp : Hash}
    (h : Out.attest q mp ∈ (receivedDisclosure now s p msg order).2) :
    q = p ∧ (substantiate s p msg).2.1 = true ∧ (substantiate s p msg).2.2 = false ∧
    ∃ m j s', m ∈ credentials (substantiate s p msg).1 p order ∧ m.id = mp ∧ m.json = some j ∧
      shouldSign now s' p (treeOf (substantiate s p msg).1 p) m j = true ∧ s'.known = s.known ∧
      (∀ x ∈ s.attested, x ∈ s'.attested) := by
  have hfr := substantiate_frame s p msg
  simp only at hfr
  have key : Out.attest q mp ∈ (signPhase now (substantiate s p msg).1 p order (substantiate s p msg).2.1).2.1 →
      q = p ∧ (substantiate s p msg).2.1 = true ∧
      ∃ m j s', m ∈ credentials (substantiate s p msg).1 p order ∧ m.id = mp ∧ m.json = some j ∧
      shouldSign now s' p (treeOf (substantiate s p msg).1 p) m j = true ∧ s'.known = s.known ∧
      (∀ x ∈ s.attested, x ∈ s'.attested) := by
    intro ho
    simp only [signPhase] at ho
    split at ho
    · rename_i hc
      simp only [Bool.and_eq_true] at hc
      obtain ⟨m, hm, j, s', h1, h2, h3, h4, h5⟩ := signLoop_attest _ _ _ _ _ _ ho
      injection h1 with h1a h1b
      exact ⟨h1a, by simpa [Gen.signNeedsCorrect] using hc.1, m, j, s', hm, h1b.symm, h2, h3, by rw [h4, hfr.1],
             by rw [hfr.2.1] at h5; exact h5⟩
    · simp at ho
  simp only [receivedDisclosure] at h
  split at h
  · simp at h
  · split at h
    · simp at h
    · rename_i hab
      have hab' : (substantiate s p msg).2.2 = false := by simpa using hab
      split at h
      · obtain ⟨h1, h2, h3⟩ := key h
        exact ⟨h1, h2, hab', h3⟩
      · rcases List.mem_append.mp h with h | h
        · obtain ⟨h1, h2, h3⟩ := key h
          exact ⟨h1, h2, hab', h3⟩
        · simp [missingRequests] at h

theorem credentials_mem {s : Node} {p : Key} {order : List Hash} {m : Metadata} (h : m ∈ credentials s p order) :
    ⟨p, m⟩ ∈ s.mdRows := by
  simp only [credentials, List.mem_filterMap] at h
  obtain ⟨hh, _, h2⟩ := h
  cases hf : s.mdRows.find? (fun r => r.subject == p && r.md.id == hh) with
  | none => simp [hf] at h2
  | some r =>
    simp only [hf, Option.map_some, Option.some.injEq] at h2
    have hm := List.mem_of_find?_eq_some hf
    have hp := List.find?_some hf
    simp only [Bool.and_eq_true, beq_iff_eq] at hp
    subst h2
    have : r = ⟨p, r.md⟩ := by cases r; simp_all
    rw [← this]; exact hm

/-! ### frames of the handlers -/

theorem signPhase_frame (now : Nat) (s1 : Node) (p : Key) (order : List Hash) (c : Bool) :
    (signPhase now s1 p order c).1.known = s1.known ∧ (signPhase now s1 p order c).1.me = s1.me ∧
    (signPhase now s1 p order c).1.chain = s1.chain ∧ (signPhase now s1 p order c).1.perms = s1.perms := by
  simp only [signPhase]
  split
  · obtain ⟨a, b, c', d, _⟩ := signLoop_frame now p (treeOf s1 p) (credentials s1 p order) s1
    exact ⟨a, b, c', d⟩
  · simp

theorem received_frame (now : Nat) (s : Node) (p : Key) (msg : Msg) (order : List Hash) :
    (receivedDisclosure now s p msg order).1.known = s.known ∧ (receivedDisclosure now s p msg order).1.me = s.me ∧
    (receivedDisclosure now s p msg order).1.chain = s.chain ∧
    (receivedDisclosure now s p msg order).1.perms = s.perms := by
  have hfr := substantiate_frame s p msg
  simp only at hfr
  have hsp := signPhase_frame now (substantiate s p msg).1 p order (substantiate s p msg).2.1
  simp only [receivedDisclosure]
  split
  · simp
  · split
    · exact ⟨hfr.1, hfr.2.2.1, hfr.2.2.2.1, hfr.2.2.2.2.1⟩
    · split <;> exact ⟨hsp.1.trans hfr.1, hsp.2.1.trans hfr.2.2.1, hsp.2.2.1.trans hfr.2.2.2.1,
                        hsp.2.2.2.trans hfr.2.2.2.2.1⟩

/-! ### provenance of the consent table over a history -/

/-- `x` is the add_known_hash call that stored `r` under `h` -/
def regEvent (h : Hash) (r : Reg) (x : Nat × Event) : Prop :=
  ∃ len raw padded, x = (r.t, Event.addKnown len raw padded r.name r.key r.md) ∧
    h = (if len = Gen.padLen then padded else raw)

def KnownFrom (tr : List (Nat × Event)) (s : Node) : Prop :=
  ∀ h r, lookup h s.known = some r → ∃ x ∈ tr, regEvent h r x

theorem step_knownFrom (pre : List (Nat × Event)) (t : Nat) (s : Node) (e : Event) (h : KnownFrom pre s) :
    KnownFrom (pre ++ [(t, e)]) (step t s e).1 := by
  have weaken : ∀ s' : Node, s'.known = s.known → KnownFrom (pre ++ [(t, e)]) s' := by
    intro s' hk hh r hl
    rw [hk] at hl
    obtain ⟨x, hx, hr⟩ := h hh r hl
    exact ⟨x, List.mem_append_left _ hx, hr⟩
  cases e with
  | addKnown l raw padded name key md =>
    intro hh r hl
    simp only [step, addKnown, lookup_insertDict] at hl
    by_cases heq : (if l = Gen.padLen then padded else raw) = hh
    · rw [if_pos heq] at hl
      simp only [Option.some.injEq] at hl
      subst hl
      exact ⟨_, by simp, l, raw, padded, rfl, heq.symm⟩
    · rw [if_neg heq] at hl
      obtain ⟨x, hx, hr⟩ := h hh r hl
      exact ⟨x, List.mem_append_left _ hx, hr⟩
  | disclosure p msg order => exact weaken _ (received_frame t s p msg order).1
  | attestMsg p a =>
    apply weaken
    cases a with
    | none => rfl
    | some a => simp only [step, onAttest]; split <;> rfl
  | requestMissing p k => exact weaken _ rfl
  | advertise to tok md ml => exact weaken _ rfl
  | selfAdvertise tok => exact weaken _ rfl

theorem run_knownFrom : ∀ (evs pre : List (Nat × Event)) (s : Node), KnownFrom pre s →
    KnownFrom (pre ++ evs) (run s evs).1 := by
  intro evs
  induction evs with
  | nil => intro pre s h; simpa [run] using h
  | cons x rest ih =>
    intro pre s h
    obtain ⟨t, e⟩ := x
    simp only [run]
    have := ih (pre ++ [(t, e)]) _ (step_knownFrom pre t s e h)
    simpa [List.append_assoc] using this

theorem init_knownFrom (me : Key) (g : List (Key × Hash)) : KnownFrom [] (init me g) := by
  intro h r hl; simp [init, lookup] at hl

/-! ### the record of own attestations over a history -/

theorem attestsOf_map (t : Nat) (outs : List Out) :
    attestsOf (outs.map (fun o => (t, o))) = outs.filterMap attestMp := by
  simp [attestsOf, List.filterMap_map, Function.comp_def]

theorem step_attested (now : Nat) (s : Node) (e : Event) :
    (∀ x ∈ s.attested, x ∈ (step now s e).1.attested) ∧
    (∀ mp ∈ (step now s e).2.filterMap attestMp, mp ∈ (step now s e).1.attested ∧ mp ∉ s.attested) ∧
    ((step now s e).2.filterMap attestMp).Nodup := by
  cases e with
  | addKnown l raw padded name key md => simp [step, addKnown]
  | attestMsg p a =>
    cases a with
    | none => simp [step, onAttest]
    | some a => simp only [step, onAttest]; split <;> simp
  | requestMissing p k => simp [step, attestMp, List.filterMap]
  | advertise to tok md ml => simp [step, attestMp, List.filterMap]
  | selfAdvertise tok => simp [step]
  | disclosure p msg order =>
    have hfr := substantiate_frame s p msg
    simp only at hfr
    have hph : (∀ x ∈ s.attested, x ∈ (signPhase now (substantiate s p msg).1 p order (substantiate s p msg).2.1).1.attested) ∧
        (∀ mp ∈ (signPhase now (substantiate s p msg).1 p order (substantiate s p msg).2.1).2.1.filterMap attestMp,
          mp ∈ (signPhase now (substantiate s p msg).1 p order (substantiate s p msg).2.1).1.attested ∧ mp ∉ s.attested) ∧
        ((signPhase now (substantiate s p msg).1 p order (substantiate s p msg).2.1).2.1.filterMap attestMp).Nodup := by
      simp only [signPhase]
      split
      · have := signLoop_attested now p (treeOf (substantiate s p msg).1 p)
          (credentials (substantiate s p msg).1 p order) (substantiate s p msg).1
        rw [hfr.2.1] at this
        exact this
      · simp [hfr.2.1]
    have hmiss : ∀ s1 : Node, (missingRequests s1 p).filterMap attestMp = [] := by
      intro s1; simp [missingRequests, List.filterMap_map, Function.comp_def, attestMp]
    simp only [step, receivedDisclosure]
    split
    · simp
    · split
      · simp [hfr.2.1]
      · split
        · exact hph
        · simp only [List.filterMap_append, hmiss, List.append_nil]
          exact hph

theorem run_attested : ∀ (evs : List (Nat × Event)) (s : Node),
    (∀ x ∈ s.attested, x ∈ (run s evs).1.attested) ∧
    (∀ mp ∈ attestsOf (run s evs).2, mp ∈ (run s evs).1.attested ∧ mp ∉ s.attested) ∧
    (attestsOf (run s evs).2).Nodup := by
  intro evs
  induction evs with
  | nil => intro s; simp [run, attestsOf]
  | cons x rest ih =>
    intro s
    obtain ⟨t, e⟩ := x
    obtain ⟨a1, a2, a3⟩ := step_attested t s e
    obtain ⟨b1, b2, b3⟩ := ih (step t s e).1
    simp only [run]
    have happ : attestsOf ((step t s e).2.map (fun o => (t, o)) ++ (run (step t s e).1 rest).2)
        = (step t s e).2.filterMap attestMp ++ attestsOf (run (step t s e).1 rest).2 := by
      simp [attestsOf, List.filterMap_append, List.filterMap_map, Function.comp_def]
    rw [happ]
    refine ⟨fun x hx => b1 x (a1 x hx), ?_, ?_⟩
    · intro mp hmp
      rcases List.mem_append.mp hmp with h | h
      · exact ⟨b1 mp (a2 mp h).1, (a2 mp h).2⟩
      · exact ⟨(b2 mp h).1, fun hc => (b2 mp h).2 (a1 mp hc)⟩
    · rw [List.nodup_append]
      refine ⟨a3, b3, ?_⟩
      intro x hx y hy hxy
      subst hxy
      exact (b2 x hy).2 (a2 x hx).1

/-! ### own chain and permissions -/

theorem step_chain_prefix (now : Nat) (s : Node) (e : Event) : s.chain <+: (step now s e).1.chain := by
  cases e with
  | addKnown l raw padded name key md => exact List.prefix_refl _
  | disclosure p msg order =>
    show s.chain <+: (receivedDisclosure now s p msg order).1.chain
    rw [(received_frame now s p msg order).2.2.1]; exact List.prefix_refl _
  | attestMsg p a =>
    cases a with
    | none => exact List.prefix_refl _
    | some a => simp only [step, onAttest]; split <;> exact List.prefix_refl _
  | requestMissing p k => exact List.prefix_refl _
  | advertise to tok md ml => exact List.prefix_append _ _
  | selfAdvertise tok => exact List.prefix_append _ _

theorem run_chain_prefix : ∀ (evs : List (Nat × Event)) (s : Node), s.chain <+: (run s evs).1.chain := by
  intro evs
  induction evs with
  | nil => intro s; exact List.prefix_refl _
  | cons x rest ih =>
    intro s
    obtain ⟨t, e⟩ := x
    simp only [run]
    exact List.IsPrefix.trans (step_chain_prefix t s e) (ih _)

/-- permission entries never exceed the chain and exist only for peers an `advertise` event named -/
def PermsFrom (tr : List (Nat × Event)) (s : Node) : Prop :=
  ∀ p n, lookup p s.perms = some n → n ≤ s.chain.length ∧ ∃ t tok md ml, (t, Event.advertise p tok md ml) ∈ tr

theorem step_permsFrom (pre : List (Nat × Event)) (t : Nat) (s : Node) (e : Event) (h : PermsFrom pre s) :
    PermsFrom (pre ++ [(t, e)]) (step t s e).1 := by
  have weaken : ∀ s' : Node, s'.perms = s.perms → s.chain.length ≤ s'.chain.length →
      PermsFrom (pre ++ [(t, e)]) s' := by
    intro s' hk hc p n hl
    rw [hk] at hl
    obtain ⟨h1, t', tok, md, ml, h2⟩ := h p n hl
    exact ⟨Nat.le_trans h1 hc, t', tok, md, ml, List.mem_append_left _ h2⟩
  cases e with
  | addKnown l raw padded name key md => exact weaken _ rfl (Nat.le_refl _)
  | disclosure p msg order =>
    exact weaken (receivedDisclosure t s p msg order).1 (received_frame t s p msg order).2.2.2
      (by rw [(received_frame t s p msg order).2.2.1]; exact Nat.le_refl _)
  | attestMsg p a =>
    cases a with
    | none => exact weaken _ rfl (Nat.le_refl _)
    | some a => simp only [step, onAttest]; split <;> exact weaken _ rfl (Nat.le_refl _)
  | requestMissing p k => exact weaken _ rfl (Nat.le_refl _)
  | selfAdvertise tok => exact weaken _ rfl (by simp [step])
  | advertise to tok md ml =>
    intro p n hl
    simp only [step, lookup_insertDict] at hl
    split at hl
    · rename_i heq
      simp only [Option.some.injEq] at hl
      subst heq
      exact ⟨by simp [step, ← hl], t, tok, md, ml, by simp⟩
    · obtain ⟨h1, t', tok', md', ml', h2⟩ := h p n hl
      exact ⟨by simp [step]; omega, t', tok', md', ml', List.mem_append_left _ h2⟩

theorem run_permsFrom : ∀ (evs pre : List (Nat × Event)) (s : Node), PermsFrom pre s →
    PermsFrom (pre ++ evs) (run s evs).1 := by
  intro evs
  induction evs with
  | nil => intro pre s h; simpa [run] using h
  | cons x rest ih =>
    intro pre s h
    obtain ⟨t, e⟩ := x
    simp only [run]
    have := ih (pre ++ [(t, e)]) _ (step_permsFrom pre t s e h)
    simpa [List.append_assoc] using this

theorem init_permsFrom (me : Key) (g : List (Key × Hash)) : PermsFrom [] (init me g) := by
  intro p n hl; simp [init, lookup] at hl

/-! ### rows and outputs of one disclosure -/

theorem substantiate_rows {s : Node} {p : Key} {msg : Msg} {r : AttRow} (h : r ∈ (substantiate s p msg).1.attRows) :
    r ∈ s.attRows ∨ (r.subject = p ∧ verifies r.att.vk r.authority = true ∧ (r.authority, r.att) ∈ msg.atts) := by
  simp only [substantiate] at h
  split at h
  · exact Or.inl h
  · split at h
    · exact Or.inl h
    · exact foldl_insertAtt_mem p _ _ r h

theorem received_rows {now : Nat} {s : Node} {p : Key} {msg : Msg} {order : List Hash} {r : AttRow}
    (h : r ∈ (receivedDisclosure now s p msg order).1.attRows) :
    r ∈ s.attRows ∨ (r.subject = p ∧ verifies r.att.vk r.authority = true ∧ (r.authority, r.att) ∈ msg.atts) ∨
      (r.subject = p ∧ r.authority = s.me ∧ verifies r.att.vk r.authority = true) := by
  have hfr := substantiate_frame s p msg
  simp only at hfr
  have hph : r ∈ (signPhase now (substantiate s p msg).1 p order (substantiate s p msg).2.1).1.attRows →
      r ∈ (substantiate s p msg).1.attRows ∨ (r.subject = p ∧ r.authority = s.me ∧ verifies r.att.vk r.authority = true) := by
    intro hr
    simp only [signPhase] at hr
    split at hr
    · have := (signLoop_rows now p _ _ _).2 r hr
      rw [hfr.2.2.1] at this
      exact this
    · exact Or.inl hr
  have fin : r ∈ (substantiate s p msg).1.attRows ∨ (r.subject = p ∧ r.authority = s.me ∧ verifies r.att.vk r.authority = true) →
      r ∈ s.attRows ∨ (r.subject = p ∧ verifies r.att.vk r.authority = true ∧ (r.authority, r.att) ∈ msg.atts) ∨
      (r.subject = p ∧ r.authority = s.me ∧ verifies r.att.vk r.authority = true) := by
    intro h1
    rcases h1 with h1 | h1
    · rcases substantiate_rows h1 with h2 | h2
      · exact Or.inl h2
      · exact Or.inr (Or.inl h2)
    · exact Or.inr (Or.inr h1)
  simp only [receivedDisclosure] at h
  split at h
  · exact Or.inl h
  · split at h
    · exact fin (Or.inl h)
    · split at h <;> exact fin (hph h)

theorem received_outs {now : Nat} {s : Node} {p : Key} {msg : Msg} {order : List Hash} {o : Out}
    (h : o ∈ (receivedDisclosure now s p msg order).2) :
    (∃ mp, o = Out.attest p mp) ∨ (∃ n, o = Out.requestMissing p n) := by
  have hph : o ∈ (signPhase now (substantiate s p msg).1 p order (substantiate s p msg).2.1).2.1 →
      ∃ mp, o = Out.attest p mp := by
    intro ho
    simp only [signPhase] at ho
    split at ho
    · obtain ⟨m, _, _, _, h1, _⟩ := signLoop_attest _ _ _ _ _ _ ho
      exact ⟨m.id, h1⟩
    · simp at ho
  simp only [receivedDisclosure] at h
  split at h
  · simp at h
  · split at h
    · simp at h
    · split at h
      · exact Or.inl (hph h)
      · rcases List.mem_append.mp h with h | h
        · exact Or.inl (hph h)
        · simp only [missingRequests, List.mem_map] at h
          obtain ⟨_, _, h2⟩ := h
          exact Or.inr ⟨_, h2.symm⟩

/-! ### splitting a history -/

theorem run_append (s : Node) (a b : List (Nat × Event)) :
    run s (a ++ b) = ((run (run s a).1 b).1, (run s a).2 ++ (run (run s a).1 b).2) := by
  induction a generalizing s with
  | nil => simp [run]
  | cons x rest ih =>
    obtain ⟨t, e⟩ := x
    simp only [List.cons_append, run, ih, List.append_assoc]

theorem step_perm_stable (now : Nat) (s : Node) (e : Event) (p : Key)
    (h : ∀ tok md ml, e ≠ Event.advertise p tok md ml) : lookup p (step now s e).1.perms = lookup p s.perms := by
  cases e with
  | addKnown l raw padded name key md => rfl
  | disclosure q msg order =>
    show lookup p (receivedDisclosure now s q msg order).1.perms = _
    rw [(received_frame now s q msg order).2.2.2]
  | attestMsg q a =>
    cases a with
    | none => rfl
    | some a => simp only [step, onAttest]; split <;> rfl
  | requestMissing q k => rfl
  | selfAdvertise tok => rfl
  | advertise to tok md ml =>
    simp only [step, lookup_insertDict]
    split
    · rename_i heq
      subst heq
      exact absurd rfl (h tok md ml)
    · rfl

theorem run_perm_stable (p : Key) : ∀ (post : List (Nat × Event)) (s : Node),
    (∀ x ∈ post, ∀ tok md ml, x.2 ≠ Event.advertise p tok md ml) →
    lookup p (run s post).1.perms = lookup p s.perms := by
  intro post
  induction post with
  | nil => intro s _; rfl
  | cons x rest ih =>
    intro s h
    obtain ⟨t, e⟩ := x
    simp only [run]
    rw [ih _ (fun y hy => h y (List.mem_cons_of_mem _ hy))]
    exact step_perm_stable t s e p (h (t, e) (by simp))

/-! ### every tree token has a path to the genesis hash -/

theorem Rooted.mono {gen : Hash} {els els' : List Token} (hsub : ∀ x ∈ els, x ∈ els') {x : Token}
    (h : Rooted gen els x) : Rooted gen els' x := by
  induction h with
  | base hx hp => exact Rooted.base (hsub _ hx) hp
  | step hx hy hid _ ih => exact Rooted.step (hsub _ hx) (hsub _ hy) hid ih

def TreeRooted (gen : Hash) (t : Tree) : Prop := ∀ x ∈ t.elements, Rooted gen t.elements x

/-- appending a token whose predecessor is the genesis hash or a stored token keeps the tree rooted; elements only grow -/
theorem appendReact_rooted (gen : Hash) : ∀ (fuel : Nat) (t : Tree) (tok : Token),
    TreeRooted gen t → (tok.prev = gen ∨ ∃ y ∈ t.elements, y.id = tok.prev) →
    TreeRooted gen (appendReact fuel t tok) ∧ (∀ x ∈ t.elements, x ∈ (appendReact fuel t tok).elements) ∧
      tok ∈ (appendReact fuel t tok).elements := by
  intro fuel
  have base1 : ∀ (t : Tree) (tok : Token) (u : List Token), TreeRooted gen t →
      (tok.prev = gen ∨ ∃ y ∈ t.elements, y.id = tok.prev) →
      TreeRooted gen { elements := t.elements ++ [tok], unchained := u } := by
    intro t tok u ht hp x hx
    have hsub : ∀ z ∈ t.elements, z ∈ t.elements ++ [tok] := fun z hz => List.mem_append_left _ hz
    rcases List.mem_append.mp hx with hx | hx
    · exact (ht x hx).mono hsub
    · simp at hx; subst hx
      rcases hp with hp | ⟨y, hy, hid⟩
      · exact Rooted.base (by simp) hp
      · exact Rooted.step (by simp) (hsub y hy) hid ((ht y hy).mono hsub)
  induction fuel with
  | zero =>
    intro t tok ht hp
    simp only [appendReact]
    exact ⟨base1 t tok t.unchained ht hp, fun x hx => List.mem_append_left _ hx, by simp⟩
  | succ n ih =>
    intro t tok ht hp
    have gen' : ∀ (l : List Token) (acc : Tree), TreeRooted gen acc → tok ∈ acc.elements →
        (∀ r ∈ l, r.prev = tok.id) →
        TreeRooted gen (l.foldl (fun acc r => if (acc.find? r.id).isSome then acc else appendReact n acc r) acc) ∧
        (∀ x ∈ acc.elements, x ∈ (l.foldl (fun acc r => if (acc.find? r.id).isSome then acc
            else appendReact n acc r) acc).elements) := by
      intro l
      induction l with
      | nil => intro acc h _ _; exact ⟨h, fun x hx => hx⟩
      | cons r rest ihl =>
        intro acc h htok hr
        simp only [List.foldl_cons]
        by_cases hf : (acc.find? r.id).isSome = true
        · simp only [hf, if_true]
          exact ihl acc h htok (fun x hx => hr x (List.mem_cons_of_mem _ hx))
        · simp only [hf]
          obtain ⟨a1, a2, _⟩ := ih acc r h (Or.inr ⟨tok, htok, (hr r (by simp)).symm⟩)
          obtain ⟨b1, b2⟩ := ihl _ a1 (a2 _ htok) (fun x hx => hr x (List.mem_cons_of_mem _ hx))
          exact ⟨b1, fun x hx => b2 x (a2 x hx)⟩
    simp only [appendReact]
    have h1 := base1 t tok (t.unchained.filter (fun x => !(x.prev == tok.id))) ht hp
    obtain ⟨c1, c2⟩ := gen' (t.unchained.filter (fun x => x.prev == tok.id)) _ h1 (by simp)
      (fun r hr => by simpa using (List.mem_filter.mp hr).2)
    exact ⟨c1, fun x hx => c2 x (List.mem_append_left _ hx), c2 tok (by simp)⟩

theorem gather_rooted (k : Key) (gen : Hash) (t : Tree) (tok : Token) (ht : TreeRooted gen t) :
    TreeRooted gen (gather k gen t tok).1 := by
  unfold gather
  split
  · exact ht
  · split
    · exact ht
    · rename_i hnot
      split
      · exact ht
      · apply (appendReact_rooted gen _ t tok ht _).1
        by_cases hg : tok.prev = gen
        · exact Or.inl hg
        · right
          cases hf : t.find? tok.prev with
          | none => simp [hf, hg] at hnot
          | some y => exact ⟨y, (find?_mem_elements hf).1, (find?_mem_elements hf).2⟩

theorem gatherAll_rooted (k : Key) (gen : Hash) : ∀ (toks : List Token) (t : Tree), TreeRooted gen t →
    TreeRooted gen (gatherAll k gen t toks).1 := by
  intro toks
  induction toks with
  | nil => intro t ht; simpa [gatherAll] using ht
  | cons tok rest ih =>
    intro t ht
    simp only [gatherAll]
    exact ih _ (gather_rooted k gen t tok ht)

/-- node invariant: every per-subject tree (cached, or as it would be loaded from the Tokens table) is rooted in that
    subject's genesis hash -/
def TreesRooted (s : Node) : Prop := ∀ k, TreeRooted (genesisOf s k) (treeOf s k)

theorem treeOf_rooted {s : Node} (h : TreesRooted s) (k : Key) : TreeRooted (genesisOf s k) (treeOf s k) := h k

theorem substantiate_rooted {s : Node} (h : TreesRooted s) (p : Key) (msg : Msg) :
    TreesRooted (substantiate s p msg).1 := by
  have hg : ∀ k, genesisOf (substantiate s p msg).1 k = genesisOf s k := by
    intro k; simp only [genesisOf]; rw [(substantiate_frame s p msg).2.2.2.2.2]
  intro k
  rw [hg, treeOf_substantiate]
  split
  · rename_i hk
    subst hk
    exact gatherAll_rooted _ _ _ _ (h k)
  · exact h k

theorem treeOf_congr {s' s : Node} (h1 : s'.trees = s.trees) (h2 : s'.tokRows = s.tokRows) (k : Key) :
    treeOf s' k = treeOf s k := by
  unfold treeOf loadTree
  rw [h1, h2]

theorem signPhase_treeOf (now : Nat) (s1 : Node) (p : Key) (order : List Hash) (c : Bool) (k : Key) :
    treeOf (signPhase now s1 p order c).1 k = treeOf s1 k ∧ (signPhase now s1 p order c).1.genesis = s1.genesis := by
  simp only [signPhase]
  split
  · obtain ⟨_, _, _, _, _, f6, f7⟩ := signLoop_frame now p (treeOf s1 p) (credentials s1 p order) s1
    have f8 := signLoop_tokRows now p (treeOf s1 p) (credentials s1 p order) s1
    exact ⟨treeOf_congr f6 f8 k, f7⟩
  · simp

theorem received_rooted (now : Nat) {s : Node} (h : TreesRooted s) (p : Key) (msg : Msg) (order : List Hash) :
    TreesRooted (receivedDisclosure now s p msg order).1 ∧
      (receivedDisclosure now s p msg order).1.genesis = s.genesis := by
  have hsub := substantiate_rooted h p msg
  have hgen := (substantiate_frame s p msg).2.2.2.2.2
  have hph := signPhase_treeOf now (substantiate s p msg).1 p order (substantiate s p msg).2.1
  have lift : TreesRooted (signPhase now (substantiate s p msg).1 p order (substantiate s p msg).2.1).1 := by
    intro k
    have := hsub k
    rw [(hph k).1]
    simpa [genesisOf, (hph k).2] using this
  simp only [receivedDisclosure]
  split
  · exact ⟨h, rfl⟩
  · split
    · exact ⟨hsub, hgen⟩
    · split <;> exact ⟨lift, (hph 0).2.trans hgen⟩

theorem step_rooted (now : Nat) {s : Node} (h : TreesRooted s) (e : Event) :
    TreesRooted (step now s e).1 ∧ (step now s e).1.genesis = s.genesis := by
  cases e with
  | addKnown l raw padded name key md => exact ⟨h, rfl⟩
  | disclosure p msg order => exact received_rooted now h p msg order
  | attestMsg p a =>
    cases a with
    | none => exact ⟨h, rfl⟩
    | some a => simp only [step, onAttest]; split <;> exact ⟨h, rfl⟩
  | requestMissing p k => exact ⟨h, rfl⟩
  | advertise to tok md ml => exact ⟨h, rfl⟩
  | selfAdvertise tok => exact ⟨h, rfl⟩

theorem init_rooted (me : Key) (g : List (Key × Hash)) : TreesRooted (init me g) := by
  intro k x hx; simp [init, treeOf, loadTree, lookup] at hx

/-! ### object lifetimes: a new object over an arbitrary, valid database -/

/-- the state of a newly created object: empty consent table, record and permissions; whatever database (and, if the
    old IdentityManager is reused, whatever cached per-subject trees) earlier objects left behind, as long as what is
    stored verifies -/
structure Started (g : List (Key × Hash)) (s : Node) : Prop where
  known : s.known = []
  attested : s.attested = []
  perms : s.perms = []
  genesis : s.genesis = g
  ok : NodeOk s

theorem init_started (me : Key) (g : List (Key × Hash)) : Started g (init me g) :=
  ⟨rfl, rfl, rfl, rfl, init_ok me g⟩

theorem restartOf_started {g : List (Key × Hash)} {s : Node} (hok : NodeOk s) (hg : s.genesis = g)
    (c : List Hash) (keep : Bool) : Started g (restartOf s c keep) := by
  refine ⟨rfl, rfl, rfl, hg, ⟨hok.rows, hok.mds, hok.toks, ?_⟩⟩
  intro k t hl
  cases keep with
  | false => simp [restartOf, lookup] at hl
  | true => exact hok.trees k t (by simpa [restartOf] using hl)

/-- with the OLD manager every tree stays what it was, so rootedness carries over; with a NEW manager the trees are
    reloaded from the Tokens table, which may lack ancestors that arrived in a message whose parsing later raised -/
theorem restartOf_keep_rooted {s : Node} (hr : TreesRooted s) (c : List Hash) : TreesRooted (restartOf s c true) := by
  intro k
  have := hr k
  simpa [restartOf, treeOf, loadTree, genesisOf] using this

theorem run_ok' {s : Node} (h : NodeOk s) (evs : List (Nat × Event)) : NodeOk (run s evs).1 :=
  run_inv NodeOk (fun now _ e h => step_ok now h e) evs _ h

theorem run_rooted' {g : List (Key × Hash)} {s : Node} (h : TreesRooted s) (hg : s.genesis = g)
    (evs : List (Nat × Event)) : TreesRooted (run s evs).1 ∧ (run s evs).1.genesis = g :=
  run_inv (fun s => TreesRooted s ∧ s.genesis = g)
    (fun now _ e h => ⟨(step_rooted now h.1 e).1, (step_rooted now h.1 e).2.trans h.2⟩) evs s ⟨h, hg⟩

theorem run_genesis (s : Node) (evs : List (Nat × Event)) : (run s evs).1.genesis = s.genesis := by
  induction evs generalizing s with
  | nil => rfl
  | cons x rest ih =>
    obtain ⟨t, e⟩ := x
    simp only [run]
    rw [ih]
    cases e with
    | addKnown l raw padded name key md => rfl
    | disclosure p msg order =>
      simp only [step, receivedDisclosure]
      have hgen := (substantiate_frame s p msg).2.2.2.2.2
      have hph := fun c => (signPhase_treeOf t (substantiate s p msg).1 p order c 0).2
      split
      · rfl
      · split
        · exact hgen
        · split <;> exact (hph _).trans hgen
    | attestMsg p a =>
      cases a with
      | none => rfl
      | some a => simp only [step, onAttest]; split <;> rfl
    | requestMissing p k => rfl
    | advertise to tok md ml => rfl
    | selfAdvertise tok => rfl

theorem started_knownFrom {g : List (Key × Hash)} {s : Node} (h : Started g s) : KnownFrom [] s := by
  intro hh r hl; simp [h.known, lookup] at hl

theorem started_permsFrom {g : List (Key × Hash)} {s : Node} (h : Started g s) : PermsFrom [] s := by
  intro p n hl; simp [h.perms, lookup] at hl

/-- any number of lifetimes: each is a history followed by a restart (reloaded chain, old manager kept or not) -/
def lifetimes (s : Node) : List (List (Nat × Event) × List Hash × Bool) → Node
  | [] => s
  | (evs, c, keep) :: rest => lifetimes (restartOf (run s evs).1 c keep) rest

theorem lifetimes_started {g : List (Key × Hash)} : ∀ (ls : List (List (Nat × Event) × List Hash × Bool)) (s : Node),
    Started g s → Started g (lifetimes s ls) := by
  intro ls
  induction ls with
  | nil => intro s h; exact h
  | cons x rest ih =>
    intro s h
    obtain ⟨evs, c, keep⟩ := x
    simp only [lifetimes]
    exact ih _ (restartOf_started (run_ok' h.ok evs) ((run_genesis s evs).trans h.genesis) c keep)

/-! ### the last advertise call naming a peer -/

def isAdvertiseTo (p : Key) (x : Nat × Event) : Prop := ∃ tok md ml, x.2 = Event.advertise p tok md ml

theorem exists_last_advertise (p : Key) : ∀ (pre : List (Nat × Event)),
    (∃ x ∈ pre, isAdvertiseTo p x) →
    ∃ pre1 t tok md ml post, pre = pre1 ++ (t, Event.advertise p tok md ml) :: post ∧
      ∀ x ∈ post, ∀ tok' md' ml', x.2 ≠ Event.advertise p tok' md' ml' := by
  intro pre
  induction pre with
  | nil => intro h; obtain ⟨x, hx, _⟩ := h; simp at hx
  | cons y rest ih =>
    intro h
    by_cases hr : ∃ x ∈ rest, isAdvertiseTo p x
    · obtain ⟨pre1, t, tok, md, ml, post, he, hp⟩ := ih hr
      exact ⟨y :: pre1, t, tok, md, ml, post, by simp [he], hp⟩
    · obtain ⟨x, hx, tok, md, ml, hxe⟩ := h
      rcases List.mem_cons.mp hx with hxy | hxr
      · subst hxy
        obtain ⟨t, e⟩ := x
        simp only at hxe
        subst hxe
        refine ⟨[], t, tok, md, ml, rest, by simp, ?_⟩
        intro z hz tok' md' ml' hze
        exact hr ⟨z, hz, tok', md', ml', hze⟩
      · exact absurd ⟨x, hxr, tok, md, ml, hxe⟩ hr

/-! ### the database guard: an own row that is stored blocks a further attestation, in any state -/

theorem shouldSign_db {now : Nat} {s : Node} {p : Key} {tree : Tree} {m : Metadata} {j : Json}
    (h : shouldSign now s p tree m j = true) : attestedInDb s.attRows s.me m.id = false := by
  simp only [shouldSign, Gen.guards, List.all_cons, List.all_nil, Bool.and_true, Bool.and_eq_true] at h
  obtain ⟨_, _, _, _, _, _, _, _, h9⟩ := h
  simpa [guardOk] using h9

theorem insertAtt_prefix (rows : List AttRow) (r : AttRow) : rows <+: insertAtt rows r := by
  unfold insertAtt
  split
  · exact List.prefix_refl _
  · exact List.prefix_append _ _

theorem foldl_insertAtt_prefix (p : Key) : ∀ (atts : List (Key × Att)) (rows : List AttRow),
    rows <+: atts.foldl (fun rows a => if verifies a.2.vk a.1 then insertAtt rows ⟨p, a.1, a.2⟩ else rows) rows := by
  intro atts
  induction atts with
  | nil => intro rows; exact List.prefix_refl _
  | cons a rest ih =>
    intro rows
    simp only [List.foldl_cons]
    refine List.IsPrefix.trans ?_ (ih _)
    split
    · exact insertAtt_prefix _ _
    · exact List.prefix_refl _

theorem substantiate_rows_prefix (s : Node) (p : Key) (msg : Msg) : s.attRows <+: (substantiate s p msg).1.attRows := by
  simp only [substantiate]
  split
  · exact List.prefix_refl _
  · split
    · exact List.prefix_refl _
    · exact foldl_insertAtt_prefix p _ _

theorem signLoop_attest_rows (now : Nat) (p : Key) (tree : Tree) : ∀ (mds : List Metadata) (s : Node) (o : Out),
    o ∈ (signLoop now p tree s mds).2.1 →
    ∃ m j s', o = Out.attest p m.id ∧ shouldSign now s' p tree m j = true ∧ s.attRows <+: s'.attRows ∧ s'.me = s.me := by
  intro mds
  induction mds with
  | nil => intro s o h; simp [signLoop] at h
  | cons m rest ih =>
    intro s o h
    cases hj : m.json with
    | none => simp [signLoop, hj] at h
    | some j =>
      by_cases hs : shouldSign now s p tree m j = true
      · simp only [signLoop, hj, hs, if_true] at h
        rcases List.mem_cons.mp h with h | h
        · exact ⟨m, j, s, h, hs, List.prefix_refl _, rfl⟩
        · obtain ⟨m', j', s', h1, h2, h3, h4⟩ := ih _ o h
          refine ⟨m', j', s', h1, h2, List.IsPrefix.trans ?_ h3, ?_⟩
          · simpa [recordAttest] using insertAtt_prefix s.attRows ⟨p, s.me, ownAtt s.me m.id⟩
          · simpa [recordAttest] using h4
      · simp only [signLoop, hj, hs] at h
        exact ih s o h

/-- appending rows never changes which authority the FIRST row with a given signature names -/
theorem attestedInDb_mono {rows rows' : List AttRow} (hp : rows <+: rows') (me : Key) (mp : Hash)
    (h : attestedInDb rows me mp = true) : attestedInDb rows' me mp = true := by
  obtain ⟨ext, rfl⟩ := hp
  simp only [attestedInDb, List.any_eq_true, Bool.and_eq_true, beq_iff_eq] at h ⊢
  obtain ⟨x, hx, hm, ha⟩ := h
  refine ⟨x, List.mem_append_left _ hx, hm, ?_⟩
  simp only [getAuthority] at ha ⊢
  cases hf : rows.find? (fun y => y.att.sig == x.att.sig) with
  | none => simp [hf] at ha
  | some y => simp [List.find?_append, hf] at ha ⊢; exact ha

theorem received_attest_db {now : Nat} {s : Node} {p : Key} {msg : Msg} {order : List Hash} {q : Key} {mp : Hash}
    (h : Out.attest q mp ∈ (receivedDisclosure now s p msg order).2) :
    ∃ m j s', m.id = mp ∧ shouldSign now s' p (treeOf (substantiate s p msg).1 p) m j = true ∧
      s.attRows <+: s'.attRows ∧ s'.me = s.me := by
  have hfr := substantiate_frame s p msg
  simp only at hfr
  have key : Out.attest q mp ∈ (signPhase now (substantiate s p msg).1 p order (substantiate s p msg).2.1).2.1 →
      ∃ m j s', m.id = mp ∧ shouldSign now s' p (treeOf (substantiate s p msg).1 p) m j = true ∧
      s.attRows <+: s'.attRows ∧ s'.me = s.me := by
    intro ho
    simp only [signPhase] at ho
    split at ho
    · obtain ⟨m, j, s', h1, h2, h3, h4⟩ := signLoop_attest_rows _ _ _ _ _ _ ho
      injection h1 with _ h1b
      exact ⟨m, j, s', h1b.symm, h2, List.IsPrefix.trans (substantiate_rows_prefix s p msg) h3, h4.trans hfr.2.2.1⟩
    · simp at ho
  simp only [receivedDisclosure] at h
  split at h
  · simp at h
  · split at h
    · simp at h
    · split at h
      · exact key h
      · rcases List.mem_append.mp h with h | h
        · exact key h
        · simp [missingRequests] at h

end Ipv8.C17
