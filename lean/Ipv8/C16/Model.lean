/-
  C16 model (core Lean only): the token tree of ipv8/attestation/tokentree.

  Mirrors
    signed_object.py  AbstractSignedObject: get_hash, verify, get_plaintext_signed, __eq__
    token.py          Token.__init__ (content / content_hash), get_plaintext, unserialize, receive_content
    tree.py           TokenTree.gather_token, unchained (OrderedDict, unchained_max_size), _append,
                      _append_chain_reaction_token, verify, get_root_path, serialize_public, unserialize_public

  Cryptography is an abstract interface `Crypto`: `hash` stands for SHA3-256, `vfy msg sig` for
  `ECCrypto.is_valid_signature(tree.public_key, msg, sig)`, `sigLen` for `public_key.get_signature_length()`.
  Nothing is assumed about them in this file; the laws a theorem needs are explicit hypotheses of that theorem.

  Python objects are modelled as values.  `elements` (dict hash -> Token, insertion ordered) is the list of its
  values in insertion order, the key of a value being its recomputed hash; `unchained` (OrderedDict keyed by Token,
  Token.__eq__ = equality of the signed plaintext) is the list of its keys in insertion order.
-/
import Ipv8.Base.Proto
import Ipv8.C16.GenConst

namespace Ipv8.C16
open Ipv8

structure Crypto where
  hash : Bytes → Bytes
  vfy : Bytes → Bytes → Bool
  sigLen : Nat

structure Token where
  prev : Bytes             -- previous_token_hash
  chash : Bytes            -- content_hash
  sig : Bytes              -- signature
  content : Option Bytes   -- content (None = not (yet) known)
deriving DecidableEq, Repr, Inhabited

namespace Token

/-- get_plaintext -/
def plain (t : Token) : Bytes := t.prev ++ t.chash
/-- get_plaintext_signed -/
def signed (t : Token) : Bytes := t.prev ++ t.chash ++ t.sig
/-- get_hash: `_hash` is computed once in `_sign` from fields that are never reassigned -/
def id (C : Crypto) (t : Token) : Bytes := C.hash t.signed
/-- verify(tree.public_key) -/
def valid (C : Crypto) (t : Token) : Bool := C.vfy t.plain t.sig
/-- both pointers are as long as the genesis hash (a SHA3-256 digest): the first test of gather_token -/
def sized (g : Bytes) (t : Token) : Bool := t.prev.length == g.length && t.chash.length == g.length
/-- what gather_token accepts to look at: digest-sized pointers, a signature of the key's signature length that
    verifies under the tree key -/
def vok (C : Crypto) (t : Token) : Bool := t.sig.length == C.sigLen && t.valid C
def ok (C : Crypto) (g : Bytes) (t : Token) : Bool := t.sized g && t.vok C
/-- __eq__ -/
def same (a b : Token) : Bool := a.signed == b.signed
/-- everything but the attached content -/
def core (t : Token) : Bytes × Bytes × Bytes := (t.prev, t.chash, t.sig)

/-- Token(prev, content=c, ...) : the content hash is computed from the content -/
def ofContent (C : Crypto) (prev c sig : Bytes) : Token := ⟨prev, C.hash c, sig, some c⟩
/-- Token(prev, content_hash=h, signature=sig) -/
def ofHash (prev chash sig : Bytes) : Token := ⟨prev, chash, sig, none⟩

/-- receive_content: the new token value and the returned bool -/
def receiveContent (C : Crypto) (t : Token) (c : Bytes) : Token × Bool :=
  if C.hash c == t.chash then ({ t with content := some c }, true) else (t, false)

/-- to_database_tuple: (previous hash, signature, content hash, content) -/
def toDatabaseTuple (t : Token) : Bytes × Bytes × Bytes × Option Bytes := (t.prev, t.sig, t.chash, t.content)

/-- from_database_tuple: build from the pointer and the signature, then hand the stored content to
    `receive_content` (which drops it when it does not hash to the pointer) -/
def ofDatabaseTuple (C : Crypto) (prev sig chash : Bytes) (content : Option Bytes) : Token :=
  match content with
  | none => ofHash prev chash sig
  | some c => ((ofHash prev chash sig).receiveContent C c).1

/-- Token.__init__(previous_token_hash, content, content_hash, ..., signature): exactly one of content /
    content_hash may be given (`none` = RuntimeError "Specify either content or content_hash!") -/
def init (C : Crypto) (prev : Bytes) (content chash : Option Bytes) (sig : Bytes) : Option Token :=
  match content, chash with
  | some c, none => some (ofContent C prev c sig)
  | none, some h => some (ofHash prev h sig)
  | _, _ => none

/-- Token.create(previous_token, content, private_key), the signature being what the key produced -/
def create (C : Crypto) (previous : Token) (content sig : Bytes) : Token :=
  ofContent C (previous.id C) content sig

/-- the content of a token is absent or hashes to its content pointer -/
def contentOk (C : Crypto) (t : Token) : Prop :=
  ∀ c, t.content = some c → C.hash c = t.chash

end Token

structure Tree where
  els : List Token
  unc : List Token
deriving Repr, DecidableEq

def Tree.empty : Tree := ⟨[], []⟩

/-- `h in self.elements` -/
def hasId (C : Crypto) (els : List Token) (h : Bytes) : Bool := els.any (fun t => t.id C == h)
/-- `self.elements[h]` -/
def lookup (C : Crypto) (els : List Token) (h : Bytes) : Option Token := els.find? (fun t => t.id C == h)

/-- `_append`: `self.elements[token.get_hash()] = token` -/
def dictSet (C : Crypto) (els : List Token) (t : Token) : List Token :=
  if hasId C els (t.id C) then els.map (fun x => if x.id C == t.id C then t else x) else els ++ [t]

/-- `self.unchained[token] = None` (an equal key keeps its place and its key object) -/
def uncStore (unc : List Token) (t : Token) : List Token :=
  if unc.any (fun x => x.same t) then unc else unc ++ [t]

/-- `self.unchained[token] = None; if len(self.unchained) > max: self.unchained.popitem(False)` -/
def uncAdd (cap : Nat) (unc : List Token) (t : Token) : List Token :=
  if (uncStore unc t).length > cap then (uncStore unc t).drop 1 else uncStore unc t

theorem uncStore_length_le (unc : List Token) (t : Token) : (uncStore unc t).length ≤ unc.length + 1 := by
  unfold uncStore
  split <;> simp

theorem uncAdd_length_le (cap : Nat) (unc : List Token) (t : Token) :
    (uncAdd cap unc t).length ≤ unc.length + 1 := by
  have := uncStore_length_le unc t
  unfold uncAdd
  split
  · simp only [List.length_drop]; omega
  · exact this

/-- the duplicate branch of gather_token: the stored token takes over the content of the offered one -/
def absorb (C : Crypto) (els : List Token) (t : Token) : List Token :=
  els.map (fun x =>
    if x.id C == t.id C then
      match x.content, t.content with
      | none, some c => (x.receiveContent C c).1
      | _, _ => x
    else x)

/-- the waiting tokens that point to hash `h` (in waiting order) / the others -/
def kidsOf (unc : List Token) (h : Bytes) : List Token := unc.filter (fun u => u.prev == h)
def othersOf (unc : List Token) (h : Bytes) : List Token := unc.filter (fun u => !(u.prev == h))

theorem filter_split_length (p : Token → Bool) (l : List Token) :
    (l.filter p).length + (l.filter (fun u => !p u)).length = l.length := by
  induction l with
  | nil => rfl
  | cons a l ih =>
    by_cases h : p a = true
    · simp [h]; omega
    · simp [h]; omega

/--
  gather_token on every token of `stack`, depth first.  One step = one call of gather_token(r):
    1. a pointer is not digest sized, or the signature check fails   -> None
    2. parent neither genesis nor an element          -> stored in `unchained`, None
    3. own hash already an element                    -> content handed to the stored token, returns it
    4. `_append_chain_reaction_token`: append, take every waiting token that points to the new one out of
       `unchained` and call gather_token on each of them in turn (these calls nest, hence the stack).
-/
def drain (C : Crypto) (g : Bytes) (cap : Nat) (els unc stack : List Token) : Tree :=
  match stack with
  | [] => ⟨els, unc⟩
  | r :: rest =>
    if !r.ok C g then drain C g cap els unc rest
    else if r.prev != g && !hasId C els r.prev then drain C g cap els (uncAdd cap unc r) rest
    else if hasId C els (r.id C) then drain C g cap (absorb C els r) unc rest
    else
      drain C g cap (els ++ [r]) (othersOf unc (r.id C)) (kidsOf unc (r.id C) ++ rest)
termination_by (unc.length + stack.length, stack.length)
decreasing_by
  · simp_wf; apply Prod.Lex.left; omega
  · simp_wf
    have h : (uncAdd cap unc r).length ≤ unc.length + 1 := uncAdd_length_le cap unc r
    rcases Nat.lt_or_ge ((uncAdd cap unc r).length + rest.length) (unc.length + (rest.length + 1)) with h1 | h1
    · exact Prod.Lex.left _ _ h1
    · have : (uncAdd cap unc r).length + rest.length = unc.length + (rest.length + 1) := by omega
      rw [this]; exact Prod.Lex.right _ (by omega)
  · simp_wf; apply Prod.Lex.left; omega
  · simp_wf
    apply Prod.Lex.left
    have := filter_split_length (fun u => u.prev == r.id C) unc
    simp only [kidsOf, othersOf]
    omega

/-- what gather_token returns -/
inductive Kind
  | invalid   -- None: signature does not verify
  | orphan    -- None: stored in the waiting area
  | shadow    -- the token already stored under this hash
  | added     -- the offered token, now an element
deriving DecidableEq, Repr

def Kind.isSome : Kind → Bool
  | .invalid => false
  | .orphan => false
  | _ => true

def gatherKind (C : Crypto) (g : Bytes) (tr : Tree) (t : Token) : Kind :=
  if !t.ok C g then .invalid
  else if t.prev != g && !hasId C tr.els t.prev then .orphan
  else if hasId C tr.els (t.id C) then .shadow
  else .added

/-- TokenTree.gather_token (state after the call) -/
def gather (C : Crypto) (g : Bytes) (cap : Nat) (tr : Tree) (t : Token) : Tree :=
  drain C g cap tr.els tr.unc [t]

def gatherAll (C : Crypto) (g : Bytes) (cap : Nat) (tr : Tree) (ts : List Token) : Tree :=
  ts.foldl (gather C g cap) tr

/-- `_append` as used by add / add_by_hash on one's own tree (no parent check, no wake-up) -/
def append (C : Crypto) (tr : Tree) (t : Token) : Tree := ⟨dictSet C tr.els t, tr.unc⟩

/-- get_missing (as a list, in waiting order; Python builds a set) -/
def missing (tr : Tree) : List Bytes := tr.unc.map (·.prev)

/--
  The loop shared by verify and get_root_path, `n` = number of iterations still allowed.
  `some path` = the loop left through `break` (genesis reached); `none` = returned False / [] or ran out.
-/
def walk (C : Crypto) (g : Bytes) (els : List Token) : Nat → Token → Option (List Token)
  | 0, _ => none
  | n + 1, cur =>
    if !(cur.chash.length == g.length && cur.vok C) then none
    else if cur.prev == g then some [cur]
    else match lookup C els cur.prev with
      | none => none
      | some p => (walk C g els n p).map (cur :: ·)

/-- a fresh tree's waiting-area bound and the default `maxdepth`, as the source has them today -/
def defaultCap : Nat := Gen.unchainedMaxSize
def defaultMaxDepth : Int := Gen.maxDepthDefault

/-- verify(token, maxdepth).  maxdepth ≤ 0 (including the documented -1) never returns True: the loop either does
    not run or, for -1, can only end with `steps < -1`. -/
def verify (C : Crypto) (g : Bytes) (tr : Tree) (t : Token) (maxdepth : Int) : Bool :=
  (walk C g tr.els maxdepth.toNat t).isSome

/-- get_root_path(token, maxdepth) -/
def rootPath (C : Crypto) (g : Bytes) (tr : Tree) (t : Token) (maxdepth : Int) : List Token :=
  (walk C g tr.els maxdepth.toNat t).getD []

/-- serialize_public() -/
def serializeAll (tr : Tree) : Bytes := tr.els.flatMap Token.signed

/-- the `while next_token in self.elements` loop of serialize_public(up_to); the fuel is the number of elements
    (the Python loop has no bound and would spin on a hash cycle) -/
def upToLoop (C : Crypto) (els : List Token) : Nat → Bytes → Bytes
  | 0, _ => []
  | n + 1, h =>
    match lookup C els h with
    | none => []
    | some t => t.signed ++ upToLoop C els n t.prev

/-- serialize_public(up_to) -/
def serializeUpTo (C : Crypto) (tr : Tree) (t : Token) : Bytes :=
  t.signed ++ upToLoop C tr.els tr.els.length t.prev

/-- Token.unserialize at every multiple of the chunk size; `false` = the last chunk is short (struct.error).
    Field widths and the chunk size come from the GENERATED constants (struct format of Token.unserialize,
    `chunk_size` of unserialize_public).  The step is `chunk_size`; the extra `1 - chunk_size` is 0 for every
    positive chunk size and only keeps the recursion well-founded for a zero one (Python's `range` raises there). -/
def parseChunks (sigLen : Nat) (s : Bytes) : List Token × Bool :=
  if s.isEmpty then ([], true)
  else if s.length < Gen.prevLen + Gen.chashLen + sigLen then ([], false)
  else
    let r := parseChunks sigLen (s.drop (Gen.chunkBase + sigLen + (1 - (Gen.chunkBase + sigLen))))
    (Token.ofHash (s.take Gen.prevLen) ((s.drop Gen.prevLen).take Gen.chashLen)
      ((s.drop (Gen.prevLen + Gen.chashLen)).take sigLen) :: r.1, r.2)
termination_by s.length
decreasing_by
  simp only [List.length_drop]
  have : s.length ≠ 0 := by
    intro h; simp_all
  omega

/-- the fold of unserialize_public: gather every token, and-ing `is not None` -/
def gatherFlags (C : Crypto) (g : Bytes) (cap : Nat) (tr : Tree) (ts : List Token) : Tree × Bool :=
  ts.foldl (fun (acc : Tree × Bool) t =>
    (gather C g cap acc.1 t, acc.2 && (gatherKind C g acc.1 t).isSome)) (tr, true)

/-- unserialize_public: new state and `some correct`, or `none` when struct.error leaves the loop
    (the chunks before the short one have been gathered by then) -/
def unserializePublic (C : Crypto) (g : Bytes) (cap : Nat) (tr : Tree) (s : Bytes) : Tree × Option Bool :=
  let p := parseChunks C.sigLen s
  let r := gatherFlags C g cap tr p.1
  (r.1, if p.2 then some r.2 else none)

/-! ### several trees in one process: the same token values travel between views of different keys

  `AbstractSignedObject.verify(public_key)` is a function of (key, plaintext, signature) and of nothing else — in
  particular not of what the Token object has been through before.  `Keyed` is the signature check with the key
  made explicit; a `View` is one TokenTree(public_key=key); a world is a list of views and a history is a list of
  (view index, token) offers.  Tokens are values, so "the same Token object is shown to two trees" is simply the
  same value occurring twice in the history. -/

structure Keyed where
  hash : Bytes → Bytes
  vfyK : Bytes → Bytes → Bytes → Bool      -- key_to_bin of the public key, message, signature
  sigLenK : Bytes → Nat

/-- the interface one tree sees: everything is checked against ITS key -/
def Keyed.at (K : Keyed) (key : Bytes) : Crypto := ⟨K.hash, K.vfyK key, K.sigLenK key⟩

structure View where
  key : Bytes
  cap : Nat
  tree : Tree

/-- `self.genesis_hash = sha3_256(self.public_key.key_to_bin()).digest()` -/
def View.genesis (K : Keyed) (v : View) : Bytes := K.hash v.key

def View.fresh (key : Bytes) (cap : Nat) : View := ⟨key, cap, Tree.empty⟩

/-- A key OBJECT as the constructor receives it.  In this library a private key object is also a public key object,
    and its `key_to_bin()` is the PRIVATE serialisation; `pub()` drops the secret. -/
structure KeyObj where
  pubBin : Bytes
  secret : Option Bytes      -- the private serialisation, when the object holds the secret

def KeyObj.pub (k : KeyObj) : KeyObj := ⟨k.pubBin, none⟩
def KeyObj.toBin (k : KeyObj) : Bytes := k.secret.getD k.pubBin

/-- `TokenTree(public_key=k)`: `self.public_key = public_key.pub()`, genesis = sha3 of ITS key_to_bin() -/
def View.open (k : KeyObj) (cap : Nat) : View := View.fresh k.pub.toBin cap

/-- view.gather_token(t) -/
def View.offer (K : Keyed) (v : View) (t : Token) : View :=
  { v with tree := gather (K.at v.key) (v.genesis K) v.cap v.tree t }

def offerAt (K : Keyed) : List View → Nat → Token → List View
  | [], _, _ => []
  | v :: vs, 0, t => v.offer K t :: vs
  | v :: vs, i + 1, t => v :: offerAt K vs i t

def runWorld (K : Keyed) (w : List View) (evs : List (Nat × Token)) : List View :=
  evs.foldl (fun w e => offerAt K w e.1 e.2) w

/-- the tokens that were offered to view `i`, in order -/
def offeredTo (i : Nat) (evs : List (Nat × Token)) : List Token :=
  (evs.filter (fun e => e.1 == i)).map (·.2)

/-! ### persistence: identity/manager.py PseudonymManager on top of identity/database.py

  The manager keeps a tree and a table of stored tokens.  Tokens are stored when (and only when) they have become
  ELEMENTS (`add_credential`, `store_new_tokens` after `substantiate`); a restart builds a new tree whose elements are
  the stored rows (`self.tree.elements[token.get_hash()] = token`, no check, nothing waiting). -/

structure Pseudo where
  tree : Tree
  db : List Token           -- table Tokens, rows of this key (INSERT OR IGNORE: a second copy changes nothing)

def Pseudo.fresh : Pseudo := ⟨Tree.empty, []⟩

/-- INSERT OR IGNORE under PRIMARY KEY (public_key, previous_token_hash, content_hash): the SIGNATURE is not part of the
    key, so a second token with the same pointer pair (a re-signed twin) is not stored -/
def dbInsert (db : List Token) (t : Token) : List Token :=
  if db.any (fun x => x.prev == t.prev && x.chash == t.chash) then db else db ++ [t]

/-- store_new_tokens(known): every element whose hash was not known before -/
def Pseudo.storeNew (C : Crypto) (p : Pseudo) (known : List Bytes) : Pseudo :=
  { p with db := (p.tree.els.filter (fun t => !(known.contains (t.id C)))).foldl dbInsert p.db }

/-- IdentityManager.substantiate, token part: unserialize_public into the tree, then store what entered -/
def Pseudo.substantiate (C : Crypto) (g : Bytes) (cap : Nat) (p : Pseudo) (s : Bytes) : Pseudo :=
  let known := p.tree.els.map (fun t => t.id C)
  Pseudo.storeNew C { p with tree := (unserializePublic C g cap p.tree s).1 } known

/-- PseudonymManager.add_credential, token part -/
def Pseudo.addCredential (C : Crypto) (g : Bytes) (cap : Nat) (p : Pseudo) (t : Token) : Pseudo :=
  let known := p.tree.els.map (fun t => t.id C)
  if (gatherKind C g p.tree t).isSome then
    Pseudo.storeNew C { tree := gather C g cap p.tree t, db := dbInsert p.db t } (t.id C :: known)
  else { p with tree := gather C g cap p.tree t }

/-- a new PseudonymManager on the same database: the rows become the elements, nothing waits -/
def Pseudo.restart (C : Crypto) (p : Pseudo) : Pseudo :=
  { tree := ⟨p.db.foldl (fun els t => dictSet C els (Token.ofDatabaseTuple C t.prev t.sig t.chash t.content)) [], []⟩,
    db := p.db }

inductive PEvent
  | substantiate (s : Bytes)
  | credential (t : Token)
  | restart

def Pseudo.step (C : Crypto) (g : Bytes) (cap : Nat) (p : Pseudo) : PEvent → Pseudo
  | .substantiate s => p.substantiate C g cap s
  | .credential t => p.addCredential C g cap t
  | .restart => p.restart C

/-- the tokens an event offers to the tree -/
def PEvent.offers (sigLen : Nat) : PEvent → List Token
  | .substantiate s => (parseChunks sigLen s).1
  | .credential t => [t]
  | .restart => []

end Ipv8.C16
