/-
  C16 — helper lemmas and the invariants of `drain` / `gather` (core Lean only).
-/
import Ipv8.C16.Model
import Ipv8.C16.Source

namespace Ipv8.C16
open Ipv8

variable (C : Crypto) (g : Bytes) (cap : Nat)

/-! ### tokens up to attached content -/

theorem id_of_core {a b : Token} (h : a.core = b.core) : a.id C = b.id C := by
  simp only [Token.core, Prod.mk.injEq] at h
  simp [Token.id, Token.signed, h.1, h.2.1, h.2.2]

theorem valid_of_core {a b : Token} (h : a.core = b.core) : a.valid C = b.valid C := by
  simp only [Token.core, Prod.mk.injEq] at h
  simp [Token.valid, Token.plain, h.1, h.2.1, h.2.2]

theorem ok_of_core {a b : Token} (h : a.core = b.core) : a.ok C g = b.ok C g := by
  have hv := valid_of_core C h
  simp only [Token.core, Prod.mk.injEq] at h
  simp [Token.ok, Token.vok, Token.sized, h.1, h.2.1, h.2.2, hv]

theorem ok_mk {t : Token} (hs : t.sized g = true) (hv : t.vok C = true) : t.ok C g = true := by
  simp [Token.ok, hs, hv]

theorem ok_sized {t : Token} (h : t.ok C g = true) : t.sized g = true := by
  simp only [Token.ok, Bool.and_eq_true] at h; exact h.1

theorem ok_valid {t : Token} (h : t.ok C g = true) : t.valid C = true := by
  simp only [Token.ok, Token.vok, Bool.and_eq_true] at h; exact h.2.2

theorem ok_vok {t : Token} (h : t.ok C g = true) : t.vok C = true := by
  simp only [Token.ok, Bool.and_eq_true] at h; exact h.2

theorem prev_of_core {a b : Token} (h : a.core = b.core) : a.prev = b.prev := by
  simp only [Token.core, Prod.mk.injEq] at h
  exact h.1

theorem receiveContent_core (x : Token) (c : Bytes) : (x.receiveContent C c).1.core = x.core := by
  unfold Token.receiveContent
  split <;> rfl

/-- the per-element function of `absorb` -/
def absorbOne (t x : Token) : Token :=
  if x.id C == t.id C then
    match x.content, t.content with
    | none, some c => (x.receiveContent C c).1
    | _, _ => x
  else x

theorem absorb_eq_map (els : List Token) (t : Token) : absorb C els t = els.map (absorbOne C t) := rfl

theorem absorbOne_core (t x : Token) : (absorbOne C t x).core = x.core := by
  unfold absorbOne
  split
  · split
    · exact receiveContent_core C x _
    · rfl
  · rfl

/-! ### `hasId`, `lookup` -/

theorem hasId_iff (l : List Token) (h : Bytes) : hasId C l h = true ↔ ∃ t ∈ l, t.id C = h := by
  simp [hasId]

theorem hasId_append (l : List Token) (r : Token) (h : Bytes) :
    hasId C (l ++ [r]) h = (hasId C l h || r.id C == h) := by
  simp [hasId]

theorem hasId_nil (h : Bytes) : hasId C [] h = false := rfl

theorem hasId_map_core (f : Token → Token) (hf : ∀ x, (f x).core = x.core) (l : List Token) (h : Bytes) :
    hasId C (l.map f) h = hasId C l h := by
  induction l with
  | nil => rfl
  | cons a l ih =>
    have ha : (f a).id C = a.id C := id_of_core C (hf a)
    simp only [hasId, List.map_cons, List.any_cons] at ih ⊢
    rw [ih, ha]

theorem hasId_absorb (els : List Token) (t : Token) (h : Bytes) :
    hasId C (absorb C els t) h = hasId C els h :=
  hasId_map_core C _ (absorbOne_core C t) els h

theorem mem_absorb {els : List Token} {t e : Token} (h : e ∈ absorb C els t) :
    ∃ e0 ∈ els, e0.core = e.core := by
  rw [absorb_eq_map] at h
  obtain ⟨e0, h0, rfl⟩ := List.mem_map.mp h
  exact ⟨e0, h0, (absorbOne_core C t e0).symm⟩

theorem lookup_some {els : List Token} {h : Bytes} {p : Token} (hl : lookup C els h = some p) :
    p ∈ els ∧ p.id C = h := by
  unfold lookup at hl
  refine ⟨List.mem_of_find?_eq_some hl, ?_⟩
  have := List.find?_some hl
  simpa using this

theorem lookup_none {els : List Token} {h : Bytes} (hl : lookup C els h = none) : hasId C els h = false := by
  unfold lookup at hl
  rw [List.find?_eq_none] at hl
  cases hh : hasId C els h with
  | false => rfl
  | true =>
    obtain ⟨t, ht, hid⟩ := (hasId_iff C els h).mp hh
    have := hl t ht
    simp [hid] at this

theorem lookup_isSome (els : List Token) (h : Bytes) : (lookup C els h).isSome = hasId C els h := by
  cases hl : lookup C els h with
  | none => simp [lookup_none C hl]
  | some p =>
    obtain ⟨hp, hid⟩ := lookup_some C hl
    simp [(hasId_iff C els h).mpr ⟨p, hp, hid⟩]

/-! ### the waiting area -/

/-- length of `unchained` right after `self.unchained[token] = None`, before the overflow check -/
def storeLen (unc : List Token) (t : Token) : Nat := (uncStore unc t).length

theorem mem_uncStore {unc : List Token} {t x : Token} (h : x ∈ uncStore unc t) : x ∈ unc ∨ x = t := by
  unfold uncStore at h
  split at h
  · exact Or.inl h
  · rcases List.mem_append.mp h with h1 | h1
    · exact Or.inl h1
    · right; simpa using h1

theorem mem_uncAdd {unc : List Token} {t x : Token} (h : x ∈ uncAdd cap unc t) : x ∈ unc ∨ x = t := by
  unfold uncAdd at h
  split at h
  · exact mem_uncStore (List.mem_of_mem_drop h)
  · exact mem_uncStore h

theorem uncAdd_length_cap (unc : List Token) (t : Token) (h : unc.length ≤ cap) :
    (uncAdd cap unc t).length ≤ cap := by
  have := uncStore_length_le unc t
  unfold uncAdd
  split
  · simp only [List.length_drop]; omega
  · omega

theorem uncAdd_nodrop {unc : List Token} {t : Token} (h : storeLen unc t ≤ cap) :
    uncAdd cap unc t = uncStore unc t := by
  unfold uncAdd storeLen at *
  rw [if_neg (by omega)]

theorem storeLen_le (unc : List Token) (t : Token) : storeLen unc t ≤ unc.length + 1 :=
  uncStore_length_le unc t

theorem mem_uncStore_of_mem {unc : List Token} {t x : Token} (h : x ∈ unc) : x ∈ uncStore unc t := by
  unfold uncStore
  split
  · exact h
  · exact List.mem_append_left _ h

theorem uncStore_has (unc : List Token) (t : Token) : ∃ x ∈ uncStore unc t, x.signed = t.signed := by
  unfold uncStore
  split
  · rename_i h
    obtain ⟨x, hx, hs⟩ := List.any_eq_true.mp h
    exact ⟨x, hx, by simpa [Token.same] using hs⟩
  · exact ⟨t, by simp, rfl⟩

theorem mem_kidsOf {unc : List Token} {h : Bytes} {x : Token} :
    x ∈ kidsOf unc h ↔ x ∈ unc ∧ x.prev = h := by
  simp [kidsOf]

theorem mem_othersOf {unc : List Token} {h : Bytes} {x : Token} :
    x ∈ othersOf unc h ↔ x ∈ unc ∧ x.prev ≠ h := by
  simp [othersOf]

theorem kids_others_length (unc : List Token) (h : Bytes) :
    (kidsOf unc h).length + (othersOf unc h).length = unc.length :=
  filter_split_length (fun u => u.prev == h) unc

/-! ### the specification: least fixpoint of "signed by the tree key and hanging off genesis or a member" -/

/-- `t` is one of the offered tokens (attached content aside) -/
def Off (seen : List Token) (t : Token) : Prop := ∃ o ∈ seen, o.core = t.core

inductive InTree (C : Crypto) (g : Bytes) (seen : List Token) : Token → Prop
  | root (t : Token) : Off seen t → t.ok C g = true → t.prev = g → InTree C g seen t
  | child (t p : Token) : Off seen t → t.ok C g = true → InTree C g seen p → p.id C = t.prev →
      InTree C g seen t

variable {C g}

theorem Off.mono {a b : List Token} (h : ∀ t, t ∈ a → t ∈ b) {t : Token} (ht : Off a t) : Off b t := by
  obtain ⟨o, ho, hc⟩ := ht
  exact ⟨o, h o ho, hc⟩

theorem Off.of_core {seen : List Token} {a b : Token} (h : a.core = b.core) (ha : Off seen a) : Off seen b := by
  obtain ⟨o, ho, hc⟩ := ha
  exact ⟨o, ho, hc.trans h⟩

theorem Off.self {seen : List Token} {t : Token} (h : t ∈ seen) : Off seen t := ⟨t, h, rfl⟩

theorem InTree.mono {a b : List Token} (h : ∀ t, t ∈ a → t ∈ b) {t : Token} (ht : InTree C g a t) :
    InTree C g b t := by
  induction ht with
  | root t hm hv hp => exact .root t (hm.mono h) hv hp
  | child t p hm hv _ hid ih => exact .child t p (hm.mono h) hv ih hid

theorem InTree.off {seen : List Token} {t : Token} (h : InTree C g seen t) : Off seen t := by
  cases h <;> assumption

theorem InTree.ok {seen : List Token} {t : Token} (h : InTree C g seen t) : t.ok C g = true := by
  cases h <;> assumption

theorem InTree.valid {seen : List Token} {t : Token} (h : InTree C g seen t) : t.valid C = true :=
  ok_valid C g h.ok

theorem InTree.of_core {seen : List Token} {a b : Token} (h : a.core = b.core) (ha : InTree C g seen a) :
    InTree C g seen b := by
  cases ha with
  | root _ hm hv hp => exact .root b (hm.of_core h) (ok_of_core C g h ▸ hv) (prev_of_core h ▸ hp)
  | child _ p hm hv hp hid =>
    exact .child b p (hm.of_core h) (ok_of_core C g h ▸ hv) hp (prev_of_core h ▸ hid)

theorem InTree.perm {a b : List Token} (h : a.Perm b) (t : Token) : InTree C g a t ↔ InTree C g b t :=
  ⟨fun x => x.mono (fun _ hx => h.mem_iff.mp hx), fun x => x.mono (fun _ hx => h.mem_iff.mpr hx)⟩

/-! ### the tree is a signed chain: elements in an order where every parent precedes its children -/

inductive Chained (C : Crypto) (g : Bytes) : List Token → Prop
  | nil : Chained C g []
  | snoc (els : List Token) (r : Token) : Chained C g els → r.ok C g = true →
      (r.prev = g ∨ hasId C els r.prev = true) → hasId C els (r.id C) = false → Chained C g (els ++ [r])

theorem Chained.map_core {els : List Token} (h : Chained C g els) (f : Token → Token)
    (hf : ∀ x, (f x).core = x.core) : Chained C g (els.map f) := by
  induction h with
  | nil => exact .nil
  | snoc els r _ hv hp hn ih =>
    rw [List.map_append, List.map_cons, List.map_nil]
    refine .snoc _ _ ih ?_ ?_ ?_
    · rw [ok_of_core C g (hf r)]; exact hv
    · rw [prev_of_core (hf r), hasId_map_core C f hf]; exact hp
    · rw [id_of_core C (hf r), hasId_map_core C f hf]; exact hn

theorem Chained.closed {els : List Token} (h : Chained C g els) :
    ∀ e ∈ els, e.ok C g = true ∧ (e.prev = g ∨ hasId C els e.prev = true) := by
  induction h with
  | nil => intro e he; cases he
  | snoc els r _ hv hp _ ih =>
    intro e he
    rcases List.mem_append.mp he with h1 | h1
    · obtain ⟨a, b⟩ := ih e h1
      refine ⟨a, b.imp id fun hb => ?_⟩
      rw [hasId_append, hb]; rfl
    · have : e = r := by simpa using h1
      subst this
      refine ⟨hv, hp.imp id fun hb => ?_⟩
      rw [hasId_append, hb]; rfl

/-! ### invariant of `drain` -/

variable (C g)

/-- room in the waiting area: either everything that could still be stored fits, or the only pending token is the
    one offered from outside and storing it (if it is an orphan) does not overflow -/
def Room (els unc stack : List Token) : Prop :=
  unc.length + stack.length ≤ cap ∨
  ∃ r, stack = [r] ∧ unc.length ≤ cap ∧ (gatherKind C g ⟨els, unc⟩ r = .orphan → storeLen unc r ≤ cap)

/-- `nodrop` switches the completeness half on: soundness needs no hypothesis at all -/
structure Inv (nodrop : Prop) (seen els unc stack : List Token) : Prop where
  sound : ∀ e ∈ els, InTree C g seen e
  chained : Chained C g els
  uncOk : ∀ u ∈ unc, Off seen u ∧ u.ok C g = true ∧ u.prev ≠ g ∧ hasId C els u.prev = false
  stackOk : ∀ r ∈ stack, Off seen r
  room : nodrop → Room C g cap els unc stack
  inj : nodrop → ∀ a ∈ seen, ∀ b ∈ seen, a.id C = b.id C → a.core = b.core
  kept : nodrop → ∀ t ∈ seen, t.ok C g = true →
    hasId C els (t.id C) = true ∨ (∃ u ∈ unc, u.core = t.core) ∨ (∃ r ∈ stack, r.core = t.core)


variable {C g cap}

theorem Room.tail {els unc : List Token} {r : Token} {rest : List Token}
    (h : Room C g cap els unc (r :: rest)) : unc.length + rest.length ≤ cap := by
  rcases h with h | ⟨r', hs, hl, _⟩
  · simp only [List.length_cons] at h; omega
  · simp only [List.cons.injEq] at hs
    rw [hs.2]; simpa using hl

theorem Room.store {els unc : List Token} {r : Token} {rest : List Token}
    (h : Room C g cap els unc (r :: rest)) (hk : gatherKind C g ⟨els, unc⟩ r = .orphan) :
    storeLen unc r ≤ cap := by
  rcases h with h | ⟨r', hs, _, hf⟩
  · have := storeLen_le unc r
    simp only [List.length_cons] at h; omega
  · simp only [List.cons.injEq] at hs
    rw [← hs.1] at hf
    exact hf hk

theorem off_core_of_id {nodrop : Prop} {seen els unc stack : List Token}
    (I : Inv C g cap nodrop seen els unc stack) (hn : nodrop) {a b : Token}
    (ha : Off seen a) (hb : Off seen b) (hid : a.id C = b.id C) : a.core = b.core := by
  obtain ⟨oa, hoa, ca⟩ := ha
  obtain ⟨ob, hob, cb⟩ := hb
  have : oa.core = ob.core := I.inj hn oa hoa ob hob (by rw [id_of_core C ca, id_of_core C cb, hid])
  rw [← ca, ← cb, this]

theorem drain_inv (nodrop : Prop) (seen els unc stack : List Token)
    (I : Inv C g cap nodrop seen els unc stack) :
    Inv C g cap nodrop seen (drain C g cap els unc stack).els (drain C g cap els unc stack).unc [] := by
  fun_induction drain C g cap els unc stack with
  | case1 els unc => exact I
  | case2 els unc r rest hv ih =>
    apply ih
    have hv' : r.ok C g = false := by simpa using hv
    refine ⟨I.sound, I.chained, I.uncOk, fun x hx => I.stackOk x (List.mem_cons_of_mem _ hx), ?_, I.inj, ?_⟩
    · intro hn; exact Or.inl (I.room hn).tail
    · intro hn t ht htv
      rcases I.kept hn t ht htv with h | h | ⟨r', hr', hc⟩
      · exact Or.inl h
      · exact Or.inr (Or.inl h)
      · rcases List.mem_cons.mp hr' with rfl | h
        · rw [ok_of_core C g hc, htv] at hv'; cases hv'
        · exact Or.inr (Or.inr ⟨r', h, hc⟩)
  | case3 els unc r rest hv ho ih =>
    apply ih
    have hv' : r.ok C g = true := by simpa using hv
    have ho' : r.prev ≠ g ∧ hasId C els r.prev = false := by simpa using ho
    have hkind : gatherKind C g ⟨els, unc⟩ r = .orphan := by
      simp [gatherKind, hv', ho'.1, ho'.2]
    have hroff : Off seen r := I.stackOk r (List.mem_cons_self)
    refine ⟨I.sound, I.chained, ?_, fun x hx => I.stackOk x (List.mem_cons_of_mem _ hx), ?_, I.inj, ?_⟩
    · intro x hx
      rcases mem_uncAdd cap hx with h | rfl
      · exact I.uncOk x h
      · exact ⟨hroff, hv', ho'.1, ho'.2⟩
    · intro hn
      left
      have h1 := (I.room hn).tail
      have h2 := (I.room hn).store hkind
      rw [uncAdd_nodrop cap h2]
      rcases I.room hn with h | ⟨r', hs, hl, _⟩
      · have := uncStore_length_le unc r
        simp only [List.length_cons] at h; omega
      · simp only [List.cons.injEq] at hs
        rw [hs.2]; simpa [storeLen] using h2
    · intro hn t ht htv
      have h2 := (I.room hn).store hkind
      rw [uncAdd_nodrop cap h2]
      rcases I.kept hn t ht htv with h | ⟨u, hu, hc⟩ | ⟨r', hr', hc⟩
      · exact Or.inl h
      · exact Or.inr (Or.inl ⟨u, mem_uncStore_of_mem hu, hc⟩)
      · rcases List.mem_cons.mp hr' with rfl | h
        · obtain ⟨x, hx, hs⟩ := uncStore_has unc r'
          refine Or.inr (Or.inl ⟨x, hx, ?_⟩)
          rcases mem_uncStore hx with hxu | rfl
          · have hid : x.id C = r'.id C := by simp [Token.id, hs]
            exact (off_core_of_id I hn (I.uncOk x hxu).1 hroff hid).trans hc
          · exact hc
        · exact Or.inr (Or.inr ⟨r', h, hc⟩)
  | case4 els unc r rest hv ho hd ih =>
    apply ih
    refine ⟨?_, I.chained.map_core _ (absorbOne_core C r), ?_,
      fun x hx => I.stackOk x (List.mem_cons_of_mem _ hx), ?_, I.inj, ?_⟩
    · intro e he
      obtain ⟨e0, h0, hc⟩ := mem_absorb C he
      exact (I.sound e0 h0).of_core hc
    · intro u hu
      rw [hasId_absorb]; exact I.uncOk u hu
    · intro hn; exact Or.inl (I.room hn).tail
    · intro hn t ht htv
      rw [hasId_absorb]
      rcases I.kept hn t ht htv with h | h | ⟨r', hr', hc⟩
      · exact Or.inl h
      · exact Or.inr (Or.inl h)
      · rcases List.mem_cons.mp hr' with rfl | h
        · left; rw [← id_of_core C hc]; exact hd
        · exact Or.inr (Or.inr ⟨r', h, hc⟩)
  | case5 els unc r rest hv ho hd ih =>
    apply ih
    have hv' : r.ok C g = true := by simpa using hv
    have hd' : hasId C els (r.id C) = false := by simpa using hd
    have hroff : Off seen r := I.stackOk r (List.mem_cons_self)
    have hpar : r.prev = g ∨ hasId C els r.prev = true := by
      by_cases hg : r.prev = g
      · exact Or.inl hg
      · right
        cases hh : hasId C els r.prev with
        | true => rfl
        | false => exact absurd (by simp [hg, hh]) ho
    have hrTree : InTree C g seen r := by
      rcases hpar with hg | hp
      · exact .root r hroff hv' hg
      · obtain ⟨p, hp1, hp2⟩ := (hasId_iff C els r.prev).mp hp
        exact .child r p hroff hv' (I.sound p hp1) hp2
    refine ⟨?_, .snoc els r I.chained hv' hpar hd', ?_, ?_, ?_, I.inj, ?_⟩
    · intro e he
      rcases List.mem_append.mp he with h | h
      · exact I.sound e h
      · have : e = r := by simpa using h
        exact this ▸ hrTree
    · intro u hu
      obtain ⟨hu1, hu2⟩ := mem_othersOf.mp hu
      obtain ⟨a, b, c, d⟩ := I.uncOk u hu1
      refine ⟨a, b, c, ?_⟩
      rw [hasId_append, d]
      simp only [Bool.false_or, beq_eq_false_iff_ne, ne_eq]
      exact fun h => hu2 h.symm
    · intro x hx
      rcases List.mem_append.mp hx with h | h
      · exact (I.uncOk x (mem_kidsOf.mp h).1).1
      · exact I.stackOk x (List.mem_cons_of_mem _ h)
    · intro hn
      left
      have h1 := (I.room hn).tail
      have h2 := kids_others_length unc (r.id C)
      simp only [List.length_append]; omega
    · intro hn t ht htv
      rcases I.kept hn t ht htv with h | ⟨u, hu, hc⟩ | ⟨r', hr', hc⟩
      · left; rw [hasId_append, h]; rfl
      · by_cases hk : u.prev = r.id C
        · exact Or.inr (Or.inr ⟨u, List.mem_append_left _ (mem_kidsOf.mpr ⟨hu, hk⟩), hc⟩)
        · exact Or.inr (Or.inl ⟨u, mem_othersOf.mpr ⟨hu, hk⟩, hc⟩)
      · rcases List.mem_cons.mp hr' with rfl | h
        · left; rw [hasId_append, id_of_core C hc]; simp
        · exact Or.inr (Or.inr ⟨r', List.mem_append_right _ h, hc⟩)


/-! ### from one call of gather_token to a whole history -/

theorem drain_nil (els unc : List Token) : drain C g cap els unc [] = ⟨els, unc⟩ := by
  rw [drain]

variable (C g cap)

/-- "the bounded waiting area is not exceeded" along the history `ts` started in `tr`: whenever a token has to wait,
    the waiting area still holds at most `cap` tokens with it -/
def Fits : Tree → List Token → Prop
  | _, [] => True
  | tr, t :: ts => (gatherKind C g tr t = .orphan → storeLen tr.unc t ≤ cap) ∧ Fits (gather C g cap tr t) ts

/-- the offered token `t` is contained in the tree (attached content aside) -/
def Tree.holds (tr : Tree) (t : Token) : Prop := ∃ e ∈ tr.els, e.core = t.core

/-- SHA3 does not collide on the offered tokens (and, tokens being byte strings cut at fixed offsets, equal signed
    plaintexts are equal tokens) -/
def HashInj (ts : List Token) : Prop := ∀ a ∈ ts, ∀ b ∈ ts, a.id C = b.id C → a.core = b.core

variable {C g cap}

theorem inv_empty (nodrop : Prop) : Inv C g cap nodrop [] [] [] [] :=
  ⟨by simp, .nil, by simp, by simp, fun _ => Or.inl (by simp), by simp, by simp⟩

theorem gather_inv (nodrop : Prop) (seen : List Token) (tr : Tree) (t : Token)
    (I : Inv C g cap nodrop seen tr.els tr.unc [])
    (hfit : nodrop → gatherKind C g tr t = .orphan → storeLen tr.unc t ≤ cap)
    (hinj : nodrop → HashInj C (seen ++ [t])) :
    Inv C g cap nodrop (seen ++ [t]) (gather C g cap tr t).els (gather C g cap tr t).unc [] := by
  unfold gather
  apply drain_inv
  have hsub : ∀ x, x ∈ seen → x ∈ seen ++ [t] := fun x hx => List.mem_append_left _ hx
  refine ⟨fun e he => (I.sound e he).mono hsub, I.chained, ?_, ?_, ?_, hinj, ?_⟩
  · intro u hu
    obtain ⟨a, b, c, d⟩ := I.uncOk u hu
    exact ⟨a.mono hsub, b, c, d⟩
  · intro r hr
    have : r = t := by simpa using hr
    subst this
    exact Off.self (by simp)
  · intro hn
    right
    refine ⟨t, rfl, ?_, hfit hn⟩
    rcases I.room hn with h | ⟨r, hs, _⟩
    · simpa using h
    · cases hs
  · intro hn x hx hxv
    rcases List.mem_append.mp hx with h | h
    · rcases I.kept hn x h hxv with k | k | ⟨r, hr, _⟩
      · exact Or.inl k
      · exact Or.inr (Or.inl k)
      · cases hr
    · have : x = t := by simpa using h
      subst this
      exact Or.inr (Or.inr ⟨x, by simp, rfl⟩)

theorem gatherAll_inv (nodrop : Prop) (ts seen : List Token) (tr : Tree)
    (I : Inv C g cap nodrop seen tr.els tr.unc [])
    (hfit : nodrop → Fits C g cap tr ts)
    (hinj : nodrop → HashInj C (seen ++ ts)) :
    Inv C g cap nodrop (seen ++ ts) (gatherAll C g cap tr ts).els (gatherAll C g cap tr ts).unc [] := by
  induction ts generalizing seen tr with
  | nil => simpa [gatherAll] using I
  | cons t ts ih =>
    have h1 : seen ++ t :: ts = (seen ++ [t]) ++ ts := by simp
    rw [h1] at hinj ⊢
    simp only [gatherAll, List.foldl_cons]
    apply ih
    · apply gather_inv nodrop seen tr t I
      · intro hn; exact (hfit hn).1
      · intro hn a ha b hb
        exact hinj hn a (List.mem_append_left _ ha) b (List.mem_append_left _ hb)
    · intro hn; exact (hfit hn).2
    · exact hinj

/-- everything the invariant gives for a finished history, soundness half (no hypothesis) -/
theorem history_sound (ts : List Token) :
    Inv C g cap False ts (gatherAll C g cap Tree.empty ts).els (gatherAll C g cap Tree.empty ts).unc [] := by
  have := gatherAll_inv (C := C) (g := g) (cap := cap) False ts [] Tree.empty (inv_empty False)
    (fun h => h.elim) (fun h => h.elim)
  simpa using this

theorem history_full (ts : List Token) (hfit : Fits C g cap Tree.empty ts) (hinj : HashInj C ts) :
    Inv C g cap True ts (gatherAll C g cap Tree.empty ts).els (gatherAll C g cap Tree.empty ts).unc [] := by
  have := gatherAll_inv (C := C) (g := g) (cap := cap) True ts [] Tree.empty (inv_empty True)
    (fun _ => hfit) (fun _ => by simpa using hinj)
  simpa using this

/-- completeness from the invariant: a member of the least fixpoint is stored -/
theorem inv_complete {seen els unc : List Token} (I : Inv C g cap True seen els unc []) {t : Token}
    (ht : InTree C g seen t) : hasId C els (t.id C) = true := by
  induction ht with
  | root t hoff hv hp =>
    obtain ⟨o, ho, hc⟩ := hoff
    rcases I.kept trivial o ho (by rw [ok_of_core C g hc]; exact hv) with k | ⟨u, hu, huc⟩ | ⟨r, hr, _⟩
    · rw [← id_of_core C hc]; exact k
    · have := (I.uncOk u hu).2.2.1
      rw [prev_of_core (huc.trans hc), hp] at this
      exact absurd rfl this
    · cases hr
  | child t p hoff hv _ hid ih =>
    obtain ⟨o, ho, hc⟩ := hoff
    rcases I.kept trivial o ho (by rw [ok_of_core C g hc]; exact hv) with k | ⟨u, hu, huc⟩ | ⟨r, hr, _⟩
    · rw [← id_of_core C hc]; exact k
    · have := (I.uncOk u hu).2.2.2
      rw [prev_of_core (huc.trans hc), ← hid, ih] at this
      cases this
    · cases hr

theorem inv_holds_iff {seen els unc : List Token} (I : Inv C g cap True seen els unc []) (t : Token) :
    (∃ e ∈ els, e.core = t.core) ↔ InTree C g seen t := by
  constructor
  · rintro ⟨e, he, hc⟩
    exact (I.sound e he).of_core hc
  · intro ht
    obtain ⟨e, he, hid⟩ := (hasId_iff C els _).mp (inv_complete I ht)
    exact ⟨e, he, off_core_of_id I trivial (I.sound e he).off ht.off hid⟩

/-! ### the waiting area stays bounded; its size grows by at most one per call -/

theorem drain_unc_le (els unc stack : List Token) :
    (drain C g cap els unc stack).unc.length ≤ unc.length + stack.length := by
  fun_induction drain C g cap els unc stack with
  | case1 els unc => simp
  | case2 els unc r rest hv ih => simp only [List.length_cons]; omega
  | case3 els unc r rest hv ho ih =>
    have := uncAdd_length_le cap unc r
    simp only [List.length_cons]; omega
  | case4 els unc r rest hv ho hd ih => simp only [List.length_cons]; omega
  | case5 els unc r rest hv ho hd ih =>
    have := kids_others_length unc (r.id C)
    simp only [List.length_cons, List.length_append] at *; omega

theorem drain_unc_cap (els unc stack : List Token) (h : unc.length ≤ cap) :
    (drain C g cap els unc stack).unc.length ≤ cap := by
  fun_induction drain C g cap els unc stack with
  | case1 els unc => exact h
  | case2 els unc r rest hv ih => exact ih h
  | case3 els unc r rest hv ho ih => exact ih (uncAdd_length_cap cap unc r h)
  | case4 els unc r rest hv ho hd ih => exact ih h
  | case5 els unc r rest hv ho hd ih =>
    apply ih
    have := kids_others_length unc (r.id C)
    omega

theorem gatherAll_unc_cap (tr : Tree) (ts : List Token) (h : tr.unc.length ≤ cap) :
    (gatherAll C g cap tr ts).unc.length ≤ cap := by
  induction ts generalizing tr with
  | nil => simpa [gatherAll] using h
  | cons t ts ih =>
    simp only [gatherAll, List.foldl_cons]
    exact ih _ (drain_unc_cap _ _ _ h)

theorem fits_of_length (tr : Tree) (ts : List Token) (h : tr.unc.length + ts.length ≤ cap) :
    Fits C g cap tr ts := by
  induction ts generalizing tr with
  | nil => trivial
  | cons t ts ih =>
    refine ⟨fun _ => ?_, ih _ ?_⟩
    · have := storeLen_le tr.unc t
      simp only [List.length_cons] at h; omega
    · have := drain_unc_le (C := C) (g := g) (cap := cap) tr.els tr.unc [t]
      simp only [gather, List.length_cons, List.length_nil] at *; omega

/-! ### content binding -/

theorem contentOk_absorbOne {t x : Token} (hx : x.contentOk C) : (absorbOne C t x).contentOk C := by
  unfold absorbOne
  split
  · split
    · rename_i c _ _
      unfold Token.receiveContent
      split
      · rename_i hh
        intro c' hc'
        simp only [Option.some.injEq] at hc'
        subst hc'
        simpa using hh
      · exact hx
    · exact hx
  · exact hx

theorem drain_contentOk (els unc stack : List Token)
    (h1 : ∀ e ∈ els, e.contentOk C) (h2 : ∀ u ∈ unc, u.contentOk C) (h3 : ∀ r ∈ stack, r.contentOk C) :
    (∀ e ∈ (drain C g cap els unc stack).els, e.contentOk C) ∧
    (∀ u ∈ (drain C g cap els unc stack).unc, u.contentOk C) := by
  fun_induction drain C g cap els unc stack with
  | case1 els unc => exact ⟨h1, h2⟩
  | case2 els unc r rest hv ih => exact ih h1 h2 (fun x hx => h3 x (List.mem_cons_of_mem _ hx))
  | case3 els unc r rest hv ho ih =>
    refine ih h1 ?_ (fun x hx => h3 x (List.mem_cons_of_mem _ hx))
    intro u hu
    rcases mem_uncAdd cap hu with h | rfl
    · exact h2 u h
    · exact h3 u List.mem_cons_self
  | case4 els unc r rest hv ho hd ih =>
    refine ih ?_ h2 (fun x hx => h3 x (List.mem_cons_of_mem _ hx))
    intro e he
    rw [absorb_eq_map] at he
    obtain ⟨e0, h0, rfl⟩ := List.mem_map.mp he
    exact contentOk_absorbOne (h1 e0 h0)
  | case5 els unc r rest hv ho hd ih =>
    refine ih ?_ ?_ ?_
    · intro e he
      rcases List.mem_append.mp he with h | h
      · exact h1 e h
      · have : e = r := by simpa using h
        exact this ▸ h3 r List.mem_cons_self
    · intro u hu; exact h2 u (mem_othersOf.mp hu).1
    · intro x hx
      rcases List.mem_append.mp hx with h | h
      · exact h2 x (mem_kidsOf.mp h).1
      · exact h3 x (List.mem_cons_of_mem _ h)

theorem gatherAll_contentOk (tr : Tree) (ts : List Token)
    (h1 : ∀ e ∈ tr.els, e.contentOk C) (h2 : ∀ u ∈ tr.unc, u.contentOk C) (h3 : ∀ t ∈ ts, t.contentOk C) :
    (∀ e ∈ (gatherAll C g cap tr ts).els, e.contentOk C) ∧
    (∀ u ∈ (gatherAll C g cap tr ts).unc, u.contentOk C) := by
  induction ts generalizing tr with
  | nil => exact ⟨h1, h2⟩
  | cons t ts ih =>
    simp only [gatherAll, List.foldl_cons]
    have := drain_contentOk (C := C) (g := g) (cap := cap) tr.els tr.unc [t] h1 h2
      (fun r hr => by
        have : r = t := by simpa using hr
        exact this ▸ h3 t List.mem_cons_self)
    exact ih _ this.1 this.2 (fun x hx => h3 x (List.mem_cons_of_mem _ hx))


/-! ### verify / get_root_path -/

variable (C g)

/-- a root path: every token on it is signed by the tree key, consecutive tokens are linked through `elements`,
    the last one hangs off genesis -/
inductive Path (els : List Token) : Token → List Token → Prop
  | root (t : Token) : t.vok C = true → t.prev = g → Path els t [t]
  | step (t p : Token) (rest : List Token) : t.vok C = true → p ∈ els → p.id C = t.prev →
      Path els p rest → Path els t (t :: rest)

variable {C g}

theorem walk_sound (els : List Token) : ∀ (n : Nat) (t : Token) (path : List Token),
    walk C g els n t = some path → Path C g els t path ∧ path.length ≤ n
  | 0, _, _, h => by simp [walk] at h
  | n + 1, t, path, h => by
    simp only [walk] at h
    split at h
    · cases h
    · rename_i hv
      have hv' : t.vok C = true := by
        have : t.chash.length = g.length ∧ t.vok C = true := by simpa using hv
        exact this.2
      split at h
      · rename_i hg
        have hg' : t.prev = g := by simpa using hg
        simp only [Option.some.injEq] at h
        subst h
        exact ⟨.root t hv' hg', by simp⟩
      · split at h
        · cases h
        · rename_i p hl
          obtain ⟨hp, hid⟩ := lookup_some C hl
          cases hw : walk C g els n p with
          | none => simp [hw] at h
          | some rest =>
            simp only [hw, Option.map_some, Option.some.injEq] at h
            subst h
            obtain ⟨h1, h2⟩ := walk_sound els n p rest hw
            exact ⟨.step t p rest hv' hp hid h1, by simp; omega⟩

theorem path_inTree {seen els : List Token} (hs : ∀ e ∈ els, InTree C g seen e) {t : Token} {path : List Token}
    (hp : Path C g els t path) (hoff : Off seen t) (hsz : t.sized g = true) : InTree C g seen t := by
  cases hp with
  | root _ hv hg => exact .root t hoff (ok_mk C g hsz hv) hg
  | step _ p rest hv hpm hid _ => exact .child t p hoff (ok_mk C g hsz hv) (hs p hpm) hid

theorem walk_budget_succ (els : List Token) : ∀ (n : Nat) (t : Token) (path : List Token),
    walk C g els n t = some path → walk C g els (n + 1) t = some path
  | 0, _, _, h => by simp [walk] at h
  | n + 1, t, path, h => by
    rw [walk] at h ⊢
    split
    · rename_i hv; simp [hv] at h
    · rename_i hv
      rw [if_neg hv] at h
      split
      · rename_i hg; simpa [hg] using h
      · rename_i hg
        rw [if_neg hg] at h
        cases hl : lookup C els t.prev with
        | none => simp [hl] at h
        | some p =>
          simp only [hl] at h ⊢
          cases hw : walk C g els n p with
          | none => simp [hw] at h
          | some rest =>
            rw [walk_budget_succ els n p rest hw]
            simpa [hw] using h

theorem walk_budget_le (els : List Token) {n m : Nat} (hnm : n ≤ m) {t : Token} {path : List Token}
    (h : walk C g els n t = some path) : walk C g els m t = some path := by
  induction hnm with
  | refl => exact h
  | step _ ih => exact walk_budget_succ els _ t path ih

theorem lookup_append_of_some {els : List Token} {h : Bytes} {p : Token} (r : Token)
    (hl : lookup C els h = some p) : lookup C (els ++ [r]) h = some p := by
  unfold lookup at *
  rw [List.find?_append, hl]; rfl

theorem walk_els_snoc (els : List Token) (r : Token) : ∀ (n : Nat) (t : Token) (path : List Token),
    walk C g els n t = some path → walk C g (els ++ [r]) n t = some path
  | 0, _, _, h => by simp [walk] at h
  | n + 1, t, path, h => by
    rw [walk] at h ⊢
    split
    · rename_i hv; simp [hv] at h
    · rename_i hv
      rw [if_neg hv] at h
      split
      · rename_i hg; simpa [hg] using h
      · rename_i hg
        rw [if_neg hg] at h
        cases hl : lookup C els t.prev with
        | none => simp [hl] at h
        | some p =>
          simp only [hl, lookup_append_of_some r hl] at h ⊢
          cases hw : walk C g els n p with
          | none => simp [hw] at h
          | some rest =>
            rw [walk_els_snoc els r n p rest hw]
            simpa [hw] using h

/-- a properly signed token whose parent is genesis or stored has a root path within `budget + 1` steps when every
    stored token has one within `budget` -/
theorem walk_hanging {els : List Token} {n : Nat}
    (hA : ∀ e ∈ els, (walk C g els n e).isSome = true) {t : Token}
    (hok : t.ok C g = true) (hp : t.prev = g ∨ hasId C els t.prev = true) :
    (walk C g els (n + 1) t).isSome = true := by
  have hv : t.vok C = true := ok_vok C g hok
  have hc : (t.chash.length == g.length) = true := by
    have := ok_sized C g hok
    simp only [Token.sized, Bool.and_eq_true] at this; exact this.2
  rw [walk]
  simp only [hv, hc, Bool.and_self, Bool.not_true, Bool.false_eq_true, ↓reduceIte]
  by_cases hg : (t.prev == g) = true
  · simp [hg]
  · rw [if_neg hg]
    have hg' : t.prev ≠ g := by simpa using hg
    have hh := hp.resolve_left hg'
    cases hl : lookup C els t.prev with
    | none => rw [lookup_none C hl] at hh; cases hh
    | some p =>
      have := hA p (lookup_some C hl).1
      simp only []
      cases hw : walk C g els n p with
      | none => simp [hw] at this
      | some rest => simp

theorem chained_walk {els : List Token} (h : Chained C g els) :
    ∀ e ∈ els, (walk C g els els.length e).isSome = true := by
  induction h with
  | nil => intro e he; cases he
  | snoc els r _ hv hp _ ih =>
    intro e he
    rw [List.length_append, List.length_singleton]
    rcases List.mem_append.mp he with h1 | h1
    · have := ih e h1
      cases hw : walk C g els els.length e with
      | none => simp [hw] at this
      | some path =>
        rw [walk_els_snoc els r _ e path (walk_budget_le els (Nat.le_succ _) hw)]; rfl
    · have he' : e = r := by simpa using h1
      subst he'
      have := walk_hanging (C := C) (g := g) ih hv hp
      cases hw : walk C g els (els.length + 1) e with
      | none => simp [hw] at this
      | some path => rw [walk_els_snoc els e _ e path hw]; rfl

/-! ### public serialisation -/

/-- the token as it comes back from the wire: no content attached -/
def Token.strip (t : Token) : Token := { t with content := none }

theorem Token.strip_core (t : Token) : t.strip.core = t.core := rfl

/-- the chunk size of unserialize_public is the width of the two hashes read by Token.unserialize
    (both numbers are regenerated from the source; this stops compiling when only one of them changes) -/
theorem gen_layout : Gen.chunkBase = Gen.prevLen + Gen.chashLen := by decide

/-- field lengths of a token that fits the wire format `>{prevLen}s{chashLen}s{sigLen}s` -/
def WireOk (C : Crypto) (t : Token) : Prop :=
  t.prev.length = Gen.prevLen ∧ t.chash.length = Gen.chashLen ∧ t.sig.length = C.sigLen

theorem WireOk.of_core {a b : Token} (h : a.core = b.core) (ha : WireOk C a) : WireOk C b := by
  simp only [Token.core, Prod.mk.injEq] at h
  unfold WireOk at *
  rw [← h.1, ← h.2.1, ← h.2.2]; exact ha

theorem parse_cons (t : Token) (rest : Bytes) (n : Nat) (h1 : t.prev.length = Gen.prevLen)
    (h2 : t.chash.length = Gen.chashLen) (h3 : t.sig.length = n) :
    parseChunks n (t.signed ++ rest) = (t.strip :: (parseChunks n rest).1, (parseChunks n rest).2) := by
  have hl := gen_layout
  have hpos : 0 < Gen.prevLen := by decide
  have hlen : (t.signed ++ rest).length = Gen.prevLen + Gen.chashLen + n + rest.length := by
    simp [Token.signed, h1, h2, h3]; omega
  rw [parseChunks]
  have hne : (t.signed ++ rest).isEmpty = false := by
    cases hh : (t.signed ++ rest) with
    | nil => rw [hh] at hlen; simp at hlen; omega
    | cons _ _ => rfl
  rw [hne]
  simp only [Bool.false_eq_true, ↓reduceIte]
  rw [if_neg (by omega)]
  have hstep : Gen.chunkBase + n + (1 - (Gen.chunkBase + n)) = Gen.prevLen + Gen.chashLen + n := by omega
  rw [hstep]
  have e1 : t.signed ++ rest = t.prev ++ (t.chash ++ (t.sig ++ rest)) := by
    simp [Token.signed, List.append_assoc]
  have e2 : t.signed ++ rest = (t.prev ++ t.chash) ++ (t.sig ++ rest) := by
    simp [Token.signed, List.append_assoc]
  have e3 : t.signed ++ rest = (t.prev ++ t.chash ++ t.sig) ++ rest := rfl
  have a1 : (t.signed ++ rest).take Gen.prevLen = t.prev := by rw [e1]; exact List.take_left' h1
  have a2 : ((t.signed ++ rest).drop Gen.prevLen).take Gen.chashLen = t.chash := by
    rw [e1, List.drop_left' h1]; exact List.take_left' h2
  have a3 : ((t.signed ++ rest).drop (Gen.prevLen + Gen.chashLen)).take n = t.sig := by
    rw [e2, List.drop_left' (by simp [h1, h2])]; exact List.take_left' h3
  have a4 : (t.signed ++ rest).drop (Gen.prevLen + Gen.chashLen + n) = rest := by
    rw [e3]; exact List.drop_left' (by simp [h1, h2, h3]; omega)
  rw [a1, a2, a3, a4]
  rfl

theorem parse_serialize (els : List Token) (h : ∀ t ∈ els, WireOk C t) :
    parseChunks C.sigLen (els.flatMap Token.signed) = (els.map Token.strip, true) := by
  induction els with
  | nil => rw [parseChunks]; rfl
  | cons t els ih =>
    obtain ⟨h1, h2, h3⟩ := h t List.mem_cons_self
    rw [List.flatMap_cons, parse_cons t _ _ h1 h2 h3, ih (fun x hx => h x (List.mem_cons_of_mem _ hx))]
    rfl

theorem drain_added_nil {els : List Token} {r : Token} (hv : r.ok C g = true)
    (hp : r.prev = g ∨ hasId C els r.prev = true) (hd : hasId C els (r.id C) = false) :
    drain C g cap els [] [r] = ⟨els ++ [r], []⟩ := by
  have ho : (r.prev != g && !hasId C els r.prev) = false := by
    rcases hp with h | h
    · simp [h]
    · simp [h]
  rw [drain]
  simp only [hv, ho, hd, Bool.not_true, Bool.false_eq_true, ↓reduceIte]
  simp [kidsOf, othersOf, drain_nil]

theorem gatherKind_added {tr : Tree} {r : Token} (hv : r.ok C g = true)
    (hp : r.prev = g ∨ hasId C tr.els r.prev = true) (hd : hasId C tr.els (r.id C) = false) :
    gatherKind C g tr r = .added := by
  have ho : (r.prev != g && !hasId C tr.els r.prev) = false := by
    rcases hp with h | h
    · simp [h]
    · simp [h]
  simp [gatherKind, hv, ho, hd]

theorem gatherFlags_append (tr : Tree) (a b : List Token) :
    gatherFlags C g cap tr (a ++ b) =
      ((gatherFlags C g cap (gatherFlags C g cap tr a).1 b).1,
       (gatherFlags C g cap tr a).2 && (gatherFlags C g cap (gatherFlags C g cap tr a).1 b).2) := by
  unfold gatherFlags
  rw [List.foldl_append]
  generalize List.foldl _ (tr, true) a = acc
  obtain ⟨tr1, f1⟩ := acc
  induction b generalizing tr1 f1 with
  | nil => simp
  | cons t b ih =>
    simp only [List.foldl_cons, Bool.true_and]
    rw [ih, ih (f1 := (gatherKind C g tr1 t).isSome)]
    simp [Bool.and_assoc]

theorem gatherFlags_fst (tr : Tree) (ts : List Token) :
    (gatherFlags C g cap tr ts).1 = gatherAll C g cap tr ts := by
  unfold gatherFlags gatherAll
  generalize true = f
  induction ts generalizing tr f with
  | nil => rfl
  | cons t ts ih => simp only [List.foldl_cons]; exact ih _ _

theorem reload_chained {els : List Token} (h : Chained C g els) :
    gatherFlags C g cap Tree.empty (els.map Token.strip) = (⟨els.map Token.strip, []⟩, true) := by
  induction h with
  | nil => rfl
  | snoc els r _ hv hp hd ih =>
    rw [List.map_append, gatherFlags_append, ih]
    have hv' : r.strip.ok C g = true := by rw [ok_of_core C g r.strip_core]; exact hv
    have hp' : r.strip.prev = g ∨ hasId C (els.map Token.strip) r.strip.prev = true := by
      rw [hasId_map_core C _ Token.strip_core]; exact hp
    have hd' : hasId C (els.map Token.strip) (r.strip.id C) = false := by
      rw [hasId_map_core C _ Token.strip_core, id_of_core C r.strip_core]; exact hd
    simp only [List.map_cons, List.map_nil, gatherFlags, List.foldl_cons, List.foldl_nil, gather,
      Bool.true_and]
    rw [drain_added_nil hv' hp' hd', gatherKind_added (tr := ⟨els.map Token.strip, []⟩) hv' hp' hd']
    rfl

/-! ### serialize_public(up_to) -/

/-- the `while` loop of serialize_public(up_to) follows the same links as the verify loop -/
theorem upTo_eq_walk (els : List Token) (hg : hasId C els g = false) :
    ∀ (n : Nat) (t : Token) (path : List Token), walk C g els n t = some path → ∀ m, n ≤ m + 1 →
      t.signed ++ upToLoop C els m t.prev = path.flatMap Token.signed
  | 0, _, _, h, _, _ => by simp [walk] at h
  | n + 1, t, path, h, m, hm => by
    rw [walk] at h
    split at h
    · cases h
    · split at h
      · rename_i hgg
        have hg' : t.prev = g := by simpa using hgg
        simp only [Option.some.injEq] at h
        subst h
        have hl : lookup C els t.prev = none := by
          cases hl : lookup C els t.prev with
          | none => rfl
          | some p =>
            obtain ⟨hp, hid⟩ := lookup_some C hl
            rw [hg'] at hid
            rw [(hasId_iff C els g).mpr ⟨p, hp, hid⟩] at hg; cases hg
        cases m with
        | zero => simp [upToLoop]
        | succ k => simp [upToLoop, hl]
      · cases hl : lookup C els t.prev with
        | none => simp [hl] at h
        | some p =>
          simp only [hl] at h
          cases hw : walk C g els n p with
          | none => simp [hw] at h
          | some rest =>
            simp only [hw, Option.map_some, Option.some.injEq] at h
            subst h
            cases m with
            | zero =>
              have : n = 0 := by omega
              subst this
              simp [walk] at hw
            | succ k =>
              have ih := upTo_eq_walk els hg n p rest hw k (by omega)
              have hpid := (lookup_some C hl).2
              simp only [upToLoop, hl, List.flatMap_cons]
              rw [ih]

theorem Path.head_mem {els : List Token} {t : Token} {path : List Token} (h : Path C g els t path) : t ∈ path := by
  cases h <;> simp

theorem Path.subset {els : List Token} {t : Token} {path : List Token} (h : Path C g els t path) (ht : t ∈ els) :
    ∀ x ∈ path, x ∈ els := by
  induction h with
  | root t _ _ => intro x hx; have : x = t := by simpa using hx
                  exact this ▸ ht
  | step t p rest _ hp _ _ ih =>
    intro x hx
    rcases List.mem_cons.mp hx with rfl | h
    · exact ht
    · exact ih hp x h

theorem Path.all_inTree {els : List Token} {t : Token} {path : List Token} (h : Path C g els t path)
    (hsz : ∀ x ∈ path, x.sized g = true) : ∀ x ∈ path, InTree C g path x := by
  induction h with
  | root t hv hg =>
    intro x hx
    have : x = t := by simpa using hx
    subst this
    exact .root x (Off.self (by simp)) (ok_mk C g (hsz x (by simp)) hv) hg
  | step t p rest hv _ hid hp ih =>
    intro x hx
    have hsub : ∀ y, y ∈ rest → y ∈ t :: rest := fun y hy => List.mem_cons_of_mem _ hy
    have ih' := ih (fun y hy => hsz y (hsub y hy))
    rcases List.mem_cons.mp hx with rfl | h
    · exact .child x p (Off.self (by simp)) (ok_mk C g (hsz x (by simp)) hv) ((ih' p hp.head_mem).mono hsub) hid
    · exact (ih' x h).mono hsub

theorem InTree.mono_off {a b : List Token} (h : ∀ t, Off a t → Off b t) {t : Token} (ht : InTree C g a t) :
    InTree C g b t := by
  induction ht with
  | root t hm hv hp => exact .root t (h t hm) hv hp
  | child t p hm hv _ hid ih => exact .child t p (h t hm) hv ih hid

theorem off_map_strip (l : List Token) (t : Token) : Off (l.map Token.strip) t ↔ Off l t := by
  constructor
  · rintro ⟨o, ho, hc⟩
    obtain ⟨y, hy, rfl⟩ := List.mem_map.mp ho
    exact ⟨y, hy, hc⟩
  · rintro ⟨o, ho, hc⟩
    exact ⟨o.strip, List.mem_map.mpr ⟨o, ho, rfl⟩, hc⟩

/-! ### several views: a view only depends on what was offered to it -/

theorem offerAt_get_same (K : Keyed) : ∀ (w : List View) (i : Nat) (t : Token) (v : View),
    w[i]? = some v → (offerAt K w i t)[i]? = some (v.offer K t)
  | [], _, _, _, h => by simp at h
  | x :: xs, 0, t, v, h => by
    simp only [List.getElem?_cons_zero, Option.some.injEq] at h
    subst h; simp [offerAt]
  | x :: xs, i + 1, t, v, h => by
    simp only [List.getElem?_cons_succ] at h
    simpa [offerAt] using offerAt_get_same K xs i t v h

theorem offerAt_get_other (K : Keyed) : ∀ (w : List View) (i j : Nat) (t : Token),
    j ≠ i → (offerAt K w j t)[i]? = w[i]?
  | [], _, _, _, _ => by simp [offerAt]
  | x :: xs, i, 0, t, h => by
    cases i with
    | zero => exact absurd rfl h
    | succ k => simp [offerAt]
  | x :: xs, i, j + 1, t, h => by
    cases i with
    | zero => simp [offerAt]
    | succ k =>
      simp only [offerAt, List.getElem?_cons_succ]
      exact offerAt_get_other K xs k j t (by omega)

theorem runWorld_get (K : Keyed) (evs : List (Nat × Token)) : ∀ (w : List View) (i : Nat) (v : View),
    w[i]? = some v →
    (runWorld K w evs)[i]? =
      some { v with tree := gatherAll (K.at v.key) (v.genesis K) v.cap v.tree (offeredTo i evs) } := by
  induction evs with
  | nil => intro w i v h; simpa [runWorld, offeredTo, gatherAll] using h
  | cons e evs ih =>
    intro w i v h
    simp only [runWorld, List.foldl_cons]
    by_cases he : e.1 = i
    · have h1 := offerAt_get_same K w i e.2 v h
      rw [← he] at h1 ⊢
      have := ih (offerAt K w e.1 e.2) e.1 (v.offer K e.2) h1
      simp only [runWorld] at this
      rw [this]
      simp [offeredTo, View.offer, View.genesis, gatherAll]
    · have h1 : (offerAt K w e.1 e.2)[i]? = some v := by rw [offerAt_get_other K w i e.1 e.2 he]; exact h
      have := ih (offerAt K w e.1 e.2) i v h1
      simp only [runWorld] at this
      rw [this]
      have hne : (e.1 == i) = false := by simpa using he
      simp [offeredTo, hne]

/-! ### what gather_token returns, what unserialize_public's flag means -/

theorem drain_hasId_mono (els unc stack : List Token) (h : Bytes) (hh : hasId C els h = true) :
    hasId C (drain C g cap els unc stack).els h = true := by
  fun_induction drain C g cap els unc stack with
  | case1 els unc => exact hh
  | case2 els unc r rest hv ih => exact ih hh
  | case3 els unc r rest hv ho ih => exact ih hh
  | case4 els unc r rest hv ho hd ih => exact ih (by rw [hasId_absorb]; exact hh)
  | case5 els unc r rest hv ho hd ih => exact ih (by rw [hasId_append, hh]; rfl)

theorem gatherAll_hasId_mono (tr : Tree) (ts : List Token) (h : Bytes) (hh : hasId C tr.els h = true) :
    hasId C (gatherAll C g cap tr ts).els h = true := by
  induction ts generalizing tr with
  | nil => exact hh
  | cons t ts ih =>
    simp only [gatherAll, List.foldl_cons]
    exact ih _ (drain_hasId_mono _ _ _ _ hh)

theorem gather_return (tr : Tree) (t : Token) :
    ((gatherKind C g tr t).isSome = true → hasId C (gather C g cap tr t).els (t.id C) = true) ∧
    ((gatherKind C g tr t).isSome = false → (gather C g cap tr t).els = tr.els) := by
  unfold gather gatherKind
  rw [drain]
  by_cases hv : (!t.ok C g) = true
  · simp [hv, drain_nil, Kind.isSome]
  · by_cases ho : (t.prev != g && !hasId C tr.els t.prev) = true
    · simp [hv, ho, drain_nil, Kind.isSome]
    · by_cases hd : hasId C tr.els (t.id C) = true
      · simp [hv, ho, hd, drain_nil, Kind.isSome, hasId_absorb]
      · simp only [hv, ho, hd, Bool.false_eq_true, ↓reduceIte, Kind.isSome, forall_const, reduceCtorEq,
          false_implies, and_true]
        apply drain_hasId_mono
        rw [hasId_append]; simp

theorem gatherFlags_cons (tr : Tree) (t : Token) (ts : List Token) :
    gatherFlags C g cap tr (t :: ts) =
      ((gatherFlags C g cap (gather C g cap tr t) ts).1,
       (gatherKind C g tr t).isSome && (gatherFlags C g cap (gather C g cap tr t) ts).2) := by
  have := gatherFlags_append (C := C) (g := g) (cap := cap) tr [t] ts
  simpa [gatherFlags] using this

theorem flags_true_held (tr : Tree) (ts : List Token) (h : (gatherFlags C g cap tr ts).2 = true) :
    ∀ t ∈ ts, hasId C (gatherFlags C g cap tr ts).1.els (t.id C) = true := by
  induction ts generalizing tr with
  | nil => intro t ht; cases ht
  | cons a ts ih =>
    rw [gatherFlags_cons] at h ⊢
    simp only [Bool.and_eq_true] at h
    intro t ht
    rcases List.mem_cons.mp ht with rfl | h'
    · rw [gatherFlags_fst]
      exact gatherAll_hasId_mono _ _ _ ((gather_return tr t).1 h.1)
    · exact ih _ h.2 t h'

/-! ### a sufficient condition for `Fits` on the offered tokens alone -/

variable (C g)

/-- how many offers can ever reach the waiting area: signed by the tree key and not hanging off genesis
    (duplicates counted) -/
def waiters (ts : List Token) : Nat := (ts.filter (fun t => t.valid C && t.prev != g)).length

variable {C g}

theorem gather_unc_le_waiter (tr : Tree) (t : Token) :
    (gather C g cap tr t).unc.length ≤ tr.unc.length + waiters C g [t] := by
  unfold gather
  rw [drain]
  by_cases hv : (!t.ok C g) = true
  · rw [if_pos hv, drain_nil]; exact Nat.le_add_right _ _
  · rw [if_neg hv]
    by_cases ho : (t.prev != g && !hasId C tr.els t.prev) = true
    · rw [if_pos ho, drain_nil]
      have hv' : t.valid C = true := ok_valid C g (by simpa using hv)
      have hg : (t.prev != g) = true := by
        simp only [Bool.and_eq_true] at ho; exact ho.1
      have hw : waiters C g [t] = 1 := by simp [waiters, hv', hg]
      have := uncAdd_length_le cap tr.unc t
      show (uncAdd cap tr.unc t).length ≤ _
      omega
    · rw [if_neg ho]
      by_cases hd : hasId C tr.els (t.id C) = true
      · rw [if_pos hd, drain_nil]; exact Nat.le_add_right _ _
      · rw [if_neg hd]
        have h1 := drain_unc_le (C := C) (g := g) (cap := cap) (tr.els ++ [t]) (othersOf tr.unc (t.id C))
          (kidsOf tr.unc (t.id C) ++ [])
        have h2 := kids_others_length tr.unc (t.id C)
        simp only [List.append_nil] at h1 ⊢
        omega

theorem fits_of_waiters (tr : Tree) (ts : List Token) (h : tr.unc.length + waiters C g ts ≤ cap) :
    Fits C g cap tr ts := by
  induction ts generalizing tr with
  | nil => trivial
  | cons t ts ih =>
    have hsplit : waiters C g (t :: ts) = waiters C g [t] + waiters C g ts := by
      simp only [waiters, List.filter_cons, List.filter_nil]
      split <;> simp <;> omega
    refine ⟨fun hk => ?_, ih _ ?_⟩
    · have hw : waiters C g [t] = 1 := by
        unfold gatherKind at hk
        by_cases hv : (!t.ok C g) = true
        · simp [hv] at hk
        · by_cases ho : (t.prev != g && !hasId C tr.els t.prev) = true
          · have hv' : t.valid C = true := ok_valid C g (by simpa using hv)
            have hg : (t.prev != g) = true := by
              simp only [Bool.and_eq_true] at ho; exact ho.1
            simp [waiters, hv', hg]
          · by_cases hd : hasId C tr.els (t.id C) = true <;> simp [hv, ho, hd] at hk
      have := storeLen_le tr.unc t
      omega
    · have := gather_unc_le_waiter (C := C) (g := g) (cap := cap) tr t
      omega

/-! ### struct.error happens exactly on a length that is not a whole number of chunks -/

theorem parse_ok_iff (n : Nat) (s : Bytes) :
    (parseChunks n s).2 = (s.length % (Gen.chunkBase + n) == 0) := by
  have hl := gen_layout
  have hpos : 0 < Gen.chunkBase := by decide
  fun_induction parseChunks n s with
  | case1 s he =>
    have : s = [] := by simpa using he
    simp [this]
  | case2 s he hlt =>
    have hne : s.length ≠ 0 := by
      intro h0; have : s = [] := List.eq_nil_of_length_eq_zero h0
      simp [this] at he
    have : s.length % (Gen.chunkBase + n) = s.length := Nat.mod_eq_of_lt (by omega)
    simp [this, hne]
  | case3 s he hlt r ih =>
    simp only [r] at ih ⊢
    rw [ih]
    have hstep : Gen.chunkBase + n + (1 - (Gen.chunkBase + n)) = Gen.chunkBase + n := by omega
    rw [hstep, List.length_drop]
    have hge : Gen.chunkBase + n ≤ s.length := by omega
    rw [Nat.mod_eq_sub_mod hge]

/-- the code's behaviour for `maxdepth ≤ 0`, including the documented "-1": never True, never a path.
    (A fact about today's code that the model mirrors; not part of the property and not judged by the oracle.) -/
theorem verify_nonpositive (tr : Tree) (t : Token) (d : Int) (hd : d ≤ 0) :
    verify C g tr t d = false ∧ rootPath C g tr t d = [] := by
  have : d.toNat = 0 := by omega
  simp [verify, rootPath, this, walk]

/-! ### content: what the TREE attaches is checked, whatever the offered objects carry -/

/-- `drain` preserves every predicate on tokens that the content hand-over of the duplicate branch preserves -/
theorem drain_pred (P : Token → Prop) (hP : ∀ t x, P x → P (absorbOne C t x)) (els unc stack : List Token)
    (h1 : ∀ e ∈ els, P e) (h2 : ∀ u ∈ unc, P u) (h3 : ∀ r ∈ stack, P r) :
    (∀ e ∈ (drain C g cap els unc stack).els, P e) ∧ (∀ u ∈ (drain C g cap els unc stack).unc, P u) := by
  fun_induction drain C g cap els unc stack with
  | case1 els unc => exact ⟨h1, h2⟩
  | case2 els unc r rest hv ih => exact ih h1 h2 (fun x hx => h3 x (List.mem_cons_of_mem _ hx))
  | case3 els unc r rest hv ho ih =>
    refine ih h1 ?_ (fun x hx => h3 x (List.mem_cons_of_mem _ hx))
    intro u hu
    rcases mem_uncAdd cap hu with h | rfl
    · exact h2 u h
    · exact h3 u List.mem_cons_self
  | case4 els unc r rest hv ho hd ih =>
    refine ih ?_ h2 (fun x hx => h3 x (List.mem_cons_of_mem _ hx))
    intro e he
    rw [absorb_eq_map] at he
    obtain ⟨e0, h0, rfl⟩ := List.mem_map.mp he
    exact hP r e0 (h1 e0 h0)
  | case5 els unc r rest hv ho hd ih =>
    refine ih ?_ ?_ ?_
    · intro e he
      rcases List.mem_append.mp he with h | h
      · exact h1 e h
      · have : e = r := by simpa using h
        exact this ▸ h3 r List.mem_cons_self
    · intro u hu; exact h2 u (mem_othersOf.mp hu).1
    · intro x hx
      rcases List.mem_append.mp hx with h | h
      · exact h2 x (mem_kidsOf.mp h).1
      · exact h3 x (List.mem_cons_of_mem _ h)

theorem gatherAll_pred (P : Token → Prop) (hP : ∀ t x, P x → P (absorbOne C t x)) (tr : Tree) (ts : List Token)
    (h1 : ∀ e ∈ tr.els, P e) (h2 : ∀ u ∈ tr.unc, P u) (h3 : ∀ t ∈ ts, P t) :
    (∀ e ∈ (gatherAll C g cap tr ts).els, P e) ∧ (∀ u ∈ (gatherAll C g cap tr ts).unc, P u) := by
  induction ts generalizing tr with
  | nil => exact ⟨h1, h2⟩
  | cons t ts ih =>
    simp only [gatherAll, List.foldl_cons]
    have := drain_pred (C := C) (g := g) (cap := cap) P hP tr.els tr.unc [t] h1 h2
      (fun r hr => by
        have : r = t := by simpa using hr
        exact this ▸ h3 t List.mem_cons_self)
    exact ih _ this.1 this.2 (fun x hx => h3 x (List.mem_cons_of_mem _ hx))

/-- the hand-over either leaves the stored token as it is or leaves it with bound content -/
theorem absorbOne_same_or_bound (t x : Token) : absorbOne C t x = x ∨ (absorbOne C t x).contentOk C := by
  unfold absorbOne
  split
  · split
    · rename_i c _ _
      unfold Token.receiveContent
      split
      · rename_i hh
        right
        intro c' hc'
        simp only [Option.some.injEq] at hc'
        subst hc'
        simpa using hh
      · exact Or.inl rfl
    · exact Or.inl rfl
  · exact Or.inl rfl

/-! ### pointers that are not digest sized are ignored; among sized tokens equal bytes are equal tokens -/

theorem gather_unsized (tr : Tree) (t : Token) (h : t.sized g = false) : gather C g cap tr t = tr := by
  unfold gather
  rw [drain]
  simp [Token.ok, h, drain_nil]

theorem gatherAll_filter_sized (tr : Tree) (ts : List Token) :
    gatherAll C g cap tr ts = gatherAll C g cap tr (ts.filter (fun t => t.sized g)) := by
  induction ts generalizing tr with
  | nil => rfl
  | cons t ts ih =>
    cases hs : t.sized g with
    | false =>
      simp only [gatherAll, List.foldl_cons, List.filter_cons, hs, Bool.false_eq_true, ↓reduceIte]
      rw [gather_unsized tr t hs]
      exact ih tr
    | true =>
      simp only [gatherAll, List.foldl_cons, List.filter_cons, hs, ↓reduceIte]
      exact ih _

theorem core_of_signed_sized {a b : Token} (ha : a.sized g = true) (hb : b.sized g = true)
    (h : a.signed = b.signed) : a.core = b.core := by
  simp only [Token.sized, Bool.and_eq_true, beq_iff_eq] at ha hb
  unfold Token.signed at h
  have h1 := List.append_inj h (by simp [ha.1, ha.2, hb.1, hb.2])
  have h2 := List.append_inj h1.1 (by rw [ha.1, hb.1])
  simp [Token.core, h2.1, h2.2, h1.2]

/-- the duplicate branch changes a stored token only by giving it content that hashes to its pointer -/
theorem gather_shadow_content (tr : Tree) (t : Token) (hk : gatherKind C g tr t = .shadow) :
    (gather C g cap tr t).unc = tr.unc ∧
    ∀ e ∈ (gather C g cap tr t).els, e ∈ tr.els ∨ e.contentOk C := by
  unfold gatherKind at hk
  unfold gather
  rw [drain]
  by_cases hv : (!t.ok C g) = true
  · simp [hv] at hk
  · by_cases ho : (t.prev != g && !hasId C tr.els t.prev) = true
    · simp [hv, ho] at hk
    · by_cases hd : hasId C tr.els (t.id C) = true
      · rw [if_neg hv, if_neg ho, if_pos hd, drain_nil]
        refine ⟨rfl, fun e he => ?_⟩
        rw [absorb_eq_map] at he
        obtain ⟨e0, h0, rfl⟩ := List.mem_map.mp he
        rcases absorbOne_same_or_bound (C := C) t e0 with h | h
        · left; rw [h]; exact h0
        · exact Or.inr h
      · simp [hv, ho, hd] at hk

/-- today's struct.error quirk of unserialize_public (result `none`), as the model mirrors it: exactly when the length
    is not a whole number of chunks.  Not an obligation: a repair that returns False instead is not a violation. -/
theorem unserialize_error_iff (tr : Tree) (s : Bytes) :
    (unserializePublic C g cap tr s).2 = none ↔ s.length % (Gen.chunkBase + C.sigLen) ≠ 0 := by
  unfold unserializePublic
  simp only []
  rw [parse_ok_iff]
  cases h : (s.length % (Gen.chunkBase + C.sigLen) == 0) <;> simp_all


theorem lookup_of_hasId {els : List Token} {h : Bytes} (hh : hasId C els h = true) :
    ∃ x, lookup C els h = some x := by
  have := lookup_isSome C els h
  rw [hh] at this
  cases hl : lookup C els h with
  | none => simp [hl] at this
  | some x => exact ⟨x, rfl⟩


/-! ### persistence (PseudonymManager): stored rows and reloaded trees stay inside the fixpoint -/

/-- soundness alone, for trees that are NOT known to be a chain (elements loaded from a database in any order) -/
theorem drain_wsound (seen els unc stack : List Token)
    (h1 : ∀ e ∈ els, InTree C g seen e) (h2 : ∀ u ∈ unc, Off seen u) (h3 : ∀ r ∈ stack, Off seen r) :
    (∀ e ∈ (drain C g cap els unc stack).els, InTree C g seen e) ∧
    (∀ u ∈ (drain C g cap els unc stack).unc, Off seen u) := by
  fun_induction drain C g cap els unc stack with
  | case1 els unc => exact ⟨h1, h2⟩
  | case2 els unc r rest hv ih => exact ih h1 h2 (fun x hx => h3 x (List.mem_cons_of_mem _ hx))
  | case3 els unc r rest hv ho ih =>
    refine ih h1 ?_ (fun x hx => h3 x (List.mem_cons_of_mem _ hx))
    intro u hu
    rcases mem_uncAdd cap hu with h | rfl
    · exact h2 u h
    · exact h3 u List.mem_cons_self
  | case4 els unc r rest hv ho hd ih =>
    refine ih ?_ h2 (fun x hx => h3 x (List.mem_cons_of_mem _ hx))
    intro e he
    obtain ⟨e0, h0, hc⟩ := mem_absorb C he
    exact (h1 e0 h0).of_core hc
  | case5 els unc r rest hv ho hd ih =>
    have hv' : r.ok C g = true := by simpa using hv
    have hroff : Off seen r := h3 r List.mem_cons_self
    have hpar : r.prev = g ∨ hasId C els r.prev = true := by
      by_cases hg : r.prev = g
      · exact Or.inl hg
      · right
        cases hh : hasId C els r.prev with
        | true => rfl
        | false => exact absurd (by simp [hg, hh]) ho
    have hrTree : InTree C g seen r := by
      rcases hpar with hg | hp
      · exact .root r hroff hv' hg
      · obtain ⟨p, hp1, hp2⟩ := (hasId_iff C els r.prev).mp hp
        exact .child r p hroff hv' (h1 p hp1) hp2
    refine ih ?_ ?_ ?_
    · intro e he
      rcases List.mem_append.mp he with h | h
      · exact h1 e h
      · have : e = r := by simpa using h
        exact this ▸ hrTree
    · intro u hu; exact h2 u (mem_othersOf.mp hu).1
    · intro x hx
      rcases List.mem_append.mp hx with h | h
      · exact h2 x (mem_kidsOf.mp h).1
      · exact h3 x (List.mem_cons_of_mem _ h)

theorem gatherAll_wsound (seen : List Token) (tr : Tree) (ts : List Token)
    (h1 : ∀ e ∈ tr.els, InTree C g seen e) (h2 : ∀ u ∈ tr.unc, Off seen u) :
    (∀ e ∈ (gatherAll C g cap tr ts).els, InTree C g (seen ++ ts) e) ∧
    (∀ u ∈ (gatherAll C g cap tr ts).unc, Off (seen ++ ts) u) := by
  induction ts generalizing seen tr with
  | nil => simpa [gatherAll] using And.intro h1 h2
  | cons t ts ih =>
    have hsub : ∀ x, x ∈ seen → x ∈ seen ++ [t] := fun x hx => List.mem_append_left _ hx
    have := drain_wsound (C := C) (g := g) (cap := cap) (seen ++ [t]) tr.els tr.unc [t]
      (fun e he => (h1 e he).mono hsub) (fun u hu => (h2 u hu).mono hsub)
      (fun r hr => by
        have : r = t := by simpa using hr
        exact this ▸ Off.self (by simp))
    have h := ih (seen ++ [t]) (gather C g cap tr t) this.1 this.2
    simpa [gatherAll, List.append_assoc] using h

theorem mem_dictSet {els : List Token} {t x : Token} (h : x ∈ dictSet C els t) : x ∈ els ∨ x = t := by
  unfold dictSet at h
  split at h
  · obtain ⟨y, hy, rfl⟩ := List.mem_map.mp h
    split
    · exact Or.inr rfl
    · exact Or.inl hy
  · rcases List.mem_append.mp h with h | h
    · exact Or.inl h
    · right; simpa using h

theorem mem_dbInsert {db : List Token} {t x : Token} (h : x ∈ dbInsert db t) : x ∈ db ∨ x = t := by
  unfold dbInsert at h
  split at h
  · exact Or.inl h
  · rcases List.mem_append.mp h with h | h
    · exact Or.inl h
    · right; simpa using h

theorem mem_foldl_dbInsert {db l : List Token} {x : Token} (h : x ∈ l.foldl dbInsert db) : x ∈ db ∨ x ∈ l := by
  induction l generalizing db with
  | nil => exact Or.inl h
  | cons a l ih =>
    rcases ih h with h1 | h1
    · rcases mem_dbInsert h1 with h2 | h2
      · exact Or.inl h2
      · exact Or.inr (h2 ▸ List.mem_cons_self)
    · exact Or.inr (List.mem_cons_of_mem _ h1)

/-- invariant of the manager: tree elements and stored rows are in the fixpoint, waiting tokens were offered -/
structure PInv (C : Crypto) (g : Bytes) (seen : List Token) (p : Pseudo) : Prop where
  els : ∀ e ∈ p.tree.els, InTree C g seen e
  unc : ∀ u ∈ p.tree.unc, Off seen u
  db : ∀ d ∈ p.db, InTree C g seen d

theorem PInv.mono {seen seen' : List Token} {p : Pseudo} (h : ∀ t, t ∈ seen → t ∈ seen') (I : PInv C g seen p) :
    PInv C g seen' p :=
  ⟨fun e he => (I.els e he).mono h, fun u hu => (I.unc u hu).mono h, fun d hd => (I.db d hd).mono h⟩

theorem storeNew_inv {seen : List Token} {p : Pseudo} (known : List Bytes) (I : PInv C g seen p) :
    PInv C g seen (p.storeNew C known) := by
  refine ⟨I.els, I.unc, ?_⟩
  intro d hd
  rcases mem_foldl_dbInsert hd with h | h
  · exact I.db d h
  · exact I.els d (List.mem_filter.mp h).1

theorem restart_inv {seen : List Token} {p : Pseudo} (I : PInv C g seen p) : PInv C g seen (p.restart C) := by
  refine ⟨?_, by simp [Pseudo.restart], I.db⟩
  have key : ∀ (l els : List Token), (∀ e ∈ els, InTree C g seen e) → (∀ d ∈ l, InTree C g seen d) →
      ∀ e ∈ l.foldl (fun els t => dictSet C els (Token.ofDatabaseTuple C t.prev t.sig t.chash t.content)) els,
        InTree C g seen e := by
    intro l
    induction l with
    | nil => intro els h _; exact h
    | cons a l ih =>
      intro els h hl
      apply ih
      · intro e he
        rcases mem_dictSet he with h1 | h1
        · exact h e h1
        · have hc : (Token.ofDatabaseTuple C a.prev a.sig a.chash a.content).core = a.core := by
            cases hcon : a.content with
            | none => simp [Token.ofDatabaseTuple, Token.ofHash, Token.core]
            | some c =>
              simp only [Token.ofDatabaseTuple]
              rw [receiveContent_core]; rfl
          rw [h1]
          exact (hl a List.mem_cons_self).of_core hc.symm
      · exact fun d hd => hl d (List.mem_cons_of_mem _ hd)
  exact key p.db [] (by simp) I.db

theorem step_inv (seen : List Token) (p : Pseudo) (ev : PEvent) (I : PInv C g seen p) :
    PInv C g (seen ++ ev.offers C.sigLen) (p.step C g cap ev) := by
  cases ev with
  | restart =>
    simpa [PEvent.offers, Pseudo.step] using restart_inv I
  | substantiate s =>
    simp only [PEvent.offers, Pseudo.step, Pseudo.substantiate]
    apply storeNew_inv
    have hsub : ∀ t, t ∈ seen → t ∈ seen ++ (parseChunks C.sigLen s).1 := fun t ht => List.mem_append_left _ ht
    have := gatherAll_wsound (C := C) (g := g) (cap := cap) seen p.tree (parseChunks C.sigLen s).1 I.els I.unc
    refine ⟨?_, ?_, fun d hd => (I.db d hd).mono hsub⟩
    · simpa [unserializePublic, gatherFlags_fst] using this.1
    · simpa [unserializePublic, gatherFlags_fst] using this.2
  | credential t =>
    simp only [PEvent.offers, Pseudo.step, Pseudo.addCredential]
    have hsub : ∀ x, x ∈ seen → x ∈ seen ++ [t] := fun x hx => List.mem_append_left _ hx
    have := gatherAll_wsound (C := C) (g := g) (cap := cap) seen p.tree [t] I.els I.unc
    have hg : gatherAll C g cap p.tree [t] = gather C g cap p.tree t := rfl
    rw [hg] at this
    split
    · rename_i hk
      apply storeNew_inv
      refine ⟨this.1, this.2, ?_⟩
      intro d hd
      rcases mem_dbInsert hd with h | h
      · exact (I.db d h).mono hsub
      · -- the offered token was accepted: signed, sized, and its parent is genesis or an element
        subst h
        have hoff : Off (seen ++ [d]) d := Off.self (by simp)
        unfold gatherKind at hk
        by_cases hv : (!d.ok C g) = true
        · simp [hv, Kind.isSome] at hk
        · have hv' : d.ok C g = true := by simpa using hv
          by_cases ho : (d.prev != g && !hasId C p.tree.els d.prev) = true
          · simp [hv, ho, Kind.isSome] at hk
          · by_cases hg : d.prev = g
            · exact .root d hoff hv' hg
            · have hp : hasId C p.tree.els d.prev = true := by
                cases hh : hasId C p.tree.els d.prev with
                | true => rfl
                | false => exact absurd (by simp [hg, hh]) ho
              obtain ⟨q, hq1, hq2⟩ := (hasId_iff C _ _).mp hp
              exact .child d q hoff hv' ((I.els q hq1).mono hsub) hq2
    · exact ⟨this.1, this.2, fun d hd => (I.db d hd).mono hsub⟩

/-- the manager after a history of events, started empty -/
def Pseudo.run (C : Crypto) (g : Bytes) (cap : Nat) (evs : List PEvent) : Pseudo :=
  evs.foldl (Pseudo.step C g cap) Pseudo.fresh

theorem run_inv (evs : List PEvent) :
    PInv C g (evs.flatMap (PEvent.offers C.sigLen)) (Pseudo.run C g cap evs) := by
  have key : ∀ (evs : List PEvent) (seen : List Token) (p : Pseudo), PInv C g seen p →
      PInv C g (seen ++ evs.flatMap (PEvent.offers C.sigLen)) (evs.foldl (Pseudo.step C g cap) p) := by
    intro evs
    induction evs with
    | nil => intro seen p I; simpa using I
    | cons ev evs ih =>
      intro seen p I
      have := ih _ _ (step_inv (cap := cap) seen p ev I)
      simpa [List.flatMap_cons, List.append_assoc] using this
  have := key evs [] Pseudo.fresh ⟨by simp [Pseudo.fresh, Tree.empty], by simp [Pseudo.fresh, Tree.empty],
    by simp [Pseudo.fresh]⟩
  simpa [Pseudo.run] using this

end Ipv8.C16
