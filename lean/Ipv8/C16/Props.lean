/-
  C16 — a token tree only ever holds its owner's signed chain, in any order.
  Every `theorem` in this file is an obligation of the check; helper lemmas live in Lemmas.lean.

  Setting.  `C : Crypto` is an arbitrary hash / signature-check pair (SHA3-256 and the tree key's verification in
  the code), `g` the genesis hash, `cap` = `unchained_max_size`.  `gatherAll C g cap Tree.empty ts` is the tree after
  `gather_token` was called on the tokens `ts` in that order (duplicates, forged, foreign and dangling tokens
  included: `ts` is an arbitrary list).  `InTree C g ts` is the least fixpoint
        offered ∧ signed by the tree key ∧ (parent = genesis ∨ parent ∈ InTree),
  `tr.holds t` says that `t` (attached content aside) is one of `tr.elements`.

  Hypotheses are explicit:
    * soundness (`gather_sound`, `gather_chained`, `forged_never_contained`, `dangling_never_contained`,
      `gather_return_sound`, `waiting_sound`, `waiting_bounded`, `verify_sound`, `unserialize_sound(_from)`,
      `unserialize_true_all_held`) needs NOTHING — any hash function (colliding or not), any cap, any order, any tokens;
    * `content_bound` has ONE hypothesis: every offered Token value carries no content or content that hashes to its
      pointer — which is what every way of building a Token gives (`constructors_bound`, `receive_content_bound`,
      `database_tuple_bound`, `create_bound`);
    * completeness / order independence need `HashInj C ts` (the hash separates the offered tokens) and
      `Fits C g cap Tree.empty ts` ("the bounded waiting area is not exceeded" on the orders compared);
      `fits_of_small` gives the latter for every order of at most `cap` tokens.
-/
import Ipv8.C16.Lemmas

namespace Ipv8.C16
open Ipv8

variable {C : Crypto} {g : Bytes} {cap : Nat}

/-! ### what is in the tree is signed by the owner and connected to genesis — whatever was offered -/

/-- Soundness: every element is an offered token, signed by the tree key, and connected to genesis through
    offered, signed tokens.  No hypothesis on the hash, the cap, the order or the tokens. -/
theorem gather_sound (ts : List Token) :
    ∀ e ∈ (gatherAll C g cap Tree.empty ts).els, InTree C g ts e :=
  (history_sound ts).sound

/-- The elements form a signed chain: in storage order every token is signed by the tree key, its parent is
    genesis or an EARLIER element, and no hash is stored twice. -/
theorem gather_chained (ts : List Token) : Chained C g (gatherAll C g cap Tree.empty ts).els :=
  (history_sound ts).chained

/-- every element verifies and its parent is genesis or an element (closedness, read off `gather_chained`) -/
theorem gather_closed (ts : List Token) :
    ∀ e ∈ (gatherAll C g cap Tree.empty ts).els,
      e.ok C g = true ∧ (e.prev = g ∨ hasId C (gatherAll C g cap Tree.empty ts).els e.prev = true) :=
  (gather_chained ts).closed

/-- The return value of `gather_token` reports membership truthfully: a returned token (the offered one or the
    stored shadow) means the offered token's hash is now a key of `elements`; `None` means no element was added. -/
theorem gather_return_sound (tr : Tree) (t : Token) :
    ((gatherKind C g tr t).isSome = true → hasId C (gather C g cap tr t).els (t.id C) = true) ∧
    ((gatherKind C g tr t).isSome = false → (gather C g cap tr t).els = tr.els) :=
  gather_return tr t

/-- a token whose signature does not verify under the tree key (forged, or signed by another key) is never part -/
theorem forged_never_contained (ts : List Token) (t : Token) (hv : t.valid C = false) :
    ¬ (gatherAll C g cap Tree.empty ts).holds t := by
  rintro ⟨e, he, hc⟩
  have := ((gather_sound (C := C) (g := g) (cap := cap) ts e he).of_core hc).valid
  rw [hv] at this; cases this

/-- a dangling token (parent neither genesis nor a token of the fixpoint) is never part, however well signed -/
theorem dangling_never_contained (ts : List Token) (t : Token) (hg : t.prev ≠ g)
    (hno : ∀ p, InTree C g ts p → p.id C ≠ t.prev) :
    ¬ (gatherAll C g cap Tree.empty ts).holds t := by
  rintro ⟨e, he, hc⟩
  have := (gather_sound (C := C) (g := g) (cap := cap) ts e he).of_core hc
  cases this with
  | root _ _ _ hp => exact hg hp
  | child _ p _ _ hp hid => exact hno p hp hid

/-- a token never offered is never part -/
theorem unoffered_never_contained (ts : List Token) (t : Token) (hno : ∀ o ∈ ts, o.core ≠ t.core) :
    ¬ (gatherAll C g cap Tree.empty ts).holds t := by
  rintro ⟨e, he, hc⟩
  obtain ⟨o, ho, hoc⟩ := ((gather_sound (C := C) (g := g) (cap := cap) ts e he).of_core hc).off
  exact hno o ho hoc

/-! ### the waiting area -/

/-- what waits was offered, is signed by the tree key, and its parent is neither genesis nor an element -/
theorem waiting_sound (ts : List Token) :
    ∀ u ∈ (gatherAll C g cap Tree.empty ts).unc,
      Off ts u ∧ u.ok C g = true ∧ u.prev ≠ g ∧ hasId C (gatherAll C g cap Tree.empty ts).els u.prev = false :=
  (history_sound ts).uncOk

/-- the waiting area never holds more than `cap` tokens -/
theorem waiting_bounded (ts : List Token) : (gatherAll C g cap Tree.empty ts).unc.length ≤ cap :=
  gatherAll_unc_cap Tree.empty ts (Nat.zero_le _)

/-- at most `cap` offered tokens can never exceed the waiting area, in any order -/
theorem fits_of_small (ts : List Token) (h : ts.length ≤ cap) : Fits C g cap Tree.empty ts :=
  fits_of_length Tree.empty ts (by simpa [Tree.empty] using h)

/-- a sharper input-level condition: only offers that can ever wait count — signed by the tree key and not hanging
    off genesis (forged / foreign tokens and roots never occupy the waiting area); duplicates are still counted, so
    this asks for more than the code needs (it de-duplicates waiting tokens), see design.d/C16.md -/
theorem fits_of_few_waiters (ts : List Token) (h : waiters C g ts ≤ cap) : Fits C g cap Tree.empty ts :=
  fits_of_waiters Tree.empty ts (by simpa [Tree.empty] using h)

/-! ### exactly the least fixpoint, hence the same for every arrival order -/

/-- Soundness and completeness: while the waiting area is not exceeded, the tree holds exactly the offered tokens
    that are signed by the tree key and connected to genesis through other such tokens. -/
theorem elements_iff (ts : List Token) (hinj : HashInj C ts) (hfit : Fits C g cap Tree.empty ts) (t : Token) :
    (gatherAll C g cap Tree.empty ts).holds t ↔ InTree C g ts t :=
  inv_holds_iff (history_full ts hfit hinj) t

/-- the same, on stored hashes (the keys of `elements`) -/
theorem element_ids_iff (ts : List Token) (hinj : HashInj C ts) (hfit : Fits C g cap Tree.empty ts) (h : Bytes) :
    hasId C (gatherAll C g cap Tree.empty ts).els h = true ↔ ∃ t, InTree C g ts t ∧ t.id C = h := by
  rw [hasId_iff]
  constructor
  · rintro ⟨e, he, hid⟩
    exact ⟨e, gather_sound ts e he, hid⟩
  · rintro ⟨t, ht, hid⟩
    obtain ⟨e, he, hc⟩ := (elements_iff ts hinj hfit t).mpr ht
    exact ⟨e, he, by rw [id_of_core C hc]; exact hid⟩

/-! #### the hash hypothesis, reduced to bytes

  `HashInj` asks that equal hashes mean equal TOKENS (the three fields).  A hash function only ever separates BYTE
  strings, and the signed bytes of a token do not say where `previous_token_hash` ends: the same bytes, cut elsewhere,
  are another token with the same signature and the same hash.  gather_token therefore ignores every token whose
  pointers are not digest sized (`unsized_ignored`); among the remaining ones equal bytes are equal tokens, so
  collision freeness of the hash on byte strings is enough (`hashInj_of_bytes`, `elements_iff_bytes`). -/

/-- a token whose pointers are not digest sized leaves the tree exactly as it was; a history acts like its sized part -/
theorem unsized_ignored (tr : Tree) (t : Token) (ts : List Token) :
    (t.sized g = false → gather C g cap tr t = tr) ∧
    gatherAll C g cap tr ts = gatherAll C g cap tr (ts.filter (fun t => t.sized g)) :=
  ⟨gather_unsized tr t, gatherAll_filter_sized tr ts⟩

/-- among digest-sized tokens, a hash without collisions ON BYTE STRINGS separates tokens -/
theorem hashInj_of_bytes (ts : List Token) (hs : ∀ t ∈ ts, t.sized g = true)
    (hb : ∀ a ∈ ts, ∀ b ∈ ts, a.id C = b.id C → a.signed = b.signed) : HashInj C ts :=
  fun a ha b hb' hid => core_of_signed_sized (hs a ha) (hs b hb') (hb a ha b hb' hid)

/-- Exactness for ARBITRARY offered tokens (re-cut copies, odd-sized pointers included), assuming only that the hash
    does not collide on the signed bytes of the digest-sized offers and that those do not overflow the waiting area -/
theorem elements_iff_bytes (ts : List Token)
    (hb : ∀ a ∈ ts, ∀ b ∈ ts, a.sized g = true → b.sized g = true → a.id C = b.id C → a.signed = b.signed)
    (hfit : Fits C g cap Tree.empty (ts.filter (fun t => t.sized g))) (t : Token) :
    (gatherAll C g cap Tree.empty ts).holds t ↔ InTree C g (ts.filter (fun t => t.sized g)) t := by
  rw [gatherAll_filter_sized]
  apply elements_iff _ _ hfit
  apply hashInj_of_bytes (g := g)
  · intro x hx; exact (List.mem_filter.mp hx).2
  · intro a ha b hb' hid
    exact hb a (List.mem_filter.mp ha).1 b (List.mem_filter.mp hb').1 (List.mem_filter.mp ha).2
      (List.mem_filter.mp hb').2 hid

/-- … and nothing is lost: while the waiting area is not exceeded, the waiting tokens are exactly the offered tokens
    that are signed by the tree key but not (yet) connected to genesis -/
theorem waiting_iff (ts : List Token) (hinj : HashInj C ts) (hfit : Fits C g cap Tree.empty ts) (t : Token)
    (ht : t ∈ ts) :
    (∃ u ∈ (gatherAll C g cap Tree.empty ts).unc, u.core = t.core) ↔ (t.ok C g = true ∧ ¬ InTree C g ts t) := by
  have I := history_full (g := g) (cap := cap) ts hfit hinj
  constructor
  · rintro ⟨u, hu, hc⟩
    obtain ⟨_, hv, hg, hp⟩ := I.uncOk u hu
    refine ⟨by rw [← ok_of_core C g hc]; exact hv, fun hin => ?_⟩
    cases hin with
    | root _ _ _ hp0 => exact hg (prev_of_core hc ▸ hp0)
    | child _ p _ _ hpin hid =>
      have := inv_complete I hpin
      rw [hid, ← prev_of_core hc, hp] at this
      cases this
  · rintro ⟨hv, hnot⟩
    rcases I.kept trivial t ht hv with k | k | ⟨r, hr, _⟩
    · exfalso
      obtain ⟨e, he, hid⟩ := (hasId_iff C _ _).mp k
      exact hnot ((I.sound e he).of_core (off_core_of_id I trivial (I.sound e he).off (Off.self ht) hid))
    · exact k
    · cases hr

/-- Order independence: two arrival orders of the same tokens (neither exceeding the waiting area) end with the
    same tokens in the tree. -/
theorem order_independent (ts us : List Token) (hp : ts.Perm us) (hinj : HashInj C ts)
    (hft : Fits C g cap Tree.empty ts) (hfu : Fits C g cap Tree.empty us) (t : Token) :
    (gatherAll C g cap Tree.empty ts).holds t ↔ (gatherAll C g cap Tree.empty us).holds t := by
  have hinj' : HashInj C us :=
    fun a ha b hb => hinj a (hp.mem_iff.mpr ha) b (hp.mem_iff.mpr hb)
  rw [elements_iff ts hinj hft, elements_iff us hinj' hfu, InTree.perm hp]

/-- … and with the same set of keys in `elements` -/
theorem order_independent_ids (ts us : List Token) (hp : ts.Perm us) (hinj : HashInj C ts)
    (hft : Fits C g cap Tree.empty ts) (hfu : Fits C g cap Tree.empty us) (h : Bytes) :
    hasId C (gatherAll C g cap Tree.empty ts).els h = hasId C (gatherAll C g cap Tree.empty us).els h := by
  have hinj' : HashInj C us :=
    fun a ha b hb => hinj a (hp.mem_iff.mpr ha) b (hp.mem_iff.mpr hb)
  have key : hasId C (gatherAll C g cap Tree.empty ts).els h = true ↔
      hasId C (gatherAll C g cap Tree.empty us).els h = true := by
    rw [element_ids_iff ts hinj hft, element_ids_iff us hinj' hfu]
    exact ⟨fun ⟨t, a, b⟩ => ⟨t, (InTree.perm hp t).mp a, b⟩, fun ⟨t, a, b⟩ => ⟨t, (InTree.perm hp t).mpr a, b⟩⟩
  cases h1 : hasId C (gatherAll C g cap Tree.empty ts).els h <;>
    cases h2 : hasId C (gatherAll C g cap Tree.empty us).els h <;> simp_all

/-! ### content binding -/

/-- `receive_content` attaches content only if it hashes to the content pointer, and says so -/
theorem receive_content_bound (t : Token) (c : Bytes) (ht : t.contentOk C) :
    (t.receiveContent C c).1.contentOk C ∧
    ((t.receiveContent C c).2 = true ↔ C.hash c = t.chash) ∧
    ((t.receiveContent C c).2 = false → (t.receiveContent C c).1 = t) := by
  unfold Token.receiveContent
  split
  · rename_i hh
    have hh' : C.hash c = t.chash := by simpa using hh
    refine ⟨?_, by simp [hh'], by simp⟩
    intro c' hc'
    simp only [Option.some.injEq] at hc'
    subst hc'; exact hh'
  · rename_i hh
    have hh' : C.hash c ≠ t.chash := by simpa using hh
    exact ⟨ht, by simp [hh'], by simp⟩

/-- both constructors produce bound content -/
theorem constructors_bound (prev c chash sig : Bytes) :
    (Token.ofContent C prev c sig).contentOk C ∧ (Token.ofHash prev chash sig).contentOk C := by
  constructor
  · intro c' hc'
    simp only [Token.ofContent, Option.some.injEq] at hc'
    subst hc'; rfl
  · intro c' hc'
    simp [Token.ofHash] at hc'

/-- `from_database_tuple`: whatever row is loaded — content that does not hash to the stored pointer included — the
    token carries no content or bound content, and its three signed fields are the row's -/
theorem database_tuple_bound (prev sig chash : Bytes) (content : Option Bytes) :
    (Token.ofDatabaseTuple C prev sig chash content).contentOk C ∧
    (Token.ofDatabaseTuple C prev sig chash content).core = (prev, chash, sig) := by
  cases content with
  | none => exact ⟨(constructors_bound (C := C) prev [] chash sig).2, rfl⟩
  | some c =>
    refine ⟨(receive_content_bound _ c (constructors_bound (C := C) prev [] chash sig).2).1, ?_⟩
    simp only [Token.ofDatabaseTuple]
    rw [receiveContent_core]; rfl

/-- … and a token with bound content survives `to_database_tuple` → `from_database_tuple` unchanged -/
theorem database_roundtrip (t : Token) (ht : t.contentOk C) :
    Token.ofDatabaseTuple C t.toDatabaseTuple.1 t.toDatabaseTuple.2.1 t.toDatabaseTuple.2.2.1
      t.toDatabaseTuple.2.2.2 = t := by
  obtain ⟨p, h, sg, c⟩ := t
  cases c with
  | none => rfl
  | some c =>
    have : C.hash c = h := ht c rfl
    simp [Token.ofDatabaseTuple, Token.toDatabaseTuple, Token.ofHash, Token.receiveContent, this]

/-- `Token.create` hangs the new token under its predecessor's hash and binds its content -/
theorem create_bound (previous : Token) (content sig : Bytes) :
    (Token.create C previous content sig).prev = previous.id C ∧ (Token.create C previous content sig).contentOk C :=
  ⟨rfl, (constructors_bound (C := C) _ content [] sig).1⟩

/-- Content binding: if every offered token object carries no content or content matching its pointer (which the
    constructors and `receive_content` guarantee), so does every element and every waiting token, always. -/
theorem content_bound (ts : List Token) (h : ∀ t ∈ ts, t.contentOk C) :
    (∀ e ∈ (gatherAll C g cap Tree.empty ts).els, e.contentOk C) ∧
    (∀ u ∈ (gatherAll C g cap Tree.empty ts).unc, u.contentOk C) :=
  gatherAll_contentOk Tree.empty ts (by simp [Tree.empty]) (by simp [Tree.empty]) h

/-- The duplicate branch, call by call, for ANY tree and ANY offered object: when gather_token is given a token whose
    hash is already stored, the waiting area is untouched and every element afterwards is an element from before,
    unchanged, or carries content that hashes to its pointer.  (This is the statement that separates the code from a
    variant that copies the duplicate's `content` field: there the stored token changes into an unbound one.) -/
theorem duplicate_content_checked (tr : Tree) (t : Token) (hk : gatherKind C g tr t = .shadow) :
    (gather C g cap tr t).unc = tr.unc ∧
    ∀ e ∈ (gather C g cap tr t).els, e ∈ tr.els ∨ e.contentOk C :=
  gather_shadow_content tr t hk

/-- A WEAK history-level companion (it does NOT by itself exclude copying a duplicate's content, because a stored
    token that took over a duplicate's content equals that offered duplicate): without any hypothesis on the offered objects: whatever the offered Token objects carry in
    their `content` field (a relay may have put anything there — the field is covered by neither hash nor signature),
    every stored or waiting token either carries no / bound content, or is literally one of the offered objects,
    content included.  So the tree itself never attaches content that does not hash to the pointer: content that
    reaches a stored token through a later duplicate has passed `receive_content`. -/
theorem content_attach_checked (ts : List Token) :
    (∀ e ∈ (gatherAll C g cap Tree.empty ts).els, e.contentOk C ∨ e ∈ ts) ∧
    (∀ u ∈ (gatherAll C g cap Tree.empty ts).unc, u.contentOk C ∨ u ∈ ts) := by
  apply gatherAll_pred (fun x => x.contentOk C ∨ x ∈ ts)
  · intro t x hx
    rcases absorbOne_same_or_bound (C := C) t x with h | h
    · rw [h]; exact hx
    · exact Or.inl h
  · simp [Tree.empty]
  · simp [Tree.empty]
  · exact fun t ht => Or.inr ht

/-- … so if NO offered copy of the token carried this content unbound, the content is bound (weak, see above) -/
theorem content_of_bare_arrival_partial (ts : List Token) (e : Token)
    (he : e ∈ (gatherAll C g cap Tree.empty ts).els) (c : Bytes) (hc : e.content = some c)
    (hbad : ∀ o ∈ ts, o.core = e.core → o.content = some c → C.hash c = e.chash) : C.hash c = e.chash := by
  rcases (content_attach_checked (C := C) (g := g) (cap := cap) ts).1 e he with h | h
  · exact h c hc
  · exact hbad e h rfl hc

/-! ### verify / get_root_path -/

/-- `verify` says True only for a token that is signed by the tree key and linked to genesis through stored
    tokens that are signed too; `get_root_path` then returns exactly that path (token first, root last),
    no longer than `maxdepth`. -/
theorem verify_sound (tr : Tree) (t : Token) (d : Int) (h : verify C g tr t d = true) :
    Path C g tr.els t (rootPath C g tr t d) ∧ ((rootPath C g tr t d).length : Int) ≤ d := by
  unfold verify at h
  unfold rootPath
  cases hw : walk C g tr.els d.toNat t with
  | none => simp [hw] at h
  | some path =>
    obtain ⟨h1, h2⟩ := walk_sound tr.els _ t path hw
    refine ⟨h1, ?_⟩
    simp only [Option.getD_some]
    cases hn : d.toNat with
    | zero => rw [hn] at hw; simp [walk] at hw
    | succ k => omega

/-- a non-empty `get_root_path` is such a path and `verify` agrees with it -/
theorem root_path_sound (tr : Tree) (t : Token) (d : Int) (h : rootPath C g tr t d ≠ []) :
    Path C g tr.els t (rootPath C g tr t d) ∧ verify C g tr t d = true := by
  unfold rootPath at h
  cases hw : walk C g tr.els d.toNat t with
  | none => simp [hw] at h
  | some path =>
    have hv : verify C g tr t d = true := by simp [verify, hw]
    exact ⟨(verify_sound tr t d hv).1, hv⟩

/-- after any history: an offered token that `verify` accepts belongs to the least fixpoint
    (so forged, foreign and dangling tokens are never reported as part of the tree) -/
theorem verify_sound_history (ts : List Token) (t : Token) (d : Int) (hoff : Off ts t) (hsz : t.sized g = true)
    (h : verify C g (gatherAll C g cap Tree.empty ts) t d = true) : InTree C g ts t :=
  path_inTree (gather_sound ts) (verify_sound _ t d h).1 hoff hsz

/-- `verify` finds every element of a signed chain when `maxdepth` is at least the number of elements
    (the default 1000 covers trees of up to 1000 tokens) -/
theorem verify_complete (tr : Tree) (hc : Chained C g tr.els) (t : Token) (ht : t ∈ tr.els) (d : Int)
    (hd : (tr.els.length : Int) ≤ d) : verify C g tr t d = true := by
  unfold verify
  have := chained_walk hc t ht
  cases hw : walk C g tr.els tr.els.length t with
  | none => simp [hw] at this
  | some path => rw [walk_budget_le tr.els (by omega) hw]; rfl

/-! ### public serialisation -/

/-- Round trip: the full public dump of a signed chain, read back into an empty tree of the same key, is accepted
    completely (`True`), leaves nothing waiting and rebuilds the same tokens in the same order
    (content is not part of the public form). -/
theorem public_roundtrip (tr : Tree) (hc : Chained C g tr.els) (hw : ∀ t ∈ tr.els, WireOk C t) :
    unserializePublic C g cap Tree.empty (serializeAll tr) = (⟨tr.els.map Token.strip, []⟩, some true) := by
  simp only [unserializePublic, serializeAll, parse_serialize tr.els hw, reload_chained hc]
  rfl

/-- … in particular for every tree that was built by `gather_token` from wire-sized tokens -/
theorem public_roundtrip_history (ts : List Token) (hw : ∀ t ∈ ts, t.valid C = true → WireOk C t) :
    unserializePublic C g cap Tree.empty (serializeAll (gatherAll C g cap Tree.empty ts)) =
      (⟨(gatherAll C g cap Tree.empty ts).els.map Token.strip, []⟩, some true) := by
  apply public_roundtrip _ (gather_chained ts)
  intro e he
  have hin := gather_sound (C := C) (g := g) (cap := cap) ts e he
  obtain ⟨o, ho, hc⟩ := hin.off
  exact (hw o ho (by rw [valid_of_core C hc]; exact hin.valid)).of_core hc

/-- Round trip of a root path: `serialize_public(up_to)` of an element, read back into an empty tree, is parsed
    completely and rebuilds exactly the tokens of the element's root path (the chunks arrive child first, so they
    all pass through the waiting area: hence `|elements| ≤ cap`; `hg`: no stored token hashes to genesis). -/
theorem upto_roundtrip (tr : Tree) (t : Token) (hc : Chained C g tr.els) (ht : t ∈ tr.els)
    (hw : ∀ e ∈ tr.els, WireOk C e) (hg : hasId C tr.els g = false) (hinj : HashInj C tr.els)
    (hcap : tr.els.length ≤ cap) :
    (unserializePublic C g cap Tree.empty (serializeUpTo C tr t)).2.isSome = true ∧
    ∀ x, (unserializePublic C g cap Tree.empty (serializeUpTo C tr t)).1.holds x ↔
      ∃ y ∈ rootPath C g tr t tr.els.length, y.core = x.core := by
  have hsome := chained_walk hc t ht
  cases hwk : walk C g tr.els tr.els.length t with
  | none => simp [hwk] at hsome
  | some path =>
    obtain ⟨hpath, hlen⟩ := walk_sound tr.els _ t path hwk
    have hser : serializeUpTo C tr t = path.flatMap Token.signed :=
      upTo_eq_walk tr.els hg _ t path hwk _ (Nat.le_succ _)
    have hsub := hpath.subset ht
    have hparse := parse_serialize (C := C) path (fun x hx => hw x (hsub x hx))
    have hrp : rootPath C g tr t tr.els.length = path := by simp [rootPath, hwk]
    have hinj' : HashInj C (path.map Token.strip) := by
      intro a ha b hb hid
      obtain ⟨a', ha', rfl⟩ := List.mem_map.mp ha
      obtain ⟨b', hb', rfl⟩ := List.mem_map.mp hb
      exact hinj a' (hsub a' ha') b' (hsub b' hb') hid
    have hfit : Fits C g cap Tree.empty (path.map Token.strip) :=
      fits_of_length Tree.empty _ (by simp [Tree.empty]; omega)
    have I := history_full (g := g) (cap := cap) (path.map Token.strip) hfit hinj'
    simp only [unserializePublic, hser, hparse, gatherFlags_fst, hrp]
    refine ⟨rfl, fun x => ?_⟩
    unfold Tree.holds
    rw [inv_holds_iff I x]
    constructor
    · intro hx
      obtain ⟨o, ho, hoc⟩ := (off_map_strip path x).mp hx.off
      exact ⟨o, ho, hoc⟩
    · rintro ⟨y, hy, hyc⟩
      have hsz : ∀ z ∈ path, z.sized g = true := fun z hz => ok_sized C g (hc.closed z (hsub z hz)).1
      exact ((hpath.all_inTree hsz y hy).mono_off (fun z hz => (off_map_strip path z).mpr hz)).of_core hyc

/-- the owner's side: `add` / `add_by_hash` of a fresh, properly signed token under genesis or a stored token keeps
    the elements a signed chain (so the round trip above applies to trees built by their owner) -/
theorem own_add_chained (tr : Tree) (t : Token) (hc : Chained C g tr.els) (hv : t.ok C g = true)
    (hp : t.prev = g ∨ hasId C tr.els t.prev = true) (hd : hasId C tr.els (t.id C) = false) :
    (append C tr t).els = tr.els ++ [t] ∧ Chained C g (append C tr t).els := by
  have : (append C tr t).els = tr.els ++ [t] := by simp [append, dictSet, hd]
  exact ⟨this, this ▸ .snoc tr.els t hc hv hp hd⟩

/-- Arbitrary bytes: whatever string is fed to `unserialize_public` (on an empty tree), the resulting elements are a
    signed chain made of chunks of that string that verify under the tree key and are connected to genesis;
    this holds for the state left behind when the call ends in struct.error, too. -/
theorem unserialize_sound (s : Bytes) :
    Chained C g (unserializePublic C g cap Tree.empty s).1.els ∧
    ∀ e ∈ (unserializePublic C g cap Tree.empty s).1.els, InTree C g (parseChunks C.sigLen s).1 e := by
  unfold unserializePublic
  simp only [gatherFlags_fst]
  exact ⟨gather_chained _, gather_sound _⟩

/-- … and into a tree that already went through any history `ts0` (what `IdentityManager` does): the elements are in
    the fixpoint of everything that tree was ever offered, the parsed chunks included -/
theorem unserialize_sound_from (ts0 : List Token) (s : Bytes) :
    ∀ e ∈ (unserializePublic C g cap (gatherAll C g cap Tree.empty ts0) s).1.els,
      InTree C g (ts0 ++ (parseChunks C.sigLen s).1) e := by
  unfold unserializePublic
  simp only [gatherFlags_fst]
  have : gatherAll C g cap (gatherAll C g cap Tree.empty ts0) (parseChunks C.sigLen s).1 =
      gatherAll C g cap Tree.empty (ts0 ++ (parseChunks C.sigLen s).1) := by
    simp [gatherAll, List.foldl_append]
  rw [this]
  exact gather_sound _

/-- The flag of `unserialize_public` reports truthfully: `True` means the hash of EVERY chunk of the string is now a
    key of `elements`, whatever tree the string was loaded into (with `unserialize_sound_from`: such a chunk is then
    a signed, connected token unless the hash collides) -/
theorem unserialize_true_all_held (tr : Tree) (s : Bytes)
    (h : (unserializePublic C g cap tr s).2 = some true) :
    ∀ t ∈ (parseChunks C.sigLen s).1, hasId C (unserializePublic C g cap tr s).1.els (t.id C) = true := by
  unfold unserializePublic at h ⊢
  simp only [] at h ⊢
  cases hp : (parseChunks C.sigLen s).2 with
  | false => simp [hp] at h
  | true =>
    simp only [hp, ↓reduceIte, Option.some.injEq] at h
    exact flags_true_held _ _ h

/-! ### several trees of different keys in one process: what a token went through elsewhere does not matter -/

/- NOTE on what these three theorems carry.  In this model tokens are immutable VALUES and a view is a list slot, so
   "nothing carries over from another tree" cannot fail in the model whatever the code does: the theorems spell out
   the assumption under which every other theorem of this file applies to a process with several trees (verify is a
   function of key, plaintext and signature only), they do not establish it.  That the real Token OBJECTS behave like
   values across calls and trees is tied by the multi-tree scenarios of the harness alone (shared objects). -/

/-- Isolation: after any interleaved history of offers to any number of views (the same tokens may be shown to
    several views, in any order, any number of times), the state of view `i` is the state it would have reached
    had it alone been offered its own sub-history.  Nothing a token experienced at another tree — being verified,
    stored, kept waiting, refused — carries over. -/
theorem view_isolated (K : Keyed) (w : List View) (evs : List (Nat × Token)) (i : Nat) (v : View)
    (h : w[i]? = some v) :
    (runWorld K w evs)[i]? =
      some { v with tree := gatherAll (K.at v.key) (v.genesis K) v.cap v.tree (offeredTo i evs) } :=
  runWorld_get K evs w i v h

/-- Hence soundness per key: starting from fresh views, every element of view `i` is an offered token that is
    signed by THAT view's key and connected to ITS genesis, whatever the other views hold. -/
theorem view_sound (K : Keyed) (w : List View) (evs : List (Nat × Token)) (i : Nat) (key : Bytes) (cap : Nat)
    (h : w[i]? = some (View.fresh key cap)) :
    ∃ v', (runWorld K w evs)[i]? = some v' ∧ v'.key = key ∧
      ∀ e ∈ v'.tree.els, InTree (K.at key) (K.hash key) (offeredTo i evs) e := by
  refine ⟨_, view_isolated K w evs i _ h, rfl, ?_⟩
  exact gather_sound (C := K.at key) (g := K.hash key) (cap := cap) (offeredTo i evs)

/-- A foreign token — one whose signature does not verify under the key of view `i` — is never contained in
    view `i`, even if it verifies under the key of another view `j` that was offered it first (or holds it). -/
theorem foreign_never_contained (K : Keyed) (w : List View) (evs : List (Nat × Token)) (i : Nat) (key : Bytes)
    (cap : Nat) (h : w[i]? = some (View.fresh key cap)) (t : Token)
    (hv : K.vfyK key t.plain t.sig = false) :
    ∃ v', (runWorld K w evs)[i]? = some v' ∧ ¬ v'.tree.holds t := by
  refine ⟨_, view_isolated K w evs i _ h, ?_⟩
  exact forged_never_contained (C := K.at key) (g := K.hash key) (cap := cap) (offeredTo i evs) t hv

/-- Naming the key: a view opened with a key object that also holds the secret is the view opened with the bare public
    key — same key, same genesis (the hash of the PUBLIC serialisation), hence after any history the same tree.
    (Fails for a constructor that keeps the object as given: `toBin` of a secret holder is the private serialisation.) -/
theorem open_normalises_key (K : Keyed) (k : KeyObj) (cap : Nat) (ts : List Token) :
    View.open k cap = View.open k.pub cap ∧ (View.open k cap).key = k.pubBin ∧
    (View.open k cap).genesis K = K.hash k.pubBin ∧
    (ts.foldl (View.offer K) (View.open k cap)) = ts.foldl (View.offer K) (View.open k.pub cap) :=
  ⟨rfl, rfl, rfl, rfl⟩

/-! ### persistence: restarts of the identity manager do not smuggle anything into a tree -/

/-- After ANY history of `substantiate` (arbitrary bytes), `add_credential` (arbitrary tokens) and restarts of the
    manager on its database — a restart makes the stored rows the elements of a new tree without any check — every
    element, and every stored row, is an offered token that is signed by the tree key, digest sized and connected to
    genesis through such tokens; what waits was offered.  (Only elements are ever stored: a manager that also stored
    waiting tokens would turn a dangling token into an element at the next restart, and this invariant would fail.) -/
theorem restart_sound (evs : List PEvent) :
    (∀ e ∈ (Pseudo.run C g cap evs).tree.els, InTree C g (evs.flatMap (PEvent.offers C.sigLen)) e) ∧
    (∀ d ∈ (Pseudo.run C g cap evs).db, InTree C g (evs.flatMap (PEvent.offers C.sigLen)) d) ∧
    (∀ u ∈ (Pseudo.run C g cap evs).tree.unc, Off (evs.flatMap (PEvent.offers C.sigLen)) u) :=
  ⟨(run_inv evs).els, (run_inv evs).db, (run_inv evs).unc⟩

/- KNOWN FINDING (IdentityDatabase.insert_token:twin-row-ignored).  The full statement one wants after a restart is
   closedness, "every element's parent is genesis or an ELEMENT":

     theorem restart_closed (evs : List PEvent) :
         ∀ e ∈ (Pseudo.run C g cap evs).tree.els,
           e.prev = g ∨ hasId C (Pseudo.run C g cap evs).tree.els e.prev = true

   It is FALSE for the code as it is, and for the model that mirrors it: the table is keyed by the pointer pair, not by
   the signature, so of two validly signed tokens with the same pointers (re-signed twins) only the first gets a row,
   and after a restart the children of the second twin are elements without their parent.  `restart_closed_fails`
   below is the machine-checked witness.  What IS proved is `restart_sound` (every element and row is signed, sized and
   connected to genesis through OFFERED tokens — weaker than "through contained tokens"), and closedness between
   restarts (`gather_closed`).  Not proved: closedness after a restart under the hypothesis that the key never signs
   the same pointer pair twice (true for deterministic signatures such as curve25519); the persistence scenarios check
   it on the implementation. -/

/-- two valid signatures: the bytes 1 and 3 -/
def toyTwin : Crypto := ⟨fun x => [x.foldl (· + ·) 0], fun _ s => s == [1] || s == [3], 1⟩
def kA : Token := ⟨[0], [10], [1], none⟩            -- root, id [11]
def kT1 : Token := ⟨[11], [20], [1], none⟩          -- child of A, id [32]
def kT2 : Token := ⟨[11], [20], [3], none⟩          -- its re-signed twin, id [34]
def kC2 : Token := ⟨[34], [30], [1], none⟩          -- child of the twin
def twinHistory : List PEvent := [.credential kA, .credential kT1, .credential kT2, .credential kC2, .restart]

/-- the witness: all four tokens are elements before the restart; afterwards the twin's row is missing and its child
    is an element whose parent is not contained -/
theorem restart_closed_fails :
    (Pseudo.run toyTwin [0] 100 twinHistory).tree.els = [kA, kT1, kC2] ∧
    ¬ (∀ e ∈ (Pseudo.run toyTwin [0] 100 twinHistory).tree.els,
        e.prev = [0] ∨ hasId toyTwin (Pseudo.run toyTwin [0] 100 twinHistory).tree.els e.prev = true) := by
  have h : (Pseudo.run toyTwin [0] 100 twinHistory).tree.els = [kA, kT1, kC2] := by
    simp [Pseudo.run, twinHistory, Pseudo.step, Pseudo.addCredential, Pseudo.storeNew, Pseudo.restart, Pseudo.fresh,
      Tree.empty, gatherKind, Kind.isSome, gather, drain, dbInsert, dictSet, toyTwin, kA, kT1, kT2, kC2, Token.ok, Token.vok,
      Token.sized, Token.valid, Token.id, Token.signed, hasId, kidsOf, othersOf, Token.ofDatabaseTuple,
      Token.ofHash]
  refine ⟨h, ?_⟩
  rw [h]
  intro hall
  have := hall kC2 (by simp)
  simp [kC2, kA, kT1, hasId, toyTwin, Token.id, Token.signed] at this

/-- `Token.__init__`: exactly one of content / content_hash is accepted (both, or neither, is an error), and whatever
    it builds carries no content or content that hashes to its pointer -/
theorem init_bound (prev sig : Bytes) (content chash : Option Bytes) :
    (content.isSome = chash.isSome → Token.init C prev content chash sig = none) ∧
    ∀ t, Token.init C prev content chash sig = some t → t.contentOk C := by
  cases content <;> cases chash <;> simp [Token.init]
  · exact (constructors_bound (C := C) prev [] _ sig).2
  · exact (constructors_bound (C := C) prev _ [] sig).1

/-! ### the model's decisions ARE the source's decisions (re-proved against the source on every run)

  tools/gen_c16.py translates the `if` / `return` / `break` structure of `TokenTree.gather_token`, of the loop body of
  `TokenTree.verify` and `get_root_path`, and of `Token.receive_content` into decision trees (GenGather.lean).  The
  theorems below say: for EVERY tree state and token, the generated tree and the model take the same path
  (`…_matches_source`), and what the model does on each path (`gather_follows_act`, `walk_follows_act`).  Together
  with the theorems above this ties their hypotheses to the source: dropping the signature test, testing the parent
  with `or`, parking before verifying, copying a duplicate's content instead of `receive_content`, hoisting the
  signature test out of the verify loop, comparing `>=` or evicting the newest entry all change a generated definition
  and one of these theorems stops compiling.  Equivalent rewrites (guard clauses, `not (a or b)`, …) give other trees
  with the same meaning and the theorems still hold. -/

/-- gather_token: the path taken in the source = the path taken in the model -/
theorem gather_token_matches_source (tr : Tree) (t : Token) :
    Gen.gatherTree.eval (gatherVal C g tr t) = gatherAct C g tr t := by
  unfold Gen.gatherTree gatherAct gatherKind
  simp only [DTree.eval, Cond.eval, gatherVal, Token.ok, Token.vok, Token.sized, bne]
  rcases Bool.eq_false_or_eq_true (t.prev.length == g.length) with h1 | h1 <;>
  rcases Bool.eq_false_or_eq_true (t.chash.length == g.length) with h2 | h2 <;>
  rcases Bool.eq_false_or_eq_true (t.sig.length == C.sigLen) with h7 | h7 <;>
  rcases Bool.eq_false_or_eq_true (t.valid C) with h3 | h3 <;>
  rcases Bool.eq_false_or_eq_true (t.prev == g) with h4 | h4 <;>
  rcases Bool.eq_false_or_eq_true (hasId C tr.els t.prev) with h5 | h5 <;>
  rcases Bool.eq_false_or_eq_true (hasId C tr.els (t.id C)) with h6 | h6 <;>
  simp only [h1, h2, h3, h4, h5, h6, h7] <;> try (simp; done)
  all_goals
    obtain ⟨x, hx⟩ := lookup_of_hasId h6
    simp only [hx]
    cases x.content <;> cases t.content <;> simp

/-- what each path through gather_token does to the tree -/
theorem gather_follows_act (tr : Tree) (t : Token) :
    gather C g cap tr t =
      match gatherAct C g tr t with
      | .retNone => tr
      | .park => ⟨tr.els, uncAdd cap tr.unc t⟩
      | .shadowKeep => ⟨absorb C tr.els t, tr.unc⟩
      | .shadowReceive => ⟨absorb C tr.els t, tr.unc⟩
      | .chain => drain C g cap (tr.els ++ [t]) (othersOf tr.unc (t.id C)) (kidsOf tr.unc (t.id C))
      | _ => tr := by
  unfold gather gatherAct gatherKind
  rw [drain]
  by_cases hv : (!t.ok C g) = true
  · simp [hv, drain_nil]
  · by_cases ho : (t.prev != g && !hasId C tr.els t.prev) = true
    · simp [hv, ho, drain_nil]
    · by_cases hd : hasId C tr.els (t.id C) = true
      · obtain ⟨x, hx⟩ := lookup_of_hasId hd
        simp only [hv, ho, hd, hx, Bool.false_eq_true, ↓reduceIte, drain_nil]
        cases (x.content.isNone && t.content.isSome) <;> rfl
      · simp [hv, ho, hd]

/-- verify / get_root_path: one loop iteration in the source = one step of `walk` -/
theorem verify_loop_matches_source (els : List Token) (cur : Token) :
    Gen.verifyLoopTree.eval (walkVal C g els cur) = walkAct C g els cur ∧
    Gen.rootPathLoopTree.eval (walkVal C g els cur) = walkAct C g els cur := by
  unfold Gen.verifyLoopTree Gen.rootPathLoopTree walkAct
  simp only [DTree.eval, Cond.eval, walkVal, Token.vok, bne]
  rcases Bool.eq_false_or_eq_true (cur.chash.length == g.length) with h0 | h0 <;>
  rcases Bool.eq_false_or_eq_true (cur.sig.length == C.sigLen) with h7 | h7 <;>
  rcases Bool.eq_false_or_eq_true (cur.valid C) with h1 | h1 <;>
  rcases Bool.eq_false_or_eq_true (cur.prev == g) with h2 | h2 <;>
  rcases Bool.eq_false_or_eq_true (hasId C els cur.prev) with h3 | h3 <;>
  simp only [h0, h7, h1, h2, h3] <;> try (simp; done)
  · obtain ⟨x, hx⟩ := lookup_of_hasId h3
    simp [hx]
  · have := lookup_isSome C els cur.prev
    rw [h3] at this
    cases hl : lookup C els cur.prev with
    | none => simp
    | some x => simp [hl] at this

/-- what each path through one loop iteration does -/
theorem walk_follows_act (els : List Token) (n : Nat) (cur : Token) :
    walk C g els (n + 1) cur =
      match walkAct C g els cur with
      | .fail => none
      | .brk => some [cur]
      | .step => ((lookup C els cur.prev).bind (fun p => walk C g els n p)).map (cur :: ·)
      | _ => none := by
  rw [walk]
  unfold walkAct
  by_cases hv : (!(cur.chash.length == g.length && cur.vok C)) = true
  · rw [if_pos hv, if_pos hv]
  · rw [if_neg hv, if_neg hv]
    by_cases hg : (cur.prev == g) = true
    · simp [hg]
    · cases hl : lookup C els cur.prev <;> simp [hg]

/-- receive_content: content is set exactly on the path where the hashes were compared equal -/
theorem receive_content_matches_source (t : Token) (c : Bytes) :
    Gen.receiveTree.eval (receiveVal C t c) =
      (if (t.receiveContent C c).2 then .setContent else .retFalse) ∧
    ((t.receiveContent C c).2 = true → (t.receiveContent C c).1 = { t with content := some c }) ∧
    ((t.receiveContent C c).2 = false → (t.receiveContent C c).1 = t) := by
  unfold Gen.receiveTree Token.receiveContent
  simp only [DTree.eval, Cond.eval, receiveVal]
  rcases Bool.eq_false_or_eq_true (C.hash c == t.chash) with h | h <;> simp [h]

/-- the waiting area: evict when `len > max`, and the OLDEST entry (what `uncAdd` implements) -/
theorem waiting_bound_matches_source : Gen.capCmp = .gt ∧ Gen.popLast = false := by decide

/-! ### the constants the source has today (regenerated on every run by tools/gen_c16.py) -/

/-- the chunk size used by unserialize_public equals the width of the two hashes Token.unserialize reads -/
theorem wire_layout_consistent : Gen.chunkBase = Gen.prevLen + Gen.chashLen := gen_layout

/-- a fresh tree (constructor default `unchained_max_size`) never exceeds its waiting area on a history of at most
    that many tokens, so `elements_iff` / `order_independent` apply to all orders of such a history; the waiting
    area is bounded by the same number -/
theorem default_cap_fits (ts : List Token) (h : ts.length ≤ defaultCap) :
    Fits C g defaultCap Tree.empty ts ∧ (gatherAll C g defaultCap Tree.empty ts).unc.length ≤ defaultCap :=
  ⟨fits_of_small ts h, waiting_bounded ts⟩

/-- with the default `maxdepth`, `verify` accepts every element of a tree that has at most that many elements -/
theorem verify_default_complete (tr : Tree) (hc : Chained C g tr.els) (t : Token) (ht : t ∈ tr.els)
    (hd : (tr.els.length : Int) ≤ defaultMaxDepth) : verify C g tr t defaultMaxDepth = true :=
  verify_complete tr hc t ht _ hd

/-- the defaults are usable: a positive depth, a non-empty waiting area -/
theorem defaults_positive : 0 < defaultMaxDepth ∧ 0 < defaultCap := by decide

/-! ### non-vacuity: a toy scheme, a fork that arrives before its parent, a forged and a dangling token -/

/-- hash = the byte sum (injective on the tokens below), a signature is valid iff it is the byte 1 -/
def toy : Crypto := ⟨fun x => [x.foldl (· + ·) 0], fun _ s => s == [1], 1⟩
def tA : Token := ⟨[0], [10], [1], none⟩           -- child of genesis [0], id [11]
def tB : Token := ⟨[11], [20], [1], some [20]⟩     -- child of A, id [32], content [20] hashes to [20]
def tC : Token := ⟨[11], [30], [1], none⟩          -- child of A, id [42]
def tF : Token := ⟨[11], [40], [2], none⟩          -- forged: signature byte 2
def tD : Token := ⟨[99], [50], [1], none⟩          -- dangling: parent [99] unknown
def hist : List Token := [tB, tF, tC, tD, tA]

example : HashInj toy hist := by unfold HashInj; decide
example : Fits toy [0] 100 Tree.empty hist := fits_of_small _ (by decide)
example : InTree toy [0] hist tC :=
  .child tC tA (Off.self (by decide)) (by decide) (.root tA (Off.self (by decide)) (by decide) rfl) (by decide)
/-- B and C arrive before A and are both woken: the tree holds A, B, C and not the forged / dangling token -/
example : (gatherAll toy [0] 100 Tree.empty hist).holds tC :=
  (elements_iff hist (by unfold HashInj; decide) (fits_of_small _ (by decide)) tC).mpr
    (.child tC tA (Off.self (by decide)) (by decide) (.root tA (Off.self (by decide)) (by decide) rfl) (by decide))
example : ¬ (gatherAll toy [0] 100 Tree.empty hist).holds tF := forged_never_contained hist tF (by decide)
example : ∀ t ∈ hist, t.contentOk toy := by
  intro t ht c hc
  simp only [hist, List.mem_cons, List.not_mem_nil, or_false] at ht
  rcases ht with rfl | rfl | rfl | rfl | rfl
  · simp only [tB, Option.some.injEq] at hc; subst hc; decide
  all_goals (simp [tA, tC, tD, tF] at hc)
/-- a wire-sized chain for the round trip -/
def wA : Token := ⟨List.replicate 32 0, List.replicate 32 7, [1], some [7]⟩
example : WireOk toy wA := by unfold WireOk; decide
example : Chained toy (List.replicate 32 0) [wA] := .snoc [] wA .nil (by decide) (Or.inl rfl) (by decide)
/-- the model computes: the final state of the history above, and of another order with a waiting area of one -/
example : gatherAll toy [0] 100 Tree.empty hist = ⟨[tA, tB, tC], [tD]⟩ := by
  simp [gatherAll, gather, drain, Tree.empty, hist, toy, tA, tB, tC, tD, tF, Token.ok, Token.vok, Token.sized, Token.valid, Token.id,
    Token.signed, hasId, uncAdd, uncStore, kidsOf, othersOf, Token.same]
example : Fits toy [0] 1 Tree.empty [tB, tA, tC] := by
  simp [Fits, gatherKind, storeLen, gather, drain, Tree.empty, toy, tA, tB, tC, Token.ok, Token.vok, Token.sized, Token.valid, Token.id,
    Token.signed, Token.plain, hasId, uncAdd, uncStore, kidsOf, othersOf, Token.same]
/-- two keys: a signature is the key byte; `tX` is signed by key [7] but hangs off the genesis of key [5] -/
def toyK : Keyed := ⟨fun x => [x.foldl (· + ·) 0], fun k _ s => s == k, fun _ => 1⟩
def tX : Token := ⟨[5], [60], [7], none⟩
example : [View.fresh [7] 100, View.fresh [5] 100][1]? = some (View.fresh [5] 100) := rfl
example : toyK.vfyK [7] tX.plain tX.sig = true ∧ toyK.vfyK [5] tX.plain tX.sig = false := by decide
example : offeredTo 1 [(0, tX), (1, tX)] = [tX] := by decide
example : (View.open ⟨[5], some [9, 9]⟩ 100).genesis toyK = [5] ∧ (⟨[5], some [9, 9]⟩ : KeyObj).toBin = [9, 9] := by decide
/-- a duplicate of the stored bare token A that carries foreign content [66] is not taken over; the real content is -/
def tAbad : Token := { tA with content := some [66] }
def tAgood : Token := { tA with content := some [10] }
example : (gatherAll toy [0] 100 Tree.empty [tA, tAbad, tAgood]).els = [tAgood] := by
  simp [gatherAll, gather, drain, Tree.empty, toy, tA, tAbad, tAgood, Token.ok, Token.vok, Token.sized, Token.valid, Token.id, Token.signed, hasId,
    absorb, Token.receiveContent, kidsOf, othersOf]
example : verify toy [0] ⟨[tA, tB, tC], []⟩ tC 1000 = true := by decide
example : rootPath toy [0] ⟨[tA, tB, tC], []⟩ tC 2 = [tC, tA] := by decide
example : verify toy [0] ⟨[tA, tB, tC], []⟩ tC 1 = false := by decide
example : Chained toy [0] [tA, tB] :=
  .snoc [tA] tB (.snoc [] tA .nil (by decide) (Or.inl rfl) (by decide)) (by decide) (Or.inr (by decide)) (by decide)

end Ipv8.C16
