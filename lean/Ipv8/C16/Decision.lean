/-
  C16 — a tiny decision-tree language into which tools/gen_c16.py translates the branch structure of
  TokenTree.gather_token, of one iteration of the verify / get_root_path loop and of Token.receive_content
  (core Lean only; the generated trees are in GenGather.lean).

  Atoms are the elementary tests the source performs, actions are what a path through the function ends in.
-/
namespace Ipv8.C16

inductive Atom
  | prevLenNe            -- len(token.previous_token_hash) != len(self.genesis_hash)
  | chashLenNe           -- len(token.content_hash) != len(self.genesis_hash)
  | sigLenNe             -- len(token.signature) != self.public_key.get_signature_length()
  | verify               -- token.verify(self.public_key)
  | prevIsGenesis        -- token.previous_token_hash == self.genesis_hash
  | prevInElements       -- token.previous_token_hash in self.elements
  | hashInElements       -- token.get_hash() in self.elements
  | storedContentNone    -- self.elements[token.get_hash()].content is None
  | tokenContentNone     -- token.content is None
  | contentHashMatches   -- sha3_256(content).digest() == self.content_hash
deriving DecidableEq, Repr

inductive Cond
  | atom (a : Atom)
  | not (c : Cond)
  | and (a b : Cond)
  | or (a b : Cond)
deriving Repr

inductive Act
  | retNone          -- gather_token: return None, nothing stored
  | park             -- gather_token: self.unchained[token] = None ...; return None
  | shadowKeep       -- gather_token: return the stored token untouched
  | shadowReceive    -- gather_token: stored.receive_content(token.content); return the stored token
  | shadowAssign     -- (a regression) stored.content = token.content
  | chain            -- gather_token: self._append_chain_reaction_token(token); return token
  | fail             -- verify loop: return False / []
  | brk              -- verify loop: break (genesis reached)
  | step             -- verify loop: current = self.elements[current.previous_token_hash]; steps += 1
  | setContent       -- receive_content: self.content = content; return True
  | retFalse         -- receive_content: return False
deriving DecidableEq, Repr

inductive DTree
  | leaf (a : Act)
  | ite (c : Cond) (t e : DTree)
deriving Repr

def Cond.eval (v : Atom → Bool) : Cond → Bool
  | .atom a => v a
  | .not c => !(c.eval v)
  | .and a b => a.eval v && b.eval v
  | .or a b => a.eval v || b.eval v

def DTree.eval (v : Atom → Bool) : DTree → Act
  | .leaf a => a
  | .ite c t e => if c.eval v then t.eval v else e.eval v

/-- comparison used for the waiting-area bound -/
inductive Cmp | gt | ge | lt | le | eq | ne
deriving DecidableEq, Repr

end Ipv8.C16
