/-
  C16 — the model's decisions, stated so that they can be compared with the decision trees GENERATED from the source
  (GenGather.lean).  Core Lean only.
-/
import Ipv8.C16.Model
import Ipv8.C16.GenGather

namespace Ipv8.C16
open Ipv8

/-- what the elementary tests of gather_token evaluate to for token `t` offered to tree `tr` -/
def gatherVal (C : Crypto) (g : Bytes) (tr : Tree) (t : Token) : Atom → Bool
  | .prevLenNe => t.prev.length != g.length
  | .chashLenNe => t.chash.length != g.length
  | .sigLenNe => t.sig.length != C.sigLen
  | .verify => t.valid C
  | .prevIsGenesis => t.prev == g
  | .prevInElements => hasId C tr.els t.prev
  | .hashInElements => hasId C tr.els (t.id C)
  | .storedContentNone =>
    match lookup C tr.els (t.id C) with
    | some x => x.content.isNone
    | none => false
  | .tokenContentNone => t.content.isNone
  | .contentHashMatches => false

/-- the path the MODEL takes through gather_token -/
def gatherAct (C : Crypto) (g : Bytes) (tr : Tree) (t : Token) : Act :=
  match gatherKind C g tr t with
  | .invalid => .retNone
  | .orphan => .park
  | .added => .chain
  | .shadow =>
    match lookup C tr.els (t.id C) with
    | some x => if x.content.isNone && t.content.isSome then .shadowReceive else .shadowKeep
    | none => .shadowKeep

/-- the tests of one iteration of the verify / get_root_path loop, at token `cur` -/
def walkVal (C : Crypto) (g : Bytes) (els : List Token) (cur : Token) : Atom → Bool
  | .verify => cur.valid C
  | .chashLenNe => cur.chash.length != g.length
  | .sigLenNe => cur.sig.length != C.sigLen
  | .prevIsGenesis => cur.prev == g
  | .prevInElements => hasId C els cur.prev
  | _ => false

/-- the path the MODEL's `walk` takes through one iteration -/
def walkAct (C : Crypto) (g : Bytes) (els : List Token) (cur : Token) : Act :=
  if !(cur.chash.length == g.length && cur.vok C) then .fail
  else if cur.prev == g then .brk
  else match lookup C els cur.prev with
    | none => .fail
    | some _ => .step

def receiveVal (C : Crypto) (t : Token) (c : Bytes) : Atom → Bool
  | .contentHashMatches => C.hash c == t.chash
  | _ => false

end Ipv8.C16
